(* Tactics for the generated tie lemmas  `traced = model`. *)
From Coq Require Import Reals List Lra.
From PW Require Import Num NumR.
Import ListNotations.

Lemma cons_eq {A} (a b : A) (l l' : list A) : a = b -> l = l' -> a :: l = b :: l'.
Proof. intros; subst; reflexivity. Qed.

(* split an equation between explicit lists into one goal per element, solve each with tac *)
Ltac list_eq tac := repeat (apply cons_eq; [ tac | ]); try reflexivity.

(* turn the path condition (a conjunction of boolean comparisons) into order facts *)
Ltac path_facts H :=
  repeat match type of H with
  | _ /\ _ => let H1 := fresh "Hp" in destruct H as [H1 H];
      first [ apply Rltb_true in H1 | apply Rltb_false in H1 | apply Rleb_true in H1 | apply Rleb_false in H1
            | apply Reqb_true in H1 | apply Reqb_false in H1
            | (apply Bool.negb_true_iff in H1; apply Reqb_false in H1)
            | (apply Bool.negb_false_iff in H1; apply Reqb_true in H1) | idtac ]
  end; clear H.

Ltac list_eq_ring := list_eq ltac:(ring).
Ltac list_eq_field := list_eq ltac:(first [ring | field; auto]).

(* Equality of two real expressions whose square roots have ring-equal (not syntactically equal) arguments:
   rewrite every sqrt argument into one representative per ring-equality class, then ring / field.  This makes the
   tie lemmas independent of how the code arranges a squared length (x*x+y*y+z*z, einsum, norm, sum of squares ...). *)
Ltac unify_sqrts :=
  repeat match goal with
  | |- context [sqrt ?a] =>
      match goal with
      | |- context [sqrt ?b] =>
          lazymatch a with b => fail | _ => idtac end;
          replace a with b by ring
      end
  end.
Ltac ring_sqrt := first [ reflexivity | ring | (unfold Rdiv; unify_sqrts; first [ ring | field; auto ]) ].
