(* C18 — Line projection is closest point; reported line intersections lie on both lines.
   Only statements here; each is closed by `exact <lemma>` from proofs/P_line.v.
   `line_pt p d s = p + s d`; `on_line p q x` : x = p + s (q - p) for some s; `v0` is the zero vector; a NaN row is None.
   intersect_lines / intersect_2d_lines are the routines WITH the repairs of fixes/C18-intersect-*.diff (applied to
   /repo as fix: commits; see model/M_line.v).
   Spec vocabulary (v0, line_pt, on_line, on_line2, parallel2) lives in model/M_line_spec.v.
   project_point_to_line is modelled WITHOUT the power-of-two rescaling of the direction that /repo commit 36e7d06
   (fixes/C18-projection-extreme-lengths.diff) performs before normalising: over the reals that step is the identity on
   the result (C18_projection_ignores_direction_length below). What it repairs - overflow / underflow of the squared
   norm in binary64 for |direction| outside about [1e-150, 1e150] - is invisible to any real-number theorem; that part
   of "any non-zero length" is judged by the correspondence and the oracle on the proj_*_extreme stream and the pinned
   corpus cases (defect fixed, see known_findings/C18.json `fixed`). *)
From Coq Require Import ZArith Reals Lra List Bool.
From PW Require Import Num NumR Vec NpList Result.
From PW.model Require Import M_line M_line_spec.
From PW.proofs Require Import P_vec P_line.
Import ListNotations.
Local Open Scope R_scope.

(* direction vectors of any non-zero length: the result lies on the line, the residual is perpendicular to the
   direction, and no point of the line is closer to the query *)
Theorem C18_projection_on_line_residual_perp_closest : forall p ref a, a <> v0 ->
  exists x, project_point_to_line ROps p ref a = Some x /\
    (exists s, x = line_pt ref a s) /\
    vdot ROps (vsub ROps p x) a = 0 /\
    forall s, vnorm2 ROps (vsub ROps p x) <= vnorm2 ROps (vsub ROps p (line_pt ref a s)).
Proof. exact project_spec. Qed.

(* the projection does not depend on the length of the direction vector: the rescaling done by the code before it
   normalises (commit 36e7d06) does not change the modelled result *)
Theorem C18_projection_ignores_direction_length : forall p ref a c, 0 < c ->
  project_point_to_line ROps p ref (vscale ROps c a) = project_point_to_line ROps p ref a.
Proof. exact project_scale_invariant. Qed.

(* Line rejects a zero direction; an accepted line stores point and direction; from_points / reference_points *)
Theorem C18_line_rejects_zero_direction : forall p,
  line_ctor ROps p v0 = Raise ValueError /\
  (forall a l, line_ctor ROps p a = Ok l -> a <> v0 /\ l = MkLine p a) /\
  (forall q, line_from_points ROps p q = line_ctor ROps p (vsub ROps q p)) /\
  (forall a, reference_points ROps (MkLine p a) = (p, vadd ROps p a)).
Proof. exact line_rejects_zero_direction. Qed.
(* which directions Line accepts: exactly those with a component above 1e-8 (the binary64 constant) in absolute value *)
Theorem C18_line_accepts_iff : forall p a,
  (almost_zero ROps a = false -> line_ctor ROps p a = Ok (MkLine p a)) /\
  (almost_zero ROps a = true -> line_ctor ROps p a = Raise ValueError) /\
  (almost_zero ROps a = false <->
   atol ROps < Rabs (vx a) \/ atol ROps < Rabs (vy a) \/ atol ROps < Rabs (vz a)).
Proof. exact line_accepts_iff. Qed.
(* "lines at any scale (direction vectors of any non-zero length)" is false of Line: it refuses non-zero directions
   whose components are all at most 1e-8 (vg.almost_zero). Known finding C18 / line_rejects_tiny_nonzero_direction. *)
Theorem C18_line_accepts_any_nonzero_direction_refuted :
  exists p a, a <> v0 /\ line_ctor ROps p a = Raise ValueError.
Proof. exact line_rejects_tiny_nonzero. Qed.
(* lines built by Line.from_points: intersect_line is intersect_lines on the four defining points *)
Theorem C18_from_points_intersect : forall p0 q0 p1 q1 l l',
  line_from_points ROps p0 q0 = Ok l -> line_from_points ROps p1 q1 = Ok l' ->
  line_intersect_line ROps l l' = intersect_lines ROps p0 q0 p1 q1.
Proof. exact from_points_intersect. Qed.

(* whenever intersect_lines returns a point, it lies on both lines *)
Theorem C18_returned_point_on_both_lines : forall p0 q0 p1 q1 x, p0 <> q0 -> p1 <> q1 ->
  intersect_lines ROps p0 q0 p1 q1 = Some x -> on_line p0 q0 x /\ on_line p1 q1 x.
Proof. exact returned_point_on_both_lines. Qed.

(* completeness (over the reals, hence in particular for lattice inputs, whichever defining points coincide):
   exactly one common point -> it is returned; parallel and distinct -> None; skew -> None *)
Theorem C18_intersect_lines_complete : forall p0 q0 p1 q1, p0 <> q0 -> p1 <> q1 ->
  let e := vsub ROps p0 q0 in let f := vsub ROps p1 q1 in let g := vsub ROps p0 p1 in
  let k := vcross ROps f e in
  (k <> v0 -> forall M, on_line p0 q0 M -> on_line p1 q1 M -> intersect_lines ROps p0 q0 p1 q1 = Some M) /\
  (k = v0 -> ~ on_line p1 q1 p0 -> intersect_lines ROps p0 q0 p1 q1 = None) /\
  (vdot ROps g k <> 0 -> intersect_lines ROps p0 q0 p1 q1 = None).
Proof. exact intersect_lines_complete. Qed.

(* 2-D: None iff the directions are parallel; otherwise the unique common point, which lies on both lines *)
Theorem C18_intersect_2d_spec : forall p0 q0 p1 q1,
  (parallel2 p0 q0 p1 q1 -> intersect_2d_lines ROps p0 q0 p1 q1 = None) /\
  (~ parallel2 p0 q0 p1 q1 ->
     exists x, intersect_2d_lines ROps p0 q0 p1 q1 = Some x /\ on_line2 p0 q0 x /\ on_line2 p1 q1 x /\
               forall M, on_line2 p0 q0 M -> on_line2 p1 q1 M -> M = x).
Proof. exact intersect_2d_spec. Qed.

(* definitional: pins the shape of the model; the content is carried by the traced ties / correspondence ------------- *)
(* many points against one line, and points and lines paired row by row: the single form on every row *)
Theorem C18_projection_stacked_is_rowwise : forall ps ref a refs alongs k,
  nth_error (project_points_to_line ROps ps ref a) k =
    option_map (fun p => project_point_to_line ROps p ref a) (nth_error ps k) /\
  nth_error (project_points_to_lines ROps ps refs alongs) k =
    match nth_error ps k, nth_error refs k, nth_error alongs k with
    | Some p, Some r, Some d => Some (project_point_to_line ROps p r d)
    | _, _, _ => None
    end.
Proof. exact project_stacked_is_rowwise. Qed.

(* Line.project and Line.intersect_line delegate *)
Theorem C18_line_methods_delegate : forall l l' p,
  line_project ROps l p = project_point_to_line ROps p (lref l) (lalong l) /\
  line_intersect_line ROps l l' =
    intersect_lines ROps (lref l) (vadd ROps (lref l) (lalong l)) (lref l') (vadd ROps (lref l') (lalong l')).
Proof. exact line_methods_delegate. Qed.
(* end of the definitional block ----------------------------------------------------------------------------------------- *)

(* non-vacuity: the configuration on which the released code picks the wrong sign has a unique common point,
   (0, 1/3, 2/3), and the hypotheses of the completeness theorem hold for it *)
Example C18_wrong_sign_configuration_meets :
  let p0 := V3 1 0 1 in let q0 := V3 (-2) 1 0 in let p1 := V3 0 (-1) 0 in let q1 := V3 0 1 1 in
  on_line p0 q0 (V3 0 (1/3) (2/3)) /\ on_line p1 q1 (V3 0 (1/3) (2/3)) /\
  vcross ROps (vsub ROps p1 q1) (vsub ROps p0 q0) <> v0.
Proof.
  cbv zeta. split; [exists (1/3); unfold line_pt; apply V3_inj; cbn; field|].
  split; [exists (2/3); unfold line_pt; apply V3_inj; cbn; field|].
  unfold v0. cbn. intros E. injection E as E1 E2 E3. lra.
Qed.

(* non-vacuity of the other two conjuncts of the completeness theorem: parallel distinct lines, skew lines *)
Example C18_parallel_distinct_inhabited :
  let p0 := V3 0 1 2 in let q0 := V3 0 10 20 in let p1 := V3 1 2 3 in let q1 := V3 1 11 21 in
  vcross ROps (vsub ROps p1 q1) (vsub ROps p0 q0) = v0 /\ ~ on_line p1 q1 p0.
Proof.
  cbv zeta. split; [unfold v0; cbn; apply V3_inj; cbn; ring|].
  intros [s E]. unfold line_pt in E. cbn in E. injection E as E1 E2 E3. lra.
Qed.
Example C18_skew_inhabited :
  let p0 := V3 0 1 0 in let q0 := V3 1 0 0 in let p1 := V3 0 0 1 in let q1 := V3 1 1 1 in
  vdot ROps (vsub ROps p0 p1) (vcross ROps (vsub ROps p1 q1) (vsub ROps p0 q0)) <> 0.
Proof. cbn. lra. Qed.
(* a direction of any non-zero length meets the hypothesis of the projection theorem; Line accepts (2, 0, 0) *)
Example C18_direction_inhabited : V3 (1 / 1000000000) 0 0 <> v0 /\ almost_zero ROps (V3 2 0 0) = false.
Proof.
  split; [intros E; unfold v0 in E; injection E as E; lra|].
  unfold almost_zero, atol, nfrac; rops. cbn [vx vy vz]. rewrite (Rabs_pos_eq 2) by lra.
  rewrite (proj2 (Rleb_false 2 _)) by lra. reflexivity.
Qed.

Definition C18_all := (C18_projection_on_line_residual_perp_closest, C18_projection_ignores_direction_length, C18_projection_stacked_is_rowwise,
  C18_line_rejects_zero_direction, C18_line_accepts_iff, C18_line_accepts_any_nonzero_direction_refuted,
  C18_from_points_intersect, C18_line_methods_delegate, C18_returned_point_on_both_lines,
  C18_intersect_lines_complete, C18_intersect_2d_spec).
Print Assumptions C18_all.
