(* C05 — Plane point queries follow signed-distance semantics.
   Only statements here; each is closed by `exact <lemma>` from proofs/P_plane.v. *)
From Coq Require Import ZArith Reals List Bool Sorted.
From PW Require Import Num NumR Vec NpList.
From PW.model Require Import M_plane.
From PW.proofs Require Import P_plane.
Import ListNotations.
Local Open Scope R_scope.

(* signed distance = (point - reference point) . normal, for every plane (no unit hypothesis) *)
Theorem C05_sd_is_dot : forall pl p,
  plane_sd ROps pl p = vdot ROps (vsub ROps p (pref pl)) (pnormal pl).
Proof. exact sd_is_dot. Qed.

Theorem C05_sign_classifies : forall pl p,
  (plane_sign ROps pl p = 1%Z <-> 0 < plane_sd ROps pl p) /\
  (plane_sign ROps pl p = 0%Z <-> plane_sd ROps pl p = 0) /\
  (plane_sign ROps pl p = (-1)%Z <-> plane_sd ROps pl p < 0).
Proof. intros pl p. exact (conj (sign_pos pl p) (conj (sign_zero pl p) (sign_neg pl p))). Qed.

Theorem C05_distance_is_abs : forall pl p, plane_distance ROps pl p = Rabs (plane_sd ROps pl p).
Proof. exact distance_is_abs. Qed.

(* selection: index k is returned iff the k-th point is strictly in front (behind when inverted) *)
Theorem C05_in_front_selects : forall pl inv ps k,
  In k (points_in_front_idx ROps pl inv ps) <->
  exists p, nth_error ps k = Some p /\ (if inv then plane_sd ROps pl p < 0 else 0 < plane_sd ROps pl p).
Proof. exact in_front_idx_spec. Qed.
Theorem C05_on_or_in_front_selects : forall pl inv ps k,
  In k (points_on_or_in_front_idx ROps pl inv ps) <->
  exists p, nth_error ps k = Some p /\ (if inv then plane_sd ROps pl p <= 0 else 0 <= plane_sd ROps pl p).
Proof. exact on_or_in_front_idx_spec. Qed.

(* partitions, for point lists of every length *)
Theorem C05_front_partition : forall pl ps k, (k < length ps)%nat ->
  (In k (points_in_front_idx ROps pl false ps) <-> ~ In k (points_on_or_in_front_idx ROps pl true ps)).
Proof. exact front_partition. Qed.
Theorem C05_on_or_front_partition : forall pl ps k, (k < length ps)%nat ->
  (In k (points_on_or_in_front_idx ROps pl false ps) <-> ~ In k (points_in_front_idx ROps pl true ps)).
Proof. exact on_or_front_partition. Qed.
(* index lists are strictly increasing and in range; the returned points are the input rows at those indices *)
Theorem C05_indices_sorted_in_range : forall pl inv ps,
  StronglySorted lt (points_in_front_idx ROps pl inv ps) /\
  StronglySorted lt (points_on_or_in_front_idx ROps pl inv ps) /\
  Forall (fun i => (i < length ps)%nat) (points_in_front_idx ROps pl inv ps) /\
  Forall (fun i => (i < length ps)%nat) (points_on_or_in_front_idx ROps pl inv ps).
Proof. exact idx_sorted_in_range. Qed.
Theorem C05_points_are_rows_at_indices : forall pl inv ps,
  map Some (points_in_front ROps pl inv ps) = map (nth_error ps) (points_in_front_idx ROps pl inv ps) /\
  map Some (points_on_or_in_front ROps pl inv ps) = map (nth_error ps) (points_on_or_in_front_idx ROps pl inv ps).
Proof. exact points_are_take. Qed.

(* projection *)
Theorem C05_project_moves_along_normal : forall pl p,
  plane_project ROps pl p = vsub ROps p (vscale ROps (plane_sd ROps pl p) (pnormal pl)).
Proof. exact project_moves_along_normal. Qed.
Theorem C05_project_on_plane : forall pl p, unit_normal pl ->
  plane_sd ROps pl (plane_project ROps pl p) = 0.
Proof. exact project_on_plane. Qed.
Theorem C05_project_idempotent : forall pl p, unit_normal pl ->
  plane_project ROps pl (plane_project ROps pl p) = plane_project ROps pl p.
Proof. exact project_idempotent. Qed.

(* the same laws without the unit hypothesis (constructor-accepted normals are unit only to 1e-6): exact defect terms *)
Theorem C05_project_sd_defect : forall pl p,
  plane_sd ROps pl (plane_project ROps pl p) = plane_sd ROps pl p * (1 - vnorm2 ROps (pnormal pl)).
Proof. exact project_sd_defect. Qed.
Theorem C05_mirror_sd_defect : forall pl p,
  plane_sd ROps pl (plane_mirror ROps pl p) = plane_sd ROps pl p * (1 - 2 * vnorm2 ROps (pnormal pl)).
Proof. exact mirror_sd_defect. Qed.
Theorem C05_project_twice_defect : forall pl p,
  plane_project ROps pl (plane_project ROps pl p) =
  vsub ROps (plane_project ROps pl p)
       (vscale ROps (plane_sd ROps pl p * (1 - vnorm2 ROps (pnormal pl))) (pnormal pl)).
Proof. exact project_twice_defect. Qed.

Theorem C05_canonical_sd_defect : forall pl,
  plane_sd ROps pl (canonical_point ROps pl) = vdot ROps (pref pl) (pnormal pl) * (vnorm2 ROps (pnormal pl) - 1).
Proof. exact canonical_sd_defect. Qed.
Theorem C05_mirror_twice_defect : forall pl p,
  plane_mirror ROps pl (plane_mirror ROps pl p) =
  vadd ROps p (vscale ROps (4 * plane_sd ROps pl p * (vnorm2 ROps (pnormal pl) - 1)) (pnormal pl)).
Proof. exact mirror_twice_defect. Qed.

(* mirroring *)
Theorem C05_mirror_negates : forall pl p, unit_normal pl ->
  plane_sd ROps pl (plane_mirror ROps pl p) = - plane_sd ROps pl p.
Proof. exact mirror_negates. Qed.
Theorem C05_mirror_involution : forall pl p, unit_normal pl ->
  plane_mirror ROps pl (plane_mirror ROps pl p) = p.
Proof. exact mirror_involution. Qed.
Theorem C05_mirror_midpoint_is_projection : forall pl p,
  vscale ROps (1 / 2) (vadd ROps p (plane_mirror ROps pl p)) = plane_project ROps pl p.
Proof. exact mirror_midpoint_is_projection. Qed.

(* flipped, equation, canonical point *)
Theorem C05_flipped_negates : forall pl p, plane_sd ROps (flipped ROps pl) p = - plane_sd ROps pl p.
Proof. exact flipped_negates. Qed.
Theorem C05_flipped_same_point_set : forall pl p,
  plane_sd ROps (flipped ROps pl) p = 0 <-> plane_sd ROps pl p = 0.
Proof. exact flipped_same_point_set. Qed.
(* (the first conjunct restates C05_sd_is_dot through the equation; the second pins the normal part) *)
Theorem C05_equation_describes_plane : forall pl p,
  sd_eq ROps p (plane_equation ROps pl) = vdot ROps (vsub ROps p (pref pl)) (pnormal pl) /\
  eq_normal (plane_equation ROps pl) = pnormal pl.
Proof. exact equation_describes_plane. Qed.
Theorem C05_canonical_point_on_plane : forall pl, unit_normal pl ->
  plane_sd ROps pl (canonical_point ROps pl) = 0.
Proof. exact canonical_point_on_plane. Qed.

(* stacked forms (shared equation, or one equation per point) equal the single form row by row.
   definitional: these two pin the shape of the model (stacking = map / map2); the clause itself is carried by the traced
   ties (stacks of 2 through the real code) and by the correspondence check (stacks of 0..8) *)
Theorem C05_stacked_is_map_single : forall ps e k,
  nth_error (sd_stack ROps ps e) k = option_map (fun p => sd_eq ROps p e) (nth_error ps k) /\
  nth_error (project_stack ROps ps e) k = option_map (fun p => project_eq ROps p e) (nth_error ps k) /\
  nth_error (mirror_stack ROps ps e) k = option_map (fun p => mirror_eq ROps p e) (nth_error ps k).
Proof. exact stacked_is_map_single. Qed.
Theorem C05_pairs_is_map_single : forall ps es k p e,
  nth_error ps k = Some p -> nth_error es k = Some e ->
  nth_error (sd_pairs ROps ps es) k = Some (sd_eq ROps p e) /\
  nth_error (project_pairs ROps ps es) k = Some (project_eq ROps p e) /\
  nth_error (mirror_pairs ROps ps es) k = Some (mirror_eq ROps p e).
Proof. exact pairs_is_map_single. Qed.

Theorem C05_pairs_length : forall ps es, length ps = length es ->
  length (sd_pairs ROps ps es) = length ps /\ length (project_pairs ROps ps es) = length ps /\
  length (mirror_pairs ROps ps es) = length ps.
Proof. exact pairs_length. Qed.

(* non-vacuity: a plane with a unit (non-axis) normal exists *)
Example C05_unit_normal_inhabited :
  unit_normal (MkPlane (V3 1 2 3) (V3 (2/3) (-1/3) (2/3))).
Proof. unfold unit_normal, vnorm2, vdot; cbn. field. Qed.

(* one pass over all of them *)
Definition C05_all := (C05_canonical_sd_defect, C05_mirror_twice_defect,
  C05_project_sd_defect, C05_mirror_sd_defect, C05_project_twice_defect, C05_pairs_length,
  C05_sd_is_dot,
  C05_sign_classifies,
  C05_front_partition,
  C05_on_or_front_partition,
  C05_in_front_selects,
  C05_on_or_in_front_selects,
  C05_indices_sorted_in_range,
  C05_points_are_rows_at_indices,
  C05_project_on_plane,
  C05_project_idempotent,
  C05_project_moves_along_normal,
  C05_mirror_negates,
  C05_mirror_involution,
  C05_mirror_midpoint_is_projection,
  C05_flipped_negates,
  C05_flipped_same_point_set,
  C05_equation_describes_plane,
  C05_canonical_point_on_plane,
  C05_stacked_is_map_single,
  C05_pairs_is_map_single,
  C05_distance_is_abs).
Print Assumptions C05_all.
