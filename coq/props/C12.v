(* C12 — Viewing matrices map the documented volumes and inverse=True really inverts.
   Only statements here; each is closed by `exact <lemma>` from proofs/P_viewing.v.
   The models of coq/model/M_viewing.v are pinned to polliwog/transform/_viewing.py on every run by the traced
   kernels of tools/props/C12.py (one per function and per value of `inverse`). *)
From Coq Require Import ZArith Reals Lra List Bool.
From PW Require Import Num NumR Vec Mat Result.
From PW.model Require Import M_viewing M_viewing_spec.
From PW.proofs Require Import P_viewing.
Import ListNotations.
Local Open Scope R_scope.

(* camera_ok position target up (P_viewing.v): the domain of world_to_view — camera position and target differ,
   and up is not parallel to the viewing direction:  target <> position /\ (target - position) x up <> 0 *)

(* MAGNITUDE DOMAIN (binary64 only; the theorems below are over the reals and have no such restriction): the code normalises
   target - position and look x up with vg.normalize, which squares the components.  For |target - position| or |up| outside
   about 1e-154 .. 1e154 the square overflows / underflows and world_to_view returns NaN rows, all-zero rows or rows that are
   not of unit length, without raising (e.g. up = (0,1e200,0)).  The property's quantifier does not speak of magnitudes; the
   check samples 2^-40 .. 2^40 and records, without judging, what happens at 2^+-520..700 (tools/props/C12.py ASSUMPTIONS). *)

(* ---- world_to_view ---------------------------------------------------------------------------------- *)
(* on its domain the function returns a NaN-free matrix, the one the theorems below speak about *)
Theorem C12_w2v_defined : forall position target up inv, camera_ok position target up ->
  world_to_view ROps position target up inv = Some (w2v_mat ROps position target up inv).
Proof. intros p t u inv [H1 H2]. exact (w2v_defined p t u H1 H2 inv). Qed.

(* distance preserving: for all pairs of points, and affine (last row 0 0 0 1) *)
Theorem C12_w2v_isometry : forall position target up a b, camera_ok position target up ->
  let m := w2v_mat ROps position target up false in
  vdist ROps (mapply_pt ROps m a) (mapply_pt ROps m b) = vdist ROps a b /\ affine ROps m.
Proof. intros p t u a b [H1 H2]. exact (conj (w2v_isometry p t u H1 H2 a b) (affine_w2v p t u)). Qed.

Theorem C12_w2v_position_to_origin : forall position target up, camera_ok position target up ->
  mapply_pt ROps (w2v_mat ROps position target up false) position = V3 0 0 0.
Proof. intros p t u [H1 H2]. exact (w2v_position_to_origin p t u H1 H2). Qed.

(* the target lands on the positive z axis at its true distance from the camera *)
Theorem C12_w2v_target_on_pos_z_at_distance : forall position target up, camera_ok position target up ->
  mapply_pt ROps (w2v_mat ROps position target up false) target = V3 0 0 (vdist ROps target position) /\
  0 < vdist ROps target position.
Proof. intros p t u [H1 H2]. exact (w2v_target_on_pos_z p t u H1 H2). Qed.

(* the up direction (a vector: translation ignored) lands in the y-z plane, on the side of positive y *)
Theorem C12_w2v_up_in_yz_pos_y : forall position target up, camera_ok position target up ->
  let u := mapply_vec ROps (w2v_mat ROps position target up false) up in vx u = 0 /\ 0 < vy u.
Proof. intros p t u [H1 H2]. exact (w2v_up_in_yz_pos_y p t u H1 H2). Qed.

Theorem C12_w2v_inverse_is_inverse : forall position target up, camera_ok position target up ->
  mmul ROps (w2v_mat ROps position target up true) (w2v_mat ROps position target up false) = I4 ROps /\
  mmul ROps (w2v_mat ROps position target up false) (w2v_mat ROps position target up true) = I4 ROps.
Proof. intros p t u [H1 H2]. exact (conj (w2v_inverse_left p t u H1 H2) (w2v_inverse_right p t u H1 H2)). Qed.

(* ---- view_to_orthographic_projection ------------------------------------------------------------------ *)
Theorem C12_ortho_defined : forall w h near far inv, 0 < w -> 0 < h -> near < far ->
  view_to_orthographic_projection ROps w h near far inv = Ok (ortho_mat ROps w h near far inv).
Proof. exact ortho_defined. Qed.

(* a point is in the view box (|x| <= w/2, |y| <= h/2, -far <= z <= -near) iff its image is in [-1,1]^3 *)
Theorem C12_ortho_maps_box_to_cube : forall w h near far p, 0 < w -> 0 < h -> near < far ->
  (in_view_box w h near far p <-> in_cube (mapply_pt ROps (ortho_mat ROps w h near far false) p)).
Proof. exact ortho_box_iff_cube. Qed.

(* the eight corners: (sx w/2, sy h/2, -near) |-> (sx, sy, -1) and (sx w/2, sy h/2, -far) |-> (sx, sy, 1) *)
Theorem C12_ortho_corners_near_to_minus_one : forall w h near far sx sy, 0 < w -> 0 < h -> near < far ->
  mapply_pt ROps (ortho_mat ROps w h near far false) (V3 (sx * (w / 2)) (sy * (h / 2)) (- near)) = V3 sx sy (-1) /\
  mapply_pt ROps (ortho_mat ROps w h near far false) (V3 (sx * (w / 2)) (sy * (h / 2)) (- far)) = V3 sx sy 1.
Proof. exact ortho_corners. Qed.

Theorem C12_ortho_inverse_is_inverse : forall w h near far, 0 < w -> 0 < h -> near < far ->
  mmul ROps (ortho_mat ROps w h near far true) (ortho_mat ROps w h near far false) = I4 ROps /\
  mmul ROps (ortho_mat ROps w h near far false) (ortho_mat ROps w h near far true) = I4 ROps.
Proof. exact ortho_inverse. Qed.

(* ---- viewport_transform ------------------------------------------------------------------------------- *)
Theorem C12_viewport_defined : forall xr yb xl yt inv, xr <> xl -> yt <> yb ->
  viewport_transform ROps xr yb xl yt inv = Ok (viewport_mat ROps xr yb xl yt inv).
Proof. exact viewport_defined. Qed.

(* x=-1 -> x_left, x=1 -> x_right, y=-1 -> y_bottom, y=1 -> y_top (for every depth z) *)
Theorem C12_viewport_maps_corners : forall xr yb xl yt z,
  mapply_pt ROps (viewport_mat ROps xr yb xl yt false) (V3 (-1) (-1) z) = V3 xl yb ((z + 1) / 2) /\
  mapply_pt ROps (viewport_mat ROps xr yb xl yt false) (V3 1 (-1) z) = V3 xr yb ((z + 1) / 2) /\
  mapply_pt ROps (viewport_mat ROps xr yb xl yt false) (V3 (-1) 1 z) = V3 xl yt ((z + 1) / 2) /\
  mapply_pt ROps (viewport_mat ROps xr yb xl yt false) (V3 1 1 z) = V3 xr yt ((z + 1) / 2).
Proof. exact viewport_corners. Qed.

(* in between the map is the affine interpolation between the corners *)
Theorem C12_viewport_interpolates : forall xr yb xl yt x y z,
  mapply_pt ROps (viewport_mat ROps xr yb xl yt false) (V3 x y z)
  = V3 (xl + (x + 1) / 2 * (xr - xl)) (yb + (y + 1) / 2 * (yt - yb)) ((z + 1) / 2).
Proof. exact viewport_apply. Qed.

Theorem C12_viewport_z_to_unit : forall xr yb xl yt x y z,
  let q := mapply_pt ROps (viewport_mat ROps xr yb xl yt false) (V3 x y z) in
  (z = -1 -> vz q = 0) /\ (z = 1 -> vz q = 1) /\ (-1 <= z <= 1 <-> 0 <= vz q <= 1).
Proof. exact viewport_z_to_unit. Qed.

Theorem C12_viewport_inverse_is_inverse : forall xr yb xl yt, xr <> xl -> yt <> yb ->
  mmul ROps (viewport_mat ROps xr yb xl yt true) (viewport_mat ROps xr yb xl yt false) = I4 ROps /\
  mmul ROps (viewport_mat ROps xr yb xl yt false) (viewport_mat ROps xr yb xl yt true) = I4 ROps.
Proof. exact viewport_inverse. Qed.

(* ---- world_to_canvas_orthographic_projection ------------------------------------------------------------ *)
Theorem C12_canvas_defined : forall w h position target zoom inv, 0 < w -> 0 < h -> 0 < zoom ->
  camera_ok position target (V3 0 1 0) ->
  world_to_canvas ROps w h position target zoom inv = Ok (Some (canvas_mat ROps w h position target zoom inv)).
Proof. intros w h p t zoom inv Hw Hh Hz [H1 H2]. exact (canvas_defined w h p t zoom inv Hw Hh Hz H1 H2). Qed.

(* canvas = the three stages composed in order, through the FUNCTION-level definitions (with their error and NaN
   outcomes): whenever the canvas function returns a matrix, so do world_to_view(position, target) [default up = +y],
   view_to_orthographic_projection(width/zoom, height/zoom) [default near 0.1, far 2000] and
   viewport_transform(x_right=width, y_bottom=height) [defaults 0, 0], and the canvas matrix is their product with the view
   stage applied first (for inverse=True: the stage inverses in reverse order).
   That the CODE composes the results of its own three public functions this way is re-proved on every run on the traced
   code: lemmas T_canvas_compose / T_canvas_inv_compose (composite = product of the traced stage matrices, all from one
   run) and T_canvas_stages / T_canvas_inv_stages (traced stages = modelled stages) in tools/props/C12.py. *)
Theorem C12_canvas_is_product_of_stage_functions : forall w h position target zoom inv m,
  world_to_canvas ROps w h position target zoom inv = Ok (Some m) ->
  exists a b c,
    world_to_view ROps position target (V3 0 1 0) inv = Some a /\
    view_to_orthographic_projection ROps (w / zoom) (h / zoom) (1 / 10) 2000 inv = Ok b /\
    viewport_transform ROps w h 0 0 inv = Ok c /\
    m = if inv then mmul ROps (mmul ROps a b) c else mmul ROps (mmul ROps c b) a.
Proof. exact canvas_is_product_of_function_results. Qed.

(* ... and the other two outcomes, so that the function-level model of the canvas is determined by its stages:
   it raises (always ZeroDivisionError) iff zoom = 0 (the division width/zoom) or the projection or the viewport stage raises
   ZeroDivisionError; it returns the NaN marker iff nothing raises and world_to_view returns the NaN marker *)
Theorem C12_canvas_fails_iff_a_stage_fails : forall w h position target zoom inv,
  (forall e, world_to_canvas ROps w h position target zoom inv = Raise e <->
     e = ZeroDivisionError /\
     (zoom = 0 \/ view_to_orthographic_projection ROps (w / zoom) (h / zoom) (1 / 10) 2000 inv = Raise ZeroDivisionError
               \/ viewport_transform ROps w h 0 0 inv = Raise ZeroDivisionError)) /\
  (world_to_canvas ROps w h position target zoom inv = Ok None <->
     zoom <> 0 /\ (exists b, view_to_orthographic_projection ROps (w / zoom) (h / zoom) (1 / 10) 2000 inv = Ok b) /\
     (exists c, viewport_transform ROps w h 0 0 inv = Ok c) /\ world_to_view ROps position target (V3 0 1 0) inv = None).
Proof.
  intros w h p t zoom inv. exact (conj (fun e => canvas_raises_iff w h p t zoom inv e) (canvas_nan_iff w h p t zoom inv)).
Qed.

(* on points: camera, then projection, then viewport *)
Theorem C12_canvas_applies_stages_in_order : forall w h position target zoom x,
  mapply_pt ROps (canvas_mat ROps w h position target zoom false) x =
  mapply_pt ROps (viewport_mat ROps w h 0 0 false)
    (mapply_pt ROps (ortho_mat ROps (w / zoom) (h / zoom) (1 / 10) 2000 false)
       (mapply_pt ROps (w2v_mat ROps position target (V3 0 1 0) false) x)).
Proof. exact canvas_apply_stages. Qed.

Theorem C12_canvas_inverse_is_inverse : forall w h position target zoom, 0 < w -> 0 < h -> 0 < zoom ->
  camera_ok position target (V3 0 1 0) ->
  mmul ROps (canvas_mat ROps w h position target zoom true) (canvas_mat ROps w h position target zoom false) = I4 ROps /\
  mmul ROps (canvas_mat ROps w h position target zoom false) (canvas_mat ROps w h position target zoom true) = I4 ROps.
Proof. intros w h p t zoom Hw Hh Hz [H1 H2]. exact (canvas_inverse w h p t zoom Hw Hh Hz H1 H2). Qed.

(* ================================================================================================================ *)
(* definitional: pins the shape of the model; the content is carried by the traced ties / correspondence             *)
(*   canvas_mat is DEFINED as this product (closed by reflexivity; it would hold whatever the code does).  The clause   *)
(*   "the canvas projection equals the three stages composed in order" is carried, for the code, by the traced lemmas  *)
(*   T_canvas_compose, T_canvas_inv_compose, T_canvas_stages, T_canvas_inv_stages (re-proved every run) and, at function *)
(*   level, by C12_canvas_is_product_of_stage_functions above.                                                          *)
(* ================================================================================================================ *)
(* the matrix of the model is the product of the three stage matrices, camera first, with width/zoom and height/zoom,
   default near 0.1 / far 2000 and the viewport (0,0)-(width,height); reversed order of inverses for inverse=True *)
Theorem C12_canvas_is_three_stages : forall w h position target zoom,
  canvas_mat ROps w h position target zoom false =
    mmul ROps (mmul ROps (viewport_mat ROps w h 0 0 false) (ortho_mat ROps (w / zoom) (h / zoom) (1 / 10) 2000 false))
              (w2v_mat ROps position target (V3 0 1 0) false) /\
  canvas_mat ROps w h position target zoom true =
    mmul ROps (mmul ROps (w2v_mat ROps position target (V3 0 1 0) true) (ortho_mat ROps (w / zoom) (h / zoom) (1 / 10) 2000 true))
              (viewport_mat ROps w h 0 0 true).
Proof. exact canvas_is_three_stages. Qed.


(* non-vacuity: a camera that is neither axis aligned nor looking along up *)
Example C12_camera_ok_inhabited : camera_ok (V3 1 2 3) (V3 (-1) 0 4) (V3 0 1 0).
Proof.
  split.
  - intros E. injection E as E1 E2 E3. lra.
  - cbv [vcross vsub vx vy vz nsub nmul ROps]. intros E. injection E as E1 E2 E3. lra.
Qed.

Definition C12_all := (C12_w2v_defined, C12_w2v_isometry, C12_w2v_position_to_origin,
  C12_w2v_target_on_pos_z_at_distance, C12_w2v_up_in_yz_pos_y, C12_w2v_inverse_is_inverse,
  C12_ortho_defined, C12_ortho_maps_box_to_cube, C12_ortho_corners_near_to_minus_one, C12_ortho_inverse_is_inverse,
  C12_viewport_defined, C12_viewport_maps_corners, C12_viewport_interpolates, C12_viewport_z_to_unit,
  C12_viewport_inverse_is_inverse,
  C12_canvas_defined, C12_canvas_is_product_of_stage_functions, C12_canvas_fails_iff_a_stage_fails, C12_canvas_is_three_stages, C12_canvas_applies_stages_in_order, C12_canvas_inverse_is_inverse).
Print Assumptions C12_all.
