(* C09 — Polyline is an immutable value whose edits match a plain list-of-points model.
   Only statements; each closed by `exact <lemma>` from proofs/P_polyline_ops.v / P_polyline_insert.v.
   code side  (c_*, edges_for, code_impl): code-shaped model of polliwog/polyline/_polyline_object.py and _edges.py
              (with_insertions as repaired by /repo commit 9e3d823 = fixes/C09-insertion-index-maps.diff; the constructor
              stores a float64 copy = commit 9b9f8e2 (fixes/C09-integer-vertices.diff), so integer arrays hold the same points as reals);
   spec side  (s_*, spec_*, spec_impl): the same operations on an ordered list of points.
   Immutability / aliasing (write flags, shared memory, receiver unchanged in memory) is not a Gallina notion:
   it is asserted by the correspondence harness on every call (validated, not proved); what IS proved here is
   that no operation of the model changes or removes an existing value (C09_pool_only_grows). *)
From Coq Require Import ZArith Reals List Bool Lia.
From PW Require Import Num NumR Vec NpList Result.
From PW.model Require Import M_polyline_base M_polyline_spec M_polyline_ops.
From PW.proofs Require Import P_polyline_insert P_polyline_ops.
Import ListNotations.

(* edges always join consecutive vertices, plus last-to-first exactly when closed (every n) *)
Theorem C09_edges_spec : forall n closed k,
  nth_error (edges_for n closed) k =
  if (S k <? n)%nat then Some (k, S k)
  else if closed && (S k =? n)%nat then Some (k, 0%nat) else None.
Proof. exact edges_nth. Qed.

(* ---- every operation refines the list specification, for all polylines and all arguments ------------ *)
Theorem C09_rolled_refines_spec : forall (p : polyline R) (k : Z), c_rolled p k = s_rolled p k.
Proof. exact rolled_refines. Qed.
Theorem C09_sliced_at_indices_refines_spec : forall (p : polyline R) s t,
  (s <= length (pv p))%nat -> (t <= length (pv p))%nat -> c_sliced p s t = s_sliced p s t.
Proof. exact sliced_refines. Qed.
Theorem C09_sectioned_refines_spec : forall (p : polyline R) bps, c_sectioned p bps = s_sectioned p bps.
Proof. exact sectioned_refines. Qed.
(* with_insertions (stable argsort, scatter of positions, searchsorted side="right", np.insert's fill of the new array):
   the new vertices and BOTH index maps equal the stable-insertion specification and its counting maps
   (original vertex i -> i + #{j : idx_j <= i}; inserted point j -> idx_j + #{k : idx_k < idx_j} + #{k < j : idx_k = idx_j}),
   for every polyline, every number of points and every index vector (repeated / end / negative positions -n..-1).
   Out of range: an index above num_v, or a single index below -num_v, is IndexError in both (as in NumPy); an index
   vector of two or more entries with one below -num_v is NOT modelled (NumPy wraps it twice or raises ValueError; both
   sides carry the marker OtherError, histories exclude it through history_in_range, the correspondence does not judge it) *)
Theorem C09_with_insertions_refines_spec : forall (p : polyline R) pts idx, c_insert p pts idx = s_insert p pts idx.
Proof. exact insert_refines. Qed.
Theorem C09_index_of_vertex_refines_spec : forall p pt, c_index_of ROps p pt = s_index_of ROps p pt.
Proof. exact index_of_refines. Qed.
(* aligned_with: vg.project / vg.scale_factor (with their NaN outcomes for a zero vector / zero projection) flip
   exactly when extent . vector < 0 *)
Theorem C09_aligned_with_refines_spec : forall (p : polyline R) v, c_aligned ROps p v = s_aligned ROps p v.
Proof. exact aligned_refines. Qed.
Theorem C09_apex_refines_spec : forall p ax, c_apex ROps p ax = s_apex ROps p ax.
Proof. exact apex_refines. Qed.
Theorem C09_bounding_box_refines_spec : forall p, c_bbox ROps p = s_bbox ROps p.
Proof. exact bbox_refines. Qed.
Theorem C09_len_num_v_num_e_refine_spec : forall p : polyline R, c_len p = s_len p.
Proof. exact len_refines. Qed.

(* ---- what the specification says, declaratively ----------------------------------------------------------- *)
(* rolled, every integer k: new vertex i is old vertex (i + k) mod n and the edge mapping is that index ... *)
Theorem C09_rolled_vertex_and_mapping : forall (v : list (vec3 R)) (k : Z) i, (i < length v)%nat ->
  nth_error (spec_rot_map k (length v)) i = Some (Z.to_nat ((Z.of_nat i + k) mod Z.of_nat (length v))) /\
  nth_error (spec_rot k v) i = nth_error v (Z.to_nat ((Z.of_nat i + k) mod Z.of_nat (length v))).
Proof. exact rolled_vertex_and_map. Qed.
(* ... and original.segments[edge_mapping] = rolled.segments (both end points of every edge, closing edge included) *)
Theorem C09_rolled_edge_mapping_spec : forall (v : list (vec3 R)) (k : Z),
  map (nth_error (segments v true)) (spec_rot_map k (length v)) = map Some (segments (spec_rot k v) true).
Proof. exact rolled_segments. Qed.
(* index_of_vertex returns the lowest index of a vertex within atol of the point; ValueError iff there is none *)
Theorem C09_index_of_vertex_lowest : forall (p : polyline R) pt j, s_index_of ROps p pt = Ok j ->
  (exists x, nth_error (pv p) j = Some x /\ vclose8 ROps x pt = true) /\
  (forall k y, (k < j)%nat -> nth_error (pv p) k = Some y -> vclose8 ROps y pt = false).
Proof. exact index_of_lowest. Qed.
Theorem C09_index_of_vertex_none : forall (p : polyline R) pt, s_index_of ROps p pt = Raise ValueError <->
  forall x, In x (pv p) -> vclose8 ROps x pt = false.
Proof. exact index_of_none. Qed.
(* apex is a vertex with the largest coordinate along the axis *)
Theorem C09_apex_is_max : forall (p : polyline R) ax x, s_apex ROps p ax = Ok x ->
  In x (pv p) /\ forall y, In y (pv p) -> (vdot ROps y ax <= vdot ROps x ax)%R.
Proof. exact apex_is_max. Qed.
(* the bounding box (origin, size) encloses every vertex *)
Theorem C09_bounding_box_encloses : forall (p : polyline R) o sz y, s_bbox ROps p = Some (o, sz) -> In y (pv p) ->
  vle o y /\ vle y (vadd ROps o sz).
Proof. exact bbox_encloses. Qed.
(* the map of the original vertices really points at them, any sizes, repeated and end positions included:
   vertex i is found at position i + #{j : idx_j <= i} of the new polyline, and that is what the map says *)
Theorem C09_insert_original_vertices_map : forall (v : list (vec3 R)) idx pts i x,
  length idx = length pts -> nth_error v i = Some x ->
  nth_error (spec_orig_map (length v) idx) i = Some (i + count_nat (fun j => j <=? i)%nat idx)%nat /\
  nth_error (spec_insert v idx pts) (i + count_nat (fun j => j <=? i)%nat idx) = Some x.
Proof. exact spec_orig_map_points. Qed.
(* likewise the map of the inserted points: the j-th given point (index idx_j in 0..num_v) is found at position
   idx_j + #{k : idx_k < idx_j} + #{k < j : idx_k = idx_j} of the new polyline, and that is what the map says *)
Theorem C09_insert_inserted_points_map : forall (v : list (vec3 R)) idx pts j a x,
  length idx = length pts -> nth_error idx j = Some a -> nth_error pts j = Some x -> (a <= length v)%nat ->
  nth_error (spec_ins_map idx) j = Some (spec_ins_pos idx j a) /\
  nth_error (spec_insert v idx pts) (spec_ins_pos idx j a) = Some x.
Proof. exact spec_ins_map_points. Qed.

(* ---- histories ------------------------------------------------------------------------------------------------ *)
(* every finite sequence of the listed operations (all thirteen kinds), each applied to results of earlier ones, with
   slice bounds within 0..num_v and no unmodelled insertion index vector (roll amounts unrestricted), gives the same values and the
   same errors in the code-shaped model and in the list specification *)
Theorem C09_history_refines_spec : forall ops (pl : list (polyline R)),
  history_in_range (spec_impl ROps) pl ops ->
  run (code_impl ROps) pl ops = run (spec_impl ROps) pl ops.
Proof. exact history_refines. Qed.
(* the operations undefined for the polyline's kind raise ValueError / NotImplementedError *)
Theorem C09_undefined_operations_raise : forall (p : polyline R) k bps s t v,
  (pclosed p = false -> c_rolled p k = Raise ValueError) /\
  (pclosed p = true -> c_sectioned p bps = Raise NotImplementedError /\ c_aligned ROps p v = Raise ValueError) /\
  (pclosed p = false -> (t <= s)%nat -> c_sliced p s t = Raise ValueError) /\
  (forall (ps : list (polyline R)) c, ps = [] \/ existsb pclosed ps = true -> c_join ps c = Raise ValueError).
Proof. exact undefined_operations_raise. Qed.

(* ---- definitional: pins the shape of the model; the content is carried by the traced ties / correspondence ----
   The first three are closed by reflexivity (both sides are the same list function); the last two hold for ANY
   implementation record because of the way `step` threads the pool.  They are no evidence for "no method changes the
   polyline it is called on" / "errors leave everything unchanged" / "independent of the source array": those clauses
   are validated by the harness only (byte snapshots of every existing polyline before/after every call, write flags,
   np.shares_memory) on the sampled histories. *)
Theorem C09_constructor_refines_spec : forall (v : list (vec3 R)) c, c_new v c = s_new v c.
Proof. exact new_refines. Qed.
Theorem C09_flipped_refines_spec : forall p : polyline R, c_flipped p = s_flipped p.
Proof. exact flipped_refines. Qed.
Theorem C09_join_refines_spec : forall (ps : list (polyline R)) c, c_join ps c = s_join ps c.
Proof. exact join_refines. Qed.
Theorem C09_errors_leave_unchanged : forall (pl : list (polyline R)) o e,
  snd (step (code_impl ROps) pl o) = ObRaise e -> fst (step (code_impl ROps) pl o) = pl.
Proof. exact code_errors_leave_unchanged. Qed.
Theorem C09_pool_only_grows : forall (pl : list (polyline R)) o,
  exists news, fst (step (code_impl ROps) pl o) = pl ++ news.
Proof. exact code_pool_only_grows. Qed.

(* ---- non-vacuity of the conditional theorems ----------------------------------------------------------------- *)
(* a history with in-range arguments exists (it rolls, slices with wrap-around and inserts into results of earlier calls) *)
Example C09_history_inhabited :
  history_in_range (spec_impl ROps) []
    [OpNew [V3 0 0 0; V3 1 0 0; V3 1 1 0]%R true; OpRolled 0 (-4); OpSliced 1 2 1; OpInsert 2 [V3 5 5 5]%R [2%Z]; OpLen 3].
Proof. cbn. repeat split; reflexivity. Qed.
(* sliced (bounds in range, wrap-around), rolled (index in range), apex / bounding box / insertion maps on concrete values *)
Example C09_conditional_theorems_inhabited :
  let p := MkPolyline [V3 0 0 0; V3 1 0 0; V3 1 1 0]%R true in
  ((2 <= length (pv p))%nat /\ (1 <= length (pv p))%nat /\ s_sliced p 2 1 = Ok (MkPolyline [V3 1 1 0; V3 0 0 0]%R false)) /\
  (1 < length (pv p))%nat /\
  (exists x, s_apex ROps (MkPolyline [V3 1 2 3]%R false) (V3 1 0 0)%R = Ok x) /\
  (exists o sz, s_bbox ROps p = Some (o, sz) /\ In (V3 1 0 0)%R (pv p)) /\
  (length [1; 1]%nat = length [V3 5 5 5; V3 6 6 6]%R /\ nth_error (pv p) 1 = Some (V3 1 0 0)%R /\
   nth_error [1; 1]%nat 1 = Some 1%nat /\ nth_error [V3 5 5 5; V3 6 6 6]%R 1 = Some (V3 6 6 6)%R /\ (1 <= length (pv p))%nat).
Proof. cbn. repeat split; try reflexivity; try lia; try (eexists; reflexivity); try (do 2 eexists; split; [reflexivity|right; left; reflexivity]). Qed.

Definition C09_all := (C09_edges_spec, C09_constructor_refines_spec, C09_flipped_refines_spec, C09_rolled_refines_spec,
  C09_sliced_at_indices_refines_spec, C09_sectioned_refines_spec, C09_join_refines_spec,
  C09_with_insertions_refines_spec, C09_index_of_vertex_refines_spec, C09_aligned_with_refines_spec,
  C09_apex_refines_spec, C09_bounding_box_refines_spec, C09_len_num_v_num_e_refine_spec,
  C09_rolled_vertex_and_mapping, C09_rolled_edge_mapping_spec, C09_index_of_vertex_lowest, C09_index_of_vertex_none,
  C09_apex_is_max, C09_bounding_box_encloses, C09_insert_original_vertices_map, C09_insert_inserted_points_map, C09_history_refines_spec,
  C09_errors_leave_unchanged, C09_pool_only_grows, C09_undefined_operations_raise).
Print Assumptions C09_all.
