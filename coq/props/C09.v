(* C09 — Polyline is an immutable value whose edits match a plain list-of-points model.
   Only statements; each closed by `exact <lemma>` from proofs/P_polyline_ops.v.
   code_impl = code-shaped model of the source (with fixes/C09-insertion-index-maps.diff applied),
   spec_impl = the same operations on an ordered list of points. *)
From Coq Require Import ZArith Reals List Bool.
From PW Require Import Num NumR Vec NpList Result.
From PW.model Require Import M_polyline_base M_polyline_spec M_polyline_ops.
From PW.proofs Require Import P_polyline_ops.
Import ListNotations.

(* edges always join consecutive vertices, plus last-to-first exactly when closed (every n) *)
Theorem C09_edges_spec : forall n closed k,
  nth_error (edges_for n closed) k =
  if (S k <? n)%nat then Some (k, S k)
  else if closed && (S k =? n)%nat then Some (k, 0%nat) else None.
Proof. intros. rewrite edges_refines. apply spec_edges_nth. Qed.

Definition C09_all := (C09_edges_spec).
Print Assumptions C09_all.
