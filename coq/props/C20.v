(* C20 — every operation is pure, elementwise over stacks, and strict about shapes.
   Three clauses, three strengths:
   (1) SHAPE STRICTNESS — proved here.  The generic theorems are about the model of vg.shape.check /
       check_value / polliwog._common.shape (model/M_shape.v) for ALL shapes, patterns, bindings and contracts;
       the table theorems are about the GOLDEN contracts corr/C20_expected.v, which every check proves equal to
       the contracts extracted from the source (`contracts_as_documented`, build/C20/Traced_contracts.v).
   (2) STACKED = ROW BY ROW — the per-function `_stacked_is_map` theorems live in the other properties' files
       (e.g. C05_stacked_is_map_single); here only the shape side (stack lengths must agree); the value side is
       validated over the whole API by tools/props/C20.py.
   (3) PURITY / DETERMINISM — validated only (a Gallina function cannot mutate its argument); no theorem. *)
From Coq Require Import List Bool Arith String.
From PW Require Import Result.
From PW.model Require Import M_shape.
From PW.proofs Require Import P_shape P_shape_tables.
From PW.corr Require Import C20_expected.
Import ListNotations.
Local Open Scope string_scope.

(* ---- the shape-check layer, for all inputs ------------------------------------------------------------------ *)
Theorem C20_match_pattern_spec : forall b p s,
  match_pattern b p s = true <->
  (List.length p = List.length s /\
   forall i d n, nth_error p i = Some d -> nth_error s i = Some n -> dim_ok b d n).
Proof. exact match_pattern_spec. Qed.

Theorem C20_check_any_first_match : forall b ps s p,
  first_match b ps s = Some p <->
  exists i, nth_error ps i = Some p /\ match_pattern b p s = true /\
            forall j q, (j < i)%nat -> nth_error ps j = Some q -> match_pattern b q s = false.
Proof. exact check_any_first_match. Qed.

Theorem C20_columnize_spec : forall a d1 d2 p args b s,
  args a = AArr s ->
  (run_check (Columnize a (d1 :: d2 :: p)) args b = Ok b <->
   (match_pattern b (d1 :: d2 :: p) s = true \/
    (List.length s <> List.length (d1 :: d2 :: p) /\ match_pattern b (d2 :: p) s = true))) /\
  (run_check (Columnize a (d1 :: d2 :: p)) args b = Ok b \/
   run_check (Columnize a (d1 :: d2 :: p)) args b = Raise ValueError).
Proof. exact columnize_spec. Qed.

Theorem C20_run_check_ok_iff : forall c args b b',
  run_check c args b = Ok b' <-> (check_holds c args b /\ b' = bindings_after c args b).
Proof. exact run_check_ok_iff. Qed.

(* a contract succeeds iff EVERY check's argument matches one of its patterns under the bindings accumulated so
   far: nothing is broadcast, skipped or silently accepted *)
Theorem C20_run_contract_ok_iff : forall cs args b b',
  run_contract_from cs args b = Ok b' <-> (contract_holds cs args b /\ b' = final_bindings cs args b).
Proof. exact run_contract_ok_iff. Qed.

Theorem C20_first_failing_check_decides : forall cs1 c cs2 args b b1 e,
  run_contract_from cs1 args b = Ok b1 -> run_check c args b1 = Raise e ->
  run_contract_from (cs1 ++ c :: cs2)%list args b = Raise e.
Proof. exact run_contract_first_failure. Qed.

(* a failing check yields exactly ValueError (arguments of the Python kinds the checks are written for) *)
Theorem C20_failing_check_raises_ValueError : forall c args b e,
  kind_ok args c = true -> run_check c args b = Raise e -> e = ValueError.
Proof. exact failing_check_raises_ValueError. Qed.

Theorem C20_off_contract_is_ValueError : forall cs args b,
  forallb (kind_ok args) cs = true -> ~ contract_holds cs args b ->
  run_contract_from cs args b = Raise ValueError.
Proof. exact off_contract_is_ValueError. Qed.

(* the three rejection classes named in the property text *)
Theorem C20_extra_axis_rejected : forall b p s n,
  match_pattern b p s = true -> match_pattern b p (s ++ [n])%list = false /\ match_pattern b p (n :: s) = false.
Proof. exact extra_axis_rejected. Qed.

Theorem C20_wrong_trailing_dimension_rejected : forall b p s i m n,
  nth_error p i = Some (DInt m) -> nth_error s i = Some n -> n <> m -> match_pattern b p s = false.
Proof. exact wrong_literal_dim_rejected. Qed.

Theorem C20_mismatched_length_rejected : forall b p s i x k n,
  nth_error p i = Some (DVar x) -> lookup b x = Some k -> nth_error s i = Some n -> n <> k ->
  match_pattern b p s = false.
Proof. exact mismatched_length_rejected. Qed.

(* ---- the golden contracts (finite tables; the domain is the committed table `documented_args`) ---------------- *)
(* every array argument that a public callable documents is constrained by a shape check of the callable or of
   the callee it hands the argument to; `not_modelled` (cv2_rodrigues, which dispatches on r.size) is excluded *)
Theorem C20_documented_contracts_strict :
  forallb (fun na : string * list string =>
             mem (fst na) not_modelled || forallb (covered all_contracts delegation (fst na)) (snd na))
          documented_args = true.
Proof. exact documented_contracts_strict_b. Qed.

Theorem C20_documented_argument_is_checked : forall name args a,
  In (name, args) documented_args -> In a args -> ~ In name not_modelled ->
  covered all_contracts delegation name a = true.
Proof. exact documented_contracts_strict. Qed.

(* stacked forms: a stack of k items against a stack of m items is accepted iff m = k, for all k, m *)
Theorem C20_signed_distance_stacks_must_agree : forall k m,
  accepts (contract_of expected sd_name)
          (env_of [("points", AArr [k; 3]); ("plane_equations", AArr [m; 4])]) [] = Nat.eqb m k.
Proof. exact sd_stacks_must_agree. Qed.

Theorem C20_signed_distance_mismatch_is_ValueError : forall k m, m <> k ->
  run_contract (contract_of expected sd_name)
               (env_of [("points", AArr [k; 3]); ("plane_equations", AArr [m; 4])]) = Raise ValueError.
Proof. exact sd_rejects_with_ValueError. Qed.

Theorem C20_closest_point_stacks_must_agree : forall k m n,
  accepts (contract_of expected cp_name)
          (env_of [("points", AArr [k; 3]); ("start_points", AArr [m; 3]); ("segment_vectors", AArr [n; 3])]) []
  = Nat.eqb m k && Nat.eqb n k.
Proof. exact cp_stacks_must_agree. Qed.

(* KNOWN FINDING (known_findings/C20.json): rodrigues_vector_to_rotation_matrix flattens its argument before the
   check, so shapes outside the documented (3,), (3,1), (1,3) are accepted, e.g. (3,1,1) *)
Theorem C20_rodrigues_vector_strict_refuted :
  exists s, off_contract rv_documented s /\
            accepts (contract_of expected rv_name) (env_of [("r", AArr s)]) [] = true.
Proof. exact rodrigues_flatten_accepts_off_contract. Qed.

(* non-vacuity: a documented stacked call satisfies a contract with bindings, and a mismatch does not *)
Example C20_contract_inhabited :
  run_contract (contract_of expected cp_name)
    (env_of [("points", AArr [2; 3]); ("start_points", AArr [2; 3]); ("segment_vectors", AArr [2; 3])])
  = Ok [("k", Some 2%nat)] /\
  run_contract (contract_of expected cp_name)
    (env_of [("points", AArr [2; 3]); ("start_points", AArr [3; 3]); ("segment_vectors", AArr [2; 3])])
  = Raise ValueError.
Proof. split; vm_compute; reflexivity. Qed.

Definition C20_all := (C20_match_pattern_spec, C20_check_any_first_match, C20_columnize_spec, C20_run_check_ok_iff,
  C20_run_contract_ok_iff, C20_first_failing_check_decides, C20_failing_check_raises_ValueError,
  C20_off_contract_is_ValueError, C20_extra_axis_rejected, C20_wrong_trailing_dimension_rejected,
  C20_mismatched_length_rejected, C20_documented_contracts_strict, C20_documented_argument_is_checked,
  C20_signed_distance_stacks_must_agree, C20_signed_distance_mismatch_is_ValueError,
  C20_closest_point_stacks_must_agree, C20_rodrigues_vector_strict_refuted).
Print Assumptions C20_all.
