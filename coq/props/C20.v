(* C20 — every operation is pure, elementwise over stacks, and strict about shapes.
   Three clauses, three strengths:
   (1) SHAPE STRICTNESS — proved here.  The generic theorems are about the model of vg.shape.check /
       check_value / polliwog._common.shape (model/M_shape.v) for ALL shapes, patterns, bindings and contracts;
       the table theorems are about the GOLDEN contracts corr/C20_expected.v, which every check proves equal to
       the contracts extracted from the source (`contracts_as_documented`, build/C20/Traced_contracts.v).
   (2) STACKED = ROW BY ROW — the per-function `_stacked_is_map` theorems live in the other properties' files
       (e.g. C05_stacked_is_map_single); here only the shape side (stack lengths must agree); the value side is
       validated over the whole API by tools/props/C20.py.
   (3) PURITY / DETERMINISM — validated only (a Gallina function cannot mutate its argument); no theorem. *)
From Coq Require Import List Bool Arith String Reals Lra Lia.
From PW Require Import Num NumR Vec NpList Result.
From PW.model Require Import M_shape M_inflection M_array.
From PW.proofs Require Import P_shape P_shape_forms P_shape_tables P_inflection.
From PW.corr Require Import C20_expected.
Import ListNotations.
Local Open Scope string_scope.

(* ---- the shape-check layer, for all inputs ------------------------------------------------------------------ *)
Theorem C20_match_pattern_spec : forall b p s,
  match_pattern b p s = true <->
  (List.length p = List.length s /\
   forall i d n, nth_error p i = Some d -> nth_error s i = Some n -> dim_ok b d n).
Proof. exact match_pattern_spec. Qed.

Theorem C20_check_any_first_match : forall b ps s p,
  first_match b ps s = Some p <->
  exists i, nth_error ps i = Some p /\ match_pattern b p s = true /\
            forall j q, (j < i)%nat -> nth_error ps j = Some q -> match_pattern b q s = false.
Proof. exact check_any_first_match. Qed.

Theorem C20_columnize_spec : forall a d1 d2 p args b s,
  args a = AArr s ->
  (run_check (Columnize a (d1 :: d2 :: p)) args b = Ok b <->
   (match_pattern b (d1 :: d2 :: p) s = true \/
    (List.length s <> List.length (d1 :: d2 :: p) /\ match_pattern b (d2 :: p) s = true))) /\
  (run_check (Columnize a (d1 :: d2 :: p)) args b = Ok b \/
   run_check (Columnize a (d1 :: d2 :: p)) args b = Raise ValueError).
Proof. exact columnize_spec. Qed.

Theorem C20_run_check_ok_iff : forall c args b b',
  run_check c args b = Ok b' <-> (check_holds c args b /\ b' = bindings_after c args b).
Proof. exact run_check_ok_iff. Qed.

(* a contract succeeds iff EVERY check's argument matches one of its patterns under the bindings accumulated so
   far: nothing is broadcast, skipped or silently accepted *)
Theorem C20_run_contract_ok_iff : forall cs args b b',
  run_contract_from cs args b = Ok b' <-> (contract_holds cs args b /\ b' = final_bindings cs args b).
Proof. exact run_contract_ok_iff. Qed.

Theorem C20_first_failing_check_decides : forall cs1 c cs2 args b b1 e,
  run_contract_from cs1 args b = Ok b1 -> run_check c args b1 = Raise e ->
  run_contract_from (cs1 ++ c :: cs2)%list args b = Raise e.
Proof. exact run_contract_first_failure. Qed.

(* a failing check yields exactly ValueError (arguments of the Python kinds the checks are written for; a
   check_shape_any with exactly ONE shape is excluded by kind_ok: the code raises IndexError there) *)
Theorem C20_failing_check_raises_ValueError : forall c args b e,
  kind_ok args c = true -> run_check c args b = Raise e -> e = ValueError.
Proof. exact failing_check_raises_ValueError. Qed.

Theorem C20_off_contract_is_ValueError : forall cs args b,
  forallb (kind_ok args) cs = true -> ~ contract_holds cs args b ->
  run_contract_from cs args b = Raise ValueError.
Proof. exact off_contract_is_ValueError. Qed.

(* the three rejection classes named in the property text *)
Theorem C20_extra_axis_rejected : forall b p s n,
  match_pattern b p s = true -> match_pattern b p (s ++ [n])%list = false /\ match_pattern b p (n :: s) = false.
Proof. exact extra_axis_rejected. Qed.

Theorem C20_wrong_trailing_dimension_rejected : forall b p s i m n,
  nth_error p i = Some (DInt m) -> nth_error s i = Some n -> n <> m -> match_pattern b p s = false.
Proof. exact wrong_literal_dim_rejected. Qed.

Theorem C20_mismatched_length_rejected : forall b p s i x k n,
  nth_error p i = Some (DVar x) -> lookup b x = Some k -> nth_error s i = Some n -> n <> k ->
  match_pattern b p s = false.
Proof. exact mismatched_length_rejected. Qed.

(* ---- the golden contracts (finite tables; the domains are the committed tables of corr/C20_expected.v) --------- *)
(* every array argument that a public callable documents REACHES a shape check of the callable or of the callee it
   hands the argument to.  This says "is mentioned by a constraining check", not "the accepted shapes are the
   documented ones" -- that is the next theorem.  `not_modelled` (cv2_rodrigues dispatches on r.size) is excluded, and so is
   the one pair of not_modelled_args (world_to_view's `up`, rejected by vg.cross / np.array, not by a shape check). *)
Theorem C20_documented_arguments_are_checked :
  forallb (fun na : string * list string =>
             mem (fst na) not_modelled || forallb (covered all_contracts delegation (fst na)) (snd na))
          documented_args = true.
Proof. exact documented_arguments_are_checked_b. Qed.

Theorem C20_documented_argument_is_checked : forall name args a,
  In (name, args) documented_args -> In a args -> ~ In name not_modelled ->
  covered all_contracts delegation name a = true.
Proof. exact documented_argument_is_checked. Qed.

(* STRICTNESS PER CALLABLE, over a finite universe: for every registered array-taking callable (except forms_exempt:
   cv2_rodrigues, not modelled, and the Rodrigues vector, a known finding) and EVERY joint assignment of the shapes
   of M_shape.universe (None, a Python number, 22 / 10 / 7 array shapes for <= 3 / 4 / 5 array parameters) to all its
   array parameters, the effective contract -- own checks, then the delegates' -- accepts iff the shapes are one of the
   documented single / stacked forms (documented_forms, hand-written from the docstrings; minimum sizes omitted).
   Beyond the universe this is proved for all k, m for two callables (below) and validated by probes. *)
Theorem C20_contracts_accept_exactly_documented_forms :
  forallb (fun nf : string * list form =>
             mem (fst nf) forms_exempt ||
             forms_agree all_contracts delegation forms_b0 (fst nf) (names_of (fst nf)) (snd nf))
          documented_forms = true.
Proof. exact contracts_accept_exactly_documented_forms_b. Qed.

Theorem C20_contract_accepts_iff_documented_form : forall name fs t,
  In (name, fs) documented_forms -> ~ In name forms_exempt ->
  In t (tuples (names_of name) (universe (List.length (names_of name)))) ->
  accepts_effective all_contracts delegation forms_b0 name (env_of t) = in_forms forms_b0 fs (env_of t).
Proof. exact contracts_accept_exactly_documented_forms. Qed.

(* ---- STRICTNESS FOR ALL SHAPES (any rank, any sizes) ------------------------------------------------------------------
   A contract in the normal form nf_ok (Check; CheckAny with patterns of pairwise different rank; Columnize;
   IfPresent a (Check a ..)) accepts exactly the shapes described by the canonical forms computed symbolically from it
   (forms_of_contract): per argument None / number / an array whose every dimension is a literal, a receiver length or
   equal to the dimension at a named (argument, axis) position.  Proved once by induction over the check list. *)
Theorem C20_contract_accepts_iff_symbolic_forms : forall b0 args cs,
  forallb (fun xv : string * option nat => match snd xv with Some _ => true | None => false end) b0 = true ->
  forallb nf_ok cs = true ->
  accepts cs args b0 = in_cforms b0 (forms_of_contract cs (senv_of b0)) args.
Proof. exact accepts_iff_forms_init. Qed.

(* 58 of the 88 registered array-taking callables (all_shapes_covered): no delegation, golden contract in normal form, and
   the symbolic forms are -- as a set, decided by computation over the committed tables -- the canonical forms of the
   documented forms.  For those, for ALL argument values and ANY receiver length n (self.num_e, used by
   Polyline.subdivided_by_length only): accepted iff the shapes are a documented form. *)
Theorem C20_accepts_iff_documented_form_all_shapes : forall name fs n args,
  In (name, fs) documented_forms -> all_shapes_row (name, fs) = true ->
  accepts_effective all_contracts delegation (b0_of n) name args =
  in_cforms (b0_of n) (map (canon forms_ext) fs) args.
Proof. exact all_shapes_strict. Qed.

Theorem C20_all_shapes_covered_have_rows : forall name, In name all_shapes_covered ->
  exists fs, In (name, fs) documented_forms /\ all_shapes_row (name, fs) = true.
Proof. exact all_shapes_row_of_covered. Qed.

(* 20 further callables delegate (all_shapes_via_delegates).  For them the all-shapes statement is in CONTRACT terms, not
   yet in terms of the caller's documented forms: for ALL argument values, accepted iff the own symbolic forms hold and, for
   every delegate, the WIRED arguments satisfy the symbolic forms of the callee's contract.  (That the caller's DOCUMENTED
   forms are exactly that is proved for these 20 over the finite universe only, C20_contracts_accept_exactly_documented_forms;
   the substitution of the wiring into the callee forms is not formalised.)  The two theorems after it say what the callee
   forms are: independent of receiver lengths, and each callee is itself covered / external / a pass-through delegator. *)
Theorem C20_delegating_accepts_iff_callee_forms_all_shapes : forall name args, delegating_row name = true ->
  accepts_effective all_contracts delegation forms_b0 name args =
  in_cforms forms_b0 (forms_of_contract (contract_of all_contracts name) (senv_of forms_b0)) args &&
  deleg_forms_ok (delegates_list name) args.
Proof. exact all_shapes_delegating. Qed.

Theorem C20_callee_forms_env_independent :
  forallb (fun name => forallb (fun d =>
     if list_eq_dec cform_eq_dec (forms_of_contract (contract_of all_contracts (callee d)) [])
                                 (forms_of_contract (contract_of all_contracts (callee d)) (senv_of forms_b0))
     then true else false) (delegates_list name)) all_shapes_via_delegates = true.
Proof. exact callee_forms_env_independent. Qed.

Theorem C20_delegate_callees_are_covered_external_or_passthrough :
  forallb (fun name => forallb callee_status_ok (delegates_list name)) all_shapes_via_delegates = true.
Proof. exact delegate_callees_status. Qed.

(* coverage, pinned.  Of the 88 registered array-taking callables: 58 have "accepted iff a documented form" for ALL shapes;
   20 (delegating) have it for all shapes in contract terms and against the documented forms over the finite universe; the
   10 outside (CheckSame / NeedsShape / CheckFlat contracts and their delegators, cv2_rodrigues) are: 8 finite universe
   only, and 2 exempt even there (forms_exempt: the Rodrigues vector, refuted above; cv2_rodrigues, oracle only) *)
Theorem C20_all_shapes_coverage :
  (List.length all_shapes_covered, List.length all_shapes_via_delegates, List.length documented_forms) = (58, 20, 88)%nat /\
  List.length forms_exempt = 2%nat /\
  all_shapes_outside =
  ["polliwog.line._line_functions.coplanar_points_are_on_same_side_of_line";
   "polliwog.line._line_functions.project_point_to_line";
   "polliwog.line._line_object.Line.project";
   "polliwog.plane._plane_intersect.intersect_segment_with_plane";
   "polliwog.transform._affine_transform.transform_matrix_for_rotation";
   "polliwog.transform._composite_transform.CompositeTransform.rotate";
   "polliwog.transform._coordinate_manager.CoordinateManager.rotate";
   "polliwog.transform._rodrigues.cv2_rodrigues";
   "polliwog.transform._rodrigues.rodrigues_vector_to_rotation_matrix";
   "polliwog.tri.functions.tri_contains_coplanar_point"].
Proof. exact (conj all_shapes_covered_count (conj eq_refl all_shapes_outside_list)). Qed.

(* the canonical (positional) reading of the documented forms and their unification reading (in_forms, used by the
   finite-universe theorem) accept the same tuples of the universe *)
Theorem C20_canonical_forms_agree_on_universe :
  forallb (fun nf : string * list form =>
     forallb (fun t => Bool.eqb (in_forms forms_b0 (snd nf) (env_of t))
                                (in_cforms forms_b0 (map (canon forms_ext) (snd nf)) (env_of t)))
             (tuples (names_of (fst nf)) (universe (List.length (names_of (fst nf)))))) documented_forms = true.
Proof. exact canon_agrees_on_universe. Qed.

(* non-vacuity: signed_distance_to_plane is covered, and its four canonical documented forms are as expected *)
Example C20_all_shapes_inhabited :
  In sd_name all_shapes_covered /\
  map (canon forms_ext) (match assoc documented_forms sd_name with Some fs => fs | None => [] end) =
  [[("points", CArr [CInt 3]); ("plane_equations", CArr [CInt 4])];
   [("points", CArr [CRef "points" 0; CInt 3]); ("plane_equations", CArr [CInt 4])];
   [("points", CArr [CInt 3]); ("plane_equations", CArr [CRef "plane_equations" 0; CInt 4])];
   [("points", CArr [CRef "points" 0; CInt 3]); ("plane_equations", CArr [CRef "points" 0; CInt 4])]].
Proof. split; [apply mem_In; vm_compute; reflexivity|vm_compute; reflexivity]. Qed.

(* no golden contract uses check_shape_any with exactly one shape (its failure path raises IndexError, M_shape.any_fail),
   so C20_failing_check_raises_ValueError's hypothesis kind_ok is not restrictive on the golden contracts *)
Theorem C20_no_single_shape_check_shape_any :
  forallb (fun nc : string * list check => forallb (fun c => negb (single_pattern_any c)) (snd nc)) all_contracts = true.
Proof. exact no_single_pattern_check_shape_any. Qed.

(* stacked forms: a stack of k items against a stack of m items is accepted iff m = k, for all k, m *)
Theorem C20_signed_distance_stacks_must_agree : forall k m,
  accepts (contract_of expected sd_name)
          (env_of [("points", AArr [k; 3]); ("plane_equations", AArr [m; 4])]) [] = Nat.eqb m k.
Proof. exact sd_stacks_must_agree. Qed.

Theorem C20_signed_distance_mismatch_is_ValueError : forall k m, m <> k ->
  run_contract (contract_of expected sd_name)
               (env_of [("points", AArr [k; 3]); ("plane_equations", AArr [m; 4])]) = Raise ValueError.
Proof. exact sd_rejects_with_ValueError. Qed.

Theorem C20_closest_point_stacks_must_agree : forall k m n,
  accepts (contract_of expected cp_name)
          (env_of [("points", AArr [k; 3]); ("start_points", AArr [m; 3]); ("segment_vectors", AArr [n; 3])]) []
  = Nat.eqb m k && Nat.eqb n k.
Proof. exact cp_stacks_must_agree. Qed.

(* KNOWN FINDING (known_findings/C20.json): rodrigues_vector_to_rotation_matrix flattens its argument before the
   check, so shapes outside the documented (3,), (3,1), (1,3) are accepted, e.g. (3,1,1) *)
Theorem C20_rodrigues_vector_strict_refuted :
  exists s, off_contract rv_documented s /\
            accepts (contract_of expected rv_name) (env_of [("r", AArr s)]) [] = true.
Proof. exact rodrigues_flatten_accepts_off_contract. Qed.

(* non-vacuity: a documented stacked call satisfies a contract with bindings, and a mismatch does not *)
Example C20_contract_inhabited :
  run_contract (contract_of expected cp_name)
    (env_of [("points", AArr [2; 3]); ("start_points", AArr [2; 3]); ("segment_vectors", AArr [2; 3])])
  = Ok [("k", Some 2%nat)] /\
  run_contract (contract_of expected cp_name)
    (env_of [("points", AArr [2; 3]); ("start_points", AArr [3; 3]); ("segment_vectors", AArr [2; 3])])
  = Raise ValueError.
Proof. split; vm_compute; reflexivity. Qed.

(* ==================================================================================================================
   extra: callables outside the 19 other properties
   polliwog/polyline/_inflection_points.py (inflection_points, point_of_max_acceleration) and
   polliwog/polyline/_array.py (find_repeats, find_changes) are anchored in no other property; they are modelled in
   model/M_inflection.v / M_array.v (np.gradient exactly as NumPy computes it for non-uniform coordinates), tied by
   traced kernels at n = 4, 5 and by the correspondence kinds CInflection / CMaxAcc / CFind.  Theorems on the
   real-number instance; the model's domain is a strictly monotone run coordinate (either direction; no zero spacing), and
   point_of_max_acceleration is modelled with subdivide_by_length = None.
   ================================================================================================================== *)
Local Open Scope R_scope.

(* np.gradient is exact on affine data: the first difference is the slope at every sample ... *)
Theorem C20_x_gradient_of_affine_is_slope : forall a b xs i,
  increasing xs (List.length xs) -> (2 <= List.length xs)%nat -> (i < List.length xs)%nat ->
  nth_error (gradient ROps xs (map (fun x => a * x + b) xs)) i = Some a.
Proof. exact gradient_affine. Qed.

(* ... and the second difference vanishes everywhere, so EVERY product fd2[i]*fd2[i+1] is 0 <= 0: the reason the
   docstring warns that `lambda x: 2*x + 1` has almost every point detected *)
Theorem C20_x_second_difference_of_affine_is_zero : forall a b xs i,
  increasing xs (List.length xs) -> (2 <= List.length xs)%nat -> (i < List.length xs)%nat ->
  nth_error (gradient ROps xs (gradient ROps xs (map (fun x => a * x + b) xs))) i = Some 0.
Proof. exact second_difference_affine. Qed.

(* inflection_points on its domain (at least two points, run coordinate strictly monotone along the curve, in either
   direction -- what np.gradient needs for non-zero spacings): the answer is EXACTLY the rows i (not the last) whose
   second-difference product with the successor is <= 0 (soundness and completeness), in increasing index order *)
Theorem C20_x_inflection_points_spec : forall pts rise run,
  (2 <= List.length pts)%nat -> monotone_b ROps (coords ROps pts run) = true ->
  exists idx, inflection_points ROps pts rise run = Ok (Some idx) /\ Sorted.StronglySorted lt idx /\
    forall i, In i idx <->
      ((S i < List.length pts)%nat /\
       at_ ROps (fd2 ROps pts rise run) i * at_ ROps (fd2 ROps pts rise run) (S i) <= 0).
Proof. exact inflection_points_spec. Qed.

(* every returned row is an input row *)
Theorem C20_x_inflection_points_sound : forall pts rise run idx,
  inflection_points ROps pts rise run = Ok (Some idx) ->
  Sorted.StronglySorted lt idx /\
  forall i, In i idx ->
    (S i < List.length pts)%nat /\ (exists row, nth_error pts i = Some row) /\
    at_ ROps (fd2 ROps pts rise run) i * at_ ROps (fd2 ROps pts rise run) (S i) <= 0.
Proof. exact inflection_points_sound. Qed.

(* non-vacuity: a zig-zag (rise along y, run along x) is in the domain and row 1 is returned *)
Example C20_x_inflection_points_inhabited : exists idx,
  inflection_points ROps [V3 0 0 0; V3 1 1 0; V3 2 0 0; V3 3 1 0] (V3 0 1 0) (V3 1 0 0) = Ok (Some idx) /\ In 1%nat idx.
Proof. exact zig_example. Qed.

(* the result of point_of_max_acceleration is an input row with a true valid-mask entry (interior, both neighbouring
   first differences positive) and fd2 maximal among the valid rows *)
Theorem C20_x_max_acceleration_sound : forall pts rise run i,
  point_of_max_acceleration ROps pts rise run = Ok (Some (Some i)) ->
  is_valid pts rise run i /\ (exists row, nth_error pts i = Some row) /\
  forall j, is_valid pts rise run j ->
    at_ ROps (fd2 ROps pts rise run) j <= at_ ROps (fd2 ROps pts rise run) i.
Proof. exact point_of_max_acceleration_sound. Qed.

Theorem C20_x_valid_rows_are_interior : forall pts rise run i, is_valid pts rise run i ->
  (0 < i)%nat /\ (S i < List.length pts)%nat /\
  0 < at_ ROps (fd1 ROps pts rise run) (i - 1) /\ 0 < at_ ROps (fd1 ROps pts rise run) (S i).
Proof. exact valid_inside. Qed.

Theorem C20_x_max_acceleration_none_iff_no_valid_row : forall pts rise run,
  (2 <= List.length pts)%nat -> monotone_b ROps (coords ROps pts run) = true ->
  (point_of_max_acceleration ROps pts rise run = Ok (Some None) <-> forall j, ~ is_valid pts rise run j).
Proof. exact point_of_max_acceleration_none_iff. Qed.

(* find_changes is the pointwise negation of find_repeats (after the first entry, False in both, when not wrapping) *)
Theorem C20_x_find_changes_is_negation : forall arr : list R,
  find_changes ROps arr true = map negb (find_repeats ROps arr true) /\
  tl (find_changes ROps arr false) = map negb (tl (find_repeats ROps arr false)) /\
  hd_error (find_changes ROps arr false) = Some false /\ hd_error (find_repeats ROps arr false) = Some false.
Proof. exact find_changes_is_negation. Qed.

Theorem C20_x_find_length_preserved : forall (arr : list R) wrap, (wrap = true \/ arr <> []) ->
  List.length (find_repeats ROps arr wrap) = List.length arr /\ List.length (find_changes ROps arr wrap) = List.length arr.
Proof. exact find_length. Qed.

(* KNOWN FINDING: the docstring promises an output of the input's length; the empty array without wrap gives [False] *)
Theorem C20_x_find_length_preserved_refuted :
  exists arr : list R, List.length (find_repeats ROps arr false) <> List.length arr.
Proof. exact find_length_not_preserved_for_empty. Qed.

(* non-vacuity of the `increasing` hypothesis (non-uniform spacing) *)
Example C20_x_increasing_inhabited : increasing [0; 1; 3] 3.
Proof.
  intros i Hi. destruct i as [|[|i]]; [| |exfalso; lia];
  unfold at_; cbn [nth]; rops; apply Rltb_true; lra.
Qed.

(* definitional: pins the shape of the model; the content is carried by the traced ties / correspondence *)
(* fewer than two points: point_of_max_acceleration raises ValueError; inflection_points fails inside np.gradient
   with IndexError (mirrored, the property text is silent about it) *)
Theorem C20_x_too_few_points : forall pts rise run, (List.length pts < 2)%nat ->
  inflection_points ROps pts rise run = Raise IndexError /\
  point_of_max_acceleration ROps pts rise run = Raise ValueError.
Proof. exact too_few_points_raise. Qed.


Definition C20_all := (C20_match_pattern_spec, C20_check_any_first_match, C20_columnize_spec, C20_run_check_ok_iff,
  C20_run_contract_ok_iff, C20_first_failing_check_decides, C20_failing_check_raises_ValueError,
  C20_off_contract_is_ValueError, C20_extra_axis_rejected, C20_wrong_trailing_dimension_rejected,
  C20_mismatched_length_rejected, C20_documented_arguments_are_checked, C20_documented_argument_is_checked,
  C20_contracts_accept_exactly_documented_forms, C20_contract_accepts_iff_documented_form, C20_no_single_shape_check_shape_any,
  C20_contract_accepts_iff_symbolic_forms, C20_accepts_iff_documented_form_all_shapes, C20_all_shapes_covered_have_rows,
  C20_delegating_accepts_iff_callee_forms_all_shapes, C20_callee_forms_env_independent,
  C20_delegate_callees_are_covered_external_or_passthrough, C20_all_shapes_coverage, C20_canonical_forms_agree_on_universe,
  C20_signed_distance_stacks_must_agree, C20_signed_distance_mismatch_is_ValueError,
  C20_closest_point_stacks_must_agree, C20_rodrigues_vector_strict_refuted,
  C20_x_gradient_of_affine_is_slope, C20_x_second_difference_of_affine_is_zero, C20_x_inflection_points_spec,
  C20_x_inflection_points_sound,
  C20_x_max_acceleration_sound, C20_x_valid_rows_are_interior, C20_x_max_acceleration_none_iff_no_valid_row,
  C20_x_too_few_points, C20_x_find_changes_is_negation, C20_x_find_length_preserved,
  C20_x_find_length_preserved_refuted).
Print Assumptions C20_all.
