(* C07 — Polyline.nearest is the true closest point; sub-path selection builds on it.
   Only statements here; each is closed by `exact <lemma>` from proofs/P_segment.v, P_polyline_nearest*.v. *)
From Coq Require Import ZArith Reals List Bool.
From PW Require Import Num NumR Vec NpList Result.
From PW.model Require Import M_polyline_base M_segment M_polyline_nearest M_polyline_nearest_spec.
From PW.proofs Require Import P_segment P_polyline_nearest P_polyline_nearest2 P_polyline_nearest3 P_polyline_nearest4
  P_polyline_nearest5 P_polyline_nearest6.
Import ListNotations.
Local Open Scope R_scope.

(* ---- closest_point_of_line_segment ------------------------------------------------------------------ *)
(* the result is start + t * vector with 0 <= t <= 1 (zero-length segments included) *)
Theorem C07_closest_point_on_segment : forall p a v,
  closest_point ROps p a v = vadd ROps a (vscale ROps (closest_t ROps p a v) v) /\
  0 <= closest_t ROps p a v <= 1.
Proof. exact closest_point_on_segment. Qed.

(* no point a + s v, 0 <= s <= 1, of the segment is closer to the query (v = 0 included) *)
Theorem C07_closest_point_optimal : forall p a v s, 0 <= s <= 1 ->
  sqdist ROps (closest_point ROps p a v) p <= sqdist ROps (vadd ROps a (vscale ROps s v)) p.
Proof. exact closest_point_optimal. Qed.

(* is_point_on_line_segment: true exactly when some point of the segment is within epsilon of the query *)
Theorem C07_on_segment_iff_within_eps : forall p a v eps,
  on_segment ROps p a v eps = true <->
  exists s, 0 <= s <= 1 /\ sqdist ROps (vadd ROps a (vscale ROps s v)) p <= eps * eps.
Proof. exact on_segment_iff. Qed.
Theorem C07_on_segment_uses_closest_point : forall p a v eps,
  on_segment ROps p a v eps = true <-> sqdist ROps (closest_point ROps p a v) p <= eps * eps.
Proof. exact on_segment_is_closest_within. Qed.

(* ---- Polyline.nearest ------------------------------------------------------------------------------- *)
(* a polyline with at least one segment always gets an answer, for any number of query points *)
Theorem C07_nearest_total : forall pl ps, pl_segments pl <> [] ->
  exists rs, nearest_many ROps pl ps = Ok rs.
Proof. exact nearest_total. Qed.

(* stacked queries: as many rows as queries, row k is the answer for query k alone *)
Theorem C07_nearest_stacked_is_rowwise : forall pl ps rs, nearest_many ROps pl ps = Ok rs ->
  length rs = length ps /\
  forall k p, nth_error ps k = Some p -> exists r, nth_error rs k = Some r /\ nearest_one ROps pl p = Ok r.
Proof. exact nearest_many_spec. Qed.

(* the reported distance is the minimum over every point of every segment (any number of segments) *)
Theorem C07_nearest_is_min_over_segments : forall pl p r, nearest_one ROps pl p = Ok r ->
  forall a b s, In (a, b) (pl_segments pl) -> 0 <= s <= 1 ->
    n_d r <= vnorm ROps (vsub ROps (vadd ROps a (vscale ROps s (vsub ROps b a))) p).
Proof. exact nearest_is_min. Qed.

(* point = start of the reported segment + t x its vector, 0 <= t <= 1, distance = |point - query| *)
Theorem C07_nearest_outputs_consistent : forall pl p r, nearest_one ROps pl p = Ok r ->
  exists a b, nth_error (pl_segments pl) (n_idx r) = Some (a, b) /\
    n_pt r = vadd ROps a (vscale ROps (n_t r) (vsub ROps b a)) /\
    0 <= n_t r <= 1 /\
    n_d r = vnorm ROps (vsub ROps (n_pt r) p).
Proof. exact nearest_outputs_consistent. Qed.

(* among equally near segments the lowest index is reported *)
Theorem C07_nearest_ties_lowest_index : forall pl p r, nearest_one ROps pl p = Ok r ->
  forall k a b, (k < n_idx r)%nat -> nth_error (pl_segments pl) k = Some (a, b) ->
    n_d r < h_d (seg_hit_of ROps p (a, b)).
Proof. exact nearest_first_index. Qed.

(* "every optional output that is requested is returned": FALSE of the code as it stands. With
   ret_t_values=True alone the t values are dropped and the bare point array comes back. *)
Theorem C07_nearest_returns_requested_refuted :
  exists pl ps rs o, nearest_many ROps pl ps = Ok rs /\ ps <> [] /\
    nearest ROps pl ps false false true = Ok o /\ ~ returns_requested false false true rs o.
Proof. exact nearest_returns_requested_refuted. Qed.
(* what does hold: for the other seven flag subsets exactly the requested outputs are returned.
   Missing for the full statement: the subset {ret_t_values} (see the _refuted theorem above). *)
Theorem C07_nearest_returns_requested_partial : forall ri rd rt rs,
  (ri, rd, rt) <> (false, false, true) -> returns_requested ri rd rt rs (nearest_ret ri rd rt rs).
Proof. exact nearest_ret_requested_unless_only_t. Qed.

(* ---- sliced_at_points / aligned_along_subsegment ---------------------------------------------------- *)
(* All hypotheses speak about the ORIGINAL polyline. ra, rb are the answers of nearest for a and b.
   - "points not within 1e-3 of a vertex": neither nearest point is within the code's own tolerance (1e-8 per
     coordinate) of a vertex, nor are the two nearest points within it of each other (weaker = more general);
   - "the polyline does not touch itself" (near b): b's nearest point is its unique minimiser, every other segment is
     strictly farther from b;
   - before_on ra rb: nearest(a) comes before nearest(b) along the polyline, by (segment index, t).
   Behind this: making a point of a segment a vertex does not change the point set, so the search on the working
   polyline (which already contains nearest(a) as a vertex) finds the same point (P_polyline_nearest4.v). *)
(* open polylines: nearest(a), the original vertices strictly between, nearest(b); refused when b comes first *)
Theorem C07_sliced_at_points_open_spec : forall pl a b ra rb, pclosed pl = false ->
  nearest_one ROps pl a = Ok ra -> nearest_one ROps pl b = Ok rb ->
  index_of_vertex ROps (pv pl) (n_pt ra) = None -> index_of_vertex ROps (pv pl) (n_pt rb) = None ->
  near_vertex ROps (n_pt rb) (n_pt ra) = false ->
  (forall j s, j <> n_idx rb -> nth_error (pl_segments pl) j = Some s -> n_d rb < h_d (seg_hit_of ROps b s)) ->
  (before_on ra rb -> sliced_at_points ROps pl a b =
     Ok (MkPolyline (n_pt ra :: firstn (n_idx rb - n_idx ra) (skipn (S (n_idx ra)) (pv pl)) ++ [n_pt rb]) false)) /\
  (before_on rb ra -> sliced_at_points ROps pl a b = Raise ValueError).
Proof. exact sliced_at_points_open_spec. Qed.
(* closed polylines, every case (nearest(a) on the closing edge included: the code then inserts it at position 0 and
   all indices shift). The result is the cyclic sub-path: nearest(a), then the vertices from the successor of a's
   segment (edge_end = e[k][1], 0 for the closing edge) cyclically up to the start vertex of b's segment, then
   nearest(b). That is n_idx rb - n_idx ra vertices when nearest(a) comes first, and otherwise the path WRAPS:
   (number of vertices) + n_idx rb - n_idx ra vertices (all of them when b is earlier on a's own segment). *)
Theorem C07_sliced_at_points_closed_spec : forall pl a b ra rb, pclosed pl = true ->
  nearest_one ROps pl a = Ok ra -> nearest_one ROps pl b = Ok rb ->
  index_of_vertex ROps (pv pl) (n_pt ra) = None -> index_of_vertex ROps (pv pl) (n_pt rb) = None ->
  near_vertex ROps (n_pt rb) (n_pt ra) = false ->
  (forall j s, j <> n_idx rb -> nth_error (pl_segments pl) j = Some s -> n_d rb < h_d (seg_hit_of ROps b s)) ->
  (before_on ra rb -> sliced_at_points ROps pl a b =
     Ok (MkPolyline (n_pt ra :: cyclic_from (pv pl) (edge_end pl (n_idx ra)) (n_idx rb - n_idx ra) ++ [n_pt rb]) false)) /\
  (before_on rb ra -> sliced_at_points ROps pl a b =
     Ok (MkPolyline (n_pt ra :: cyclic_from (pv pl) (edge_end pl (n_idx ra)) (length (pv pl) + n_idx rb - n_idx ra)
                       ++ [n_pt rb]) false)).
Proof. exact sliced_at_points_closed_cyclic. Qed.
(* the same with every case spelled out in firstn/skipn. nearest(a) on an ordinary edge: forward; forward with nearest(b)
   on the closing edge (to the end of the vertex list); wrap (to the end of the list, then from the start up to b's
   segment). nearest(a) on the closing edge: up to b's segment from vertex 0; just the two points; the whole way round. *)
Theorem C07_sliced_at_points_closed_explicit : forall pl a b ra rb, pclosed pl = true ->
  nearest_one ROps pl a = Ok ra -> nearest_one ROps pl b = Ok rb ->
  index_of_vertex ROps (pv pl) (n_pt ra) = None -> index_of_vertex ROps (pv pl) (n_pt rb) = None ->
  near_vertex ROps (n_pt rb) (n_pt ra) = false ->
  (forall j s, j <> n_idx rb -> nth_error (pl_segments pl) j = Some s -> n_d rb < h_d (seg_hit_of ROps b s)) ->
  ((S (n_idx ra) < length (pv pl))%nat ->
    (before_on ra rb -> (S (n_idx rb) < length (pv pl))%nat -> sliced_at_points ROps pl a b =
       Ok (MkPolyline (n_pt ra :: firstn (n_idx rb - n_idx ra) (skipn (S (n_idx ra)) (pv pl)) ++ [n_pt rb]) false)) /\
    (before_on ra rb -> S (n_idx rb) = length (pv pl) -> sliced_at_points ROps pl a b =
       Ok (MkPolyline (n_pt ra :: skipn (S (n_idx ra)) (pv pl) ++ [n_pt rb]) false)) /\
    (before_on rb ra -> sliced_at_points ROps pl a b =
       Ok (MkPolyline (n_pt ra :: skipn (S (n_idx ra)) (pv pl) ++ firstn (S (n_idx rb)) (pv pl) ++ [n_pt rb]) false))) /\
  (S (n_idx ra) = length (pv pl) ->
    ((n_idx rb < n_idx ra)%nat -> sliced_at_points ROps pl a b =
       Ok (MkPolyline (n_pt ra :: firstn (S (n_idx rb)) (pv pl) ++ [n_pt rb]) false)) /\
    (n_idx rb = n_idx ra -> n_t ra < n_t rb -> sliced_at_points ROps pl a b = Ok (MkPolyline [n_pt ra; n_pt rb] false)) /\
    (n_idx rb = n_idx ra -> n_t rb < n_t ra -> sliced_at_points ROps pl a b =
       Ok (MkPolyline (n_pt ra :: pv pl ++ [n_pt rb]) false))).
Proof. exact sliced_at_points_closed_explicit. Qed.
(* the invariance behind both: a query whose unique nearest point lies on another segment keeps point, distance and
   t when a point of segment k becomes a vertex; only the segment index is renumbered *)
Theorem C07_nearest_invariant_under_vertex_insertion : forall pl k a b x tx,
  nth_error (pv pl) k = Some a -> nth_error (pv pl) (S k) = Some b ->
  x = vadd ROps a (vscale ROps tx (vsub ROps b a)) -> 0 <= tx <= 1 ->
  forall q r, nearest_one ROps pl q = Ok r -> n_idx r <> k ->
  (forall j s, j <> n_idx r -> nth_error (pl_segments pl) j = Some s -> n_d r < h_d (seg_hit_of ROps q s)) ->
  nearest_one ROps (MkPolyline (insert_at (pv pl) (S k) x) (pclosed pl)) q =
  Ok (Near (n_pt r) (if Nat.ltb (n_idx r) k then n_idx r else S (n_idx r)) (n_d r) (n_t r)).
Proof. exact nearest_transfer. Qed.

(* the orientation decision. Open: flip exactly when the point nearest p2 comes before the point nearest p1
   in (segment index, t) order. Closed: flip exactly when the sub-path from p2 to p1 is shorter than the one
   from p1 to p2. The result is the polyline itself or its end-to-end reversal. *)
Theorem C07_aligned_along_subsegment_decision :
  (forall pl p1 p2 r1 r2, pclosed pl = false ->
     nearest_one ROps pl p1 = Ok r1 -> nearest_one ROps pl p2 = Ok r2 ->
     exists f, aligned_flip ROps pl p1 p2 = Ok f /\
       (f = true <-> ((n_idx r2 < n_idx r1)%nat \/ (n_idx r1 = n_idx r2 /\ n_t r2 < n_t r1)))) /\
  (forall pl p1 p2 f, pclosed pl = true -> aligned_flip ROps pl p1 p2 = Ok f ->
     exists back fwd, sliced_at_points ROps pl p2 p1 = Ok back /\ sliced_at_points ROps pl p1 p2 = Ok fwd /\
       (f = true <-> total_length ROps back < total_length ROps fwd)) /\
  (forall pl p1 p2 r, aligned_along_subsegment ROps pl p1 p2 = Ok r ->
     exists f, aligned_flip ROps pl p1 p2 = Ok f /\
       r = (if f then MkPolyline (rev (pv pl)) (pclosed pl) else pl)).
Proof. exact aligned_spec. Qed.

(* what reversal does. The segments of the reversed polyline are the segments in reverse order with their ends
   exchanged (on a closed polyline the closing edge stays last): segment k becomes segment rev_seg_index pl k. *)
Theorem C07_reversed_segments : forall pl k, (k < length (pl_segments pl))%nat ->
  nth_error (pl_segments (flipped pl)) (rev_seg_index pl k) = option_map swap_seg (nth_error (pl_segments pl) k) /\
  (rev_seg_index pl k < length (pl_segments pl))%nat /\ rev_seg_index pl (rev_seg_index pl k) = k /\
  length (pl_segments (flipped pl)) = length (pl_segments pl).
Proof. exact (fun pl k H => conj (flipped_segment_nth pl k H) (conj (rev_seg_index_lt pl k H)
         (conj (rev_seg_index_invol pl k H) (flipped_segments_count pl)))). Qed.
(* On a polyline that does not touch itself near q (unique_nearest: every other segment is strictly farther, the reading
   of C07_sliced_at_points_open_spec; ties are excluded, so first-index tie-breaking plays no role) and whose nearest
   point is not a vertex, nearest on the reversed polyline reports the same point and distance, the mirrored segment
   index and parameter 1 - t (flipped_near); uniqueness and not-a-vertex carry over. *)
Theorem C07_nearest_on_reversed : forall pl q r, nearest_one ROps pl q = Ok r -> unique_nearest pl q r ->
  index_of_vertex ROps (pv pl) (n_pt r) = None ->
  nearest_one ROps (flipped pl) q = Ok (flipped_near pl r) /\ unique_nearest (flipped pl) q (flipped_near pl r) /\
  index_of_vertex ROps (pv (flipped pl)) (n_pt (flipped_near pl r)) = None.
Proof. exact nearest_on_flipped. Qed.
(* slicing commutes with reversal up to list reversal (closed polylines): the sub-path from nearest(a) to nearest(b) on
   the reversed polyline is the reversed sub-path from nearest(b) to nearest(a) on the polyline. *)
Theorem C07_sliced_commutes_with_reversal : forall pl a b ra rb, pclosed pl = true ->
  nearest_one ROps pl a = Ok ra -> nearest_one ROps pl b = Ok rb ->
  index_of_vertex ROps (pv pl) (n_pt ra) = None -> index_of_vertex ROps (pv pl) (n_pt rb) = None ->
  near_vertex ROps (n_pt rb) (n_pt ra) = false -> unique_nearest pl a ra -> unique_nearest pl b rb ->
  exists C, sliced_at_points ROps pl b a = Ok (MkPolyline (n_pt rb :: C ++ [n_pt ra]) false) /\
            sliced_at_points ROps (flipped pl) a b = Ok (MkPolyline (n_pt ra :: rev C ++ [n_pt rb]) false).
Proof. exact sliced_flipped_is_reversed. Qed.

(* THE POST-CONDITION, open polylines. Same conditions as in C07_sliced_at_points_open_spec, the self-avoidance reading
   (unique nearest point) now for both query points because the search is repeated on the reversed polyline. The
   call answers with the polyline itself (nearest(p1) first) or its reversal (nearest(p2) first); on the result
   nearest still finds the same two points, nearest(p1) now comes before nearest(p2), and sliced_at_points on the
   result does not refuse: it returns the sub-path from nearest(p1) to nearest(p2). *)
Theorem C07_aligned_along_subsegment_open_spec : forall pl p1 p2 r1 r2, pclosed pl = false ->
  nearest_one ROps pl p1 = Ok r1 -> nearest_one ROps pl p2 = Ok r2 ->
  index_of_vertex ROps (pv pl) (n_pt r1) = None -> index_of_vertex ROps (pv pl) (n_pt r2) = None ->
  near_vertex ROps (n_pt r2) (n_pt r1) = false -> unique_nearest pl p1 r1 -> unique_nearest pl p2 r2 ->
  exists res r1' r2',
    aligned_along_subsegment ROps pl p1 p2 = Ok res /\
    (before_on r1 r2 -> res = pl) /\ (before_on r2 r1 -> res = flipped pl) /\
    nearest_one ROps res p1 = Ok r1' /\ nearest_one ROps res p2 = Ok r2' /\
    n_pt r1' = n_pt r1 /\ n_pt r2' = n_pt r2 /\ before_on r1' r2' /\
    sliced_at_points ROps res p1 p2 =
      Ok (MkPolyline (n_pt r1 :: firstn (n_idx r2' - n_idx r1') (skipn (S (n_idx r1')) (pv res)) ++ [n_pt r2]) false).
Proof. exact aligned_open_runs_forward. Qed.
(* THE POST-CONDITION, closed polylines: the call answers with the polyline or its reversal, and on the result the
   sub-path from nearest(p1) to nearest(p2) (it starts and ends at these two points) is the shorter way round: not
   longer than the complementary sub-path from nearest(p2) to nearest(p1). *)
Theorem C07_aligned_along_subsegment_closed_spec : forall pl p1 p2 r1 r2, pclosed pl = true ->
  nearest_one ROps pl p1 = Ok r1 -> nearest_one ROps pl p2 = Ok r2 ->
  index_of_vertex ROps (pv pl) (n_pt r1) = None -> index_of_vertex ROps (pv pl) (n_pt r2) = None ->
  near_vertex ROps (n_pt r2) (n_pt r1) = false -> unique_nearest pl p1 r1 -> unique_nearest pl p2 r2 ->
  exists res fwd back mid,
    aligned_along_subsegment ROps pl p1 p2 = Ok res /\ (res = pl \/ res = flipped pl) /\
    sliced_at_points ROps res p1 p2 = Ok fwd /\ sliced_at_points ROps res p2 p1 = Ok back /\
    pv fwd = n_pt r1 :: mid ++ [n_pt r2] /\
    total_length ROps fwd <= total_length ROps back.
Proof. exact aligned_closed_shorter_way. Qed.

(* on a closed polyline with at least one vertex sliced_at_points always answers (no refusal: it can wrap) *)
Theorem C07_sliced_at_points_closed_total : forall pl a b, pclosed pl = true -> pv pl <> [] ->
  exists r, sliced_at_points ROps pl a b = Ok r.
Proof. exact sliced_closed_total. Qed.

(* definitional: pins the shape of the model; the content is carried by the traced ties / correspondence *)
(* the stacked (pairwise) forms are the single form row by row *)
Theorem C07_pairwise_is_rowwise : forall ps sa sv eps k p a v,
  nth_error ps k = Some p -> nth_error sa k = Some a -> nth_error sv k = Some v ->
  nth_error (closest_points_pairs ROps ps sa sv) k = Some (closest_point ROps p a v) /\
  nth_error (closest_ts_pairs ROps ps sa sv) k = Some (closest_t ROps p a v) /\
  nth_error (on_segment_pairs ROps ps sa sv eps) k = Some (on_segment ROps p a v eps).
Proof. exact pairs_are_rowwise. Qed.


(* non-vacuity. A polyline with a zero-length segment has segments; and concrete inputs meet the hypotheses of every
   conditional sub-path theorem (all about the ORIGINAL polyline): open polyline (0,0,0)-(4,0,0) with a = (1,1,0),
   b = (3,1,0) for C07_sliced_at_points_open_spec; a closed triangle for C07_sliced_at_points_closed_spec, once with both
   points on an ordinary edge and once with both on the closing edge; the decision theorem's hypotheses (open / closed);
   an L-shaped open polyline on which the flip really happens for C07_aligned_along_subsegment_open_spec, and a closed
   triangle for C07_aligned_along_subsegment_closed_spec. *)
Example C07_has_segments : pl_segments (MkPolyline [V3 0 0 0; V3 1 0 0; V3 1 0 0] true) <> [].
Proof. cbn. discriminate. Qed.
Example C07_sliced_open_spec_inhabited : exists pl a b ra rb,
  pclosed pl = false /\ nearest_one ROps pl a = Ok ra /\ nearest_one ROps pl b = Ok rb /\
  index_of_vertex ROps (pv pl) (n_pt ra) = None /\ index_of_vertex ROps (pv pl) (n_pt rb) = None /\
  near_vertex ROps (n_pt rb) (n_pt ra) = false /\
  (forall j s, j <> n_idx rb -> nth_error (pl_segments pl) j = Some s -> n_d rb < h_d (seg_hit_of ROps b s)) /\
  before_on ra rb.
Proof. exact sliced_open_spec_inhabited. Qed.
Example C07_sliced_closed_spec_inhabited : exists pl a b ra rb,
  pclosed pl = true /\ nearest_one ROps pl a = Ok ra /\ nearest_one ROps pl b = Ok rb /\
  index_of_vertex ROps (pv pl) (n_pt ra) = None /\ index_of_vertex ROps (pv pl) (n_pt rb) = None /\
  near_vertex ROps (n_pt rb) (n_pt ra) = false /\
  (forall j s, j <> n_idx rb -> nth_error (pl_segments pl) j = Some s -> n_d rb < h_d (seg_hit_of ROps b s)) /\
  (S (n_idx ra) < length (pv pl))%nat /\ before_on ra rb /\ (S (n_idx rb) < length (pv pl))%nat.
Proof. exact sliced_closed_spec_inhabited. Qed.
(* nearest(a) and nearest(b) both on the closing edge of a closed square *)
Example C07_sliced_closed_closing_edge_inhabited : exists pl a b ra rb,
  pclosed pl = true /\ nearest_one ROps pl a = Ok ra /\ nearest_one ROps pl b = Ok rb /\
  index_of_vertex ROps (pv pl) (n_pt ra) = None /\ index_of_vertex ROps (pv pl) (n_pt rb) = None /\
  near_vertex ROps (n_pt rb) (n_pt ra) = false /\
  (forall j s, j <> n_idx rb -> nth_error (pl_segments pl) j = Some s -> n_d rb < h_d (seg_hit_of ROps b s)) /\
  S (n_idx ra) = length (pv pl) /\ before_on ra rb.
Proof. exact sliced_closed_closing_inhabited. Qed.
Example C07_aligned_open_inhabited : exists pl p1 p2 r1 r2,
  pclosed pl = false /\ nearest_one ROps pl p1 = Ok r1 /\ nearest_one ROps pl p2 = Ok r2.
Proof. exact aligned_open_inhabited. Qed.
Example C07_aligned_closed_inhabited : exists pl p1 p2 f, pclosed pl = true /\ aligned_flip ROps pl p1 p2 = Ok f.
Proof. exact aligned_closed_inhabited. Qed.
(* the post-condition theorems (and C07_nearest_on_reversed): an open L-shaped polyline where nearest(p2) comes first
   (the flip happens), and the closed triangle (also meets the hypotheses of C07_sliced_commutes_with_reversal) *)
Example C07_aligned_open_spec_inhabited : exists pl p1 p2 r1 r2,
  pclosed pl = false /\ nearest_one ROps pl p1 = Ok r1 /\ nearest_one ROps pl p2 = Ok r2 /\
  index_of_vertex ROps (pv pl) (n_pt r1) = None /\ index_of_vertex ROps (pv pl) (n_pt r2) = None /\
  near_vertex ROps (n_pt r2) (n_pt r1) = false /\
  unique_nearest pl p1 r1 /\ unique_nearest pl p2 r2 /\ before_on r2 r1.
Proof. exact aligned_open_post_inhabited. Qed.
Example C07_aligned_closed_spec_inhabited : exists pl p1 p2 r1 r2,
  pclosed pl = true /\ nearest_one ROps pl p1 = Ok r1 /\ nearest_one ROps pl p2 = Ok r2 /\
  index_of_vertex ROps (pv pl) (n_pt r1) = None /\ index_of_vertex ROps (pv pl) (n_pt r2) = None /\
  near_vertex ROps (n_pt r2) (n_pt r1) = false /\
  unique_nearest pl p1 r1 /\ unique_nearest pl p2 r2.
Proof. exact aligned_closed_post_inhabited. Qed.

Definition C07_all := (C07_sliced_at_points_closed_total, C07_closest_point_on_segment, C07_closest_point_optimal, C07_on_segment_iff_within_eps,
  C07_on_segment_uses_closest_point, C07_pairwise_is_rowwise, C07_nearest_total, C07_nearest_stacked_is_rowwise,
  C07_nearest_is_min_over_segments, C07_nearest_outputs_consistent, C07_nearest_ties_lowest_index,
  C07_nearest_returns_requested_refuted, C07_nearest_returns_requested_partial,
  C07_sliced_at_points_open_spec, C07_nearest_invariant_under_vertex_insertion, C07_sliced_at_points_closed_spec,
  C07_sliced_at_points_closed_explicit, C07_aligned_along_subsegment_decision, C07_reversed_segments,
  C07_nearest_on_reversed, C07_sliced_commutes_with_reversal, C07_aligned_along_subsegment_open_spec,
  C07_aligned_along_subsegment_closed_spec).
Print Assumptions C07_all.
