(* C06 — Slicing a polyline by a plane keeps exactly the run in front, or refuses.
   Only statements here; each is closed by `exact <lemma>` from proofs/P_polyline_slice.v.

   The specification vocabulary is model-level: coq/model/M_polyline_slice_spec.v (definitions only)
     in_front pl v            the vertex's sign np.sign(signed distance) is 1
     open_split sg vs pre run post      vs = pre ++ run ++ post, run <> [], every vertex of run in front, none of pre ++ post
     cyclic_split sg vs run rest        some rotation of vs is run ++ rest, both non-empty, run in front, rest not
     crossing pl a b          a + t (b - a) with t = d_a / (d_a - d_b), d = signed distance (crossing_t)
     opposite pl a b          a and b strictly on opposite sides
     spec_points pl pre run post        [entry extension] ++ run ++ [exit extension]  (enter / leave)
     closed_spec_points pl run rest     the same with the neighbours taken cyclically: before = last rest, after = first rest
   The model (coq/model/M_polyline_slice.v) is the code of /repo including the repairs b8558f7 (closed roll) and
   eedfc5c (crossing point from the signed distances).  `sliced_by_plane` is the vertex array of the result,
   `sliced_polyline` the returned value (rows + is_closed flag), see C06_result_is_open.
   Binary64: the theorems are over the reals.  That a vertex within rounding error of the plane still gives finite
   rows is checked on sampled inputs (near_plane / near_oblique streams), not proved. *)
From Coq Require Import ZArith Reals List Bool Lra.
From PW Require Import Num NumR Vec NpList Result.
From PW.model Require Import M_plane M_polyline_base M_polyline_slice M_polyline_slice_spec.
From PW.proofs Require Import P_plane P_polyline_slice.
Import ListNotations.
Local Open Scope R_scope.

(* the sign the code branches on is the sign of the signed distance *)
Theorem C06_in_front_iff : forall pl v, in_front pl v <-> 0 < plane_sd ROps pl v.
Proof. exact in_front_iff. Qed.

(* "lies on the plane": the sign the spec's enter / leave test is 0 exactly when the signed distance is 0; and the
   third possibility is strictly behind *)
Theorem C06_on_plane_iff : forall pl v,
  (plane_sign ROps pl v = 0%Z <-> plane_sd ROps pl v = 0) /\ (plane_sign ROps pl v = (-1)%Z <-> plane_sd ROps pl v < 0) /\
  (plane_sign ROps pl v = 1%Z \/ plane_sign ROps pl v = 0%Z \/ plane_sign ROps pl v = (-1)%Z).
Proof. intros pl v. exact (conj (sign_zero pl v) (conj (sign_neg pl v) (sign_range pl v))). Qed.

(* the crossing point (computed from the two signed distances): for endpoints strictly on opposite sides the
   parameter is strictly inside (0,1) ... *)
Theorem C06_crossing_param_in_unit_interval : forall pl a b,
  opposite pl a b -> 0 < crossing_t pl a b < 1.
Proof. exact crossing_param_in_unit_interval. Qed.
(* ... the row the code computes is that point (the zero-denominator branch cannot be taken) ... *)
Theorem C06_crossing_row_is_point : forall pl a b,
  opposite pl a b -> crossing_row ROps pl a b = XPt (crossing pl a b).
Proof. exact crossing_row_is_point. Qed.
(* ... and that point lies on the plane *)
Theorem C06_crossing_on_plane : forall pl a b,
  plane_sd ROps pl a <> plane_sd ROps pl b -> plane_sd ROps pl (crossing pl a b) = 0.
Proof. exact crossing_on_plane. Qed.

(* ... and it is the point intersect_segment_with_plane returns for the same segment (the mechanism the code used
   before /repo eedfc5c; over the reals the two agree) *)
Theorem C06_crossing_agrees_with_intersect_segment : forall pl a b, opposite pl a b ->
  intersect_segment_with_plane ROps a (vsub ROps b a) (pref pl) (pnormal pl) = XPt (crossing pl a b).
Proof. exact crossing_is_segment_plane_intersection. Qed.

(* open polylines of every length (and closed ones with at most one vertex, which take the same code path):
   exactly the run in front with its extensions, ValueError in every other situation
   (no vertex, no vertex in front, every vertex in front, more than one run) *)
Theorem C06_slice_open_refines_spec : forall pl vs,
  (forall pre run post, open_split (plane_sign ROps pl) vs pre run post -> pre ++ post <> [] ->
     slice_open ROps pl vs = Ok (map XPt (spec_points pl pre run post))) /\
  ((forall pre run post, open_split (plane_sign ROps pl) vs pre run post -> pre ++ post = []) ->
     slice_open ROps pl vs = Raise ValueError).
Proof. exact slice_open_refines_spec. Qed.
Theorem C06_sliced_open_refines_spec : forall pl vs closed, closed = false \/ (length vs <= 1)%nat ->
  (forall pre run post, open_split (plane_sign ROps pl) vs pre run post -> pre ++ post <> [] ->
     sliced_by_plane ROps pl (MkPolyline vs closed) = Ok (map XPt (spec_points pl pre run post))) /\
  ((forall pre run post, open_split (plane_sign ROps pl) vs pre run post -> pre ++ post = []) ->
     sliced_by_plane ROps pl (MkPolyline vs closed) = Raise ValueError).
Proof. exact sliced_open_refines_spec. Qed.

(* closed polylines of every length: the run and both exits may wrap around the last vertex; the entry and the
   exit neighbour are the same vertex when exactly one vertex is not in front *)
Theorem C06_sliced_closed_refines_spec : forall pl vs,
  (forall run rest, cyclic_split (plane_sign ROps pl) vs run rest ->
     sliced_by_plane ROps pl (MkPolyline vs true) = Ok (map XPt (closed_spec_points pl run rest))) /\
  ((forall run rest, ~ cyclic_split (plane_sign ROps pl) vs run rest) ->
     sliced_by_plane ROps pl (MkPolyline vs true) = Raise ValueError).
Proof. exact sliced_closed_refines_spec. Qed.

(* all returned coordinates are finite (no NaN row) and none is behind the plane *)
Theorem C06_result_finite_not_behind : forall pl p rows,
  sliced_by_plane ROps pl p = Ok rows ->
  Forall (fun r => exists v, r = XPt v /\ 0 <= plane_sd ROps pl v) rows.
Proof. exact result_finite_not_behind. Qed.

(* interior vertices are the input's own vertices (list elements, no arithmetic), in path order *)
Theorem C06_interior_vertices_identical : forall pl p rows,
  sliced_by_plane ROps pl p = Ok rows ->
  exists a run b, rows = map XPt (a ++ run ++ b) /\ (length a <= 1)%nat /\ (length b <= 1)%nat /\
    run <> [] /\ Forall (in_front pl) run /\
    exists x y pre post, pv p = x ++ y /\ y ++ x = pre ++ run ++ post.
Proof. exact interior_vertices_identical. Qed.

(* the only exception the model ever raises is ValueError *)
Theorem C06_only_value_error : forall pl p e,
  sliced_by_plane ROps pl p = Raise e -> e = ValueError.
Proof. exact only_value_error. Qed.

(* ---- definitional: pins the shape of the specification / of the model's return value; the content is carried by
   the theorems above and, for the is_closed flag, by the traced structure and the correspondence ---- *)
(* what is returned is an OPEN polyline whose vertex rows are the rows characterised above; exceptions unchanged *)
Theorem C06_result_is_open : forall pl p,
  (forall r, sliced_polyline ROps pl p = Ok r -> s_closed r = false /\ sliced_by_plane ROps pl p = Ok (s_rows r)) /\
  (forall rows, sliced_by_plane ROps pl p = Ok rows -> sliced_polyline ROps pl p = Ok (MkSliced rows false)) /\
  (forall e, sliced_polyline ROps pl p = Raise e <-> sliced_by_plane ROps pl p = Raise e).
Proof. exact result_is_open. Qed.

(* the specification vocabulary unfolded once (coq/model/M_polyline_slice_spec.v cannot drift unnoticed) *)
Theorem C06_spec_vocabulary : forall pl (vs pre run post rest : list (vec3 R)) a b,
  (open_split (plane_sign ROps pl) vs pre run post <->
     vs = pre ++ run ++ post /\ run <> [] /\ Forall (in_front pl) run /\ Forall (fun v => ~ in_front pl v) (pre ++ post)) /\
  (cyclic_split (plane_sign ROps pl) vs run rest <->
     (exists x y, vs = x ++ y /\ y ++ x = run ++ rest) /\ run <> [] /\ rest <> [] /\
     Forall (in_front pl) run /\ Forall (fun v => ~ in_front pl v) rest) /\
  spec_points pl pre run post =
    enter (plane_sign ROps pl) (fun v => v) (crossing pl) (olast pre) (hd_error run) ++ run ++
    leave (plane_sign ROps pl) (fun v => v) (crossing pl) (olast run) (hd_error post) /\
  closed_spec_points pl run rest =
    enter (plane_sign ROps pl) (fun v => v) (crossing pl) (olast rest) (hd_error run) ++ run ++
    leave (plane_sign ROps pl) (fun v => v) (crossing pl) (olast run) (hd_error rest) /\
  crossing pl a b =
    vadd ROps a (vscale ROps (plane_sd ROps pl a / (plane_sd ROps pl a - plane_sd ROps pl b)) (vsub ROps b a)) /\
  (opposite pl a b <-> (plane_sd ROps pl a < 0 /\ 0 < plane_sd ROps pl b) \/ (plane_sd ROps pl b < 0 /\ 0 < plane_sd ROps pl a)).
Proof. exact spec_vocabulary. Qed.

(* the extension rows spelled out: nothing at a path end, the neighbour when it is on the plane, else the crossing *)
Theorem C06_extension_points : forall pl before first lastv after,
  enter (plane_sign ROps pl) (fun v => v) (crossing pl) before first =
    match before, first with
    | Some v, Some f => if (plane_sign ROps pl v =? 0)%Z then [v] else [crossing pl v f]
    | _, _ => []
    end /\
  leave (plane_sign ROps pl) (fun v => v) (crossing pl) lastv after =
    match lastv, after with
    | Some l, Some v => if (plane_sign ROps pl v =? 0)%Z then [v] else [crossing pl l v]
    | _, _ => []
    end.
Proof. intros. split; reflexivity. Qed.

(* non-vacuity: an open polyline with a single run in front and a crossing at each end *)
Example C06_split_inhabited :
  open_split (plane_sign ROps xplane) [V3 (-1) 0 0; V3 1 1 0; V3 (-1) 2 0] [V3 (-1) 0 0] [V3 1 1 0] [V3 (-1) 2 0].
Proof.
  assert (Sp : plane_sign ROps xplane (V3 1 1 0) = 1%Z) by (apply sign_pos; unfold xplane; punf; lra).
  assert (Sn : forall y, plane_sign ROps xplane (V3 (-1) y 0) = (-1)%Z) by (intros; apply sign_neg; unfold xplane; punf; lra).
  constructor; [reflexivity|discriminate| |]; repeat constructor; unfold front; rewrite ?Sp, ?Sn; congruence.
Qed.

(* non-vacuity: a closed polyline whose run wraps around the last vertex; two points strictly on opposite sides *)
Example C06_cyclic_split_inhabited :
  cyclic_split (plane_sign ROps xplane) [V3 1 0 0; V3 (-1) 1 0; V3 1 2 0] [V3 1 2 0; V3 1 0 0] [V3 (-1) 1 0].
Proof.
  assert (Sp : forall y, plane_sign ROps xplane (V3 1 y 0) = 1%Z) by (intros; apply sign_pos; unfold xplane; punf; lra).
  assert (Sn : plane_sign ROps xplane (V3 (-1) 1 0) = (-1)%Z) by (apply sign_neg; unfold xplane; punf; lra).
  split; [exists [V3 1 0 0; V3 (-1) 1 0], [V3 1 2 0]; split; reflexivity|].
  split; [discriminate|]. split; [discriminate|].
  split; repeat constructor; unfold front; rewrite ?Sp, ?Sn; congruence.
Qed.
Example C06_opposite_inhabited : opposite xplane (V3 (-1) 0 0) (V3 2 1 0).
Proof. left. unfold xplane. split; punf; lra. Qed.

Definition C06_all := (C06_in_front_iff, C06_extension_points, C06_crossing_param_in_unit_interval,
  C06_crossing_row_is_point, C06_crossing_on_plane, C06_crossing_agrees_with_intersect_segment, C06_slice_open_refines_spec, C06_sliced_open_refines_spec,
  C06_sliced_closed_refines_spec, C06_result_finite_not_behind, C06_interior_vertices_identical,
  C06_only_value_error, C06_result_is_open, C06_on_plane_iff, C06_spec_vocabulary).
Print Assumptions C06_all.
