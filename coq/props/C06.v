(* C06 — Slicing a polyline by a plane keeps exactly the run in front, or refuses.
   Only statements here; each is closed by `exact <lemma>` from proofs/P_polyline_slice.v.

   Vocabulary (proofs/P_polyline_slice.v):
     in_front pl v            the vertex's sign np.sign(signed distance) is 1, i.e. 0 < signed distance
     open_split sg vs pre run post      vs = pre ++ run ++ post, run <> [], every vertex of run in front, none of pre ++ post
     cyclic_split sg vs run rest        some rotation of vs is run ++ rest, both non-empty, run in front, rest not
     crossing pl a b          a + t (b - a) with t = ((ref - a).n) / ((b - a).n), the point the code computes from a towards b
     spec_points pl pre run post        [entry extension] ++ run ++ [exit extension]  (DESIGN Appendix A: enter / exit)
     closed_spec_points pl run rest     the same with the neighbours taken cyclically: before = last rest, after = first rest
   The model of the closed case is the code with fixes/C06-closed-slice.diff applied; the two defects of the
   unchanged code are stated at the end on `sliced_by_plane_unfixed`. *)
From Coq Require Import ZArith Reals List Bool Lra.
From PW Require Import Num NumR Vec NpList Result.
From PW.model Require Import M_plane M_polyline_base M_polyline_slice.
From PW.proofs Require Import P_plane P_polyline_slice.
Import ListNotations.
Local Open Scope R_scope.

(* the sign the code branches on is the sign of the signed distance *)
Theorem C06_in_front_iff : forall pl v, in_front pl v <-> 0 < plane_sd ROps pl v.
Proof. exact in_front_iff. Qed.

(* the extension rows spelled out: nothing at a path end, the neighbour when it is on the plane, else the crossing *)
Theorem C06_extension_points : forall pl before first lastv after,
  enter (plane_sign ROps pl) (fun v => v) (crossing pl) before first =
    match before, first with
    | Some v, Some f => if (plane_sign ROps pl v =? 0)%Z then [v] else [crossing pl v f]
    | _, _ => []
    end /\
  leave (plane_sign ROps pl) (fun v => v) (crossing pl) lastv after =
    match lastv, after with
    | Some l, Some v => if (plane_sign ROps pl v =? 0)%Z then [v] else [crossing pl l v]
    | _, _ => []
    end.
Proof. intros. split; reflexivity. Qed.

(* segment/plane crossing: for endpoints strictly on opposite sides the parameter is strictly inside (0,1) ... *)
Theorem C06_crossing_param_in_unit_interval : forall pl a b,
  opposite pl a b -> 0 < crossing_t pl a b < 1.
Proof. exact crossing_param_in_unit_interval. Qed.
(* ... the code's out-of-range rejection does not fire, the row is the crossing point ... *)
Theorem C06_crossing_row_is_point : forall pl a b,
  opposite pl a b -> crossing_row ROps pl a b = XPt (crossing pl a b).
Proof. exact crossing_row_is_point. Qed.
(* ... and that point lies on the plane *)
Theorem C06_crossing_on_plane : forall pl a b,
  plane_sd ROps pl a <> plane_sd ROps pl b -> plane_sd ROps pl (crossing pl a b) = 0.
Proof. exact crossing_on_plane. Qed.

(* open polylines of every length (and closed ones with at most one vertex, which take the same code path):
   exactly the run in front with its extensions, ValueError in every other situation
   (no vertex, no vertex in front, every vertex in front, more than one run) *)
Theorem C06_slice_open_refines_spec : forall pl vs,
  (forall pre run post, open_split (plane_sign ROps pl) vs pre run post -> pre ++ post <> [] ->
     slice_open ROps pl vs = Ok (map XPt (spec_points pl pre run post))) /\
  ((forall pre run post, open_split (plane_sign ROps pl) vs pre run post -> pre ++ post = []) ->
     slice_open ROps pl vs = Raise ValueError).
Proof. exact slice_open_refines_spec. Qed.
Theorem C06_sliced_open_refines_spec : forall pl vs closed, closed = false \/ (length vs <= 1)%nat ->
  (forall pre run post, open_split (plane_sign ROps pl) vs pre run post -> pre ++ post <> [] ->
     sliced_by_plane ROps pl (MkPolyline vs closed) = Ok (map XPt (spec_points pl pre run post))) /\
  ((forall pre run post, open_split (plane_sign ROps pl) vs pre run post -> pre ++ post = []) ->
     sliced_by_plane ROps pl (MkPolyline vs closed) = Raise ValueError).
Proof. exact sliced_open_refines_spec. Qed.

(* closed polylines of every length: the run and both exits may wrap around the last vertex; the entry and the
   exit neighbour are the same vertex when exactly one vertex is not in front *)
Theorem C06_sliced_closed_refines_spec : forall pl vs,
  (forall run rest, cyclic_split (plane_sign ROps pl) vs run rest ->
     sliced_by_plane ROps pl (MkPolyline vs true) = Ok (map XPt (closed_spec_points pl run rest))) /\
  ((forall run rest, ~ cyclic_split (plane_sign ROps pl) vs run rest) ->
     sliced_by_plane ROps pl (MkPolyline vs true) = Raise ValueError).
Proof. exact sliced_closed_refines_spec. Qed.

(* all returned coordinates are finite (no NaN row) and none is behind the plane *)
Theorem C06_result_finite_not_behind : forall pl p rows,
  sliced_by_plane ROps pl p = Ok rows ->
  Forall (fun r => exists v, r = XPt v /\ 0 <= plane_sd ROps pl v) rows.
Proof. exact result_finite_not_behind. Qed.

(* interior vertices are the input's own vertices (list elements, no arithmetic), in path order *)
Theorem C06_interior_vertices_identical : forall pl p rows,
  sliced_by_plane ROps pl p = Ok rows ->
  exists a run b, rows = map XPt (a ++ run ++ b) /\ (length a <= 1)%nat /\ (length b <= 1)%nat /\
    run <> [] /\ Forall (in_front pl) run /\
    exists x y pre post, pv p = x ++ y /\ y ++ x = pre ++ run ++ post.
Proof. exact interior_vertices_identical. Qed.

(* the only exception the model ever raises is ValueError *)
Theorem C06_only_value_error : forall pl p e,
  sliced_by_plane ROps pl p = Raise e -> e = ValueError.
Proof. exact only_value_error. Qed.

(* ---- the unchanged code (pinned commit, without fixes/C06-closed-slice.diff) --------------------------- *)
(* closed polyline with every vertex in front: IndexError where the property demands ValueError *)
Theorem C06_unfixed_closed_all_front_refuted :
  sliced_by_plane_unfixed ROps xplane (MkPolyline [V3 1 0 0; V3 1 1 0] true) = Raise IndexError.
Proof. exact unfixed_all_front_raises_index_error. Qed.
(* closed polyline with exactly one vertex not in front, signs (-1,1,1): three rows, the exit point is missing *)
Theorem C06_unfixed_closed_one_nonfront_refuted :
  let vs := [V3 (-1) 0 0; V3 1 1 0; V3 1 2 0] in
  let run := [V3 1 1 0; V3 1 2 0] in let rest := [V3 (-1) 0 0] in
  cyclic_split (plane_sign ROps xplane) vs run rest /\
  (exists rows, sliced_by_plane_unfixed ROps xplane (MkPolyline vs true) = Ok rows /\ length rows = 3%nat) /\
  length (closed_spec_points xplane run rest) = 4%nat.
Proof. exact unfixed_one_nonfront_loses_exit. Qed.

(* non-vacuity: an open polyline with a single run in front and a crossing at each end *)
Example C06_split_inhabited :
  open_split (plane_sign ROps xplane) [V3 (-1) 0 0; V3 1 1 0; V3 (-1) 2 0] [V3 (-1) 0 0] [V3 1 1 0] [V3 (-1) 2 0].
Proof.
  assert (Sp : plane_sign ROps xplane (V3 1 1 0) = 1%Z) by (apply sign_pos; unfold xplane; punf; lra).
  assert (Sn : forall y, plane_sign ROps xplane (V3 (-1) y 0) = (-1)%Z) by (intros; apply sign_neg; unfold xplane; punf; lra).
  constructor; [reflexivity|discriminate| |]; repeat constructor; unfold front; rewrite ?Sp, ?Sn; congruence.
Qed.

Definition C06_all := (C06_in_front_iff, C06_extension_points, C06_crossing_param_in_unit_interval,
  C06_crossing_row_is_point, C06_crossing_on_plane, C06_slice_open_refines_spec, C06_sliced_open_refines_spec,
  C06_sliced_closed_refines_spec, C06_result_finite_not_behind, C06_interior_vertices_identical,
  C06_only_value_error, C06_unfixed_closed_all_front_refuted, C06_unfixed_closed_one_nonfront_refuted).
Print Assumptions C06_all.
