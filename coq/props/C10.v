(* C10 — Rodrigues conversions produce the stated rotation and invert each other.
   Only statements here; each is closed by `exact <lemma>` from proofs/P_rodrigues*.v. *)
From Coq Require Import ZArith Reals Lra List Bool.
From Coquelicot Require Import Coquelicot.
From PW Require Import Num NumR Vec Mat Result.
From PW.model Require Import M_rodrigues M_rodrigues_spec M_rodrigues_exact.
From PW.proofs Require Import P_rodrigues P_rodrigues_inv P_rodrigues_jac P_rodrigues_rt P_rodrigues_half P_rodrigues_deriv P_rodrigues_tiny P_rodrigues_zones P_rodrigues_exact.
Import ListNotations.
Local Open Scope R_scope.

(* ---- forward map: every rotation vector r (both branches of the code) ------------------------------ *)
(* proper rotation: M^T M = I, M M^T = I, det M = +1 *)
Theorem C10_fwd_proper : forall r : vec3 R,
  let M := rodrigues_fwd ROps r in
  m3mul ROps (m3transpose M) M = I3 ROps /\ m3mul ROps M (m3transpose M) = I3 ROps /\ m3det ROps M = 1.
Proof. exact fwd_proper. Qed.

(* fixes the axis r/|r| (and hence r itself, also for r = 0) *)
Theorem C10_fwd_fixes_axis : forall r : vec3 R, r <> V3 0 0 0 ->
  m3apply ROps (rodrigues_fwd ROps r) (vnormalize ROps r) = vnormalize ROps r.
Proof. exact fwd_fixes_axis. Qed.
Theorem C10_fwd_fixes_vector : forall r : vec3 R, m3apply ROps (rodrigues_fwd ROps r) r = r.
Proof. exact fwd_fixes_vector. Qed.

(* turns vectors perpendicular to the axis by the angle |r|, right-handed: M v = cos|r| v + sin|r| (k x v).
   Restricted to eps <= |r|: below eps = 2^-52 the code returns the identity (see C10_fwd_tiny_* below). *)
Theorem C10_fwd_turns_perp : forall r v : vec3 R,
  rod_eps ROps <= vnorm ROps r -> vdot ROps v r = 0 ->
  m3apply ROps (rodrigues_fwd ROps r) v =
  vadd ROps (vscale ROps (cos (vnorm ROps r)) v)
            (vscale ROps (sin (vnorm ROps r)) (vcross ROps (vnormalize ROps r) v)).
Proof. exact fwd_turns_perp. Qed.

Theorem C10_fwd_zero_is_identity : rodrigues_fwd ROps (V3 0 0 0) = I3 ROps.
Proof. exact fwd_zero_is_identity. Qed.

(* the `< eps` shortcut (eps = 2^-52): for |r| < eps the code returns exactly I, and that is within |r| |v| (< 2.3e-16 |v|)
   of the exact rotation by |r| about r/|r| applied to any vector v *)
(* definitional: pins the shape of the model; the content is carried by the traced ties / correspondence *)
Theorem C10_fwd_tiny_is_identity : forall r : vec3 R,
  vnorm ROps r < rod_eps ROps -> rodrigues_fwd ROps r = I3 ROps.
Proof. exact fwd_tiny_is_identity. Qed.
(* end definitional *)
Theorem C10_fwd_tiny_error_bound : forall r v : vec3 R, 0 < vnorm ROps r < rod_eps ROps ->
  vnorm ROps (vsub ROps
     (m3apply ROps (rod_matrix ROps (cos (vnorm ROps r)) (sin (vnorm ROps r)) (rod_axis ROps r)) v)
     (m3apply ROps (rodrigues_fwd ROps r) v)) <= vnorm ROps r * vnorm ROps v.
Proof. exact fwd_tiny_error_bound. Qed.

(* ---- inverse map ------------------------------------------------------------------------------------
   `proj` is numpy's svd projection u @ v (LAPACK, not modelled); proj_ok: it returns its input when the input is
   already orthogonal.  rod_small is the binary64 literal 1e-5. *)
(* vector -> matrix -> vector is the identity for 0 < |r| < pi (outside the snapping region sin|r| < 1e-5) *)
Theorem C10_inv_of_fwd : forall proj (r : vec3 R), proj_ok proj ->
  0 < vnorm ROps r < PI -> rod_small ROps <= sin (vnorm ROps r) ->
  rodrigues_inv ROps proj (rodrigues_fwd ROps r) = Some r.
Proof. exact inv_of_fwd. Qed.
(* matrix -> vector -> matrix: every proper rotation with s = |antisymmetric part|/2 >= 1e-5 is mapped back exactly *)
Theorem C10_fwd_of_inv_generic : forall proj (m : mat3 R), proj_ok proj ->
  (m3mul ROps (m3transpose m) m = I3 ROps /\ m3mul ROps m (m3transpose m) = I3 ROps /\ m3det ROps m = 1) ->
  rod_small ROps <= rod_inv_s ROps m ->
  exists v, rodrigues_inv ROps proj m = Some v /\ rodrigues_fwd ROps v = m.
Proof. exact fwd_of_inv_generic. Qed.
(* exact half-turns R = 2 k k^T - I about EVERY unit axis k (all octants, zero components included): the branch that
   recovers the axis from the diagonal with its three sign fix-ups returns a vector of length pi that maps back to R *)
Theorem C10_half_turn_roundtrip : forall proj (k : vec3 R), proj_ok proj -> vnorm2 ROps k = 1 ->
  let Rm := m3add ROps (m3scale ROps 2 (m3outer ROps k)) (m3scale ROps (-1) (I3 ROps)) in
  exists v, rodrigues_inv ROps proj Rm = Some v /\ vnorm ROps v = PI /\ rodrigues_fwd ROps v = Rm.
Proof. exact half_turn_roundtrip_vec. Qed.
(* every proper rotation gets a vector (the model's NaN outcome `None` cannot occur on SO(3)), never longer than pi *)
Theorem C10_inv_defined_and_short : forall proj (m : mat3 R), proj_ok proj -> proper m ->
  exists v, rodrigues_inv ROps proj m = Some v /\ vnorm ROps v <= PI.
Proof. exact inv_defined_and_short. Qed.
(* (the length bound alone holds for any matrix coming out of the projection, proper or not) *)
Theorem C10_inv_norm_le_pi : forall proj (m : mat3 R) v,
  rodrigues_inv ROps proj m = Some v -> vnorm ROps v <= PI.
Proof. intros proj m v. exact (inv_norm_le_pi (proj m) v). Qed.

(* ---- the snapping zones s = |antisymmetric part|/2 < 1e-5 (within ~1e-5 rad of 0 or of pi) ------------------
   zero zone (c > 0): the code returns the zero vector; it maps back to I, and EVERY entry of I differs from the
   entry of R by at most 2 s < 2e-5 -- this is the property's 2.5e-5 clause for the zone next to 0, proved. *)
Theorem C10_inv_zero_zone_maps_back : forall proj (m : mat3 R), proj_ok proj -> proper m ->
  rod_inv_s ROps m < rod_small ROps -> 0 < rod_inv_c ROps m ->
  rodrigues_inv ROps proj m = Some (vzero ROps) /\
  forall a b, (a < 3)%nat -> (b < 3)%nat ->
    Rabs (m3get (rodrigues_fwd ROps (vzero ROps)) a b - m3get m a b) <= 2 * rod_inv_s ROps m.
Proof. exact inv_zero_zone. Qed.
(* half-turn zone (c <= 0), not an exact half-turn.  Proved: a vector is returned, its length is exactly the rotation
   angle acos((tr R - 1)/2) of R (in [pi/2, pi]), so mapping it back gives a rotation by the right angle.
   Missing: the entrywise bound |R - fwd(v)|_max <= 2.5e-5 itself.  Status: not mechanised.  Measured supremum on the repaired
   code (/repo 1246e74; second audit, 22 000 axes x 7 offsets + directed sweeps): sqrt(5) s = 2.236e-5 (axis with one zero
   component and negative leading component, offset -> 1e-5), i.e. the clause holds with 11 % margin.  A paper argument gives
   only 2 s + 2 sqrt(1 + c) <= 4 s = 4e-5, which does NOT establish 2.5e-5: the figure rests on sampling (oracle kinds
   inv_of_fwd, inv_threshold, inv_halfturn_two_small).  Before 1246e74 the clause failed by 4e-3 (sign tests on r[i,j] alone). *)
Theorem C10_inv_halfturn_zone_partial : forall proj (m : mat3 R), proj_ok proj -> proper m ->
  rod_inv_s ROps m < rod_small ROps -> rod_inv_c ROps m <= 0 ->
  exists v, rodrigues_inv ROps proj m = Some v /\
    vnorm ROps v = acos ((a00 m + a11 m + a22 m - 1) * / 2) /\ PI / 2 <= vnorm ROps v <= PI /\
    cos (vnorm ROps v) = (a00 m + a11 m + a22 m - 1) * / 2.
Proof. exact inv_halfturn_zone. Qed.
(* vector -> matrix -> vector inside the zones.  Next to 0 (0 < |r| < pi/2 with sin|r| < 1e-5): the zero vector comes back,
   so the round-trip error is |0 - r| = |r| <= 1e-5 (1 + 1e-5) < 2.5e-5 (from sin t >= t - t^3/6). *)
Theorem C10_inv_of_fwd_zero_zone : forall proj (r : vec3 R), proj_ok proj ->
  0 < vnorm ROps r < PI / 2 -> sin (vnorm ROps r) < rod_small ROps ->
  rodrigues_inv ROps proj (rodrigues_fwd ROps r) = Some (vzero ROps) /\
  vnorm ROps (vsub ROps (vzero ROps) r) <= rod_small ROps * (1 + rod_small ROps) /\
  rod_small ROps * (1 + rod_small ROps) < 25 / 1000000.
Proof. exact inv_of_fwd_zero_zone_full. Qed.
(* Next to pi (pi - 1e-5 < |r| < pi): a vector of exactly the length |r| comes back -- but NOT r itself in general: the first
   component of the returned axis is forced >= 0, so for half of all axes the result is about -r (2 pi away from r), in the
   whole open zone, where k and -k are different rotations (they differ by a turn of 2 (pi - |r|) < 2e-5, which is why the
   MATRIX still maps back within 2.5e-5).  "vector to matrix to vector is the identity for |r| < pi" is therefore false as
   written on this zone: C10_inv_of_fwd_halfturn_zone_refuted below, known finding halfturn_zone_axis_flip. *)
Theorem C10_inv_of_fwd_halfturn_zone_partial : forall proj (r : vec3 R), proj_ok proj ->
  rod_eps ROps <= vnorm ROps r <= PI -> sin (vnorm ROps r) < rod_small ROps -> cos (vnorm ROps r) <= 0 ->
  exists v, rodrigues_inv ROps proj (rodrigues_fwd ROps r) = Some v /\ vnorm ROps v = vnorm ROps r.
Proof. exact inv_of_fwd_halfturn_zone. Qed.

Theorem C10_inv_of_fwd_halfturn_zone_refuted :
  exists r : vec3 R, 0 < vnorm ROps r < PI /\ PI - rod_small ROps < vnorm ROps r /\
    forall proj, proj_ok proj -> exists v, rodrigues_inv ROps proj (rodrigues_fwd ROps r) = Some v /\ v <> r.
Proof. exact inv_of_fwd_halfturn_zone_refuted. Qed.

(* ---- Jacobians -------------------------------------------------------------------------------------- *)
(* "the Jacobian it can return equals the derivative of that map": for every rotation vector with |r| > eps, every
   coordinate j and every matrix entry (a, b) -- all 27 -- row j of the returned (3,9) Jacobian, entry (a, b), is the
   derivative (Coquelicot is_derive) of t |-> rodrigues_fwd (r + t e_j) [a, b] at t = 0.  The map differentiated is the
   code's own map including its eps branch (|r| > eps keeps a neighbourhood inside the generic branch). *)
Theorem C10_fwd_jacobian_is_derivative : forall (r : vec3 R) (j a b : nat),
  (j < 3)%nat -> (a < 3)%nat -> (b < 3)%nat -> rod_eps ROps < vnorm ROps r ->
  exists Jj, nth_error (rodrigues_fwd_jac ROps r) j = Some Jj /\
    is_derive (fun t => m3get (rodrigues_fwd ROps (vadd ROps r (vscale ROps t (vbasis ROps j)))) a b) 0 (m3get Jj a b).
Proof. exact fwd_jacobian_is_derivative. Qed.
(* the same for the Rodrigues formula c I + (1-c) k k^T + s [k]x itself at EVERY r <> 0 (also 0 < |r| <= eps) and in every
   direction e: the directional derivative is the e-combination of the three Jacobian rows *)
Theorem C10_rodrigues_formula_derivative : forall (r e : vec3 R) (a b : nat),
  (a < 3)%nat -> (b < 3)%nat -> 0 < vnorm2 ROps r ->
  let R_of v := rod_matrix ROps (cos (vnorm ROps v)) (sin (vnorm ROps v)) (rod_axis ROps v) in
  let J j := rod_jac_row ROps (cos (vnorm ROps r)) (sin (vnorm ROps r)) (1 / vnorm ROps r) (rod_axis ROps r) j in
  is_derive (fun t => m3get (R_of (vadd ROps r (vscale ROps t e))) a b) 0
    (vx e * m3get (J 0%nat) a b + vy e * m3get (J 1%nat) a b + vz e * m3get (J 2%nat) a b).
Proof. exact fwd_formula_derive. Qed.
(* at r = 0 the table the code returns is the derivative of the EXACT rotation map (rod_exact: no eps shortcut): along a
   coordinate axis the exact map is the plane rotation by the angle t, whose derivative at 0 is the generator [e_j]x *)
Theorem C10_fwd_jacobian_at_zero : forall (j a b : nat), (j < 3)%nat -> (a < 3)%nat -> (b < 3)%nat ->
  nth_error (rodrigues_fwd_jac ROps (V3 0 0 0)) j = Some (rod_dskew ROps j) /\
  (forall t, rod_exact (vscale ROps t (vbasis ROps j)) = plane_rot j t) /\
  is_derive (fun t => m3get (rod_exact (vscale ROps t (vbasis ROps j))) a b) 0 (m3get (rod_dskew ROps j) a b).
Proof. exact fwd_jacobian_at_zero. Qed.
(* 0 < |r| < eps: the code still returns the generators.  Proved: what is returned (and the exact derivative there is the
   formula's Jacobian, C10_rodrigues_formula_derivative).  Missing: the O(|r|) < 1e-15 distance between the two; sampled by
   the finite-difference oracle. *)
Theorem C10_fwd_jacobian_tiny_partial : forall r : vec3 R, vnorm ROps r < rod_eps ROps ->
  rodrigues_fwd_jac ROps r = [rod_dskew ROps 0; rod_dskew ROps 1; rod_dskew ROps 2].
Proof. exact fwd_jac_small. Qed.

(* inverse Jacobian (9,3) composed with the forward Jacobian (3,9) is the 3x3 identity: for every proper rotation
   outside the snapping region, at the vector the inverse returns ... *)
Theorem C10_jacobians_compose_to_identity : forall proj (m : mat3 R), proj_ok proj ->
  (m3mul ROps (m3transpose m) m = I3 ROps /\ m3mul ROps m (m3transpose m) = I3 ROps /\ m3det ROps m = 1) ->
  rod_small ROps <= rod_inv_s ROps m ->
  exists v, rodrigues_inv ROps proj m = Some v /\
    jac_compose (rodrigues_fwd_jac ROps v) (rodrigues_inv_jac ROps proj m) = [[1; 0; 0]; [0; 1; 0]; [0; 0; 1]].
Proof. exact jacobians_compose_generic. Qed.
(* ... hence for every rotation vector with 0 < |r| < pi, sin|r| >= 1e-5 ... *)
Theorem C10_jacobians_compose_of_vector : forall proj (r : vec3 R), proj_ok proj ->
  0 < vnorm ROps r < PI -> rod_small ROps <= sin (vnorm ROps r) ->
  jac_compose (rodrigues_fwd_jac ROps r) (rodrigues_inv_jac ROps proj (rodrigues_fwd ROps r)) =
  [[1; 0; 0]; [0; 1; 0]; [0; 0; 1]].
Proof. exact jacobians_compose_of_vector. Qed.
(* ... and at the identity (r = 0, the c > 0 snapping branch with its literal table) *)
Theorem C10_jacobians_compose_at_identity : forall proj, proj_ok proj ->
  jac_compose (rodrigues_fwd_jac ROps (V3 0 0 0)) (rodrigues_inv_jac ROps proj (I3 ROps)) =
  [[1; 0; 0]; [0; 1; 0]; [0; 0; 1]].
Proof. exact jacobians_compose_identity. Qed.
(* ... and in the whole zero zone (s < 1e-5, c > 0: the literal +-0.5 table, at the returned vector 0) *)
Theorem C10_jacobians_compose_zero_zone : forall proj (m : mat3 R), proj_ok proj -> proper m ->
  rod_inv_s ROps m < rod_small ROps -> 0 < rod_inv_c ROps m ->
  jac_compose (rodrigues_fwd_jac ROps (vzero ROps)) (rodrigues_inv_jac ROps proj m) = [[1; 0; 0]; [0; 1; 0]; [0; 0; 1]].
Proof. exact jacobians_compose_zero_zone. Qed.
(* In the half-turn branch the code returns the zero Jacobian, so the clause is false there for every vector v
   (known finding halfturn_jacobian_zero): witness diag(1, -1, -1). *)
Theorem C10_jacobians_compose_halfturn_refuted :
  exists m : mat3 R,
    (m3mul ROps (m3transpose m) m = I3 ROps /\ m3mul ROps m (m3transpose m) = I3 ROps /\ m3det ROps m = 1) /\
    forall proj, proj_ok proj -> forall v,
      jac_compose (rodrigues_fwd_jac ROps v) (rodrigues_inv_jac ROps proj m) <> [[1; 0; 0]; [0; 1; 0]; [0; 0; 1]].
Proof. exact jacobians_compose_halfturn_refuted. Qed.

(* ---- dispatch --------------------------------------------------------------------------------------- *)
(* definitional: pins the shape of the model; the content is carried by the traced ties / correspondence *)
Theorem C10_cv2_dispatch : forall proj (a : ndarr) jac,
  (nd_size a = 3%nat -> cv2_rodrigues ROps proj a jac = r2m_entry ROps a jac) /\
  (nd_shape a = [3%nat; 3%nat] -> cv2_rodrigues ROps proj a jac = m2r_entry ROps proj a jac).
Proof. intros proj a jac. exact (conj (cv2_dispatch_vector proj a jac) (cv2_dispatch_matrix proj a jac)). Qed.
(* end definitional *)
Theorem C10_cv2_rejects_other_shapes : forall proj (a : ndarr) jac,
  nd_size a <> 3%nat -> nd_shape a <> [3%nat; 3%nat] -> cv2_rodrigues ROps proj a jac = Raise ValueError.
Proof. exact cv2_rejects_other_shapes. Qed.
(* the two conversions themselves: any array of 3 numbers ((3,), (3,1), (1,3), ...) is a rotation vector,
   exactly shape (3,3) is a matrix, everything else is a ValueError *)
Theorem C10_r2m_accepts_three : forall (a : ndarr) jac, nd_wf a -> nd_size a = 3%nat ->
  exists x y z, nd_data a = [x; y; z] /\
    r2m_entry ROps a jac =
      Ok (OutMat (rodrigues_fwd ROps (V3 x y z)) (if jac then Some (rodrigues_fwd_jac ROps (V3 x y z)) else None)).
Proof. exact r2m_entry_accepts. Qed.
Theorem C10_r2m_rejects_other_sizes : forall (a : ndarr) jac, nd_wf a -> nd_size a <> 3%nat ->
  r2m_entry ROps a jac = Raise ValueError.
Proof. exact r2m_entry_rejects. Qed.
Theorem C10_m2r_accepts_3x3 : forall proj (a : ndarr) jac, nd_wf a -> nd_shape a = [3%nat; 3%nat] ->
  exists m, nd_data a = m3list m /\
    m2r_entry ROps proj a jac =
      Ok (OutVec (rodrigues_inv ROps proj m) (if jac then Some (rodrigues_inv_jac ROps proj m) else None)).
Proof. exact m2r_entry_accepts. Qed.
Theorem C10_m2r_rejects_other_shapes : forall proj (a : ndarr) jac, nd_shape a <> [3%nat; 3%nat] ->
  m2r_entry ROps proj a jac = Raise ValueError.
Proof. exact m2r_entry_rejects. Qed.

(* non-vacuity: a quarter turn about z has |r| = PI/2 >= eps and moves x to y *)
Example C10_nonvacuous : rod_eps ROps <= vnorm ROps (V3 0 0 1) /\ vdot ROps (V3 1 0 0) (V3 0 0 1) = 0.
Proof.
  split.
  - unfold vnorm, vnorm2, vdot, rod_eps, nfrac; rops; cbn [vx vy vz].
    replace (0 * 0 + 0 * 0 + 1 * 1) with 1 by ring. rewrite sqrt_1. lra.
  - unfold vdot; rops; cbn [vx vy vz]. ring.
Qed.

(* non-vacuity of the inverse theorems: the identity function satisfies the svd contract; a quarter turn about z is
   a proper rotation with s = 1 >= 1e-5 *)
Example C10_nonvacuous_inv : proj_ok (fun m => m) /\
  (let m := M3 0 (-1) 0 1 0 0 0 0 1 in
   m3mul ROps (m3transpose m) m = I3 ROps /\ m3det ROps m = 1 /\ rod_small ROps <= rod_inv_s ROps m).
Proof.
  split; [intros m _; reflexivity|]. cbv zeta. split; [|split].
  - apply P_mat.M3_inj; P_mat.munf; ring.
  - P_mat.munf; ring.
  - unfold rod_inv_s, rod_antisym, rod_small, rod_half, nfrac, vnorm, vnorm2, vdot; rops; cbn [vx vy vz a00 a01 a02 a10 a11 a12 a20 a21 a22].
    replace ((0 - 0) * (0 - 0) + (0 - 0) * (0 - 0) + (1 - -1) * (1 - -1)) with (2 * 2) by ring.
    rewrite sqrt_square by lra. lra.
Qed.

(* non-vacuity of the zone theorems: rotations about x with rational cosine/sine 2e-6 rad from 0 and from pi
   (quaternion (10^6, 1, 0, 0) and (1, 10^6, 0, 0)) *)
Example C10_nonvacuous_zero_zone :
  let m := rot_x (999999999999 / 1000000000001) (2000000 / 1000000000001) in
  proper m /\ rod_inv_s ROps m < rod_small ROps /\ 0 < rod_inv_c ROps m.
Proof.
  cbv zeta. destruct (rot_x_facts (999999999999 / 1000000000001) (2000000 / 1000000000001)) as (Hp & Es & Ec); [field | lra |].
  rewrite Es, Ec. split; [exact Hp|]. unfold rod_small, nfrac; rops. split; lra.
Qed.
Example C10_nonvacuous_halfturn_zone :
  let m := rot_x (- (999999999999 / 1000000000001)) (2000000 / 1000000000001) in
  proper m /\ rod_inv_s ROps m < rod_small ROps /\ rod_inv_c ROps m <= 0.
Proof.
  cbv zeta. destruct (rot_x_facts (- (999999999999 / 1000000000001)) (2000000 / 1000000000001)) as (Hp & Es & Ec); [field | lra |].
  rewrite Es, Ec. split; [exact Hp|]. unfold rod_small, nfrac; rops. split; lra.
Qed.

Definition C10_all := (C10_fwd_proper, C10_fwd_fixes_axis, C10_fwd_fixes_vector, C10_fwd_turns_perp,
  C10_fwd_zero_is_identity, C10_fwd_tiny_is_identity, C10_fwd_tiny_error_bound, C10_inv_of_fwd, C10_fwd_of_inv_generic, C10_inv_norm_le_pi, C10_half_turn_roundtrip, C10_inv_defined_and_short, C10_inv_zero_zone_maps_back,
  C10_inv_halfturn_zone_partial, C10_inv_of_fwd_zero_zone, C10_fwd_jacobian_at_zero, C10_inv_of_fwd_halfturn_zone_partial, C10_inv_of_fwd_halfturn_zone_refuted, C10_jacobians_compose_zero_zone,
  C10_fwd_jacobian_is_derivative, C10_rodrigues_formula_derivative, C10_fwd_jacobian_tiny_partial,
  C10_jacobians_compose_to_identity, C10_jacobians_compose_of_vector, C10_jacobians_compose_at_identity,
  C10_jacobians_compose_halfturn_refuted, C10_cv2_dispatch, C10_cv2_rejects_other_shapes,
  C10_r2m_accepts_three, C10_r2m_rejects_other_sizes, C10_m2r_accepts_3x3, C10_m2r_rejects_other_shapes).
Print Assumptions C10_all.
