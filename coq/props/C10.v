(* C10 — Rodrigues conversions produce the stated rotation and invert each other.
   Only statements here; each is closed by `exact <lemma>` from proofs/P_rodrigues*.v. *)
From Coq Require Import ZArith Reals Lra List Bool.
From PW Require Import Num NumR Vec Mat Result.
From PW.model Require Import M_rodrigues.
From PW.proofs Require Import P_rodrigues.
Import ListNotations.
Local Open Scope R_scope.

(* ---- forward map: every rotation vector r (both branches of the code) ------------------------------ *)
(* proper rotation: M^T M = I, M M^T = I, det M = +1 *)
Theorem C10_fwd_proper : forall r : vec3 R,
  let M := rodrigues_fwd ROps r in
  m3mul ROps (m3transpose M) M = I3 ROps /\ m3mul ROps M (m3transpose M) = I3 ROps /\ m3det ROps M = 1.
Proof. exact fwd_proper. Qed.

(* fixes the axis r/|r| (and hence r itself, also for r = 0) *)
Theorem C10_fwd_fixes_axis : forall r : vec3 R, r <> V3 0 0 0 ->
  m3apply ROps (rodrigues_fwd ROps r) (vnormalize ROps r) = vnormalize ROps r.
Proof. exact fwd_fixes_axis. Qed.
Theorem C10_fwd_fixes_vector : forall r : vec3 R, m3apply ROps (rodrigues_fwd ROps r) r = r.
Proof. exact fwd_fixes_vector. Qed.

(* turns vectors perpendicular to the axis by the angle |r|, right-handed: M v = cos|r| v + sin|r| (k x v).
   Restricted to eps <= |r|: below eps = 2^-52 the code returns the identity (see the _partial below). *)
Theorem C10_fwd_turns_perp : forall r v : vec3 R,
  rod_eps ROps <= vnorm ROps r -> vdot ROps v r = 0 ->
  m3apply ROps (rodrigues_fwd ROps r) v =
  vadd ROps (vscale ROps (cos (vnorm ROps r)) v)
            (vscale ROps (sin (vnorm ROps r)) (vcross ROps (vnormalize ROps r) v)).
Proof. exact fwd_turns_perp. Qed.

Theorem C10_fwd_zero_is_identity : rodrigues_fwd ROps (V3 0 0 0) = I3 ROps.
Proof. exact fwd_zero_is_identity. Qed.

(* numeric clause: for 0 < |r| < eps the code returns exactly I (the `< eps` shortcut). Proved: what is returned.
   Missing: a bound on the distance to the exact rotation by |r| (it is <= |r| |v| < 2.3e-16 |v|); sampled by the oracle. *)
Theorem C10_fwd_tiny_is_identity_partial : forall r : vec3 R,
  vnorm ROps r < rod_eps ROps -> rodrigues_fwd ROps r = I3 ROps.
Proof. exact fwd_tiny_is_identity. Qed.

(* ---- dispatch --------------------------------------------------------------------------------------- *)
Theorem C10_cv2_dispatch : forall proj (a : ndarr) jac,
  (nd_size a = 3%nat -> cv2_rodrigues ROps proj a jac = r2m_entry ROps a jac) /\
  (nd_shape a = [3%nat; 3%nat] -> cv2_rodrigues ROps proj a jac = m2r_entry ROps proj a jac).
Proof. intros proj a jac. exact (conj (cv2_dispatch_vector proj a jac) (cv2_dispatch_matrix proj a jac)). Qed.
Theorem C10_cv2_rejects_other_shapes : forall proj (a : ndarr) jac,
  nd_size a <> 3%nat -> nd_shape a <> [3%nat; 3%nat] -> cv2_rodrigues ROps proj a jac = Raise ValueError.
Proof. exact cv2_rejects_other_shapes. Qed.
(* the two conversions themselves: any array of 3 numbers ((3,), (3,1), (1,3), ...) is a rotation vector,
   exactly shape (3,3) is a matrix, everything else is a ValueError *)
Theorem C10_r2m_accepts_three : forall (a : ndarr) jac, nd_wf a -> nd_size a = 3%nat ->
  exists x y z, nd_data a = [x; y; z] /\
    r2m_entry ROps a jac =
      Ok (OutMat (rodrigues_fwd ROps (V3 x y z)) (if jac then Some (rodrigues_fwd_jac ROps (V3 x y z)) else None)).
Proof. exact r2m_entry_accepts. Qed.
Theorem C10_r2m_rejects_other_sizes : forall (a : ndarr) jac, nd_wf a -> nd_size a <> 3%nat ->
  r2m_entry ROps a jac = Raise ValueError.
Proof. exact r2m_entry_rejects. Qed.
Theorem C10_m2r_accepts_3x3 : forall proj (a : ndarr) jac, nd_wf a -> nd_shape a = [3%nat; 3%nat] ->
  exists m, nd_data a = m3list m /\
    m2r_entry ROps proj a jac =
      Ok (OutVec (rodrigues_inv ROps proj m) (if jac then Some (rodrigues_inv_jac ROps proj m) else None)).
Proof. exact m2r_entry_accepts. Qed.
Theorem C10_m2r_rejects_other_shapes : forall proj (a : ndarr) jac, nd_shape a <> [3%nat; 3%nat] ->
  m2r_entry ROps proj a jac = Raise ValueError.
Proof. exact m2r_entry_rejects. Qed.

(* non-vacuity: a quarter turn about z has |r| = PI/2 >= eps and moves x to y *)
Example C10_nonvacuous : rod_eps ROps <= vnorm ROps (V3 0 0 1) /\ vdot ROps (V3 1 0 0) (V3 0 0 1) = 0.
Proof.
  split.
  - unfold vnorm, vnorm2, vdot, rod_eps, nfrac; rops; cbn [vx vy vz].
    replace (0 * 0 + 0 * 0 + 1 * 1) with 1 by ring. rewrite sqrt_1. lra.
  - unfold vdot; rops; cbn [vx vy vz]. ring.
Qed.

Definition C10_all := (C10_fwd_proper, C10_fwd_fixes_axis, C10_fwd_fixes_vector, C10_fwd_turns_perp,
  C10_fwd_zero_is_identity, C10_fwd_tiny_is_identity_partial, C10_cv2_dispatch, C10_cv2_rejects_other_shapes,
  C10_r2m_accepts_three, C10_r2m_rejects_other_sizes, C10_m2r_accepts_3x3, C10_m2r_rejects_other_shapes).
Print Assumptions C10_all.
