(* C15 — Triangle normals, areas, barycentric weights, containment and sampling agree.
   Only statements here; each is closed by `exact <lemma>` from proofs/P_tri.v.
   `sample` is the model of the code in /repo, which contains the repair fixes/C15-sample-zero-weight.diff
   (commit f5126ba, searchsorted side="right").
   The theorems in the last block are definitional (they restate the shape of the model); their content is carried by
   the traced ties and the correspondence. *)
From Coq Require Import ZArith Reals List Bool.
From PW Require Import Num NumR Vec NpList Result.
From PW.model Require Import M_tri M_tri_spec.
From PW.proofs Require Import P_tri.
Import ListNotations.
Local Open Scope R_scope.

(* ---- normals and areas -------------------------------------------------------------------------------- *)
(* normalised normal = the cross product of the two edge vectors from the first vertex divided by its length: unit, and
   parallel to it *)
Theorem C15_normal_unit_is_normalized_cross : forall t, nondegenerate t ->
  surface_normal_unit ROps t = Some (vnormalize ROps (tri_cross ROps t)) /\
  vnorm2 ROps (vnormalize ROps (tri_cross ROps t)) = 1 /\
  vscale ROps (vnorm ROps (tri_cross ROps t)) (vnormalize ROps (tri_cross ROps t)) = tri_cross ROps t.
Proof. exact normal_unit_is_normalized_cross. Qed.
Theorem C15_area_is_half_norm : forall t, surface_area ROps t = / 2 * vnorm ROps (tri_cross ROps t).
Proof. exact area_is_half_norm. Qed.
Theorem C15_area_zero_iff_degenerate : forall t, surface_area ROps t = 0 <-> ~ nondegenerate t.
Proof. exact area_zero_iff_degenerate. Qed.
Theorem C15_cyclic_invariant : forall a b c,
  surface_normal_unit ROps (Tri b c a) = surface_normal_unit ROps (Tri a b c) /\
  surface_area ROps (Tri b c a) = surface_area ROps (Tri a b c) /\
  surface_normal_raw ROps (Tri b c a) = surface_normal_raw ROps (Tri a b c).
Proof. exact cyclic_invariant. Qed.
Theorem C15_translation_invariant : forall d t,
  surface_normal_unit ROps (tri_translate d t) = surface_normal_unit ROps t /\
  surface_area ROps (tri_translate d t) = surface_area ROps t /\
  surface_normal_raw ROps (tri_translate d t) = surface_normal_raw ROps t.
Proof. exact translation_invariant. Qed.
(* each of the three transpositions negates the normal (raw and unit) and keeps the area *)
Theorem C15_swap_negates : forall a b c,
  (surface_normal_unit ROps (Tri a c b) = oneg (surface_normal_unit ROps (Tri a b c)) /\
   surface_area ROps (Tri a c b) = surface_area ROps (Tri a b c) /\
   surface_normal_raw ROps (Tri a c b) = vneg ROps (surface_normal_raw ROps (Tri a b c))) /\
  (surface_normal_unit ROps (Tri b a c) = oneg (surface_normal_unit ROps (Tri a b c)) /\
   surface_area ROps (Tri b a c) = surface_area ROps (Tri a b c) /\
   surface_normal_raw ROps (Tri b a c) = vneg ROps (surface_normal_raw ROps (Tri a b c))) /\
  (surface_normal_unit ROps (Tri c b a) = oneg (surface_normal_unit ROps (Tri a b c)) /\
   surface_area ROps (Tri c b a) = surface_area ROps (Tri a b c) /\
   surface_normal_raw ROps (Tri c b a) = vneg ROps (surface_normal_raw ROps (Tri a b c))).
Proof. exact swap_negates. Qed.

(* ---- barycentric weights ------------------------------------------------------------------------------- *)
(* (float arrays, every triangle: on a zero-area triangle the code's epsilon guard gives the weights (1,0,0).  On
   INTEGER arrays the guard is lost for zero-area triangles and the row is NaN -- next theorem; zero-area triangles
   are outside the property's domain for barycentric weights; C15_bary_integer_arrays in the definitional block) *)
Theorem C15_bary_sum_one : forall t p, vsum3 (bary ROps t p) = 1.
Proof. exact bary_sum_one. Qed.
(* the weights reconstruct the orthogonal projection of p onto the triangle's plane ... *)
Theorem C15_bary_reconstructs_projection : forall t p, nondegenerate t ->
  bary_combine ROps t (bary ROps t p) = plane_projection t p.
Proof. exact bary_reconstructs_projection. Qed.
(* ... which is the point of the plane below p (p minus a multiple of the normal), p itself when coplanar *)
Theorem C15_projection_is_orthogonal_projection : forall t p, nondegenerate t ->
  coplanar t (plane_projection t p) /\
  (exists k, plane_projection t p = vsub ROps p (vscale ROps k (tri_cross ROps t))) /\
  (coplanar t p -> plane_projection t p = p).
Proof. exact projection_is_orthogonal_projection. Qed.

(* ---- containment ------------------------------------------------------------------------------------------ *)
Theorem C15_contains_iff_weights_nonneg : forall t p, nondegenerate t -> coplanar t p ->
  (tri_contains ROps (ta t) (tb t) (tc t) p = true <->
   0 <= vx (bary ROps t p) /\ 0 <= vy (bary ROps t p) /\ 0 <= vz (bary ROps t p)).
Proof. exact contains_iff_weights_nonneg_coplanar. Qed.
(* each edge test (coplanar_points_are_on_same_side_of_line) decides the sign of the product of the two cross products
   with the edge direction *)
Theorem C15_same_side_spec : forall a b p1 p2,
  same_side ROps a b p1 p2 = true <->
  0 <= vdot ROps (vcross ROps (vsub ROps b a) (vsub ROps p1 a)) (vcross ROps (vsub ROps b a) (vsub ROps p2 a)).
Proof. exact same_side_spec. Qed.

(* ---- sampling (a function of the drawn numbers us, abs) --------------------------------------------------- *)
(* on the property's domain the call succeeds and returns exactly num_samples rows: draws in [0,1), at least one
   triangle, and either supplied weights (one per triangle, non-negative, not all zero) or the default area weights with
   at least one triangle of non-zero area *)
Theorem C15_sample_succeeds : forall ts us abs, ts <> [] -> face_draws us -> length us = length abs ->
  (forall ws, length ws = length ts -> nonneg_weights ws -> 0 < Rsum ws ->
     exists l, sample ROps ts (Some ws) us abs = Ok l /\ length l = length us) /\
  (Exists nondegenerate ts -> exists l, sample ROps ts None us abs = Ok l /\ length l = length us).
Proof. exact sample_succeeds. Qed.
(* exactly num_samples outputs; sample k is the point of face `face_choice ws u_k` given by the k-th pair *)
Theorem C15_sample_count_and_rows : forall ts weights us abs l, ts <> [] -> length us = length abs ->
  sample ROps ts weights us abs = Ok l ->
  let ws := match weights with Some w => w | None => surface_areas ROps ts end in
  length l = length us /\
  forall k, (k < length us)%nat -> exists u ab t,
    nth_error us k = Some u /\ nth_error abs k = Some ab /\ nth_error ts (face_choice ROps ws u) = Some t /\
    nth_error l k = Some (sample_point ROps t ab, face_choice ROps ws u).
Proof. exact sample_count_and_rows. Qed.
(* every returned point lies in the triangle named by its returned face index (draws in [0,1]) *)
Theorem C15_sample_inside_named_face : forall ts weights us abs l p i,
  length us = length abs -> Forall unit_draw abs ->
  sample ROps ts weights us abs = Ok l -> In (p, i) l ->
  exists t, nth_error ts i = Some t /\ in_tri t p.
Proof. exact sample_inside_named_face. Qed.
Theorem C15_sample_empty : forall weights us abs, sample ROps [] weights us abs = Ok [].
Proof. exact sample_empty. Qed.
(* "identical output for identical generator state": `sample` is modelled as a FUNCTION of the drawn numbers; that the
   code's output depends on nothing else is the modelling assumption itself, validated on every run by the
   correspondence (draws supplied through a Generator subclass) and by the oracle (two runs of the default / an equally
   seeded generator give identical output).  No theorem is stated for it (it would read f x = f x). *)
(* frequency proportional to weight, as a statement about the map: face i is chosen exactly when u * total lies in
   [w_0 + ... + w_{i-1}, w_0 + ... + w_i), an interval of length w_i *)
Theorem C15_sample_face_interval : forall ws u i, nonneg_weights ws -> 0 < Rsum ws -> 0 <= u < 1 ->
  (face_choice ROps ws u = i <-> (i < length ws)%nat /\ psum ws i <= u * Rsum ws < psum ws (S i)).
Proof. exact sample_face_interval. Qed.
(* the frequency clause as an interval statement: the draws u in [0,1) that select face i are exactly the interval
   [a, b) with a = (w_0+...+w_{i-1})/T, b = a + w_i/T, which lies inside [0,1] and has length w_i/T; hence any two
   draws that select the same face are less than w_i/T apart *)
Theorem C15_sample_face_preimage : forall ws i w, nonneg_weights ws -> 0 < Rsum ws -> nth_error ws i = Some w ->
  let T := Rsum ws in let a := psum ws i / T in let b := psum ws (S i) / T in
  0 <= a /\ b <= 1 /\ b - a = w / T /\
  (forall u, 0 <= u < 1 -> (face_choice ROps ws u = i <-> a <= u < b)) /\
  (forall u1 u2, 0 <= u1 < 1 -> 0 <= u2 < 1 -> face_choice ROps ws u1 = i -> face_choice ROps ws u2 = i ->
     Rabs (u1 - u2) < w / T).
Proof. exact sample_face_preimage. Qed.
Theorem C15_sample_never_zero_weight : forall ws u, nonneg_weights ws -> 0 < Rsum ws -> 0 <= u < 1 ->
  exists w, nth_error ws (face_choice ROps ws u) = Some w /\ 0 < w.
Proof. exact sample_never_zero_weight. Qed.
(* area weights are admissible weights: non-negative, and positive in total unless every triangle is degenerate *)
Theorem C15_area_weights_admissible : forall ts,
  nonneg_weights (surface_areas ROps ts) /\ (Exists nondegenerate ts -> 0 < Rsum (surface_areas ROps ts)).
Proof. exact area_weights_admissible. Qed.
(* why the repair is needed: the rule of the unrepaired code (side="left") picks the zero-weight face 0 for
   weights [0,1] and a draw of exactly 0; the repaired rule picks face 1 *)
Theorem C15_left_rule_picks_zero_weight_face :
  (face_choice_left ROps [0; 1] 0 = 0%nat /\ nth_error [0; 1] 0%nat = Some 0) /\ face_choice ROps [0; 1] 0 = 1%nat.
Proof. exact left_and_right_rule. Qed.

(* ---- quads_to_tris, edges_of_faces: any number of faces ------------------------------------------------------ *)
(* quad i = (q0,q1,q2,q3) becomes triangles 2i = (q0,q1,q2) and 2i+1 = (q0,q2,q3): both in the quad's winding *)
Theorem C15_quads_to_tris_winding : forall qs,
  length (quads_to_tris qs) = (2 * length qs)%nat /\ length (quads_mapping qs) = length qs /\
  forall i q, nth_error qs i = Some q ->
    nth_error (quads_to_tris qs) (2 * i) = Some (Face (q0 q) (q1 q) (q2 q)) /\
    nth_error (quads_to_tris qs) (2 * i + 1) = Some (Face (q0 q) (q2 q) (q3 q)) /\
    nth_error (quads_mapping qs) i = Some (2 * Z.of_nat i, 2 * Z.of_nat i + 1)%Z.
Proof. exact quads_to_tris_winding. Qed.
(* geometric reading of "keeps winding": the two area vectors add up to the quad's area vector *)
Theorem C15_quad_split_area_vector : forall p0 p1 p2 p3 : vec3 R,
  vadd ROps (tri_cross ROps (Tri p0 p1 p2)) (tri_cross ROps (Tri p0 p2 p3)) =
  vcross ROps (vsub ROps p2 p0) (vsub ROps p3 p1).
Proof. exact quad_split_area_vector. Qed.
(* face i = (a,b,c) contributes exactly rows 3i, 3i+1, 3i+2 = (a,b), (b,c), (c,a), and there are no other rows *)
Theorem C15_edges_each_once : forall (nz : bool) fs,
  length (edges_of_faces nz fs) = (3 * length fs)%nat /\
  forall i f, nth_error fs i = Some f ->
    let g := if nz then sort2 else (fun e : Z * Z => e) in
    nth_error (edges_of_faces nz fs) (3 * i) = Some (g (f0 f, f1 f)) /\
    nth_error (edges_of_faces nz fs) (3 * i + 1) = Some (g (f1 f, f2 f)) /\
    nth_error (edges_of_faces nz fs) (3 * i + 2) = Some (g (f2 f, f0 f)).
Proof. exact edges_each_once_all. Qed.
Theorem C15_normalized_edge_is_sorted_same_edge : forall e,
  (fst (sort2 e) <= snd (sort2 e))%Z /\ (sort2 e = e \/ sort2 e = (snd e, fst e)).
Proof. exact sort2_spec. Qed.

(* ---- definitional: pins the shape of the model; the content is carried by the traced ties / correspondence ---- *)
(* un-normalised normal = cross product of the two edge vectors from the first vertex (any triangle) *)
Theorem C15_normal_is_cross : forall t,
  surface_normal_raw ROps t = vcross ROps (vsub ROps (tb t) (ta t)) (vsub ROps (tc t) (ta t)).
Proof. exact normal_raw_is_cross. Qed.
(* stacked forms are the single form row by row *)
Theorem C15_stacked_is_map_single : forall ts k,
  nth_error (surface_normals_raw ROps ts) k = option_map (surface_normal_raw ROps) (nth_error ts k) /\
  nth_error (surface_normals_unit ROps ts) k = option_map (surface_normal_unit ROps) (nth_error ts k) /\
  nth_error (surface_areas ROps ts) k = option_map (surface_area ROps) (nth_error ts k).
Proof. exact stacked_is_map_single. Qed.
Theorem C15_bary_pairs_is_map_single : forall ts ps k t p,
  nth_error ts k = Some t -> nth_error ps k = Some p ->
  nth_error (bary_pairs ROps ts ps) k = Some (bary ROps t p).
Proof. exact bary_pairs_is_map_single. Qed.
(* the three edge tests are coplanar_points_are_on_same_side_of_line, which decides the sign of the product of
   the two cross products with the edge direction *)
Theorem C15_contains_is_three_same_side : forall a b c p,
  tri_contains ROps a b c p =
  (same_side ROps b c p a && same_side ROps a c p b) && same_side ROps a b p c.
Proof. exact contains_is_three_same_side. Qed.
(* the same call on int64 arrays: identical for non-degenerate triangles, a NaN row (None) for zero-area ones.  This
   unfolds the case split written into the model `bary_intarray`; that the code behaves so on integer arrays is carried
   by the correspondence (CBary with isint = true, zero-area triangles included) *)
Theorem C15_bary_integer_arrays : forall t p,
  (nondegenerate t -> bary_intarray ROps t p = Some (bary ROps t p)) /\
  (~ nondegenerate t -> bary_intarray ROps t p = None).
Proof. exact bary_intarray_spec. Qed.

(* non-vacuity: a non-degenerate triangle, admissible weights with a zero entry *)
Example C15_nondegenerate_inhabited : nondegenerate (Tri (V3 0 0 0) (V3 1 0 0) (V3 0 1 0)).
Proof. exact nondegenerate_example. Qed.
Example C15_weights_inhabited : nonneg_weights [0; 1; 0; 2] /\ 0 < Rsum [0; 1; 0; 2].
Proof. exact weights_example. Qed.

Definition C15_all := (C15_normal_is_cross, C15_normal_unit_is_normalized_cross, C15_area_is_half_norm,
  C15_area_zero_iff_degenerate, C15_cyclic_invariant, C15_translation_invariant, C15_swap_negates,
  C15_stacked_is_map_single, C15_bary_sum_one, C15_bary_reconstructs_projection,
  C15_projection_is_orthogonal_projection, C15_bary_pairs_is_map_single, C15_contains_iff_weights_nonneg,
  C15_contains_is_three_same_side, C15_same_side_spec, C15_sample_count_and_rows, C15_sample_inside_named_face,
  C15_sample_empty, C15_sample_succeeds, C15_bary_integer_arrays, C15_sample_face_interval, C15_sample_face_preimage,
  C15_sample_never_zero_weight,
  C15_area_weights_admissible, C15_left_rule_picks_zero_weight_face, C15_quads_to_tris_winding,
  C15_quad_split_area_vector, C15_edges_each_once, C15_normalized_edge_is_sorted_same_edge).
Print Assumptions C15_all.
