(* C01 — mesh slicing returns exactly the part of the surface in front of the plane.
   Only statements here; each is closed by `exact <lemma>` from proofs/P_slicing*.v.
   Conventions: pd n o v = n . (v - o) is the offset of v from the plane (in units of |n|); the code's sign
   convention is -1 = in front, 0 = on, 1 = behind; H0 tol n o t reads "a corner classified on (|offset| <= tol)
   lies exactly on the plane", which is how the property text treats the merge tolerance. *)
From Coq Require Import ZArith Reals List Bool.
From PW Require Import Num NumR Vec NpList Result.
From PW.model Require Import M_slicing.
From Coq Require Import Permutation.
From PW.proofs Require Import P_slicing P_slicing_face P_slicing_cover P_slicing_mesh P_slicing_perface.
Import ListNotations.
Local Open Scope R_scope.

(* classification with the merge tolerance *)
Theorem C01_classify : forall tol d, 0 <= tol ->
  (vsign ROps tol d = (-1)%Z <-> tol < d) /\ (vsign ROps tol d = 0%Z <-> - tol <= d <= tol) /\
  (vsign ROps tol d = 1%Z <-> d < - tol).
Proof. intros tol d H. exact (conj (vsign_front tol d) (conj (vsign_on tol d H) (vsign_behind tol d H))). Qed.

(* the case split by signs_sum / signs_asum is the one the text prescribes, on every one of the 27 corner patterns,
   selected or not (finite domain in the statement) *)
Theorem C01_slice_face_cases :
  forallb (fun s => forallb (fun m => fcase_eqb (face_case s m) (expected_case s m)) [true; false]) all_patterns = true.
Proof. exact face_case_expected. Qed.
(* ... and in each cut case exactly the expected corners are in front / behind (so np.where finds one column) *)
Theorem C01_slice_face_cases_corners :
  forallb (fun s => forallb (case_ok s) [true; false]) all_patterns = true.
Proof. exact sign_cases. Qed.
Theorem C01_face_signs_are_patterns : forall tol n o t, In (tri_signs ROps tol n o t) all_patterns.
Proof. exact tri_signs_pattern. Qed.

(* faces excluded by faces_to_slice, and faces wholly on or in front, come back with their three corners;
   selected faces with no corner in front and a corner behind are dropped *)
Theorem C01_unselected_kept : forall tol eps n o t, slice_face ROps tol eps n o false t = [t].
Proof. exact slice_face_unselected. Qed.
Theorem C01_on_or_in_front_kept : forall tol eps n o m t,
  (forall k, (k < 3)%nat -> - tol <= pd n o (tget t k)) -> slice_face ROps tol eps n o m t = [t].
Proof. exact slice_face_keep. Qed.
Theorem C01_no_corner_in_front_dropped : forall tol eps n o t, 0 <= tol ->
  (forall k, (k < 3)%nat -> pd n o (tget t k) <= tol) -> (exists k, (k < 3)%nat /\ pd n o (tget t k) < - tol) ->
  slice_face ROps tol eps n o true t = [].
Proof. exact slice_face_drop. Qed.

(* soundness: every point of every output triangle lies in the input face, and (selected faces) not behind the plane *)
Theorem C01_slice_face_sound : forall tol eps n o m t t' x, 0 <= tol -> H0 tol n o t ->
  In t' (slice_face ROps tol eps n o m t) -> in_tri t' x ->
  in_tri t x /\ (m = true -> 0 <= pd n o x).
Proof. exact slice_face_sound. Qed.

(* orientation: each output triangle's normal is a non-negative multiple of the input face's (no H0 needed) *)
Theorem C01_slice_face_orient : forall tol eps n o m t t', 0 <= tol ->
  In t' (slice_face ROps tol eps n o m t) ->
  exists lam, 0 <= lam /\ tri_normal t' = vscale ROps lam (tri_normal t).
Proof. exact slice_face_orient. Qed.

(* the crossing point the code computes (num / denom, denominator not patched) lies on the plane and on the edge's line *)
Theorem C01_crossing_point : forall eps n o p q, pd n o p <> pd n o q ->
  int_point ROps eps n o p q = lerp p q (pd n o p / (pd n o p - pd n o q)) /\
  pd n o (int_point ROps eps n o p q) = 0.
Proof. intros eps n o p q H. exact (conj (int_point_lerp eps n o p q H) (int_point_on_plane eps n o p q H)). Qed.

(* coverage: every point of the input face strictly in front of the plane lies in some output triangle (points exactly on
   the plane are covered too unless the face is dropped: a dropped face meets the closed half-space in a corner/edge only) *)
Theorem C01_slice_face_cover : forall tol eps n o m t x, 0 <= tol -> H0 tol n o t ->
  in_tri t x -> 0 < pd n o x -> exists t', In t' (slice_face ROps tol eps n o m t) /\ in_tri t' x.
Proof. exact slice_face_cover. Qed.

(* area: the vector areas of the outputs add up to a fraction f in [0,1] of the input face's vector area; together with
   soundness, orientation and coverage: the outputs tile the clipped face without overlap *)
Theorem C01_slice_face_area : forall tol eps n o m t, 0 <= tol -> H0 tol n o t ->
  exists f, 0 <= f <= 1 /\ vsum_normals (slice_face ROps tol eps n o m t) = vscale ROps f (tri_normal t).
Proof. exact slice_face_area. Qed.

(* without H0 (a corner strictly inside the tolerance band counted as "on"): the cut parameter along an edge from a
   corner in front (offset a > tol) to a corner not in front (offset b <= tol) is in (0, 1 + tol/(a - tol)].
   PARTIAL: quantifies the band only; the exact clauses above read "counts as lying on it" as H0. *)
Theorem C01_slice_face_tolerance_partial : forall tol a b, 0 <= tol -> tol < a -> b <= tol ->
  0 < a / (a - b) <= 1 + tol / (a - tol).
Proof. exact cut_param_band. Qed.

(* REFUTED without H0 (known finding C01 / near_band_cut_leaves_face): "no output vertex lies outside the input face it
   came from" fails when a corner inside the tolerance band is not exactly on the plane.  A face with corner offsets
   2 (in front), 1/2 (classified on, tol = 1) and -2 (behind) yields the output corner (4/3, 0, 0), beyond the far corner
   of its edge and outside the face. *)
Theorem C01_cut_vertex_inside_face_without_H0_refuted :
  exists tol eps n o t t' v, 0 <= tol /\ In t' (slice_face ROps tol eps n o true t) /\ In v (tri_corners t') /\ ~ in_tri t v.
Proof. exact cut_vertex_outside_face. Qed.

(* the mesh pipeline (masks, group order, appended vertex numbering, renumbering) is the per-face kernel applied to every
   face: for all vertex lists, face lists and masks, the returned coordinate triangles paired with the returned face
   mapping are a permutation of (i, t') for t' in slice_face of face i.  rows = vertices[faces] with the mask bit. *)
Theorem C01_slice_mesh_is_per_face : forall tol eps vs fs n o fi r, vs <> [] ->
  slice_faces_plane ROps tol eps vs fs n o fi = Ok r ->
  exists mask rows,
    mask_of (length fs) fi = Ok mask /\ length rows = length fs /\
    (forall i d, nth_error rows i = Some d ->
       nth_error fs i = Some (fd_f d) /\ nth_error mask i = Some (fd_m d) /\ lookup3 vs (fd_f d) = Some (fd_t d)) /\
    Permutation
      (zip (mo_map r) (mesh_tris (mo_v r) (mo_f r)))
      (flat_map (fun x => map (fun t' => (fst x, Some t')) (slice_face ROps tol eps n o (fd_m (snd x)) (fd_t (snd x))))
                (indexed rows)).
Proof. exact slice_mesh_is_per_face. Qed.

(* non-vacuity: a face with one corner in front, one on, one behind satisfies H0 and is really cut *)
Example C01_H0_inhabited :
  H0 (1/100000000) (V3 0 0 1) (V3 0 0 0) (V3 0 0 1, V3 1 0 0, V3 0 1 (-1)).
Proof.
  intros k Hk. destruct k as [|[|[|k]]]; try (exfalso; Lia.lia); unfold pd, plane_dot; cbn [tget fst snd]; P_vec.vunf; Lra.lra.
Qed.

Definition C01_all := (C01_classify, C01_slice_face_cases, C01_slice_face_cases_corners, C01_face_signs_are_patterns,
  C01_unselected_kept, C01_on_or_in_front_kept, C01_no_corner_in_front_dropped,
  C01_slice_face_sound, C01_slice_face_orient, C01_crossing_point, C01_slice_face_cover, C01_slice_face_area,
  C01_slice_face_tolerance_partial, C01_slice_mesh_is_per_face, C01_cut_vertex_inside_face_without_H0_refuted).
Print Assumptions C01_all.
