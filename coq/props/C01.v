(* C01 — statements only. *)
From Coq Require Import ZArith Reals List Bool.
From PW Require Import Num NumR Vec NpList Result.
From PW.model Require Import M_slicing.
From PW.proofs Require Import P_slicing.
Import ListNotations.
Local Open Scope R_scope.

Theorem C01_sign_range : forall tol d,
  vsign ROps tol d = (-1)%Z \/ vsign ROps tol d = 0%Z \/ vsign ROps tol d = 1%Z.
Proof. exact vsign_range. Qed.

Definition C01_all := (C01_sign_range).
Print Assumptions C01_all.
