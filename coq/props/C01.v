(* C01 — mesh slicing returns exactly the part of the surface in front of the plane.
   Only statements here; each is closed by `exact <lemma>` from proofs/P_slicing*.v.
   Conventions: pd n o v = n . (v - o) is the true offset of v from the plane (in units of |n|).  The kernel works on
   SNAPPED offsets: snap tol d = 0 when |d| <= tol, d otherwise — a vertex closer to the plane than the merge tolerance
   counts as lying on it (fixes/C01-snap-on-plane-distances.diff).  The code's sign convention is -1 = in front
   (snapped offset > tol), 0 = on, 1 = behind (snapped offset < -tol).  No theorem below needs an "exactly on the plane"
   hypothesis any more. *)
From Coq Require Import ZArith Reals List Bool Permutation.
From PW Require Import Num NumR Vec NpList Result.
From PW.model Require Import M_slicing M_slicing_spec.
From PW.proofs Require Import P_slicing P_slicing_face P_slicing_cover P_slicing_mesh P_slicing_perface P_slicing_public.
Import ListNotations.
Local Open Scope R_scope.

(* snapping and classification with the merge tolerance *)
Theorem C01_snap : forall tol d, 0 <= tol ->
  (snap ROps tol d = 0 /\ - tol <= d <= tol) \/ (snap ROps tol d = d /\ (tol < d \/ d < - tol)).
Proof. exact snap_cases. Qed.
Theorem C01_classify : forall tol d, 0 <= tol ->
  (vsign ROps tol d = (-1)%Z <-> tol < d) /\ (vsign ROps tol d = 0%Z <-> - tol <= d <= tol) /\
  (vsign ROps tol d = 1%Z <-> d < - tol).
Proof. intros tol d H. exact (conj (vsign_front tol d) (conj (vsign_on tol d H) (vsign_behind tol d H))). Qed.

(* the case split by signs_sum / signs_asum is the one the text prescribes, on every one of the 27 corner patterns,
   selected or not (finite domain in the statement) *)
Theorem C01_slice_face_cases :
  forallb (fun s => forallb (fun m => fcase_eqb (face_case s m) (expected_case s m)) [true; false]) all_patterns = true.
Proof. exact face_case_expected. Qed.
(* ... and in each cut case exactly the expected corners are in front / behind (so np.where finds one column) *)
Theorem C01_slice_face_cases_corners :
  forallb (fun s => forallb (case_ok s) [true; false]) all_patterns = true.
Proof. exact sign_cases. Qed.
Theorem C01_face_signs_are_patterns : forall tol n o t, In (tri_signs ROps tol n o t) all_patterns.
Proof. exact tri_signs_pattern. Qed.

(* faces excluded by faces_to_slice, and faces wholly on or in front (every corner's true offset >= -tol), come back with
   their three corners; selected faces with no corner in front (all offsets <= tol) and a corner behind are dropped.
   The property text overlaps on a selected face whose three corners all count as on the plane (it is "wholly on" and has
   "no corner in front"): the code keeps it, and C02's text ("faces lying in the plane being kept by both") says it must; hence
   the hypothesis "some corner is behind" in the drop rule. *)
Theorem C01_unselected_kept : forall tol eps n o t, slice_face ROps tol eps n o false t = [t].
Proof. exact slice_face_unselected. Qed.
Theorem C01_on_or_in_front_kept : forall tol eps n o m t, 0 <= tol ->
  (forall k, (k < 3)%nat -> - tol <= pd n o (tget t k)) -> slice_face ROps tol eps n o m t = [t].
Proof. exact slice_face_keep. Qed.
Theorem C01_no_corner_in_front_dropped : forall tol eps n o t, 0 <= tol ->
  (forall k, (k < 3)%nat -> pd n o (tget t k) <= tol) -> (exists k, (k < 3)%nat /\ pd n o (tget t k) < - tol) ->
  slice_face ROps tol eps n o true t = [].
Proof. exact slice_face_drop. Qed.

(* soundness, unconditional: every point of every output triangle lies in the input face, and for a selected face it is
   not behind the plane by more than the tolerance (corners counted as on the plane may be up to tol behind) *)
Theorem C01_slice_face_sound : forall tol eps n o m t t' x, 0 <= tol ->
  In t' (slice_face ROps tol eps n o m t) -> in_tri t' x ->
  in_tri t x /\ (m = true -> - tol <= pd n o x).
Proof. exact slice_face_sound. Qed.
(* ... on the distances the kernel uses: the point has barycentric weights in the input face whose interpolated snapped
   distance is >= 0 *)
Theorem C01_slice_face_sound_snapped : forall tol eps ds m t t' x, 0 <= tol -> snapped3 tol ds ->
  In t' (slice_face_signs ROps eps ds (signs3 ROps tol ds) m t) -> in_tri t' x ->
  in_tri t x /\ (m = true -> in_tri_nn t ds x).
Proof. exact slice_face_signs_sound. Qed.

(* orientation: each output triangle's normal is a non-negative multiple of the input face's *)
Theorem C01_slice_face_orient : forall tol eps n o m t t', 0 <= tol ->
  In t' (slice_face ROps tol eps n o m t) ->
  exists lam, 0 <= lam /\ tri_normal t' = vscale ROps lam (tri_normal t).
Proof. exact slice_face_orient. Qed.

(* the new vertex on an edge p -> q with snapped end distances a <> b is the point with parameter a/(a-b); the
   interpolated snapped distance vanishes there; the parameter is in (0,1] from a corner in front (a > tol) to a corner not
   in front (b = 0 or b < -tol) — so an edge ending in an on-corner is cut AT that corner; and when neither end was snapped
   the new vertex lies exactly on the plane *)
Theorem C01_crossing_point : forall eps a b p q, a <> b ->
  int_point ROps eps a b p q = lerp p q (a / (a - b)) /\ a + a / (a - b) * (b - a) = 0.
Proof. intros eps a b p q H. exact (conj (int_point_lerp eps a b p q H) (crossing_param_zero a b H)). Qed.
Theorem C01_cut_parameter_in_unit_interval : forall tol a b, 0 <= tol -> tol < a -> b = 0 \/ b < - tol ->
  0 < a / (a - b) <= 1.
Proof. intros tol a b Ht Ha Hb. apply param_pos_nonpos; [Lra.lra|destruct Hb; Lra.lra]. Qed.
Theorem C01_crossing_point_on_plane : forall n o p q, pd n o p <> pd n o q ->
  pd n o (lerp p q (pd n o p / (pd n o p - pd n o q))) = 0.
Proof. exact lerp_on_plane. Qed.

(* coverage: every point of the input face further than tol in front of the plane lies in some output triangle *)
Theorem C01_slice_face_cover : forall tol eps n o m t x, 0 <= tol ->
  in_tri t x -> tol < pd n o x -> exists t', In t' (slice_face ROps tol eps n o m t) /\ in_tri t' x.
Proof. exact slice_face_cover. Qed.
(* ... on the distances the kernel uses: every point with positive interpolated snapped distance *)
Theorem C01_slice_face_cover_snapped : forall tol eps ds m t w0 w1 w2, 0 <= tol -> snapped3 tol ds ->
  0 <= w0 -> 0 <= w1 -> 0 <= w2 -> w0 + w1 + w2 = 1 -> 0 < wdot ds w0 w1 w2 ->
  exists t', In t' (slice_face_signs ROps eps ds (signs3 ROps tol ds) m t) /\ in_tri t' (bary t w0 w1 w2).
Proof. exact slice_face_signs_cover. Qed.

(* area: the vector areas of the outputs add up to an EXPLICIT fraction of the input face's vector area, a function of the
   snapped corner distances only (1 kept, 0 dropped, a/(a-b) * (1 - c/(c-a)) for a cut triangle at the corner with distance a,
   c/(c-a) + (1 - a/(a-b)) * (1 - c/(c-a)) for a quad around the corner with distance a), and it lies in [0,1].
   Non-overlap of the outputs is not a consequence of this theorem alone: it follows with C02_slice_complement (the fractions
   of the two sides add up to 1) and coverage on both sides by a measure argument that is not formalised here; the oracle
   checks the area against an independently clipped polygon. *)
Theorem C01_slice_face_area : forall tol eps n o m t, 0 <= tol ->
  let f := frac_case (face_case (tri_signs ROps tol n o t) m) (tri_dists ROps tol n o t) in
  0 <= f <= 1 /\ vsum_normals (slice_face ROps tol eps n o m t) = vscale ROps f (tri_normal t).
Proof.
  intros tol eps n o m t Ht. exact (slice_face_signs_area tol eps _ m t Ht (tri_dists_snapped tol n o t Ht)).
Qed.

(* the mesh pipeline (masks, group order, appended vertex numbering, renumbering) is the per-face kernel applied to every
   face: for all vertex lists, face lists and masks, the returned coordinate triangles paired with the returned face
   mapping are a permutation of (i, t') for t' in slice_face of face i.  rows = vertices[faces] with the mask bit. *)
Theorem C01_slice_mesh_is_per_face : forall tol eps vs fs n o fi r, vs <> [] ->
  slice_faces_plane ROps tol eps vs fs n o fi = Ok r ->
  exists mask rows,
    mask_of (length fs) fi = Ok mask /\ length rows = length fs /\
    (forall i d, nth_error rows i = Some d ->
       nth_error fs i = Some (fd_f d) /\ nth_error mask i = Some (fd_m d) /\ lookup3 vs (fd_f d) = Some (fd_t d)) /\
    Permutation
      (zip (mo_map r) (mesh_tris (mo_v r) (mo_f r)))
      (flat_map (fun x => map (fun t' => (fst x, Some t')) (slice_face ROps tol eps n o (fd_m (snd x)) (fd_t (snd x))))
                (indexed rows)).
Proof. exact slice_mesh_is_per_face. Qed.

(* ---- the public entry point slice_triangles_by_plane with the real merge tolerance 1e-8 -------------------------- *)
Theorem C01_merge_tol_nonneg : 0 <= merge_tol ROps.
Proof. exact merge_tol_nonneg. Qed.
(* on the domain (faces index the vertices, the mask if any has one entry per face) the call returns *)
Theorem C01_slice_returns_on_domain : forall vs fs ref n mask,
  (forall f, In f fs -> face_valid (length vs) f) -> mask_ok (length fs) mask ->
  exists r, slice_triangles_by_plane ROps vs fs ref n mask = Ok r.
Proof. exact slice_total. Qed.
(* every returned triangle j comes from input face mapping[j] through the per-face kernel; every point of it lies in that
   face, and, if the face was selected (m is the entry of the mask that was passed, true when no mask was passed), not further
   than 1e-8 behind the plane *)
Theorem C01_public_slice_sound : forall vs fs ref n mask r, vs <> [] -> mask_ok (length fs) mask ->
  slice_triangles_by_plane ROps vs fs ref n mask = Ok r ->
  forall i x, In (i, x) (zip (mo_map r) (mesh_tris (mo_v r) (mo_f r))) ->
  exists f t t' m, nth_error fs i = Some f /\ lookup3 vs f = Some t /\ x = Some t' /\
    nth_error (mask_list (length fs) mask) i = Some m /\
    In t' (slice_face ROps (merge_tol ROps) (patch_eps ROps) n ref m t) /\
    forall p, in_tri t' p -> in_tri t p /\ (m = true -> - merge_tol ROps <= pd n ref p).
Proof. exact public_slice_sound. Qed.

(* non-vacuity of the conditional mesh theorems: a concrete call that returns *)
Example C01_call_returns_inhabited :
  exists r, slice_triangles_by_plane ROps [V3 0 0 1; V3 1 0 0; V3 0 1 (-1)] [mkface 0 1 2] (V3 0 0 0) (V3 0 0 1)
              (Some [true]) = Ok r.
Proof.
  apply slice_total; [|reflexivity]. intros f [<-|[]]. unfold face_valid. cbn. Lia.lia.
Qed.
(* non-vacuity: a face and a point of it further than tol in front of the plane *)
Example C01_cover_inhabited :
  in_tri (V3 0 0 1, V3 1 0 0, V3 0 1 (-1)) (V3 0 0 1) /\ 1/100000000 < pd (V3 0 0 1) (V3 0 0 0) (V3 0 0 1).
Proof.
  split; [exact (corner_in_tri (V3 0 0 1, V3 1 0 0, V3 0 1 (-1)) 0 ltac:(Lia.lia))|].
  unfold pd, plane_dot; P_vec.vunf; Lra.lra.
Qed.

Definition C01_all := (C01_snap, C01_classify, C01_slice_face_cases, C01_slice_face_cases_corners, C01_face_signs_are_patterns,
  C01_unselected_kept, C01_on_or_in_front_kept, C01_no_corner_in_front_dropped,
  C01_slice_face_sound, C01_slice_face_sound_snapped, C01_slice_face_orient, C01_crossing_point,
  C01_cut_parameter_in_unit_interval, C01_crossing_point_on_plane, C01_slice_face_cover, C01_slice_face_cover_snapped,
  C01_slice_face_area, C01_slice_mesh_is_per_face, C01_merge_tol_nonneg, C01_slice_returns_on_domain, C01_public_slice_sound).
Print Assumptions C01_all.
