(* C08 — Arc-length queries and refinement preserve the polyline's path.
   Only statements here; each is closed by `exact <lemma>` from proofs/P_polyline_length.v, P_polyline_length2.v.
   point_along_path and with_segments_bisected are the repaired versions (fix commits b4dc017, b67c153). *)
From Coq Require Import ZArith Reals List Bool Lra.
From PW Require Import Num NumR Vec NpList Result.
From PW.model Require Import M_polyline_base M_segment M_polyline_nearest M_polyline_length M_polyline_length_spec.
From PW.proofs Require Import P_segment P_polyline_length P_polyline_length2.
Import ListNotations.
Local Open Scope R_scope.

(* total_length >= 0; path_centroid is the length-weighted mean of the segment midpoints (c * L = sum len_i * mid_i),
   answers whenever the total length is not zero and is refused exactly when it is zero. (That segment_lengths are the Euclidean lengths and total_length
   their sum is the shape of the model: see the definitional block at the end; content by the tie lengths_centroid_n4.) *)
Theorem C08_lengths_sum_centroid : forall pl,
  0 <= total_length ROps pl /\
  (forall c, path_centroid ROps pl = Ok c ->
     total_length ROps pl <> 0 /\
     vscale ROps (total_length ROps pl) c =
       vsum ROps (map (fun s => vscale ROps (seg_len ROps s) (vscale ROps (1 / 2) (vadd ROps (fst s) (snd s)))) (pl_segments pl))) /\
  (total_length ROps pl <> 0 -> exists c, path_centroid ROps pl = Ok c) /\
  (total_length ROps pl = 0 -> path_centroid ROps pl = Raise ZeroDivisionError).
Proof. exact centroid_spec_total. Qed.

(* ---- point_along_path ---- *)
(* the segments of a polyline form a chain that starts at the first vertex (what makes `walk` a walk along the path) *)
Theorem C08_segments_form_a_chain : forall pl h t, pv pl = h :: t -> chained h (pl_segments pl).
Proof. exact pl_segments_chained. Qed.
(* point_along_path(f) = the point reached after travelling f x total_length from the first vertex
   (`walk`: zero-length segments are skipped; past the last segment it stays at that segment's end) *)
Theorem C08_point_along_path_spec : forall pl h t f, pv pl = h :: t -> 0 <= f <= 1 -> 0 < total_length ROps pl ->
  point_along_one ROps pl f = Some (walk h (pl_segments pl) (total_length ROps pl * f)).
Proof. exact point_along_path_spec. Qed.
(* f = 0: the first vertex, also when the polyline begins with zero-length segments *)
Theorem C08_point_along_path_f0 : forall pl h t, pv pl = h :: t -> 0 < total_length ROps pl ->
  point_along_one ROps pl 0 = Some h.
Proof. exact point_along_f0. Qed.
(* f = 1, through the public entry point, whenever the polyline has a segment: the end of the last segment — the first
   vertex again if closed, the last vertex if open — also when the last segment(s) have zero length (no NaN) *)
Theorem C08_point_along_path_f1 : forall pl h t, pv pl = h :: t -> pl_segments pl <> [] ->
  point_along_path ROps pl [1] = Ok [if pclosed pl then h else last t h].
Proof. exact point_along_path_f1. Qed.
Theorem C08_path_end_is_end_of_last_segment : forall pl h t, pv pl = h :: t ->
  path_end pl = Some (segs_end h (pl_segments pl)) /\
  path_end pl = Some (if pclosed pl then h else last t h).
Proof. exact path_end_is_end_of_last_segment. Qed.
(* beyond the total length the specification stays at the end of the path *)
Theorem C08_walk_past_end : forall segs dflt l, nsum ROps (map (seg_len ROps) segs) <= l ->
  walk dflt segs l = segs_end dflt segs.
Proof. exact walk_past_end. Qed.
(* continuity: the specification is 1-Lipschitz in the arc length ... *)
Theorem C08_walk_lipschitz : forall segs start l1 l2, chained start segs -> 0 <= l1 -> 0 <= l2 ->
  vnorm ROps (vsub ROps (walk start segs l1) (walk start segs l2)) <= Rabs (l1 - l2).
Proof. exact walk_lipschitz. Qed.
(* ... hence the result varies continuously with f: |p(f1) - p(f2)| <= L |f1 - f2| *)
Theorem C08_point_along_path_continuous : forall pl h t f1 f2 p1 p2, pv pl = h :: t -> 0 < total_length ROps pl ->
  0 <= f1 <= 1 -> 0 <= f2 <= 1 ->
  point_along_one ROps pl f1 = Some p1 -> point_along_one ROps pl f2 = Some p2 ->
  vnorm ROps (vsub ROps p1 p2) <= total_length ROps pl * Rabs (f1 - f2).
Proof. exact point_along_lipschitz. Qed.
(* stacked fractions are answered row by row (polyline with at least one segment); a fraction outside [0,1] is refused;
   without any segment (open, one vertex) a non-empty fraction list raises IndexError, as the code does *)
Theorem C08_point_along_path_stacked : forall pl fs, pl_segments pl <> [] -> (forall x, In x fs -> 0 <= x <= 1) ->
  exists ps, point_along_path ROps pl fs = Ok ps /\ length ps = length fs /\
    forall k f p, nth_error fs k = Some f -> point_along_one ROps pl f = Some p -> nth_error ps k = Some p.
Proof. exact point_along_stacked. Qed.
Theorem C08_point_along_path_no_segment : forall pl f fs, pl_segments pl = [] ->
  (forall x, In x (f :: fs) -> 0 <= x <= 1) -> point_along_path ROps pl (f :: fs) = Raise IndexError.
Proof. exact point_along_no_segment. Qed.
Theorem C08_point_along_path_out_of_range : forall pl fs x, In x fs -> (x < 0 \/ 1 < x) ->
  point_along_path ROps pl fs = Raise ValueError.
Proof. exact point_along_out_of_range. Qed.

(* ---- subdivided_by_length ---- *)
(* every edge is cut into the least number n of equal parts with  length <= n * max_length *)
Theorem C08_subdivide_minimal_parts : forall mx s, 0 < mx ->
  seg_len ROps s <= IZR (parts_needed ROps mx s) * mx /\
  forall m : Z, seg_len ROps s <= IZR m * mx -> (parts_needed ROps mx s <= m)%Z.
Proof. exact parts_needed_minimal. Qed.
(* unselected edges and edges not longer than max_length get no points; the others get the n-1 interior points *)
Theorem C08_subdivide_untouched : forall mx sel s,
  (sel = false \/ (parts_needed ROps mx s <= 1)%Z -> edge_inserts ROps mx sel s = []) /\
  (sel = true -> (1 < parts_needed ROps mx s)%Z ->
     edge_inserts ROps mx sel s = inserted_on ROps (parts_needed ROps mx s) s).
Proof. exact edge_inserts_cases. Qed.
(* inserted points lie evenly spaced on their own segment: the j-th of n parts at parameter j/n; n-1 of them *)
Theorem C08_subdivide_inserted_even : forall (n : Z) s j, (1 < n)%Z -> (j < Z.to_nat n - 1)%nat ->
  nth_error (inserted_on ROps n s) j =
  Some (vadd ROps (vscale ROps (IZR (Z.of_nat (S j)) / IZR n) (vsub ROps (snd s) (fst s))) (fst s)) /\
  length (inserted_on ROps n s) = (Z.to_nat n - 1)%nat.
Proof. exact subdivide_inserted_even. Qed.
(* original vertex k sits at the reported index, the points inserted on the edge leaving it follow it directly,
   reported indices increase strictly; for every list of per-edge insertions (any mask, any max_length) *)
Theorem C08_subdivide_keeps_originals : forall (vs : list (vec3 R)) ins k v il,
  nth_error vs k = Some v -> nth_error ins k = Some il ->
  exists i, nth_error (index_map_from 0 ins) k = Some i /\
    nth_error (interleave vs ins) i = Some v /\
    (forall j p, nth_error il j = Some p -> nth_error (interleave vs ins) (S (i + j)) = Some p).
Proof. exact subdivide_keeps_originals. Qed.
Theorem C08_subdivide_indices_increase : forall (ins : list (list (vec3 R))) k i j,
  nth_error (index_map_from 0 ins) k = Some i -> nth_error (index_map_from 0 ins) (S k) = Some j -> (i < j)%nat.
Proof. exact subdivide_indices_increase. Qed.
(* clause "original vertices stay in order at the reported indices", about subdivided_by_length itself: vertex k is at
   reported index i, and the points inserted on the edge leaving it follow directly *)
Theorem C08_subdivide_originals_at_indices : forall pl mx mask r k v, subdivided_by_length ROps pl mx mask = Ok r ->
  nth_error (pv pl) k = Some v ->
  exists i il, nth_error (snd r) k = Some i /\ nth_error (pv (fst r)) i = Some v /\
    nth_error (inserts_per_vertex ROps pl mx
                 (match mask with Some m => m | None => repeat true (length (pl_segments pl)) end)) k = Some il /\
    (forall j p, nth_error il j = Some p -> nth_error (pv (fst r)) (S (i + j)) = Some p).
Proof. exact subdivide_originals_at_indices. Qed.
(* ... where the list of edge k is edge_inserts of that edge (so _untouched / _inserted_even / _minimal_parts apply to
   it), and nothing follows the last vertex of an open polyline *)
Theorem C08_subdivide_inserts_of_edge : forall pl mx m k b s,
  nth_error m k = Some b -> nth_error (pl_segments pl) k = Some s ->
  nth_error (inserts_per_vertex ROps pl mx m) k = Some (edge_inserts ROps mx b s).
Proof. exact inserts_per_vertex_nth. Qed.
Theorem C08_subdivide_inserts_after_last_open_vertex : forall pl mx m h t,
  pv pl = h :: t -> pclosed pl = false -> length m = length (pl_segments pl) ->
  nth_error (inserts_per_vertex ROps pl mx m) (length t) = Some [].
Proof. exact inserts_per_vertex_last. Qed.
Theorem C08_subdivide_mask_refused : forall pl mx m, length m <> length (pl_segments pl) ->
  subdivided_by_length ROps pl mx (Some m) = Raise ValueError.
Proof. exact subdivide_mask_refused. Qed.
(* total length is unchanged, for every polyline (open/closed, zero-length segments), mask and max_length *)
Theorem C08_subdivide_length_preserved : forall pl mx mask r, subdivided_by_length ROps pl mx mask = Ok r ->
  total_length ROps (fst r) = total_length ROps pl.
Proof. exact subdivide_length_preserved. Qed.

(* ---- with_segments_bisected (repaired) ---- *)
(* for every index set (any order, empty or not): same closedness; the new vertex list is the old one with, directly
   before vertex k, the midpoints of the chosen segments that END at vertex k (the closing edge ends at vertex 0);
   exactly the chosen segments' midpoints are inserted; total length is unchanged *)
Theorem C08_bisect_spec : forall pl idx r, bisect ROps pl idx = Ok r ->
  pclosed (fst (fst r)) = pclosed pl /\
  pv (fst (fst r)) = insert_multi_from 0 (pv pl) (bisect_ips pl idx) /\
  total_length ROps (fst (fst r)) = total_length ROps pl /\
  (forall i s, In i idx -> nth_error (pl_segments pl) i = Some s ->
     In (seg_mid ROps s) (points_at (edge_end pl i) (bisect_ips pl idx))) /\
  (forall k p, In p (points_at k (bisect_ips pl idx)) ->
     exists i s, In i idx /\ nth_error (pl_segments pl) i = Some s /\ edge_end pl i = k /\ p = seg_mid ROps s).
Proof. exact bisect_spec. Qed.
Theorem C08_bisect_empty_is_identity : forall pl, exists o, bisect ROps pl [] = Ok (pl, o, []).
Proof. exact bisect_empty. Qed.
Theorem C08_bisect_out_of_range : forall pl idx i, In i idx -> (length (pl_segments pl) <= i)%nat ->
  bisect ROps pl idx = Raise IndexError.
Proof. exact bisect_out_of_range. Qed.
(* ret_new_indices, for every index list (any order, repetitions allowed; with_insertions as repaired in 9e3d823):
   every original vertex and every inserted midpoint is found at its reported new index *)
Theorem C08_bisect_new_indices : forall pl idx r, bisect ROps pl idx = Ok r ->
  (forall k v, nth_error (pv pl) k = Some v ->
     exists i, nth_error (snd (fst r)) k = Some i /\ nth_error (pv (fst (fst r))) i = Some v) /\
  (forall j i s, nth_error idx j = Some i -> nth_error (pl_segments pl) i = Some s ->
     exists m, nth_error (snd r) j = Some m /\ nth_error (pv (fst (fst r))) m = Some (seg_mid ROps s)).
Proof. exact bisect_new_indices. Qed.
(* ... and the reported indices are pairwise distinct: originals, inserted points (also for a segment listed twice),
   and originals against inserted points — together with the theorem above they partition the new vertex list *)
Theorem C08_bisect_indices_distinct : forall pl idx r, bisect ROps pl idx = Ok r ->
  (forall k k' i i', k <> k' -> nth_error (snd (fst r)) k = Some i -> nth_error (snd (fst r)) k' = Some i' -> i <> i') /\
  (forall j j' m m', j <> j' -> nth_error (snd r) j = Some m -> nth_error (snd r) j' = Some m' -> m <> m') /\
  (forall k j i m, nth_error (snd (fst r)) k = Some i -> nth_error (snd r) j = Some m -> i <> m).
Proof. exact bisect_indices_distinct. Qed.

(* ---- subdivide_segment / subdivide_segments ---- *)
Theorem C08_subdivide_segment_spec : forall p1 p2 (num : Z) endpoint, (2 <= num)%Z ->
  exists pts, subdivide_segment ROps p1 p2 num endpoint = Ok pts /\ length pts = Z.to_nat num /\
    forall k, (k < Z.to_nat num)%nat ->
      exists p, nth_error pts k = Some p /\
        p = vadd ROps (vscale ROps (IZR (Z.of_nat k) / IZR (if endpoint then num - 1 else num)) (vsub ROps p2 p1)) p1.
Proof. exact subdivide_segment_spec. Qed.
Theorem C08_subdivide_segment_refuses : forall p1 p2 num endpoint, (num < 2)%Z ->
  subdivide_segment ROps p1 p2 num endpoint = Raise ValueError.
Proof. exact subdivide_segment_refuses. Qed.
(* subdivide_segments on a chain without zero-length segments: num evenly spaced rows per segment (row e*num + k is
   a_e + (k/num)(b_e - a_e)), then the last vertex *)
Theorem C08_subdivide_segments_spec : forall h t num,
  (forall a b, In (a, b) (open_segments (h :: t)) -> a <> b) ->
  length (subdivide_segments ROps (h :: t) num) = S (length t * num) /\
  (forall e a b k, nth_error (open_segments (h :: t)) e = Some (a, b) -> (k < num)%nat ->
     nth_error (subdivide_segments ROps (h :: t) num) (e * num + k) =
     Some (Some (vadd ROps a (vscale ROps (IZR (Z.of_nat k) / IZR (Z.of_nat num)) (vsub ROps b a))))) /\
  nth_error (subdivide_segments ROps (h :: t) num) (length t * num) = Some (Some (last t h)).
Proof. exact subdivide_segments_spec. Qed.
(* ... but a zero-length segment yields NaN rows (known finding subdivide_segments_zero_length) *)
Theorem C08_subdivide_segments_zero_length_refuted :
  exists vs num k, nth_error (subdivide_segments ROps vs num) k = Some None.
Proof. exact subdivide_segments_zero_length_refuted. Qed.

(* definitional: pins the shape of the model; the content is carried by the traced ties / correspondence *)
Theorem C08_segment_lengths_shape : forall pl,
  (forall k, nth_error (segment_lengths ROps pl) k =
             option_map (fun s => vnorm ROps (vsub ROps (snd s) (fst s))) (nth_error (pl_segments pl) k)) /\
  total_length ROps pl = nsum ROps (segment_lengths ROps pl).
Proof. exact lengths_shape. Qed.
(* subdivided_by_length: same closedness, vertices = originals interleaved with the per-edge insertions, reported indices =
   the index map of that interleaving; a mask of the wrong length is refused *)
Theorem C08_subdivide_closedness : forall pl mx mask r, subdivided_by_length ROps pl mx mask = Ok r ->
  pclosed (fst r) = pclosed pl /\
  pv (fst r) = interleave (pv pl) (inserts_per_vertex ROps pl mx
                 (match mask with Some m => m | None => repeat true (length (pl_segments pl)) end)) /\
  snd r = index_map_from 0 (inserts_per_vertex ROps pl mx
                 (match mask with Some m => m | None => repeat true (length (pl_segments pl)) end)).
Proof. exact subdivide_closedness. Qed.

(* non-vacuity: a closed polyline of positive total length whose last segment has zero length *)
Example C08_positive_length_inhabited :
  0 < total_length ROps (MkPolyline [V3 0 0 0; V3 3 4 0; V3 3 4 0] true).
Proof.
  unfold total_length, pl_segments. cbn [pv pclosed zip app map last].
  rewrite !nsum_cons, nsum_nil.
  pose proof (seg_len_nonneg (V3 3 4 0, V3 3 4 0)). pose proof (seg_len_nonneg (V3 3 4 0, V3 0 0 0)).
  assert (0 < seg_len ROps (V3 0 0 0, V3 3 4 0)); [|lra].
  unfold seg_len. apply P_vec.vnorm_pos. cbn [fst snd]. P_vec.vunf. intros Hv. injection Hv as H1 H2 H3. lra.
Qed.

Definition C08_all := (C08_lengths_sum_centroid, C08_subdivide_inserts_of_edge, C08_subdivide_inserts_after_last_open_vertex, C08_bisect_indices_distinct, C08_segment_lengths_shape, C08_point_along_path_no_segment, C08_subdivide_originals_at_indices, C08_segments_form_a_chain, C08_point_along_path_spec,
  C08_point_along_path_f0, C08_point_along_path_f1, C08_path_end_is_end_of_last_segment, C08_walk_past_end,
  C08_walk_lipschitz, C08_point_along_path_continuous, C08_point_along_path_stacked,
  C08_point_along_path_out_of_range, C08_subdivide_minimal_parts, C08_subdivide_untouched,
  C08_subdivide_inserted_even, C08_subdivide_keeps_originals, C08_subdivide_indices_increase,
  C08_subdivide_closedness, C08_subdivide_mask_refused, C08_subdivide_length_preserved, C08_bisect_spec,
  C08_bisect_empty_is_identity, C08_bisect_out_of_range, C08_bisect_new_indices, C08_subdivide_segment_spec,
  C08_subdivide_segment_refuses, C08_subdivide_segments_spec, C08_subdivide_segments_zero_length_refuted).
Print Assumptions C08_all.
