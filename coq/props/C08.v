(* C08 — Arc-length queries and refinement preserve the polyline's path.
   Only statements here; each is closed by `exact <lemma>` from proofs/P_polyline_length.v.
   point_along_path and with_segments_bisected are the REPAIRED versions (fixes/C08-point-along-path-end.diff,
   fixes/C08-bisect-empty.diff); on the unrepaired tree the correspondence check reports the defects. *)
From Coq Require Import ZArith Reals List Bool Lra.
From PW Require Import Num NumR Vec NpList Result.
From PW.model Require Import M_polyline_base M_segment M_polyline_nearest M_polyline_length.
From PW.proofs Require Import P_segment P_polyline_length.
Import ListNotations.
Local Open Scope R_scope.

(* segment_lengths are the Euclidean lengths, total_length their sum (>= 0), path_centroid the length-weighted
   mean of the segment midpoints (c * L = sum len_i * mid_i), refused exactly when the total length is zero *)
Theorem C08_lengths_sum_centroid : forall pl,
  (forall k, nth_error (segment_lengths ROps pl) k =
             option_map (fun s => vnorm ROps (vsub ROps (snd s) (fst s))) (nth_error (pl_segments pl) k)) /\
  total_length ROps pl = nsum ROps (segment_lengths ROps pl) /\
  0 <= total_length ROps pl /\
  (forall c, path_centroid ROps pl = Ok c ->
     total_length ROps pl <> 0 /\
     vscale ROps (total_length ROps pl) c =
       vsum ROps (map (fun s => vscale ROps (seg_len ROps s) (vscale ROps (1 / 2) (vadd ROps (fst s) (snd s)))) (pl_segments pl))) /\
  (total_length ROps pl = 0 -> path_centroid ROps pl = Raise ZeroDivisionError).
Proof. exact lengths_sum_centroid. Qed.

(* point_along_path(f) = the point reached after travelling f x total_length from the first vertex
   (`walk`: zero-length segments are skipped; past the last segment it stays at that segment's end) *)
Theorem C08_point_along_path_spec : forall pl h t f, pv pl = h :: t -> 0 <= f <= 1 -> 0 < total_length ROps pl ->
  point_along_one ROps pl f = Some (walk h (pl_segments pl) (total_length ROps pl * f)).
Proof. exact point_along_path_spec. Qed.
(* f = 1: the end of the last segment — the first vertex again if closed, the last vertex if open — also when the
   last segment(s) have zero length (no NaN) *)
Theorem C08_point_along_path_f1 : forall pl, point_along_one ROps pl 1 = path_end pl.
Proof. exact point_along_f1. Qed.
Theorem C08_path_end_is_end_of_last_segment : forall pl h t, pv pl = h :: t ->
  path_end pl = Some (segs_end h (pl_segments pl)) /\
  path_end pl = Some (if pclosed pl then h else last t h).
Proof. intros pl h t E. split; [exact (path_end_is_segs_end pl h t E)|]. unfold path_end. rewrite E. reflexivity. Qed.
(* beyond the total length the specification stays at the end of the path *)
Theorem C08_walk_past_end : forall segs dflt l, nsum ROps (map (seg_len ROps) segs) <= l ->
  walk dflt segs l = segs_end dflt segs.
Proof. exact walk_past_end. Qed.
(* stacked fractions are answered row by row; a fraction outside [0,1] is refused *)
Theorem C08_point_along_path_stacked : forall pl fs, pv pl <> [] -> (forall x, In x fs -> 0 <= x <= 1) ->
  exists ps, point_along_path ROps pl fs = Ok ps /\ length ps = length fs /\
    forall k f p, nth_error fs k = Some f -> point_along_one ROps pl f = Some p -> nth_error ps k = Some p.
Proof. exact point_along_stacked. Qed.
Theorem C08_point_along_path_out_of_range : forall pl fs x, In x fs -> (x < 0 \/ 1 < x) ->
  point_along_path ROps pl fs = Raise ValueError.
Proof. exact point_along_out_of_range. Qed.

(* ---- subdivided_by_length ---- *)
(* every edge is cut into the least number n of equal parts with  length <= n * max_length *)
Theorem C08_subdivide_minimal_parts : forall mx s, 0 < mx ->
  seg_len ROps s <= IZR (parts_needed ROps mx s) * mx /\
  forall m : Z, seg_len ROps s <= IZR m * mx -> (parts_needed ROps mx s <= m)%Z.
Proof. exact parts_needed_minimal. Qed.
(* unselected edges and edges not longer than max_length get no points; the others get the n-1 interior points *)
Theorem C08_subdivide_untouched : forall mx sel s,
  (sel = false \/ (parts_needed ROps mx s <= 1)%Z -> edge_inserts ROps mx sel s = []) /\
  (sel = true -> (1 < parts_needed ROps mx s)%Z ->
     edge_inserts ROps mx sel s = inserted_on ROps (parts_needed ROps mx s) s).
Proof. exact edge_inserts_cases. Qed.
(* inserted points lie evenly spaced on their own segment: the j-th of n parts at parameter j/n; n-1 of them *)
Theorem C08_subdivide_inserted_even : forall (n : Z) s j, (1 < n)%Z -> (j < Z.to_nat n - 1)%nat ->
  nth_error (inserted_on ROps n s) j =
  Some (vadd ROps (vscale ROps (IZR (Z.of_nat (S j)) / IZR n) (vsub ROps (snd s) (fst s))) (fst s)) /\
  length (inserted_on ROps n s) = (Z.to_nat n - 1)%nat.
Proof. intros n s j Hn Hj. exact (conj (inserted_on_nth n s j Hn Hj) (inserted_on_length n s)). Qed.
(* original vertex k sits at the reported index, the points inserted on the edge leaving it follow it directly,
   reported indices increase strictly; for every list of per-edge insertions (any mask, any max_length) *)
Theorem C08_subdivide_keeps_originals : forall (vs : list (vec3 R)) ins k v il,
  nth_error vs k = Some v -> nth_error ins k = Some il ->
  exists i, nth_error (index_map_from 0 ins) k = Some i /\
    nth_error (interleave vs ins) i = Some v /\
    (forall j p, nth_error il j = Some p -> nth_error (interleave vs ins) (S (i + j)) = Some p).
Proof.
  intros vs ins k v il Hv Hi. destruct (interleave_spec vs ins [] k v il Hv Hi) as [i [H1 [H2 [H3 _]]]].
  exists i. exact (conj H1 (conj H2 H3)).
Qed.
Theorem C08_subdivide_indices_increase : forall (ins : list (list (vec3 R))) k i j,
  nth_error (index_map_from 0 ins) k = Some i -> nth_error (index_map_from 0 ins) (S k) = Some j -> (i < j)%nat.
Proof. intros ins. exact (index_map_increasing ins 0%nat). Qed.
(* closedness is kept; a mask of the wrong length is refused *)
Theorem C08_subdivide_closedness : forall pl mx mask r, subdivided_by_length ROps pl mx mask = Ok r ->
  pclosed (fst r) = pclosed pl /\
  pv (fst r) = interleave (pv pl) (inserts_per_vertex ROps pl mx
                 (match mask with Some m => m | None => repeat true (length (pl_segments pl)) end)).
Proof.
  intros pl mx mask r H. unfold subdivided_by_length in H. destruct mask as [m|].
  - destruct (Nat.eqb (length m) (length (pl_segments pl))); [|discriminate]. injection H as <-. split; reflexivity.
  - injection H as <-. split; reflexivity.
Qed.
(* PARTIAL: total length preserved is NOT proved as a theorem (needs |s v| = |s| |v| through sqrt and the sum over
   the interleaved chain); it is checked by the oracle on every subdivision case. *)
Theorem C08_subdivide_length_preserved_partial : forall (n : Z) s, (1 < n)%Z ->
  length (inserted_on ROps n s) = (Z.to_nat n - 1)%nat.
Proof. intros n s _. exact (inserted_on_length n s). Qed.

(* ---- with_segments_bisected (repaired) ---- *)
Theorem C08_bisect_empty_is_identity : forall pl, exists o, bisect ROps pl [] = Ok (pl, o, []).
Proof. exact bisect_empty. Qed.
Theorem C08_bisect_closedness : forall pl idx r, bisect ROps pl idx = Ok r -> pclosed (fst (fst r)) = pclosed pl.
Proof. exact bisect_closedness. Qed.

(* ---- subdivide_segment / subdivide_segments ---- *)
Theorem C08_subdivide_segment_spec : forall p1 p2 (num : Z) endpoint, (2 <= num)%Z ->
  exists pts, subdivide_segment ROps p1 p2 num endpoint = Ok pts /\ length pts = Z.to_nat num /\
    forall k, (k < Z.to_nat num)%nat ->
      exists p, nth_error pts k = Some p /\
        p = vadd ROps (vscale ROps (IZR (Z.of_nat k) / IZR (if endpoint then num - 1 else num)) (vsub ROps p2 p1)) p1.
Proof. exact subdivide_segment_spec. Qed.
Theorem C08_subdivide_segment_refuses : forall p1 p2 num endpoint, (num < 2)%Z ->
  subdivide_segment ROps p1 p2 num endpoint = Raise ValueError.
Proof. exact subdivide_segment_refuses. Qed.
(* each segment of positive length gets its num evenly spaced points *)
Theorem C08_subdivide_segments_spec_partial : forall num a b k, a <> b -> (k < num)%nat ->
  nth_error (subdiv_seg_rows ROps num (a, b)) k =
  Some (Some (vadd ROps a (vscale ROps (IZR (Z.of_nat k) / IZR (Z.of_nat num)) (vsub ROps b a)))).
Proof. exact subdiv_seg_rows_spec. Qed.
(* ... but a zero-length segment yields NaN rows (known finding) *)
Theorem C08_subdivide_segments_zero_length_refuted :
  exists vs num k, nth_error (subdivide_segments ROps vs num) k = Some None.
Proof. exact subdivide_segments_zero_length_refuted. Qed.

(* non-vacuity: a closed polyline of positive total length whose last segment has zero length *)
Example C08_positive_length_inhabited :
  0 < total_length ROps (MkPolyline [V3 0 0 0; V3 3 4 0; V3 3 4 0] true).
Proof.
  unfold total_length, pl_segments. cbn [pv pclosed zip app map last].
  rewrite !nsum_cons, nsum_nil.
  pose proof (seg_len_nonneg (V3 3 4 0, V3 3 4 0)). pose proof (seg_len_nonneg (V3 3 4 0, V3 0 0 0)).
  assert (0 < seg_len ROps (V3 0 0 0, V3 3 4 0)); [|lra].
  unfold seg_len. apply P_vec.vnorm_pos. cbn [fst snd]. P_vec.vunf. intros Hv. injection Hv as H1 H2 H3. lra.
Qed.

Definition C08_all := (C08_lengths_sum_centroid, C08_point_along_path_spec, C08_point_along_path_f1,
  C08_path_end_is_end_of_last_segment, C08_walk_past_end, C08_point_along_path_stacked,
  C08_point_along_path_out_of_range, C08_subdivide_minimal_parts, C08_subdivide_untouched,
  C08_subdivide_inserted_even, C08_subdivide_keeps_originals, C08_subdivide_indices_increase,
  C08_subdivide_closedness, C08_subdivide_length_preserved_partial, C08_bisect_empty_is_identity,
  C08_bisect_closedness, C08_subdivide_segment_spec, C08_subdivide_segment_refuses,
  C08_subdivide_segments_spec_partial, C08_subdivide_segments_zero_length_refuted).
Print Assumptions C08_all.
