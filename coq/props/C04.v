(* C04 — CoordinateManager converts points consistently between any two tagged frames.
   Only statements here; each is closed by `exact <lemma>` from proofs/P_coordmgr.v. *)
From Coq Require Import ZArith Reals List Bool String.
From PW Require Import Num NumR Vec Mat NpList Result.
From PW.model Require Import M_rodrigues M_affine M_rotation M_composite M_coordmgr M_affine_spec M_composite_spec M_coordmgr_spec.
From PW.proofs Require Import P_affine P_rotation P_composite P_coordmgr.
Import ListNotations.
Local Open Scope R_scope.

(* invariant of every reachable state (any interleaving of tag_as, transform-appending calls, assignments, reads):
   every stored pair is affine with a two-sided inverse, and every tag position is at most the number of transforms *)
Theorem C04_invariant_reachable : forall attrs pa ops, Forall cm_op_ok ops -> cm_Inv (cm_final ROps attrs pa ops (cm_init (F:=R))).
Proof. exact cm_Inv_reachable. Qed.

(* points at tag `a` (position i) read at tag `b` (position j): unchanged if i = j; the forward matrices of steps
   i .. j-1 in that order if i < j; the inverse matrices of steps i-1 .. j in that order if i > j *)
Theorem C04_do_transform_spec : forall st pts a b i j, cm_Inv st ->
  tag_lookup a (cm_tags st) = Some i -> tag_lookup b (cm_tags st) = Some j ->
  do_transform ROps st pts a b = Ok (convert ROps (cm_tr st) i j pts) /\
  convert ROps (cm_tr st) i j pts =
  (if Nat.eqb i j then pts
   else if Nat.ltb i j
        then map (fun p => fold_left (fun q fr => mapply_pt ROps (fst fr) q) (slice (cm_tr st) i j) p) pts
        else map (fun p => fold_left (fun q fr => mapply_pt ROps (snd fr) q) (rev (slice (cm_tr st) j i)) p) pts).
Proof.
  intros st pts a b i j Hinv Ha Hb. split; [exact (do_transform_known st pts a b i j Ha Hb)|].
  apply convert_spec; [apply Hinv | exact (tag_lookup_bound st a i Hinv Ha) | exact (tag_lookup_bound st b j Hinv Hb)].
Qed.

(* A -> B -> C = A -> C for every order of the three tag positions; round trips return the original points *)
Theorem C04_path_independent : forall tr i j k pts, Inv tr ->
  (i <= List.length tr)%nat -> (j <= List.length tr)%nat -> (k <= List.length tr)%nat ->
  convert ROps tr j k (convert ROps tr i j pts) = convert ROps tr i k pts.
Proof. exact path_independent. Qed.
Theorem C04_round_trip : forall tr i j pts, Inv tr -> (i <= List.length tr)%nat -> (j <= List.length tr)%nat ->
  convert ROps tr j i (convert ROps tr i j pts) = pts.
Proof. exact round_trip. Qed.

(* the same at the level of tag names, for any reachable state: reading A -> B and then B -> C is reading A -> C
   (whatever the order of the three tags; an unknown C is refused either way), and B -> A gives the points back *)
Theorem C04_tags_path_independent : forall st pts a b c q, cm_Inv st ->
  do_transform ROps st pts a b = Ok q -> do_transform ROps st q b c = do_transform ROps st pts a c.
Proof. exact do_transform_path_independent. Qed.
Theorem C04_tags_round_trip : forall st pts a b q, cm_Inv st ->
  do_transform ROps st pts a b = Ok q -> do_transform ROps st q b a = Ok pts.
Proof. exact do_transform_round_trip. Qed.

(* KNOWN FINDING tag_shadows_attribute, for EVERY attribute list that contains the public method name "flip" (the list
   is data read from the code on each run): a tag named like an attribute of the class (a method such as "flip", or
   "_points", "_transform", ...) is converted by do_transform but NOT by an attribute read: Python finds the attribute
   and never calls __getattr__.  The model mirrors it (attr_shadowed). *)
Theorem C04_attribute_read_shadowed_refuted : forall attrs pa,
  attr_shadowed attrs "flip"%string = true -> pa <> "flip"%string ->
  exists (st : cm_state (F:=R)) tag pts,
  cm_points st = Some (tag, pts) /\ tag_lookup "flip"%string (cm_tags st) <> None /\
  snd (cm_step ROps attrs pa st (CGetAttr "flip"%string)) <> snd (cm_step ROps attrs pa st (CDoTransform pts tag "flip"%string)).
Proof. exact get_shadowed_refuted. Qed.

(* whatever is done afterwards (more transforms, new tag names, assignments, reads), a conversion between two
   existing tags that are not re-tagged stays the same *)
Theorem C04_append_preserves_conversions : forall attrs pa ops st pts a b, Forall cm_op_ok ops -> cm_Inv st ->
  Forall (not_retag a) ops -> Forall (not_retag b) ops ->
  (exists r, do_transform ROps st pts a b = Ok r) ->
  do_transform ROps (cm_final ROps attrs pa ops st) pts a b = do_transform ROps st pts a b.
Proof. exact do_transform_preserved. Qed.


(* ================================================================================================================
   definitional: pins the shape of the model; the content is carried by the traced ties / correspondence
   ================================================================================================================ *)
(* attribute reads (of names that are not attributes of the class) are do_transform from the tag the points were
   assigned at; assignment stores tag and points *)
Theorem C04_attribute_protocol_partial : forall attrs pa st tag pts n i,
  (attr_shadowed attrs n = false -> cm_points st = Some (tag, pts) ->
   cm_step ROps attrs pa st (CGetAttr n) = cm_step ROps attrs pa st (CDoTransform pts tag n)) /\
  (tag_lookup n (cm_tags st) = Some i ->
   cm_step ROps attrs pa st (CSetAttr n pts) = (MkCM (cm_tags st) (Some (n, pts)) (cm_tr st), Ok OutNone)).
Proof. intros attrs pa st tag pts n i. exact (conj (get_is_do_transform attrs pa st tag pts n) (set_known_tag attrs pa st n i pts)). Qed.
(* unknown tags are refused, state unchanged (validated by the correspondence and the oracle, not proved of the code).
   The third refusal (ValueError when reading before any assignment) is conditional: a name that is an attribute of
   the class is found by ordinary lookup and never raises (known finding tag_shadows_attribute). *)
Theorem C04_unknown_tag_errors : forall attrs pa st n pts a b,
  (tag_lookup n (cm_tags st) = None -> cm_step ROps attrs pa st (CSetAttr n pts) = (st, Raise AttributeError)) /\
  (tag_lookup a (cm_tags st) = None \/ tag_lookup b (cm_tags st) = None ->
   cm_step ROps attrs pa st (CDoTransform pts a b) = (st, Raise KeyError)) /\
  (attr_shadowed attrs n = false -> cm_points st = None -> cm_step ROps attrs pa st (CGetAttr n) = (st, Raise ValueError)).
Proof.
  intros attrs pa st n pts a b.
  exact (conj (set_unknown_tag attrs pa st n pts) (conj (do_transform_unknown_tag attrs pa st pts a b) (get_before_set attrs pa st n))).
Qed.
Theorem C04_tag_as_records_length : forall attrs pa st n,
  tag_lookup n (cm_tags (fst (cm_step ROps attrs pa st (CTagAs n)))) = Some (List.length (cm_tr st)) /\
  cm_tr (fst (cm_step ROps attrs pa st (CTagAs n))) = cm_tr st.
Proof. exact tag_as_records_length. Qed.
(* re-tagging moves exactly that name *)
Theorem C04_retag_moves_only_that_tag : forall n m i tags,
  tag_lookup n ((n, i) :: tags) = Some i /\ (n <> m -> tag_lookup m ((n, i) :: tags) = tag_lookup m tags).
Proof. intros n m i tags. exact (conj (tag_lookup_same n i tags) (fun H => tag_lookup_other n m i tags H)). Qed.

(* non-vacuity: a script in the style of the class docstring satisfies the hypotheses *)
Example C04_ops_ok_inhabited :
  Forall cm_op_ok [CTagAs "source"%string; CTransform (OTranslate (V3 1 2 3)); CTransform (OUniformScale 2 false);
                   CTagAs "scaled"%string; CSetAttr "source"%string [V3 1 1 1]; CGetAttr "scaled"%string].
Proof. repeat constructor. Qed.

Example C04_not_shadowed_inhabited :
  attr_shadowed ["flip"; "tag_as"; "_points"]%string "source"%string = false /\
  attr_shadowed ["flip"; "tag_as"; "_points"]%string "flip"%string = true.
Proof. split; reflexivity. Qed.

Definition C04_all := (C04_invariant_reachable, C04_tag_as_records_length, C04_do_transform_spec,
  C04_attribute_protocol_partial, C04_tags_path_independent, C04_tags_round_trip, C04_attribute_read_shadowed_refuted,
  C04_path_independent, C04_round_trip, C04_append_preserves_conversions,
  C04_retag_moves_only_that_tag, C04_unknown_tag_errors).
Print Assumptions C04_all.
