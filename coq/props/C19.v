(* C19 — Serialization round-trips Polylines and Planes at the stated precision.
   Only statements; each closed by `exact <lemma>` from proofs/P_serialize.v.
   The model (M_serialize.v) is of the code with the two proposed fixes fixes/C19-*.diff applied. *)
From Coq Require Import ZArith Reals List Bool String.
From PW Require Import Num NumR Vec NpList Result.
From PW.model Require Import M_polyline_base M_plane M_serialize.
From PW.proofs Require Import P_serialize.
Import ListNotations.
Local Open Scope R_scope.

(* np.around to d decimals moves a coordinate by at most half a unit of the last kept decimal (every d, every x) *)
Theorem C19_round_error_half_ulp : forall d x, Rabs (round_dec ROps d x - x) <= / 2 * / pow10 ROps d.
Proof. exact round_error_half_ulp. Qed.

Definition C19_all := (C19_round_error_half_ulp).
Print Assumptions C19_all.
