(* C19 — Serialization round-trips Polylines and Planes at the stated precision.
   Only statements; each closed by `exact <lemma>` from proofs/P_serialize.v.
   The model (M_serialize.v) is of the code as repaired by /repo commits b58b02b (empty polyline deserialize),
   981c15b (Plane.rounded passes direction_decimals on) and 2b8d651 (serialize emits bool(is_closed)).
   The schema term polliwog_defs is compared with the freshly extracted polliwog/schema.json on every run. *)
From Coq Require Import ZArith Reals List Bool String.
From PW Require Import Num NumR Vec NpList Result.
From PW.model Require Import M_polyline_base M_plane M_serialize.
From PW.proofs Require Import P_serialize.
Import ListNotations.
Local Open Scope R_scope.
Local Open Scope string_scope.

(* np.around to d decimals moves a coordinate by at most half a unit of the last kept decimal (every d, every x) *)
Theorem C19_round_error_half_ulp : forall d x, Rabs (round_dec ROps d x - x) <= / 2 * / pow10 ROps d.
Proof. exact round_error_half_ulp. Qed.

(* serialize returns a document that passes validate: every polyline (no vertices included), every precision *)
Theorem C19_serialize_validates : forall d (p : polyline R), pl_validate (pl_serialize ROps d p) = true.
Proof. exact serialize_validates. Qed.
(* deserialize(serialize(p, d)) = rounded(p, d): same closedness, vertices rounded; the empty polyline included *)
Theorem C19_roundtrip_polyline : forall d (p : polyline R),
  pl_deserialize (pl_serialize ROps d p) = Ok (pl_rounded ROps d p) /\
  pclosed (pl_rounded ROps d p) = pclosed p /\ pv (pl_rounded ROps d p) = map (vround ROps d) (pv p).
Proof. exact roundtrip_polyline_full. Qed.

(* Plane: whenever rounded succeeds, serialize returns a valid document of the rounded plane; deserialize re-checks
   unit length at the default precision and, at the default direction precision, returns rounded() itself *)
Theorem C19_roundtrip_plane : forall pd dd (pl r : plane R), plane_rounded ROps pd dd pl = Ok r ->
  plane_serialize ROps pd dd pl = Ok (plane_to_json r) /\ plane_validate (plane_to_json r) = true /\
  plane_deserialize ROps (plane_to_json r) = plane_ctor ROps (pref r) (pnormal r) default_dd /\
  (dd = default_dd -> plane_deserialize ROps (plane_to_json r) = Ok r).
Proof. exact roundtrip_plane. Qed.
(* rounded and serialize succeed for every plane with an exactly unit normal, for every number of position and
   direction decimals (the coordinate-wise rounding moves the length by at most sqrt(3)/2 * 10^-dd < 10^-dd, which the
   constructor accepts at dd decimals); what they return is the coordinate-wise rounding, and the document validates *)
Theorem C19_plane_rounded_succeeds : forall pd dd (pl : plane R), vnorm2 ROps (pnormal pl) = 1 ->
  plane_rounded ROps pd dd pl = Ok (MkPlane (vround ROps pd (pref pl)) (vround ROps dd (pnormal pl))).
Proof. exact plane_rounded_succeeds. Qed.
Theorem C19_plane_serialize_succeeds : forall pd dd (pl : plane R), vnorm2 ROps (pnormal pl) = 1 ->
  exists j, plane_serialize ROps pd dd pl = Ok j /\ plane_validate j = true.
Proof. exact plane_serialize_succeeds. Qed.
(* the complete round trip at the default direction precision, any position precision *)
Theorem C19_roundtrip_plane_default : forall pd (pl : plane R), vnorm2 ROps (pnormal pl) = 1 ->
  exists j, plane_serialize ROps pd default_dd pl = Ok j /\ plane_validate j = true /\
    plane_deserialize ROps j = Ok (MkPlane (vround ROps pd (pref pl)) (vround ROps default_dd (pnormal pl))).
Proof. exact roundtrip_plane_default. Qed.

(* validate accepts only well-formed documents: an object with exactly the two keys, a boolean isClosed, and vectors
   that are arrays of exactly three numbers (so: missing key, extra key, non-boolean isClosed, bad vector are refused) *)
Theorem C19_validate_polyline_only_wellformed : forall j : json R, pl_validate j = true ->
  exists kv l b, j = JObj kv /\ assoc "vertices" kv = Some (JArr l) /\ assoc "isClosed" kv = Some (JBool b) /\
    (forall k v, In (k, v) kv -> k = "vertices" \/ k = "isClosed") /\
    (forall e, In e l -> exists x y z, e = JArr [JNum x; JNum y; JNum z]).
Proof. exact pl_validate_wellformed. Qed.
Theorem C19_validate_plane_only_wellformed : forall j : json R, plane_validate j = true ->
  exists kv, j = JObj kv /\
    (exists x y z, assoc "referencePoint" kv = Some (JArr [JNum x; JNum y; JNum z])) /\
    (exists x y z, assoc "unitNormal" kv = Some (JArr [JNum x; JNum y; JNum z])) /\
    (forall k v, In (k, v) kv -> k = "referencePoint" \/ k = "unitNormal").
Proof. exact plane_validate_wellformed. Qed.


(* ---- definitional: pins the shape of the model; the content is carried by the traced ties / correspondence ----
   true of any model that starts with the validate test (the source has that shape: `cls.validate(data)` first); the
   evidence for the clause is the correspondence on the corrupted documents (deserialize's outcome on each) *)
(* deserialize never builds an object from data that validate refuses *)
Theorem C19_deserialize_guarded_by_validate : forall (j : json R),
  (forall p, pl_deserialize j = Ok p -> pl_validate j = true) /\
  (forall p, plane_deserialize ROps j = Ok p -> plane_validate j = true).
Proof. exact deserialize_guarded. Qed.

(* non-vacuity: the empty polyline serializes to a document that validates and round-trips *)
Example C19_empty_polyline_roundtrips :
  pl_deserialize (pl_serialize ROps 3 (MkPolyline (F:=R) [] true)) = Ok (MkPolyline [] true).
Proof. exact (roundtrip_polyline 3 (MkPolyline [] true)). Qed.

(* non-vacuity of the three plane theorems: a non-axis exactly unit normal (the historical defect input), e.g. with
   direction_decimals = 2 it rounds to (0.29, 0.43, 0.86), which the constructor accepts at 2 decimals *)
Example C19_unit_normal_inhabited : vnorm2 ROps (pnormal (MkPlane (V3 1 2 3) (V3 (2 / 7) (3 / 7) (6 / 7)))) = 1.
Proof. unfold vnorm2, vdot; cbn. field. Qed.
Example C19_plane_rounded_coarse_succeeds : exists r,
  plane_rounded ROps 6 2 (MkPlane (V3 1 2 3) (V3 (2 / 7) (3 / 7) (6 / 7))) = Ok r.
Proof. eexists. exact (C19_plane_rounded_succeeds 6 2 _ C19_unit_normal_inhabited). Qed.

Definition C19_all := (C19_round_error_half_ulp, C19_serialize_validates, C19_roundtrip_polyline, C19_roundtrip_plane,
  C19_plane_rounded_succeeds, C19_plane_serialize_succeeds, C19_roundtrip_plane_default, C19_validate_polyline_only_wellformed,
  C19_validate_plane_only_wellformed, C19_deserialize_guarded_by_validate).
Print Assumptions C19_all.
