(* C13 — Plane constructors yield the plane they describe, with a real unit normal.
   Only statements here; each is closed by `exact <lemma>` from proofs/P_plane_ctor.v.
   `unit_normal pl` is  |normal|^2 = 1  (P_plane.v); `plane_sd pl p = 0` says p lies on the plane.
   The dtype clause (real float64 normal) is not a statement about real arithmetic: it is part of the observed
   result in the correspondence check and of the oracle; fit_from_points is modelled with
   /repo commit 9820109 (np.linalg.eigh, fixes/C13-fit-real-normal.diff). *)
From Coq Require Import ZArith Reals List Bool Lra.
From PW Require Import Num NumR Vec Mat NpList Result.
From PW.model Require Import M_plane M_plane_ctor.
From PW.proofs Require Import P_vec P_mat P_plane P_plane_ctor P_plane_fit.
Import ListNotations.
Local Open Scope R_scope.

(* the constructor keeps its arguments and accepts exactly the normals whose length is 1 to the tolerance
   atol; everything else is ValueError.  Proved for every atol; the step direction_decimals -> atol = 0.1 ** d is
   binary64 arithmetic of the harness/code and is tied by the correspondence check only (threshold bracketed at
   0.9 / 1.1 atol by the constructor stream for d in {None, 3, 6, 8}; d = 4, 5 occur only through from_point_and_normal /
   from_points_and_vector with exactly unit normals); default_atol is the d = 6 value (next theorem). *)
Theorem C13_ctor_accepts_iff_unit_to_decimals : forall atol ref n,
  (Rabs (vnorm ROps n - 1) <= atol -> plane_ctor ROps atol ref n = Ok (MkPlane ref n)) /\
  (atol < Rabs (vnorm ROps n - 1) -> plane_ctor ROps atol ref n = Raise ValueError).
Proof. exact ctor_accepts_iff. Qed.
(* the default tolerance is binary64's 0.1 ** 6 *)
Theorem C13_default_tolerance_is_six_decimals :
  Rabs (default_atol ROps - atol_of_decimals 6) <= 1 / 10 ^ 21 /\ 0 < default_atol ROps.
Proof. exact default_atol_value. Qed.

(* from_point_and_normal normalises: same direction, unit length, same reference point; a zero normal is refused *)
Theorem C13_normalised_is_unit : forall atol ref n, 0 <= atol -> n <> V3 0 0 0 ->
  from_point_and_normal ROps atol ref n = Ok (MkPlane ref (vnormalize ROps n)) /\
  unit_normal (MkPlane ref (vnormalize ROps n)) /\
  vscale ROps (vnorm ROps n) (vnormalize ROps n) = n /\ 0 < vnorm ROps n.
Proof. exact normalised_is_unit. Qed.
Theorem C13_zero_normal_refused : forall atol ref,
  from_point_and_normal ROps atol ref (V3 0 0 0) = Raise ValueError.
Proof. exact zero_normal_refused. Qed.

(* from_points: through the three points, unit normal on their counter-clockwise side; collinear points refused *)
Theorem C13_from_points_contains_and_ccw : forall p1 p2 p3, tri_cross ROps p1 p2 p3 <> V3 0 0 0 ->
  exists pl, from_points ROps p1 p2 p3 = Ok pl /\ pref pl = p1 /\ unit_normal pl /\
    plane_sd ROps pl p1 = 0 /\ plane_sd ROps pl p2 = 0 /\ plane_sd ROps pl p3 = 0 /\
    0 < vdot ROps (pnormal pl) (tri_cross ROps p1 p2 p3).
Proof. exact from_points_contains_and_ccw. Qed.
Theorem C13_from_points_collinear_refused : forall p1 p2 p3, tri_cross ROps p1 p2 p3 = V3 0 0 0 ->
  from_points ROps p1 p2 p3 = Raise ValueError.
Proof. exact from_points_collinear_refused. Qed.

(* from_points_and_vector: contains both points, parallel to the vector; p2 - p1 parallel to the vector refused *)
Theorem C13_from_points_and_vector_contains_parallel : forall atol p1 p2 v, 0 <= atol ->
  vcross ROps (vsub ROps p2 p1) v <> V3 0 0 0 ->
  exists pl, from_points_and_vector ROps atol p1 p2 v = Ok pl /\ pref pl = p1 /\ unit_normal pl /\
    plane_sd ROps pl p1 = 0 /\ plane_sd ROps pl p2 = 0 /\ vdot ROps (pnormal pl) v = 0.
Proof. exact from_points_and_vector_contains_parallel. Qed.
Theorem C13_from_points_and_vector_parallel_refused : forall atol p1 p2 v,
  vcross ROps (vsub ROps p2 p1) v = V3 0 0 0 -> from_points_and_vector ROps atol p1 p2 v = Raise ValueError.
Proof. exact from_points_and_vector_parallel_refused. Qed.

(* fit_from_points: whatever the eigen-solver returns, an accepted result passes through the centroid and has a
   normal of unit length to six decimals *)
Theorem C13_fit_through_centroid : forall eigh ps pl, fit_from_points ROps eigh ps = Ok pl ->
  pref pl = centroid ROps ps /\ plane_sd ROps pl (centroid ROps ps) = 0 /\
  Rabs (vnorm ROps (pnormal pl) - 1) <= default_atol ROps.
Proof. exact fit_through_centroid. Qed.

(* the equation functions agree with from_points for one triangle (stacks: see the definitional block at the end;
   that the stacked code is the single code row by row is carried by the traced kernel plane_equation_stack, the
   CEq correspondence cases and the oracle's bit-for-bit comparison of stacked and single results) *)
Theorem C13_equation_functions_agree : forall p1 p2 p3 pl, from_points ROps p1 p2 p3 = Ok pl ->
  plane_normal_from_points ROps true p1 p2 p3 = Some (pnormal pl) /\
  plane_equation_from_points ROps p1 p2 p3 = Some (plane_equation ROps pl) /\
  normal_and_offset (plane_equation ROps pl) = (pnormal pl, - vdot ROps p1 (pnormal pl)).
Proof. exact equation_functions_agree. Qed.
Theorem C13_equation_functions_nan_iff_collinear : forall p1 p2 p3,
  (plane_equation_from_points ROps p1 p2 p3 = None <-> tri_cross ROps p1 p2 p3 = V3 0 0 0) /\
  (plane_normal_from_points ROps true p1 p2 p3 = None <-> tri_cross ROps p1 p2 p3 = V3 0 0 0).
Proof. exact equation_functions_nan_iff. Qed.
(* Plane.xy / xz / yz are the coordinate planes through the origin *)
Theorem C13_coordinate_planes : forall p,
  plane_sd ROps (plane_xy ROps) p = vz p /\ plane_sd ROps (plane_xz ROps) p = vy p /\
  plane_sd ROps (plane_yz ROps) p = vx p /\
  unit_normal (plane_xy ROps) /\ unit_normal (plane_xz ROps) /\ unit_normal (plane_yz ROps) /\
  pref (plane_xy ROps) = V3 0 0 0 /\ pref (plane_xz ROps) = V3 0 0 0 /\ pref (plane_yz ROps) = V3 0 0 0.
Proof. exact coordinate_planes. Qed.
Theorem C13_coordinate_planes_constructible :
  plane_ctor ROps (default_atol ROps) (vzero ROps) (V3 0 0 1) = Ok (plane_xy ROps) /\
  plane_ctor ROps (default_atol ROps) (vzero ROps) (V3 0 1 0) = Ok (plane_xz ROps) /\
  plane_ctor ROps (default_atol ROps) (vzero ROps) (V3 1 0 0) = Ok (plane_yz ROps).
Proof. exact coordinate_planes_constructible. Qed.

(* tilted: for a plane with a unit normal, a retained point on it and a new point that does not project onto the
   retained point (it is off the rotation axis), the result is a plane with a unit normal through both points.
   cos / sin / arccos are Reals' functions (cos_acos, sin_acos connect them to vg's arccos of the clipped cosine). *)
Theorem C13_tilted_contains_both : forall pl newp cop,
  unit_normal pl -> plane_sd ROps pl cop = 0 -> tilt_old ROps pl newp cop <> V3 0 0 0 ->
  exists pl', tilted ROps pl newp cop = Ok pl' /\ pref pl' = cop /\ unit_normal pl' /\
    plane_sd ROps pl' cop = 0 /\ plane_sd ROps pl' newp = 0.
Proof. exact tilted_contains_both. Qed.
(* whatever cosine / sine the trigonometric library returns, an accepted result keeps the retained point, has a
   normal of unit length to six decimals, and that normal is the Rodrigues rotation of the old one about the tilt axis *)
Theorem C13_tilted_accepted_result : forall pl newp cop c s pl', tilted_cs ROps pl newp cop c s = Ok pl' ->
  pref pl' = cop /\ plane_sd ROps pl' cop = 0 /\ Rabs (vnorm ROps (pnormal pl') - 1) <= default_atol ROps /\
  pnormal pl' = vg_rotate_cs ROps (pnormal pl) (tilt_axis ROps pl newp cop) c s.
Proof. exact tilted_keeps_coplanar_point. Qed.

(* fit_from_points is a total-least-squares plane.  PARTIAL in one respect only: LAPACK's symmetric eigen-solver is
   not modelled; the statement is for every solver that meets its documented contract `eig_contract`
   (cov v_i = w_i v_i, v_i orthonormal) on the covariance of the cloud.  Under it the fit succeeds for every cloud
   of at least two points, passes through the centroid, has a unit normal, and no plane through the centroid has a
   smaller sum of squared distances (`ssd ps c m` = sum over the points of ((p - c) . m)^2, m ranging over all unit
   normals).  Ties between eigenvalues are allowed. *)
Theorem C13_fit_is_least_squares_partial : forall eigh ps, (2 <= length ps)%nat ->
  eig_contract (cov ROps ps) (eigh (cov ROps ps)) ->
  exists pl, fit_from_points ROps eigh ps = Ok pl /\ pref pl = centroid ROps ps /\ unit_normal pl /\
    forall m, vnorm2 ROps m = 1 ->
      ssd ps (centroid ROps ps) (pnormal pl) <= ssd ps (centroid ROps ps) m.
Proof. exact fit_is_least_squares. Qed.
(* tied eigenvalues: the least-squares plane is not unique.  Set-valued version: EVERY unit eigenvector n of the
   covariance whose eigenvalue lam is minimal (cov - lam I positive semidefinite) gives a plane through the centroid
   that the constructor accepts and that no plane through the centroid beats; and under the contract the fitted
   normal is one of them.  For tie cases the correspondence checks exactly these hypotheses on the returned normal. *)
Theorem C13_min_eigenvector_is_least_squares : forall ps n lam, (2 <= length ps)%nat ->
  vnorm2 ROps n = 1 -> m3apply ROps (cov ROps ps) n = vscale ROps lam n ->
  (forall m, lam * vdot ROps m m <= quad (cov ROps ps) m) ->
  plane_ctor ROps (default_atol ROps) (centroid ROps ps) n = Ok (MkPlane (centroid ROps ps) n) /\
  forall m, vnorm2 ROps m = 1 -> ssd ps (centroid ROps ps) n <= ssd ps (centroid ROps ps) m.
Proof. exact min_eigenvector_is_least_squares. Qed.
Theorem C13_contract_gives_min_eigenvector : forall c e, eig_contract c e ->
  exists lam, (forall m, lam * vdot ROps m m <= quad c m) /\
    vnorm2 ROps (fit_normal ROps e) = 1 /\ m3apply ROps c (fit_normal ROps e) = vscale ROps lam (fit_normal ROps e).
Proof. exact contract_gives_min_eigenvector. Qed.
(* the sum of squared distances is the quadratic form of the scatter matrix, (N - 1) times that of np.cov *)
Theorem C13_ssd_is_quadratic_form : forall ps c m,
  ssd ps c m = quad (scatter ps c) m /\
  (nlen ROps ps - 1 <> 0 -> quad (scatter ps (centroid ROps ps)) m = (nlen ROps ps - 1) * quad (cov ROps ps) m).
Proof. intros ps c m. exact (conj (ssd_is_quad ps c m) (cov_is_scatter ps m)). Qed.
(* non-vacuity of the contract: a diagonal covariance with the coordinate axes *)
Example C13_eig_contract_inhabited :
  eig_contract (M3 3 0 0 0 2 0 0 0 1) (Eig3 3 2 1 (V3 1 0 0) (V3 0 1 0) (V3 0 0 1)).
Proof. unfold eig_contract, m3apply, vscale, vdot; cbn. repeat split; try (f_equal; ring); ring. Qed.

(* fewer than two points (outside the property's domain of >= 3): np.cov is NaN and LAPACK raises LinAlgError *)
Theorem C13_fit_too_few_points : forall eigh ps, (length ps <= 1)%nat ->
  fit_from_points ROps eigh ps = Raise LinAlgError.
Proof. exact fit_too_few_points. Qed.

(* ---- definitional: pins the shape of the model; the content is carried by the traced ties / correspondence ---- *)
(* the stacked models are `map` of the single ones *)
Theorem C13_stacked_is_map_single : forall normalize ts k,
  nth_error (plane_normal_from_points_stack ROps normalize ts) k =
    option_map (fun t => match t with (p1, p2, p3) => plane_normal_from_points ROps normalize p1 p2 p3 end) (nth_error ts k) /\
  nth_error (plane_equation_from_points_stack ROps ts) k =
    option_map (fun t => match t with (p1, p2, p3) => plane_equation_from_points ROps p1 p2 p3 end) (nth_error ts k).
Proof. exact stacked_is_map_single. Qed.
Theorem C13_normal_and_offset_stack : forall (es : list (peq R)) k,
  nth_error (fst (normal_and_offset_stack es)) k = option_map (fun e => fst (normal_and_offset e)) (nth_error es k) /\
  nth_error (snd (normal_and_offset_stack es)) k = option_map (fun e => snd (normal_and_offset e)) (nth_error es k).
Proof. exact normal_and_offset_stack_spec. Qed.

(* non-vacuity: hypotheses of C13_tilted_contains_both (xy-plane, retained point at the origin, new point (1,0,1)) *)
Example C13_tilted_hypotheses_inhabited :
  unit_normal (plane_xy ROps) /\ plane_sd ROps (plane_xy ROps) (V3 0 0 0) = 0 /\
  tilt_old ROps (plane_xy ROps) (V3 1 0 1) (V3 0 0 0) <> V3 0 0 0.
Proof.
  split; [apply (coordinate_planes (V3 0 0 0))|]. split; [apply (coordinate_planes (V3 0 0 0))|].
  unfold tilt_old. rewrite project_moves_along_normal.
  replace (plane_sd ROps (plane_xy ROps) (V3 1 0 1)) with 1 by (symmetry; apply (coordinate_planes (V3 1 0 1))).
  unfold plane_xy, vsub, vscale, vzero, n0, n1; cbn. intros H. injection H as H _ _. lra.
Qed.
(* non-vacuity of C13_min_eigenvector_is_least_squares with a TIE: +-e_x, +-e_y (covariance diag(2,2,0)/3), n = e_z *)
Example C13_tie_hypotheses_inhabited :
  let ps := [V3 1 0 0; V3 (-1) 0 0; V3 0 1 0; V3 0 (-1) 0] in
  vnorm2 ROps (V3 0 0 1) = 1 /\ m3apply ROps (cov ROps ps) (V3 0 0 1) = vscale ROps 0 (V3 0 0 1) /\
  forall m, 0 * vdot ROps m m <= quad (cov ROps ps) m.
Proof.
  cbv zeta. unfold cov, cov_entry, centroid, vsum, nlen, nsum, n1, quad.
  cbn [length map fold_left Z.of_nat Pos.of_succ_nat Pos.succ vget]. rops. munf.
  split; [ring|]. split; [apply V3_ext; field|]. intros [mx my mz]. munf.
  replace (0 * (mx * mx + my * my + mz * mz)) with 0 by ring.
  match goal with |- 0 <= ?e => replace e with (2 / 3 * (mx * mx) + 2 / 3 * (my * my)) by field end.
  pose proof (Rle_0_sqr mx). pose proof (Rle_0_sqr my). unfold Rsqr in *. lra.
Qed.
(* non-vacuity: hypotheses of C13_fit_is_least_squares_partial for a concrete cloud and its eigen-decomposition
   (+-3 e_x, +-2 e_y, +-e_z: covariance diag(18,8,2)/5) *)
Example C13_fit_hypotheses_inhabited :
  (2 <= length six_points)%nat /\ eig_contract (cov ROps six_points) ((fun _ => six_points_eig) (cov ROps six_points)).
Proof. split; [cbn; repeat constructor|exact six_points_contract]. Qed.
(* non-vacuity: a non-collinear triple *)
Example C13_noncollinear_inhabited : tri_cross ROps (V3 0 0 0) (V3 1 0 0) (V3 0 1 0) <> V3 0 0 0.
Proof. unfold tri_cross, vcross, vsub; cbn. intros H. injection H as _ _ H. lra. Qed.

Definition C13_all := (C13_ctor_accepts_iff_unit_to_decimals, C13_default_tolerance_is_six_decimals,
  C13_normalised_is_unit, C13_zero_normal_refused, C13_from_points_contains_and_ccw, C13_from_points_collinear_refused,
  C13_from_points_and_vector_contains_parallel, C13_from_points_and_vector_parallel_refused, C13_fit_through_centroid,
  C13_equation_functions_agree, C13_equation_functions_nan_iff_collinear, C13_stacked_is_map_single,
  C13_normal_and_offset_stack, C13_coordinate_planes, C13_coordinate_planes_constructible,
  C13_tilted_contains_both, C13_tilted_accepted_result, C13_fit_is_least_squares_partial, C13_ssd_is_quadratic_form, C13_fit_too_few_points,
  C13_min_eigenvector_is_least_squares, C13_contract_gives_min_eigenvector).
Print Assumptions C13_all.
