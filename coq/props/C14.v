(* C14 — Plane-segment and plane-line intersection routines agree on the crossing point.
   Only statements here; each is closed by `exact <lemma>` from proofs/P_plane_xsect.v.
   `sd pl p` is Plane.signed_distance; `seg_at a b t = a + t (b - a)`; `line_at pt ray s = pt + s ray`;
   `crossing pl a b = seg_at a b (sd a / (sd a - sd b))`; a NaN row is `None`.
   No theorem needs the normal to have unit length: they hold for every plane the constructor accepts. *)
From Coq Require Import ZArith Reals Lra List Bool Sorted.
From PW Require Import Num NumR Vec NpList.
From PW.model Require Import M_plane M_polyline_base M_plane_xsect M_plane_xsect_spec.
From PW.proofs Require Import P_plane_xsect.
Import ListNotations.
Local Open Scope R_scope.

(* endpoints strictly on opposite sides: exactly one point of the segment is at signed distance zero *)
Theorem C14_crossing_point_unique : forall pl a b, sd pl a * sd pl b < 0 ->
  sd pl (crossing pl a b) = 0 /\
  (exists t, 0 < t < 1 /\ crossing pl a b = seg_at a b t) /\
  (forall t, 0 <= t <= 1 -> sd pl (seg_at a b t) = 0 -> seg_at a b t = crossing pl a b).
Proof. exact crossing_point_unique. Qed.

(* ... and all four routines return it (single form, stacked form flagged valid, the t-parameter routine, and the
   polyline routine with edge index 0) *)
Theorem C14_four_routines_agree : forall pl a b, sd pl a * sd pl b < 0 ->
  line_segment_xsection ROps pl a b = Some (crossing pl a b) /\
  line_segment_xsections ROps pl [a] [b] = ([Some (crossing pl a b)], [true]) /\
  intersect_segment_with_plane ROps a (vsub ROps b a) (pref pl) (pnormal pl) = Some (crossing pl a b) /\
  intersect_plane ROps pl (seg_poly a b) = ([Some (crossing pl a b)], [0%nat]).
Proof. exact four_routines_agree. Qed.

(* polylines of every length, open or closed, no vertex on the plane: Polyline.intersect_plane reports exactly the
   edges on which Plane.line_segment_xsection finds a point, with their edge indices in order and the same points
   (so: the crossing point for every crossing edge, no entry for an edge whose ends are on the same side) *)
Theorem C14_intersect_plane_is_edgewise : forall pl poly, Forall (off_plane pl) (pv poly) ->
  intersect_plane_hits ROps pl poly = edgewise_from pl 0 (segments poly).
Proof. exact intersect_plane_edgewise. Qed.
(* the same, directly in the property's words: with no vertex on the plane the report is exactly the list of
   (edge index, crossing point) of the edges whose ends are strictly on opposite sides, in order *)
Theorem C14_intersect_plane_reports_crossings : forall pl poly, Forall (off_plane pl) (pv poly) ->
  intersect_plane_hits ROps pl poly = crossings_from pl 0 (segments poly).
Proof. exact intersect_plane_crossings. Qed.
(* per edge, for EVERY polyline (other vertices may lie on the plane): a strictly crossing edge k is reported with index k
   and its crossing point; an edge with both ends strictly on the same side is not reported *)
Theorem C14_intersect_plane_per_edge : forall pl poly k a b, nth_error (segments poly) k = Some (a, b) ->
  (sd pl a * sd pl b < 0 -> In (k, Some (crossing pl a b)) (intersect_plane_hits ROps pl poly)) /\
  (0 < sd pl a * sd pl b -> forall r, ~ In (k, r) (intersect_plane_hits ROps pl poly)).
Proof. exact intersect_plane_per_edge. Qed.
(* for every input: edge indices strictly ascend, each names a selected edge and carries that edge's point *)
Theorem C14_intersect_plane_indices : forall pl poly,
  StronglySorted lt (snd (intersect_plane ROps pl poly)) /\
  forall k r, In (k, r) (intersect_plane_hits ROps pl poly) ->
    exists a b, nth_error (segments poly) k = Some (a, b) /\ edge_selected ROps pl a b = true /\
                r = edge_point ROps pl a b.
Proof. exact intersect_plane_indices. Qed.

(* endpoints strictly on the same side: None, a NaN row flagged invalid, NaN, no entry. The coordinate-wise bound
   test of line_segment_xsection(s) rejects the far intersection because a and b differ in some coordinate. *)
Theorem C14_same_side_reports_none : forall pl a b, 0 < sd pl a * sd pl b ->
  line_segment_xsection ROps pl a b = None /\
  line_segment_xsections ROps pl [a] [b] = ([None], [false]) /\
  intersect_segment_with_plane ROps a (vsub ROps b a) (pref pl) (pnormal pl) = None /\
  intersect_plane ROps pl (seg_poly a b) = ([], []).
Proof. exact same_side_reports_none. Qed.

(* exactly one endpoint on the plane: the three segment routines return that endpoint *)
Theorem C14_endpoint_on_plane_returns_it : forall pl a b,
  (sd pl a = 0 -> sd pl b <> 0 ->
     line_segment_xsection ROps pl a b = Some a /\
     line_segment_xsections ROps pl [a] [b] = ([Some a], [true]) /\
     intersect_segment_with_plane ROps a (vsub ROps b a) (pref pl) (pnormal pl) = Some a) /\
  (sd pl b = 0 -> sd pl a <> 0 ->
     line_segment_xsection ROps pl a b = Some b /\
     line_segment_xsections ROps pl [a] [b] = ([Some b], [true]) /\
     intersect_segment_with_plane ROps a (vsub ROps b a) (pref pl) (pnormal pl) = Some b).
Proof. exact endpoint_on_plane_returns_it. Qed.

(* a line not parallel to the plane: the unique point of the line on the plane; parallel: None / invalid NaN row *)
Theorem C14_line_xsection_unique_or_none : forall pl pt ray,
  (xs_denom ROps pl ray <> 0 ->
     exists x, line_xsection ROps pl pt ray = Some x /\ sd pl x = 0 /\ (exists s, x = line_at pt ray s) /\
               forall s, sd pl (line_at pt ray s) = 0 -> line_at pt ray s = x) /\
  (xs_denom ROps pl ray = 0 ->
     line_xsection ROps pl pt ray = None /\ xsections_row ROps pl pt ray = (None, false)).
Proof. exact line_xsection_unique_or_none. Qed.

(* every stacked form equals its single form row by row (points and validity flags), for stacks of every length *)
Theorem C14_stacked_is_rowwise : forall pl ps qs starts segvs pops nrms k,
  nth_error (fst (line_xsections ROps pl ps qs)) k =
    row2 (line_xsection ROps pl) (fun x => x) (nth_error ps k) (nth_error qs k) /\
  nth_error (snd (line_xsections ROps pl ps qs)) k =
    row2 (line_xsection ROps pl) is_some (nth_error ps k) (nth_error qs k) /\
  nth_error (fst (line_segment_xsections ROps pl ps qs)) k =
    row2 (line_segment_xsection ROps pl) (fun x => x) (nth_error ps k) (nth_error qs k) /\
  nth_error (snd (line_segment_xsections ROps pl ps qs)) k =
    row2 (line_segment_xsection ROps pl) is_some (nth_error ps k) (nth_error qs k) /\
  nth_error (intersect_segments_with_planes ROps starts segvs pops nrms) k =
    match nth_error starts k, nth_error segvs k, nth_error pops k, nth_error nrms k with
    | Some s, Some v, Some p, Some n => Some (intersect_segment_with_plane ROps s v p n)
    | _, _, _, _ => None
    end.
Proof. exact stacked_is_rowwise. Qed.

(* non-vacuity: a tilted plane and a segment that is parallel to no axis whose ends are strictly on opposite sides *)
Example C14_crossing_inhabited :
  let pl := MkPlane (V3 1 2 3) (V3 (2/3) (-1/3) (2/3)) in
  sd pl (V3 4 0 5) * sd pl (V3 (-2) 3 1) < 0.
Proof. cbv [plane_sd sd_eq plane_equation eq_normal ea eb ec ed pref pnormal vdot vx vy vz]; rops. lra. Qed.

(* non-vacuity of the other hypotheses, same tilted plane: same side; exactly one endpoint on the plane; a line that is
   not parallel and one that is; a three-vertex polyline with no vertex on the plane *)
Example C14_other_hypotheses_inhabited :
  let pl := MkPlane (V3 1 2 3) (V3 (2/3) (-1/3) (2/3)) in
  0 < sd pl (V3 4 0 5) * sd pl (V3 5 1 7) /\
  (sd pl (V3 1 2 3) = 0 /\ sd pl (V3 4 0 5) <> 0) /\
  xs_denom ROps pl (V3 1 2 (-1)) <> 0 /\ xs_denom ROps pl (V3 1 2 0) = 0 /\
  Forall (off_plane pl) [V3 4 0 5; V3 (-2) 3 1; V3 (-3) 1 0].
Proof.
  cbv zeta. unfold off_plane, xs_denom.
  cbv [plane_sd sd_eq plane_equation eq_normal ea eb ec ed pref pnormal vdot vx vy vz]; rops.
  repeat split; try lra. repeat constructor; lra.
Qed.

Definition C14_all := (C14_crossing_point_unique, C14_four_routines_agree, C14_intersect_plane_is_edgewise,
  C14_intersect_plane_reports_crossings, C14_intersect_plane_per_edge,
  C14_intersect_plane_indices, C14_same_side_reports_none, C14_endpoint_on_plane_returns_it,
  C14_line_xsection_unique_or_none, C14_stacked_is_rowwise).
Print Assumptions C14_all.
