(* C02 — the sliced mesh is a well-formed indexed mesh with correct face provenance.
   Only statements here; each is closed by `exact <lemma>` from proofs/P_slicing*.v. *)
From Coq Require Import ZArith Reals List Bool Sorted.
From PW Require Import Num NumR Vec NpList Result.
From PW.model Require Import M_slicing M_slicing_spec.
From Coq Require Import Permutation.
From PW.proofs Require Import P_slicing P_slicing_face P_slicing_cover P_slicing_compl P_slicing_mesh P_slicing_perface P_slicing_idem P_slicing_z P_slicing_public P_slicing_area P_slicing_dtypes.
Import ListNotations.

(* renumbering by bin counting: unique is the strictly increasing list of the values that occur, and
   unique[inverse] == values, for every integer vector *)
Theorem C02_unique_bincount_spec : forall vals,
  StronglySorted lt (fst (unique_bincount vals)) /\
  (forall b, In b (fst (unique_bincount vals)) <-> In b vals) /\
  length (snd (unique_bincount vals)) = length vals /\
  (forall j v, nth_error vals j = Some v ->
     exists r, nth_error (snd (unique_bincount vals)) j = Some r /\ nth_error (fst (unique_bincount vals)) r = Some v).
Proof. exact unique_bincount_spec. Qed.
(* every position of unique is hit by inverse: position i holds a value u that occurs, and u is renumbered to i *)
Theorem C02_unique_bincount_onto : forall vals i u,
  nth_error (ub_unique vals) i = Some u -> In u vals /\ ub_rank vals u = i.
Proof. exact ub_rank_of_nth. Qed.

(* exactly one source index per output face, each naming an input face — for all meshes, planes, masks *)
Theorem C02_slice_mapping_len : forall vs fs ref n mask r,
  slice_triangles_by_plane ROps vs fs ref n mask = Ok r ->
  length (mo_map r) = length (mo_f r) /\ Forall (fun i => (i < length fs)%nat) (mo_map r).
Proof. exact slice_mapping_len. Qed.

(* a mesh wholly behind the plane (every vertex further than the tolerance behind it), all faces selected: three empty
   arrays — for any tolerance >= 0, and at the public entry point with the real 1e-8 *)
Theorem C02_slice_all_behind_empty : forall tol eps vs fs n o, (0 <= tol)%R -> vs <> [] ->
  (forall v, In v vs -> (plane_dot ROps n o v < - tol)%R) -> (forall f, In f fs -> face_valid (length vs) f) ->
  slice_faces_plane ROps tol eps vs fs n o None = Ok (MkOut [] [] []).
Proof. exact slice_all_behind. Qed.
Theorem C02_public_all_behind_empty : forall vs fs ref n, vs <> [] ->
  (forall v, In v vs -> (plane_dot ROps n ref v < - merge_tol ROps)%R) -> (forall f, In f fs -> face_valid (length vs) f) ->
  slice_triangles_by_plane ROps vs fs ref n None = Ok (MkOut [] [] []).
Proof. exact public_all_behind. Qed.

(* "whatever the input": on the domain (faces index the vertices, the mask if any has one entry per face) the call returns *)
Theorem C02_slice_returns_on_domain : forall vs fs ref n mask,
  (forall f, In f fs -> face_valid (length vs) f) -> mask_ok (length fs) mask ->
  exists r, slice_triangles_by_plane ROps vs fs ref n mask = Ok r.
Proof. exact slice_total. Qed.

(* definitional: pins the shape of the model; the content is carried by the traced ties / correspondence *)
(* empty mesh, mesh without faces: three empty arrays (the model evaluated on empty lists) *)
Theorem C02_slice_empty_inputs :
  (forall ref n mask, slice_triangles_by_plane ROps [] [] ref n mask = Ok (MkOut [] [] [])) /\
  (forall vs ref n mask, mask = None \/ mask = Some [] ->
     slice_triangles_by_plane ROps vs [] ref n mask = Ok (MkOut [] [] [])).
Proof. exact (conj slice_no_vertices slice_no_faces). Qed.
(* dtypes (clauses "float64 vertices, int64 faces", mapping int64): look-ups in the dtype table of the model (which return
   statement of slice_faces_plane is taken decides the dtypes; the wrapper converts vertices and faces with np.asarray first and
   asserts float64 / int64 / int64 at the end).  For any vertex dtype (float64/32/16, integer) and any integer face dtype (signed or
   unsigned): the three arrays are float64 / int64 / int64, and on the domain the call returns.  The table itself is tied to the
   code by the correspondence check (wrapper and kernel called with such arrays) — validated, not proved. *)
Theorem C02_public_dtypes : forall vdt fdt vs fs ref n mask r,
  slice_triangles_by_plane ROps vs fs ref n mask = Ok r ->
  slice_triangles_by_plane_dtypes ROps vdt fdt vs fs ref n mask = Ok (MkDt VF64 I64 I64).
Proof. exact public_dtypes. Qed.
Theorem C02_public_dtypes_on_domain : forall vdt fdt vs fs ref n mask,
  (forall f, In f fs -> face_valid (length vs) f) -> mask_ok (length fs) mask ->
  slice_triangles_by_plane_dtypes ROps vdt fdt vs fs ref n mask = Ok (MkDt VF64 I64 I64).
Proof. exact public_dtypes_total. Qed.
(* what the two conversion lines are for (the code before /repo 1119c57 and before fixes/C02-unsigned-faces.diff): a float32 array
   comes back as float32 from the zero-vertex and nothing-cut returns and the wrapper's assertion fails; an unsigned face array is
   rejected by the bin counting on the nothing-cut return (uint64 also when cut) *)
Theorem C02_dtypes_without_conversion :
  wrapper_dtypes false true VF32 I64 PKeptOnly = Raise AssertionError /\
  wrapper_dtypes false true VF32 I64 PZeroVerts = Raise AssertionError /\
  wrapper_dtypes false true VF32 I64 PCut = Ok (MkDt VF64 I64 I64) /\ wrapper_dtypes false true VF32 I64 PEmpty = Ok (MkDt VF64 I64 I64) /\
  wrapper_dtypes true false VF64 U32 PKeptOnly = Raise ValueError /\ wrapper_dtypes true false VF64 U32 PCut = Ok (MkDt VF64 I64 I64) /\
  wrapper_dtypes true false VF64 U64 PCut = Raise ValueError /\ wrapper_dtypes true false VF64 U64 PEmpty = Ok (MkDt VF64 I64 I64) /\
  wrapper_dtypes true false VF64 I32 PKeptOnly = Ok (MkDt VF64 I64 I64).
Proof. exact dtypes_without_conversion. Qed.
(* end of the definitional block *)

(* every returned face entry indexes a returned vertex and every returned vertex is used by a face — for all meshes
   whose faces index their vertices, all planes, all masks *)
Theorem C02_slice_indices_valid_no_orphans : forall vs fs ref n mask r,
  (forall f, In f fs -> face_valid (length vs) f) ->
  slice_triangles_by_plane ROps vs fs ref n mask = Ok r ->
  Forall (face_valid (length (mo_v r))) (mo_f r) /\
  (forall i, (i < length (mo_v r))%nat -> In i (flat_faces (mo_f r))).
Proof. exact slice_indices_valid_no_orphans. Qed.

(* renumbering keeps the coordinates: the coordinate triangles after unique_bincount are those before it *)
Theorem C02_renumber_keeps_coordinates : forall (nvs : list (vec3 R)) fs, Forall (face_valid (length nvs)) fs ->
  mesh_tris (fst (renumber nvs fs)) (snd (renumber nvs fs)) = mesh_tris nvs fs.
Proof. intros nvs fs H. exact (proj2 (proj2 (renumber_spec nvs fs H))). Qed.

(* provenance: output face j lies in the plane and outline of input face mapping[j] — the pairs (mapping[j], triangle j)
   are exactly the (i, t') with t' produced by the per-face kernel from face i (C01_slice_mesh_is_per_face), and every
   such t' lies inside face i (C01_slice_face_sound); restated here for the pipeline on resolved rows *)
Theorem C02_slice_provenance : forall eps vs (fds : list (@fdata R)),
  (forall d, In d fds -> fd_wf vs d) ->
  Permutation
    (zip (mo_map (slice_fds ROps eps vs fds))
         (mesh_tris (mo_v (slice_fds ROps eps vs fds)) (mo_f (slice_fds ROps eps vs fds))))
    (flat_map (per_face eps) (indexed fds)).
Proof. exact slice_fds_per_face. Qed.

(* the multiset of returned coordinate triangles depends only on the rows (corner coordinates, snapped corner distances, corner signs, mask bit):
   not on the order of the faces, not on how the vertices are numbered, not on unreferenced vertices *)
Theorem C02_slice_perm_relabel_invariant : forall eps vs vs' (fds fds' : list (@fdata R)),
  (forall d, In d fds -> fd_wf vs d) -> (forall d, In d fds' -> fd_wf vs' d) ->
  Permutation (map fd_row fds) (map fd_row fds') ->
  Permutation (mesh_tris (mo_v (slice_fds ROps eps vs fds)) (mo_f (slice_fds ROps eps vs fds)))
              (mesh_tris (mo_v (slice_fds ROps eps vs' fds')) (mo_f (slice_fds ROps eps vs' fds'))).
Proof. exact slice_perm_relabel_invariant. Qed.

(* ... at the public entry point: permuting the faces (the mask entries with them), or renumbering the vertices through any map
   g that keeps every vertex (vs' holds vertex i of vs at position g i; unreferenced extra vertices allowed) and rewriting the
   faces through g, permutes the returned coordinate triangles *)
Theorem C02_public_face_order_invariant : forall vs fs fs' ref n mask mask' r r', vs <> [] ->
  mask_ok (length fs) mask -> mask_ok (length fs') mask' ->
  Permutation (zip fs (mask_list (length fs) mask)) (zip fs' (mask_list (length fs') mask')) ->
  slice_triangles_by_plane ROps vs fs ref n mask = Ok r ->
  slice_triangles_by_plane ROps vs fs' ref n mask' = Ok r' ->
  Permutation (mesh_tris (mo_v r) (mo_f r)) (mesh_tris (mo_v r') (mo_f r')).
Proof. exact public_face_order_invariant. Qed.
(* ... with provenance: pair every returned triangle with the input face (index triple) its mapping entry names — the mapping
   follows the permutation of the faces *)
Theorem C02_public_face_order_invariant_provenance : forall vs fs fs' ref n mask mask' r r', vs <> [] ->
  mask_ok (length fs) mask -> mask_ok (length fs') mask' ->
  Permutation (zip fs (mask_list (length fs) mask)) (zip fs' (mask_list (length fs') mask')) ->
  slice_triangles_by_plane ROps vs fs ref n mask = Ok r ->
  slice_triangles_by_plane ROps vs fs' ref n mask' = Ok r' ->
  Permutation (map (with_source fs) (zip (mo_map r) (mesh_tris (mo_v r) (mo_f r))))
              (map (with_source fs') (zip (mo_map r') (mesh_tris (mo_v r') (mo_f r')))).
Proof. exact public_face_order_invariant_provenance. Qed.
Theorem C02_public_face_order_invariant_nomask : forall vs fs fs' ref n r r', vs <> [] -> Permutation fs fs' ->
  slice_triangles_by_plane ROps vs fs ref n None = Ok r ->
  slice_triangles_by_plane ROps vs fs' ref n None = Ok r' ->
  Permutation (mesh_tris (mo_v r) (mo_f r)) (mesh_tris (mo_v r') (mo_f r')).
Proof. exact public_face_order_invariant_nomask. Qed.
Theorem C02_public_vertex_numbering_invariant : forall vs vs' (g : nat -> nat) fs ref n mask r r', vs <> [] -> vs' <> [] ->
  mask_ok (length fs) mask ->
  (forall i v, nth_error vs i = Some v -> nth_error vs' (g i) = Some v) ->
  slice_triangles_by_plane ROps vs fs ref n mask = Ok r ->
  slice_triangles_by_plane ROps vs' (map (map_face g) fs) ref n mask = Ok r' ->
  Permutation (mesh_tris (mo_v r) (mo_f r)) (mesh_tris (mo_v r') (mo_f r')).
Proof. exact public_vertex_numbering_invariant. Qed.

(* idempotence: slicing the result again with the same plane (all faces selected both times) returns the same multiset of
   coordinate triangles — for all meshes and planes; and face by face: a triangle produced from a selected face is wholly on
   or in front (true offsets >= -tol), so the kernel hands it back unchanged whether selected or not *)
Theorem C02_slice_idempotent : forall tol eps vs fs n o r r2, (0 <= tol)%R -> vs <> [] ->
  slice_faces_plane ROps tol eps vs fs n o None = Ok r ->
  slice_faces_plane ROps tol eps (mo_v r) (mo_f r) n o None = Ok r2 ->
  Permutation (mesh_tris (mo_v r2) (mo_f r2)) (mesh_tris (mo_v r) (mo_f r)).
Proof. exact slice_idempotent. Qed.
(* ... for all masks: the second call selects output face j iff the first call selected its source face mapping[j] *)
Theorem C02_slice_idempotent_masked : forall tol eps vs fs n o fi mask mask2 r r2, (0 <= tol)%R -> vs <> [] ->
  slice_faces_plane ROps tol eps vs fs n o fi = Ok r ->
  mask_of (length fs) fi = Ok mask ->
  length mask2 = length (mo_map r) ->
  (forall j i, nth_error (mo_map r) j = Some i -> nth_error mask2 j = nth_error mask i) ->
  slice_faces_plane ROps tol eps (mo_v r) (mo_f r) n o (Some (flatnonzero mask2)) = Ok r2 ->
  Permutation (mesh_tris (mo_v r2) (mo_f r2)) (mesh_tris (mo_v r) (mo_f r)).
Proof. exact slice_idempotent_masked. Qed.
(* ... and at the public entry point with the real 1e-8 *)
Theorem C02_public_idempotent : forall vs fs ref n r r2, vs <> [] ->
  slice_triangles_by_plane ROps vs fs ref n None = Ok r ->
  slice_triangles_by_plane ROps (mo_v r) (mo_f r) ref n None = Ok r2 ->
  Permutation (mesh_tris (mo_v r2) (mo_f r2)) (mesh_tris (mo_v r) (mo_f r)).
Proof. exact public_idempotent. Qed.
Theorem C02_public_idempotent_masked : forall vs fs ref n mask mask2 r r2, vs <> [] -> mask_ok (length fs) mask ->
  slice_triangles_by_plane ROps vs fs ref n mask = Ok r ->
  length mask2 = length (mo_map r) ->
  (forall j i, nth_error (mo_map r) j = Some i -> nth_error mask2 j = nth_error (mask_list (length fs) mask) i) ->
  slice_triangles_by_plane ROps (mo_v r) (mo_f r) ref n (Some mask2) = Ok r2 ->
  Permutation (mesh_tris (mo_v r2) (mo_f r2)) (mesh_tris (mo_v r) (mo_f r)).
Proof. exact public_idempotent_masked. Qed.
Theorem C02_slice_idempotent_per_face : forall tol eps n o t t', (0 <= tol)%R ->
  In t' (slice_face ROps tol eps n o true t) -> forall m', slice_face ROps tol eps n o m' t' = [t'].
Proof. exact slice_face_idempotent. Qed.

(* complement, face by face: the vector area kept in front of the plane plus the vector area kept behind it (the call with the
   flipped plane) is the face's vector area; twice that for a face whose three corners all count as lying on the plane, which
   both calls keep.  on3 tol n o t: every corner's true offset is within tol. *)
Theorem C02_slice_complement : forall tol eps n o t, (0 <= tol)%R ->
  (on3 tol n o t ->
     vadd ROps (vsum_normals (slice_face ROps tol eps n o true t))
               (vsum_normals (slice_face ROps tol eps (vneg ROps n) o true t)) = vscale ROps 2%R (tri_normal t)) /\
  (~ on3 tol n o t ->
     vadd ROps (vsum_normals (slice_face ROps tol eps n o true t))
               (vsum_normals (slice_face ROps tol eps (vneg ROps n) o true t)) = vscale ROps 1%R (tri_normal t)).
Proof. exact slice_face_complement. Qed.
(* ... with the mask bit: a face that is not selected is kept whole by both calls (weight 2); scalar areas too (every output
   normal is a non-negative multiple of its face's normal, so lengths add up like the vectors) *)
Theorem C02_slice_complement_face_masked : forall tol eps n o m t, (0 <= tol)%R ->
  vadd ROps (vsum_normals (slice_face ROps tol eps n o m t)) (vsum_normals (slice_face ROps tol eps (vneg ROps n) o m t)) =
    vscale ROps (cweight tol n o m t) (tri_normal t) /\
  (norm_sum (map Some (slice_face ROps tol eps n o m t)) + norm_sum (map Some (slice_face ROps tol eps (vneg ROps n) o m t)) =
    cweight tol n o m t * vnorm ROps (tri_normal t))%R.
Proof. intros tol eps n o m t H. exact (conj (face_pair_area tol eps n o m t H) (face_pair_norm tol eps n o m t H)). Qed.
(* complement for whole meshes, all masks: sum over the returned faces of the call with the plane plus sum over the returned
   faces of the call with the flipped plane = sum over the input faces, a face counted twice when both calls keep it whole (not
   selected, or all three corners within tol of the plane) — as vector areas (cross products, i.e. twice the area vectors) and as
   scalar areas (their lengths).  rows = vertices[faces] with the mask bit, pinned by the third conjunct. *)
Theorem C02_slice_mesh_complement : forall tol eps vs fs n o fi r1 r2, (0 <= tol)%R -> vs <> [] ->
  slice_faces_plane ROps tol eps vs fs n o fi = Ok r1 ->
  slice_faces_plane ROps tol eps vs fs (vneg ROps n) o fi = Ok r2 ->
  exists mask rows,
    mask_of (length fs) fi = Ok mask /\ length rows = length fs /\
    (forall i d, nth_error rows i = Some d ->
       nth_error fs i = Some (fd_f d) /\ nth_error mask i = Some (fd_m d) /\ lookup3 vs (fd_f d) = Some (fd_t d)) /\
    vadd ROps (area_sum (mesh_tris (mo_v r1) (mo_f r1))) (area_sum (mesh_tris (mo_v r2) (mo_f r2))) = rows_area tol n o rows /\
    (norm_sum (mesh_tris (mo_v r1) (mo_f r1)) + norm_sum (mesh_tris (mo_v r2) (mo_f r2)) = rows_norm tol n o rows)%R.
Proof. exact slice_mesh_complement. Qed.
Theorem C02_public_mesh_complement : forall vs fs ref n mask r1 r2, vs <> [] ->
  slice_triangles_by_plane ROps vs fs ref n mask = Ok r1 ->
  slice_triangles_by_plane ROps vs fs ref (vneg ROps n) mask = Ok r2 ->
  exists mk rows,
    mask_of (length fs) (option_map flatnonzero mask) = Ok mk /\ length rows = length fs /\
    (forall i d, nth_error rows i = Some d ->
       nth_error fs i = Some (fd_f d) /\ nth_error mk i = Some (fd_m d) /\ lookup3 vs (fd_f d) = Some (fd_t d)) /\
    vadd ROps (area_sum (mesh_tris (mo_v r1) (mo_f r1))) (area_sum (mesh_tris (mo_v r2) (mo_f r2))) =
      rows_area (merge_tol ROps) n ref rows /\
    (norm_sum (mesh_tris (mo_v r1) (mo_f r1)) + norm_sum (mesh_tris (mo_v r2) (mo_f r2)) = rows_norm (merge_tol ROps) n ref rows)%R.
Proof. exact public_mesh_complement. Qed.

(* the kept fractions themselves: f(ds) + f(-ds) = 1 (2 when all three snapped distances are 0), all 27 corner classes *)
Theorem C02_kept_fractions_complement : forall tol ds, (0 <= tol)%R -> snapped3 tol ds ->
  (all_zero ds -> kept_frac tol ds + kept_frac tol (negd ds) = 2)%R /\
  (~ all_zero ds -> kept_frac tol ds + kept_frac tol (negd ds) = 1)%R.
Proof. exact frac_complement. Qed.

(* face arrays with NumPy wrap-around entries: without negative entries (all in range) the wrapping layer is the model
   proper, so every theorem above applies to it *)
Theorem C02_wrapping_layer_is_model_on_nonnegative_faces : forall tol eps vs fsz n o fi,
  vs <> [] -> (forall f, In f fsz -> zface_in_range (length vs) f) ->
  slice_faces_plane_z ROps tol eps vs fsz n o fi = slice_faces_plane ROps tol eps vs (map zface_to_nat fsz) n o fi.
Proof. exact slice_z_nonneg. Qed.
(* REFUTED (known finding negative_index_survives): "whatever the input ... the arrays returned form a valid mesh" fails for a
   face array with wrapping entries that all index the vertices — at the public entry point, real tolerance: one vertex in front of
   the plane z = 0 and the face (-1,-1,-1); the kept face carries its negative entries into np.bincount *)
Theorem C02_negative_index_survives_refuted :
  (forall f, In f [mkzface (-1) (-1) (-1)] ->
     forall k, (- Z.of_nat (length [V3 0 0 1]%R) <= zget f k < Z.of_nat (length [V3 0 0 1]%R))%Z) /\
  slice_triangles_by_plane_z ROps [V3 0 0 1]%R [mkzface (-1) (-1) (-1)] (V3 0 0 0)%R (V3 0 0 1)%R None = Raise ValueError.
Proof. exact public_negative_index_survives. Qed.

(* non-vacuity of the wholly-behind clause *)
Example C02_all_behind_inhabited :
  (forall v, In v [V3 0 0 (-1); V3 1 0 (-2); V3 0 1 (-3)] -> (plane_dot ROps (V3 0 0 1) (V3 0 0 0) v < - (1/100000000))%R)%R
  /\ face_valid (length [V3 0 0 (-1); V3 1 0 (-2); V3 0 1 (-3)]%R) (mkface 0 1 2).
Proof.
  split; [|unfold face_valid; cbn; Lia.lia].
  intros v [<-|[<-|[<-|[]]]]; unfold plane_dot; P_vec.vunf; Lra.lra.
Qed.

(* non-vacuity of the public-level hypotheses: a mask of the right length; a renumbering map that keeps every vertex *)
Example C02_mask_ok_inhabited : mask_ok (length [mkface 0 1 2; mkface 0 2 1]) (Some [true; false]).
Proof. reflexivity. Qed.
Example C02_renumbering_inhabited :
  forall i v, nth_error [V3 0 0 1; V3 1 0 0]%R i = Some v -> nth_error [V3 1 0 0; V3 0 0 1; V3 5 5 5]%R ((fun j => 1 - j)%nat i) = Some v.
Proof. intros [|[|i]] v; cbn; intros H; try exact H. destruct i; discriminate. Qed.

Definition C02_all := (C02_unique_bincount_spec, C02_unique_bincount_onto, C02_slice_mapping_len, C02_slice_all_behind_empty, C02_public_all_behind_empty,
  C02_slice_returns_on_domain, C02_slice_empty_inputs, C02_public_face_order_invariant, C02_public_face_order_invariant_nomask, C02_public_face_order_invariant_provenance, C02_public_idempotent_masked,
  C02_public_vertex_numbering_invariant, C02_slice_idempotent_masked, C02_public_idempotent,
  C02_slice_indices_valid_no_orphans, C02_renumber_keeps_coordinates, C02_slice_provenance, C02_slice_perm_relabel_invariant,
  C02_slice_idempotent, C02_slice_idempotent_per_face, C02_slice_complement, C02_kept_fractions_complement, C02_slice_complement_face_masked, C02_slice_mesh_complement,
  C02_public_mesh_complement, C02_public_dtypes, C02_public_dtypes_on_domain, C02_dtypes_without_conversion,
  C02_wrapping_layer_is_model_on_nonnegative_faces, C02_negative_index_survives_refuted).
Print Assumptions C02_all.
