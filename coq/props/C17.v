(* C17 — Box is the tight axis-aligned bound; cloud extent and percentile are exact.
   Only statements here; each is closed by `exact <lemma>` from proofs/P_box.v / P_pointcloud.v. *)
From Coq Require Import ZArith Reals List Bool Sorted Permutation.
From PW Require Import Num NumR Vec NpList Result.
From PW.model Require Import M_plane M_box M_box_spec M_pointcloud.
From PW.proofs Require Import P_plane P_box P_pointcloud.
Import ListNotations.
Local Open Scope R_scope.

(* ---- Box.from_points / Polyline.bounding_box --------------------------------------------------------------- *)
(* for every non-empty list: a box is returned, its sizes are non-negative, and on each axis the origin coordinate
   is a lower bound of all points attained by one of them, origin+size an upper bound attained by one of them *)
Theorem C17_from_points_tight : forall ps, ps <> [] ->
  exists b, from_points ROps ps = Ok b /\ nonneg_size b /\
            tight_on vx b ps /\ tight_on vy b ps /\ tight_on vz b ps.
Proof. exact from_points_tight. Qed.
Theorem C17_from_points_contains_all : forall ps b, from_points ROps ps = Ok b ->
  forall q, In q ps -> contains ROps b q 0 = true.
Proof. exact from_points_contains_all. Qed.
Theorem C17_from_points_empty_rejected : from_points ROps [] = Raise ValueError.
Proof. exact from_points_empty. Qed.
(* ---- constructor --------------------------------------------------------------------------------------------- *)
Theorem C17_negative_size_rejected : forall o s,
  (vx s < 0 \/ vy s < 0 \/ vz s < 0 -> box_ctor ROps o s = Raise ValueError) /\
  (~ (vx s < 0 \/ vy s < 0 \/ vz s < 0) -> box_ctor ROps o s = Ok (MkBox o s)).
Proof. exact negative_size_rejected. Qed.

(* ---- derived quantities -------------------------------------------------------------------------------------- *)
Theorem C17_accessor_identities : forall b,
  max_x ROps b - min_x b = width b /\ max_y ROps b - min_y b = height b /\ max_z ROps b - min_z b = depth b /\
  mid_x ROps b = (min_x b + max_x ROps b) / 2 /\ mid_y ROps b = (min_y b + max_y ROps b) / 2 /\
  mid_z ROps b = (min_z b + max_z ROps b) / 2 /\
  center_point ROps b = V3 (mid_x ROps b) (mid_y ROps b) (mid_z ROps b) /\
  floor_point ROps b = V3 (mid_x ROps b) (min_y b) (mid_z ROps b) /\
  volume ROps b = width b * height b * depth b /\
  surface_area ROps b = 2 * (width b * height b + height b * depth b + width b * depth b) /\
  V3 (max_x ROps b) (max_y ROps b) (max_z ROps b) = box_max b /\
  V3 (min_x b) (min_y b) (min_z b) = borigin b.
Proof. exact accessor_identities. Qed.
Theorem C17_ranges : forall b, nonneg_size b ->
  ranges ROps b = [(min_x b, max_x ROps b); (min_y b, max_y ROps b); (min_z b, max_z ROps b)].
Proof. exact ranges_spec. Qed.
Theorem C17_corners : forall b,
  let x0 := min_x b in let x1 := max_x ROps b in let y0 := min_y b in let y1 := max_y ROps b in
  let z0 := min_z b in let z1 := max_z ROps b in
  corners ROps b = [V3 x0 y0 z0; V3 x1 y0 z0; V3 x0 y1 z0; V3 x0 y0 z1; V3 x1 y1 z0; V3 x0 y1 z1; V3 x1 y0 z1; V3 x1 y1 z1].
Proof. exact corners_spec. Qed.

(* ---- face planes and containment ------------------------------------------------------------------------------- *)
Theorem C17_planes_inward_through_faces : forall b, nonneg_size b ->
  pref (min_x_plane ROps b) = V3 (min_x b) (mid_y ROps b) (mid_z ROps b) /\ pnormal (min_x_plane ROps b) = V3 1 0 0 /\
  pref (min_y_plane ROps b) = V3 (mid_x ROps b) (min_y b) (mid_z ROps b) /\ pnormal (min_y_plane ROps b) = V3 0 1 0 /\
  pref (min_z_plane ROps b) = V3 (mid_x ROps b) (mid_y ROps b) (min_z b) /\ pnormal (min_z_plane ROps b) = V3 0 0 1 /\
  pref (max_x_plane ROps b) = V3 (max_x ROps b) (mid_y ROps b) (mid_z ROps b) /\ pnormal (max_x_plane ROps b) = V3 (-1) (-0) (-0) /\
  pref (max_y_plane ROps b) = V3 (mid_x ROps b) (max_y ROps b) (mid_z ROps b) /\ pnormal (max_y_plane ROps b) = V3 (-0) (-1) (-0) /\
  pref (max_z_plane ROps b) = V3 (mid_x ROps b) (mid_y ROps b) (max_z ROps b) /\ pnormal (max_z_plane ROps b) = V3 (-0) (-0) (-1) /\
  Forall (fun pl => 0 <= plane_sd ROps pl (center_point ROps b) /\ unit_normal pl) (six_planes ROps b) /\
  (min_y b <= mid_y ROps b <= max_y ROps b /\ min_z b <= mid_z ROps b <= max_z ROps b /\
   min_x b <= mid_x ROps b <= max_x ROps b).
Proof. exact planes_inward_through_faces. Qed.
(* the signed distance to a face plane is the depth inside the box along that axis *)
Theorem C17_plane_signed_distances : forall b p,
  plane_sd ROps (min_x_plane ROps b) p = vx p - min_x b /\
  plane_sd ROps (min_y_plane ROps b) p = vy p - min_y b /\
  plane_sd ROps (min_z_plane ROps b) p = vz p - min_z b /\
  plane_sd ROps (max_x_plane ROps b) p = max_x ROps b - vx p /\
  plane_sd ROps (max_y_plane ROps b) p = max_y ROps b - vy p /\
  plane_sd ROps (max_z_plane ROps b) p = max_z ROps b - vz p.
Proof. exact plane_sd_faces. Qed.
(* contains(p, atol) is True exactly when p is within atol of the inner side of all six planes *)
Theorem C17_contains_iff_six_planes : forall b p atol,
  contains ROps b p atol = true <-> Forall (fun pl => - atol <= plane_sd ROps pl p) (six_planes ROps b).
Proof. exact contains_iff_six_planes. Qed.

(* ---- extent ------------------------------------------------------------------------------------------------------ *)
(* for every list of at least two points: the value is attained by the returned pair of indices and bounds every
   pairwise distance *)
Theorem C17_extent_is_max_pair : forall ps, (2 <= length ps)%nat ->
  exists d i j pi pj, extent ROps ps = Ok (d, Z.of_nat i, Z.of_nat j) /\
    nth_error ps i = Some pi /\ nth_error ps j = Some pj /\ d = vdist ROps pi pj /\
    forall a b, In a ps -> In b ps -> vdist ROps a b <= d.
Proof. exact extent_is_max_pair. Qed.
Theorem C17_extent_too_few_rejected : forall ps, (length ps < 2)%nat -> extent ROps ps = Raise ValueError.
Proof. exact extent_too_few. Qed.

(* ---- percentile -------------------------------------------------------------------------------------------------- *)
(* PARTIAL: the result lies on the line through the centroid along the unit axis u and its coordinate along u is the
   percentile value of the points' coordinates along u -- for axes that are not "almost zero" (some |component| > 1e-8).
   Missing: the property says "all non-zero axes"; for a non-zero axis with all |components| <= 1e-8 the code raises
   ValueError (vg.almost_zero is an absolute test), see the _refuted theorem below and known_findings/C17.json. *)
Theorem C17_percentile_point_spec_partial : forall ps axis q, ps <> [] -> almost_zero ROps axis = false -> 0 <= q <= 100 ->
  let u := vnormalize ROps axis in let c := centroid ROps ps in
  let sel := percentile_value ROps (map (fun p => vdot ROps p u) ps) q in
  exists r, percentile ROps ps axis q = Ok r /\ vnorm2 ROps u = 1 /\
            r = vadd ROps c (vscale ROps (sel - vdot ROps c u) u) /\ vdot ROps r u = sel.
Proof. exact percentile_point_spec. Qed.
(* "all non-zero axes" is false of the code: a non-zero axis below vg.almost_zero's absolute threshold is rejected
   (witness: two points, axis (1e-9, 0, 0), q = 50) *)
Theorem C17_percentile_tiny_axis_rejected_refuted :
  exists ps axis q, ps <> [] /\ axis <> V3 0 0 0 /\ 0 <= q <= 100 /\ percentile ROps ps axis q = Raise ValueError.
Proof. exact percentile_tiny_axis_rejected. Qed.
(* errors: empty cloud, almost-zero axis, percentile outside [0, 100] (np.percentile's own check) *)
Theorem C17_percentile_errors : forall ps axis q,
  (ps = [] -> percentile ROps ps axis q = Raise ValueError) /\
  (almost_zero ROps axis = true -> percentile ROps ps axis q = Raise ValueError) /\
  (q < 0 \/ 100 < q -> percentile ROps ps axis q = Raise ValueError).
Proof. exact percentile_errors. Qed.
(* the sort inside the percentile is a sorted permutation of the coordinates *)
Theorem C17_percentile_sort_is_sorted_permutation : forall l,
  Permutation (isort ROps l) l /\ StronglySorted Rle (isort ROps l).
Proof. exact isort_sorted_permutation. Qed.
(* the percentile value is NumPy's linear-interpolation percentile for every q in [0,100]: with the virtual index
   v = (n-1) q/100 = lo + g, lo a natural number and 0 <= g < 1, it is s[lo] + g (s[lo+1] - s[lo]) on the sorted
   coordinates s (s[lo] at the last position) and lies between these two neighbours *)
Theorem C17_percentile_value_spec : forall l q, l <> [] -> 0 <= q <= 100 ->
  let s := isort ROps l in let n := length l in
  let v := IZR (Z.of_nat n - 1) * (q / 100) in
  exists lo g, (lo <= n - 1)%nat /\ 0 <= g < 1 /\ v = INR lo + g /\
    let hi := Nat.min (S lo) (n - 1) in
    percentile_value ROps l q = List.nth lo s 0 + g * (List.nth hi s 0 - List.nth lo s 0) /\
    List.nth lo s 0 <= percentile_value ROps l q <= List.nth hi s 0.
Proof. exact percentile_value_spec. Qed.
(* in particular: an integer virtual index k gives the k-th smallest coordinate, q = 0 the minimum, q = 100 the maximum *)
Theorem C17_percentile_value_at_rank : forall l,
  (forall q k, (k < length l)%nat -> IZR (Z.of_nat (length l) - 1) * (q / 100) = IZR (Z.of_nat k) ->
     percentile_value ROps l q = List.nth k (isort ROps l) 0) /\
  (l <> [] -> percentile_value ROps l 0 = List.nth 0 (isort ROps l) 0 /\
              percentile_value ROps l 100 = List.nth (length l - 1) (isort ROps l) 0) /\
  (forall x, In x l -> List.nth 0 (isort ROps l) 0 <= x <= List.nth (length l - 1) (isort ROps l) 0).
Proof. exact percentile_value_at_rank. Qed.

(* definitional: pins the shape of the model; the content is carried by the traced ties / correspondence
   (the correspondence calls Polyline(...).bounding_box on empty and non-empty polylines) *)
Theorem C17_bounding_box_is_from_points : forall vs,
  (vs = [] -> bounding_box ROps vs = None) /\ (vs <> [] -> bounding_box ROps vs = Some (from_points ROps vs)).
Proof. exact bounding_box_spec. Qed.

(* non-vacuity *)
Example C17_axis_inhabited : almost_zero ROps (V3 1 0 0) = false.
Proof. exact almost_zero_example. Qed.
Example C17_box_inhabited : nonneg_size (MkBox (V3 1 2 3) (V3 1 (1/2) 0)).
Proof. exact box_example. Qed.

Definition C17_all := (C17_from_points_tight, C17_from_points_contains_all, C17_from_points_empty_rejected,
  C17_bounding_box_is_from_points, C17_negative_size_rejected, C17_accessor_identities, C17_ranges, C17_corners,
  C17_planes_inward_through_faces, C17_plane_signed_distances, C17_contains_iff_six_planes,
  C17_extent_is_max_pair, C17_extent_too_few_rejected, C17_percentile_point_spec_partial,
  C17_percentile_tiny_axis_rejected_refuted, C17_percentile_errors,
  C17_percentile_sort_is_sorted_permutation, C17_percentile_value_spec, C17_percentile_value_at_rank).
Print Assumptions C17_all.
