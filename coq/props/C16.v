(* C16 — Tessellated prisms are closed, outward-facing and of the right size.
   Only statements here; each is closed by `exact <lemma>` from proofs/P_shapes.v.
   The vertex formulas and the two face tables of coq/model/M_shapes.v are pinned to polliwog/shapes/_shapes.py on
   every run by the traced kernels of tools/props/C16.py.
   Reading notes.
   * Volume, area and outwardness are stated over `somes (flatten vertices faces)`, which would skip a face with an index out of
     range; it cannot skip any here: all indices are proved in range (C16_prism_span_counts, C16_tri_prism_counts) and every
     flattened row is proved to be `Some` (C16_flattened_is_take, C16_tri_flattened_is_take).
   * The block marked "definitional" at the end pins the shape of the model only; see the comment there. *)
From Coq Require Import ZArith Reals Lra List Bool.
From PW Require Import Num NumR Vec Result.
From PW.model Require Import M_shapes M_shapes_spec.
From PW.proofs Require Import P_shapes.
Import ListNotations.
Local Open Scope R_scope.

(* ---- closed, consistently oriented: every directed edge once, its reverse once (finite tables) ------------ *)
Theorem C16_rect_closed_two_manifold :
  forall e, In e (directed_edges rect_prism_faces) ->
    count_edge e (directed_edges rect_prism_faces) = 1%nat /\
    count_edge (rev_edge e) (directed_edges rect_prism_faces) = 1%nat.
Proof. exact (closed_oriented_spec _ rect_closed_oriented). Qed.
Theorem C16_tri_closed_two_manifold :
  forall e, In e (directed_edges tri_prism_faces) ->
    count_edge e (directed_edges tri_prism_faces) = 1%nat /\
    count_edge (rev_edge e) (directed_edges tri_prism_faces) = 1%nat.
Proof. exact (closed_oriented_spec _ tri_closed_oriented). Qed.

(* ---- counts, index validity --------------------------------------------------------------------------------- *)
Theorem C16_prism_span_counts : forall origin size,
  length (rect_prism_vertices ROps origin size) = 8%nat /\
  (length rect_prism_faces = 12%nat /\ forallb (face_in_range 8) rect_prism_faces = true /\
   forallb face_proper rect_prism_faces = true /\ all_used 8 rect_prism_faces = true) /\
  (* the vertices are exactly the eight corners origin + (0|sx, 0|sy, 0|sz): the prism spans origin .. origin+size *)
  (forall v, In v (rect_prism_vertices ROps origin size) <-> exists bx by_ bz, v = corner origin size bx by_ bz).
Proof. intros o s. exact (conj eq_refl (conj rect_faces_wellformed (rect_vertices_span o s))). Qed.

Theorem C16_tri_prism_counts : forall p1 p2 p3 h,
  length (tri_prism_vertices ROps p1 p2 p3 h) = 6%nat /\
  length tri_prism_faces = 8%nat /\ forallb (face_in_range 6) tri_prism_faces = true /\
  forallb face_proper tri_prism_faces = true /\ all_used 6 tri_prism_faces = true.
Proof. intros. exact (conj eq_refl tri_faces_wellformed). Qed.

(* ---- enclosed signed volume = analytic volume (orientation: positive means outward) --------------------------- *)
Theorem C16_rect_volume_is_product : forall origin size,
  signed_volume ROps (rect_prism_vertices ROps origin size) rect_prism_faces = vx size * vy size * vz size.
Proof. exact rect_volume. Qed.
Theorem C16_tri_volume_is_base_times_height : forall p1 p2 p3 h, noncollinear p1 p2 p3 ->
  signed_volume ROps (tri_prism_vertices ROps p1 p2 p3 h) tri_prism_faces = base_area p1 p2 p3 * h /\
  0 < base_area p1 p2 p3.
Proof. intros p1 p2 p3 h H. exact (conj (tri_volume p1 p2 p3 h H) (base_area_pos p1 p2 p3 H)). Qed.

(* outward = positive enclosed signed volume, on the property's domain *)
Theorem C16_signed_volume_positive : forall origin size p1 p2 p3 h,
  (0 < vx size -> 0 < vy size -> 0 < vz size ->
   0 < signed_volume ROps (rect_prism_vertices ROps origin size) rect_prism_faces) /\
  (noncollinear p1 p2 p3 -> 0 < h ->
   0 < signed_volume ROps (tri_prism_vertices ROps p1 p2 p3 h) tri_prism_faces).
Proof. intros o s p1 p2 p3 h. exact (conj (rect_volume_pos o s) (tri_volume_pos p1 p2 p3 h)). Qed.

(* every face of the box looks away from its centre *)
Theorem C16_rect_outward : forall origin size, 0 < vx size -> 0 < vy size -> 0 < vz size ->
  Forall (outward_from (vadd ROps origin (vscale ROps (1 / 2) size)))
         (somes (flatten (rect_prism_vertices ROps origin size) rect_prism_faces)).
Proof. exact rect_outward. Qed.

(* ... and so does every face of the triangular prism, for every orientation of the base triangle *)
Theorem C16_tri_outward : forall p1 p2 p3 h, noncollinear p1 p2 p3 -> 0 < h ->
  Forall (outward_from (tri_prism_centre p1 p2 p3 (vscale ROps h (vneg ROps (tri_normal ROps p1 p2 p3)))))
    (somes (flatten (tri_prism_vertices ROps p1 p2 p3 h) tri_prism_faces)).
Proof. exact tri_outward. Qed.

(* cube: the same surface with three equal sizes *)
Theorem C16_cube_volume_area : forall origin s, 0 <= s ->
  exists vs fs, cube ROps origin (PyFloat s) = Ok (vs, fs) /\ fs = rect_prism_faces /\
    signed_volume ROps vs fs = s * s * s /\ surface_area ROps vs fs = 6 * (s * s).
Proof. exact cube_measures. Qed.

(* ---- total area = analytic surface area ----------------------------------------------------------------------- *)
Theorem C16_rect_area_is_analytic : forall origin size, 0 <= vx size -> 0 <= vy size -> 0 <= vz size ->
  surface_area ROps (rect_prism_vertices ROps origin size) rect_prism_faces
  = 2 * (vx size * vy size + vy size * vz size + vx size * vz size).
Proof. exact rect_surface_area. Qed.
Theorem C16_tri_area_is_analytic : forall p1 p2 p3 h, noncollinear p1 p2 p3 -> 0 <= h ->
  surface_area ROps (tri_prism_vertices ROps p1 p2 p3 h) tri_prism_faces
  = 2 * base_area p1 p2 p3 + h * perimeter p1 p2 p3.
Proof. exact tri_surface_area. Qed.

(* ---- the given triangle is one base; the other lies at height h on the side opposite to the ccw normal --------- *)
Theorem C16_tri_prism_base_and_side : forall p1 p2 p3 h, noncollinear p1 p2 p3 ->
  let n := tri_normal ROps p1 p2 p3 in
  (tri_prism_vertices ROps p1 p2 p3 h =
     [p1; p2; p3; vsub ROps p1 (vscale ROps h n); vsub ROps p2 (vscale ROps h n); vsub ROps p3 (vscale ROps h n)] /\
   vdot ROps (vsub ROps (vsub ROps p1 (vscale ROps h n)) p1) n = - h) /\
  (* n is the unit normal on the counter-clockwise side: a positive multiple of (p2-p1)x(p3-p1) *)
  vnorm2 ROps n = 1 /\ vdot ROps (tri_cross ROps p1 p2 p3) n = vnorm ROps (tri_cross ROps p1 p2 p3) /\
  0 < vnorm ROps (tri_cross ROps p1 p2 p3).
Proof.
  intros p1 p2 p3 h H.
  exact (conj (tri_upper_base p1 p2 p3 h H)
        (conj (tri_normal_unit p1 p2 p3 H) (conj (tri_normal_dot p1 p2 p3 H) (P_vec.vnorm_pos _ H)))).
Qed.

(* the given triangle is itself one of the faces (vertices 0,1,2 in the given order); the far base is face (5,4,3) *)
Theorem C16_tri_given_triangle_is_a_face : In (0, 1, 2)%nat tri_prism_faces /\ In (5, 4, 3)%nat tri_prism_faces.
Proof. exact tri_base_faces. Qed.

(* ---- flattened return value = vertices[faces] ------------------------------------------------------------------- *)
(* ================================================================================================================ *)
(* definitional: pins the shape of the model; the content is carried by the traced ties / correspondence             *)
(*   - flattened = vertices[faces]: the flat model is DEFINED as `flatten vertices faces`; what these two theorems add is  *)
(*     only that every index is in range (every row is Some).  That the CODE's flattened output is this list is proved on *)
(*     every run by the traced lemmas T_rect_flat_ok / T_tri_flat_ok, and the oracle checks flat == vertices[faces]        *)
(*     exactly on every sampled case.                                                                                       *)
(*   - flatten_rows is the general `nth_error (map f l)` fact, true of any tables.                                        *)
(*   - non-float rejected: holds by the `match` of the model.  That the CODE raises ValueError exactly for non-floats is  *)
(*     checked (a) at trace time by the concrete kernels cube_rejects_int/_float32, tri_rejects_int/_float32,             *)
(*     cube_accepts_float, tri_accepts_float: the real functions are called on concrete arguments WITHOUT the isinstance  *)
(*     shadowing and the driver compares the observed outcome with expect_structure in Python, fail-closed (their Coq     *)
(*     lemmas only restate the model's outcome; this is a concrete trace-time test, not a proved tie); (b) by the          *)
(*     correspondence on int / np.int64 / np.float32 / bool / str / None / np.float64 arguments; (c) by the oracle.        *)
(* ================================================================================================================ *)
Theorem C16_flatten_rows : forall (vs : list (vec3 R)) fs k,
  nth_error (flatten vs fs) k = option_map (tri_at vs) (nth_error fs k).
Proof. exact flatten_rows. Qed.

Theorem C16_flattened_is_take : forall origin size,
  rectangular_prism_flat ROps origin size = map (tri_at (rect_prism_vertices ROps origin size)) rect_prism_faces /\
  forallb is_some (rectangular_prism_flat ROps origin size) = true.
Proof. exact rect_flat_rows. Qed.
Theorem C16_tri_flattened_is_take : forall p1 p2 p3 h,
  forallb is_some (flatten (tri_prism_vertices ROps p1 p2 p3 h) tri_prism_faces) = true.
Proof. exact tri_flat_rows. Qed.
Theorem C16_nonfloat_rejected : forall origin p1 p2 p3 z,
  cube ROps origin (PyInt z) = Raise ValueError /\ cube ROps origin PyOther = Raise ValueError /\
  triangular_prism ROps p1 p2 p3 (PyInt z) = Raise ValueError /\
  triangular_prism ROps p1 p2 p3 PyOther = Raise ValueError.
Proof. intros. repeat split. Qed.
Theorem C16_float_accepted : forall origin p1 p2 p3 s h, noncollinear p1 p2 p3 ->
  cube ROps origin (PyFloat s) = Ok (rect_prism_vertices ROps origin (V3 s s s), rect_prism_faces) /\
  triangular_prism ROps p1 p2 p3 (PyFloat h) = Ok (tri_prism_vertices ROps p1 p2 p3 h, tri_prism_faces).
Proof. exact float_accepted. Qed.

(* non-vacuity *)
Example C16_noncollinear_inhabited : noncollinear (V3 1 2 3) (V3 0 (-1) 4) (V3 2 1 1).
Proof.
  unfold noncollinear, tri_cross. cbv [vcross vsub vx vy vz nsub nmul ROps]. intros E. injection E as E1 E2 E3. lra.
Qed.

Definition C16_all := (C16_rect_closed_two_manifold, C16_tri_closed_two_manifold, C16_prism_span_counts,
  C16_tri_prism_counts, C16_rect_volume_is_product, C16_tri_volume_is_base_times_height, C16_signed_volume_positive,
  C16_tri_given_triangle_is_a_face, C16_rect_outward, C16_tri_outward, C16_cube_volume_area,
  C16_tri_flattened_is_take, C16_flatten_rows,
  C16_rect_area_is_analytic, C16_tri_area_is_analytic, C16_tri_prism_base_and_side, C16_flattened_is_take,
  C16_nonfloat_rejected, C16_float_accepted).
Print Assumptions C16_all.
