(* C03 — CompositeTransform applies its steps in order and reverse undoes them.
   Only statements here; each is closed by `exact <lemma>` from proofs/P_composite.v (and P_affine.v). *)
From Coq Require Import ZArith Reals List Bool.
From PW Require Import Num NumR Vec Mat NpList Result.
From PW.model Require Import M_rodrigues M_affine M_rotation M_composite M_affine_spec M_composite_spec.
From PW.proofs Require Import P_affine P_rotation P_composite.
Import ListNotations.
Local Open Scope R_scope.

(* ------------------------------------------------------------ composition order (any finite list; every matrix that
   is followed by another one affine, the last one arbitrary) *)
Theorem C03_compose_is_left_to_right : forall ms p, Forall (affine ROps) (removelast ms) ->
  mapply_pt ROps (compose_transforms ROps ms) p = fold_left (fun q m => mapply_pt ROps m q) ms p.
Proof. exact compose_is_left_to_right_butlast. Qed.

(* the pair a step appends: last rows (0,0,0,1) and inverse in both orders.  op_ok = documented argument domain
   (explicit matrices affine and, if an inverse is passed, really inverse; rotation matrices orthogonal) *)
Theorem C03_step_inverse_both_orders : forall o fr, op_ok o -> op_pair ROps o = Ok fr ->
  affine ROps (fst fr) /\ affine ROps (snd fr) /\ inverse_pair (fst fr) (snd fr).
Proof. exact op_pair_ok. Qed.
(* the forward matrix of every accepted step does what the method documents, on points and on vectors *)
Theorem C03_step_acts_as_documented : forall o fr p, op_pair ROps o = Ok fr ->
  apply_point ROps (fst fr) false p = doc_action o p /\ apply_point ROps (fst fr) true p = doc_action_vec o p.
Proof. exact op_pair_acts. Qed.
Theorem C03_zero_scale_rejected : forall x y z allow s,
  (x = 0 \/ y = 0 \/ z = 0 -> op_pair ROps (ONonUniformScale x y z allow) = Raise ValueError) /\
  op_pair ROps (OUniformScale 0 allow) = Raise ValueError /\
  (s <= 0 -> op_pair ROps (OConvertUnits s) = Raise ValueError).
Proof. exact scale_zero_rejected. Qed.
Theorem C03_negative_scale_rejected_unless_flip : forall x y z s,
  (x < 0 \/ y < 0 \/ z < 0 -> op_pair ROps (ONonUniformScale x y z false) = Raise ValueError) /\
  (s < 0 -> op_pair ROps (OUniformScale s false) = Raise ValueError) /\
  (x <> 0 -> y <> 0 -> z <> 0 -> exists fr, op_pair ROps (ONonUniformScale x y z true) = Ok fr) /\
  (s <> 0 -> exists fr, op_pair ROps (OUniformScale s true) = Ok fr).
Proof. exact scale_negative_rejected_unless_flip. Qed.
Theorem C03_flip_dim_range : forall dim,
  ((dim = 0 \/ dim = 1 \/ dim = 2)%Z -> exists fr, op_pair ROps (OFlip dim) = Ok fr) /\
  (~ (dim = 0 \/ dim = 1 \/ dim = 2)%Z -> op_pair ROps (OFlip dim) = Raise ValueError).
Proof. exact flip_dim_range. Qed.

(* ------------------------------------------------------------ invariant over ALL histories *)
Theorem C03_Inv_reachable : forall ops, Forall op_ok ops -> Inv (run_ops ROps ops []).
Proof. exact Inv_reachable. Qed.

(* ------------------------------------------------------------ calling, for every sub-range *)
(* 0 <= a <= b <= len: the range selects steps a .. b-1 *)
Theorem C03_range_selects : forall (st : cstate (F:=R)) a b, (a <= b <= length st)%nat ->
  selected st (Some (Z.of_nat a, Z.of_nat b)) = firstn (b - a) (skipn a st).
Proof. intros st a b H. exact (pyslice_in_range st a b H). Qed.
Theorem C03_call_is_sequential : forall st range w p, Inv st ->
  call_point ROps st range false w p =
  fold_left (fun q fr => apply_point ROps (fst fr) w q) (selected st range) p.
Proof. exact call_is_sequential. Qed.
Theorem C03_call_reverse_is_sequential : forall st range w p, Inv st ->
  call_point ROps st range true w p =
  fold_left (fun q fr => apply_point ROps (snd fr) w q) (rev (selected st range)) p.
Proof. exact call_reverse_is_sequential. Qed.
(* after any history of documented calls: the call equals the documented actions of the accepted calls, in order *)
Theorem C03_call_history : forall ops w p, Forall op_ok ops ->
  call_point ROps (run_ops ROps ops []) None false w p = fold_left (fun q o => step_action o w q) ops p.
Proof. exact call_history. Qed.
(* the same for EVERY sub-range 0 <= a <= b <= number of accepted calls, forward and reverse: the call equals the
   documented actions of the accepted calls number a .. b-1 in order; with reverse=True their inverse actions in reverse
   order (C03_step_inverse_undoes: each inverse action undoes the documented action of its step) *)
Theorem C03_call_history_range : forall ops a b w p, Forall op_ok ops -> (a <= b <= length (accepted_ops ops))%nat ->
  let sel := firstn (b - a) (skipn a (accepted_ops ops)) in
  call_point ROps (run_ops ROps ops []) (Some (Z.of_nat a, Z.of_nat b)) false w p =
    fold_left (fun q o => step_action o w q) sel p /\
  call_point ROps (run_ops ROps ops []) (Some (Z.of_nat a, Z.of_nat b)) true w p =
    fold_left (fun q o => step_inverse_action o w q) (rev sel) p.
Proof. exact call_history_range. Qed.
Theorem C03_step_inverse_undoes : forall o w q, op_ok o -> accepts o = true ->
  step_inverse_action o w (step_action o w q) = q /\ step_action o w (step_inverse_action o w q) = q.
Proof. exact step_inverse_undoes. Qed.
Theorem C03_length_is_accepted_calls : forall ops, length (run_ops ROps ops []) = length (accepted_ops ops).
Proof. exact accepted_length. Qed.
Theorem C03_reverse_undoes : forall st range w p, Inv st ->
  call_point ROps st range true w (call_point ROps st range false w p) = p /\
  call_point ROps st range false w (call_point ROps st range true w p) = p.
Proof. exact reverse_undoes. Qed.
Theorem C03_matrix_reverse_is_inverse : forall st range, Inv st ->
  inverse_pair (transform_matrix_for ROps st range false) (transform_matrix_for ROps st range true).
Proof. exact matrix_reverse_is_inverse. Qed.

(* the matrix clause without any affinity: explicit matrices may be projective, as long as every stored pair is an
   inverse pair (op_ok_inv: an explicitly passed inverse is one, rotation matrices are orthogonal; np.linalg.inv /
   the builders provide the rest) *)
Theorem C03_InvPairs_reachable : forall ops, Forall op_ok_inv ops -> InvPairs (run_ops ROps ops []).
Proof. exact InvPairs_reachable. Qed.
Theorem C03_matrix_reverse_is_inverse_any : forall st range, InvPairs st ->
  inverse_pair (transform_matrix_for ROps st range false) (transform_matrix_for ROps st range true).
Proof. exact matrix_reverse_is_inverse_any. Qed.

(* KNOWN FINDING compose_non_affine (known_findings/C03.json): with a non-affine explicit step the point clauses fail,
   although every stored pair is a true inverse pair.  Witnesses (also run on the implementation):
   append_transform(A, A^-1) with A = I except A[3,0] = 1, then translate (1,0,0), p = (1,0,0): call gives (3,0,0), step
   by step (2,0,0);  append_transform(C, C^-1) with C = [[1,0,0,1],[0,1,0,0],[0,0,1,0],[1,0,0,2]]: reverse(forward(p)) =
   (3,0,0) for p = (1,0,0) *)
Theorem C03_sequential_projective_refuted : exists ops p,
  Forall op_ok_inv ops /\
  call_point ROps (run_ops ROps ops []) None false false p <> fold_left (fun q o => step_action o false q) ops p.
Proof. exact sequential_projective_refuted. Qed.
Theorem C03_reverse_projective_refuted : exists ops p,
  Forall op_ok_inv ops /\
  call_point ROps (run_ops ROps ops []) None true false (call_point ROps (run_ops ROps ops []) None false false p) <> p.
Proof. exact reverse_projective_refuted. Qed.

(* ------------------------------------------------------------ flags *)
Theorem C03_vector_ignores_translation : forall t fr v, op_pair ROps (OTranslate t) = Ok fr ->
  apply_point ROps (fst fr) true v = v /\ apply_point ROps (snd fr) true v = v.
Proof. exact translate_no_effect_on_vectors. Qed.

(* ------------------------------------------------------------ returned indices build ranges *)
Theorem C03_index_selects_step : forall st o st1 i ops, step ROps st o = Ok (st1, i) ->
  exists fr, op_pair ROps o = Ok fr /\
    nth_error (run_ops ROps ops st1) i = Some fr /\
    selected (run_ops ROps ops st1) (Some (Z.of_nat i, Z.of_nat (S i))) = [fr].
Proof. exact index_selects_step. Qed.
Theorem C03_lengths_select_appended : forall st ops1 ops2,
  exists added, run_ops ROps ops1 st = st ++ added /\
    selected (run_ops ROps ops2 (run_ops ROps ops1 st))
             (Some (Z.of_nat (length st), Z.of_nat (length (run_ops ROps ops1 st)))) = added.
Proof. exact lengths_select_appended. Qed.

(* ================================================================================================================
   definitional: pins the shape of the model; the content is carried by the traced ties / correspondence
   ================================================================================================================ *)
(* ------------------------------------------------------------ each appending method *)
(* returns the index of the step it added (= previous length) and appends exactly one pair at the end *)
Theorem C03_append_returns_index : forall st o st' i, step ROps st o = Ok (st', i) ->
  i = length st /\ exists fr, op_pair ROps o = Ok fr /\ st' = st ++ [fr].
Proof. exact step_spec. Qed.
Theorem C03_error_leaves_state : forall st o e, step ROps st o = Raise e -> step_state ROps st o = st.
Proof. exact step_error_leaves_state. Qed.
Theorem C03_single_equals_stack_row : forall st range rev d w ps k,
  nth_error (call_stack ROps st range rev d w ps) k = option_map (call_single ROps st range rev d w) (nth_error ps k).
Proof. exact call_stack_nth. Qed.
Theorem C03_discard_z_only_drops_z : forall st range rev w p,
  call_single ROps st range rev true w p = firstn 2 (call_single ROps st range rev false w p) /\
  call_single ROps st range rev false w p = vlist (call_point ROps st range rev w p).
Proof. exact call_discard_z. Qed.

(* non-vacuity: a history with every kind of step satisfies op_ok *)
Example C03_op_ok_inhabited :
  Forall op_ok [OUniformScale 2 false; OFlip 1; OTranslate (V3 1 2 3);
                ORotate (RotMat (M3 (2/3) (-1/3) (2/3)  (2/3) (2/3) (-1/3)  (-1/3) (2/3) (2/3)));
                ORotate (RotVec (V3 1 0 2)); OReorient (V3 0 2 0) (V3 1 1 1); OConvertUnits (1/100);
                ONonUniformScale 1 2 3 false; OAppend (mtranslation ROps (V3 1 0 0)) None].
Proof.
  repeat (apply Forall_cons || apply Forall_nil); cbn [op_ok]; try exact I.
  - unfold orthogonal3. apply P_mat.M3_inj; P_mat.munf; field.
  - P_mat.munf. repeat split; reflexivity.
Qed.

Example C03_accepts_inhabited : accepts (OTranslate (V3 1 2 3)) = true /\ accepts (OFlip 7) = false.
Proof. split; reflexivity. Qed.

Definition C03_all := (C03_compose_is_left_to_right, C03_append_returns_index, C03_error_leaves_state,
  C03_step_inverse_both_orders, C03_step_acts_as_documented, C03_zero_scale_rejected,
  C03_negative_scale_rejected_unless_flip, C03_flip_dim_range, C03_Inv_reachable, C03_range_selects,
  C03_call_is_sequential, C03_call_reverse_is_sequential, C03_call_history, C03_call_history_range, C03_step_inverse_undoes, C03_length_is_accepted_calls, C03_reverse_undoes,
  C03_matrix_reverse_is_inverse, C03_InvPairs_reachable, C03_matrix_reverse_is_inverse_any,
  C03_sequential_projective_refuted, C03_reverse_projective_refuted, C03_vector_ignores_translation, C03_single_equals_stack_row,
  C03_discard_z_only_drops_z, C03_index_selects_step, C03_lengths_select_appended).
Print Assumptions C03_all.
