(* C11 — Rotation and affine matrix builders act as documented and invert exactly.
   Only statements here; each is closed by `exact <lemma>` from proofs/P_affine.v, P_rotation.v. *)
From Coq Require Import ZArith Reals List Bool.
From PW Require Import Num NumR Vec Mat NpList Result.
From PW.model Require Import M_rodrigues M_affine M_rotation M_affine_spec.
From PW.proofs Require Import P_affine P_rotation.
Import ListNotations.
Local Open Scope R_scope.

(* ------------------------------------------------------------------ euler *)
(* euler = product of the listed axis rotations, each new one multiplied from the left ... *)
Theorem C11_euler_is_ordered_product : forall angles order,
  euler_rad ROps angles order =
  fold_left (fun r ta => m3mul ROps (axis_rotation ROps (snd ta) (fst ta)) r) (zip angles order) (I3 ROps).
Proof. exact euler_rad_ordered_product. Qed.
(* ... so applying it to a vector applies the listed rotations in the given order (any length, any axis order) *)
Theorem C11_euler_applies_in_order : forall angles order v,
  m3apply ROps (euler_rad ROps angles order) v =
  fold_left (fun w ta => m3apply ROps (axis_rotation ROps (snd ta) (fst ta)) w) (zip angles order) v.
Proof. exact euler_rad_sequential. Qed.
(* each listed rotation is the counter-clockwise rotation about its axis *)
Theorem C11_axis_rotation_acts : forall t x y z,
  m3apply ROps (axis_rotation ROps AX t) (V3 x y z) = V3 x (cos t * y - sin t * z) (sin t * y + cos t * z) /\
  m3apply ROps (axis_rotation ROps AY t) (V3 x y z) = V3 (cos t * x + sin t * z) y (- sin t * x + cos t * z) /\
  m3apply ROps (axis_rotation ROps AZ t) (V3 x y z) = V3 (cos t * x - sin t * y) (sin t * x + cos t * y) z /\
  m3apply ROps (axis_rotation ROps AOther t) (V3 x y z) = V3 x y z.
Proof. exact axis_rotation_acts. Qed.
(* proper rotation: R R^T = I and det R = 1, for all angle lists, all orders, both units *)
Theorem C11_euler_proper : forall deg angles order, proper3 (euler ROps deg angles order).
Proof. exact euler_proper. Qed.
Theorem C11_euler_deg_rad_agree : forall angles order,
  euler ROps true angles order = euler ROps false (map (fun a => a * PI / 180) angles) order.
Proof. exact euler_deg_rad_agree. Qed.


(* ------------------------------------------------------------------ rotation_from_up_and_look *)
(* for non-zero, non-collinear up and look at any magnitude: a proper rotation taking up to +y (times |up|)
   and look to (0, b, c) with c > 0 *)
Theorem C11_up_look_spec : forall up look,
  up <> V3 0 0 0 -> look <> V3 0 0 0 -> ~ collinear up look ->
  exists r b c, rotation_from_up_and_look ROps up look = Ok r /\ proper3 r /\
    m3apply ROps r up = V3 0 (vnorm ROps up) 0 /\
    m3apply ROps r look = V3 0 b c /\ 0 < c.
Proof. exact up_look_spec. Qed.
(* "at any magnitude": only the directions matter, positive rescaling of either vector changes nothing *)
Theorem C11_up_look_scale_invariant : forall s t up look, 0 < s -> 0 < t ->
  rotation_from_up_and_look ROps (vscale ROps s up) (vscale ROps t look) = rotation_from_up_and_look ROps up look.
Proof. exact up_look_scale_invariant. Qed.
Theorem C11_up_look_rejects_zero : forall v,
  rotation_from_up_and_look ROps (V3 0 0 0) v = Raise ValueError /\
  rotation_from_up_and_look ROps v (V3 0 0 0) = Raise ValueError.
Proof. intros v. exact (conj (up_look_rejects_zero_up v) (up_look_rejects_zero_look v)). Qed.

(* ------------------------------------------------------------------ transform_matrix_for_rotation *)
Theorem C11_rotation_last_row : forall a,
  last_row_0001 (fst (tm_rotation ROps a)) /\ last_row_0001 (snd (tm_rotation ROps a)).
Proof. exact tm_rotation_last_row. Qed.
(* rotates about the origin: the point is multiplied by the 3x3 matrix, nothing is added *)
Theorem C11_rotation_acts : forall a p,
  mapply_pt ROps (fst (tm_rotation ROps a)) p = m3apply ROps (rotation3 ROps a) p.
Proof. exact tm_rotation_acts. Qed.
Theorem C11_rotation_matrix_used_as_given : forall m, mupper3 (fst (tm_rotation ROps (RotMat m))) = m.
Proof. exact tm_rotation_matrix_block. Qed.
Theorem C11_rotation_inverse_both_orders : forall a, orthogonal3 (rotation3 ROps a) ->
  inverse_pair (fst (tm_rotation ROps a)) (snd (tm_rotation ROps a)).
Proof. exact tm_rotation_inverse. Qed.
(* a Rodrigues vector always yields an orthogonal matrix, so no hypothesis is needed for that form *)
Theorem C11_rotation_rodrigues_inverse_both_orders : forall r,
  inverse_pair (fst (tm_rotation ROps (RotVec r))) (snd (tm_rotation ROps (RotVec r))).
Proof. intros r. exact (tm_rotation_inverse (RotVec r) (rodrigues_fwd_orthogonal r)). Qed.

(* ------------------------------------------------------------------ transform_matrix_for_translation *)
Theorem C11_translation_last_row : forall t,
  last_row_0001 (fst (tm_translation ROps t)) /\ last_row_0001 (snd (tm_translation ROps t)).
Proof. exact tm_translation_last_row. Qed.
Theorem C11_translation_acts : forall t p, mapply_pt ROps (fst (tm_translation ROps t)) p = vadd ROps p t.
Proof. exact tm_translation_acts. Qed.
Theorem C11_translation_inverse_both_orders : forall t,
  inverse_pair (fst (tm_translation ROps t)) (snd (tm_translation ROps t)).
Proof. exact tm_translation_inverse. Qed.

(* ------------------------------------------------------------------ scale builders *)
(* accepted exactly when all factors are non-zero and (allow_flipping or all positive); otherwise ValueError *)
Theorem C11_non_uniform_scale_outcome : forall x y z allow,
  (scale_accepted x y z allow /\
   tm_non_uniform_scale ROps x y z allow = Ok (scale_fwd x y z, scale_fwd (1 / x) (1 / y) (1 / z))) \/
  (~ scale_accepted x y z allow /\ tm_non_uniform_scale ROps x y z allow = Raise ValueError).
Proof. exact tm_nus_outcome. Qed.
Theorem C11_scale_rejects_zero : forall x y z allow, x = 0 \/ y = 0 \/ z = 0 ->
  tm_non_uniform_scale ROps x y z allow = Raise ValueError.
Proof. exact tm_nus_rejects_zero. Qed.
Theorem C11_scale_rejects_negative : forall x y z, x < 0 \/ y < 0 \/ z < 0 ->
  tm_non_uniform_scale ROps x y z false = Raise ValueError.
Proof. exact tm_nus_rejects_negative. Qed.
Theorem C11_uniform_scale_is_non_uniform : forall s allow,
  tm_uniform_scale ROps s allow = tm_non_uniform_scale ROps s s s allow.
Proof. exact tm_us_unfold. Qed.
Theorem C11_scale_last_row : forall x y z, last_row_0001 (scale_fwd x y z).
Proof. exact scale_fwd_last_row. Qed.
Theorem C11_scale_acts : forall x y z p, mapply_pt ROps (scale_fwd x y z) p = vmul ROps (V3 x y z) p.
Proof. exact scale_fwd_acts. Qed.
Theorem C11_scale_inverse_both_orders : forall x y z, x <> 0 -> y <> 0 -> z <> 0 ->
  inverse_pair (scale_fwd x y z) (scale_fwd (1 / x) (1 / y) (1 / z)).
Proof. exact scale_inverse. Qed.

Theorem C11_apply_vector_ignores_translation : forall m p,
  apply_point ROps m true p = m3apply ROps (mupper3 m) p.
Proof. exact apply_vector_is_block. Qed.

(* ------------------------------------------------------------------ compose_transforms *)
(* PARTIAL: the property quantifies over all 4x4 matrices; the sequential reading needs every matrix that is followed
   by another one to have last row (0,0,0,1) (the last may be anything).  Without that it is false of the code, see
   C11_compose_projective_refuted and known_findings/C11.json (compose_non_affine). *)
Theorem C11_compose_left_to_right_partial : forall ms p, Forall (affine ROps) (removelast ms) ->
  mapply_pt ROps (compose_transforms ROps ms) p = fold_left (fun q m => mapply_pt ROps m q) ms p.
Proof. exact compose_left_to_right_butlast. Qed.
Theorem C11_compose_left_to_right_vec_partial : forall ms p, Forall (affine ROps) (removelast ms) ->
  mapply_vec ROps (compose_transforms ROps ms) p = fold_left (fun q m => mapply_vec ROps m q) ms p.
Proof. exact compose_left_to_right_vec_butlast. Qed.
(* witness (run on the implementation too): A = identity with A[3,0] = 1, B = translation by (1,0,0), p = (1,0,0):
   apply(compose(A,B))(p) = (3,0,0) but apply(B)(apply(A)(p)) = (2,0,0): apply_transform drops w without dividing *)
Theorem C11_compose_projective_refuted : exists a b p,
  mapply_pt ROps (compose_transforms ROps [a; b]) p <> mapply_pt ROps b (mapply_pt ROps a p).
Proof. exact compose_projective_refuted. Qed.
Theorem C11_compose_app : forall a b,
  compose_transforms ROps (a ++ b) = mmul ROps (compose_transforms ROps b) (compose_transforms ROps a).
Proof. exact compose_app. Qed.

(* ================================================================================================================
   definitional: pins the shape of the model; the content is carried by the traced ties / correspondence
   ================================================================================================================ *)
(* the model of apply_transform on a point is Mat.mapply_pt, on a vector Mat.mapply_vec: the `acts` theorems above,
   stated with mapply_pt, are statements about apply_transform(M)(p) *)
Theorem C11_apply_point_is_mapply : forall m p,
  apply_point ROps m false p = mapply_pt ROps m p /\ apply_point ROps m true p = mapply_vec ROps m p.
Proof. intros m p. exact (conj (apply_point_pt m p) (apply_point_vec m p)). Qed.
(* the code converts degrees with the binary64 constant pi64 = 884279719003555/281474976710656 (tie lemma
   T_euler_deg_ok: euler(deg) = euler_rad on a * pi64 / 180); with any constant k in place of PI the angle is off by
   exactly |a| |k - PI| / 180.  The numeric bound |pi64 - PI| < 1.3e-16 is NOT proved here (coq-interval proves it in
   10 s but rests on primitive-integer assumptions this development does not accept); covered by the correspondence check. *)
Theorem C11_euler_deg_pi_constant_gap : forall a k,
  Rabs (a * k / 180 - a * PI / 180) = Rabs a * Rabs (k - PI) / 180.
Proof. exact deg_angle_gap. Qed.
(* ------------------------------------------------------------------ apply_transform *)
(* w = 1 for points, w = 0 for vectors; rows 0..2 of M (x, y, z, w)^T *)
Theorem C11_apply_w1_w0 : forall m w x y z,
  apply_point ROps m w (V3 x y z) =
  let h := if w then 0 else 1 in
  V3 (m00 m * x + m01 m * y + m02 m * z + m03 m * h)
     (m10 m * x + m11 m * y + m12 m * z + m13 m * h)
     (m20 m * x + m21 m * y + m22 m * z + m23 m * h).
Proof. exact apply_point_formula. Qed.
Theorem C11_apply_stack_is_rowwise : forall m d w ps k,
  nth_error (apply_stack ROps m d w ps) k = option_map (apply_single ROps m d w) (nth_error ps k).
Proof. exact apply_stack_nth. Qed.
Theorem C11_apply_discard_z_only_drops_z : forall m w p,
  apply_single ROps m true w p = firstn 2 (apply_single ROps m false w p) /\
  apply_single ROps m false w p = vlist (apply_point ROps m w p).
Proof. exact apply_discard_z. Qed.
(* as matrices, without any hypothesis: compose(A, B) = B . A, compose(ms1 ++ ms2) = compose(ms2) . compose(ms1) *)
Theorem C11_compose_two : forall a b, compose_transforms ROps [a; b] = mmul ROps b a.
Proof. exact compose_two. Qed.
Theorem C11_compose_nil_identity : compose_transforms ROps [] = I4 ROps.
Proof. exact compose_nil. Qed.

(* non-vacuity: a non-axis orthogonal matrix; a non-collinear up/look pair *)
Example C11_orthogonal_inhabited :
  orthogonal3 (M3 (2/3) (-1/3) (2/3)  (2/3) (2/3) (-1/3)  (-1/3) (2/3) (2/3)).
Proof. unfold orthogonal3. apply P_mat.M3_inj; P_mat.munf; field. Qed.
Example C11_up_look_inhabited : ~ collinear (V3 0 2 0) (V3 1 1 1).
Proof. unfold collinear. P_vec.vunf. intros H. injection H as H1 H2 H3. Lra.lra. Qed.

Example C11_compose_partial_inhabited :
  Forall (affine ROps) (removelast [mtranslation ROps (V3 1 2 3); proj_witness_a]).
Proof. repeat constructor; reflexivity. Qed.

Definition C11_all := (C11_euler_is_ordered_product, C11_euler_applies_in_order, C11_axis_rotation_acts,
  C11_euler_proper, C11_euler_deg_rad_agree, C11_euler_deg_pi_constant_gap, C11_up_look_spec, C11_up_look_scale_invariant, C11_up_look_rejects_zero,
  C11_rotation_last_row, C11_rotation_acts, C11_rotation_matrix_used_as_given, C11_rotation_inverse_both_orders,
  C11_rotation_rodrigues_inverse_both_orders,
  C11_translation_last_row, C11_translation_acts, C11_translation_inverse_both_orders,
  C11_non_uniform_scale_outcome, C11_scale_rejects_zero, C11_scale_rejects_negative, C11_uniform_scale_is_non_uniform,
  C11_scale_last_row, C11_scale_acts, C11_scale_inverse_both_orders,
  C11_apply_w1_w0, C11_apply_vector_ignores_translation, C11_apply_stack_is_rowwise, C11_apply_discard_z_only_drops_z,
  C11_compose_left_to_right_partial, C11_compose_left_to_right_vec_partial, C11_compose_projective_refuted, C11_apply_point_is_mapply, C11_compose_two, C11_compose_app, C11_compose_nil_identity).
Print Assumptions C11_all.
