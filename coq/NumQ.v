(* The executable instance: exact rationals, with 30+ digit approximations of sqrt / cos / sin / acos.
   Used only to RUN the models (vm_compute) for the correspondence check; no theorem is stated on it. *)
From Coq Require Import ZArith QArith Qround Qabs List Bool.
From PW Require Import Num.
Local Open Scope Q_scope.

Definition Qltb (a b : Q) : bool := negb (Qle_bool b a).
Definition Qleb (a b : Q) : bool := Qle_bool a b.
Definition Qeqb (a b : Q) : bool := Qeq_bool a b.

Definition Qadd' a b := Qred (a + b).
Definition Qsub' a b := Qred (a - b).
Definition Qmul' a b := Qred (a * b).
(* division by zero never reaches a compared result: models branch before dividing *)
Definition Qdiv' a b := Qred (a / b).

(* sqrt(n/d) = sqrt(n*d)/d ; scaled by S = 10^30 : relative error < 1e-30 *)
Definition sqrt_scale : Z := 10 ^ 30.
Definition Qsqrt (x : Q) : Q :=
  match Qnum x with
  | Zpos n =>
      let d := Zpos (Qden x) in
      Qred (Z.sqrt (Zpos n * d * sqrt_scale * sqrt_scale) # Z.to_pos (d * sqrt_scale))
  | _ => 0
  end.

(* Fixed-point trigonometry: integers scaled by 2^B, B = 160. *)
Definition fpB : Z := 160.
Definition fp1 : Z := 2 ^ fpB.
Definition to_fp (x : Q) : Z := (Qnum x * fp1 / Zpos (Qden x))%Z.
Definition of_fp (z : Z) : Q := Qred (z # Z.to_pos fp1).
Definition fp_pi : Z := to_fp (3141592653589793238462643383279502884197169399375105820974944 # (10 ^ 60)).
Definition Qpi : Q := of_fp fp_pi.

(* sum_k (-1)^k y^(2k+s)/(2k+s)! by the term recurrence, all in fixed point *)
Fixpoint trig_series (fuel : nat) (k term acc y2 : Z) : Z :=
  match fuel with
  | O => acc
  | S f =>
      let term' := (- (term * y2 / fp1) / ((k + 1) * (k + 2)))%Z in
      trig_series f (k + 2)%Z term' (acc + term')%Z y2
  end.

(* reduce to [-pi, pi] *)
Definition fp_reduce (x : Z) : Z :=
  let twopi := (2 * fp_pi)%Z in
  let k := ((x + fp_pi) / twopi)%Z in
  (x - k * twopi)%Z.

Definition fp_cos (x : Z) : Z :=
  let y := fp_reduce x in trig_series 32 0 fp1 fp1 (y * y / fp1)%Z.
Definition fp_sin (x : Z) : Z :=
  let y := fp_reduce x in trig_series 32 1 y y (y * y / fp1)%Z.

Definition Qcos (x : Q) : Q := of_fp (fp_cos (to_fp x)).
Definition Qsin (x : Q) : Q := of_fp (fp_sin (to_fp x)).

(* acos by bisection on [0, pi] (cos is decreasing there); clamps outside [-1,1] *)
Fixpoint acos_bisect (fuel : nat) (lo hi c : Z) : Z :=
  match fuel with
  | O => ((lo + hi) / 2)%Z
  | S f =>
      let mid := ((lo + hi) / 2)%Z in
      if (fp_cos mid <=? c)%Z then acos_bisect f lo mid c else acos_bisect f mid hi c
  end.
Definition Qacos (c : Q) : Q :=
  if Qle_bool 1 c then 0 else if Qle_bool c (-1) then Qpi
  else of_fp (acos_bisect 100 0 fp_pi (to_fp c)).

Definition QOps : NumOps Q := {|
  nofZ := inject_Z; nadd := Qadd'; nsub := Qsub'; nmul := Qmul'; ndiv := Qdiv';
  nneg := Qopp; nabs := Qabs; nsqrt := Qsqrt;
  nltb := Qltb; nleb := Qleb; neqb := Qeqb;
  nfloor := Qfloor; nceil := Qceiling;
  ncos := Qcos; nsin := Qsin; nacos := Qacos |}.
