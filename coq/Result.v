(* Outcome of a modelled call: a value or the Python exception class the code raises. *)
Inductive exn := ValueError | IndexError | KeyError | AttributeError | NotImplementedError
  | TypeError | AssertionError | LinAlgError | ZeroDivisionError | OtherError.
Inductive result (A : Type) := Ok (a : A) | Raise (e : exn).
Arguments Ok {A} _.
Arguments Raise {A} _.

Definition exn_eqb (a b : exn) : bool :=
  match a, b with
  | ValueError, ValueError | IndexError, IndexError | KeyError, KeyError
  | AttributeError, AttributeError | NotImplementedError, NotImplementedError
  | TypeError, TypeError | AssertionError, AssertionError | LinAlgError, LinAlgError
  | ZeroDivisionError, ZeroDivisionError | OtherError, OtherError => true
  | _, _ => false
  end.

Definition rbind {A B} (r : result A) (f : A -> result B) : result B :=
  match r with Ok a => f a | Raise e => Raise e end.
Definition rmap {A B} (f : A -> B) (r : result A) : result B :=
  match r with Ok a => Ok (f a) | Raise e => Raise e end.
