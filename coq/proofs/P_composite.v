(* Real-number lemmas for M_composite.v (C03, reused by C04): invariants over all histories. *)
From Coq Require Import ZArith Reals Lra Psatz List Bool Lia.
From PW Require Import Num NumR Vec Mat NpList Result.
From PW.model Require Import M_rodrigues M_affine M_rotation M_composite.
From PW.model Require Export M_affine_spec M_composite_spec.
From PW.proofs Require Import P_vec P_mat P_nplist P_affine P_rotation.
Import ListNotations.
Local Open Scope R_scope.


(* what the documentation demands of the arguments: explicit matrices have last row (0,0,0,1) and, when an inverse
   is passed, it is the inverse; rotation matrices are orthogonal.  Nothing is demanded of the other methods. *)

Lemma inverse_affine f r : affine ROps f -> mmul ROps f r = I4 ROps -> affine ROps r.
Proof.
  dm f; dm r. intros Ha H. munf_in Ha. destruct Ha as (A0 & A1 & A2 & A3). subst.
  munf_in H. injection H as H1 H2 H3 H4 H5 H6 H7 H8 H9 H10 H11 H12 H13 H14 H15 H16.
  munf. repeat split; lra.
Qed.
Lemma pair_ok_intro f r : affine ROps f -> inverse_pair f r -> pair_ok (f, r).
Proof. intros Ha Hi. split; [exact Ha|]. split; [|exact Hi]. apply (inverse_affine f r Ha), Hi. Qed.

Lemma nus_pair_ok x y z allow fr : tm_non_uniform_scale ROps x y z allow = Ok fr -> pair_ok fr.
Proof.
  destruct (tm_nus_outcome x y z allow) as [(A & E) | (_ & E)]; rewrite E; [|discriminate].
  intros H. injection H as <-. destruct A as (Hx & Hy & Hz & _).
  apply pair_ok_intro; [apply last_row_affine, scale_fwd_last_row | apply scale_inverse; assumption].
Qed.
Lemma rotation_pair_ok a : orthogonal3 (rotation3 ROps a) -> pair_ok (tm_rotation ROps a).
Proof.
  intros H. pose proof (tm_rotation_inverse a H) as Hi. pose proof (tm_rotation_last_row a) as [Hl _].
  destruct (tm_rotation ROps a) as [f r]. apply pair_ok_intro; [apply last_row_affine, Hl | exact Hi].
Qed.

Lemma op_pair_ok o fr : op_ok o -> op_pair ROps o = Ok fr -> pair_ok fr.
Proof.
  destruct o as [f [r|] | s allow | x y z allow | s | dim | t | a | up look]; cbn [op_ok op_pair].
  - intros (Ha & Hi) H. injection H as <-. apply pair_ok_intro; assumption.
  - intros Ha. unfold n0; rops. destruct (Reqb_spec (mdet ROps f) 0) as [E|E]; [discriminate|].
    intros H. injection H as <-. apply pair_ok_intro; [exact Ha|]. split; [apply minv_l | apply minv_r]; exact E.
  - intros _. rewrite tm_us_unfold. apply nus_pair_ok.
  - intros _. apply nus_pair_ok.
  - intros _. rewrite tm_us_unfold. apply nus_pair_ok.
  - intros _. destruct (dim =? 0)%Z; [apply nus_pair_ok|]. destruct (dim =? 1)%Z; [apply nus_pair_ok|].
    destruct (dim =? 2)%Z; [apply nus_pair_ok | discriminate].
  - intros _ H. injection H as <-.
    pose proof (tm_translation_last_row t) as [Hl _]. pose proof (tm_translation_inverse t) as Hi.
    destruct (tm_translation ROps t) as [f r]. apply pair_ok_intro; [apply last_row_affine, Hl | exact Hi].
  - intros Ho H. injection H as <-. apply rotation_pair_ok. destruct a as [m|r]; [exact Ho | apply rodrigues_fwd_orthogonal].
  - intros _. destruct (rotation_from_up_and_look ROps up look) as [r|e] eqn:E; cbn [rbind]; [|discriminate].
    intros H. injection H as <-. apply rotation_pair_ok. cbn [rotation3]. apply (up_look_ok_proper up look r E).
Qed.

(* ---------------- steps: returned index, appended pair, unchanged on error ---------------- *)
Lemma step_spec st o st' i : step ROps st o = Ok (st', i) ->
  i = length st /\ exists fr, op_pair ROps o = Ok fr /\ st' = st ++ [fr].
Proof.
  unfold step. destruct (op_pair ROps o) as [fr|e]; cbn [rmap]; [|discriminate].
  intros H. injection H as <- <-. split; [reflexivity|]. exists fr. split; reflexivity.
Qed.
Lemma step_state_cases st o :
  (exists fr, op_pair ROps o = Ok fr /\ step_state ROps st o = st ++ [fr]) \/
  (exists e, op_pair ROps o = Raise e /\ step_state ROps st o = st).
Proof.
  unfold step_state, step. destruct (op_pair ROps o) as [fr|e]; cbn [rmap]; [left; exists fr | right; exists e]; split; reflexivity.
Qed.
Lemma step_state_Inv st o : op_ok o -> Inv st -> Inv (step_state ROps st o).
Proof.
  intros Ho Hst. destruct (step_state_cases st o) as [(fr & E & ->) | (e & _ & ->)]; [|exact Hst].
  apply Forall_app. split; [exact Hst|]. constructor; [|constructor]. apply (op_pair_ok o fr Ho E).
Qed.
Lemma run_ops_Inv ops : forall st, Forall op_ok ops -> Inv st -> Inv (run_ops ROps ops st).
Proof.
  induction ops as [|o ops IH]; intros st Ho Hst; cbn [run_ops fold_left]; [exact Hst|].
  inversion Ho; subst. apply IH; [assumption|]. apply step_state_Inv; assumption.
Qed.
Lemma Inv_reachable ops : Forall op_ok ops -> Inv (run_ops ROps ops []).
Proof. intros H. apply run_ops_Inv; [exact H | constructor]. Qed.

(* the state only ever grows at the end: earlier steps keep their index *)
Lemma step_state_prefix st o : exists added, step_state ROps st o = st ++ added.
Proof.
  destruct (step_state_cases st o) as [(fr & _ & ->) | (e & _ & ->)]; [exists [fr]; reflexivity | exists []; symmetry; apply app_nil_r].
Qed.
Lemma run_ops_prefix ops : forall st, exists added, run_ops ROps ops st = st ++ added.
Proof.
  induction ops as [|o ops IH]; intros st; cbn [run_ops fold_left]; [exists []; symmetry; apply app_nil_r|].
  destruct (step_state_prefix st o) as (a1 & ->). destruct (IH (st ++ a1)) as (a2 & E). unfold run_ops in E. rewrite E.
  exists (a1 ++ a2). symmetry; apply app_assoc.
Qed.

(* ---------------- Python slices ---------------- *)
Lemma clampidx_in_range n (i : nat) : (i <= n)%nat -> clampidx n (Z.of_nat i) = i.
Proof.
  intros H. unfold clampidx. destruct (Z.ltb_spec (Z.of_nat i) 0); [lia|]. rewrite Nat2Z.id. lia.
Qed.
Lemma pyslice_in_range {A} (l : list A) (a b : nat) : (a <= b <= length l)%nat ->
  pyslice (Z.of_nat a) (Z.of_nat b) l = firstn (b - a) (skipn a l).
Proof. intros H. unfold pyslice. rewrite !clampidx_in_range by lia. reflexivity. Qed.
(* a range built from the old length and the new length selects exactly what was appended in between *)
Lemma pyslice_appended {A} (l added rest : list A) :
  pyslice (Z.of_nat (length l)) (Z.of_nat (length l + length added)) (l ++ added ++ rest) = added.
Proof.
  rewrite pyslice_in_range by (rewrite !app_length; lia).
  rewrite skipn_app, skipn_all, Nat.sub_diag. cbn [skipn app].
  replace (length l + length added - length l)%nat with (length added + 0)%nat by lia.
  rewrite firstn_app_2. cbn [firstn]. apply app_nil_r.
Qed.
Lemma pyslice_whole {A} (l : list A) : pyslice 0 (Z.of_nat (length l)) l = l.
Proof.
  change 0%Z with (Z.of_nat 0). rewrite pyslice_in_range by lia. cbn [skipn]. rewrite Nat.sub_0_r. apply firstn_all.
Qed.

Lemma Forall_firstn {A} (P : A -> Prop) n l : Forall P l -> Forall P (firstn n l).
Proof. revert l. induction n; intros l H; cbn [firstn]; [constructor|]. destruct l; [constructor|]. inversion H; subst. constructor; auto. Qed.
Lemma Forall_skipn {A} (P : A -> Prop) n l : Forall P l -> Forall P (skipn n l).
Proof. revert l. induction n; intros l H; cbn [skipn]; [exact H|]. destruct l; [constructor|]. inversion H; subst. auto. Qed.
Lemma selected_Inv st range : Inv st -> Inv (selected st range).
Proof.
  intros H. destruct range as [[a b]|]; cbn [selected]; [|exact H]. unfold pyslice. apply Forall_firstn, Forall_skipn, H.
Qed.

(* ---------------- the selected matrices, as products ---------------- *)
Lemma Inv_affine_fst sel : Inv sel -> Forall (affine ROps) (map fst sel).
Proof. induction 1 as [|x l (A & _ & _) _ IH]; cbn [map]; constructor; assumption. Qed.
Lemma Inv_affine_snd_rev sel : Inv sel -> Forall (affine ROps) (map snd (rev sel)).
Proof.
  intros H. apply Forall_forall. intros m Hm. apply in_map_iff in Hm. destruct Hm as (x & <- & Hx).
  apply in_rev in Hx. unfold Inv in H. rewrite Forall_forall in H. apply H in Hx. apply Hx.
Qed.
Lemma cprod_one m : cprod [m] = m.
Proof. cbn [cprod]. apply mmul_I4_l. Qed.
(* forward product and reversed inverse product undo each other, in both orders *)
Lemma sel_inverse sel : Inv sel ->
  inverse_pair (cprod (map fst sel)) (cprod (map snd (rev sel))).
Proof.
  induction 1 as [|[f r] l (_ & _ & Hrf & Hfr) _ [IH1 IH2]]; cbn [map rev cprod fst snd] in *.
  - split; apply mmul_I4_l.
  - rewrite map_app, cprod_app. cbn [map]. rewrite cprod_one. cbn [fst snd]. split.
    + rewrite mmul_assoc, <- (mmul_assoc (cprod (map snd (rev l)))), IH1, mmul_I4_l. exact Hrf.
    + rewrite mmul_assoc, <- (mmul_assoc f), Hfr, mmul_I4_l. exact IH2.
Qed.

Lemma fold_left_map {A B C} (f : A -> B -> A) (g : C -> B) l : forall a,
  fold_left f (map g l) a = fold_left (fun a x => f a (g x)) l a.
Proof. induction l; intros a0; cbn; [reflexivity | apply IHl]. Qed.

Lemma apply_point_cprod ms w p : Forall (affine ROps) ms ->
  apply_point ROps (cprod ms) w p = fold_left (fun q m => apply_point ROps m w q) ms p.
Proof.
  intros H. destruct w.
  - rewrite apply_point_vec, cprod_left_to_right_vec by exact H. reflexivity.
  - rewrite apply_point_pt, cprod_left_to_right by exact H. reflexivity.
Qed.
Lemma apply_point_mmul a b w p : affine ROps b ->
  apply_point ROps (mmul ROps a b) w p = apply_point ROps a w (apply_point ROps b w p).
Proof.
  intros Hb. destruct w.
  - rewrite !apply_point_vec. destruct Hb as (H0 & H1 & H2 & _). apply mapply_vec_mmul; assumption.
  - rewrite !apply_point_pt. apply mapply_pt_mmul, Hb.
Qed.
Lemma apply_point_I4 w p : apply_point ROps (I4 ROps) w p = p.
Proof. destruct w; [apply mapply_vec_I4 | apply mapply_pt_I4]. Qed.

(* ---------------- calling ---------------- *)
Lemma tmf_forward st range :
  transform_matrix_for ROps st range false = cprod (map fst (selected st range)).
Proof. unfold transform_matrix_for, selected_matrices. apply compose_cprod. Qed.
Lemma tmf_reverse st range :
  transform_matrix_for ROps st range true = cprod (map snd (rev (selected st range))).
Proof. unfold transform_matrix_for, selected_matrices. apply compose_cprod. Qed.

(* forward call = the selected steps' forward matrices applied one after another, first appended first *)
Lemma call_is_sequential st range w p : Inv st ->
  call_point ROps st range false w p =
  fold_left (fun q fr => apply_point ROps (fst fr) w q) (selected st range) p.
Proof.
  intros H. unfold call_point. rewrite tmf_forward.
  rewrite apply_point_cprod by (apply Inv_affine_fst, selected_Inv, H). apply fold_left_map.
Qed.
(* reverse call = the selected steps' inverse matrices, last appended first *)
Lemma call_reverse_is_sequential st range w p : Inv st ->
  call_point ROps st range true w p =
  fold_left (fun q fr => apply_point ROps (snd fr) w q) (rev (selected st range)) p.
Proof.
  intros H. unfold call_point. rewrite tmf_reverse.
  rewrite apply_point_cprod by (apply Inv_affine_snd_rev, selected_Inv, H). apply fold_left_map.
Qed.
Lemma matrix_reverse_is_inverse st range : Inv st ->
  inverse_pair (transform_matrix_for ROps st range false) (transform_matrix_for ROps st range true).
Proof. intros H. rewrite tmf_forward, tmf_reverse. apply sel_inverse, selected_Inv, H. Qed.
Lemma tmf_affine st range rev : Inv st -> affine ROps (transform_matrix_for ROps st range rev).
Proof.
  intros H. destruct rev; [rewrite tmf_reverse | rewrite tmf_forward]; apply cprod_affine.
  - apply Inv_affine_snd_rev, selected_Inv, H.
  - apply Inv_affine_fst, selected_Inv, H.
Qed.
Lemma reverse_undoes st range w p : Inv st ->
  call_point ROps st range true w (call_point ROps st range false w p) = p /\
  call_point ROps st range false w (call_point ROps st range true w p) = p.
Proof.
  intros H. destruct (matrix_reverse_is_inverse st range H) as [H1 H2]. unfold call_point. split.
  - rewrite <- apply_point_mmul by (apply tmf_affine, H). rewrite H1. apply apply_point_I4.
  - rewrite <- apply_point_mmul by (apply tmf_affine, H). rewrite H2. apply apply_point_I4.
Qed.


Lemma nus_acts x y z allow fr p : tm_non_uniform_scale ROps x y z allow = Ok fr ->
  mapply_pt ROps (fst fr) p = vmul ROps (V3 x y z) p /\ mapply_vec ROps (fst fr) p = vmul ROps (V3 x y z) p.
Proof.
  destruct (tm_nus_outcome x y z allow) as [(_ & E) | (_ & E)]; rewrite E; [|discriminate].
  intros H. injection H as <-. cbn [fst]. split; [apply scale_fwd_acts | apply scale_fwd_acts_vec].
Qed.
Lemma vmul_sss s p : vmul ROps (V3 s s s) p = vscale ROps s p.
Proof. dv p. vec_eq; ring. Qed.

Lemma op_pair_acts o fr p : op_pair ROps o = Ok fr ->
  apply_point ROps (fst fr) false p = doc_action o p /\ apply_point ROps (fst fr) true p = doc_action_vec o p.
Proof.
  rewrite apply_point_pt, apply_point_vec.
  destruct o as [f [r|] | s allow | x y z allow | s | dim | t | a | up look]; cbn [op_pair doc_action doc_action_vec].
  - intros H. injection H as <-. cbn [fst]. split; [reflexivity|]. rewrite <- apply_point_vec. apply apply_vector_is_block.
  - unfold n0; rops. destruct (Reqb (mdet ROps f) 0); [discriminate|]. intros H. injection H as <-. cbn [fst].
    split; [reflexivity|]. rewrite <- apply_point_vec. apply apply_vector_is_block.
  - rewrite tm_us_unfold. intros H. destruct (nus_acts s s s allow fr p H) as [A B]. rewrite A, B, vmul_sss. split; reflexivity.
  - intros H. apply (nus_acts x y z allow fr p H).
  - rewrite tm_us_unfold. intros H. destruct (nus_acts s s s false fr p H) as [A B]. rewrite A, B, vmul_sss. split; reflexivity.
  - unfold flip_vec, n1; rops. destruct (dim =? 0)%Z; [intros H; apply (nus_acts _ _ _ _ fr p H)|].
    destruct (dim =? 1)%Z; [intros H; apply (nus_acts _ _ _ _ fr p H)|].
    destruct (dim =? 2)%Z; [intros H; apply (nus_acts _ _ _ _ fr p H) | discriminate].
  - intros H. injection H as <-. split; [apply tm_translation_acts | apply tm_translation_vec].
  - intros H. injection H as <-. split; [apply tm_rotation_acts|].
    unfold tm_rotation; cbn [fst]. apply convert_acts_vec.
  - destruct (rotation_from_up_and_look ROps up look) as [r|e]; cbn [rbind]; [|discriminate].
    intros H. injection H as <-. split; [apply (tm_rotation_acts (RotMat r))|].
    unfold tm_rotation; cbn [fst rotation3]. apply convert_acts_vec.
Qed.

Lemma run_ops_actions ops : forall st w p,
  fold_left (fun q fr => apply_point ROps (fst fr) w q) (run_ops ROps ops st) p =
  fold_left (fun q o => step_action o w q) ops (fold_left (fun q fr => apply_point ROps (fst fr) w q) st p).
Proof.
  induction ops as [|o ops IH]; intros st w p; [reflexivity|].
  unfold run_ops. cbn [fold_left]. change (fold_left (step_state ROps) ops ?x) with (run_ops ROps ops x).
  rewrite IH. f_equal. unfold step_action.
  destruct (step_state_cases st o) as [(fr & E & ->) | (e & E & ->)]; rewrite E.
  - rewrite fold_left_app. cbn [fold_left].
    destruct (op_pair_acts o fr (fold_left (fun q fr0 => apply_point ROps (fst fr0) w q) st p) E) as [A B].
    destruct w; assumption.
  - reflexivity.
Qed.
(* calling the whole object after any history = the documented actions of the accepted calls, in order *)
Lemma call_history ops w p : Forall op_ok ops ->
  call_point ROps (run_ops ROps ops []) None false w p = fold_left (fun q o => step_action o w q) ops p.
Proof.
  intros H. rewrite call_is_sequential by (apply Inv_reachable, H). cbn [selected].
  rewrite run_ops_actions. reflexivity.
Qed.

(* ---------------- errors, indices ---------------- *)
Lemma step_error_leaves_state st o e : step ROps st o = Raise e -> step_state ROps st o = st.
Proof. unfold step_state. intros ->. reflexivity. Qed.
Lemma step_ok_state st o st' i : step ROps st o = Ok (st', i) -> step_state ROps st o = st'.
Proof. unfold step_state. intros ->. reflexivity. Qed.

(* the index a call returned keeps selecting exactly that step, whatever is appended afterwards *)
Lemma index_selects_step st o st1 i ops : step ROps st o = Ok (st1, i) ->
  exists fr, op_pair ROps o = Ok fr /\
    nth_error (run_ops ROps ops st1) i = Some fr /\
    selected (run_ops ROps ops st1) (Some (Z.of_nat i, Z.of_nat (S i))) = [fr].
Proof.
  intros H. destruct (step_spec st o st1 i H) as (-> & fr & E & ->). exists fr. split; [exact E|].
  destruct (run_ops_prefix ops (st ++ [fr])) as (rest & ->). rewrite <- app_assoc. split.
  - rewrite nth_error_app2 by lia. rewrite Nat.sub_diag. reflexivity.
  - cbn [selected]. replace (S (length st)) with (length st + length [fr])%nat by (cbn; lia).
    apply pyslice_appended.
Qed.
(* a range built from two states of the same object (old length, new length) selects what was appended in between *)
Lemma lengths_select_appended st ops1 ops2 :
  exists added, run_ops ROps ops1 st = st ++ added /\
    selected (run_ops ROps ops2 (run_ops ROps ops1 st))
             (Some (Z.of_nat (length st), Z.of_nat (length (run_ops ROps ops1 st)))) = added.
Proof.
  destruct (run_ops_prefix ops1 st) as (added & E). exists added. split; [exact E|]. rewrite E.
  destruct (run_ops_prefix ops2 (st ++ added)) as (rest & ->). rewrite <- app_assoc, app_length. cbn [selected].
  apply pyslice_appended.
Qed.

Lemma scale_zero_rejected x y z allow s :
  (x = 0 \/ y = 0 \/ z = 0 -> op_pair ROps (ONonUniformScale x y z allow) = Raise ValueError) /\
  op_pair ROps (OUniformScale 0 allow) = Raise ValueError /\
  (s <= 0 -> op_pair ROps (OConvertUnits s) = Raise ValueError).
Proof.
  cbn [op_pair]. split; [apply tm_nus_rejects_zero|]. split.
  - rewrite tm_us_unfold. apply tm_nus_rejects_zero. tauto.
  - intros H. rewrite tm_us_unfold. destruct (Req_dec s 0) as [->|Hs]; [apply tm_nus_rejects_zero; tauto|].
    apply tm_nus_rejects_negative. lra.
Qed.
Lemma scale_negative_rejected_unless_flip x y z s :
  (x < 0 \/ y < 0 \/ z < 0 -> op_pair ROps (ONonUniformScale x y z false) = Raise ValueError) /\
  (s < 0 -> op_pair ROps (OUniformScale s false) = Raise ValueError) /\
  (x <> 0 -> y <> 0 -> z <> 0 -> exists fr, op_pair ROps (ONonUniformScale x y z true) = Ok fr) /\
  (s <> 0 -> exists fr, op_pair ROps (OUniformScale s true) = Ok fr).
Proof.
  cbn [op_pair]. split; [apply tm_nus_rejects_negative|]. split.
  - intros H. rewrite tm_us_unfold. apply tm_nus_rejects_negative. tauto.
  - split.
    + intros Hx Hy Hz. eexists. apply tm_nus_accepts. unfold scale_accepted. tauto.
    + intros Hs. rewrite tm_us_unfold. eexists. apply tm_nus_accepts. unfold scale_accepted. tauto.
Qed.
Lemma flip_dim_range dim :
  ((dim = 0 \/ dim = 1 \/ dim = 2)%Z -> exists fr, op_pair ROps (OFlip dim) = Ok fr) /\
  (~ (dim = 0 \/ dim = 1 \/ dim = 2)%Z -> op_pair ROps (OFlip dim) = Raise ValueError).
Proof.
  cbn [op_pair]. unfold n1; rops. split.
  - intros [H|[H|H]]; subst dim; cbn; eexists; apply tm_nus_accepts; unfold scale_accepted; repeat split; try lra; left; reflexivity.
  - intros H. destruct (Z.eqb_spec dim 0); [tauto|]. destruct (Z.eqb_spec dim 1); [tauto|].
    destruct (Z.eqb_spec dim 2); [tauto|]. reflexivity.
Qed.

Lemma call_stack_nth st range rev d w ps k :
  nth_error (call_stack ROps st range rev d w ps) k = option_map (call_single ROps st range rev d w) (nth_error ps k).
Proof. unfold call_stack, call_single. apply apply_stack_nth. Qed.
Lemma call_discard_z st range rev w p :
  call_single ROps st range rev true w p = firstn 2 (call_single ROps st range rev false w p) /\
  call_single ROps st range rev false w p = vlist (call_point ROps st range rev w p).
Proof. unfold call_single, call_point. apply apply_discard_z. Qed.
Lemma translate_no_effect_on_vectors t fr v : op_pair ROps (OTranslate t) = Ok fr ->
  apply_point ROps (fst fr) true v = v /\ apply_point ROps (snd fr) true v = v.
Proof. cbn [op_pair]. intros H. injection H as <-. rewrite !apply_point_vec. apply tm_translation_vec. Qed.


Lemma run_ops_accepted ops : forall st, run_ops ROps ops st = st ++ map pair_of (accepted_ops ops).
Proof.
  induction ops as [|o ops IH]; intros st; [cbn; symmetry; apply app_nil_r|].
  unfold run_ops. cbn [fold_left]. change (fold_left (step_state ROps) ops ?x) with (run_ops ROps ops x). rewrite IH.
  unfold accepted_ops. cbn [filter].
  destruct (step_state_cases st o) as [(fr & E & ->) | (e & E & ->)].
  - assert (Ha : accepts o = true) by (unfold accepts; rewrite E; reflexivity).
    assert (Hp : pair_of o = fr) by (unfold pair_of; rewrite E; reflexivity).
    rewrite Ha. cbn [map]. rewrite Hp, <- app_assoc. reflexivity.
  - assert (Ha : accepts o = false) by (unfold accepts; rewrite E; reflexivity). rewrite Ha. reflexivity.
Qed.
Lemma firstn_map' {A B} (f : A -> B) n l : firstn n (map f l) = map f (firstn n l).
Proof. revert l; induction n; intros [|x l]; cbn; try reflexivity. f_equal. apply IHn. Qed.
Lemma skipn_map' {A B} (f : A -> B) n l : skipn n (map f l) = map f (skipn n l).
Proof. revert l; induction n; intros [|x l]; cbn; try reflexivity. apply IHn. Qed.
Lemma fold_left_ext_in {A B} (f g : A -> B -> A) l : (forall a x, In x l -> f a x = g a x) ->
  forall a, fold_left f l a = fold_left g l a.
Proof.
  induction l as [|x l IH]; intros H a; [reflexivity|]. cbn [fold_left]. rewrite H by (left; reflexivity).
  apply IH. intros a' y Hy. apply H. right; exact Hy.
Qed.
Lemma In_firstn' {A} (x : A) n l : In x (firstn n l) -> In x l.
Proof. intros H. rewrite <- (firstn_skipn n l). apply in_or_app. left; exact H. Qed.
Lemma In_skipn' {A} (x : A) n l : In x (skipn n l) -> In x l.
Proof. intros H. rewrite <- (firstn_skipn n l). apply in_or_app. right; exact H. Qed.
Lemma accepted_In ops o : In o (accepted_ops ops) -> In o ops /\ exists fr, op_pair ROps o = Ok fr /\ pair_of o = fr.
Proof.
  unfold accepted_ops. rewrite filter_In. unfold accepts, pair_of. intros [Hin Ha]. split; [exact Hin|].
  destruct (op_pair ROps o) as [fr|e]; [exists fr; split; reflexivity | discriminate].
Qed.

Lemma call_history_range ops a b w p : Forall op_ok ops -> (a <= b <= length (accepted_ops ops))%nat ->
  let sel := firstn (b - a) (skipn a (accepted_ops ops)) in
  call_point ROps (run_ops ROps ops []) (Some (Z.of_nat a, Z.of_nat b)) false w p =
    fold_left (fun q o => step_action o w q) sel p /\
  call_point ROps (run_ops ROps ops []) (Some (Z.of_nat a, Z.of_nat b)) true w p =
    fold_left (fun q o => step_inverse_action o w q) (rev sel) p.
Proof.
  intros Hok Hab sel. pose proof (Inv_reachable ops Hok) as Hinv.
  assert (Esel : selected (run_ops ROps ops []) (Some (Z.of_nat a, Z.of_nat b)) = map pair_of sel).
  { cbn [selected]. rewrite run_ops_accepted. cbn [app]. rewrite pyslice_in_range by (rewrite map_length; lia).
    rewrite skipn_map', firstn_map'. reflexivity. }
  split.
  - rewrite call_is_sequential by exact Hinv. rewrite Esel, fold_left_map. apply fold_left_ext_in.
    intros q o Ho. assert (Hin : In o (accepted_ops ops)).
    { unfold sel in Ho. apply In_firstn' in Ho. apply In_skipn' in Ho. exact Ho. }
    destruct (accepted_In ops o Hin) as (_ & fr & E & Ep). rewrite Ep. unfold step_action. rewrite E.
    destruct (op_pair_acts o fr q E) as [A B]. destruct w; assumption.
  - rewrite call_reverse_is_sequential by exact Hinv. rewrite Esel, <- map_rev, fold_left_map. reflexivity.
Qed.
(* the inverse action undoes the documented action of the same accepted step, and conversely *)
Lemma step_inverse_undoes o w q : op_ok o -> accepts o = true ->
  step_inverse_action o w (step_action o w q) = q /\ step_action o w (step_inverse_action o w q) = q.
Proof.
  intros Hok Ha. unfold accepts in Ha. unfold step_inverse_action, step_action, pair_of.
  destruct (op_pair ROps o) as [fr|e] eqn:E; [|discriminate].
  destruct (op_pair_ok o fr Hok E) as (Af & Ar & Hrf & Hfr).
  assert (S : forall x, (if w then doc_action_vec o x else doc_action o x) = apply_point ROps (fst fr) w x).
  { intros x. destruct (op_pair_acts o fr x E) as [A B]. destruct w; symmetry; assumption. }
  rewrite !S. split.
  - rewrite <- apply_point_mmul by exact Af. rewrite Hrf. apply apply_point_I4.
  - rewrite <- apply_point_mmul by exact Ar. rewrite Hfr. apply apply_point_I4.
Qed.
Lemma accepted_length ops : length (run_ops ROps ops []) = length (accepted_ops ops).
Proof. rewrite run_ops_accepted. cbn [app]. apply map_length. Qed.

(* ---------------- without affinity: the matrix clauses; the point clauses fail (known finding) ---------------- *)
Lemma compose_is_left_to_right_butlast ms p : Forall (affine ROps) (removelast ms) ->
  mapply_pt ROps (compose_transforms ROps ms) p = fold_left (fun q m => mapply_pt ROps m q) ms p.
Proof. apply compose_left_to_right_butlast. Qed.
Lemma sel_inverse_any sel : InvPairs sel -> inverse_pair (cprod (map fst sel)) (cprod (map snd (rev sel))).
Proof.
  induction 1 as [|[f r] l [Hrf Hfr] _ [IH1 IH2]]; cbn [map rev cprod fst snd] in *.
  - split; apply mmul_I4_l.
  - rewrite map_app, cprod_app. cbn [map]. rewrite cprod_one. cbn [fst snd]. split.
    + rewrite mmul_assoc, <- (mmul_assoc (cprod (map snd (rev l)))), IH1, mmul_I4_l. exact Hrf.
    + rewrite mmul_assoc, <- (mmul_assoc f), Hfr, mmul_I4_l. exact IH2.
Qed.
Lemma matrix_reverse_is_inverse_any st range : InvPairs st ->
  inverse_pair (transform_matrix_for ROps st range false) (transform_matrix_for ROps st range true).
Proof.
  intros H. rewrite tmf_forward, tmf_reverse. apply sel_inverse_any.
  destruct range as [[a b]|]; cbn [selected]; [|exact H]. unfold pyslice. apply Forall_firstn, Forall_skipn, H.
Qed.
Lemma op_pair_inv o fr : op_ok_inv o -> op_pair ROps o = Ok fr -> inverse_pair (fst fr) (snd fr).
Proof.
  destruct o as [f [r|] | s allow | x y z allow | s | dim | t | a | up look].
  - cbn [op_ok_inv op_pair]. intros Hi H. injection H as <-. exact Hi.
  - cbn [op_ok_inv op_pair]. intros _. unfold n0; rops. destruct (Reqb_spec (mdet ROps f) 0) as [E|E]; [discriminate|].
    intros H. injection H as <-. split; [apply minv_l | apply minv_r]; exact E.
  - intros _ H. eapply op_pair_ok in H; [apply H | exact I].
  - intros _ H. eapply op_pair_ok in H; [apply H | exact I].
  - intros _ H. eapply op_pair_ok in H; [apply H | exact I].
  - intros _ H. eapply op_pair_ok in H; [apply H | exact I].
  - intros _ H. eapply op_pair_ok in H; [apply H | exact I].
  - intros Ho H. eapply op_pair_ok in H; [apply H | destruct a; exact Ho].
  - intros _ H. eapply op_pair_ok in H; [apply H | exact I].
Qed.
Lemma InvPairs_reachable ops : Forall op_ok_inv ops -> InvPairs (run_ops ROps ops []).
Proof.
  intros H. rewrite run_ops_accepted. cbn [app]. unfold InvPairs. apply Forall_forall. intros fr Hin.
  apply in_map_iff in Hin. destruct Hin as (o & <- & Ho). destruct (accepted_In ops o Ho) as (Hin & fr & E & ->).
  rewrite Forall_forall in H. apply (op_pair_inv o fr (H o Hin) E).
Qed.

Lemma sequential_projective_refuted : exists ops p,
  Forall op_ok_inv ops /\
  call_point ROps (run_ops ROps ops []) None false false p <> fold_left (fun q o => step_action o false q) ops p.
Proof.
  exists [OAppend proj_witness_a (Some proj_witness_a_inv); OTranslate (V3 1 0 0)], (V3 1 0 0). split.
  - repeat constructor; unfold proj_witness_a, proj_witness_a_inv; mat_eq; ring.
  - cbv -[Rplus Rminus Rmult Rdiv Ropp Rinv IZR Rltb Rleb Reqb]. intros H. injection H as H _ _. lra.
Qed.
Lemma reverse_projective_refuted : exists ops p,
  Forall op_ok_inv ops /\
  call_point ROps (run_ops ROps ops []) None true false (call_point ROps (run_ops ROps ops []) None false false p) <> p.
Proof.
  exists [OAppend proj_witness_c (Some proj_witness_c_inv)], (V3 1 0 0). split.
  - repeat constructor; unfold proj_witness_c, proj_witness_c_inv; mat_eq; ring.
  - cbv -[Rplus Rminus Rmult Rdiv Ropp Rinv IZR Rltb Rleb Reqb]. intros H. injection H as H _ _. lra.
Qed.
