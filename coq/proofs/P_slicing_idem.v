(* C02: mesh-level idempotence — slicing the result again with the same plane returns the same triangles. *)
From Coq Require Import ZArith Reals Lra List Bool Lia Arith Sorted Permutation.
From PW Require Import Num NumR Vec NpList Result.
From PW.model Require Import M_slicing M_slicing_spec.
From PW.proofs Require Import P_nplist P_slicing P_slicing_face P_slicing_cover P_slicing_mesh P_slicing_perface.
Import ListNotations.

Lemma mask_of_none nf mask : mask_of nf None = Ok mask -> mask = repeat true nf.
Proof. cbn. intros [= <-]. reflexivity. Qed.
Lemma nth_error_repeat_true n i b : nth_error (repeat true n) i = Some b -> b = true.
Proof. intros H. apply nth_error_In in H. apply repeat_spec in H. exact H. Qed.
Lemma indexed_In {A} (l : list A) i d : In (i, d) (indexed l) -> nth_error l i = Some d.
Proof.
  unfold indexed.
  assert (G : forall s, In (i, d) (indexed_from s l) -> exists j, i = (s + j)%nat /\ nth_error l j = Some d).
  { induction l as [|a r IH]; intros s; unfold indexed_from; cbn [length seq zip In]; [intros []|].
    fold (indexed_from (S s) r). intros [[= <- <-]|H]; [exists 0%nat; split; [lia|reflexivity]|].
    destruct (IH _ H) as (j & -> & Hj). exists (S j). split; [lia|exact Hj]. }
  intros H. destruct (G 0%nat H) as (j & -> & Hj). exact Hj.
Qed.

(* every returned coordinate triangle of a call with all faces selected comes out of the per-face kernel of a selected face *)
Lemma outputs_from_selected tol eps vs fs n o r : vs <> [] ->
  slice_faces_plane ROps tol eps vs fs n o None = Ok r ->
  forall x, In x (mesh_tris (mo_v r) (mo_f r)) -> exists t t', x = Some t' /\ In t' (slice_face ROps tol eps n o true t).
Proof.
  intros Hvs Hr x Hx.
  destruct (slice_mesh_is_per_face tol eps vs fs n o None r Hvs Hr) as (mask & rows & Hm & Hl & Hrows & Hp).
  apply mask_of_none in Hm.
  destruct (slice_faces_plane_mapping_len _ _ _ _ _ _ _ _ Hr) as [Hlen _].
  assert (Hin : In x (map snd (zip (mo_map r) (mesh_tris (mo_v r) (mo_f r))))).
  { rewrite map_snd_zip; [exact Hx|]. unfold mesh_tris. rewrite map_length. exact Hlen. }
  apply in_map_iff in Hin. destruct Hin as ((i & y) & <- & Hy). cbn [snd].
  apply (Permutation_in _ Hp) in Hy. apply in_flat_map in Hy. destruct Hy as ((j & d) & Hjd & Hy).
  cbn [fst snd] in Hy. apply in_map_iff in Hy. destruct Hy as (t' & [= <- <-] & Ht').
  apply indexed_In in Hjd. destruct (Hrows _ _ Hjd) as (_ & Hmk & _).
  rewrite Hm in Hmk. apply nth_error_repeat_true in Hmk. rewrite Hmk in Ht'.
  exists (fd_t d), t'. split; [reflexivity|exact Ht'].
Qed.

Lemma map_eq_by_nth {A B C} (f : A -> C) (g : B -> C) (la : list A) : forall (lb : list B),
  length la = length lb ->
  (forall i a, nth_error la i = Some a -> exists b, nth_error lb i = Some b /\ f a = g b) -> map f la = map g lb.
Proof.
  induction la as [|a la IH]; intros [|b lb] Hl H; cbn [length] in Hl; try discriminate; [reflexivity|].
  cbn [map]. destruct (H 0%nat a eq_refl) as (b' & [= <-] & E). rewrite E. f_equal.
  apply IH; [lia|]. intros i a' Hi. exact (H (S i) a' Hi).
Qed.

(* slicing the result again (all faces selected both times) returns the same multiset of coordinate triangles *)
Theorem slice_idempotent tol eps vs fs n o r r2 : (0 <= tol)%R -> vs <> [] ->
  slice_faces_plane ROps tol eps vs fs n o None = Ok r ->
  slice_faces_plane ROps tol eps (mo_v r) (mo_f r) n o None = Ok r2 ->
  Permutation (mesh_tris (mo_v r2) (mo_f r2)) (mesh_tris (mo_v r) (mo_f r)).
Proof.
  intros Ht Hvs Hr Hr2.
  pose proof (outputs_from_selected tol eps vs fs n o r Hvs Hr) as Hout.
  destruct (mo_v r) as [|v0 vr] eqn:Ev.
  - (* nothing returned: the second call hands its (empty) input back *)
    unfold slice_faces_plane in Hr2. cbn [length Nat.eqb] in Hr2. injection Hr2 as <-. cbn [mo_v mo_f]. apply Permutation_refl.
  - rewrite <- Ev in *.
    assert (Hne : mo_v r <> []) by (rewrite Ev; discriminate).
    destruct (slice_mesh_is_per_face tol eps (mo_v r) (mo_f r) n o None r2 Hne Hr2) as (mask & rows & Hm & Hl & Hrows & Hp).
    destruct (slice_faces_plane_mapping_len _ _ _ _ _ _ _ _ Hr2) as [Hlen2 _].
    apply (Permutation_map snd) in Hp. rewrite map_snd_zip in Hp by (unfold mesh_tris; rewrite map_length; exact Hlen2).
    assert (E : forall x, In x (indexed rows) ->
                map (fun t' => (fst x, Some t')) (slice_face ROps tol eps n o (fd_m (snd x)) (fd_t (snd x))) =
                [(fst x, Some (fd_t (snd x)))]).
    { intros (i & d) Hx. cbn [fst snd]. apply indexed_In in Hx. destruct (Hrows _ _ Hx) as (Hf & _ & Hlk).
      assert (Hin : In (Some (fd_t d)) (mesh_tris (mo_v r) (mo_f r))).
      { unfold mesh_tris. apply in_map_iff. exists (fd_f d). split; [exact Hlk|]. eapply nth_error_In, Hf. }
      destruct (Hout _ Hin) as (t & t' & [= <-] & Ht').
      rewrite (slice_face_idempotent tol eps n o t (fd_t d) Ht Ht' (fd_m d)). reflexivity. }
    assert (EQ : map snd (flat_map (fun x : nat * fdata =>
                   map (fun t' => (fst x, Some t')) (slice_face ROps tol eps n o (fd_m (snd x)) (fd_t (snd x)))) (indexed rows)) =
                 mesh_tris (mo_v r) (mo_f r)).
    { rewrite (flat_map_ext_in' _ _ _ E). rewrite map_flat_map. cbn [map snd].
      unfold indexed. rewrite (flat_map_indexed_snd (fun d : fdata => [Some (fd_t d)]) rows 0). rewrite flat_map_single.
      unfold mesh_tris. apply map_eq_by_nth; [exact Hl|]. intros i d Hi. destruct (Hrows _ _ Hi) as (Hf & _ & Hlk).
      exists (fd_f d). split; [exact Hf|symmetry; exact Hlk]. }
    rewrite EQ in Hp. exact Hp.
Qed.

(* ---- with a mask: the second call selects output face j iff the first call selected its source face mapping[j] ---- *)
Lemma nth_error_zip_intro {A B} (a : list A) (b : list B) j x y :
  nth_error a j = Some x -> nth_error b j = Some y -> nth_error (zip a b) j = Some (x, y).
Proof.
  revert b j. induction a as [|p a IH]; intros [|q b] [|j]; cbn [zip nth_error]; try discriminate.
  - intros [= <-] [= <-]. reflexivity.
  - apply IH.
Qed.

Theorem slice_idempotent_masked tol eps vs fs n o fi mask mask2 r r2 : (0 <= tol)%R -> vs <> [] ->
  slice_faces_plane ROps tol eps vs fs n o fi = Ok r ->
  mask_of (length fs) fi = Ok mask ->
  length mask2 = length (mo_map r) ->
  (forall j i, nth_error (mo_map r) j = Some i -> nth_error mask2 j = nth_error mask i) ->
  slice_faces_plane ROps tol eps (mo_v r) (mo_f r) n o (Some (flatnonzero mask2)) = Ok r2 ->
  Permutation (mesh_tris (mo_v r2) (mo_f r2)) (mesh_tris (mo_v r) (mo_f r)).
Proof.
  intros Ht Hvs Hr Hmask Hl2 Hm2 Hr2.
  destruct (slice_mesh_is_per_face tol eps vs fs n o fi r Hvs Hr) as (mask' & rows & Hm' & Hl & Hrows & Hp).
  rewrite Hmask in Hm'. injection Hm' as <-.
  destruct (slice_faces_plane_mapping_len _ _ _ _ _ _ _ _ Hr) as [Hlen _].
  destruct (mo_v r) as [|v0 vr] eqn:Ev.
  - unfold slice_faces_plane in Hr2. cbn [length Nat.eqb] in Hr2. injection Hr2 as <-. cbn [mo_v mo_f]. apply Permutation_refl.
  - rewrite <- Ev in *.
    assert (Hne : mo_v r <> []) by (rewrite Ev; discriminate).
    destruct (slice_mesh_is_per_face tol eps (mo_v r) (mo_f r) n o _ r2 Hne Hr2) as (mk2 & rows2 & Hmk2 & Hlr2 & Hrows2 & Hp2).
    assert (Emk2 : mk2 = mask2).
    { rewrite <- Hlen, <- Hl2 in Hmk2. pose proof (mask_roundtrip mask2) as RT. rewrite RT in Hmk2. congruence. }
    subst mk2.
    destruct (slice_faces_plane_mapping_len _ _ _ _ _ _ _ _ Hr2) as [Hlen2 _].
    apply (Permutation_map snd) in Hp2. rewrite map_snd_zip in Hp2 by (unfold mesh_tris; rewrite map_length; exact Hlen2).
    assert (E : forall x, In x (indexed rows2) ->
                map (fun t' => (fst x, Some t')) (slice_face ROps tol eps n o (fd_m (snd x)) (fd_t (snd x))) =
                [(fst x, Some (fd_t (snd x)))]).
    { intros (j & d2) Hx. cbn [fst snd]. apply indexed_In in Hx. destruct (Hrows2 _ _ Hx) as (Hf2 & Hmj & Hlk2).
      (* the source of output face j *)
      destruct (nth_error (mo_map r) j) as [i|] eqn:Ei.
      2:{ apply nth_error_None in Ei. assert (j < length (mo_f r))%nat by (apply nth_error_Some; congruence). lia. }
      assert (Hz : In (i, Some (fd_t d2)) (zip (mo_map r) (mesh_tris (mo_v r) (mo_f r)))).
      { apply (nth_error_In _ j). apply nth_error_zip_intro; [exact Ei|]. unfold mesh_tris. rewrite nth_error_map, Hf2.
        cbn [option_map]. rewrite Hlk2. reflexivity. }
      apply (Permutation_in _ Hp) in Hz. apply in_flat_map in Hz. destruct Hz as ((i' & d1) & Hid & Hy).
      cbn [fst snd] in Hy. apply in_map_iff in Hy. destruct Hy as (t' & [= <- Et] & Ht'). subst t'.
      apply indexed_In in Hid. destruct (Hrows _ _ Hid) as (_ & Hmi & _).
      rewrite (Hm2 _ _ Ei), Hmi in Hmj. injection Hmj as Hmj.
      destruct (fd_m d1) eqn:Em1.
      - rewrite (slice_face_idempotent tol eps n o (fd_t d1) (fd_t d2) Ht Ht' (fd_m d2)). reflexivity.
      - rewrite <- Hmj. rewrite slice_face_unselected. reflexivity. }
    assert (EQ : map snd (flat_map (fun x : nat * fdata =>
                   map (fun t' => (fst x, Some t')) (slice_face ROps tol eps n o (fd_m (snd x)) (fd_t (snd x)))) (indexed rows2)) =
                 mesh_tris (mo_v r) (mo_f r)).
    { rewrite (flat_map_ext_in' _ _ _ E). rewrite map_flat_map. cbn [map snd].
      unfold indexed. rewrite (flat_map_indexed_snd (fun d : fdata => [Some (fd_t d)]) rows2 0). rewrite flat_map_single.
      unfold mesh_tris. apply map_eq_by_nth; [exact Hlr2|]. intros j d Hj. destruct (Hrows2 _ _ Hj) as (Hf & _ & Hlk).
      exists (fd_f d). split; [exact Hf|symmetry; exact Hlk]. }
    rewrite EQ in Hp2. exact Hp2.
Qed.
