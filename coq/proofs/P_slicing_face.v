(* C01: the per-face kernel of M_slicing.v (distances snapped to the merge tolerance) — case facts, soundness,
   orientation, area.  "In front" means snapped distance > tol, "behind" < -tol, "on" = 0. *)
From Coq Require Import ZArith Reals Lra Psatz List Bool Lia Arith.
From PW Require Import Num NumR Vec NpList Result.
From PW.model Require Import M_slicing M_slicing_spec.
From PW.proofs Require Import P_vec P_nplist P_slicing.
Import ListNotations.
Local Open Scope R_scope.


(* ---- what each branch of the case split knows about the (snapped) corner distances ------------------------ *)
Lemma vsign_ge0 tol d : (0 <= vsign ROps tol d)%Z -> d <= tol.
Proof.
  intros H. destruct (Rle_dec d tol) as [|Hn]; [assumption|]. exfalso.
  assert (Hf : tol < d) by lra. apply vsign_front in Hf. lia.
Qed.
Lemma vsign_le0 tol d : 0 <= tol -> (vsign ROps tol d <= 0)%Z -> - tol <= d.
Proof.
  intros Ht H. destruct (Rle_dec (- tol) d) as [|Hn]; [assumption|]. exfalso.
  assert (Hf : d < - tol) by lra. apply (vsign_behind tol d Ht) in Hf. lia.
Qed.

(* every distance the kernel uses is 0 or further than tol from 0 *)
Lemma tri_dists_snapped tol n o t : 0 <= tol -> snapped3 tol (tri_dists ROps tol n o t).
Proof. intros Ht k Hk. rewrite dget_tri_dists by exact Hk. apply snap_range, Ht. Qed.
Lemma snapped_nonpos tol ds k : 0 <= tol -> snapped3 tol ds -> (k < 3)%nat -> dget ds k <= tol -> dget ds k <= 0.
Proof. intros Ht H Hk Hd. destruct (H k Hk) as [E|[E|E]]; lra. Qed.
Lemma snapped_nonneg tol ds k : 0 <= tol -> snapped3 tol ds -> (k < 3)%nat -> - tol <= dget ds k -> 0 <= dget ds k.
Proof. intros Ht H Hk Hd. destruct (H k Hk) as [E|[E|E]]; lra. Qed.

Lemma face_case_facts tol ds m : 0 <= tol ->
  match face_case (signs3 ROps tol ds) m with
  | Keep => m = false \/ (forall k, (k < 3)%nat -> - tol <= dget ds k)
  | Drop => m = true /\ (forall k, (k < 3)%nat -> dget ds k <= tol)
  | CQuad k => m = true /\ (k < 3)%nat /\ dget ds k < - tol /\
               tol < dget ds ((k + 1) mod 3) /\ tol < dget ds ((k + 2) mod 3)
  | CTri k => m = true /\ (k < 3)%nat /\ tol < dget ds k /\
              dget ds ((k + 1) mod 3) <= tol /\ dget ds ((k + 2) mod 3) <= tol
  end.
Proof.
  intros Ht. pose proof (case_ok_signs tol ds m) as H. unfold case_ok in H.
  destruct (face_case (signs3 ROps tol ds) m) as [| |k|k].
  - apply orb_prop in H. destruct H as [H|H]; [left; destruct m; [discriminate|reflexivity]|right].
    apply andb_prop in H; destruct H as [H H2]. apply andb_prop in H; destruct H as [H0 H1].
    apply Z.leb_le in H0, H1, H2. rewrite sget_signs3 in H0, H1, H2 by lia.
    intros k Hk. destruct k as [|[|[|k]]]; try lia; apply vsign_le0; assumption.
  - apply andb_prop in H; destruct H as [H _]. apply andb_prop in H; destruct H as [Hm H].
    apply andb_prop in H; destruct H as [H H2]. apply andb_prop in H; destruct H as [H0 H1].
    apply Z.leb_le in H0, H1, H2. rewrite sget_signs3 in H0, H1, H2 by lia.
    split; [exact Hm|]. intros k Hk. destruct k as [|[|[|k]]]; try lia; apply vsign_ge0; assumption.
  - repeat (apply andb_prop in H; let H' := fresh "H" in destruct H as [H H']).
    apply Nat.ltb_lt in H3. destruct k as [|[|[|k]]]; try lia; cbn [Nat.add Nat.modulo Nat.divmod fst snd Nat.sub] in *;
      apply Z.eqb_eq in H2, H1, H0; rewrite sget_signs3 in H2, H1, H0 by lia;
      apply (vsign_behind _ _ Ht) in H2; apply vsign_front in H1, H0; repeat split; try assumption; lia.
  - repeat (apply andb_prop in H; let H' := fresh "H" in destruct H as [H H']).
    apply Nat.ltb_lt in H4. destruct k as [|[|[|k]]]; try lia; cbn [Nat.add Nat.modulo Nat.divmod fst snd Nat.sub] in *;
      apply Z.eqb_eq in H3; apply Z.leb_le in H2, H1; rewrite sget_signs3 in H3, H2, H1 by lia;
      apply vsign_front in H3; apply vsign_ge0 in H2, H1; repeat split; try assumption; lia.
Qed.

(* ---- rotation of the corner order -------------------------------------------------------------------------- *)
Definition rot3 (t : tri R) (k : nat) : tri R := (tget t k, tget t ((k + 1) mod 3), tget t ((k + 2) mod 3)).
Definition rotd (ds : R * R * R) (k : nat) : R * R * R := (dget ds k, dget ds ((k + 1) mod 3), dget ds ((k + 2) mod 3)).
Definition tri_corners (t : tri R) : list (vec3 R) := [tget t 0; tget t 1; tget t 2].

(* the two cut shapes on a face whose corner 0 is the special one *)
Definition tri0 (eps : R) (ds : R * R * R) (t : tri R) : list (tri R) :=
  [(tget t 0, int_point ROps eps (dget ds 0) (dget ds 1) (tget t 0) (tget t 1),
    int_point ROps eps (dget ds 2) (dget ds 0) (tget t 2) (tget t 0))].
Definition quad0 (eps : R) (ds : R * R * R) (t : tri R) : list (tri R) :=
  [(tget t 1, tget t 2, int_point ROps eps (dget ds 2) (dget ds 0) (tget t 2) (tget t 0));
   (tget t 1, int_point ROps eps (dget ds 2) (dget ds 0) (tget t 2) (tget t 0),
    int_point ROps eps (dget ds 0) (dget ds 1) (tget t 0) (tget t 1))].

Lemma cut_tris_rot eps ds t k : (k < 3)%nat -> cut_tris ROps eps ds t k = tri0 eps (rotd ds k) (rot3 t k).
Proof. intros Hk. destruct k as [|[|[|k]]]; try lia; reflexivity. Qed.
Lemma quad_tris_rot eps ds t k : (k < 3)%nat -> quad_tris ROps eps ds t k = quad0 eps (rotd ds k) (rot3 t k).
Proof. intros Hk. destruct k as [|[|[|k]]]; try lia; reflexivity. Qed.

Lemma in_tri_rot t k x : (k < 3)%nat -> in_tri (rot3 t k) x <-> in_tri t x.
Proof.
  intros Hk. destruct t as [[a b] c]. unfold in_tri.
  destruct k as [|[|[|k]]]; try lia; unfold rot3; cbn [tget fst snd Nat.add Nat.modulo Nat.divmod Nat.sub]; split;
    intros (w0 & w1 & w2 & H0 & H1 & H2 & Hs & ->).
  - exists w0, w1, w2. repeat split; auto.
  - exists w0, w1, w2. repeat split; auto.
  - exists w2, w0, w1. repeat split; auto; [lra|]. dvec. tunf. apply V3_ext; ring.
  - exists w1, w2, w0. repeat split; auto; [lra|]. dvec. tunf. apply V3_ext; ring.
  - exists w1, w2, w0. repeat split; auto; [lra|]. dvec. tunf. apply V3_ext; ring.
  - exists w2, w0, w1. repeat split; auto; [lra|]. dvec. tunf. apply V3_ext; ring.
Qed.
Lemma tri_normal_rot t k : (k < 3)%nat -> tri_normal (rot3 t k) = tri_normal t.
Proof.
  intros Hk. destruct t as [[a b] c]. destruct k as [|[|[|k]]]; try lia;
    unfold rot3; cbn [tget fst snd Nat.add Nat.modulo Nat.divmod Nat.sub]; dvec; tunf; apply V3_ext; ring.
Qed.

(* ---- points of a face whose interpolated (snapped) distance is not negative -------------------------------- *)

Lemma in_tri_nn_in_tri t ds x : in_tri_nn t ds x -> in_tri t x.
Proof. intros (w0 & w1 & w2 & H0 & H1 & H2 & Hs & E & _). exists w0, w1, w2. auto. Qed.
Lemma in_tri_nn_rot t ds k x : (k < 3)%nat -> in_tri_nn (rot3 t k) (rotd ds k) x -> in_tri_nn t ds x.
Proof.
  intros Hk. destruct t as [[a b] c]. destruct ds as [[da db] dc]. unfold in_tri_nn, wdot.
  destruct k as [|[|[|k]]]; try lia; unfold rot3, rotd; cbn [tget dget fst snd Nat.add Nat.modulo Nat.divmod Nat.sub];
    intros (w0 & w1 & w2 & H0 & H1 & H2 & Hs & -> & Hd).
  - exists w0, w1, w2. repeat split; auto.
  - exists w2, w0, w1. repeat split; auto; [lra| |lra]. dvec. tunf. apply V3_ext; ring.
  - exists w1, w2, w0. repeat split; auto; [lra| |lra]. dvec. tunf. apply V3_ext; ring.
Qed.

Lemma corner_in_tri t k : (k < 3)%nat -> in_tri t (tget t k).
Proof.
  intros Hk. destruct t as [[a b] c]. destruct k as [|[|[|k]]]; try lia; cbn [tget fst snd].
  - exists 1, 0, 0. repeat split; try lra. dvec. tunf. apply V3_ext; ring.
  - exists 0, 1, 0. repeat split; try lra. dvec. tunf. apply V3_ext; ring.
  - exists 0, 0, 1. repeat split; try lra. dvec. tunf. apply V3_ext; ring.
Qed.
Lemma corner_nn t ds k : (k < 3)%nat -> 0 <= dget ds k -> in_tri_nn t ds (tget t k).
Proof.
  intros Hk Hd. destruct t as [[a b] c]. destruct ds as [[da db] dc]. unfold in_tri_nn, wdot.
  destruct k as [|[|[|k]]]; try lia; cbn [tget dget fst snd] in *.
  - exists 1, 0, 0. repeat split; try lra. dvec. tunf. apply V3_ext; ring.
  - exists 0, 1, 0. repeat split; try lra. dvec. tunf. apply V3_ext; ring.
  - exists 0, 0, 1. repeat split; try lra. dvec. tunf. apply V3_ext; ring.
Qed.
Lemma lerp01_nn t ds s : 0 <= s <= 1 -> 0 <= dget ds 0 + s * (dget ds 1 - dget ds 0) ->
  in_tri_nn t ds (lerp (tget t 0) (tget t 1) s).
Proof.
  intros Hs Hd. destruct t as [[a b] c]. destruct ds as [[da db] dc]. unfold in_tri_nn, wdot. cbn [tget dget fst snd] in *.
  exists (1 - s), s, 0. repeat split; try lra. dvec. tunf. apply V3_ext; ring.
Qed.
Lemma lerp20_nn t ds s : 0 <= s <= 1 -> 0 <= dget ds 2 + s * (dget ds 0 - dget ds 2) ->
  in_tri_nn t ds (lerp (tget t 2) (tget t 0) s).
Proof.
  intros Hs Hd. destruct t as [[a b] c]. destruct ds as [[da db] dc]. unfold in_tri_nn, wdot. cbn [tget dget fst snd] in *.
  exists s, 0, (1 - s). repeat split; try lra. dvec. tunf. apply V3_ext; ring.
Qed.

Lemma hull_nn t ds t' x : Forall (in_tri_nn t ds) (tri_corners t') -> in_tri t' x -> in_tri_nn t ds x.
Proof.
  intros Hc (u0 & u1 & u2 & Hu0 & Hu1 & Hu2 & Hus & ->).
  unfold tri_corners in Hc. inversion Hc as [|? ? H0 Hc1]; subst. inversion Hc1 as [|? ? H1 Hc2]; subst.
  inversion Hc2 as [|? ? H2 _]; subst.
  destruct H0 as (a0 & a1 & a2 & Ha0 & Ha1 & Ha2 & Has & E0 & D0).
  destruct H1 as (b0 & b1 & b2 & Hb0 & Hb1 & Hb2 & Hbs & E1 & D1).
  destruct H2 as (c0 & c1 & c2 & Hc0 & Hc1' & Hc2' & Hcs & E2 & D2).
  exists (u0 * a0 + u1 * b0 + u2 * c0), (u0 * a1 + u1 * b1 + u2 * c1), (u0 * a2 + u1 * b2 + u2 * c2).
  repeat split.
  - repeat apply Rplus_le_le_0_compat; apply Rmult_le_pos; assumption.
  - repeat apply Rplus_le_le_0_compat; apply Rmult_le_pos; assumption.
  - repeat apply Rplus_le_le_0_compat; apply Rmult_le_pos; assumption.
  - transitivity (u0 * (a0 + a1 + a2) + u1 * (b0 + b1 + b2) + u2 * (c0 + c1 + c2)); [ring|].
    rewrite Has, Hbs, Hcs. lra.
  - unfold bary at 1. cbn [tget] in *. rewrite E0, E1, E2. destruct t as [[p q] r]. dvec. tunf. apply V3_ext; ring.
  - unfold wdot in *.
    replace ((u0 * a0 + u1 * b0 + u2 * c0) * dget ds 0 + (u0 * a1 + u1 * b1 + u2 * c1) * dget ds 1 +
             (u0 * a2 + u1 * b2 + u2 * c2) * dget ds 2)
      with (u0 * (a0 * dget ds 0 + a1 * dget ds 1 + a2 * dget ds 2) + u1 * (b0 * dget ds 0 + b1 * dget ds 1 + b2 * dget ds 2) +
            u2 * (c0 * dget ds 0 + c1 * dget ds 1 + c2 * dget ds 2)) by ring.
    repeat apply Rplus_le_le_0_compat; apply Rmult_le_pos; assumption.
Qed.

(* ---- crossing parameters --------------------------------------------------------------------------------------- *)
Lemma param_pos_nonpos a b : 0 < a -> b <= 0 -> 0 < a / (a - b) <= 1.
Proof.
  intros Ha Hb. assert (Hd : 0 < a - b) by lra. split.
  - apply Rdiv_lt_0_compat; assumption.
  - apply (Rmult_le_reg_r (a - b)); [assumption|]. unfold Rdiv. rewrite Rmult_assoc, Rinv_l by lra. lra.
Qed.
Lemma param_nonpos_pos a b : a <= 0 -> 0 < b -> 0 <= a / (a - b) < 1.
Proof.
  intros Ha Hb. assert (Hd : 0 < b - a) by lra.
  replace (a / (a - b)) with ((- a) / (b - a)) by (field; lra). split.
  - apply Rmult_le_pos; [lra|]. left. apply Rinv_0_lt_compat. assumption.
  - apply (Rmult_lt_reg_r (b - a)); [assumption|]. unfold Rdiv. rewrite Rmult_assoc, Rinv_l by lra. lra.
Qed.

(* ---- the two cut shapes, corner 0 special ----------------------------------------------------------------------- *)
Definition corners_ok (t : tri R) (ds : R * R * R) (l : list (tri R)) : Prop :=
  Forall (fun t' => Forall (in_tri_nn t ds) (tri_corners t')) l.
Definition orient_ok (t : tri R) (l : list (tri R)) : Prop :=
  Forall (fun t' => exists lam, 0 <= lam /\ tri_normal t' = vscale ROps lam (tri_normal t)) l.
Definition area_frac (t : tri R) (l : list (tri R)) (f : R) : Prop :=
  0 <= f <= 1 /\ vsum_normals l = vscale ROps f (tri_normal t).
(* the fractions of the face's area that the two cut shapes keep, from the distances a (corner 0), b, c *)

Lemma tri0_normal a b c s u :
  tri_normal (a, lerp a b s, lerp c a u) = vscale ROps (s * (1 - u)) (tri_normal (a, b, c)).
Proof. dvec. tunf. apply V3_ext; ring. Qed.
Lemma quad0_normal1 a b c u :
  tri_normal (b, c, lerp c a u) = vscale ROps u (tri_normal (a, b, c)).
Proof. dvec. tunf. apply V3_ext; ring. Qed.
Lemma quad0_normal2 a b c s u :
  tri_normal (b, lerp c a u, lerp a b s) = vscale ROps ((1 - s) * (1 - u)) (tri_normal (a, b, c)).
Proof. dvec. tunf. apply V3_ext; ring. Qed.
Lemma corners3 (P : vec3 R -> Prop) a b c : P a -> P b -> P c -> Forall P (tri_corners (a, b, c)).
Proof. intros; unfold tri_corners; cbn [tget fst snd]; repeat (apply Forall_cons; [assumption|]); apply Forall_nil. Qed.

Lemma tri0_lerp eps ds t : dget ds 0 <> dget ds 1 -> dget ds 2 <> dget ds 0 ->
  tri0 eps ds t =
  [(tget t 0, lerp (tget t 0) (tget t 1) (dget ds 0 / (dget ds 0 - dget ds 1)),
    lerp (tget t 2) (tget t 0) (dget ds 2 / (dget ds 2 - dget ds 0)))].
Proof. intros Ha Hb. unfold tri0. rewrite !int_point_lerp by assumption. reflexivity. Qed.
Lemma quad0_lerp eps ds t : dget ds 0 <> dget ds 1 -> dget ds 2 <> dget ds 0 ->
  quad0 eps ds t =
  let p := lerp (tget t 2) (tget t 0) (dget ds 2 / (dget ds 2 - dget ds 0)) in
  let q := lerp (tget t 0) (tget t 1) (dget ds 0 / (dget ds 0 - dget ds 1)) in
  [(tget t 1, tget t 2, p); (tget t 1, p, q)].
Proof. intros Ha Hb. unfold quad0. rewrite !int_point_lerp by assumption. reflexivity. Qed.

Lemma tri0_sound eps ds t : 0 < dget ds 0 -> dget ds 1 <= 0 -> dget ds 2 <= 0 -> corners_ok t ds (tri0 eps ds t).
Proof.
  intros Ha Hb Hc. rewrite tri0_lerp by lra. unfold corners_ok.
  apply Forall_cons; [|apply Forall_nil]. apply corners3.
  - apply corner_nn; [lia|lra].
  - apply lerp01_nn; [pose proof (param_pos_nonpos _ _ Ha Hb); lra|]. rewrite crossing_param_zero by lra. lra.
  - apply lerp20_nn; [pose proof (param_nonpos_pos _ _ Hc Ha); lra|]. rewrite crossing_param_zero by lra. lra.
Qed.
Lemma quad0_sound eps ds t : dget ds 0 < 0 -> 0 < dget ds 1 -> 0 < dget ds 2 -> corners_ok t ds (quad0 eps ds t).
Proof.
  intros Ha Hb Hc. rewrite quad0_lerp by lra. unfold corners_ok. cbv zeta.
  assert (Hp : in_tri_nn t ds (lerp (tget t 2) (tget t 0) (dget ds 2 / (dget ds 2 - dget ds 0)))).
  { apply lerp20_nn; [pose proof (param_pos_nonpos _ _ Hc (Rlt_le _ _ Ha)); lra|]. rewrite crossing_param_zero by lra. lra. }
  assert (Hq : in_tri_nn t ds (lerp (tget t 0) (tget t 1) (dget ds 0 / (dget ds 0 - dget ds 1)))).
  { apply lerp01_nn; [pose proof (param_nonpos_pos _ _ (Rlt_le _ _ Ha) Hb); lra|]. rewrite crossing_param_zero by lra. lra. }
  apply Forall_cons; [|apply Forall_cons; [|apply Forall_nil]]; apply corners3; try assumption;
    try (apply corner_nn; [lia|lra]).
Qed.

Lemma tri0_orient eps ds t : 0 < dget ds 0 -> dget ds 1 < dget ds 0 -> dget ds 2 < dget ds 0 -> orient_ok t (tri0 eps ds t).
Proof.
  intros Ha Hb Hc. rewrite tri0_lerp by lra.
  assert (Hs : 0 < dget ds 0 / (dget ds 0 - dget ds 1)) by (apply Rdiv_lt_0_compat; lra).
  assert (Hu : 0 < 1 - dget ds 2 / (dget ds 2 - dget ds 0)).
  { replace (1 - dget ds 2 / (dget ds 2 - dget ds 0)) with (dget ds 0 / (dget ds 0 - dget ds 2)) by (field; lra).
    apply Rdiv_lt_0_compat; lra. }
  set (s := dget ds 0 / _) in *. set (u := dget ds 2 / _) in *. clearbody s u.
  destruct t as [[a b] c]. cbn [tget fst snd] in *.
  constructor; [|constructor]. exists (s * (1 - u)). split; [nra|]. apply tri0_normal.
Qed.
Lemma tri0_area eps ds t : 0 < dget ds 0 -> dget ds 1 <= 0 -> dget ds 2 <= 0 ->
  area_frac t (tri0 eps ds t) (frac_tri0 (dget ds 0) (dget ds 1) (dget ds 2)).
Proof.
  intros Ha Hb Hc. rewrite tri0_lerp by lra. unfold frac_tri0.
  pose proof (param_pos_nonpos _ _ Ha Hb) as Hs. pose proof (param_nonpos_pos _ _ Hc Ha) as Hu.
  set (s := dget ds 0 / _) in *. set (u := dget ds 2 / _) in *. clearbody s u.
  destruct t as [[a b] c]. cbn [tget fst snd] in *.
  split; [nra|]. unfold vsum_normals. cbn [fold_right]. rewrite tri0_normal.
  destruct (tri_normal (a, b, c)). vunf. apply V3_ext; ring.
Qed.
Lemma quad0_orient_area eps ds t : dget ds 0 < 0 -> 0 < dget ds 1 -> 0 < dget ds 2 ->
  orient_ok t (quad0 eps ds t) /\ area_frac t (quad0 eps ds t) (frac_quad0 (dget ds 0) (dget ds 1) (dget ds 2)).
Proof.
  intros Ha Hb Hc. rewrite quad0_lerp by lra. unfold frac_quad0.
  pose proof (param_pos_nonpos _ _ Hc (Rlt_le _ _ Ha)) as Hu. pose proof (param_nonpos_pos _ _ (Rlt_le _ _ Ha) Hb) as Hs.
  set (u := dget ds 2 / _) in *. set (s := dget ds 0 / _) in *. clearbody s u.
  destruct t as [[a b] c]. cbn [tget fst snd] in *. cbv zeta.
  assert (Hl : 0 <= (1 - s) * (1 - u)) by nra.
  split.
  - constructor; [|constructor; [|constructor]].
    + exists u. split; [lra|]. apply quad0_normal1.
    + exists ((1 - s) * (1 - u)). split; [lra|]. apply quad0_normal2.
  - split; [nra|]. unfold vsum_normals. cbn [fold_right]. rewrite quad0_normal1, quad0_normal2.
    destruct (tri_normal (a, b, c)). vunf. apply V3_ext; ring.
Qed.

(* ---- the per-face kernel ---------------------------------------------------------------------------------------- *)
Lemma corners_ok_use t ds l t' x : corners_ok t ds l -> In t' l -> in_tri t' x -> in_tri_nn t ds x.
Proof.
  intros Hc Hin Hx. unfold corners_ok in Hc. rewrite Forall_forall in Hc. apply (hull_nn t ds t'); [apply Hc, Hin|exact Hx].
Qed.
Lemma corners_ok_rot t ds k l : (k < 3)%nat -> corners_ok (rot3 t k) (rotd ds k) l -> corners_ok t ds l.
Proof.
  intros Hk H. unfold corners_ok in *. eapply Forall_impl; [|exact H]. intros t' H'.
  eapply Forall_impl; [|exact H']. intros v Hv. apply (in_tri_nn_rot t ds k v Hk Hv).
Qed.
Lemma orient_ok_rot t k l : (k < 3)%nat -> orient_ok (rot3 t k) l -> orient_ok t l.
Proof. intros Hk H. unfold orient_ok in *. rewrite tri_normal_rot in H by exact Hk. exact H. Qed.
Lemma mod3_lt k : ((k + 1) mod 3 < 3)%nat /\ ((k + 2) mod 3 < 3)%nat.
Proof. split; apply Nat.mod_upper_bound; lia. Qed.

(* soundness on the distances the kernel uses: every point of every output triangle lies in the input face, and (selected
   faces) its interpolated distance is not negative *)
Theorem slice_face_signs_sound tol eps ds m t t' x : 0 <= tol -> snapped3 tol ds ->
  In t' (slice_face_signs ROps eps ds (signs3 ROps tol ds) m t) -> in_tri t' x ->
  in_tri t x /\ (m = true -> in_tri_nn t ds x).
Proof.
  intros Ht HS Hin Hx. unfold slice_face_signs in Hin.
  pose proof (face_case_facts tol ds m Ht) as Hf.
  destruct (face_case (signs3 ROps tol ds) m) as [| |k|k].
  - destruct Hin as [<-|[]]. split; [exact Hx|]. intros Hm. destruct Hf as [Hf|Hf]; [congruence|].
    apply (hull_nn t ds t x); [|exact Hx]. destruct t as [[a b] c]. apply corners3.
    + apply (corner_nn (a, b, c) ds 0); [lia|]. apply (snapped_nonneg tol ds 0 Ht HS); [lia|apply Hf; lia].
    + apply (corner_nn (a, b, c) ds 1); [lia|]. apply (snapped_nonneg tol ds 1 Ht HS); [lia|apply Hf; lia].
    + apply (corner_nn (a, b, c) ds 2); [lia|]. apply (snapped_nonneg tol ds 2 Ht HS); [lia|apply Hf; lia].
  - destruct Hin.
  - destruct Hf as (Hm & Hk & Ha & Hb & Hc). rewrite quad_tris_rot in Hin by exact Hk.
    assert (Hok : corners_ok t ds (quad0 eps (rotd ds k) (rot3 t k))).
    { apply (corners_ok_rot t ds k _ Hk). apply quad0_sound; unfold rotd; cbn [dget fst snd]; lra. }
    pose proof (corners_ok_use _ _ _ _ _ Hok Hin Hx) as H. split; [apply (in_tri_nn_in_tri _ _ _ H)|intros _; exact H].
  - destruct Hf as (Hm & Hk & Ha & Hb & Hc). rewrite cut_tris_rot in Hin by exact Hk.
    destruct (mod3_lt k) as [Hk1 Hk2].
    assert (Hok : corners_ok t ds (tri0 eps (rotd ds k) (rot3 t k))).
    { apply (corners_ok_rot t ds k _ Hk). apply tri0_sound; unfold rotd; cbn [dget fst snd].
      - lra.
      - apply (snapped_nonpos tol ds _ Ht HS Hk1 Hb).
      - apply (snapped_nonpos tol ds _ Ht HS Hk2 Hc). }
    pose proof (corners_ok_use _ _ _ _ _ Hok Hin Hx) as H. split; [apply (in_tri_nn_in_tri _ _ _ H)|intros _; exact H].
Qed.

(* the interpolated snapped distance of a point of the face is within tol of its true distance *)
Lemma wdot_close tol n o t w0 w1 w2 : 0 <= tol -> 0 <= w0 -> 0 <= w1 -> 0 <= w2 -> w0 + w1 + w2 = 1 ->
  pd n o (bary t w0 w1 w2) - tol <= wdot (tri_dists ROps tol n o t) w0 w1 w2 <= pd n o (bary t w0 w1 w2) + tol.
Proof.
  intros Ht H0 H1 H2 Hs. unfold pd. rewrite plane_dot_bary by exact Hs. unfold wdot. rewrite !dget_tri_dists by lia.
  pose proof (snap_close tol (plane_dot ROps n o (tget t 0)) Ht) as C0.
  pose proof (snap_close tol (plane_dot ROps n o (tget t 1)) Ht) as C1.
  pose proof (snap_close tol (plane_dot ROps n o (tget t 2)) Ht) as C2.
  set (p0 := plane_dot ROps n o (tget t 0)) in *. set (p1 := plane_dot ROps n o (tget t 1)) in *.
  set (p2 := plane_dot ROps n o (tget t 2)) in *.
  set (s0 := snap ROps tol p0) in *. set (s1 := snap ROps tol p1) in *. set (s2 := snap ROps tol p2) in *.
  clearbody p0 p1 p2 s0 s1 s2. replace w2 with (1 - w0 - w1) in * by lra. nra.
Qed.

(* soundness in true distances: every point of every output triangle lies in the input face and, for a selected face, is
   not behind the plane by more than the tolerance *)
Theorem slice_face_sound tol eps n o m t t' x : 0 <= tol ->
  In t' (slice_face ROps tol eps n o m t) -> in_tri t' x ->
  in_tri t x /\ (m = true -> - tol <= pd n o x).
Proof.
  intros Ht Hin Hx. unfold slice_face, tri_signs in Hin.
  destruct (slice_face_signs_sound tol eps _ m t t' x Ht (tri_dists_snapped tol n o t Ht) Hin Hx) as [H1 H2].
  split; [exact H1|]. intros Hm. destruct (H2 Hm) as (w0 & w1 & w2 & H0' & H1' & H2' & Hs & -> & Hd).
  pose proof (wdot_close tol n o t w0 w1 w2 Ht H0' H1' H2' Hs). lra.
Qed.

(* orientation: every output triangle's normal is a non-negative multiple of the input face's *)
Theorem slice_face_signs_orient tol eps ds m t t' : 0 <= tol ->
  In t' (slice_face_signs ROps eps ds (signs3 ROps tol ds) m t) ->
  exists lam, 0 <= lam /\ tri_normal t' = vscale ROps lam (tri_normal t).
Proof.
  intros Ht Hin. unfold slice_face_signs in Hin.
  pose proof (face_case_facts tol ds m Ht) as Hf.
  destruct (face_case (signs3 ROps tol ds) m) as [| |k|k].
  - destruct Hin as [<-|[]]. exists 1. split; [lra|]. destruct (tri_normal t). vunf. apply V3_ext; ring.
  - destruct Hin.
  - destruct Hf as (Hm & Hk & Ha & Hb & Hc). rewrite quad_tris_rot in Hin by exact Hk.
    assert (Hok : orient_ok t (quad0 eps (rotd ds k) (rot3 t k))).
    { apply (orient_ok_rot t k _ Hk). apply quad0_orient_area; unfold rotd; cbn [dget fst snd]; lra. }
    unfold orient_ok in Hok. rewrite Forall_forall in Hok. exact (Hok _ Hin).
  - destruct Hf as (Hm & Hk & Ha & Hb & Hc). rewrite cut_tris_rot in Hin by exact Hk.
    assert (Hok : orient_ok t (tri0 eps (rotd ds k) (rot3 t k))).
    { apply (orient_ok_rot t k _ Hk). apply tri0_orient; unfold rotd; cbn [dget fst snd]; lra. }
    unfold orient_ok in Hok. rewrite Forall_forall in Hok. exact (Hok _ Hin).
Qed.
Theorem slice_face_orient tol eps n o m t t' : 0 <= tol ->
  In t' (slice_face ROps tol eps n o m t) ->
  exists lam, 0 <= lam /\ tri_normal t' = vscale ROps lam (tri_normal t).
Proof. intros Ht Hin. exact (slice_face_signs_orient tol eps _ m t t' Ht Hin). Qed.

(* ---- the case rules of the property text, pattern by pattern ------------------------------------------------ *)
(* the text: not selected, or wholly on / in front -> kept whole; otherwise no corner in front -> dropped;
   otherwise cut: two corners in front -> quad around the corner behind, one -> triangle at the corner in front *)
Lemma fcase_eqb_eq a b : fcase_eqb a b = true -> a = b.
Proof. destruct a, b; cbn; try discriminate; try reflexivity; intros H; apply Nat.eqb_eq in H; subst; reflexivity. Qed.

Lemma face_case_expected :
  forallb (fun s => forallb (fun m => fcase_eqb (face_case s m) (expected_case s m)) [true; false]) all_patterns = true.
Proof. vm_compute. reflexivity. Qed.
Lemma face_case_is_expected tol ds m : face_case (signs3 ROps tol ds) m = expected_case (signs3 ROps tol ds) m.
Proof.
  pose proof face_case_expected as H. rewrite forallb_forall in H. specialize (H _ (signs3_pattern tol ds)).
  rewrite forallb_forall in H. apply fcase_eqb_eq, H. destruct m; cbn; auto.
Qed.

Lemma vsign_le0_of tol d : - tol <= d -> (vsign ROps tol d <= 0)%Z.
Proof. intros H. unfold vsign; rops. destruct (Rltb_spec tol d); [lia|]. destruct (Rltb_spec d (- tol)); [lra|lia]. Qed.
Lemma vsign_ge0_of tol d : d <= tol -> (0 <= vsign ROps tol d)%Z.
Proof. intros H. unfold vsign; rops. destruct (Rltb_spec tol d); [lra|]. destruct (Rltb_spec d (- tol)); lia. Qed.

Lemma slice_face_unselected tol eps n o t : slice_face ROps tol eps n o false t = [t].
Proof. unfold slice_face, slice_face_signs, tri_signs. rewrite face_case_is_expected. reflexivity. Qed.

(* a face whose corners are all on or in front (true distance >= -tol) is returned whole *)
Lemma slice_face_keep tol eps n o m t : 0 <= tol ->
  (forall k, (k < 3)%nat -> - tol <= pd n o (tget t k)) -> slice_face ROps tol eps n o m t = [t].
Proof.
  intros Ht H. unfold slice_face, slice_face_signs, tri_signs. rewrite face_case_is_expected. unfold expected_case.
  destruct m; [|reflexivity]. cbn [negb].
  assert (E : all_le0 (signs3 ROps tol (tri_dists ROps tol n o t)) = true).
  { unfold all_le0. rewrite !sget_signs3, !dget_tri_dists by lia. rewrite !andb_true_iff, !Z.leb_le.
    repeat split; apply vsign_le0_of; match goal with |- _ <= snap ROps _ ?d => pose proof (snap_cases tol d Ht) end;
      [specialize (H 0%nat ltac:(lia))|specialize (H 1%nat ltac:(lia))|specialize (H 2%nat ltac:(lia))]; unfold pd in H; lra. }
  rewrite E. reflexivity.
Qed.
(* a selected face with no corner in front (all true distances <= tol) and a corner behind (< -tol) is dropped *)
Lemma slice_face_drop tol eps n o t : 0 <= tol ->
  (forall k, (k < 3)%nat -> pd n o (tget t k) <= tol) -> (exists k, (k < 3)%nat /\ pd n o (tget t k) < - tol) ->
  slice_face ROps tol eps n o true t = [].
Proof.
  intros Ht H (k & Hk & Hb). unfold slice_face, slice_face_signs, tri_signs. rewrite face_case_is_expected. unfold expected_case.
  cbn [negb].
  assert (E1 : all_le0 (signs3 ROps tol (tri_dists ROps tol n o t)) = false).
  { apply not_true_is_false. unfold all_le0. rewrite !andb_true_iff, !Z.leb_le, !sget_signs3, !dget_tri_dists by lia.
    intros [[H0' H1'] H2']. unfold pd in Hb.
    assert (Hs : vsign ROps tol (snap ROps tol (plane_dot ROps n o (tget t k))) = 1%Z).
    { apply (vsign_behind tol _ Ht). pose proof (snap_cases tol (plane_dot ROps n o (tget t k)) Ht). lra. }
    destruct k as [|[|[|k]]]; try lia; rewrite Hs in *; lia. }
  assert (E2 : all_ge0 (signs3 ROps tol (tri_dists ROps tol n o t)) = true).
  { unfold all_ge0. rewrite !sget_signs3, !dget_tri_dists by lia. rewrite !andb_true_iff, !Z.leb_le.
    repeat split; apply vsign_ge0_of; match goal with |- snap ROps _ ?d <= _ => pose proof (snap_cases tol d Ht) end;
      [specialize (H 0%nat ltac:(lia))|specialize (H 1%nat ltac:(lia))|specialize (H 2%nat ltac:(lia))]; unfold pd in H; lra. }
  rewrite E1, E2. reflexivity.
Qed.
