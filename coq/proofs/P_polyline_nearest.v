(* Real-number lemmas about M_polyline_nearest.v *)
From Coq Require Import ZArith Reals Lra Psatz List Bool Lia Arith.
From PW Require Import Num NumR Vec NpList Result.
From PW.model Require Import M_polyline_base M_segment M_polyline_nearest.
From PW.proofs Require Import P_vec P_nplist P_segment.
Import ListNotations.
Local Open Scope R_scope.

(* ---- first-index argmin, for rows of every length ---- *)
Section ArgminSpec.
  Context {A : Type} (key : A -> R).

  Lemma amin_by_none (l : list A) : amin_by ROps key l = None <-> l = [].
  Proof. destruct l; cbn; split; intros H; try reflexivity; discriminate. Qed.

  Lemma amin_by_spec (l : list A) : forall j m, amin_by ROps key l = Some (j, m) ->
    nth_error l j = Some m /\
    (forall k y, nth_error l k = Some y -> key m <= key y) /\
    (forall k y, (k < j)%nat -> nth_error l k = Some y -> key m < key y).
  Proof.
    induction l as [|x r IH]; intros j m H; [discriminate|].
    cbn [amin_by] in H. injection H as H. unfold amin_step in H.
    destruct (amin_by ROps key r) as [[j' m']|] eqn:E.
    - specialize (IH j' m' eq_refl). destruct IH as [Hn [Hmin Hfirst]]. rops.
      destruct (Rleb_spec (key x) (key m')) as [Hle|Hgt]; injection H as <- <-.
      + split; [reflexivity|]. split.
        * intros [|k] y Hy; cbn in Hy; [injection Hy as <-; lra|]. specialize (Hmin k y Hy). lra.
        * intros k y Hk; lia.
      + split; [exact Hn|]. split.
        * intros [|k] y Hy; cbn in Hy; [injection Hy as <-; lra|]. exact (Hmin k y Hy).
        * intros [|k] y Hk Hy; cbn in Hy; [injection Hy as <-; lra|]. apply (Hfirst k y); [lia|exact Hy].
    - apply amin_by_none in E. subst r. injection H as <- <-.
      split; [reflexivity|]. split.
      + intros [|[|k]] y Hy; cbn in Hy; try discriminate. injection Hy as <-; lra.
      + intros k y Hk; lia.
  Qed.

  Lemma amin_by_some (l : list A) : l <> [] -> exists j m, amin_by ROps key l = Some (j, m).
  Proof. destruct l as [|x r]; [congruence|]. intros _. cbn. destruct (amin_step ROps key x (amin_by ROps key r)) as [j m]. eauto. Qed.
End ArgminSpec.

(* ---- nearest for one query ---- *)
Lemma nearest_one_inv pl p r : nearest_one ROps pl p = Ok r ->
  exists h, amin_by ROps h_d (hits ROps pl p) = Some (n_idx r, h) /\
            n_pt r = h_pt h /\ n_d r = h_d h /\ n_t r = h_t h.
Proof.
  unfold nearest_one. destruct (amin_by ROps h_d (hits ROps pl p)) as [[j h]|]; [|discriminate].
  intros H; injection H as <-. exists h. cbn. repeat split; reflexivity.
Qed.

Lemma hits_nth pl p k : nth_error (hits ROps pl p) k = option_map (seg_hit_of ROps p) (nth_error (pl_segments pl) k).
Proof. unfold hits. apply nth_error_map. Qed.

(* outputs are mutually consistent *)
Lemma nearest_outputs_consistent pl p r : nearest_one ROps pl p = Ok r ->
  exists a b, nth_error (pl_segments pl) (n_idx r) = Some (a, b) /\
    n_pt r = vadd ROps a (vscale ROps (n_t r) (vsub ROps b a)) /\
    0 <= n_t r <= 1 /\
    n_d r = vnorm ROps (vsub ROps (n_pt r) p).
Proof.
  intros H. destruct (nearest_one_inv _ _ _ H) as [h [Ha [Hp [Hd Ht]]]].
  apply amin_by_spec in Ha. destruct Ha as [Hn _]. rewrite hits_nth in Hn.
  destruct (nth_error (pl_segments pl) (n_idx r)) as [[a b]|]; [|discriminate].
  cbn in Hn. injection Hn as <-. exists a, b. split; [reflexivity|].
  rewrite Hp, Hd, Ht. cbn. unfold seg_vector. cbn. repeat split; try reflexivity; apply closest_t_range.
Qed.

(* the returned distance is the minimum over every point of every segment *)
Lemma nearest_is_min pl p r : nearest_one ROps pl p = Ok r ->
  forall a b s, In (a, b) (pl_segments pl) -> 0 <= s <= 1 ->
    n_d r <= vnorm ROps (vsub ROps (seg_at a (vsub ROps b a) s) p).
Proof.
  intros H a b s Hin Hs. destruct (nearest_one_inv _ _ _ H) as [h [Ha [_ [Hd _]]]].
  apply amin_by_spec in Ha. destruct Ha as [_ [Hmin _]].
  apply In_nth_error in Hin. destruct Hin as [k Hk].
  specialize (Hmin k (seg_hit_of ROps p (a, b))). rewrite hits_nth, Hk in Hmin. specialize (Hmin eq_refl).
  rewrite Hd. eapply Rle_trans; [exact Hmin|]. cbn. unfold seg_vector. cbn.
  apply closest_point_optimal_dist. exact Hs.
Qed.

(* ties go to the lowest segment index *)
Lemma nearest_first_index pl p r : nearest_one ROps pl p = Ok r ->
  forall k a b, (k < n_idx r)%nat -> nth_error (pl_segments pl) k = Some (a, b) ->
    n_d r < h_d (seg_hit_of ROps p (a, b)).
Proof.
  intros H k a b Hk Hn. destruct (nearest_one_inv _ _ _ H) as [h [Ha [_ [Hd _]]]].
  apply amin_by_spec in Ha. destruct Ha as [_ [_ Hfirst]]. rewrite Hd.
  apply (Hfirst k); [exact Hk|]. rewrite hits_nth, Hn. reflexivity.
Qed.

Lemma nearest_one_total pl p : pl_segments pl <> [] -> exists r, nearest_one ROps pl p = Ok r.
Proof.
  intros H. unfold nearest_one.
  destruct (amin_by_some h_d (hits ROps pl p)) as [j [m E]].
  - unfold hits. destruct (pl_segments pl); [congruence|discriminate].
  - rewrite E. eauto.
Qed.
Lemma nearest_one_empty pl p : pl_segments pl = [] -> nearest_one ROps pl p = Raise ValueError.
Proof. intros H. unfold nearest_one, hits. rewrite H. reflexivity. Qed.

(* ---- stacked queries: row k of the result is the single-query result of row k ---- *)
Lemma nearest_many_spec pl : forall ps rs, nearest_many ROps pl ps = Ok rs ->
  length rs = length ps /\
  forall k p, nth_error ps k = Some p -> exists r, nth_error rs k = Some r /\ nearest_one ROps pl p = Ok r.
Proof.
  induction ps as [|p ps IH]; intros rs H; cbn [nearest_many] in H.
  - destruct (pl_segments pl); [discriminate|]. injection H as <-. split; [reflexivity|].
    intros [|k] q Hq; discriminate.
  - unfold cons_res in H. destruct (nearest_one ROps pl p) as [r|e] eqn:E1; [|discriminate].
    destruct (nearest_many ROps pl ps) as [l|e]; [|discriminate]. injection H as <-.
    destruct (IH l eq_refl) as [Hl Hk]. split; [cbn; lia|].
    intros [|k] q Hq; cbn in Hq.
    + injection Hq as <-. exists r. split; [reflexivity|exact E1].
    + apply Hk. exact Hq.
Qed.

Lemma nearest_many_total pl : pl_segments pl <> [] -> forall ps, exists rs, nearest_many ROps pl ps = Ok rs.
Proof.
  intros H. induction ps as [|p ps [l IH]]; cbn [nearest_many].
  - destruct (pl_segments pl); [congruence|eauto].
  - destruct (nearest_one_total pl p H) as [r E]. rewrite E, IH. cbn. eauto.
Qed.

(* ---- which outputs come back ---- *)
Definition returns_requested (ri rd rt : bool) (rs : list (near R)) (o : nearest_out R) : Prop :=
  out_pts o = map n_pt rs /\
  out_idx o = (if ri then Some (map n_idx rs) else None) /\
  out_dist o = (if rd then Some (map n_d rs) else None) /\
  out_t o = (if rt then Some (map n_t rs) else None).

Lemma nearest_ret_requested_unless_only_t ri rd rt rs :
  (ri, rd, rt) <> (false, false, true) -> returns_requested ri rd rt rs (nearest_ret ri rd rt rs).
Proof.
  intros H. unfold returns_requested, nearest_ret.
  destruct ri, rd, rt; cbn; try (repeat split; reflexivity). congruence.
Qed.

Lemma nearest_ret_only_t_dropped (rs : list (near R)) : out_t (nearest_ret false false true rs) = None.
Proof. reflexivity. Qed.

Definition witness_pl : polyline R := MkPolyline [V3 0 0 0; V3 1 0 0] false.
Lemma nearest_returns_requested_refuted :
  exists pl ps rs o, nearest_many ROps pl ps = Ok rs /\ ps <> [] /\
    nearest ROps pl ps false false true = Ok o /\ ~ returns_requested false false true rs o.
Proof.
  destruct (nearest_many_total witness_pl) with (ps := [V3 0 1 0]) as [rs E]; [cbn; discriminate|].
  exists witness_pl, [V3 0 1 0], rs, (nearest_ret false false true rs).
  split; [exact E|]. split; [discriminate|]. split.
  - unfold nearest. rewrite E. reflexivity.
  - intros [_ [_ [_ H]]]. cbn in H. discriminate.
Qed.

(* ---- list plumbing for sliced_at_points ---- *)
Lemma firstn_app_le {A} (l l' : list A) n : (n <= length l)%nat -> firstn n (l ++ l') = firstn n l.
Proof. intros H. rewrite firstn_app. replace (n - length l)%nat with 0%nat by lia. cbn. apply app_nil_r. Qed.

Lemma skipn_insert_at {A} (vs : list A) i p : (i <= length vs)%nat ->
  skipn i (firstn i vs ++ p :: skipn i vs) = p :: skipn i vs.
Proof.
  intros H. rewrite skipn_app. rewrite firstn_length, Nat.min_l by exact H.
  rewrite skipn_all2 by (rewrite firstn_length; lia). rewrite Nat.sub_diag. reflexivity.
Qed.

(* open polyline, both nearest points are new vertices, b's lies on a later edge of the working polyline:
   the slice is [na] ++ (original vertices strictly between) ++ [nb] *)
Lemma slice_two_insertions {A} (vs : list A) (i j : nat) (na nb : A) :
  (S i <= length vs)%nat -> (S i <= j)%nat -> (S j <= S (length vs))%nat ->
  let w1 := firstn (S i) vs ++ na :: skipn (S i) vs in
  let w2 := firstn (S j) w1 ++ nb :: skipn (S j) w1 in
  firstn (S (S j) - S i) (skipn (S i) w2) = na :: firstn (j - S i) (skipn (S i) vs) ++ [nb].
Proof.
  intros Hi Hij Hj w1 w2.
  assert (Hw1 : length w1 = S (length vs)).
  { unfold w1. rewrite app_length. cbn [length]. rewrite firstn_length, skipn_length. lia. }
  assert (Hs1 : skipn (S i) w1 = na :: skipn (S i) vs) by (apply skipn_insert_at; exact Hi).
  unfold w2.
  rewrite skipn_app. rewrite firstn_length, Nat.min_l by lia.
  replace (S i - S j)%nat with 0%nat by lia. rewrite skipn_O.
  rewrite skipn_firstn_comm. rewrite Hs1.
  set (m := (j - S i)%nat). set (t := skipn (S i) vs).
  replace (S j - S i)%nat with (S m) by (unfold m; lia).
  replace (S (S j) - S i)%nat with (S (S m)) by (unfold m; lia).
  rewrite firstn_cons. rewrite <- app_comm_cons. rewrite firstn_cons. f_equal.
  assert (Hm : (m <= length t)%nat) by (unfold m, t; rewrite skipn_length; lia).
  rewrite firstn_app. rewrite firstn_firstn, Nat.min_r by lia.
  rewrite firstn_length, Nat.min_l by exact Hm.
  replace (S m - m)%nat with 1%nat by lia. reflexivity.
Qed.

(* ---- sliced_at_points on an open polyline whose two nearest points are not (within 1e-8 of) vertices ---- *)
Lemma open_segments_count (pl : polyline R) k s : pclosed pl = false ->
  nth_error (pl_segments pl) k = Some s -> (S k < length (pv pl))%nat.
Proof.
  intros Hc Hk. assert (Hlt : (k < length (pl_segments pl))%nat) by (apply nth_error_Some; congruence).
  rewrite pl_segments_length, Hc in Hlt. destruct (pv pl); cbn in *; lia.
Qed.

Lemma insert_at_length (vs : list (vec3 R)) i p : (i <= length vs)%nat -> length (insert_at vs i p) = S (length vs).
Proof. intros H. unfold insert_at. rewrite app_length. cbn [length]. rewrite firstn_length, skipn_length. lia. Qed.

Section SlicedOpen.
  Context (pl : polyline R) (a b : vec3 R) (ra rb : near R).
  Context (Hopen : pclosed pl = false).
  Context (Ha : nearest_one ROps pl a = Ok ra).
  Context (Hva : index_of_vertex ROps (pv pl) (n_pt ra) = None).
  Let w1 := MkPolyline (insert_at (pv pl) (S (n_idx ra)) (n_pt ra)) false.
  Context (Hb : nearest_one ROps w1 b = Ok rb).
  Context (Hvb : index_of_vertex ROps (pv w1) (n_pt rb) = None).

  Lemma ensure_a : ensure_vertex ROps pl a = Ok (w1, S (n_idx ra), true).
  Proof.
    unfold ensure_vertex. rewrite Ha, Hva. unfold edge_end. rewrite Hopen. cbn [andb].
    unfold w1. reflexivity.
  Qed.
  Lemma ensure_b : ensure_vertex ROps w1 b =
    Ok (MkPolyline (insert_at (pv w1) (S (n_idx rb)) (n_pt rb)) false, S (n_idx rb), true).
  Proof. unfold ensure_vertex. rewrite Hb, Hvb. reflexivity. Qed.

  Lemma idx_a_bound : (S (n_idx ra) < length (pv pl))%nat.
  Proof.
    destruct (nearest_outputs_consistent _ _ _ Ha) as [x [y [Hn _]]].
    eapply open_segments_count; eauto.
  Qed.
  Lemma idx_b_bound : (S (n_idx rb) <= length (pv pl))%nat.
  Proof.
    destruct (nearest_outputs_consistent _ _ _ Hb) as [x [y [Hn _]]].
    apply open_segments_count in Hn; [|reflexivity].
    cbn [pv w1] in Hn. rewrite insert_at_length in Hn; [lia|]. pose proof idx_a_bound. lia.
  Qed.

  (* b's nearest point lies on a later edge: the slice is na, the original vertices in between, nb *)
  Lemma sliced_at_points_open_forward : (S (n_idx ra) <= n_idx rb)%nat ->
    sliced_at_points ROps pl a b =
    Ok (MkPolyline (n_pt ra :: firstn (n_idx rb - S (n_idx ra)) (skipn (S (n_idx ra)) (pv pl)) ++ [n_pt rb]) false).
  Proof.
    intros Hij. unfold sliced_at_points. rewrite ensure_a, ensure_b.
    replace (Nat.leb (S (n_idx rb)) (S (n_idx ra))) with false by (symmetry; apply Nat.leb_gt; lia).
    cbn [andb]. unfold sliced_at_indices.
    replace (Nat.leb (S (S (n_idx rb))) (S (n_idx ra))) with false by (symmetry; apply Nat.leb_gt; lia).
    cbn [pv]. f_equal. f_equal. unfold w1. cbn [pv]. unfold insert_at.
    apply slice_two_insertions; [pose proof idx_a_bound; lia | exact Hij | pose proof idx_b_bound; lia].
  Qed.

  (* b's nearest point lies on the same or an earlier edge than a's: an open polyline refuses *)
  Lemma sliced_at_points_open_backward : (n_idx rb <= n_idx ra)%nat ->
    sliced_at_points ROps pl a b = Raise ValueError.
  Proof.
    intros Hij. unfold sliced_at_points. rewrite ensure_a, ensure_b.
    replace (Nat.leb (S (n_idx rb)) (S (n_idx ra))) with true by (symmetry; apply Nat.leb_le; lia).
    cbn [andb]. unfold sliced_at_indices.
    replace (Nat.leb (S (S (n_idx rb))) (S (S (n_idx ra)))) with true by (symmetry; apply Nat.leb_le; lia).
    reflexivity.
  Qed.
End SlicedOpen.

(* ---- aligned_along_subsegment: the flip decision ---- *)
Lemma aligned_open_decision pl p1 p2 r1 r2 : pclosed pl = false ->
  nearest_one ROps pl p1 = Ok r1 -> nearest_one ROps pl p2 = Ok r2 ->
  exists f, aligned_flip ROps pl p1 p2 = Ok f /\
    (f = true <-> ((n_idx r2 < n_idx r1)%nat \/ (n_idx r1 = n_idx r2 /\ n_t r2 < n_t r1))).
Proof.
  intros Hc H1 H2. unfold aligned_flip. rewrite Hc, H1, H2.
  destruct (Nat.eqb_spec (n_idx r1) (n_idx r2)) as [E|E].
  - eexists; split; [reflexivity|]. rops. rewrite Rltb_true. split; [intros H; right; split; assumption|].
    intros [H|[_ H]]; [lia|exact H].
  - eexists; split; [reflexivity|]. rewrite Nat.ltb_lt. split; [intros H; left; exact H|].
    intros [H|[H _]]; [exact H|contradiction].
Qed.

Lemma aligned_closed_decision pl p1 p2 f : pclosed pl = true ->
  aligned_flip ROps pl p1 p2 = Ok f ->
  exists back fwd, sliced_at_points ROps pl p2 p1 = Ok back /\ sliced_at_points ROps pl p1 p2 = Ok fwd /\
    (f = true <-> total_length ROps back < total_length ROps fwd).
Proof.
  intros Hc H. unfold aligned_flip in H. rewrite Hc in H.
  destruct (sliced_at_points ROps pl p2 p1) as [back|e]; [|discriminate].
  destruct (sliced_at_points ROps pl p1 p2) as [fwd|e]; [|discriminate].
  injection H as <-. exists back, fwd. repeat split; try reflexivity; rops; apply Rltb_true.
Qed.

Lemma aligned_result pl p1 p2 r : aligned_along_subsegment ROps pl p1 p2 = Ok r ->
  exists f, aligned_flip ROps pl p1 p2 = Ok f /\ r = (if f then MkPolyline (rev (pv pl)) (pclosed pl) else pl).
Proof.
  unfold aligned_along_subsegment. destruct (aligned_flip ROps pl p1 p2) as [f|e]; [|discriminate].
  cbn. intros H; injection H as <-. exists f. split; reflexivity.
Qed.
