(* Real-number lemmas about M_polyline_nearest.v, second part: sliced_at_points on closed polylines
   (forward and wrap-around), under the explicit simplicity hypotheses. *)
From Coq Require Import ZArith Reals Lra Psatz List Bool Lia Arith.
From PW Require Import Num NumR Vec NpList Result.
From PW.model Require Import M_polyline_base M_segment M_polyline_nearest.
From PW.proofs Require Import P_vec P_nplist P_segment P_polyline_nearest.
Import ListNotations.
Local Open Scope R_scope.

Section ListPlumbing.
  Context {A : Type} (vs : list A) (ia eb : nat) (na nb : A).
  Let w1 := firstn ia vs ++ na :: skipn ia vs.
  Let w2 := firstn eb w1 ++ nb :: skipn eb w1.

  Lemma w1_length : (ia <= length vs)%nat -> length w1 = S (length vs).
  Proof. intros H. unfold w1. rewrite app_length. cbn [length]. rewrite firstn_length, skipn_length. lia. Qed.

  (* b's point is inserted after a's: the slice runs forward *)
  Lemma slice_forward_gen : (ia <= length vs)%nat -> (ia < eb)%nat -> (eb <= S (length vs))%nat ->
    firstn (S eb - ia) (skipn ia w2) = na :: firstn (eb - S ia) (skipn ia vs) ++ [nb].
  Proof.
    intros Hi Hij Hj. pose proof (w1_length Hi) as Hw1.
    assert (Hs1 : skipn ia w1 = na :: skipn ia vs) by (apply skipn_insert_at; exact Hi).
    unfold w2. rewrite skipn_app. rewrite firstn_length, Nat.min_l by lia.
    replace (ia - eb)%nat with 0%nat by lia. rewrite skipn_O.
    rewrite skipn_firstn_comm. rewrite Hs1.
    set (m := (eb - S ia)%nat). set (t := skipn ia vs).
    replace (eb - ia)%nat with (S m) by (unfold m; lia).
    replace (S eb - ia)%nat with (S (S m)) by (unfold m; lia).
    rewrite firstn_cons. rewrite <- app_comm_cons. rewrite firstn_cons. f_equal.
    assert (Hm : (m <= length t)%nat) by (unfold m, t; rewrite skipn_length; lia).
    rewrite firstn_app. rewrite firstn_firstn, Nat.min_r by lia.
    rewrite firstn_length, Nat.min_l by exact Hm.
    replace (S m - m)%nat with 1%nat by lia. reflexivity.
  Qed.

  (* b's point is inserted at or before a's: the slice runs from a's point to the end of the vertex list and
     continues from the start up to b's point *)
  Lemma slice_wrap_gen : (eb <= ia)%nat -> (ia <= length vs)%nat ->
    firstn (length w2 - S ia + S eb) (skipn (S ia) w2 ++ firstn (S ia) w2) =
    na :: skipn ia vs ++ firstn eb vs ++ [nb].
  Proof.
    intros Hji Hi. pose proof (w1_length Hi) as Hw1.
    set (Ap := firstn eb vs). set (B := skipn eb (firstn ia vs)). set (C := skipn ia vs).
    assert (HA : length Ap = eb) by (unfold Ap; rewrite firstn_length; lia).
    assert (HB : length B = (ia - eb)%nat) by (unfold B; rewrite skipn_length, firstn_length; lia).
    assert (E2 : w2 = (Ap ++ nb :: B) ++ na :: C).
    { unfold w2, w1. rewrite firstn_app. rewrite firstn_firstn, Nat.min_l by lia.
      rewrite firstn_length, Nat.min_l by lia. replace (eb - ia)%nat with 0%nat by lia. cbn [firstn]. rewrite app_nil_r.
      rewrite skipn_app. rewrite firstn_length, Nat.min_l by lia. replace (eb - ia)%nat with 0%nat by lia.
      rewrite skipn_O. fold Ap B C. rewrite <- app_assoc. reflexivity. }
    assert (HP : length (Ap ++ nb :: B) = S ia).
    { rewrite app_length. change (length (nb :: B)) with (S (length B)). rewrite HA, HB. lia. }
    rewrite E2.
    assert (Hsk : skipn (S ia) ((Ap ++ nb :: B) ++ na :: C) = na :: C).
    { rewrite skipn_app, HP, Nat.sub_diag. rewrite (skipn_all2 (Ap ++ nb :: B)) by lia. reflexivity. }
    assert (Hfi : firstn (S ia) ((Ap ++ nb :: B) ++ na :: C) = Ap ++ nb :: B).
    { rewrite firstn_app, HP, Nat.sub_diag. rewrite (firstn_all2 (Ap ++ nb :: B)) by lia. cbn [firstn]. apply app_nil_r. }
    rewrite Hsk, Hfi, app_length, HP. change (length (na :: C)) with (S (length C)).
    replace (S ia + S (length C) - S ia + S eb)%nat with (length (na :: C) + S eb)%nat
      by (change (length (na :: C)) with (S (length C)); lia).
    rewrite firstn_app_2. rewrite <- app_comm_cons. f_equal. f_equal.
    rewrite firstn_app, HA. replace (S eb - eb)%nat with 1%nat by lia.
    rewrite (firstn_all2 Ap) by lia. reflexivity.
  Qed.
End ListPlumbing.

(* ---- sliced_at_points on a closed polyline whose two nearest points are not (within 1e-8 of) vertices ---- *)
Lemma edge_end_le (pl : polyline R) k : (k < length (pl_segments pl))%nat -> pclosed pl = true ->
  (edge_end pl k < length (pv pl))%nat.
Proof.
  intros Hk Hc. rewrite pl_segments_length, Hc in Hk. unfold edge_end. rewrite Hc. cbn [andb].
  destruct (pv pl) as [|h t]; [cbn in Hk; lia|]. cbn [length] in *.
  destruct (Nat.eqb_spec (S k) (S (length t))); lia.
Qed.

Section SlicedClosed.
  Context (pl : polyline R) (a b : vec3 R) (ra rb : near R).
  Context (Hclosed : pclosed pl = true).
  Context (Ha : nearest_one ROps pl a = Ok ra).
  Context (Hva : index_of_vertex ROps (pv pl) (n_pt ra) = None).
  Let ia := edge_end pl (n_idx ra).
  Let w1 := MkPolyline (insert_at (pv pl) ia (n_pt ra)) true.
  Context (Hb : nearest_one ROps w1 b = Ok rb).
  Context (Hvb : index_of_vertex ROps (pv w1) (n_pt rb) = None).
  Let eb := edge_end w1 (n_idx rb).

  Lemma c_ensure_a : ensure_vertex ROps pl a = Ok (w1, ia, true).
  Proof. unfold ensure_vertex. rewrite Ha, Hva. unfold w1, ia. rewrite Hclosed. reflexivity. Qed.
  Lemma c_ensure_b : ensure_vertex ROps w1 b = Ok (MkPolyline (insert_at (pv w1) eb (n_pt rb)) true, eb, true).
  Proof. unfold ensure_vertex. rewrite Hb, Hvb. reflexivity. Qed.

  Lemma c_ia_bound : (ia < length (pv pl))%nat.
  Proof.
    destruct (nearest_outputs_consistent _ _ _ Ha) as [x [y [Hn _]]].
    apply edge_end_le; [apply nth_error_Some; congruence|exact Hclosed].
  Qed.
  Lemma c_eb_bound : (eb <= length (pv pl))%nat.
  Proof.
    destruct (nearest_outputs_consistent _ _ _ Hb) as [x [y [Hn _]]].
    assert (H : (eb < length (pv w1))%nat) by (apply edge_end_le; [apply nth_error_Some; congruence|reflexivity]).
    cbn [pv w1] in H. rewrite insert_at_length in H; [lia|]. pose proof c_ia_bound. lia.
  Qed.

  (* b's point comes after a's in vertex order: nearest(a), the original vertices in between, nearest(b) *)
  Lemma sliced_at_points_closed_forward : (ia < eb)%nat ->
    sliced_at_points ROps pl a b =
    Ok (MkPolyline (n_pt ra :: firstn (eb - S ia) (skipn ia (pv pl)) ++ [n_pt rb]) false).
  Proof.
    intros Hij. unfold sliced_at_points. rewrite c_ensure_a, c_ensure_b.
    replace (Nat.leb eb ia) with false by (symmetry; apply Nat.leb_gt; lia).
    cbn [andb]. unfold sliced_at_indices.
    replace (Nat.leb (S eb) ia) with false by (symmetry; apply Nat.leb_gt; lia).
    cbn [pv]. f_equal. f_equal. unfold w1. cbn [pv]. unfold insert_at.
    apply slice_forward_gen; [pose proof c_ia_bound; lia | exact Hij | pose proof c_eb_bound; lia].
  Qed.

  (* b's point comes at or before a's: the sub-path wraps around the end of the vertex list *)
  Lemma sliced_at_points_closed_wrap : (eb <= ia)%nat ->
    sliced_at_points ROps pl a b =
    Ok (MkPolyline (n_pt ra :: skipn ia (pv pl) ++ firstn eb (pv pl) ++ [n_pt rb]) false).
  Proof.
    intros Hji. unfold sliced_at_points. rewrite c_ensure_a, c_ensure_b.
    replace (Nat.leb eb ia) with true by (symmetry; apply Nat.leb_le; lia).
    cbn [andb]. unfold sliced_at_indices.
    replace (Nat.leb (S eb) (S ia)) with true by (symmetry; apply Nat.leb_le; lia).
    cbn [pclosed pv]. f_equal. f_equal. unfold w1. cbn [pv]. unfold insert_at.
    apply slice_wrap_gen; [exact Hji | pose proof c_ia_bound; lia].
  Qed.
End SlicedClosed.

(* both closed cases in one statement, with the working polyline spelled out *)
Lemma sliced_at_points_closed pl a b ra rb :
  pclosed pl = true ->
  nearest_one ROps pl a = Ok ra ->
  index_of_vertex ROps (pv pl) (n_pt ra) = None ->
  nearest_one ROps (MkPolyline (insert_at (pv pl) (edge_end pl (n_idx ra)) (n_pt ra)) true) b = Ok rb ->
  index_of_vertex ROps (insert_at (pv pl) (edge_end pl (n_idx ra)) (n_pt ra)) (n_pt rb) = None ->
  let ia := edge_end pl (n_idx ra) in
  let eb := edge_end (MkPolyline (insert_at (pv pl) (edge_end pl (n_idx ra)) (n_pt ra)) true) (n_idx rb) in
  ((ia < eb)%nat -> sliced_at_points ROps pl a b =
      Ok (MkPolyline (n_pt ra :: firstn (eb - S ia) (skipn ia (pv pl)) ++ [n_pt rb]) false)) /\
  ((eb <= ia)%nat -> sliced_at_points ROps pl a b =
      Ok (MkPolyline (n_pt ra :: skipn ia (pv pl) ++ firstn eb (pv pl) ++ [n_pt rb]) false)).
Proof.
  intros Hc Ha Hva Hb Hvb ia eb. split.
  - exact (sliced_at_points_closed_forward pl a b ra rb Hc Ha Hva Hb Hvb).
  - exact (sliced_at_points_closed_wrap pl a b ra rb Hc Ha Hva Hb Hvb).
Qed.

Lemma closest_point_on_segment p a v :
  closest_point ROps p a v = vadd ROps a (vscale ROps (closest_t ROps p a v) v) /\
  0 <= closest_t ROps p a v <= 1.
Proof. exact (conj (closest_point_is_seg_at p a v) (closest_t_range p a v)). Qed.
Lemma nearest_total pl ps : pl_segments pl <> [] -> exists rs, nearest_many ROps pl ps = Ok rs.
Proof. intros H. exact (nearest_many_total pl H ps). Qed.
Lemma aligned_spec :
  (forall pl p1 p2 r1 r2, pclosed pl = false ->
     nearest_one ROps pl p1 = Ok r1 -> nearest_one ROps pl p2 = Ok r2 ->
     exists f, aligned_flip ROps pl p1 p2 = Ok f /\
       (f = true <-> ((n_idx r2 < n_idx r1)%nat \/ (n_idx r1 = n_idx r2 /\ n_t r2 < n_t r1)))) /\
  (forall pl p1 p2 f, pclosed pl = true -> aligned_flip ROps pl p1 p2 = Ok f ->
     exists back fwd, sliced_at_points ROps pl p2 p1 = Ok back /\ sliced_at_points ROps pl p1 p2 = Ok fwd /\
       (f = true <-> total_length ROps back < total_length ROps fwd)) /\
  (forall pl p1 p2 r, aligned_along_subsegment ROps pl p1 p2 = Ok r ->
     exists f, aligned_flip ROps pl p1 p2 = Ok f /\
       r = (if f then MkPolyline (rev (pv pl)) (pclosed pl) else pl)).
Proof. exact (conj aligned_open_decision (conj aligned_closed_decision aligned_result)). Qed.
