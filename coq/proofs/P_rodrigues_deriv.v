(* Real-number lemmas for M_rodrigues.v (C10): the forward Jacobian is the derivative of the forward map (Coquelicot). *)
From Coq Require Import ZArith Reals Lra Psatz List Bool Lia Nsatz.
From Coquelicot Require Import Coquelicot.
From PW Require Import Num NumR Vec Mat NpList Result.
From PW.model Require Import M_rodrigues M_rodrigues_spec.
From PW.proofs Require Import P_vec P_mat P_rodrigues.
Import ListNotations.
Local Open Scope R_scope.

(* the line r + t e *)
Definition rline (x y z e0 e1 e2 t : R) : vec3 R := V3 (x + t * e0) (y + t * e1) (z + t * e2).
(* the Rodrigues matrix along the line, with the angle as an abstract function of t *)
Definition gmat (th : R -> R) (x y z e0 e1 e2 t : R) : mat3 R :=
  rod_matrix ROps (cos (th t)) (sin (th t)) (vscale ROps (1 / th t) (rline x y z e0 e1 e2 t)).

Ltac dlazy := lazy [m3get vscale rod_matrix rod_jac_row rod_drrt rod_dskew m3add m3scale m3outer m3skew rod_m1 vget I3
       n0 n1 n2 nofZ nadd nsub nmul ndiv nneg ROps a00 a01 a02 a10 a11 a12 a20 a21 a22 vx vy vz].

Lemma gmat_derive (th : R -> R) (dth t0 x y z e0 e1 e2 : R) (a b : nat) :
  (a < 3)%nat -> (b < 3)%nat ->
  is_derive th 0 dth -> th 0 = t0 -> t0 <> 0 -> t0 * t0 = x * x + y * y + z * z ->
  dth * t0 = x * e0 + y * e1 + z * e2 ->
  let k := vscale ROps (1 / t0) (V3 x y z) in
  let J j := rod_jac_row ROps (cos t0) (sin t0) (1 / t0) k j in
  is_derive (fun t => m3get (gmat th x y z e0 e1 e2 t) a b) 0
    (e0 * m3get (J 0%nat) a b + e1 * m3get (J 1%nat) a b + e2 * m3get (J 2%nat) a b).
Proof.
  intros Ha Hb Hd Ht0 Hnz Hsq Hdth k J. subst k J.
  assert (Hex : ex_derive (fun x0 : R => th x0) 0) by (exists dth; exact Hd).
  assert (HD : Derive (fun x0 : R => th x0) 0 = dth) by (apply is_derive_unique; exact Hd).
  assert (Hdth' : dth = (x * e0 + y * e1 + z * e2) * / t0) by (rewrite <- Hdth; field; exact Hnz).
  destruct a as [|[|[|a]]]; try lia; destruct b as [|[|[|b]]]; try lia.
  all: match goal with |- is_derive _ _ ?l => set (L := l) end;
       lazy [gmat rline]; dlazy;
       auto_derive; [rewrite Ht0; repeat split; assumption |];
       rewrite HD, Ht0, Hdth'; subst L; dlazy;
       unfold Rdiv; rewrite ?Rinv_mult; ring.
Qed.

(* the angle along the line and its derivative (r . e) / |r| *)
Definition thline (x y z e0 e1 e2 t : R) : R := vnorm ROps (rline x y z e0 e1 e2 t).
Lemma thline_derive x y z e0 e1 e2 : 0 < x * x + y * y + z * z ->
  is_derive (thline x y z e0 e1 e2) 0 ((x * e0 + y * e1 + z * e2) / sqrt (x * x + y * y + z * z)).
Proof.
  intros Hq. unfold thline, rline, vnorm, vnorm2, vdot; rops; cbn [vx vy vz].
  assert (Hs : 0 < sqrt (x * x + y * y + z * z)) by (apply sqrt_lt_R0, Hq).
  auto_derive.
  - rewrite !Rmult_0_l, !Rplus_0_r. exact Hq.
  - rewrite !Rmult_0_l, !Rplus_0_r. field. lra.
Qed.

(* the generic-branch formulas of the code *)
Definition fwd_formula (r : vec3 R) : mat3 R :=
  rod_matrix ROps (cos (vnorm ROps r)) (sin (vnorm ROps r)) (rod_axis ROps r).
Definition jac_formula (r : vec3 R) (j : nat) : mat3 R :=
  rod_jac_row ROps (cos (vnorm ROps r)) (sin (vnorm ROps r)) (1 / vnorm ROps r) (rod_axis ROps r) j.

(* directional derivative of every entry of the Rodrigues formula, at every r <> 0, in every direction e *)
Lemma fwd_formula_derive (r e : vec3 R) (a b : nat) : (a < 3)%nat -> (b < 3)%nat -> 0 < vnorm2 ROps r ->
  is_derive (fun t => m3get (fwd_formula (vadd ROps r (vscale ROps t e))) a b) 0
    (vx e * m3get (jac_formula r 0) a b + vy e * m3get (jac_formula r 1) a b + vz e * m3get (jac_formula r 2) a b).
Proof.
  destruct r as [x y z], e as [e0 e1 e2]. intros Ha Hb Hq. vunf_in Hq. cbn [vx vy vz].
  pose proof (thline_derive x y z e0 e1 e2 Hq) as Hd.
  assert (Hs : 0 < sqrt (x * x + y * y + z * z)) by (apply sqrt_lt_R0, Hq).
  assert (Hss : sqrt (x * x + y * y + z * z) * sqrt (x * x + y * y + z * z) = x * x + y * y + z * z)
    by (apply sqrt_sqrt; lra).
  assert (H0 : thline x y z e0 e1 e2 0 = sqrt (x * x + y * y + z * z)).
  { unfold thline, rline, vnorm, vnorm2, vdot; rops; cbn [vx vy vz]. rewrite !Rmult_0_l, !Rplus_0_r. reflexivity. }
  pose proof (gmat_derive (thline x y z e0 e1 e2) _ _ x y z e0 e1 e2 a b Ha Hb Hd H0) as G.
  cbv zeta in G.
  apply (is_derive_ext (fun t => m3get (gmat (thline x y z e0 e1 e2) x y z e0 e1 e2 t) a b)).
  - intros t. reflexivity.
  - apply G; [lra | exact Hss | field; lra].
Qed.

(* |r + t e_j| >= |r| - |t| *)
Lemma vnorm_step_lower (r : vec3 R) (j : nat) (t : R) :
  vnorm ROps r - Rabs t <= vnorm ROps (vadd ROps r (vscale ROps t (vbasis ROps j))).
Proof.
  pose proof (vnorm_nonneg r) as Hn. pose proof (vnorm_sq r) as Hn2.
  set (r' := vadd ROps r (vscale ROps t (vbasis ROps j))).
  pose proof (vnorm_nonneg r') as Hm. pose proof (vnorm_sq r') as Hm2.
  set (n := vnorm ROps r) in *. set (m := vnorm ROps r') in *. clearbody n m.
  assert (Hj : exists rj, rj * rj <= n * n /\ vnorm2 ROps r' = n * n + 2 * (t * rj) + t * t).
  { subst r'. destruct r as [x y z]. destruct j as [|[|j]]; [exists x | exists y | exists z];
    rewrite Hn2; unfold vbasis, n0, n1; (split; [vunf; nra | vunf; ring]). }
  destruct Hj as (rj & Hrj & E). rewrite E in Hm2. clear E Hn2. clearbody r'.
  assert (Hb : - n <= rj <= n) by (split; nra).
  assert (Ht : - (Rabs t * n) <= t * rj).
  { unfold Rabs. destruct (Rcase_abs t); nra. }
  destruct (Rle_lt_dec (n - Rabs t) m) as [H|H]; [exact H|]. exfalso.
  pose proof (Rabs_pos t). assert (Rabs t * Rabs t = t * t) by (unfold Rabs; destruct (Rcase_abs t); ring).
  nra.
Qed.

(* The (3,9) Jacobian the code returns is the derivative of the code's own map: for every rotation vector with
   |r| > eps, every coordinate j and every matrix entry (a, b) *)
Lemma fwd_jacobian_is_derivative (r : vec3 R) (j a b : nat) :
  (j < 3)%nat -> (a < 3)%nat -> (b < 3)%nat -> rod_eps ROps < vnorm ROps r ->
  exists Jj, nth_error (rodrigues_fwd_jac ROps r) j = Some Jj /\
    is_derive (fun t => m3get (rodrigues_fwd ROps (vadd ROps r (vscale ROps t (vbasis ROps j)))) a b) 0 (m3get Jj a b).
Proof.
  intros Hj Ha Hb He. pose proof rod_eps_pos as Hep.
  exists (jac_formula r j). split.
  - unfold rodrigues_fwd_jac, rod_theta. change (nltb ROps) with Rltb.
    rewrite (proj2 (Rltb_false _ _)) by lra.
    destruct j as [|[|[|j]]]; try lia; reflexivity.
  - assert (Hq : 0 < vnorm2 ROps r).
    { rewrite <- vnorm_sq. apply Rmult_lt_0_compat; lra. }
    pose proof (fwd_formula_derive r (vbasis ROps j) a b Ha Hb Hq) as D.
    replace (vx (vbasis ROps j) * m3get (jac_formula r 0) a b + vy (vbasis ROps j) * m3get (jac_formula r 1) a b +
             vz (vbasis ROps j) * m3get (jac_formula r 2) a b) with (m3get (jac_formula r j) a b) in D
      by (destruct j as [|[|[|j]]]; try lia; unfold vbasis, n0, n1; rops; cbn [vx vy vz]; ring).
    eapply is_derive_ext_loc; [| exact D].
    assert (Hd : 0 < vnorm ROps r - rod_eps ROps) by lra.
    exists (mkposreal _ Hd). intros t Ht.
    assert (Ht' : Rabs (t - 0) < vnorm ROps r - rod_eps ROps) by exact Ht.
    rewrite Rminus_0_r in Ht'.
    pose proof (vnorm_step_lower r j t) as Hl.
    unfold fwd_formula. rewrite fwd_generic by lra. reflexivity.
Qed.
