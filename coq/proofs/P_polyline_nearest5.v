(* C07, sub-path clause on CLOSED polylines, complete: the case where nearest(a) lies on the closing edge
   (the code inserts it at position 0 and every index shifts), and one statement for all cases: the result is the
   cyclic sub-path  [na] ++ (vertices from the successor of na's segment, cyclically, up to nb's segment start) ++ [nb]. *)
From Coq Require Import ZArith Reals Lra Psatz List Bool Lia Arith.
From PW Require Import Num NumR Vec NpList Result.
From PW.model Require Import M_polyline_base M_segment M_polyline_nearest M_polyline_nearest_spec.
From PW.proofs Require Import P_vec P_nplist P_segment P_polyline_nearest P_polyline_nearest2 P_polyline_nearest3
  P_polyline_nearest4.
Import ListNotations.
Local Open Scope R_scope.

(* ---- the segments of a closed polyline ---- *)
Lemma last_cons_default {A} (h : A) t d : last (h :: t) d = last t h.
Proof. revert h d. induction t as [|x r IH]; intros h d; [reflexivity|]. change (last (h :: x :: r) d) with (last (x :: r) d). rewrite IH. symmetry. apply IH. Qed.

Lemma closed_segments_eq (vs : list (vec3 R)) d : vs <> [] ->
  pl_segments (MkPolyline vs true) = open_segments vs ++ [(last vs d, hd d vs)].
Proof.
  intros H. destruct vs as [|h t]; [congruence|]. unfold pl_segments. cbn [pv pclosed hd open_segments].
  rewrite last_cons_default. reflexivity.
Qed.
Lemma open_segments_length (vs : list (vec3 R)) : length (open_segments vs) = (length vs - 1)%nat.
Proof. unfold open_segments. destruct vs as [|h t]; [reflexivity|]. rewrite zip_length. cbn [length]. lia. Qed.

(* the closing edge is the last segment *)
Lemma closing_segment (pl : polyline R) h t : pclosed pl = true -> pv pl = h :: t ->
  pl_segments pl = open_segments (h :: t) ++ [(last t h, h)] /\
  nth_error (pl_segments pl) (length t) = Some (last t h, h).
Proof.
  intros Hc Hv. assert (E : pl_segments pl = open_segments (h :: t) ++ [(last t h, h)]).
  { unfold pl_segments. rewrite Hv, Hc. reflexivity. }
  split; [exact E|]. rewrite E. rewrite nth_error_app2; rewrite open_segments_length; cbn [length]; [|lia].
  replace (length t - (S (length t) - 1))%nat with 0%nat by lia. reflexivity.
Qed.

(* the segment list after a point has been made vertex 0 (the point lies on the closing edge) *)
Lemma pl_segments_insert0 (pl : polyline R) h t x : pclosed pl = true -> pv pl = h :: t ->
  pl_segments (MkPolyline (insert_at (pv pl) 0 x) true) = (x, h) :: open_segments (h :: t) ++ [(last t h, x)].
Proof.
  intros Hc Hv. rewrite Hv. unfold insert_at. cbn [firstn skipn app]. unfold pl_segments. cbn [pv pclosed].
  rewrite last_cons_default. reflexivity.
Qed.

Section TransferClosing.
  Context (pl : polyline R) (h : vec3 R) (t : list (vec3 R)) (x : vec3 R) (tx : R).
  Context (Hc : pclosed pl = true) (Hv : pv pl = h :: t).
  Let L := last t h.
  Context (Hx : x = seg_at L (vsub ROps h L) tx) (Htx : 0 <= tx <= 1).
  Let w1 := MkPolyline (insert_at (pv pl) 0 x) true.
  Let Z := open_segments (h :: t).

  Lemma hits_closed q : hits ROps pl q = map (seg_hit_of ROps q) Z ++ [seg_hit_of ROps q (L, h)].
  Proof. unfold hits. rewrite (proj1 (closing_segment pl h t Hc Hv)), map_app. reflexivity. Qed.
  Lemma hits_after_insert0 q :
    hits ROps w1 q = seg_hit_of ROps q (x, h) :: map (seg_hit_of ROps q) Z ++ [seg_hit_of ROps q (L, x)].
  Proof. unfold hits, w1. rewrite (pl_segments_insert0 pl h t x Hc Hv). cbn [map]. rewrite map_app. reflexivity. Qed.
  Lemma Z_length q : length (map (seg_hit_of ROps q) Z) = length t.
  Proof. rewrite map_length. unfold Z. rewrite open_segments_length. cbn [length]. lia. Qed.

  (* a query whose unique nearest point lies on another segment keeps it; the segment index goes up by one *)
  Lemma nearest_transfer_closing q r : nearest_one ROps pl q = Ok r -> n_idx r <> length t ->
    (forall j s, j <> n_idx r -> nth_error (pl_segments pl) j = Some s -> n_d r < h_d (seg_hit_of ROps q s)) ->
    nearest_one ROps w1 q = Ok (Near (n_pt r) (S (n_idx r)) (n_d r) (n_t r)).
  Proof.
    intros Hr Hne Hu. destruct (nearest_one_inv _ _ _ Hr) as [hh [Ham [Hp [Hd Ht]]]].
    destruct (amin_by_spec h_d _ _ _ Ham) as [Hn _].
    pose proof (proj2 (closing_segment pl h t Hc Hv)) as Hcl. fold L in Hcl.
    assert (Hfull : forall y, (y = seg_hit_of ROps q (x, h) \/ y = seg_hit_of ROps q (L, x)) -> n_d r < h_d y).
    { intros y Hy. eapply Rlt_le_trans; [apply (Hu (length t) (L, h)); [congruence|exact Hcl]|].
      destruct Hy as [->| ->].
      - apply (subsegment_not_closer q L h x h tx 1); [exact Hx|symmetry; apply seg_at_1|exact Htx|lra].
      - apply (subsegment_not_closer q L h L x 0 tx); [symmetry; apply seg_at_0|exact Hx|lra|exact Htx]. }
    assert (Hidx : (n_idx r < length t)%nat).
    { assert (n_idx r < length (hits ROps pl q))%nat by (apply nth_error_Some; congruence).
      rewrite hits_closed, app_length, Z_length in H. cbn [length] in H. lia. }
    assert (Hold : forall i y, i <> n_idx r -> nth_error (hits ROps pl q) i = Some y -> n_d r < h_d y).
    { intros i y Hi Hiy. rewrite hits_nth in Hiy. destruct (nth_error (pl_segments pl) i) as [s|] eqn:Es; [|discriminate].
      injection Hiy as <-. apply (Hu i s Hi Es). }
    unfold nearest_one. rewrite (amin_by_unique h_d _ (S (n_idx r)) hh).
    - rewrite Hp, Hd, Ht. reflexivity.
    - rewrite hits_after_insert0. cbn [nth_error]. rewrite nth_error_app1 by (rewrite Z_length; exact Hidx).
      rewrite hits_closed, nth_error_app1 in Hn by (rewrite Z_length; exact Hidx). exact Hn.
    - intros m y Hm Hy. rewrite <- Hd. rewrite hits_after_insert0 in Hy.
      destruct m as [|m]; cbn [nth_error] in Hy; [injection Hy as <-; apply Hfull; left; reflexivity|].
      destruct (Nat.lt_ge_cases m (length t)) as [Hlt|Hge].
      + rewrite nth_error_app1 in Hy by (rewrite Z_length; exact Hlt).
        apply (Hold m); [lia|]. rewrite hits_closed, nth_error_app1 by (rewrite Z_length; exact Hlt). exact Hy.
      + rewrite nth_error_app2 in Hy by (rewrite Z_length; exact Hge). rewrite Z_length in Hy.
        destruct (m - length t)%nat as [|k]; cbn [nth_error] in Hy; [|destruct k; discriminate].
        injection Hy as <-. apply Hfull. right. reflexivity.
  Qed.

  (* a query whose unique nearest point lies on the closing edge as well, at another parameter: it is found on the half
     that contains it, which is segment 0 (x, h) or the new last segment (L, x) *)
  Context (Hnz : vdot ROps (vsub ROps h L) (vsub ROps h L) <> 0).
  Lemma nearest_transfer_closing_same q r : nearest_one ROps pl q = Ok r -> n_idx r = length t -> n_t r <> tx ->
    (forall j s, j <> n_idx r -> nth_error (pl_segments pl) j = Some s -> n_d r < h_d (seg_hit_of ROps q s)) ->
    exists t', nearest_one ROps w1 q = Ok (Near (n_pt r) (if Rltb tx (n_t r) then 0%nat else S (length t)) (n_d r) t').
  Proof.
    intros Hr Hk Hne Hu. destruct (nearest_one_inv _ _ _ Hr) as [hh [Ham [Hp [Hd Ht]]]].
    destruct (amin_by_spec h_d _ _ _ Ham) as [Hn _].
    pose proof (proj2 (closing_segment pl h t Hc Hv)) as Hcl. fold L in Hcl.
    rewrite Hk in *. rewrite hits_nth, Hcl in Hn. cbn [option_map] in Hn. injection Hn as Hh.
    assert (Htb : n_t r = closest_t ROps q L (vsub ROps h L)) by (rewrite Ht, <- Hh; reflexivity).
    pose proof (closest_t_range q L (vsub ROps h L)) as Hrange. rewrite <- Htb in Hrange.
    assert (Hold : forall i y, i <> length t -> nth_error (hits ROps pl q) i = Some y -> n_d r < h_d y).
    { intros i y Hi Hiy. rewrite hits_nth in Hiy. destruct (nth_error (pl_segments pl) i) as [s|] eqn:Es; [|discriminate].
      injection Hiy as <-. apply (Hu i s Hi Es). }
    assert (HL0 : L = seg_at L (vsub ROps h L) 0) by (symmetry; apply seg_at_0).
    assert (Hh1 : h = seg_at L (vsub ROps h L) 1) by (symmetry; apply seg_at_1).
    assert (Hfull : h_d (seg_hit_of ROps q (L, h)) = n_d r) by (rewrite Hd, <- Hh; reflexivity).
    assert (Hfullp : h_pt (seg_hit_of ROps q (L, h)) = n_pt r) by (rewrite Hp, <- Hh; reflexivity).
    assert (Hmid : forall m y, (m < length t)%nat -> nth_error (map (seg_hit_of ROps q) Z) m = Some y -> n_d r < h_d y).
    { intros m y Hm Hy. apply (Hold m); [lia|]. rewrite hits_closed, nth_error_app1 by (rewrite Z_length; exact Hm). exact Hy. }
    destruct (Rltb_spec tx (n_t r)) as [Hlt|Hge].
    - (* on (x, h): segment 0 *)
      destruct (sub_contains q L h x h tx 1 Hx Hh1 ltac:(lra) ltac:(lra) ltac:(lra) Hnz ltac:(lra) ltac:(rewrite <- Htb; lra)) as [Ep Ed].
      pose proof (sub_excludes q L h L x 0 tx HL0 Hx ltac:(lra) ltac:(lra) ltac:(lra) Hnz ltac:(right; rewrite <- Htb; exact Hlt)) as Hex.
      exists (h_t (seg_hit_of ROps q (x, h))). unfold nearest_one.
      rewrite (amin_by_unique h_d _ 0%nat (seg_hit_of ROps q (x, h))).
      + rewrite Ep, Ed, Hfull, Hfullp. reflexivity.
      + rewrite hits_after_insert0. reflexivity.
      + intros m y Hm Hy. rewrite Ed, Hfull. rewrite hits_after_insert0 in Hy.
        destruct m as [|m]; [lia|]. cbn [nth_error] in Hy.
        destruct (Nat.lt_ge_cases m (length t)) as [Hl|Hg].
        * rewrite nth_error_app1 in Hy by (rewrite Z_length; exact Hl). apply (Hmid m y Hl Hy).
        * rewrite nth_error_app2 in Hy by (rewrite Z_length; exact Hg). rewrite Z_length in Hy.
          destruct (m - length t)%nat as [|k]; cbn [nth_error] in Hy; [|destruct k; discriminate].
          injection Hy as <-. rewrite <- Hfull. exact Hex.
    - (* on (L, x): the new last segment *)
      assert (Hlt : n_t r < tx) by lra.
      destruct (sub_contains q L h L x 0 tx HL0 Hx ltac:(lra) ltac:(lra) ltac:(lra) Hnz ltac:(lra) ltac:(rewrite <- Htb; lra)) as [Ep Ed].
      pose proof (sub_excludes q L h x h tx 1 Hx Hh1 ltac:(lra) ltac:(lra) ltac:(lra) Hnz ltac:(left; rewrite <- Htb; exact Hlt)) as Hex.
      exists (h_t (seg_hit_of ROps q (L, x))). unfold nearest_one.
      rewrite (amin_by_unique h_d _ (S (length t)) (seg_hit_of ROps q (L, x))).
      + rewrite Ep, Ed, Hfull, Hfullp. reflexivity.
      + rewrite hits_after_insert0. cbn [nth_error]. rewrite nth_error_app2 by (rewrite Z_length; lia).
        rewrite Z_length, Nat.sub_diag. reflexivity.
      + intros m y Hm Hy. rewrite Ed, Hfull. rewrite hits_after_insert0 in Hy.
        destruct m as [|m]; cbn [nth_error] in Hy; [injection Hy as <-; rewrite <- Hfull; exact Hex|].
        destruct (Nat.lt_ge_cases m (length t)) as [Hl|Hg].
        * rewrite nth_error_app1 in Hy by (rewrite Z_length; exact Hl). apply (Hmid m y Hl Hy).
        * rewrite nth_error_app2 in Hy by (rewrite Z_length; exact Hg). rewrite Z_length in Hy.
          destruct (m - length t)%nat as [|k] eqn:Ek; cbn [nth_error] in Hy; [lia|destruct k; discriminate].
  Qed.
End TransferClosing.

Lemma nth_error_last {A} (t : list A) : forall h, nth_error (h :: t) (length t) = Some (last t h).
Proof. induction t as [|x r IH]; intros h; [reflexivity|]. cbn [length nth_error]. rewrite IH, (last_cons_default x r h). reflexivity. Qed.

(* ---- sliced_at_points on a closed polyline, nearest(a) on the closing edge; hypotheses about the ORIGINAL polyline ---- *)
Section SlicedClosingEdge.
  Context (pl : polyline R) (a b : vec3 R) (ra rb : near R).
  Context (Ha : nearest_one ROps pl a = Ok ra) (Hb : nearest_one ROps pl b = Ok rb).
  Context (Hva : index_of_vertex ROps (pv pl) (n_pt ra) = None) (Hvb : index_of_vertex ROps (pv pl) (n_pt rb) = None).
  Context (Hfar : near_vertex ROps (n_pt rb) (n_pt ra) = false).
  Context (Hub : forall j s, j <> n_idx rb -> nth_error (pl_segments pl) j = Some s -> n_d rb < h_d (seg_hit_of ROps b s)).
  Context (Hclosed : pclosed pl = true) (Hka : S (n_idx ra) = length (pv pl)).

  Lemma edge_end_closing : edge_end pl (n_idx ra) = 0%nat.
  Proof. unfold edge_end. rewrite Hclosed, Hka, Nat.eqb_refl. reflexivity. Qed.

  Lemma sliced_closed_on_closing_edge :
    ((n_idx rb < n_idx ra)%nat -> sliced_at_points ROps pl a b =
       Ok (MkPolyline (n_pt ra :: firstn (S (n_idx rb)) (pv pl) ++ [n_pt rb]) false)) /\
    (n_idx rb = n_idx ra -> n_t ra < n_t rb -> sliced_at_points ROps pl a b = Ok (MkPolyline [n_pt ra; n_pt rb] false)) /\
    (n_idx rb = n_idx ra -> n_t rb < n_t ra -> sliced_at_points ROps pl a b =
       Ok (MkPolyline (n_pt ra :: pv pl ++ [n_pt rb]) false)).
  Proof.
    destruct (pv pl) as [|h t] eqn:Hv; [cbn [length] in Hka; lia|]. cbn [length] in Hka. injection Hka as Hka'.
    destruct (nearest_outputs_consistent _ _ _ Ha) as [A [B [Hs [Hp [Ht _]]]]].
    pose proof (proj2 (closing_segment pl h t Hclosed Hv)) as Hcl. rewrite <- Hka' in Hcl.
    rewrite Hs in Hcl. injection Hcl as -> ->.
    assert (HA : nth_error (pv pl) (n_idx ra) = Some (last t h)) by (rewrite Hv, Hka'; apply nth_error_last).
    pose proof (segment_nondegenerate pl a ra _ _ Ha ltac:(rewrite Hv; exact Hva) HA Hs) as Hnz.
    pose proof (sliced_at_points_closed pl a b ra) as HS.
    assert (Hee : edge_end pl (n_idx ra) = 0%nat).
    { unfold edge_end. rewrite Hclosed, Hv. cbn [length]. rewrite Hka', Nat.eqb_refl. reflexivity. }
    rewrite Hee in HS. rewrite Hv in HS.
    assert (Hw1 : insert_at (h :: t) 0 (n_pt ra) = n_pt ra :: h :: t) by reflexivity.
    assert (Hiv : forall p, index_of_vertex ROps (h :: t) p = None -> near_vertex ROps p (n_pt ra) = false ->
                            index_of_vertex ROps (insert_at (h :: t) 0 (n_pt ra)) p = None).
    { intros p H1 H2. apply index_of_vertex_insert; assumption. }
    split; [|split].
    - intros Hlt.
      pose proof (nearest_transfer_closing pl h t (n_pt ra) (n_t ra) Hclosed Hv Hp Ht b rb Hb ltac:(lia) Hub) as H1.
      rewrite Hv in H1. specialize (HS _ Hclosed Ha Hva H1 (Hiv _ Hvb Hfar)). cbn [n_idx n_pt] in HS.
      destruct HS as [HF _]. rewrite Hw1 in HF. unfold edge_end in HF. cbn [pclosed pv length andb] in HF.
      destruct (Nat.eqb_spec (S (S (n_idx rb))) (S (S (length t)))); [lia|].
      rewrite HF by lia. cbn [skipn]. replace (S (S (n_idx rb)) - 1)%nat with (S (n_idx rb)) by lia. reflexivity.
    - intros He Hlt.
      destruct (nearest_transfer_closing_same pl h t (n_pt ra) (n_t ra) Hclosed Hv Hp Ht Hnz b rb Hb ltac:(lia) ltac:(lra) Hub) as [t' H1].
      rewrite Hv in H1. destruct (Rltb_spec (n_t ra) (n_t rb)); [|lra].
      specialize (HS _ Hclosed Ha Hva H1 (Hiv _ Hvb Hfar)). cbn [n_idx n_pt] in HS.
      destruct HS as [HF _]. rewrite Hw1 in HF. unfold edge_end in HF. cbn [pclosed pv length andb] in HF.
      destruct (Nat.eqb_spec 1 (S (S (length t)))); [lia|]. rewrite HF by lia. reflexivity.
    - intros He Hlt.
      destruct (nearest_transfer_closing_same pl h t (n_pt ra) (n_t ra) Hclosed Hv Hp Ht Hnz b rb Hb ltac:(lia) ltac:(lra) Hub) as [t' H1].
      rewrite Hv in H1. destruct (Rltb_spec (n_t ra) (n_t rb)); [lra|].
      specialize (HS _ Hclosed Ha Hva H1 (Hiv _ Hvb Hfar)). cbn [n_idx n_pt] in HS.
      destruct HS as [_ HW]. rewrite Hw1 in HW. unfold edge_end in HW. cbn [pclosed pv length andb] in HW.
      rewrite Nat.eqb_refl in HW. rewrite HW by lia. reflexivity.
  Qed.
End SlicedClosingEdge.

(* ---- one statement for every case: the cyclic sub-path ---- *)
Lemma closed_idx_bound (pl : polyline R) q r : pclosed pl = true -> nearest_one ROps pl q = Ok r ->
  (n_idx r < length (pv pl))%nat.
Proof.
  intros Hc Hr. destruct (nearest_outputs_consistent _ _ _ Hr) as [A [B [Hs _]]].
  assert (H : (n_idx r < length (pl_segments pl))%nat) by (apply nth_error_Some; congruence).
  rewrite pl_segments_length, Hc in H. destruct (pv pl); cbn [length] in *; lia.
Qed.

Lemma firstn_exact_app {A} (l1 l2 : list A) k : firstn (length l1 + k) (l1 ++ l2) = l1 ++ firstn k l2.
Proof. apply firstn_app_2. Qed.

Lemma sliced_at_points_closed_cyclic pl a b ra rb : pclosed pl = true ->
  nearest_one ROps pl a = Ok ra -> nearest_one ROps pl b = Ok rb ->
  index_of_vertex ROps (pv pl) (n_pt ra) = None -> index_of_vertex ROps (pv pl) (n_pt rb) = None ->
  near_vertex ROps (n_pt rb) (n_pt ra) = false ->
  (forall j s, j <> n_idx rb -> nth_error (pl_segments pl) j = Some s -> n_d rb < h_d (seg_hit_of ROps b s)) ->
  (before_on ra rb -> sliced_at_points ROps pl a b =
     Ok (MkPolyline (n_pt ra :: cyclic_from (pv pl) (edge_end pl (n_idx ra)) (n_idx rb - n_idx ra) ++ [n_pt rb]) false)) /\
  (before_on rb ra -> sliced_at_points ROps pl a b =
     Ok (MkPolyline (n_pt ra :: cyclic_from (pv pl) (edge_end pl (n_idx ra)) (length (pv pl) + n_idx rb - n_idx ra)
                       ++ [n_pt rb]) false)).
Proof.
  intros Hclosed Ha Hb Hva Hvb Hfar Hub.
  pose proof (closed_idx_bound pl a ra Hclosed Ha) as Bka. pose proof (closed_idx_bound pl b rb Hclosed Hb) as Bkb.
  set (n := length (pv pl)) in *.
  destruct (Nat.eq_dec (S (n_idx ra)) n) as [Hcl|Hint].
  - (* nearest(a) on the closing edge *)
    destruct (sliced_closed_on_closing_edge pl a b ra rb Ha Hb Hva Hvb Hfar Hub Hclosed Hcl) as [H1 [H2 H3]].
    assert (Hee : edge_end pl (n_idx ra) = 0%nat) by (unfold edge_end; fold n; rewrite Hclosed, Hcl, Nat.eqb_refl; reflexivity).
    rewrite Hee. unfold cyclic_from. cbn [skipn firstn]. rewrite app_nil_r. fold n. split.
    + intros [Hlt|[He Hlt]]; [lia|]. rewrite (H2 (eq_sym He) Hlt), He, Nat.sub_diag. reflexivity.
    + intros [Hlt|[He Hlt]].
      * rewrite (H1 Hlt). replace (n + n_idx rb - n_idx ra)%nat with (S (n_idx rb)) by lia. reflexivity.
      * rewrite (H3 He Hlt), He. replace (n + n_idx ra - n_idx ra)%nat with n by lia.
        unfold n. rewrite firstn_all. reflexivity.
  - assert (Hka : (S (n_idx ra) < n)%nat) by lia.
    destruct (sliced_at_points_closed_spec pl a b ra rb Hclosed Ha Hb Hva Hvb Hfar Hub Hka) as [H1 [H2 H3]].
    assert (Hee : edge_end pl (n_idx ra) = S (n_idx ra)).
    { unfold edge_end. fold n. rewrite Hclosed. cbn [andb]. destruct (Nat.eqb_spec (S (n_idx ra)) n); [lia|reflexivity]. }
    rewrite Hee. unfold cyclic_from. 
    assert (Hsk : length (skipn (S (n_idx ra)) (pv pl)) = (n - S (n_idx ra))%nat) by (rewrite skipn_length; reflexivity).
    split.
    + intros Hbo. assert (Hle : (n_idx ra <= n_idx rb)%nat) by (destruct Hbo as [H|[H _]]; lia).
      destruct (Nat.eq_dec (S (n_idx rb)) n) as [Hkb|Hkb].
      * rewrite (H2 Hbo Hkb). rewrite firstn_app_le by lia.
        rewrite firstn_all2 by lia. reflexivity.
      * rewrite (H1 Hbo ltac:(lia)). rewrite firstn_app_le by lia. reflexivity.
    + intros Hbo. assert (Hle : (n_idx rb <= n_idx ra)%nat) by (destruct Hbo as [H|[H _]]; lia).
      rewrite (H3 Hbo).
      replace (n + n_idx rb - n_idx ra)%nat with (length (skipn (S (n_idx ra)) (pv pl)) + S (n_idx rb))%nat by lia.
      rewrite firstn_exact_app, firstn_firstn, Nat.min_l by lia. rewrite <- app_assoc. reflexivity.
Qed.

(* the same, every case spelled out: nearest(a) on an ordinary edge (first three) or on the closing edge (last three) *)
Lemma sliced_at_points_closed_explicit pl a b ra rb : pclosed pl = true ->
  nearest_one ROps pl a = Ok ra -> nearest_one ROps pl b = Ok rb ->
  index_of_vertex ROps (pv pl) (n_pt ra) = None -> index_of_vertex ROps (pv pl) (n_pt rb) = None ->
  near_vertex ROps (n_pt rb) (n_pt ra) = false ->
  (forall j s, j <> n_idx rb -> nth_error (pl_segments pl) j = Some s -> n_d rb < h_d (seg_hit_of ROps b s)) ->
  ((S (n_idx ra) < length (pv pl))%nat ->
    (before_on ra rb -> (S (n_idx rb) < length (pv pl))%nat -> sliced_at_points ROps pl a b =
       Ok (MkPolyline (n_pt ra :: firstn (n_idx rb - n_idx ra) (skipn (S (n_idx ra)) (pv pl)) ++ [n_pt rb]) false)) /\
    (before_on ra rb -> S (n_idx rb) = length (pv pl) -> sliced_at_points ROps pl a b =
       Ok (MkPolyline (n_pt ra :: skipn (S (n_idx ra)) (pv pl) ++ [n_pt rb]) false)) /\
    (before_on rb ra -> sliced_at_points ROps pl a b =
       Ok (MkPolyline (n_pt ra :: skipn (S (n_idx ra)) (pv pl) ++ firstn (S (n_idx rb)) (pv pl) ++ [n_pt rb]) false))) /\
  (S (n_idx ra) = length (pv pl) ->
    ((n_idx rb < n_idx ra)%nat -> sliced_at_points ROps pl a b =
       Ok (MkPolyline (n_pt ra :: firstn (S (n_idx rb)) (pv pl) ++ [n_pt rb]) false)) /\
    (n_idx rb = n_idx ra -> n_t ra < n_t rb -> sliced_at_points ROps pl a b = Ok (MkPolyline [n_pt ra; n_pt rb] false)) /\
    (n_idx rb = n_idx ra -> n_t rb < n_t ra -> sliced_at_points ROps pl a b =
       Ok (MkPolyline (n_pt ra :: pv pl ++ [n_pt rb]) false))).
Proof.
  intros Hclosed Ha Hb Hva Hvb Hfar Hub. split; intros Hk.
  - exact (sliced_at_points_closed_spec pl a b ra rb Hclosed Ha Hb Hva Hvb Hfar Hub Hk).
  - exact (sliced_closed_on_closing_edge pl a b ra rb Ha Hb Hva Hvb Hfar Hub Hclosed Hk).
Qed.

(* ---- non-vacuity: a closed square, both nearest points on the closing edge (0,4,0)-(0,0,0) ---- *)
Definition ex_sq : polyline R := MkPolyline [V3 0 0 0; V3 4 0 0; V3 4 4 0; V3 0 4 0] true.
Ltac far_seg :=
  cbv [seg_hit_of h_d closest_point closest_t clip01 nmin nmax seg_vector fst snd vnorm vnorm2 vadd vsub vscale vdot
       vx vy vz n0 n1]; rops; decide_cmps; one_lt_sqrt.
Example sliced_closed_closing_inhabited : exists pl a b ra rb,
  pclosed pl = true /\ nearest_one ROps pl a = Ok ra /\ nearest_one ROps pl b = Ok rb /\
  index_of_vertex ROps (pv pl) (n_pt ra) = None /\ index_of_vertex ROps (pv pl) (n_pt rb) = None /\
  near_vertex ROps (n_pt rb) (n_pt ra) = false /\
  (forall j s, j <> n_idx rb -> nth_error (pl_segments pl) j = Some s -> n_d rb < h_d (seg_hit_of ROps b s)) /\
  S (n_idx ra) = length (pv pl) /\ before_on ra rb.
Proof.
  exists ex_sq, (V3 (-1) 3 0), (V3 (-1) 1 0), (Near (V3 0 3 0) 3 1 (1 / 4)), (Near (V3 0 1 0) 3 1 (3 / 4)).
  split; [reflexivity|]. split; [unfold ex_sq; eval_near|]. split; [unfold ex_sq; eval_near|].
  split; [unfold ex_sq; eval_model; reflexivity|]. split; [unfold ex_sq; eval_model; reflexivity|].
  split; [eval_model; reflexivity|].
  split.
  - intros j s Hj Hs. cbn [n_idx n_d] in *. unfold ex_sq, pl_segments in Hs. cbn [pv pclosed zip app last] in Hs.
    destruct j as [|[|[|[|j]]]]; cbn [nth_error] in Hs; try congruence; try (destruct j; discriminate);
      injection Hs as <-; far_seg.
  - unfold ex_sq, before_on. cbn [n_idx n_t pv length]. split; [lia|]. right; split; [reflexivity|lra].
Qed.
