(* Plane.tilted: what holds of every accepted result, whatever cosine / sine the trigonometric library returned (C13). *)
From Coq Require Import ZArith Reals Lra Psatz List Bool Lia Nsatz Arith.
From PW Require Import Num NumR Vec Mat NpList Result.
From PW.model Require Import M_plane M_plane_ctor.
From PW.proofs Require Import P_vec P_plane P_plane_ctor.
Import ListNotations.
Local Open Scope R_scope.

Lemma tilted_keeps_coplanar_point pl newp cop c s pl' : tilted_cs ROps pl newp cop c s = Ok pl' ->
  pref pl' = cop /\ plane_sd ROps pl' cop = 0 /\ Rabs (vnorm ROps (pnormal pl') - 1) <= default_atol ROps /\
  pnormal pl' = vg_rotate_cs ROps (pnormal pl) (tilt_axis ROps pl newp cop) c s.
Proof.
  unfold tilted_cs. destruct (tilt_defined ROps pl newp cop); [|discriminate]. intros H.
  set (n' := vg_rotate_cs ROps (pnormal pl) (tilt_axis ROps pl newp cop) c s) in *.
  destruct (Rle_dec (Rabs (vnorm ROps n' - 1)) (default_atol ROps)) as [Hle|Hgt].
  - rewrite (proj1 (ctor_accepts_iff _ _ _) Hle) in H. injection H as <-. cbn [pref pnormal].
    split; [reflexivity|split; [|split; [exact Hle|reflexivity]]]. rewrite sd_is_dot. cbn [pref pnormal].
    destruct cop, n'. vunf. ring.
  - rewrite (proj2 (ctor_accepts_iff _ _ _)) in H by lra. discriminate.
Qed.

(* the algebra behind the tilt: for a unit normal n, an in-plane direction e (unit, perpendicular to n), the axis
   a = e x n, and the new in-plane vector w = r e + h n, rotating n about a by the angle whose cosine and sine are
   r/|w| and h/|w| gives a vector perpendicular to w. *)
Lemma tilt_algebra (n e : vec3 R) (r h k c s : R) :
  vdot ROps n n = 1 -> vdot ROps e e = 1 -> vdot ROps e n = 0 -> k * c = r -> k * s = h ->
  let a := vcross ROps e n in
  let n' := vadd ROps (vadd ROps (vscale ROps c n) (vscale ROps s (vcross ROps a n)))
                      (vscale ROps ((1 - c) * vdot ROps a n) a) in
  vdot ROps n' (vadd ROps (vscale ROps r e) (vscale ROps h n)) = 0.
Proof.
  destruct n as [nx ny nz], e as [ex ey ez]. vunf. intros Hn He Hen Hc Hs. cbv zeta. vunf. subst r h.
  nsatz.
Qed.

(* ---- fit_from_points is a total-least-squares plane, under the eigen-solver contract -------------------- *)
From PW.proofs Require Import P_mat.

(* what np.linalg.eigh promises for a real symmetric matrix c: c v_i = w_i v_i and the v_i are orthonormal *)
Definition eig_contract (c : mat3 R) (e : eig3 R) : Prop :=
  m3apply ROps c (eu0 e) = vscale ROps (ev0 e) (eu0 e) /\
  m3apply ROps c (eu1 e) = vscale ROps (ev1 e) (eu1 e) /\
  m3apply ROps c (eu2 e) = vscale ROps (ev2 e) (eu2 e) /\
  vdot ROps (eu0 e) (eu0 e) = 1 /\ vdot ROps (eu1 e) (eu1 e) = 1 /\ vdot ROps (eu2 e) (eu2 e) = 1 /\
  vdot ROps (eu0 e) (eu1 e) = 0 /\ vdot ROps (eu0 e) (eu2 e) = 0 /\ vdot ROps (eu1 e) (eu2 e) = 0.
(* the quadratic form m^T c m *)
Definition quad (c : mat3 R) (m : vec3 R) : R := vdot ROps m (m3apply ROps c m).

(* an orthonormal triple is a basis: m = (m.u) u + (m.v) v + (m.w) w *)
Lemma orthonormal_complete (u v w m : vec3 R) :
  vdot ROps u u = 1 -> vdot ROps v v = 1 -> vdot ROps w w = 1 ->
  vdot ROps u v = 0 -> vdot ROps u w = 0 -> vdot ROps v w = 0 ->
  m = vadd ROps (vadd ROps (vscale ROps (vdot ROps m u) u) (vscale ROps (vdot ROps m v) v)) (vscale ROps (vdot ROps m w) w).
Proof.
  destruct u as [ux uy uz], v as [vx_ vy_ vz_], w as [wx wy wz], m as [mx my mz]. vunf.
  intros Huu Hvv Hww Huv Huw Hvw.
  assert (Ho : m3mul ROps (M3 ux uy uz vx_ vy_ vz_ wx wy wz) (m3transpose (M3 ux uy uz vx_ vy_ vz_ wx wy wz)) = I3 ROps).
  { mat3_eq; lra. }
  apply m3_left_inv_right_inv in Ho. munf_in Ho. injection Ho as K1 K2 K3 K4 K5 K6 K7 K8 K9.
  apply V3_ext.
  - transitivity (mx * (ux * ux + vx_ * vx_ + wx * wx) + my * (ux * uy + vx_ * vy_ + wx * wy) + mz * (ux * uz + vx_ * vz_ + wx * wz)); [|ring].
    rewrite K1, K2, K3. ring.
  - transitivity (mx * (uy * ux + vy_ * vx_ + wy * wx) + my * (uy * uy + vy_ * vy_ + wy * wy) + mz * (uy * uz + vy_ * vz_ + wy * wz)); [|ring].
    rewrite K4, K5, K6. ring.
  - transitivity (mx * (uz * ux + vz_ * vx_ + wz * wx) + my * (uz * uy + vz_ * vy_ + wz * wy) + mz * (uz * uz + vz_ * vz_ + wz * wz)); [|ring].
    rewrite K7, K8, K9. ring.
Qed.

Lemma m3apply_comb c (u v w : vec3 R) (a b d : R) :
  m3apply ROps c (vadd ROps (vadd ROps (vscale ROps a u) (vscale ROps b v)) (vscale ROps d w)) =
  vadd ROps (vadd ROps (vscale ROps a (m3apply ROps c u)) (vscale ROps b (m3apply ROps c v))) (vscale ROps d (m3apply ROps c w)).
Proof. dm3 c. destruct u, v, w. munf. apply V3_ext; ring. Qed.

Section Rayleigh.
  Context (c : mat3 R) (u v w : vec3 R) (lu lv lw : R).
  Context (Eu : m3apply ROps c u = vscale ROps lu u) (Ev : m3apply ROps c v = vscale ROps lv v)
          (Ew : m3apply ROps c w = vscale ROps lw w).
  Context (Huu : vdot ROps u u = 1) (Hvv : vdot ROps v v = 1) (Hww : vdot ROps w w = 1)
          (Huv : vdot ROps u v = 0) (Huw : vdot ROps u w = 0) (Hvw : vdot ROps v w = 0).

  (* spectral form of the quadratic form, and Parseval *)
  Lemma quad_spectral m :
    quad c m = lu * (vdot ROps m u * vdot ROps m u) + lv * (vdot ROps m v * vdot ROps m v) + lw * (vdot ROps m w * vdot ROps m w) /\
    vdot ROps m m = vdot ROps m u * vdot ROps m u + vdot ROps m v * vdot ROps m v + vdot ROps m w * vdot ROps m w.
  Proof.
    pose proof (orthonormal_complete u v w m Huu Hvv Hww Huv Huw Hvw) as Hm.
    set (a := vdot ROps m u) in *. set (b := vdot ROps m v) in *. set (d := vdot ROps m w) in *.
    split.
    - unfold quad. rewrite Hm at 2. rewrite m3apply_comb, Eu, Ev, Ew.
      transitivity (lu * a * vdot ROps m u + lv * b * vdot ROps m v + lw * d * vdot ROps m w).
      + destruct m, u, v, w. vunf. ring.
      + fold a b d. ring.
    - rewrite Hm at 2.
      transitivity (a * vdot ROps m u + b * vdot ROps m v + d * vdot ROps m w).
      + destruct m, u, v, w. vunf. ring.
      + fold a b d. ring.
  Qed.

  (* Rayleigh quotient: the smallest eigenvalue bounds the form on unit vectors from below ... *)
  Lemma quad_lower_bound m : lw <= lu -> lw <= lv -> vdot ROps m m = 1 -> lw <= quad c m.
  Proof.
    intros H1 H2 Hm. destruct (quad_spectral m) as [Hq Hp]. rewrite Hq. rewrite Hm in Hp.
    set (a := vdot ROps m u) in *. set (b := vdot ROps m v) in *. set (d := vdot ROps m w) in *. clearbody a b d.
    pose proof (Rle_0_sqr a) as Ha. pose proof (Rle_0_sqr b) as Hb. unfold Rsqr in *.
    replace (lu * (a * a) + lv * (b * b) + lw * (d * d))
      with (lw * (a * a + b * b + d * d) + (lu - lw) * (a * a) + (lv - lw) * (b * b)) by ring.
    rewrite <- Hp.
    assert (0 <= (lu - lw) * (a * a)) by (apply Rmult_le_pos; lra).
    assert (0 <= (lv - lw) * (b * b)) by (apply Rmult_le_pos; lra). lra.
  Qed.
  (* ... and a unit vector perpendicular to the two other eigenvectors attains it *)
  Lemma quad_attained n : vdot ROps n u = 0 -> vdot ROps n v = 0 -> vdot ROps n n = 1 -> quad c n = lw.
  Proof.
    intros Hu Hv Hn. destruct (quad_spectral n) as [Hq Hp]. rewrite Hq. rewrite Hn, Hu, Hv in Hp. rewrite Hu, Hv.
    replace (vdot ROps n w * vdot ROps n w) with 1 by lra. ring.
  Qed.
  (* ... and is an eigenvector for it: n = (n.w) w *)
  Lemma eigen_attained n : vdot ROps n u = 0 -> vdot ROps n v = 0 -> m3apply ROps c n = vscale ROps lw n.
  Proof.
    intros Hu Hv. pose proof (orthonormal_complete u v w n Huu Hvv Hww Huv Huw Hvw) as Hn.
    rewrite Hu, Hv in Hn. rewrite Hn at 1. rewrite m3apply_comb, Eu, Ev, Ew. rewrite Hn at 2.
    destruct u, v, w. vunf. apply V3_ext; ring.
  Qed.
End Rayleigh.

Lemma rayleigh_cross c (u v w : vec3 R) (lu lv lw : R) :
  m3apply ROps c u = vscale ROps lu u -> m3apply ROps c v = vscale ROps lv v -> m3apply ROps c w = vscale ROps lw w ->
  vdot ROps u u = 1 -> vdot ROps v v = 1 -> vdot ROps w w = 1 ->
  vdot ROps u v = 0 -> vdot ROps u w = 0 -> vdot ROps v w = 0 -> lw <= lu -> lw <= lv ->
  vdot ROps (vcross ROps u v) (vcross ROps u v) = 1 /\
  forall m, vdot ROps m m = 1 -> quad c (vcross ROps u v) <= quad c m.
Proof.
  intros Eu Ev Ew Huu Hvv Hww Huv Huw Hvw H1 H2.
  assert (Hn : vdot ROps (vcross ROps u v) (vcross ROps u v) = 1).
  { pose proof (vcross_norm2 u v) as L. unfold vnorm2 in L. rewrite L, Huu, Hvv, Huv. ring. }
  split; [exact Hn|]. intros m Hm.
  rewrite (quad_attained c u v w lu lv lw Eu Ev Ew Huu Hvv Hww Huv Huw Hvw (vcross ROps u v)); try assumption.
  - apply (quad_lower_bound c u v w lu lv lw); assumption.
  - rewrite vdot_comm. apply vcross_orth_l.
  - rewrite vdot_comm. apply vcross_orth_r.
Qed.

Lemma fit_normal_optimal c e : eig_contract c e ->
  vdot ROps (fit_normal ROps e) (fit_normal ROps e) = 1 /\
  forall m, vdot ROps m m = 1 -> quad c (fit_normal ROps e) <= quad c m.
Proof.
  destruct e as [l0 l1 l2 u0 u1 u2]. unfold eig_contract. cbn [ev0 ev1 ev2 eu0 eu1 eu2].
  intros (E0 & E1 & E2 & H00 & H11 & H22 & H01 & H02 & H12).
  assert (H10 : vdot ROps u1 u0 = 0) by (rewrite vdot_comm; exact H01).
  assert (H20 : vdot ROps u2 u0 = 0) by (rewrite vdot_comm; exact H02).
  assert (H21 : vdot ROps u2 u1 = 0) by (rewrite vdot_comm; exact H12).
  unfold fit_normal, argsort3. cbn [ev0 ev1 ev2]. rops.
  destruct (Rltb_spec l1 l0); [destruct (Rltb_spec l2 l1); [|destruct (Rltb_spec l2 l0)]
                              |destruct (Rltb_spec l2 l0); [|destruct (Rltb_spec l2 l1)]];
    cbn [eig_col eu0 eu1 eu2].
  - apply (rayleigh_cross c u0 u1 u2 l0 l1 l2); try assumption; lra.
  - apply (rayleigh_cross c u0 u2 u1 l0 l2 l1); try assumption; lra.
  - apply (rayleigh_cross c u2 u0 u1 l2 l0 l1); try assumption; lra.
  - apply (rayleigh_cross c u1 u0 u2 l1 l0 l2); try assumption; lra.
  - apply (rayleigh_cross c u1 u2 u0 l1 l2 l0); try assumption; lra.
  - apply (rayleigh_cross c u2 u1 u0 l2 l1 l0); try assumption; lra.
Qed.

(* ---- sums over the point list ------------------------------------------------------------------------- *)
Lemma fold_plus_acc l : forall a, fold_left Rplus l a = a + fold_left Rplus l 0.
Proof.
  induction l as [|x l IH]; intros a; cbn [fold_left]; [ring|]. rewrite IH, (IH (0 + x)). ring.
Qed.
Lemma nsum_cons x l : nsum ROps (x :: l) = x + nsum ROps l.
Proof. unfold nsum. rops. cbn [fold_left]. rewrite fold_plus_acc. ring. Qed.
Lemma nsum_nil : nsum ROps [] = 0.
Proof. reflexivity. Qed.

(* sum of squared distances of the points to the plane through c with (unit) normal m *)
Definition ssd (ps : list (vec3 R)) (c m : vec3 R) : R :=
  nsum ROps (map (fun p => vdot ROps (vsub ROps p c) m * vdot ROps (vsub ROps p c) m) ps).
(* scatter matrix: sums of products of the centred coordinates *)
Definition scatter_entry (ps : list (vec3 R)) (c : vec3 R) (i j : nat) : R :=
  nsum ROps (map (fun p => vget (vsub ROps p c) i * vget (vsub ROps p c) j) ps).
Definition scatter (ps : list (vec3 R)) (c : vec3 R) : mat3 R :=
  M3 (scatter_entry ps c 0 0) (scatter_entry ps c 0 1) (scatter_entry ps c 0 2)
     (scatter_entry ps c 1 0) (scatter_entry ps c 1 1) (scatter_entry ps c 1 2)
     (scatter_entry ps c 2 0) (scatter_entry ps c 2 1) (scatter_entry ps c 2 2).

Lemma ssd_is_quad ps c m : ssd ps c m = quad (scatter ps c) m.
Proof.
  unfold quad, scatter, ssd, scatter_entry. destruct m as [mx my mz], c as [cx cy cz].
  induction ps as [|[px py pz] ps IH].
  - cbn [map]. rewrite !nsum_nil. munf. ring.
  - cbn [map]. rewrite !nsum_cons, IH. cbn [vget]. munf. ring.
Qed.

Lemma cov_is_scatter ps m : nlen ROps ps - 1 <> 0 ->
  quad (scatter ps (centroid ROps ps)) m = (nlen ROps ps - 1) * quad (cov ROps ps) m.
Proof.
  intros Hn. unfold quad, cov, cov_entry, scatter, scatter_entry, n1. rops.
  set (k := nlen ROps ps - 1) in *. clearbody k.
  repeat match goal with |- context [nsum ROps ?l] => let s := fresh "s" in set (s := nsum ROps l) in * end.
  destruct m as [mx my mz]. munf. field. exact Hn.
Qed.

Theorem fit_is_least_squares eigh ps : (2 <= length ps)%nat ->
  eig_contract (cov ROps ps) (eigh (cov ROps ps)) ->
  exists pl, fit_from_points ROps eigh ps = Ok pl /\ pref pl = centroid ROps ps /\ unit_normal pl /\
    forall m, vnorm2 ROps m = 1 ->
      ssd ps (centroid ROps ps) (pnormal pl) <= ssd ps (centroid ROps ps) m.
Proof.
  intros Hlen Hc. destruct (fit_normal_optimal _ _ Hc) as [Hn Hopt].
  set (n := fit_normal ROps (eigh (cov ROps ps))) in *.
  exists (MkPlane (centroid ROps ps) n). split; [|split; [reflexivity|split; [exact Hn|]]].
  - unfold fit_from_points. replace (length ps <=? 1)%nat with false by (symmetry; apply Nat.leb_gt; lia).
    fold n. apply ctor_unit; [apply Rlt_le, default_atol_value|exact Hn].
  - intros m Hm. cbn [pnormal].
    assert (Hk : 0 < nlen ROps ps - 1).
    { unfold nlen. rops. assert (2 <= IZR (Z.of_nat (length ps))) by (apply IZR_le; lia). lra. }
    rewrite !ssd_is_quad, !cov_is_scatter by lra.
    apply Rmult_le_compat_l; [lra|]. apply Hopt. exact Hm.
Qed.

(* ---- Plane.tilted: the full argument ------------------------------------------------------------------ *)
Lemma vnormalize_of_unit a : vdot ROps a a = 1 -> vnormalize ROps a = a.
Proof.
  intros H. unfold vnormalize. rewrite (vnorm_of_unit a H). destruct a. vunf. apply V3_ext; field.
Qed.
Lemma vg_reject_perp v a : vdot ROps a a = 1 -> vdot ROps v a = 0 -> vg_reject ROps v a = v.
Proof.
  intros Ha Hv. unfold vg_reject. rewrite (vnormalize_of_unit a Ha), Hv. destruct v, a. vunf. apply V3_ext; ring.
Qed.

Section TiltCore.
  Context (n vo vn : vec3 R) (h : R).
  Context (Hnn : vdot ROps n n = 1) (Hon : vdot ROps vo n = 0) (Hne : vo <> V3 0 0 0)
          (Hvn : vn = vadd ROps vo (vscale ROps h n)).
  Let r := vnorm ROps vo.
  Let k := vnorm ROps vn.
  Let e := vscale ROps (/ r) vo.
  Let a := vcross ROps e n.
  Let axis := vnormalize ROps (vcross ROps vo n).

  Lemma tc_r : 0 < r /\ r * r = vdot ROps vo vo.
  Proof. split; [apply vnorm_pos; exact Hne|apply vnorm_sq]. Qed.
  Lemma tc_k : 0 < k /\ k * k = r * r + h * h.
  Proof.
    destruct tc_r as [Hr Hrr].
    assert (E : vdot ROps vn vn = r * r + h * h).
    { rewrite Hrr, Hvn. revert Hnn Hon. destruct vo, n. vunf. intros Hnn Hon. nsatz. }
    assert (Hk : k * k = r * r + h * h) by (unfold k; rewrite vnorm_sq; exact E).
    split; [|exact Hk]. pose proof (vnorm_nonneg vn) as H0. fold k in H0.
    destruct (Rle_lt_or_eq_dec _ _ H0) as [Hp|Hz]; [exact Hp|]. rewrite <- Hz in Hk. nra.
  Qed.
  Lemma tc_e : vdot ROps e e = 1 /\ vdot ROps e n = 0 /\ vscale ROps r e = vo.
  Proof.
    destruct tc_r as [Hr Hrr]. unfold e. repeat split.
    - rewrite vdot_scale_l, vdot_scale_r, <- Hrr. field. lra.
    - rewrite vdot_scale_l, Hon. ring.
    - destruct vo. vunf. apply V3_ext; field; lra.
  Qed.
  Lemma tc_axis : axis = a /\ vnorm ROps (vcross ROps vo n) = r.
  Proof.
    destruct tc_r as [Hr Hrr].
    assert (Hc : vnorm ROps (vcross ROps vo n) = r).
    { unfold vnorm. rops. rewrite vcross_norm2. unfold vnorm2. rewrite <- Hrr, Hnn, Hon.
      replace (r * r * 1 - 0 * 0) with (r * r) by ring. apply sqrt_square. lra. }
    split; [|exact Hc]. unfold axis, vnormalize. rewrite Hc. unfold a, e. destruct vo, n. vunf. apply V3_ext; field; lra.
  Qed.
  Lemma tc_a : vdot ROps a a = 1 /\ vdot ROps vo a = 0 /\ vdot ROps n a = 0 /\ vdot ROps vn a = 0 /\ vdot ROps a n = 0.
  Proof.
    destruct tc_e as (Hee & Hen & Hre). unfold a.
    assert (H1 : vdot ROps (vcross ROps e n) (vcross ROps e n) = 1).
    { pose proof (vcross_norm2 e n) as L. unfold vnorm2 in L. rewrite L, Hee, Hnn, Hen. ring. }
    assert (H2 : vdot ROps vo (vcross ROps e n) = 0) by (rewrite <- Hre, vdot_scale_l, vcross_orth_l; ring).
    assert (H3 : vdot ROps n (vcross ROps e n) = 0) by apply vcross_orth_r.
    repeat split; try assumption.
    - rewrite Hvn, vdot_add_l, vdot_scale_l, H2, H3. ring.
    - rewrite vdot_comm. exact H3.
  Qed.

  Let x := r / k.
  Lemma tc_x : 0 < x <= 1 /\ k * x = r.
  Proof.
    destruct tc_r as [Hr _]. destruct tc_k as [Hk Hkk]. unfold x. split; [|field; lra].
    split; [apply Rdiv_lt_0_compat; assumption|]. apply Rmult_le_reg_r with k; [exact Hk|].
    replace (r / k * k) with r by (field; lra). nra.
  Qed.
  Lemma tc_cos : vg_angle_cos ROps vo vn axis = x.
  Proof.
    destruct tc_axis as [-> _]. destruct tc_a as (Haa & Hoa & _ & Hna & _).
    unfold vg_angle_cos. rewrite (vg_reject_perp vo a Haa Hoa), (vg_reject_perp vn a Haa Hna). rops. fold r k.
    destruct tc_r as [Hr Hrr]. destruct tc_k as [Hk _].
    replace (vdot ROps vo vn) with (r * r); [unfold x; field; lra|].
    rewrite Hrr, Hvn. revert Hon. destruct vo, n. vunf. intros Hon. nsatz.
  Qed.
  Lemma tc_sign : vdot ROps (vcross ROps vo vn) axis = h * r.
  Proof.
    destruct tc_axis as [_ Hc]. destruct tc_r as [Hr Hrr]. unfold axis, vnormalize. rewrite Hc.
    assert (Hcc : vdot ROps (vcross ROps vo n) (vcross ROps vo n) = r * r).
    { pose proof (vcross_norm2 vo n) as L. unfold vnorm2 in L. rewrite L, <- Hrr, Hnn, Hon. ring. }
    rewrite Hvn. revert Hcc. generalize r Hr. intros r0 Hr0. destruct vo, n. vunf. intros Hcc.
    replace ((vy * (vz + h * vz0) - vz * (vy + h * vy0)) * ((vy * vz0 - vz * vy0) / r0) +
             (vz * (vx + h * vx0) - vx * (vz + h * vz0)) * ((vz * vx0 - vx * vz0) / r0) +
             (vx * (vy + h * vy0) - vy * (vx + h * vx0)) * ((vx * vy0 - vy * vx0) / r0))
      with (h * ((vy * vz0 - vz * vy0) * (vy * vz0 - vz * vy0) + (vz * vx0 - vx * vz0) * (vz * vx0 - vx * vz0) +
                 (vx * vy0 - vy * vx0) * (vx * vy0 - vy * vx0)) / r0) by (field; lra).
    rewrite Hcc. field. lra.
  Qed.

  (* cosine and sine of vg.signed_angle(vo, vn, look=axis) *)
  Lemma tc_trig : let ang := vg_signed_angle ROps vo vn axis in k * cos ang = r /\ k * sin ang = h.
  Proof.
    destruct tc_r as [Hr _]. destruct tc_k as [Hk Hkk]. destruct tc_x as [[Hx0 Hx1] Hkx].
    cbv zeta. unfold vg_signed_angle. rewrite tc_sign, tc_cos.
    assert (Hclip : nclip ROps x = x).
    { unfold nclip, n1. rops. rcase; [lra|]. rcase; [lra|reflexivity]. }
    rewrite Hclip. rops.
    assert (Hc : cos (acos x) = x) by (apply cos_acos; lra).
    assert (Hs : sin (acos x) = sqrt (1 - x²)) by (apply sin_acos; lra).
    set (s0 := sqrt (1 - x²)) in *.
    assert (Hs0 : 0 <= s0) by apply sqrt_pos.
    assert (Hs2 : s0 * s0 = 1 - x * x).
    { unfold s0. rewrite sqrt_sqrt; [unfold Rsqr; ring|]. unfold Rsqr. nra. }
    assert (Hks : (k * s0) * (k * s0) = h * h).
    { replace (k * s0 * (k * s0)) with (k * k * (s0 * s0)) by ring. rewrite Hs2.
      replace (k * k * (1 - x * x)) with (k * k - (k * x) * (k * x)) by ring. rewrite Hkx, Hkk. ring. }
    unfold nsign. rops.
    destruct (Rltb_spec 0 (h * r)) as [Hp|Hnp].
    - (* h > 0 *) cbn [Z.eqb]. rewrite Hc, Hs. split; [exact Hkx|].
      assert (0 < h) by nra. assert (0 <= k * s0) by (apply Rmult_le_pos; lra). nra.
    - destruct (Rltb_spec (h * r) 0) as [Hneg|Hz].
      + (* h < 0 *) cbn [Z.eqb Pos.eqb]. rewrite cos_neg, sin_neg, Hc, Hs. split; [exact Hkx|].
        assert (h < 0) by nra. assert (0 <= k * s0) by (apply Rmult_le_pos; lra). nra.
      + (* h = 0 *) cbn [Z.eqb]. rewrite Hc, Hs. split; [exact Hkx|].
        assert (h = 0) by nra. subst h. assert (0 <= k * s0) by (apply Rmult_le_pos; lra). nra.
  Qed.

  Lemma tc_defined :
    vnorm ROps (vcross ROps vo n) <> 0 /\ vnorm ROps axis <> 0 /\
    vnorm ROps (vg_reject ROps vo axis) <> 0 /\ vnorm ROps (vg_reject ROps vn axis) <> 0.
  Proof.
    destruct tc_axis as [Hax Hc]. destruct tc_a as (Haa & Hoa & _ & Hna & _). destruct tc_r as [Hr _]. destruct tc_k as [Hk _].
    rewrite Hc, Hax, (vg_reject_perp vo a Haa Hoa), (vg_reject_perp vn a Haa Hna), (vnorm_of_unit a Haa).
    fold r k. repeat split; lra.
  Qed.

  Theorem tilt_core :
    let ang := vg_signed_angle ROps vo vn axis in
    let n' := vg_rotate_cs ROps n axis (cos ang) (sin ang) in
    vdot ROps n' n' = 1 /\ vdot ROps n' vn = 0.
  Proof.
    cbv zeta. destruct tc_trig as [Hc Hs]. cbv zeta in Hc, Hs.
    set (c := cos (vg_signed_angle ROps vo vn axis)) in *. set (s := sin (vg_signed_angle ROps vo vn axis)) in *.
    destruct tc_axis as [Hax _]. destruct tc_a as (Haa & _ & _ & _ & Han). destruct tc_e as (Hee & Hen & Hre).
    destruct tc_k as [Hk Hkk].
    unfold vg_rotate_cs. rewrite Hax, (vnormalize_of_unit a Haa). rops. split.
    - assert (Hcs : c * c + s * s = 1).
      { apply Rmult_eq_reg_l with (k * k); [|nra].
        replace (k * k * (c * c + s * s)) with ((k * c) * (k * c) + (k * s) * (k * s)) by ring. rewrite Hc, Hs, Hkk. ring. }
      unfold a. clear Hc Hs Hax Haa Han Hre. revert Hnn Hee Hen Hcs. generalize e. intros e0.
      destruct e0 as [ex ey ez], n as [nx ny nz]. vunf. intros Hnn Hee Hen Hcs. nsatz.
    - replace vn with (vadd ROps (vscale ROps r e) (vscale ROps h n)) by (rewrite Hre; symmetry; exact Hvn).
      exact (tilt_algebra n e r h k c s Hnn Hee Hen Hc Hs).
  Qed.
End TiltCore.

Theorem tilted_contains_both pl newp cop :
  unit_normal pl -> plane_sd ROps pl cop = 0 -> tilt_old ROps pl newp cop <> V3 0 0 0 ->
  exists pl', tilted ROps pl newp cop = Ok pl' /\ pref pl' = cop /\ unit_normal pl' /\
    plane_sd ROps pl' cop = 0 /\ plane_sd ROps pl' newp = 0.
Proof.
  intros Hu Hcop Hne. unfold unit_normal, vnorm2 in Hu.
  set (n := pnormal pl) in *. set (vo := tilt_old ROps pl newp cop) in *.
  set (vn := tilt_new ROps newp cop). set (h := plane_sd ROps pl newp).
  assert (Hproj : vo = vsub ROps (vsub ROps newp (vscale ROps h n)) cop).
  { unfold vo, tilt_old. rewrite project_moves_along_normal. reflexivity. }
  assert (Hvn : vn = vadd ROps vo (vscale ROps h n)).
  { rewrite Hproj. unfold vn, tilt_new. destruct newp, cop, n. vunf. apply V3_ext; ring. }
  assert (Hon : vdot ROps vo n = 0).
  { assert (E : vdot ROps (vsub ROps newp cop) n = h - plane_sd ROps pl cop).
    { unfold h. rewrite !sd_is_dot. fold n. destruct newp, cop, (pref pl), n. vunf. ring. }
    rewrite Hcop in E. rewrite Hproj. revert E Hu. destruct newp, cop, n. vunf. intros E Hu. nsatz. }
  destruct (tc_defined n vo vn h Hu Hon Hne Hvn) as (D1 & D2 & D3 & D4).
  destruct (tilt_core n vo vn h Hu Hon Hne Hvn) as [Hn1 Hn2]. cbv zeta in Hn1, Hn2.
  unfold tilted, tilted_cs.
  assert (Hdef : tilt_defined ROps pl newp cop = true).
  { unfold tilt_defined, tilt_axis, n0. rops. fold n vo vn.
    repeat match goal with |- context [Reqb ?u 0] => destruct (Reqb_spec u 0) as [Ez|_]; [contradiction|] end.
    reflexivity. }
  rewrite Hdef. unfold tilt_angle, tilt_axis. fold n vo vn. rops.
  set (n' := vg_rotate_cs ROps n (vnormalize ROps (vcross ROps vo n)) _ _) in *.
  exists (MkPlane cop n'). split; [apply ctor_unit; [apply Rlt_le, default_atol_value|exact Hn1]|].
  split; [reflexivity|]. split; [exact Hn1|]. rewrite !sd_is_dot. cbn [pref pnormal]. split.
  - destruct cop, n'. vunf. ring.
  - fold (tilt_new ROps newp cop). fold vn. rewrite vdot_comm. exact Hn2.
Qed.

(* fewer than two points: the eigen-solver fails on the NaN covariance *)
Lemma fit_too_few_points eigh ps : (length ps <= 1)%nat -> fit_from_points ROps eigh ps = Raise LinAlgError.
Proof. intros H. unfold fit_from_points. replace (length ps <=? 1)%nat with true by (symmetry; apply Nat.leb_le; exact H). reflexivity. Qed.

(* ---- concrete instances of the conditional theorems' hypotheses ---------------------------------------- *)
Definition six_points : list (vec3 R) := [V3 3 0 0; V3 (-3) 0 0; V3 0 2 0; V3 0 (-2) 0; V3 0 0 1; V3 0 0 (-1)].
Definition six_points_eig : eig3 R := Eig3 (18 / 5) (8 / 5) (2 / 5) (V3 1 0 0) (V3 0 1 0) (V3 0 0 1).
Lemma six_points_contract : eig_contract (cov ROps six_points) six_points_eig.
Proof.
  unfold eig_contract, six_points_eig, cov, cov_entry, centroid, vsum, nlen, nsum, six_points, n1.
  cbn [ev0 ev1 ev2 eu0 eu1 eu2 length map fold_left Z.of_nat Pos.of_succ_nat Pos.succ vget]. rops.
  munf. repeat split; try (apply V3_ext; field); field.
Qed.

(* ---- tied eigenvalues: the least-squares plane is not unique; every unit eigenvector of the smallest eigenvalue
   of the covariance gives one (this is the observable the correspondence checks for tie cases) ------------- *)
Theorem min_eigenvector_is_least_squares ps n lam : (2 <= length ps)%nat ->
  vnorm2 ROps n = 1 -> m3apply ROps (cov ROps ps) n = vscale ROps lam n ->
  (forall m, lam * vdot ROps m m <= quad (cov ROps ps) m) ->
  plane_ctor ROps (default_atol ROps) (centroid ROps ps) n = Ok (MkPlane (centroid ROps ps) n) /\
  forall m, vnorm2 ROps m = 1 -> ssd ps (centroid ROps ps) n <= ssd ps (centroid ROps ps) m.
Proof.
  intros Hlen Hn He Hmin. split; [apply ctor_unit; [apply Rlt_le, default_atol_value|exact Hn]|].
  intros m Hm.
  assert (Hk : 0 < nlen ROps ps - 1).
  { unfold nlen. rops. assert (2 <= IZR (Z.of_nat (length ps))) by (apply IZR_le; lia). lra. }
  rewrite !ssd_is_quad, !cov_is_scatter by lra. apply Rmult_le_compat_l; [lra|].
  assert (Hq : quad (cov ROps ps) n = lam).
  { unfold quad. rewrite He, vdot_scale_r. unfold vnorm2 in Hn. rewrite Hn. ring. }
  rewrite Hq. specialize (Hmin m). unfold vnorm2 in Hm. rewrite Hm in Hmin. lra.
Qed.
(* under the eigen-solver contract the fitted normal is such an eigenvector: unit, cov n = lam n, lam minimal - exactly
   the hypotheses of min_eigenvector_is_least_squares *)
Lemma fit_normal_eigen c e : eig_contract c e ->
  exists lam, m3apply ROps c (fit_normal ROps e) = vscale ROps lam (fit_normal ROps e).
Proof.
  destruct e as [l0 l1 l2 u0 u1 u2]. unfold eig_contract. cbn [ev0 ev1 ev2 eu0 eu1 eu2].
  intros (E0 & E1 & E2 & H00 & H11 & H22 & H01 & H02 & H12).
  assert (H10 : vdot ROps u1 u0 = 0) by (rewrite vdot_comm; exact H01).
  assert (H20 : vdot ROps u2 u0 = 0) by (rewrite vdot_comm; exact H02).
  assert (H21 : vdot ROps u2 u1 = 0) by (rewrite vdot_comm; exact H12).
  assert (X : forall a b, vdot ROps (vcross ROps a b) a = 0 /\ vdot ROps (vcross ROps a b) b = 0).
  { intros a b. split; rewrite vdot_comm; [apply vcross_orth_l|apply vcross_orth_r]. }
  unfold fit_normal, argsort3. cbn [ev0 ev1 ev2]. rops.
  destruct (Rltb l1 l0); [destruct (Rltb l2 l1); [|destruct (Rltb l2 l0)]|destruct (Rltb l2 l0); [|destruct (Rltb l2 l1)]];
    cbn [eig_col eu0 eu1 eu2].
  - exists l2. apply (eigen_attained c u0 u1 u2 l0 l1 l2); try assumption; apply X.
  - exists l1. apply (eigen_attained c u0 u2 u1 l0 l2 l1); try assumption; apply X.
  - exists l1. apply (eigen_attained c u2 u0 u1 l2 l0 l1); try assumption; apply X.
  - exists l2. apply (eigen_attained c u1 u0 u2 l1 l0 l2); try assumption; apply X.
  - exists l0. apply (eigen_attained c u1 u2 u0 l1 l2 l0); try assumption; apply X.
  - exists l0. apply (eigen_attained c u2 u1 u0 l2 l1 l0); try assumption; apply X.
Qed.

Lemma contract_gives_min_eigenvector c e : eig_contract c e ->
  exists lam, (forall m, lam * vdot ROps m m <= quad c m) /\
    vnorm2 ROps (fit_normal ROps e) = 1 /\ m3apply ROps c (fit_normal ROps e) = vscale ROps lam (fit_normal ROps e).
Proof.
  intros Hc. destruct (fit_normal_optimal c e Hc) as [Hn Hopt]. destruct (fit_normal_eigen c e Hc) as [lam He].
  assert (Hq : quad c (fit_normal ROps e) = lam).
  { unfold quad. rewrite He, vdot_scale_r, Hn. ring. }
  exists lam. split; [|split; [exact Hn|exact He]]. rewrite <- Hq.
  intros m. destruct (Req_dec (vdot ROps m m) 0) as [Hz|Hnz].
  - assert (m = V3 0 0 0) by (apply vnorm2_zero; exact Hz). subst m. unfold quad. dm3 c. munf. lra.
  - assert (Hp : 0 < vdot ROps m m).
    { pose proof (vnorm2_nonneg m) as H0. unfold vnorm2 in H0. lra. }
    set (k := sqrt (vdot ROps m m)). assert (Hk : 0 < k) by (apply sqrt_lt_R0; exact Hp).
    assert (Hkk : k * k = vdot ROps m m) by (apply sqrt_sqrt; lra).
    set (u := vscale ROps (/ k) m).
    assert (Hu : vdot ROps u u = 1).
    { unfold u. rewrite vdot_scale_l, vdot_scale_r, <- Hkk. field. lra. }
    specialize (Hopt u Hu).
    assert (Hqu : quad c m = (k * k) * quad c u).
    { unfold quad, u. dm3 c. destruct m. munf. field. lra. }
    rewrite Hqu, <- Hkk. assert (H0 : 0 <= k * k) by nra.
    pose proof (Rmult_le_compat_l (k * k) _ _ H0 Hopt) as H1. lra.
Qed.
