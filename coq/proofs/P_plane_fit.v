(* Plane.tilted: what holds of every accepted result, whatever cosine / sine the trigonometric library returned (C13). *)
From Coq Require Import ZArith Reals Lra Psatz List Bool Lia Nsatz.
From PW Require Import Num NumR Vec Mat NpList Result.
From PW.model Require Import M_plane M_plane_ctor.
From PW.proofs Require Import P_vec P_plane P_plane_ctor.
Import ListNotations.
Local Open Scope R_scope.

Lemma tilted_keeps_coplanar_point pl newp cop c s pl' : tilted_cs ROps pl newp cop c s = Ok pl' ->
  pref pl' = cop /\ plane_sd ROps pl' cop = 0 /\ Rabs (vnorm ROps (pnormal pl') - 1) <= default_atol ROps /\
  pnormal pl' = vg_rotate_cs ROps (pnormal pl) (tilt_axis ROps pl newp cop) c s.
Proof.
  unfold tilted_cs. destruct (tilt_defined ROps pl newp cop); [|discriminate]. intros H.
  set (n' := vg_rotate_cs ROps (pnormal pl) (tilt_axis ROps pl newp cop) c s) in *.
  destruct (Rle_dec (Rabs (vnorm ROps n' - 1)) (default_atol ROps)) as [Hle|Hgt].
  - rewrite (proj1 (ctor_accepts_iff _ _ _) Hle) in H. injection H as <-. cbn [pref pnormal].
    split; [reflexivity|split; [|split; [exact Hle|reflexivity]]]. rewrite sd_is_dot. cbn [pref pnormal].
    destruct cop, n'. vunf. ring.
  - rewrite (proj2 (ctor_accepts_iff _ _ _)) in H by lra. discriminate.
Qed.

(* the algebra behind the tilt: for a unit normal n, an in-plane direction e (unit, perpendicular to n), the axis
   a = e x n, and the new in-plane vector w = r e + h n, rotating n about a by the angle whose cosine and sine are
   r/|w| and h/|w| gives a vector perpendicular to w. *)
Lemma tilt_algebra (n e : vec3 R) (r h k c s : R) :
  vdot ROps n n = 1 -> vdot ROps e e = 1 -> vdot ROps e n = 0 -> k * c = r -> k * s = h ->
  let a := vcross ROps e n in
  let n' := vadd ROps (vadd ROps (vscale ROps c n) (vscale ROps s (vcross ROps a n)))
                      (vscale ROps ((1 - c) * vdot ROps a n) a) in
  vdot ROps n' (vadd ROps (vscale ROps r e) (vscale ROps h n)) = 0.
Proof.
  destruct n as [nx ny nz], e as [ex ey ez]. vunf. intros Hn He Hen Hc Hs. cbv zeta. vunf. subst r h.
  nsatz.
Qed.
