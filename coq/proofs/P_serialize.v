(* C19: facts about decimal rounding, the schema validator and the serialization round trip. *)
From Coq Require Import ZArith Reals Lra Psatz List Bool Lia Arith String.
From PW Require Import Num NumR Vec NpList Result.
From PW.model Require Import M_polyline_base M_plane M_serialize.
From PW.proofs Require Import P_vec.
Import ListNotations.
Local Open Scope R_scope.

(* ---- rounding ------------------------------------------------------------------------------------------ *)
Lemma Rfloor_bounds x : IZR (Rfloor x) <= x < IZR (Rfloor x) + 1.
Proof. unfold Rfloor. destruct (base_Int_part x) as [H1 H2]. lra. Qed.

Lemma rint_half x : Rabs (IZR (rint ROps x) - x) <= / 2.
Proof.
  unfold rint, nfrac; rops. destruct (Rfloor_bounds x) as [H1 H2].
  set (r := Rfloor x) in *. clearbody r.
  destruct (Rltb_spec (x - IZR r) (1 / 2)).
  - apply Rabs_le; lra.
  - destruct (Rltb_spec (1 / 2) (x - IZR r)).
    + rewrite plus_IZR. apply Rabs_le; lra.
    + destruct (Z.even r); [|rewrite plus_IZR]; apply Rabs_le; lra.
Qed.

Lemma pow10_pos d : 0 < pow10 ROps d.
Proof. unfold pow10; rops. apply IZR_lt. apply Z.pow_pos_nonneg; lia. Qed.

(* each coordinate differs from the original by at most half a unit in the last kept decimal *)
Lemma round_error_half_ulp d x : Rabs (round_dec ROps d x - x) <= / 2 * / pow10 ROps d.
Proof.
  unfold round_dec; rops. pose proof (pow10_pos d) as Hp. set (t := pow10 ROps d) in *. clearbody t.
  pose proof (rint_half (x * t)) as H. set (k := IZR (rint ROps (x * t))) in *. clearbody k.
  replace (k / t - x) with ((k - x * t) * / t) by (field; lra).
  rewrite Rabs_mult, (Rabs_right (/ t)) by (left; apply Rinv_0_lt_compat; lra).
  apply Rmult_le_compat_r; [left; apply Rinv_0_lt_compat; lra|exact H].
Qed.
