(* C19: facts about decimal rounding, the schema validator and the serialization round trip. *)
From Coq Require Import ZArith Reals Lra Psatz List Bool Lia Arith String.
From PW Require Import Num NumR Vec NpList Result.
From PW.model Require Import M_polyline_base M_plane M_serialize.
From PW.proofs Require Import P_vec.
Import ListNotations.
Local Open Scope R_scope.

(* ---- rounding ------------------------------------------------------------------------------------------ *)
Lemma Rfloor_bounds x : IZR (Rfloor x) <= x < IZR (Rfloor x) + 1.
Proof. unfold Rfloor. destruct (base_Int_part x) as [H1 H2]. lra. Qed.

Lemma rint_half x : Rabs (IZR (rint ROps x) - x) <= / 2.
Proof.
  unfold rint, nfrac; rops. destruct (Rfloor_bounds x) as [H1 H2].
  set (r := Rfloor x) in *. clearbody r.
  destruct (Rltb_spec (x - IZR r) (1 / 2)).
  - apply Rabs_le; lra.
  - destruct (Rltb_spec (1 / 2) (x - IZR r)).
    + rewrite plus_IZR. apply Rabs_le; lra.
    + destruct (Z.even r); [|rewrite plus_IZR]; apply Rabs_le; lra.
Qed.

Lemma pow10_pos d : 0 < pow10 ROps d.
Proof. unfold pow10; rops. apply IZR_lt. apply Z.pow_pos_nonneg; lia. Qed.

(* each coordinate differs from the original by at most half a unit in the last kept decimal *)
Lemma round_error_half_ulp d x : Rabs (round_dec ROps d x - x) <= / 2 * / pow10 ROps d.
Proof.
  unfold round_dec; rops. pose proof (pow10_pos d) as Hp. set (t := pow10 ROps d) in *. clearbody t.
  pose proof (rint_half (x * t)) as H. set (k := IZR (rint ROps (x * t))) in *. clearbody k.
  replace (k / t - x) with ((k - x * t) * / t) by (field; lra).
  rewrite Rabs_mult, (Rabs_right (/ t)) by (left; apply Rinv_0_lt_compat; lra).
  apply Rmult_le_compat_r; [left; apply Rinv_0_lt_compat; lra|exact H].
Qed.

(* ---- validator on serialized documents ------------------------------------------------------------------- *)
Local Open Scope string_scope.
Lemma jvec_valid f (v : vec3 R) : validate (S (S (S f))) polliwog_defs (SRef "Vector3") (jvec v) = true.
Proof. reflexivity. Qed.
Lemma jvecs_valid f (vs : list (vec3 R)) :
  forallb (validate (S (S (S f))) polliwog_defs (SRef "Vector3")) (map jvec vs) = true.
Proof. induction vs as [|v r IH]; [reflexivity|]. cbn [map forallb]. rewrite IH, jvec_valid. reflexivity. Qed.

Lemma pl_to_json_valid (p : polyline R) : pl_validate (pl_to_json p) = true.
Proof.
  unfold pl_validate, validate_ref, fuel0, pl_to_json.
  change (validate 12 polliwog_defs (SRef "Polyline") ?j) with (validate 11 polliwog_defs polyline_schema j).
  cbn [validate polyline_schema has_type andb forallb assoc String.eqb Ascii.eqb Bool.eqb fst snd opt_le opt_ge].
  rewrite (jvecs_valid 6). reflexivity.
Qed.
Lemma serialize_validates d (p : polyline R) : pl_validate (pl_serialize ROps d p) = true.
Proof. apply pl_to_json_valid. Qed.

Lemma unjvecs_jvec (vs : list (vec3 R)) : unjvecs (map jvec vs) = Some vs.
Proof. induction vs as [|[x y z] r IH]; [reflexivity|]. cbn [map unjvecs jvec unjvec vx vy vz]. rewrite IH. reflexivity. Qed.

(* deserialize(serialize(p, d)) = rounded(p, d): every polyline, the empty one included, every d *)
Lemma roundtrip_polyline d (p : polyline R) : pl_deserialize (pl_serialize ROps d p) = Ok (pl_rounded ROps d p).
Proof.
  unfold pl_deserialize. rewrite serialize_validates. unfold pl_serialize, pl_to_json.
  cbn [assoc String.eqb Ascii.eqb Bool.eqb]. rewrite unjvecs_jvec. destruct (pl_rounded ROps d p); reflexivity.
Qed.

Lemma plane_to_json_valid (pl : plane R) : plane_validate (plane_to_json pl) = true.
Proof. reflexivity. Qed.

(* whenever rounded succeeds, serialize returns a valid document of the rounded plane, and deserialize of it
   re-validates the normal at the default precision; at the default direction precision that is rounded() itself *)
Lemma roundtrip_plane pd dd (pl r : plane R) : plane_rounded ROps pd dd pl = Ok r ->
  plane_serialize ROps pd dd pl = Ok (plane_to_json r) /\ plane_validate (plane_to_json r) = true /\
  plane_deserialize ROps (plane_to_json r) = plane_ctor ROps (pref r) (pnormal r) default_dd /\
  (dd = default_dd -> plane_deserialize ROps (plane_to_json r) = Ok r).
Proof.
  intros H. unfold plane_serialize. rewrite H. cbn [rmap]. split; [reflexivity|]. split; [reflexivity|].
  assert (Hd : plane_deserialize ROps (plane_to_json r) = plane_ctor ROps (pref r) (pnormal r) default_dd).
  { unfold plane_deserialize. rewrite plane_to_json_valid. destruct r as [[a b c] [x y z]]. reflexivity. }
  split; [exact Hd|]. intros ->. rewrite Hd. unfold plane_rounded, plane_ctor in *.
  destruct (nleb ROps _ _) eqn:E in H; [|discriminate]. injection H as <-. cbn [pref pnormal]. rewrite E. reflexivity.
Qed.

(* deserialize never builds an object from data that validate refuses *)
Lemma pl_deserialize_guarded (j : json R) p : pl_deserialize j = Ok p -> pl_validate j = true.
Proof. unfold pl_deserialize. destruct (pl_validate j); [reflexivity|discriminate]. Qed.
Lemma plane_deserialize_guarded (j : json R) p : plane_deserialize ROps j = Ok p -> plane_validate j = true.
Proof. unfold plane_deserialize. destruct (plane_validate j); [reflexivity|discriminate]. Qed.

(* ---- validate accepts only well-formed documents ---------------------------------------------------------- *)
Lemma validate_S {F} f defs s (j : json F) : validate (S f) defs s j =
  match s with
  | SRef name => match assoc name defs with Some s' => validate f defs s' j | None => false end
  | SNode ty props required additional items mi ma =>
      match ty with None => true | Some t => has_type t j end &&
      match j with
      | JObj kv =>
          forallb (fun k => match assoc k kv with Some _ => true | None => false end) required &&
          forallb (fun ks => match assoc (fst ks) kv with
                             | Some v => validate f defs (snd ks) v
                             | None => true end) props &&
          match additional with
          | Some false => forallb (fun kv' => match assoc (fst kv') props with Some _ => true | None => false end) kv
          | _ => true
          end
      | JArr l =>
          opt_le mi (List.length l) && opt_ge ma (List.length l) &&
          match items with Some si => forallb (validate f defs si) l | None => true end
      | _ => true
      end
  end.
Proof. reflexivity. Qed.

Ltac vstep H := rewrite validate_S in H;
  cbn [polyline_schema plane_schema vector3_schema polliwog_defs has_type andb forallb fst snd assoc String.eqb Ascii.eqb Bool.eqb
       opt_le opt_ge] in H.

Lemma vector3_wellformed f (e : json R) : validate (S (S (S f))) polliwog_defs (SRef "Vector3") e = true ->
  exists x y z, e = JArr [JNum x; JNum y; JNum z].
Proof.
  intros H. vstep H. vstep H.
  destruct e as [| | | |l|]; try discriminate H.
  destruct l as [|a [|b [|c [|d r]]]]; cbn [List.length Nat.leb andb forallb] in H; try discriminate H.
  rewrite !validate_S in H. destruct a, b, c; cbn [has_type andb] in H; try discriminate H.
  eexists _, _, _. reflexivity.
Qed.

Lemma pl_validate_wellformed (j : json R) : pl_validate j = true ->
  exists kv l b, j = JObj kv /\ assoc "vertices" kv = Some (JArr l) /\ assoc "isClosed" kv = Some (JBool b) /\
    (forall k v, In (k, v) kv -> k = "vertices" \/ k = "isClosed") /\
    (forall e, In e l -> exists x y z, e = JArr [JNum x; JNum y; JNum z]).
Proof.
  unfold pl_validate, validate_ref, fuel0. intros H. vstep H.
  destruct j as [| | | | |kv]; try (vstep H; discriminate H).
  vstep H.
  apply andb_true_iff in H. destruct H as [H Hadd]. apply andb_true_iff in H. destruct H as [Hreq Hprops].
  destruct (assoc "vertices" kv) as [vv|] eqn:Ev; [|discriminate Hreq].
  destruct (assoc "isClosed" kv) as [cc|] eqn:Ec; [|discriminate Hreq].
  apply andb_true_iff in Hprops. destruct Hprops as [Hc Hv]. rewrite andb_true_r in Hv.
  vstep Hc. vstep Hv.
  destruct cc as [|b| | | |]; try discriminate Hc.
  destruct vv as [| | | |l|]; try discriminate Hv.
  exists kv, l, b. split; [reflexivity|]. split; [exact Ev|]. split; [exact Ec|]. split.
  - intros k v Hin. rewrite forallb_forall in Hadd. specialize (Hadd (k, v) Hin). cbn [fst assoc] in Hadd.
    destruct (String.eqb_spec k "isClosed") as [->|_]; [right; reflexivity|].
    destruct (String.eqb_spec k "vertices") as [->|_]; [left; reflexivity|discriminate Hadd].
  - intros e Hin. cbn [andb] in Hv. rewrite forallb_forall in Hv. apply (vector3_wellformed 6). apply Hv. exact Hin.
Qed.

Lemma plane_validate_wellformed (j : json R) : plane_validate j = true ->
  exists kv, j = JObj kv /\
    (exists x y z, assoc "referencePoint" kv = Some (JArr [JNum x; JNum y; JNum z])) /\
    (exists x y z, assoc "unitNormal" kv = Some (JArr [JNum x; JNum y; JNum z])) /\
    (forall k v, In (k, v) kv -> k = "referencePoint" \/ k = "unitNormal").
Proof.
  unfold plane_validate, validate_ref, fuel0. intros H. vstep H.
  destruct j as [| | | | |kv]; try (vstep H; discriminate H).
  vstep H.
  apply andb_true_iff in H. destruct H as [H Hadd]. apply andb_true_iff in H. destruct H as [Hreq Hprops].
  destruct (assoc "referencePoint" kv) as [rr|] eqn:Er; [|discriminate Hreq].
  destruct (assoc "unitNormal" kv) as [nn|] eqn:En; [|discriminate Hreq].
  apply andb_true_iff in Hprops. destruct Hprops as [Hr Hn]. rewrite andb_true_r in Hn.
  exists kv. split; [reflexivity|].
  split; [|split].
  - destruct (vector3_wellformed 7 rr) as [x [y [z ->]]]; [exact Hr|]. eexists _, _, _. exact Er.
  - destruct (vector3_wellformed 7 nn) as [x [y [z ->]]]; [exact Hn|]. eexists _, _, _. exact En.
  - intros k v Hin. rewrite forallb_forall in Hadd. specialize (Hadd (k, v) Hin). cbn [fst assoc] in Hadd.
    destruct (String.eqb_spec k "referencePoint") as [->|_]; [left; reflexivity|].
    destruct (String.eqb_spec k "unitNormal") as [->|_]; [right; reflexivity|discriminate Hadd].
Qed.

(* ---- Plane.rounded succeeds for every unit normal at every precision --------------------------------------- *)
Local Open Scope R_scope.
Lemma Rabs_le_two x h : Rabs x <= h -> - h <= x <= h.
Proof. unfold Rabs. destruct (Rcase_abs x); lra. Qed.

(* a unit vector whose coordinates each move by at most h keeps a length within sqrt(3) h <= 2 h of 1 *)
Lemma unit_round_norm a b c a' b' c' h : a * a + b * b + c * c = 1 -> 0 <= h ->
  - h <= a' - a <= h -> - h <= b' - b <= h -> - h <= c' - c <= h ->
  Rabs (sqrt (a' * a' + b' * b' + c' * c') - 1) <= 2 * h.
Proof.
  intros Hu Hh Ha Hb Hc.
  set (x := a' - a) in *. set (y := b' - b) in *. set (z := c' - c) in *.
  assert (Ea : a' = a + x) by (unfold x; ring). assert (Eb : b' = b + y) by (unfold y; ring).
  assert (Ec : c' = c + z) by (unfold z; ring). clearbody x y z. subst a' b' c'.
  assert (Hq : 0 <= (a + x) * (a + x) + (b + y) * (b + y) + (c + z) * (c + z)).
  { pose proof (Rle_0_sqr (a + x)). pose proof (Rle_0_sqr (b + y)). pose proof (Rle_0_sqr (c + z)). unfold Rsqr in *. lra. }
  set (nn := sqrt ((a + x) * (a + x) + (b + y) * (b + y) + (c + z) * (c + z))).
  assert (HN : nn * nn = (a + x) * (a + x) + (b + y) * (b + y) + (c + z) * (c + z)) by (apply sqrt_sqrt; exact Hq).
  assert (HN0 : 0 <= nn) by apply sqrt_pos. clearbody nn.
  set (D := x * x + y * y + z * z).
  assert (HD : 0 <= D) by (unfold D; nra).
  assert (HD3 : D <= 3 * (h * h)) by (unfold D; nra).
  set (s := sqrt D). assert (Hs : s * s = D) by (apply sqrt_sqrt; exact HD).
  assert (Hs0 : 0 <= s) by apply sqrt_pos. clearbody s.
  set (t := a * x + b * y + c * z).
  assert (HCS : t * t <= D).
  { assert (Hid : (a * a + b * b + c * c) * D - t * t =
                  (a * y - b * x) * (a * y - b * x) + (a * z - c * x) * (a * z - c * x) + (b * z - c * y) * (b * z - c * y))
      by (unfold t, D; ring).
    rewrite Hu in Hid. pose proof (Rle_0_sqr (a * y - b * x)). pose proof (Rle_0_sqr (a * z - c * x)).
    pose proof (Rle_0_sqr (b * z - c * y)). unfold Rsqr in *. lra. }
  assert (HN2 : nn * nn = 1 + 2 * t + D) by (rewrite HN; unfold t, D; nra).
  assert (Hts : - s <= t <= s) by (split; nra).
  assert (Hs2h : s <= 2 * h) by nra.
  assert (Hup : nn <= 1 + s) by nra.
  assert (Hlo : 1 - s <= nn).
  { destruct (Rle_dec (1 - s) 0); [lra|]. nra. }
  apply Rabs_le. lra.
Qed.

Lemma plane_rounded_succeeds pd dd (pl : plane R) : vnorm2 ROps (pnormal pl) = 1 ->
  plane_rounded ROps pd dd pl = Ok (MkPlane (vround ROps pd (pref pl)) (vround ROps dd (pnormal pl))).
Proof.
  intros Hu. unfold plane_rounded, plane_ctor.
  replace (nleb ROps _ _) with true; [reflexivity|]. symmetry.
  destruct pl as [rf [a b c]]. cbn [pnormal] in *. unfold vnorm2, vdot in Hu. cbn [vx vy vz] in Hu.
  unfold vround, vnorm, vnorm2, vdot, n1; rops; cbn [vx vy vz]. rops. apply Rleb_true.
  pose proof (pow10_pos dd) as Hp.
  replace (1 / pow10 ROps dd) with (2 * (/ 2 * / pow10 ROps dd)) by (field; lra).
  apply unit_round_norm with (a := a) (b := b) (c := c).
  - exact Hu.
  - assert (0 < / pow10 ROps dd) by (apply Rinv_0_lt_compat; exact Hp). lra.
  - apply Rabs_le_two, round_error_half_ulp.
  - apply Rabs_le_two, round_error_half_ulp.
  - apply Rabs_le_two, round_error_half_ulp.
Qed.
(* hence serialize succeeds too, with a document that validates *)
Lemma plane_serialize_succeeds pd dd (pl : plane R) : vnorm2 ROps (pnormal pl) = 1 ->
  exists j, plane_serialize ROps pd dd pl = Ok j /\ plane_validate j = true.
Proof.
  intros Hu. unfold plane_serialize. rewrite (plane_rounded_succeeds pd dd pl Hu). cbn [rmap].
  eexists. split; [reflexivity|]. reflexivity.
Qed.

(* ---- statement-shaped corollaries used by props/C19.v ---------------------------------------------------- *)
Lemma roundtrip_polyline_full d (p : polyline R) :
  pl_deserialize (pl_serialize ROps d p) = Ok (pl_rounded ROps d p) /\
  pclosed (pl_rounded ROps d p) = pclosed p /\ pv (pl_rounded ROps d p) = map (vround ROps d) (pv p).
Proof. split; [apply roundtrip_polyline|split; reflexivity]. Qed.
Lemma deserialize_guarded (j : json R) :
  (forall p, pl_deserialize j = Ok p -> pl_validate j = true) /\
  (forall p, plane_deserialize ROps j = Ok p -> plane_validate j = true).
Proof. split; [apply pl_deserialize_guarded|apply plane_deserialize_guarded]. Qed.
(* rounded / serialize / deserialize of a unit-normal plane at the default direction precision: the full round trip *)
Lemma roundtrip_plane_default pd (pl : plane R) : vnorm2 ROps (pnormal pl) = 1 ->
  exists j, plane_serialize ROps pd default_dd pl = Ok j /\ plane_validate j = true /\
    plane_deserialize ROps j = Ok (MkPlane (vround ROps pd (pref pl)) (vround ROps default_dd (pnormal pl))).
Proof.
  intros Hu. pose proof (plane_rounded_succeeds pd default_dd pl Hu) as Hr.
  destruct (roundtrip_plane pd default_dd pl _ Hr) as [Hs [Hv [_ Hd]]].
  eexists. split; [exact Hs|]. split; [exact Hv|]. apply Hd. reflexivity.
Qed.
