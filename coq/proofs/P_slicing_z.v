(* C02: face arrays with negative (wrapping) entries — the layer slice_faces_plane_z of M_slicing.v. *)
From Coq Require Import ZArith Reals Lra List Bool Lia Arith.
From PW Require Import Num NumR Vec NpList Result.
From PW.model Require Import M_slicing M_slicing_spec.
From PW.proofs Require Import P_nplist P_slicing P_slicing_mesh.
Import ListNotations.


Lemma norm_face_nonneg nv f : zface_in_range nv f -> norm_face nv f = Some (zface_to_nat f).
Proof.
  intros H. unfold norm_face, python_index, zface_to_nat.
  pose proof (H 0%nat) as H0. pose proof (H 1%nat) as H1. pose proof (H 2%nat) as H2.
  rewrite !(proj2 (Z.leb_le 0 _)) by lia. rewrite !(proj2 (Z.ltb_lt _ _)) by lia. reflexivity.
Qed.
Lemma all_some_norm nv fsz : (forall f, In f fsz -> zface_in_range nv f) ->
  all_some (map (norm_face nv) fsz) = Some (map zface_to_nat fsz).
Proof.
  induction fsz as [|f r IH]; intros H; [reflexivity|]. cbn [map all_some].
  rewrite (norm_face_nonneg nv f (H f (or_introl eq_refl))), IH; [reflexivity|]. intros g Hg. apply H. right. exact Hg.
Qed.
Lemma neg_survives_nonneg nv f s m : zface_in_range nv f -> neg_survives f s m = false.
Proof.
  intros H. unfold neg_survives. destruct (face_case s m) as [| |k|k].
  - unfold znonneg. rewrite !(proj2 (Z.leb_le 0 _)) by apply H. reflexivity.
  - reflexivity.
  - rewrite !(proj2 (Z.ltb_ge _ _)) by apply H. reflexivity.
  - apply Z.ltb_ge, H.
Qed.

(* on face arrays without negative entries (all in range) the layer is the model proper: every theorem about
   slice_faces_plane applies *)
Theorem slice_z_nonneg tol eps vs fsz n o fi : vs <> [] -> (forall f, In f fsz -> zface_in_range (length vs) f) ->
  slice_faces_plane_z ROps tol eps vs fsz n o fi = slice_faces_plane ROps tol eps vs (map zface_to_nat fsz) n o fi.
Proof.
  intros Hvs Hr. unfold slice_faces_plane_z, slice_faces_plane.
  destruct vs as [|v0 vs0]; [congruence|]. cbn [length Nat.eqb]. set (vs := v0 :: vs0) in *.
  change (S (length vs0)) with (length vs). rewrite (all_some_norm (length vs) fsz Hr).
  destruct (mask_of (length (map zface_to_nat fsz)) fi) as [mask|e]; cbn [rbind]; [|reflexivity].
  destruct (resolve vs _ _ (map zface_to_nat fsz) mask) as [fds|]; [|reflexivity].
  replace (existsb _ (zip fsz fds)) with false; [reflexivity|]. symmetry.
  apply not_true_is_false. intros He. apply existsb_exists in He. destruct He as ((f & d) & Hin & Hs).
  apply zip_In in Hin. destruct Hin as [Hf _]. cbn [fst snd] in Hs.
  rewrite (neg_survives_nonneg (length vs) f _ _ (Hr f Hf)) in Hs. discriminate.
Qed.

Local Open Scope R_scope.
(* REFUTED for wrapping entries (known finding negative_index_survives): a face array whose entries all index the
   vertices in NumPy's sense (-k <= i < k) can make the call raise ValueError — here one vertex in front of the plane and
   the face (-1, -1, -1), which is kept and carries its negative entries into np.bincount *)
Theorem negative_index_survives :
  exists tol eps vs fsz n o,
    (forall f, In f fsz -> forall k, (- Z.of_nat (length vs) <= zget f k < Z.of_nat (length vs))%Z) /\
    slice_faces_plane_z ROps tol eps vs fsz n o None = Raise ValueError.
Proof.
  exists 0, 0, [V3 0 0 1], [mkzface (-1) (-1) (-1)], (V3 0 0 1), (V3 0 0 0). split.
  - intros f [<-|[]] k. destruct k as [|[|k]]; cbn; lia.
  - assert (D : snapped_dot ROps 0 (V3 0 0 1) (V3 0 0 0) (V3 0 0 1) = 1).
    { assert (P : plane_dot ROps (V3 0 0 1) (V3 0 0 0) (V3 0 0 1) = 1) by (unfold plane_dot; P_vec.vunf; ring).
      unfold snapped_dot. rewrite P. destruct (snap_cases 0 1 ltac:(lra)) as [[_ H]|[E _]]; [exfalso; lra|exact E]. }
    assert (S1 : vsign ROps 0 1 = (-1)%Z) by (apply vsign_front; lra).
    unfold slice_faces_plane_z. cbn [length Nat.eqb map]. rewrite D. cbn [map]. rewrite S1. reflexivity.
Qed.
