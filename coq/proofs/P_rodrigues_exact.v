From Coq Require Import ZArith Reals Lra Psatz List Bool Lia Nsatz.
From Coquelicot Require Import Coquelicot.
From PW Require Import Num NumR Vec Mat NpList Result.
From PW.model Require Import M_rodrigues M_rodrigues_spec M_rodrigues_exact.
From PW.proofs Require Import P_vec P_mat P_rodrigues P_rodrigues_rt P_rodrigues_deriv.
Import ListNotations.
Local Open Scope R_scope.
(* Real-number lemmas for M_rodrigues.v (C10): the exact map on coordinate axes and its derivative at r = 0. *)

Lemma vnorm_axis_line j t : (j < 3)%nat -> vnorm ROps (vscale ROps t (vbasis ROps j)) = Rabs t.
Proof.
  intros Hj. unfold vnorm, vnorm2, vdot, vscale, vbasis, n0, n1; rops.
  destruct j as [|[|[|j]]]; try lia; cbn [vx vy vz];
  match goal with |- sqrt ?e = _ => replace e with (Rsqr t) by (unfold Rsqr; ring) end; apply sqrt_Rsqr_abs.
Qed.

(* on a coordinate axis the exact map is the plane rotation: no sin t / t anywhere *)
Lemma rod_exact_on_axis j t : (j < 3)%nat -> rod_exact (vscale ROps t (vbasis ROps j)) = plane_rot j t.
Proof.
  intros Hj. unfold rod_exact. rewrite (vnorm_axis_line j t Hj).
  destruct (Reqb_spec (Rabs t) 0) as [E|E].
  - assert (t = 0) by (destruct (Req_dec t 0); [assumption | exfalso; apply (Rabs_no_R0 t); assumption]). subst t.
    destruct j as [|[|[|j]]]; try lia; unfold plane_rot; rewrite ?cos_0, ?sin_0; apply M3_inj; munf; ring.
  - assert (Ht : t <> 0) by (intros ->; apply E, Rabs_R0).
    unfold rod_axis, rod_theta. rewrite (vnorm_axis_line j t Hj).
    destruct (Rtotal_order t 0) as [Hneg|[H0|Hpos]]; [|contradiction|].
    + rewrite (Rabs_left t Hneg). rewrite cos_neg, sin_neg.
      destruct j as [|[|[|j]]]; try lia; unfold plane_rot, vbasis, n0, n1; apply M3_inj; runf; field; lra.
    + rewrite (Rabs_pos_eq t) by lra.
      destruct j as [|[|[|j]]]; try lia; unfold plane_rot, vbasis, n0, n1; apply M3_inj; runf; field; lra.
Qed.

(* the table the code returns at r = 0 (and for |r| < eps) is the derivative of the exact map at 0 *)
Lemma exact_derivative_at_zero j a b : (j < 3)%nat -> (a < 3)%nat -> (b < 3)%nat ->
  is_derive (fun t => m3get (rod_exact (vscale ROps t (vbasis ROps j))) a b) 0 (m3get (rod_dskew ROps j) a b).
Proof.
  intros Hj Ha Hb.
  apply (is_derive_ext (fun t => m3get (plane_rot j t) a b)).
  - intros t. rewrite rod_exact_on_axis by exact Hj. reflexivity.
  - destruct j as [|[|[|j]]]; try lia; destruct a as [|[|[|a]]]; try lia; destruct b as [|[|[|b]]]; try lia;
    cbv [m3get plane_rot rod_dskew rod_m1 n0 n1 a00 a01 a02 a10 a11 a12 a20 a21 a22]; rops;
    auto_derive; try exact I; rewrite ?cos_0, ?sin_0; ring.
Qed.

Lemma fwd_jacobian_at_zero j a b : (j < 3)%nat -> (a < 3)%nat -> (b < 3)%nat ->
  nth_error (rodrigues_fwd_jac ROps (V3 0 0 0)) j = Some (rod_dskew ROps j) /\
  (forall t, rod_exact (vscale ROps t (vbasis ROps j)) = plane_rot j t) /\
  is_derive (fun t => m3get (rod_exact (vscale ROps t (vbasis ROps j))) a b) 0 (m3get (rod_dskew ROps j) a b).
Proof.
  intros Hj Ha Hb. split; [|split].
  - rewrite fwd_jac_small.
    + destruct j as [|[|[|j]]]; try lia; reflexivity.
    + unfold vnorm, vnorm2; vunf. replace (0 * 0 + 0 * 0 + 0 * 0) with 0 by ring. rewrite sqrt_0. apply rod_eps_pos.
  - intros t. apply rod_exact_on_axis, Hj.
  - apply exact_derivative_at_zero; assumption.
Qed.
