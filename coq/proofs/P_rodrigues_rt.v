(* Real-number lemmas for M_rodrigues.v (C10): matrix -> vector -> matrix, Jacobian composition. *)
From Coq Require Import ZArith Reals Lra Psatz List Bool Lia Nsatz.
From PW Require Import Num NumR Vec Mat NpList Result.
From PW.model Require Import M_rodrigues M_rodrigues_spec.
From PW.proofs Require Import P_vec P_mat P_rodrigues P_rodrigues_inv P_rodrigues_jac.
Import ListNotations.
Local Open Scope R_scope.

(* matrix -> vector -> matrix, generic branch *)
Lemma fwd_of_inv_generic proj m : proj_ok proj -> proper m -> rod_small ROps <= rod_inv_s ROps m ->
  exists v, rodrigues_inv ROps proj m = Some v /\ rodrigues_fwd ROps v = m.
Proof.
  intros Hp Hm Hs.
  destruct (inv_generic_repr proj m Hp Hm Hs) as (Hcs & Hk & Hrep & Hic & Hcos & Hsin & [Hlt Hpi] & Hinv).
  set (s := rod_inv_s ROps m) in *. set (c := (a00 m + a11 m + a22 m - 1) * / 2) in *.
  set (k := vscale ROps (1 / (2 * s)) (rod_antisym ROps m)) in *. set (th := acos c) in *.
  pose proof rod_small_pos. pose proof rod_eps_lt_small.
  exists (vscale ROps th k). split; [exact Hinv|].
  assert (Hn : vnorm ROps (vscale ROps th k) = th).
  { rewrite vnorm_vscale, (vnorm_unit k Hk), Rabs_pos_eq by lra. ring. }
  rewrite fwd_generic by (rewrite Hn; lra). rewrite Hn, Hcos, Hsin.
  transitivity (rod_matrix ROps c s k); [|symmetry; exact Hrep]. f_equal.
  unfold rod_axis, rod_theta. rewrite Hn. clearbody th k. destruct k as [x y z]. apply V3_inj; vunf; field; lra.
Qed.

(* ---- Jacobians ------------------------------------------------------------------------------------ *)
Lemma fwd_jac_generic r : rod_eps ROps <= vnorm ROps r ->
  rodrigues_fwd_jac ROps r =
  let t := vnorm ROps r in let k := rod_axis ROps r in
  [rod_jac_row ROps (cos t) (sin t) (1 / t) k 0; rod_jac_row ROps (cos t) (sin t) (1 / t) k 1;
   rod_jac_row ROps (cos t) (sin t) (1 / t) k 2].
Proof.
  intros H. unfold rodrigues_fwd_jac, rod_theta. change (nltb ROps) with Rltb.
  rewrite (proj2 (Rltb_false _ _)) by exact H. reflexivity.
Qed.
Lemma fwd_jac_small r : vnorm ROps r < rod_eps ROps ->
  rodrigues_fwd_jac ROps r = [rod_dskew ROps 0; rod_dskew ROps 1; rod_dskew ROps 2].
Proof.
  intros H. unfold rodrigues_fwd_jac, rod_theta. change (nltb ROps) with Rltb.
  rewrite (proj2 (Rltb_true _ _)) by exact H. reflexivity.
Qed.

Lemma jacobians_compose_generic proj m : proj_ok proj -> proper m -> rod_small ROps <= rod_inv_s ROps m ->
  exists v, rodrigues_inv ROps proj m = Some v /\
    jac_compose (rodrigues_fwd_jac ROps v) (rodrigues_inv_jac ROps proj m) = I33.
Proof.
  intros Hp Hm Hs.
  destruct (inv_generic_repr proj m Hp Hm Hs) as (Hcs & Hk & Hrep & Hic & Hcos & Hsin & [Hlt Hpi] & Hinv).
  set (s := rod_inv_s ROps m) in *. set (c := (a00 m + a11 m + a22 m - 1) * / 2) in *.
  set (k := vscale ROps (1 / (2 * s)) (rod_antisym ROps m)) in *. set (th := acos c) in *.
  pose proof rod_small_pos. pose proof rod_eps_lt_small.
  exists (vscale ROps th k). split; [exact Hinv|].
  assert (Hn : vnorm ROps (vscale ROps th k) = th).
  { rewrite vnorm_vscale, (vnorm_unit k Hk), Rabs_pos_eq by lra. ring. }
  rewrite fwd_jac_generic by (rewrite Hn; lra). cbv zeta. rewrite Hn, Hcos, Hsin.
  assert (Hax : rod_axis ROps (vscale ROps th k) = k).
  { unfold rod_axis, rod_theta. rewrite Hn. destruct k as [x y z]. apply V3_inj; vunf; field; lra. }
  rewrite Hax.
  unfold rodrigues_inv_jac. destruct Hm as (Ho & _). rewrite (Hp m Ho).
  unfold rodrigues_inv_jac_of_proj, rod_inv_theta. rewrite Hic. fold s.
  change (nltb ROps) with Rltb. rewrite (proj2 (Rltb_false _ _)) by exact Hs.
  change (nacos ROps c) with th.
  assert (Hw : rod_antisym ROps m = vscale ROps (2 * s) k).
  { subst k. destruct (rod_antisym ROps m) as [wx wy wz]. apply V3_inj; vunf; field; lra. }
  rewrite Hw. clearbody th k. destruct k as [x y z]. vunf_in Hk.
  apply jac_compose_abstract; try assumption; lra.
Qed.

Lemma jacobians_compose_of_vector proj r : proj_ok proj ->
  0 < vnorm ROps r < PI -> rod_small ROps <= sin (vnorm ROps r) ->
  jac_compose (rodrigues_fwd_jac ROps r) (rodrigues_inv_jac ROps proj (rodrigues_fwd ROps r)) = I33.
Proof.
  intros Hp [H0 Hpi] Hs. pose proof rod_small_pos. pose proof rod_eps_lt_small.
  assert (Hge : rod_eps ROps <= vnorm ROps r) by (pose proof (sin_lt_x _ H0); lra).
  assert (Hsm : rod_small ROps <= rod_inv_s ROps (rodrigues_fwd ROps r)).
  { rewrite fwd_generic by exact Hge. rewrite rod_inv_s_matrix; [exact Hs | apply rod_axis_unit, H0 | lra]. }
  destruct (jacobians_compose_generic proj _ Hp (fwd_proper r) Hsm) as (v & Hv & Hc).
  rewrite (inv_of_fwd proj r Hp (conj H0 Hpi) Hs) in Hv. injection Hv as <-. exact Hc.
Qed.

(* at the identity: forward Jacobian at r = 0 (the skew generators) times the table of the c > 0 branch *)
Lemma rod_inv_s_sym m : a21 m = a12 m -> a02 m = a20 m -> a10 m = a01 m -> rod_inv_s ROps m = 0.
Proof.
  intros H1 H2 H3. unfold rod_inv_s, rod_antisym, vnorm, vnorm2, vdot; rops; cbn [vx vy vz].
  rewrite H1, H2, H3. replace ((a12 m - a12 m) * (a12 m - a12 m) + (a20 m - a20 m) * (a20 m - a20 m) + (a01 m - a01 m) * (a01 m - a01 m)) with 0 by ring.
  rewrite sqrt_0. ring.
Qed.

Lemma rod_inv_c_eq m x : (a00 m + a11 m + a22 m - 1) * / 2 = x -> -1 <= x <= 1 -> rod_inv_c ROps m = x.
Proof.
  intros E Hx. unfold rod_inv_c. rops. unfold n1 at 1; rops.
  replace ((a00 m + a11 m + a22 m - 1) * rod_half ROps) with x by (rewrite <- E; unfold rod_half, nfrac; rops; field).
  apply nclip_id, Hx.
Qed.

Lemma jacobians_compose_identity proj : proj_ok proj ->
  jac_compose (rodrigues_fwd_jac ROps (V3 0 0 0)) (rodrigues_inv_jac ROps proj (I3 ROps)) = I33.
Proof.
  intros Hp. pose proof rod_small_pos.
  rewrite fwd_jac_small.
  2:{ unfold vnorm, vnorm2; vunf. replace (0 * 0 + 0 * 0 + 0 * 0) with 0 by ring. rewrite sqrt_0. apply rod_eps_pos. }
  unfold rodrigues_inv_jac. rewrite (Hp (I3 ROps)) by (destruct proper_I3 as (Ho & _); exact Ho).
  unfold rodrigues_inv_jac_of_proj. rewrite rod_inv_s_sym by reflexivity.
  change (nltb ROps) with Rltb. rewrite (proj2 (Rltb_true _ _)) by lra.
  assert (Hc : rod_inv_c ROps (I3 ROps) = 1) by (apply rod_inv_c_eq; [munf; field | lra]).
  rewrite Hc. rewrite (proj2 (Rltb_true _ _)) by (unfold n0; rops; lra).
  junf. unfold I33. repeat (apply cons_eq'; [repeat (apply cons_eq'; [ | ]); try reflexivity | ]); try reflexivity.
  all: field.
Qed.

(* in the half-turn branch the code returns the zero Jacobian: the composition is 0, not I *)
Definition half_turn_x : mat3 R := M3 1 0 0 0 (-1) 0 0 0 (-1).
Lemma half_turn_x_proper : proper half_turn_x.
Proof. unfold half_turn_x. repeat split; try (apply M3_inj; munf; ring). munf; ring. Qed.

Lemma inv_jac_half_turn_x proj : proj_ok proj -> rodrigues_inv_jac ROps proj half_turn_x = zeros93 ROps.
Proof.
  intros Hp. pose proof rod_small_pos.
  unfold rodrigues_inv_jac. rewrite (Hp half_turn_x) by (destruct half_turn_x_proper as (Ho & _); exact Ho).
  unfold rodrigues_inv_jac_of_proj. rewrite rod_inv_s_sym by reflexivity.
  change (nltb ROps) with Rltb. rewrite (proj2 (Rltb_true _ _)) by lra.
  assert (Hc : rod_inv_c ROps half_turn_x = -1) by (apply rod_inv_c_eq; [unfold half_turn_x; munf; field | lra]).
  rewrite Hc. rewrite (proj2 (Rltb_false _ _)) by (unfold n0; rops; lra). reflexivity.
Qed.

Lemma jacobians_compose_halfturn_refuted :
  exists m, proper m /\ forall proj, proj_ok proj -> forall v,
    jac_compose (rodrigues_fwd_jac ROps v) (rodrigues_inv_jac ROps proj m) <> I33.
Proof.
  exists half_turn_x. split; [apply half_turn_x_proper|]. intros proj Hp v.
  rewrite (inv_jac_half_turn_x proj Hp).
  assert (H : exists j0 j1 j2, rodrigues_fwd_jac ROps v = [j0; j1; j2]).
  { unfold rodrigues_fwd_jac. destruct (nltb ROps _ _); repeat eexists. }
  destruct H as (j0 & j1 & j2 & ->). destruct j0 as [b0 b1 b2 b3 b4 b5 b6 b7 b8].
  junf. unfold I33. intros E. assert (H1 := f_equal (fun l => hd 0 (hd [] l)) E). cbv [hd] in H1. lra.
Qed.
