(* C01/C02 ceiling: the mesh pipeline is the per-face kernel applied to every face (induction over the face list). *)
From Coq Require Import ZArith Reals Lra List Bool Lia Arith Sorted Permutation.
From PW Require Import Num NumR Vec NpList Result.
From PW.model Require Import M_slicing M_slicing_spec.
From PW.proofs Require Import P_nplist P_slicing_mesh.
Import ListNotations.

(* ---- masks, flatnonzero and take as filters over the indexed list --------------------------------------------- *)

Lemma take_nonzero_from {A} (p : A -> bool) (l : list A) : forall pre,
  take (pre ++ l) (nonzero_from (length pre) (map p l)) = filter p l.
Proof.
  induction l as [|a r IH]; intros pre; cbn [map nonzero_from filter]; [reflexivity|].
  assert (E : pre ++ a :: r = (pre ++ [a]) ++ r) by (rewrite <- app_assoc; reflexivity).
  assert (L : S (length pre) = length (pre ++ [a])) by (rewrite app_length; cbn; lia).
  destruct (p a).
  - cbn [take]. rewrite nth_error_app2 by lia. rewrite Nat.sub_diag. cbn [nth_error].
    rewrite E, L, IH. reflexivity.
  - rewrite E, L, IH. reflexivity.
Qed.
Lemma take_flatnonzero {A} (p : A -> bool) (l : list A) : take l (flatnonzero (map p l)) = filter p l.
Proof. apply (take_nonzero_from p l []). Qed.
Lemma nonzero_from_indexed {A} (p : A -> bool) (l : list A) : forall i,
  nonzero_from i (map p l) = map fst (filter (fun x => p (snd x)) (indexed_from i l)).
Proof.
  induction l as [|a r IH]; intros i; cbn [map nonzero_from]; [reflexivity|].
  unfold indexed_from. cbn [length seq zip filter snd]. fold (indexed_from (S i) r).
  destruct (p a); cbn [map fst]; rewrite IH; reflexivity.
Qed.
Lemma filter_indexed {A} (p : A -> bool) (l : list A) : forall i,
  filter p l = map snd (filter (fun x => p (snd x)) (indexed_from i l)).
Proof.
  induction l as [|a r IH]; intros i; cbn [filter]; [reflexivity|].
  unfold indexed_from. cbn [length seq zip filter snd]. fold (indexed_from (S i) r).
  destruct (p a); cbn [map snd]; rewrite (IH (S i)); reflexivity.
Qed.
Lemma map_filter_flat_map {A B} (p : A -> bool) (h : A -> list B) (l : list A) :
  flat_map h (filter p l) = flat_map (fun x => if p x then h x else []) l.
Proof.
  induction l as [|a r IH]; cbn [filter flat_map]; [reflexivity|].
  destruct (p a); cbn [flat_map app]; rewrite IH; reflexivity.
Qed.
Lemma zip_app {A B} (a a' : list A) (b b' : list B) : length a = length b -> zip (a ++ a') (b ++ b') = zip a b ++ zip a' b'.
Proof.
  revert b. induction a as [|x a IH]; intros [|y b] H; cbn [length] in H; try discriminate; [reflexivity|].
  cbn [app zip]. rewrite IH by lia. reflexivity.
Qed.
Lemma flat_map_app3_perm {A B} (f g h : A -> list B) (l : list A) :
  Permutation (flat_map f l ++ flat_map g l ++ flat_map h l) (flat_map (fun x => f x ++ g x ++ h x) l).
Proof.
  induction l as [|a r IH]; cbn [flat_map app]; [constructor|].
  rewrite <- !app_assoc. apply Permutation_app_head.
  transitivity (g a ++ flat_map f r ++ flat_map g r ++ h a ++ flat_map h r); [apply Permutation_app_swap_app|].
  apply Permutation_app_head.
  transitivity (h a ++ (flat_map f r ++ flat_map g r) ++ flat_map h r).
  { rewrite (app_assoc (flat_map f r)). apply Permutation_app_swap_app. }
  apply Permutation_app_head. rewrite <- app_assoc. exact IH.
Qed.

Lemma nth_error_app_some {A} (l ext : list A) i x : nth_error l i = Some x -> nth_error (l ++ ext) i = Some x.
Proof. intros H. rewrite nth_error_app1; [exact H|]. apply nth_error_Some. congruence. Qed.
Lemma lookup3_nth {A} (vs : list A) f (t : A * A * A) :
  lookup3 vs f = Some t ->
  nth_error vs (fget f 0) = Some (fst (fst t)) /\ nth_error vs (fget f 1) = Some (snd (fst t)) /\
  nth_error vs (fget f 2) = Some (snd t).
Proof.
  unfold lookup3. destruct (nth_error vs (fget f 0)); [|discriminate]. destruct (nth_error vs (fget f 1)); [|discriminate].
  destruct (nth_error vs (fget f 2)); [|discriminate]. intros [= <-]. cbn [fst snd]. auto.
Qed.

Section PerFace.
  Context (eps : R) (n o : vec3 R).
  Local Notation fdata := (@fdata R).


  Lemma fd_wf_nth vs d j : fd_wf vs d -> nth_error vs (fget (fd_f d) j) = Some (tget (fd_t d) j).
  Proof.
    intros H. apply lookup3_nth in H. destruct H as (H0 & H1 & H2).
    destruct j as [|[|j]]; cbn [fget tget]; assumption.
  Qed.
  Lemma lookup3_app vs ext f (t : tri R) : lookup3 vs f = Some t -> lookup3 (vs ++ ext) f = Some t.
  Proof.
    intros H. pose proof (lookup3_nth vs f t H) as (H0 & H1 & H2). unfold lookup3.
    rewrite (nth_error_app_some _ ext _ _ H0), (nth_error_app_some _ ext _ _ H1), (nth_error_app_some _ ext _ _ H2).
    destruct t as [[a b] c]. reflexivity.
  Qed.
  Lemma nth_at_length {A} (l : list A) x rest : nth_error (l ++ x :: rest) (length l) = Some x.
  Proof. rewrite nth_error_app2 by lia. rewrite Nat.sub_diag. reflexivity. Qed.
  Lemma nth_at_Slength {A} (l : list A) x y rest : nth_error (l ++ x :: y :: rest) (S (length l)) = Some y.
  Proof. rewrite nth_error_app2 by lia. replace (S (length l) - length l) with 1 by lia. reflexivity. Qed.

  Lemma quad_faces_tris vs (qs : list fdata) : forall pre post,
    (forall d, In d qs -> fd_wf vs d) ->
    mesh_tris (vs ++ pre ++ quad_verts ROps eps qs ++ post) (quad_faces (length (vs ++ pre)) qs) =
    flat_map (fun d => map Some (quad_tris ROps eps (fd_d d) (fd_t d) (col_of 1 (fd_s d)))) qs.
  Proof.
    induction qs as [|d r IH]; intros pre post Hwf; [reflexivity|].
    pose proof (Hwf d (or_introl eq_refl)) as Hd.
    cbn [quad_faces flat_map]. unfold quad_verts. cbn [flat_map]. fold (quad_verts ROps eps r).
    unfold quad_faces1, quad_tris, quad_new, mkface, mesh_tris. cbn [map app].
    set (P := int_points ROps eps (fd_d d) (fd_t d) ((col_of 1 (fd_s d) + 2) mod 3)).
    set (Q := int_points ROps eps (fd_d d) (fd_t d) ((col_of 1 (fd_s d) + 0) mod 3)).
    set (rest := quad_verts ROps eps r ++ post).
    rewrite (app_assoc vs pre (P :: Q :: rest)).
    unfold lookup3 at 1 2. cbn [fget fst snd].
    rewrite !nth_at_length, !nth_at_Slength.
    rewrite !(nth_error_app_some (vs ++ pre) (P :: Q :: rest) _ _ (nth_error_app_some vs pre _ _ (fd_wf_nth vs d _ Hd))).
    do 2 (apply (f_equal2 cons); [reflexivity|]).
    replace ((vs ++ pre) ++ P :: Q :: rest) with (vs ++ (pre ++ [P; Q]) ++ quad_verts ROps eps r ++ post)
      by (unfold rest; rewrite <- !app_assoc; reflexivity).
    replace (S (S (length (vs ++ pre)))) with (length (vs ++ pre ++ [P; Q])) by (rewrite !app_length; cbn [length]; lia).
    apply (IH (pre ++ [P; Q]) post). intros d' Hd'. apply Hwf. right. exact Hd'.
  Qed.

  Lemma tri_faces_tris vs (ts : list fdata) : forall pre post,
    (forall d, In d ts -> fd_wf vs d) ->
    mesh_tris (vs ++ pre ++ tri_verts ROps eps ts ++ post) (tri_faces (length (vs ++ pre)) ts) =
    flat_map (fun d => map Some (cut_tris ROps eps (fd_d d) (fd_t d) (col_of (-1) (fd_s d)))) ts.
  Proof.
    induction ts as [|d r IH]; intros pre post Hwf; [reflexivity|].
    pose proof (Hwf d (or_introl eq_refl)) as Hd.
    cbn [tri_faces flat_map]. unfold tri_verts. cbn [flat_map]. fold (tri_verts ROps eps r).
    unfold tri_faces1, cut_tris, tri_new, mkface, mesh_tris. cbn [map app].
    set (P := int_points ROps eps (fd_d d) (fd_t d) ((col_of (-1) (fd_s d) + 0) mod 3)).
    set (Q := int_points ROps eps (fd_d d) (fd_t d) ((col_of (-1) (fd_s d) + 2) mod 3)).
    set (rest := tri_verts ROps eps r ++ post).
    rewrite (app_assoc vs pre (P :: Q :: rest)).
    unfold lookup3 at 1. cbn [fget fst snd].
    rewrite !nth_at_length, !nth_at_Slength.
    rewrite !(nth_error_app_some (vs ++ pre) (P :: Q :: rest) _ _ (nth_error_app_some vs pre _ _ (fd_wf_nth vs d _ Hd))).
    apply (f_equal2 cons); [reflexivity|].
    replace ((vs ++ pre) ++ P :: Q :: rest) with (vs ++ (pre ++ [P; Q]) ++ tri_verts ROps eps r ++ post)
      by (unfold rest; rewrite <- !app_assoc; reflexivity).
    replace (S (S (length (vs ++ pre)))) with (length (vs ++ pre ++ [P; Q])) by (rewrite !app_length; cbn [length]; lia).
    apply (IH (pre ++ [P; Q]) post). intros d' Hd'. apply Hwf. right. exact Hd'.
  Qed.

  Lemma kept_tris vs ext (ks : list fdata) : (forall d, In d ks -> fd_wf vs d) ->
    mesh_tris (vs ++ ext) (map (@fd_f R) ks) = map (fun d => Some (fd_t d)) ks.
  Proof.
    intros H. unfold mesh_tris. rewrite map_map. apply map_ext_in. intros d Hd. apply lookup3_app, H, Hd.
  Qed.
End PerFace.

Lemma zip_nil_r {A B} (l : list A) : zip l (@nil B) = [].
Proof. destruct l; reflexivity. Qed.
Lemma zip_map_fst_snd {A B C} (g : B -> C) (X : list (A * B)) :
  zip (map fst X) (map g (map snd X)) = map (fun x => (fst x, g (snd x))) X.
Proof. induction X as [|x X IH]; cbn [map zip]; [reflexivity|]. rewrite IH. reflexivity. Qed.
Lemma flat_map_single {A B} (h : A -> B) (l : list A) : flat_map (fun x => [h x]) l = map h l.
Proof. induction l as [|a r IH]; cbn [flat_map map app]; [reflexivity|]. rewrite IH. reflexivity. Qed.

Section Assemble.
  Context (eps : R) (n o : vec3 R).
  Local Notation fdata := (@fdata R).

  (* what one input row contributes: its index paired with each coordinate triangle of the per-face kernel *)

  Definition k_part (x : nat * fdata) : list (nat * option (tri R)) :=
    if inside (fd_s (snd x)) (fd_m (snd x)) then [(fst x, Some (fd_t (snd x)))] else [].
  Definition q_part (x : nat * fdata) : list (nat * option (tri R)) :=
    if is_quad (fd_s (snd x)) (fd_m (snd x))
    then map (fun t' => (fst x, Some t')) (quad_tris ROps eps (fd_d (snd x)) (fd_t (snd x)) (col_of 1 (fd_s (snd x)))) else [].
  Definition t_part (x : nat * fdata) : list (nat * option (tri R)) :=
    if is_tri (fd_s (snd x)) (fd_m (snd x))
    then map (fun t' => (fst x, Some t')) (cut_tris ROps eps (fd_d (snd x)) (fd_t (snd x)) (col_of (-1) (fd_s (snd x)))) else [].

  Lemma parts_are_per_face x : k_part x ++ q_part x ++ t_part x = per_face eps x.
  Proof.
    unfold k_part, q_part, t_part, per_face, slice_face_signs, face_case.
    destruct (inside (fd_s (snd x)) (fd_m (snd x))) eqn:Ei;
      destruct (is_quad (fd_s (snd x)) (fd_m (snd x))) eqn:Eq;
      destruct (is_tri (fd_s (snd x)) (fd_m (snd x))) eqn:Et; cbn [app map]; try rewrite app_nil_r; try reflexivity; exfalso;
      unfold inside, is_quad, is_tri, onedge in *;
      repeat match goal with
             | H : (_ && _) = true |- _ => apply andb_prop in H; destruct H
             | H : (_ || _) = true |- _ => apply orb_prop in H; destruct H
             end;
      repeat match goal with
             | H : (_ <=? _)%Z = true |- _ => apply Z.leb_le in H
             | H : (_ <? _)%Z = true |- _ => apply Z.ltb_lt in H
             | H : (_ =? _)%Z = true |- _ => apply Z.eqb_eq in H
             | H : negb ?m = true, H' : ?m = true |- _ => rewrite H' in H; discriminate
             end; try lia.
  Qed.

  Lemma zip_repeat2_quads (X : list (nat * fdata)) :
    zip (repeat2 (map fst X))
        (flat_map (fun d => map Some (quad_tris ROps eps (fd_d d) (fd_t d) (col_of 1 (fd_s d)))) (map snd X)) =
    flat_map (fun x => map (fun t' => (fst x, Some t')) (quad_tris ROps eps (fd_d (snd x)) (fd_t (snd x)) (col_of 1 (fd_s (snd x))))) X.
  Proof.
    induction X as [|x X IH]; [reflexivity|]. cbn [map repeat2 flat_map]. unfold quad_tris at 1 3. cbn [map app zip].
    f_equal. f_equal. exact IH.
  Qed.
  Lemma quad_tris_flat_length (X : list (nat * fdata)) :
    length (repeat2 (map fst X)) =
    length (flat_map (fun d => map Some (quad_tris ROps eps (fd_d d) (fd_t d) (col_of 1 (fd_s d)))) (map snd X)).
  Proof.
    induction X as [|x X IH]; [reflexivity|]. cbn [map flat_map]. unfold repeat2 in *. cbn [flat_map].
    rewrite !app_length. unfold quad_tris at 1. cbn [map length]. rewrite IH. reflexivity.
  Qed.
  Lemma zip_tris (X : list (nat * fdata)) :
    zip (map fst X)
        (flat_map (fun d => map Some (cut_tris ROps eps (fd_d d) (fd_t d) (col_of (-1) (fd_s d)))) (map snd X)) =
    flat_map (fun x => map (fun t' => (fst x, Some t')) (cut_tris ROps eps (fd_d (snd x)) (fd_t (snd x)) (col_of (-1) (fd_s (snd x))))) X.
  Proof.
    induction X as [|x X IH]; [reflexivity|]. cbn [map flat_map]. unfold cut_tris at 1 3. cbn [map app zip].
    f_equal. exact IH.
  Qed.
End Assemble.

Section Main.
  Context (eps : R) (n o : vec3 R).
  Local Notation fdata := (@fdata R).

  Lemma new_faces_valid vs (fds : list fdata) :
    (forall d, In d fds -> face_valid (length vs) (fd_f d)) ->
    let kept := map (@fd_f R) (take fds (flatnonzero (inside_mask fds))) in
    let quads := take fds (flatnonzero (quad_mask fds)) in
    let tris := take fds (flatnonzero (tri_mask fds)) in
    let qv := quad_verts ROps eps quads in
    Forall (face_valid (length (vs ++ qv ++ tri_verts ROps eps tris)))
           (kept ++ quad_faces (length vs) quads ++ tri_faces (length vs + length qv) tris).
  Proof.
    intros Hd kept quads tris qv.
    assert (Hk : Forall (face_valid (length vs)) kept).
    { apply Forall_forall. intros f Hf. apply in_map_iff in Hf. destruct Hf as (d & <- & Hin). apply Hd. eapply take_In, Hin. }
    assert (Hq : forall d, In d quads -> face_valid (length vs) (fd_f d)) by (intros d Hin; apply Hd; eapply take_In, Hin).
    assert (Ht : forall d, In d tris -> face_valid (length vs) (fd_f d)) by (intros d Hin; apply Hd; eapply take_In, Hin).
    assert (HL : length (vs ++ qv ++ tri_verts ROps eps tris) = length vs + 2 * length quads + 2 * length tris).
    { unfold qv. rewrite !app_length, quad_verts_length, tri_verts_length. lia. }
    rewrite HL. apply Forall_app. split; [|apply Forall_app; split].
    - eapply Forall_impl; [|exact Hk]. intros f. apply face_valid_mono. lia.
    - apply (quad_faces_valid (length vs)); [exact Hq|lia|lia].
    - apply (tri_faces_valid (length vs)); [exact Ht|lia|unfold qv; rewrite quad_verts_length; lia].
  Qed.

  (* the returned coordinate triangles, paired with the returned face mapping, are those of the concatenated arrays *)
  Lemma slice_fds_tris vs (fds : list fdata) :
    (forall d, In d fds -> face_valid (length vs) (fd_f d)) ->
    let kidx := flatnonzero (inside_mask fds) in
    let qidx := flatnonzero (quad_mask fds) in
    let tidx := flatnonzero (tri_mask fds) in
    let kept := map (@fd_f R) (take fds kidx) in
    let quads := take fds qidx in
    let tris := take fds tidx in
    let qv := quad_verts ROps eps quads in
    let r := slice_fds ROps eps vs fds in
    zip (mo_map r) (mesh_tris (mo_v r) (mo_f r)) =
    zip (kidx ++ repeat2 qidx ++ tidx)
        (mesh_tris (vs ++ qv ++ tri_verts ROps eps tris)
                   (kept ++ quad_faces (length vs) quads ++ tri_faces (length vs + length qv) tris)).
  Proof.
    intros Hd kidx qidx tidx kept quads tris qv r.
    pose proof (new_faces_valid vs fds Hd) as Hall. cbv zeta in Hall.
    fold kidx qidx tidx in Hall. fold kept quads tris in Hall. fold qv in Hall.
    unfold r, slice_fds. fold kidx qidx tidx. fold kept quads tris. fold qv.
    destruct (length quads + length tris =? 0) eqn:E0.
    - apply Nat.eqb_eq in E0.
      assert (Eq : quads = []) by (apply length_zero_iff_nil; lia).
      assert (Et : tris = []) by (apply length_zero_iff_nil; lia).
      assert (Eqi : qidx = []).
      { apply length_zero_iff_nil. unfold quads in Eq. rewrite <- (take_length fds qidx), Eq; [reflexivity|].
        pose proof (flatnonzero_Forall_lt (quad_mask fds)) as H. unfold quad_mask in H at 1. rewrite map_length in H. exact H. }
      assert (Eti : tidx = []).
      { apply length_zero_iff_nil. unfold tris in Et. rewrite <- (take_length fds tidx), Et; [reflexivity|].
        pose proof (flatnonzero_Forall_lt (tri_mask fds)) as H. unfold tri_mask in H at 1. rewrite map_length in H. exact H. }
      unfold qv in *. rewrite Eq, Et, Eqi, Eti in *. cbn [quad_verts tri_verts flat_map quad_faces tri_faces repeat2 app length] in *.
      rewrite !app_nil_r in *.
      destruct (length kept =? 0) eqn:E1; cbn [mo_map mo_v mo_f].
      + apply Nat.eqb_eq in E1. apply length_zero_iff_nil in E1. rewrite E1. cbn [mesh_tris map]. rewrite !zip_nil_r. reflexivity.
      + destruct (renumber_spec vs kept Hall) as (_ & _ & H3). rewrite H3. reflexivity.
    - cbn [mo_map mo_v mo_f]. destruct (renumber_spec _ _ Hall) as (_ & _ & H3). rewrite H3. reflexivity.
  Qed.

  Theorem slice_fds_per_face vs (fds : list fdata) :
    (forall d, In d fds -> fd_wf vs d) ->
    Permutation
      (zip (mo_map (slice_fds ROps eps vs fds))
           (mesh_tris (mo_v (slice_fds ROps eps vs fds)) (mo_f (slice_fds ROps eps vs fds))))
      (flat_map (per_face eps) (indexed fds)).
  Proof.
    intros Hwf.
    assert (Hval : forall d, In d fds -> face_valid (length vs) (fd_f d)).
    { intros d Hd. specialize (Hwf d Hd). unfold fd_wf in Hwf. apply lookup3_nth in Hwf. destruct Hwf as (H0 & H1 & H2).
      repeat split; apply nth_error_Some; congruence. }
    rewrite (slice_fds_tris vs fds Hval). cbv zeta.
    unfold inside_mask, quad_mask, tri_mask.
    set (pK := fun d : fdata => inside (fd_s d) (fd_m d)).
    set (pQ := fun d : fdata => is_quad (fd_s d) (fd_m d)).
    set (pT := fun d : fdata => is_tri (fd_s d) (fd_m d)).
    rewrite !take_flatnonzero.
    unfold flatnonzero. rewrite !(nonzero_from_indexed _ fds 0).
    rewrite (filter_indexed pK fds 0), (filter_indexed pQ fds 0), (filter_indexed pT fds 0).
    fold (indexed fds).
    set (XK := filter (fun x => pK (snd x)) (indexed fds)).
    set (XQ := filter (fun x => pQ (snd x)) (indexed fds)).
    set (XT := filter (fun x => pT (snd x)) (indexed fds)).
    assert (WK : forall d, In d (map snd XK) -> fd_wf vs d).
    { intros d Hd. apply Hwf. unfold XK, indexed in Hd. rewrite <- (filter_indexed pK fds 0) in Hd. apply filter_In in Hd. apply Hd. }
    assert (WQ : forall d, In d (map snd XQ) -> fd_wf vs d).
    { intros d Hd. apply Hwf. unfold XQ, indexed in Hd. rewrite <- (filter_indexed pQ fds 0) in Hd. apply filter_In in Hd. apply Hd. }
    assert (WT : forall d, In d (map snd XT) -> fd_wf vs d).
    { intros d Hd. apply Hwf. unfold XT, indexed in Hd. rewrite <- (filter_indexed pT fds 0) in Hd. apply filter_In in Hd. apply Hd. }
    set (qv := quad_verts ROps eps (map snd XQ)). set (tv := tri_verts ROps eps (map snd XT)).
    unfold mesh_tris. rewrite !map_app. fold (mesh_tris (vs ++ qv ++ tv) (map (@fd_f R) (map snd XK))).
    fold (mesh_tris (vs ++ qv ++ tv) (quad_faces (length vs) (map snd XQ))).
    fold (mesh_tris (vs ++ qv ++ tv) (tri_faces (length vs + length qv) (map snd XT))).
    rewrite (kept_tris vs (qv ++ tv) (map snd XK) WK).
    pose proof (quad_faces_tris eps vs (map snd XQ) [] tv WQ) as HQ. cbn [app] in HQ. rewrite app_nil_r in HQ.
    fold qv in HQ. rewrite HQ.
    pose proof (tri_faces_tris eps vs (map snd XT) qv [] WT) as HT. rewrite app_nil_r in HT. rewrite app_length in HT.
    fold tv in HT. rewrite HT.
    rewrite zip_app by (rewrite !map_length; reflexivity).
    rewrite zip_app.
    2:{ apply quad_tris_flat_length. }
    rewrite zip_map_fst_snd, zip_repeat2_quads, zip_tris.
    rewrite <- (flat_map_single (fun x => (fst x, Some (fd_t (snd x)))) XK).
    unfold XK, XQ, XT. rewrite !map_filter_flat_map.
    eapply Permutation_trans; [apply flat_map_app3_perm|].
    apply Permutation_refl'. apply flat_map_ext. intros x. rewrite <- parts_are_per_face. reflexivity.
  Qed.
End Main.

(* ---- through slice_faces_plane ------------------------------------------------------------------------------------ *)
Lemma flat_map_ext_in' {A B} (f g : A -> list B) (l : list A) : (forall x, In x l -> f x = g x) -> flat_map f l = flat_map g l.
Proof.
  induction l as [|a r IH]; intros H; cbn [flat_map]; [reflexivity|].
  rewrite (H a (or_introl eq_refl)), IH; [reflexivity|]. intros x Hx. apply H. right. exact Hx.
Qed.
Lemma lookup3_map {A B} (g : A -> B) (l : list A) f :
  lookup3 (map g l) f = option_map (fun t => (g (fst (fst t)), g (snd (fst t)), g (snd t))) (lookup3 l f).
Proof.
  unfold lookup3. rewrite !nth_error_map.
  destruct (nth_error l (fget f 0)); [|reflexivity]. destruct (nth_error l (fget f 1)); [|reflexivity].
  destruct (nth_error l (fget f 2)); reflexivity.
Qed.
Lemma all_some_nth {A} (l : list (option A)) r i d :
  all_some l = Some r -> nth_error r i = Some d -> nth_error l i = Some (Some d).
Proof.
  revert r i. induction l as [|x l IH]; intros r i; cbn [all_some]; [intros [= <-]; destruct i; discriminate|].
  destruct x as [a|]; [|discriminate]. destruct (all_some l) as [r'|]; [|discriminate].
  intros [= <-]. destruct i as [|i]; cbn [nth_error]; [intros [= <-]; reflexivity|]. apply IH. reflexivity.
Qed.
Lemma nth_error_zip {A B} (a : list A) (b : list B) i x y :
  nth_error (zip a b) i = Some (x, y) -> nth_error a i = Some x /\ nth_error b i = Some y.
Proof.
  revert b i. induction a as [|p a IH]; intros [|q b] i; cbn [zip]; try (destruct i; discriminate).
  destruct i as [|i]; cbn [nth_error]; [intros [= <- <-]; auto|apply IH].
Qed.

Theorem slice_mesh_is_per_face tol eps vs fs n o fi r : vs <> [] ->
  slice_faces_plane ROps tol eps vs fs n o fi = Ok r ->
  exists mask rows,
    mask_of (length fs) fi = Ok mask /\ length rows = length fs /\
    (forall i d, nth_error rows i = Some d ->
       nth_error fs i = Some (fd_f d) /\ nth_error mask i = Some (fd_m d) /\ lookup3 vs (fd_f d) = Some (fd_t d)) /\
    Permutation
      (zip (mo_map r) (mesh_tris (mo_v r) (mo_f r)))
      (flat_map (fun x => map (fun t' => (fst x, Some t')) (slice_face ROps tol eps n o (fd_m (snd x)) (fd_t (snd x))))
                (indexed rows)).
Proof.
  intros Hvs. unfold slice_faces_plane. destruct vs as [|v0 vs0]; [congruence|]. cbn [length Nat.eqb].
  set (vs := v0 :: vs0) in *.
  destruct (mask_of (length fs) fi) as [mask|e] eqn:Em; cbn [rbind]; [|discriminate].
  set (dots := map (snapped_dot ROps tol n o) vs). set (sg := map (vsign ROps tol) dots).
  destruct (resolve vs dots sg fs mask) as [fds|] eqn:Er; [|discriminate]. intros [= <-].
  exists mask, fds. split; [reflexivity|].
  pose proof (resolve_length _ _ _ _ _ _ (mask_of_length _ _ _ Em) Er) as Hl. split; [exact Hl|].
  assert (Hrow : forall d, In d fds -> fd_wf vs d /\ fd_d d = tri_dists ROps tol n o (fd_t d) /\
                                      fd_s d = tri_signs ROps tol n o (fd_t d)).
  { intros d Hd. unfold resolve in Er. apply (all_some_In _ _ _ Er) in Hd. apply in_map_iff in Hd.
    destruct Hd as ((f & m) & Hres & _). unfold resolve1 in Hres. cbn [fst snd] in Hres.
    destruct (lookup3 vs f) as [t|] eqn:El; [|discriminate]. unfold sg, dots in Hres.
    rewrite map_map, !lookup3_map, El in Hres.
    cbn [option_map] in Hres. injection Hres as <-. unfold fd_wf. cbn [fd_f fd_t fd_s fd_d]. split; [exact El|].
    destruct t as [[a b] c]. split; reflexivity. }
  split.
  - intros i d Hi. unfold resolve in Er. pose proof (all_some_nth _ _ _ _ Er Hi) as Hn.
    rewrite nth_error_map in Hn. destruct (nth_error (zip fs mask) i) as [[f m]|] eqn:Ez; [|discriminate].
    cbn [option_map] in Hn. injection Hn as Hn. apply nth_error_zip in Ez. destruct Ez as [Ef Emk].
    unfold resolve1 in Hn. cbn [fst snd] in Hn. destruct (lookup3 vs f) as [t|] eqn:El; [|discriminate].
    destruct (lookup3 dots f); [|discriminate]. destruct (lookup3 sg f); [|discriminate].
    injection Hn as <-. cbn [fd_f fd_m fd_t]. auto.
  - eapply Permutation_trans; [apply slice_fds_per_face; intros d Hd; apply Hrow, Hd|].
    apply Permutation_refl'. apply flat_map_ext_in'. intros x Hx. unfold per_face, slice_face.
    destruct x as [i d]. apply zip_In in Hx. destruct Hx as [_ Hd]. cbn [fst snd].
    destruct (Hrow d Hd) as (_ & E1 & E2). rewrite E1, E2. reflexivity.
Qed.

(* ---- corollaries: the multiset of returned coordinate triangles depends only on the rows (coordinates, mask bit),
        not on their order nor on how the vertices are numbered --------------------------------------------------- *)
Lemma map_snd_zip {A B} (a : list A) (b : list B) : length a = length b -> map snd (zip a b) = b.
Proof.
  revert b. induction a as [|x a IH]; intros [|y b] H; cbn [length] in H; try discriminate; [reflexivity|].
  cbn [zip map snd]. rewrite IH by lia. reflexivity.
Qed.
Lemma map_flat_map {A B C} (h : B -> C) (f : A -> list B) l : map h (flat_map f l) = flat_map (fun x => map h (f x)) l.
Proof. induction l as [|a r IH]; cbn [flat_map map]; [reflexivity|]. rewrite map_app, IH. reflexivity. Qed.
Lemma flat_map_indexed_snd {A B} (g : A -> list B) (l : list A) : forall i,
  flat_map (fun x => g (snd x)) (indexed_from i l) = flat_map g l.
Proof.
  induction l as [|a r IH]; intros i; [reflexivity|]. unfold indexed_from. cbn [length seq zip flat_map snd].
  fold (indexed_from (S i) r). rewrite IH. reflexivity.
Qed.

Definition row_tris (eps : R) (row : tri R * (R * R * R) * sgn3 * bool) : list (option (tri R)) :=
  map Some (slice_face_signs ROps eps (snd (fst (fst row))) (snd (fst row)) (snd row) (fst (fst (fst row)))).

Lemma slice_fds_triangles eps vs (fds : list (@fdata R)) : (forall d, In d fds -> fd_wf vs d) ->
  Permutation (mesh_tris (mo_v (slice_fds ROps eps vs fds)) (mo_f (slice_fds ROps eps vs fds)))
              (flat_map (row_tris eps) (map fd_row fds)).
Proof.
  intros Hwf. pose proof (slice_fds_per_face eps vs fds Hwf) as H.
  apply (Permutation_map snd) in H. rewrite map_snd_zip in H.
  2:{ unfold mesh_tris. rewrite map_length. apply slice_fds_mapping_len. }
  assert (E : map snd (flat_map (per_face eps) (indexed fds)) = flat_map (row_tris eps) (map fd_row fds)).
  { rewrite map_flat_map. unfold per_face. rewrite (flat_map_concat_map (row_tris eps)), map_map, <- flat_map_concat_map.
    unfold indexed. rewrite <- (flat_map_indexed_snd (fun d => row_tris eps (fd_row d)) fds 0).
    apply flat_map_ext. intros x. rewrite map_map. reflexivity. }
  rewrite E in H. exact H.
Qed.

Theorem slice_perm_relabel_invariant eps vs vs' (fds fds' : list (@fdata R)) :
  (forall d, In d fds -> fd_wf vs d) -> (forall d, In d fds' -> fd_wf vs' d) ->
  Permutation (map fd_row fds) (map fd_row fds') ->
  Permutation (mesh_tris (mo_v (slice_fds ROps eps vs fds)) (mo_f (slice_fds ROps eps vs fds)))
              (mesh_tris (mo_v (slice_fds ROps eps vs' fds')) (mo_f (slice_fds ROps eps vs' fds'))).
Proof.
  intros H1 H2 Hp. eapply Permutation_trans; [apply slice_fds_triangles, H1|].
  eapply Permutation_trans; [|apply Permutation_sym, slice_fds_triangles, H2].
  apply Permutation_flat_map, Hp.
Qed.
