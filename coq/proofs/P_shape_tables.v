(* Facts about the GOLDEN contracts (corr/C20_expected.v): finite tables by vm_compute, and a few for-all-k
   consequences for the stacked callables. *)
From Coq Require Import List Bool Arith String Lia.
From PW Require Import Result.
From PW.model Require Import M_shape.
From PW.proofs Require Import P_shape.
From PW.corr Require Import C20_expected.
Import ListNotations.
Local Open Scope string_scope.

Lemma documented_arguments_are_checked_b : forallb strict_row documented_args = true.
Proof. vm_compute. reflexivity. Qed.

Lemma documented_argument_is_checked name args a :
  In (name, args) documented_args -> In a args -> ~ In name not_modelled ->
  covered all_contracts delegation name a = true.
Proof.
  intros Hin Ha Hn. pose proof documented_arguments_are_checked_b as H.
  rewrite forallb_forall in H. specialize (H _ Hin). unfold strict_row in H. simpl fst in H; simpl snd in H.
  apply orb_true_iff in H. destruct H as [H|H].
  - apply mem_In in H. contradiction.
  - rewrite forallb_forall in H. apply H. exact Ha.
Qed.

(* every delegation row names a callee that has a contract with at least one check, or that delegates further *)
Lemma delegation_rows_resolve :
  forallb (fun nd : string * list delegate =>
             forallb (fun d => negb (Nat.eqb (List.length (contract_of all_contracts (callee d))) 0)
                               || match assoc delegation (callee d) with Some _ => true | None => false end) (snd nd))
          delegation = true.
Proof. vm_compute. reflexivity. Qed.

(* ---- for-all-k consequences for pairwise (stacked) callables ---------------------------------------------------- *)

Lemma sd_contract : contract_of expected sd_name =
  [CheckAny "points" [[DInt 3]; [DAny; DInt 3]] (Some "k");
   CheckAny "plane_equations" [[DInt 4]; [DVarOrAny "k"; DInt 4]] None].
Proof. vm_compute. reflexivity. Qed.

Lemma cp_contract : contract_of expected cp_name =
  [Check "points" [DAny; DInt 3] (Some "k");
   Check "start_points" [DVar "k"; DInt 3] None;
   Check "segment_vectors" [DVar "k"; DInt 3] None].
Proof. vm_compute. reflexivity. Qed.

(* a stack of k points against a stack of m planes is accepted iff m = k: nothing is broadcast *)
Lemma sd_stacks_must_agree k m :
  accepts (contract_of expected sd_name)
          (env_of [("points", AArr [k; 3]); ("plane_equations", AArr [m; 4])]) [] = Nat.eqb m k.
Proof.
  rewrite sd_contract. unfold accepts. cbn. rewrite !andb_false_r. cbn. rewrite ?andb_true_r.
  destruct (Nat.eqb m k); reflexivity.
Qed.

Lemma sd_rejects_with_ValueError k m : m <> k ->
  run_contract (contract_of expected sd_name)
               (env_of [("points", AArr [k; 3]); ("plane_equations", AArr [m; 4])]) = Raise ValueError.
Proof.
  intros H. rewrite sd_contract. unfold run_contract. cbn. rewrite !andb_false_r. cbn. rewrite ?andb_true_r.
  apply Nat.eqb_neq in H. rewrite H. reflexivity.
Qed.

Lemma cp_stacks_must_agree k m n :
  accepts (contract_of expected cp_name)
          (env_of [("points", AArr [k; 3]); ("start_points", AArr [m; 3]); ("segment_vectors", AArr [n; 3])]) []
  = Nat.eqb m k && Nat.eqb n k.
Proof.
  rewrite cp_contract. unfold accepts. cbn. rewrite ?andb_true_r.
  destruct (Nat.eqb m k); cbn; [|reflexivity]. rewrite ?andb_true_r. destruct (Nat.eqb n k); reflexivity.
Qed.

(* ---- the Rodrigues vector is flattened before it is checked: off-contract shapes are accepted ----------------- *)

Lemma rodrigues_flatten_accepts_off_contract :
  exists s, off_contract rv_documented s /\
            accepts (contract_of expected rv_name) (env_of [("r", AArr s)]) [] = true.
Proof.
  exists [3; 1; 1]. split.
  - unfold off_contract, rv_documented. simpl. intros [H|[H|[H|[]]]]; discriminate.
  - vm_compute. reflexivity.
Qed.

(* ---- accepts EXACTLY the documented forms, over the finite universe of M_shape.universe ------------------------- *)
Lemma accepts_delegates_spec cs ds args :
  accepts_delegates (map (fun d => (contract_of cs (callee d), wiring d)) ds) args =
  match run_delegates cs ds args with Ok _ => true | Raise _ => false end.
Proof.
  induction ds as [|d r IH]; cbn [map accepts_delegates run_delegates]; [reflexivity|].
  destruct (run_contract (contract_of cs (callee d)) (wire (wiring d) args)); [exact IH|reflexivity].
Qed.

Lemma accepts_resolved_is_effective cs deleg b0 name args :
  accepts_resolved (resolve cs deleg name) b0 args = accepts_effective cs deleg b0 name args.
Proof.
  unfold accepts_resolved, resolve, accepts_effective, run_effective. cbn [fst snd].
  destruct (run_contract_from (contract_of cs name) args b0); [|reflexivity].
  apply accepts_delegates_spec.
Qed.

Lemma contracts_accept_exactly_documented_forms_b : forallb forms_row documented_forms = true.
Proof. vm_compute. reflexivity. Qed.

(* lifted: for every registered callable outside the exemptions and every tuple of the universe, the effective
   contract (own checks, then the delegates') accepts iff the shapes are one of the documented forms *)
Lemma contracts_accept_exactly_documented_forms name fs t :
  In (name, fs) documented_forms -> ~ In name forms_exempt ->
  In t (tuples (names_of name) (universe (List.length (names_of name)))) ->
  accepts_effective all_contracts delegation forms_b0 name (env_of t) = in_forms forms_b0 fs (env_of t).
Proof.
  intros Hin Hex Ht. pose proof contracts_accept_exactly_documented_forms_b as H.
  rewrite forallb_forall in H. specialize (H _ Hin). unfold forms_row in H. cbn [fst snd] in H.
  apply orb_true_iff in H. destruct H as [H|H]; [apply mem_In in H; contradiction|].
  unfold forms_agree in H. rewrite forallb_forall in H. specialize (H _ Ht).
  rewrite accepts_resolved_is_effective in H. apply eqb_prop in H. exact H.
Qed.

(* no golden contract uses a one-shape check_shape_any (whose failure would be an IndexError, see M_shape.any_fail) *)
Fixpoint single_pattern_any (c : check) : bool :=
  match c with CheckAny _ [_] _ => true | IfPresent _ c' => single_pattern_any c' | _ => false end.
Lemma no_single_pattern_check_shape_any :
  forallb (fun nc : string * list check => forallb (fun c => negb (single_pattern_any c)) (snd nc)) all_contracts = true.
Proof. vm_compute. reflexivity. Qed.

(* ---- ALL-SHAPES strictness (P_shape_forms.accepts_iff_forms applied to the golden contracts) --------------------- *)
From PW.proofs Require Import P_shape_forms.

Lemma forms_b0_all_some :
  forallb (fun xv : string * option nat => match snd xv with Some _ => true | None => false end) forms_b0 = true.
Proof. reflexivity. Qed.

Lemma cform_mem_In f l : cform_mem f l = true -> In f l.
Proof.
  unfold cform_mem. rewrite existsb_exists. intros [g [Hin H]]. destruct (cform_eq_dec f g); [subst; exact Hin|discriminate].
Qed.

(* for a covered callable, ALL argument values and ANY receiver length n (self.num_e): accepted iff the shapes are one of
   its documented forms *)
Definition b0_of (n : nat) : benv := [("self.num_e"%string, Some n)].

Lemma all_shapes_strict name fs n args :
  In (name, fs) documented_forms -> all_shapes_row (name, fs) = true ->
  accepts_effective all_contracts delegation (b0_of n) name args =
  in_cforms (b0_of n) (map (canon forms_ext) fs) args.
Proof.
  intros _ H. unfold all_shapes_row in H. cbn [fst snd] in H.
  apply andb_true_iff in H. destruct H as [H H4]. apply andb_true_iff in H. destruct H as [H H3].
  apply andb_true_iff in H. destruct H as [H1 H2]. apply negb_true_iff in H1.
  unfold accepts_effective, run_effective.
  assert (D : (match assoc delegation name with Some ds => ds | None => [] end) = []).
  { unfold has_delegates in H1. destruct (assoc delegation name) as [[|d ds]|]; [reflexivity|discriminate|reflexivity]. }
  rewrite D. cbn [run_delegates].
  assert (S0 : senv_of (b0_of n) = senv_of forms_b0) by reflexivity.
  pose proof (accepts_iff_forms (b0_of n) args (contract_of all_contracts name) (senv_of (b0_of n)) (b0_of n) H2
                (senv_rel_init (b0_of n) args eq_refl)) as A.
  unfold accepts in A. rewrite S0 in A.
  transitivity (in_cforms (b0_of n) (forms_of_contract (contract_of all_contracts name) (senv_of forms_b0)) args).
  - rewrite <- A. destruct (run_contract_from (contract_of all_contracts name) args (b0_of n)); reflexivity.
  - apply eq_true_iff_eq. split; apply in_cforms_incl; intros f Hf.
    + rewrite forallb_forall in H3. apply cform_mem_In. apply H3. exact Hf.
    + rewrite forallb_forall in H4. apply cform_mem_In. apply H4. exact Hf.
Qed.

Lemma senv_rel_nil args : senv_rel [] args [] [].
Proof. intros x. reflexivity. Qed.

Lemma delegates_iff_forms args : forall ds,
  forallb (fun d => forallb nf_ok (contract_of all_contracts (callee d))) ds = true ->
  match run_delegates all_contracts ds args with Ok _ => true | Raise _ => false end = deleg_forms_ok ds args.
Proof.
  induction ds as [|d r IH]; intros H; [reflexivity|]. cbn [forallb] in H. apply andb_true_iff in H. destruct H as [Hd Hr].
  cbn [run_delegates deleg_forms_ok forallb].
  pose proof (accepts_iff_forms [] (wire (wiring d) args) (contract_of all_contracts (callee d)) [] [] Hd (senv_rel_nil _)) as A.
  unfold accepts in A. unfold run_contract. rewrite <- A.
  destruct (run_contract_from (contract_of all_contracts (callee d)) (wire (wiring d) args) []); [exact (IH Hr)|reflexivity].
Qed.

(* for a delegating callable and ALL argument values: accepted iff the shapes satisfy the symbolic forms of its own
   contract and, for every delegate, the WIRED arguments satisfy the symbolic forms of the callee's contract *)
Lemma all_shapes_delegating name args : delegating_row name = true ->
  accepts_effective all_contracts delegation forms_b0 name args =
  in_cforms forms_b0 (forms_of_contract (contract_of all_contracts name) (senv_of forms_b0)) args &&
  deleg_forms_ok (delegates_list name) args.
Proof.
  intros H. unfold delegating_row in H. apply andb_true_iff in H. destruct H as [H H3].
  apply andb_true_iff in H. destruct H as [_ H2].
  unfold accepts_effective, run_effective. fold (delegates_list name).
  pose proof (accepts_iff_forms forms_b0 args (contract_of all_contracts name) (senv_of forms_b0) forms_b0 H2
                (senv_rel_init forms_b0 args forms_b0_all_some)) as A.
  unfold accepts in A. rewrite <- A.
  destruct (run_contract_from (contract_of all_contracts name) args forms_b0); [|reflexivity].
  cbn [andb]. apply delegates_iff_forms. exact H3.
Qed.

(* the callee contracts do not depend on the receiver lengths, and where the callee is itself a registered callable
   its symbolic forms are its documented forms (all_shapes_row) *)
Lemma callee_forms_env_independent :
  forallb (fun name => forallb (fun d =>
     if list_eq_dec cform_eq_dec (forms_of_contract (contract_of all_contracts (callee d)) [])
                                 (forms_of_contract (contract_of all_contracts (callee d)) (senv_of forms_b0))
     then true else false) (delegates_list name)) all_shapes_via_delegates = true.
Proof. vm_compute. reflexivity. Qed.

(* sanity of the canonical reading: on the finite universe the canonical forms and the unification reading of the
   documented forms accept the same tuples *)
Lemma canon_agrees_on_universe :
  forallb (fun nf : string * list form =>
     forallb (fun t => Bool.eqb (in_forms forms_b0 (snd nf) (env_of t))
                                (in_cforms forms_b0 (map (canon forms_ext) (snd nf)) (env_of t)))
             (tuples (names_of (fst nf)) (universe (List.length (names_of (fst nf)))))) documented_forms = true.
Proof. vm_compute. reflexivity. Qed.

Lemma all_shapes_covered_count :
  (List.length all_shapes_covered, List.length all_shapes_via_delegates, List.length documented_forms) = (58, 20, 88)%nat.
Proof. vm_compute. reflexivity. Qed.

Definition all_shapes_outside : list string :=
  filter (fun n => negb (mem n all_shapes_covered || mem n all_shapes_via_delegates)) (map fst documented_forms).
Lemma all_shapes_outside_list : all_shapes_outside =
  ["polliwog.line._line_functions.coplanar_points_are_on_same_side_of_line";
   "polliwog.line._line_functions.project_point_to_line";
   "polliwog.line._line_object.Line.project";
   "polliwog.plane._plane_intersect.intersect_segment_with_plane";
   "polliwog.transform._affine_transform.transform_matrix_for_rotation";
   "polliwog.transform._composite_transform.CompositeTransform.rotate";
   "polliwog.transform._coordinate_manager.CoordinateManager.rotate";
   "polliwog.transform._rodrigues.cv2_rodrigues";
   "polliwog.transform._rodrigues.rodrigues_vector_to_rotation_matrix";
   "polliwog.tri.functions.tri_contains_coplanar_point"].
Proof. vm_compute. reflexivity. Qed.

(* every callee of the delegating callables is itself covered for all shapes (then its symbolic forms ARE its documented
   forms), or is an external vg contract, or is a pass-through delegator without checks of its own *)
Lemma delegate_callees_status :
  forallb (fun name => forallb callee_status_ok (delegates_list name)) all_shapes_via_delegates = true.
Proof. vm_compute. reflexivity. Qed.

Lemma all_shapes_row_of_covered name : In name all_shapes_covered ->
  exists fs, In (name, fs) documented_forms /\ all_shapes_row (name, fs) = true.
Proof.
  unfold all_shapes_covered. intros H. apply in_map_iff in H. destruct H as [[n fs] [<- H]].
  apply filter_In in H. destruct H as [H1 H2]. exists fs. auto.
Qed.
