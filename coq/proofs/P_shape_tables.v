(* Facts about the GOLDEN contracts (corr/C20_expected.v): finite tables by vm_compute, and a few for-all-k
   consequences for the stacked callables. *)
From Coq Require Import List Bool Arith String Lia.
From PW Require Import Result.
From PW.model Require Import M_shape.
From PW.proofs Require Import P_shape.
From PW.corr Require Import C20_expected.
Import ListNotations.
Local Open Scope string_scope.

Definition all_contracts : contracts := (expected ++ external_contracts)%list.

(* every array argument a public callable documents is constrained by a shape check: of the callable itself,
   or of the callee it hands the argument to (delegation table) *)
Definition strict_row (na : string * list string) : bool :=
  mem (fst na) not_modelled || forallb (covered all_contracts delegation (fst na)) (snd na).

Lemma documented_contracts_strict_b : forallb strict_row documented_args = true.
Proof. vm_compute. reflexivity. Qed.

Lemma documented_contracts_strict name args a :
  In (name, args) documented_args -> In a args -> ~ In name not_modelled ->
  covered all_contracts delegation name a = true.
Proof.
  intros Hin Ha Hn. pose proof documented_contracts_strict_b as H.
  rewrite forallb_forall in H. specialize (H _ Hin). unfold strict_row in H. simpl fst in H; simpl snd in H.
  apply orb_true_iff in H. destruct H as [H|H].
  - apply mem_In in H. contradiction.
  - rewrite forallb_forall in H. apply H. exact Ha.
Qed.

(* every delegation row names a callee that has a contract with at least one check, or that delegates further *)
Lemma delegation_rows_resolve :
  forallb (fun nd : string * list delegate =>
             forallb (fun d => negb (Nat.eqb (List.length (contract_of all_contracts (callee d))) 0)
                               || match assoc delegation (callee d) with Some _ => true | None => false end) (snd nd))
          delegation = true.
Proof. vm_compute. reflexivity. Qed.

(* ---- for-all-k consequences for pairwise (stacked) callables ---------------------------------------------------- *)
Definition sd_name := "polliwog.plane._plane_functions.signed_distance_to_plane".
Definition cp_name := "polliwog.segment._segment_functions.closest_point_of_line_segment".

Lemma sd_contract : contract_of expected sd_name =
  [CheckAny "points" [[DInt 3]; [DAny; DInt 3]] (Some "k");
   CheckAny "plane_equations" [[DInt 4]; [DVarOrAny "k"; DInt 4]] None].
Proof. vm_compute. reflexivity. Qed.

Lemma cp_contract : contract_of expected cp_name =
  [Check "points" [DAny; DInt 3] (Some "k");
   Check "start_points" [DVar "k"; DInt 3] None;
   Check "segment_vectors" [DVar "k"; DInt 3] None].
Proof. vm_compute. reflexivity. Qed.

(* a stack of k points against a stack of m planes is accepted iff m = k: nothing is broadcast *)
Lemma sd_stacks_must_agree k m :
  accepts (contract_of expected sd_name)
          (env_of [("points", AArr [k; 3]); ("plane_equations", AArr [m; 4])]) [] = Nat.eqb m k.
Proof.
  rewrite sd_contract. unfold accepts. cbn. rewrite !andb_false_r. cbn. rewrite ?andb_true_r.
  destruct (Nat.eqb m k); reflexivity.
Qed.

Lemma sd_rejects_with_ValueError k m : m <> k ->
  run_contract (contract_of expected sd_name)
               (env_of [("points", AArr [k; 3]); ("plane_equations", AArr [m; 4])]) = Raise ValueError.
Proof.
  intros H. rewrite sd_contract. unfold run_contract. cbn. rewrite !andb_false_r. cbn. rewrite ?andb_true_r.
  apply Nat.eqb_neq in H. rewrite H. reflexivity.
Qed.

Lemma cp_stacks_must_agree k m n :
  accepts (contract_of expected cp_name)
          (env_of [("points", AArr [k; 3]); ("start_points", AArr [m; 3]); ("segment_vectors", AArr [n; 3])]) []
  = Nat.eqb m k && Nat.eqb n k.
Proof.
  rewrite cp_contract. unfold accepts. cbn. rewrite ?andb_true_r.
  destruct (Nat.eqb m k); cbn; [|reflexivity]. rewrite ?andb_true_r. destruct (Nat.eqb n k); reflexivity.
Qed.

(* ---- the Rodrigues vector is flattened before it is checked: off-contract shapes are accepted ----------------- *)
Definition rv_name := "polliwog.transform._rodrigues.rodrigues_vector_to_rotation_matrix".
(* documented: "a 3x1 or 1x3 Rodrigues vector" (and the plain 3-vector) *)
Definition rv_documented : list shape := [[3]; [3; 1]; [1; 3]].
Definition off_contract (doc : list shape) (s : shape) : Prop := ~ In s doc.

Lemma rodrigues_flatten_accepts_off_contract :
  exists s, off_contract rv_documented s /\
            accepts (contract_of expected rv_name) (env_of [("r", AArr s)]) [] = true.
Proof.
  exists [3; 1; 1]. split.
  - unfold off_contract, rv_documented. simpl. intros [H|[H|[H|[]]]]; discriminate.
  - vm_compute. reflexivity.
Qed.
