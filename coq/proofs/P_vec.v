(* Real-number lemmas about Vec.v *)
From Coq Require Import ZArith Reals Lra Psatz List.
From PW Require Import Num NumR Vec.
Local Open Scope R_scope.

Ltac vunf :=
  unfold vdist, vnormalize, vnorm, vnorm2; unfold vadd, vsub, vneg, vscale, vdivs, vdot, vcross, vzero, vmul, vlist;
  unfold n0, n1, n2;
  cbn [nofZ nadd nsub nmul ndiv nneg nabs nsqrt nltb nleb neqb ROps vx vy vz].
Ltac vunf_in H :=
  unfold vdist, vnormalize, vnorm, vnorm2 in H; unfold vadd, vsub, vneg, vscale, vdivs, vdot, vcross, vzero, vmul, vlist in H;
  unfold n0, n1, n2 in H;
  cbn [nofZ nadd nsub nmul ndiv nneg nabs nsqrt nltb nleb neqb ROps vx vy vz] in H.

Lemma V3_ext (x y z x' y' z' : R) : x = x' -> y = y' -> z = z' -> V3 x y z = V3 x' y' z'.
Proof. intros; subst; reflexivity. Qed.
Lemma V3_eta (v : vec3 R) : v = V3 (vx v) (vy v) (vz v).
Proof. destruct v; reflexivity. Qed.
Lemma V3_inj (a b : vec3 R) : vx a = vx b -> vy a = vy b -> vz a = vz b -> a = b.
Proof. destruct a, b; cbn; intros; subst; reflexivity. Qed.

Ltac vec_eq := apply V3_inj; vunf.

Lemma vdot_comm a b : vdot ROps a b = vdot ROps b a.
Proof. vunf; ring. Qed.
Lemma vdot_add_l a b c : vdot ROps (vadd ROps a b) c = vdot ROps a c + vdot ROps b c.
Proof. vunf; ring. Qed.
Lemma vdot_sub_l a b c : vdot ROps (vsub ROps a b) c = vdot ROps a c - vdot ROps b c.
Proof. vunf; ring. Qed.
Lemma vdot_scale_l s a b : vdot ROps (vscale ROps s a) b = s * vdot ROps a b.
Proof. vunf; ring. Qed.
Lemma vdot_scale_r s a b : vdot ROps a (vscale ROps s b) = s * vdot ROps a b.
Proof. vunf; ring. Qed.
Lemma vnorm2_nonneg a : 0 <= vnorm2 ROps a.
Proof. vunf; nra. Qed.
Lemma vnorm2_zero a : vnorm2 ROps a = 0 -> a = V3 0 0 0.
Proof. destruct a as [x y z]; vunf; intros H. apply V3_ext; nra. Qed.
Lemma vnorm_nonneg a : 0 <= vnorm ROps a.
Proof. unfold vnorm; rops; apply sqrt_pos. Qed.
Lemma vnorm_sq a : vnorm ROps a * vnorm ROps a = vnorm2 ROps a.
Proof. unfold vnorm; rops; apply sqrt_sqrt, vnorm2_nonneg. Qed.
Lemma vnorm_pos a : a <> V3 0 0 0 -> 0 < vnorm ROps a.
Proof.
  intros H. destruct (Rle_lt_or_eq_dec _ _ (vnorm_nonneg a)) as [Hp|He]; [exact Hp|].
  exfalso; apply H, vnorm2_zero. rewrite <- vnorm_sq, <- He; ring.
Qed.
Lemma vcross_orth_l a b : vdot ROps a (vcross ROps a b) = 0.
Proof. vunf; ring. Qed.
Lemma vcross_orth_r a b : vdot ROps b (vcross ROps a b) = 0.
Proof. vunf; ring. Qed.
Lemma vcross_anticomm a b : vcross ROps a b = vneg ROps (vcross ROps b a).
Proof. vec_eq; ring. Qed.
(* Lagrange identity *)
Lemma vcross_norm2 a b :
  vnorm2 ROps (vcross ROps a b) = vnorm2 ROps a * vnorm2 ROps b - vdot ROps a b * vdot ROps a b.
Proof. vunf; ring. Qed.
Lemma vnormalize_unit a : a <> V3 0 0 0 -> vnorm2 ROps (vnormalize ROps a) = 1.
Proof.
  intros H. pose proof (vnorm_pos a H) as Hp. pose proof (vnorm_sq a) as Hs.
  unfold vnormalize. set (n := vnorm ROps a) in *. clearbody n.
  vunf_in Hs. vunf.
  replace (vx a / n * (vx a / n) + vy a / n * (vy a / n) + vz a / n * (vz a / n))
    with ((vx a * vx a + vy a * vy a + vz a * vz a) / (n * n)) by (field; lra).
  rewrite <- Hs. field; lra.
Qed.
Lemma vnormalize_scale a : a <> V3 0 0 0 ->
  vscale ROps (vnorm ROps a) (vnormalize ROps a) = a.
Proof.
  intros H. pose proof (vnorm_pos a H) as Hp. unfold vnormalize.
  set (n := vnorm ROps a) in *. clearbody n. vec_eq; field; lra.
Qed.
Lemma vsub_add a b : vadd ROps (vsub ROps a b) b = a.
Proof. vec_eq; ring. Qed.
Lemma vadd_comm a b : vadd ROps a b = vadd ROps b a.
Proof. vec_eq; ring. Qed.
