(* C02: mesh-level complement — vector areas and scalar areas of the two results (plane / flipped plane) add up to the input's,
   faces kept by both calls counted twice. *)
From Coq Require Import ZArith Reals Lra Psatz List Bool Lia Arith Permutation.
From PW Require Import Num NumR Vec NpList Result.
From PW.model Require Import M_slicing M_slicing_spec.
From PW.proofs Require Import P_vec P_nplist P_slicing P_slicing_face P_slicing_cover P_slicing_compl P_slicing_mesh
  P_slicing_perface P_slicing_idem P_slicing_public.
Import ListNotations.
Local Open Scope R_scope.

(* ---- vector sums ------------------------------------------------------------------------------------------------------- *)
Lemma vadd_assoc a b c : vadd ROps a (vadd ROps b c) = vadd ROps (vadd ROps a b) c.
Proof. destruct a, b, c. vunf. apply V3_ext; ring. Qed.
Lemma vadd_swap a b c : vadd ROps a (vadd ROps b c) = vadd ROps b (vadd ROps a c).
Proof. destruct a, b, c. vunf. apply V3_ext; ring. Qed.
Lemma vadd_0_l a : vadd ROps (V3 0 0 0) a = a.
Proof. destruct a. vunf. apply V3_ext; ring. Qed.
Lemma vadd_0_r a : vadd ROps a (V3 0 0 0) = a.
Proof. destruct a. vunf. apply V3_ext; ring. Qed.

Lemma area_sum_cons x l :
  area_sum (x :: l) = match x with Some t => vadd ROps (tri_normal t) (area_sum l) | None => area_sum l end.
Proof. reflexivity. Qed.
Lemma norm_sum_cons x l :
  norm_sum (x :: l) = match x with Some t => vnorm ROps (tri_normal t) + norm_sum l | None => norm_sum l end.
Proof. reflexivity. Qed.
Lemma area_sum_perm l l' : Permutation l l' -> area_sum l = area_sum l'.
Proof.
  induction 1 as [|x l l' _ IH|x y l|l l' l'' _ IH1 _ IH2].
  - reflexivity.
  - rewrite !area_sum_cons, IH. reflexivity.
  - rewrite !area_sum_cons. destruct x, y; try reflexivity. apply vadd_swap.
  - rewrite IH1. exact IH2.
Qed.
Lemma area_sum_app l l' : area_sum (l ++ l') = vadd ROps (area_sum l) (area_sum l').
Proof.
  induction l as [|x l IH]; cbn [app].
  - change (area_sum []) with (V3 0 0 0 : vec3 R). rewrite vadd_0_l. reflexivity.
  - rewrite !area_sum_cons, IH. destruct x; [apply vadd_assoc|reflexivity].
Qed.
Lemma area_sum_some l : area_sum (map Some l) = vsum_normals l.
Proof.
  induction l as [|t l IH]; [reflexivity|]. cbn [map]. rewrite area_sum_cons, IH. reflexivity.
Qed.
Lemma norm_sum_perm l l' : Permutation l l' -> norm_sum l = norm_sum l'.
Proof.
  induction 1 as [|x l l' _ IH|x y l|l l' l'' _ IH1 _ IH2].
  - reflexivity.
  - rewrite !norm_sum_cons, IH. reflexivity.
  - rewrite !norm_sum_cons. destruct x, y; lra.
  - rewrite IH1. exact IH2.
Qed.
Lemma norm_sum_app l l' : norm_sum (l ++ l') = norm_sum l + norm_sum l'.
Proof.
  induction l as [|x l IH]; cbn [app].
  - change (norm_sum []) with 0. lra.
  - rewrite !norm_sum_cons, IH. destruct x; lra.
Qed.

(* sums over the rows of what each row contributes *)
Definition sum_rows_v (g : @fdata R -> list (tri R)) (rows : list (@fdata R)) : vec3 R :=
  fold_right (fun d acc => vadd ROps (vsum_normals (g d)) acc) (V3 0 0 0) rows.
Definition sum_rows_s (g : @fdata R -> list (tri R)) (rows : list (@fdata R)) : R :=
  fold_right (fun d acc => norm_sum (map Some (g d)) + acc) 0 rows.
Lemma area_sum_rows g rows : area_sum (flat_map (fun d => map Some (g d)) rows) = sum_rows_v g rows.
Proof.
  induction rows as [|d r IH]; [reflexivity|]. cbn [flat_map]. rewrite area_sum_app, area_sum_some, IH. reflexivity.
Qed.
Lemma norm_sum_rows g rows : norm_sum (flat_map (fun d => map Some (g d)) rows) = sum_rows_s g rows.
Proof.
  induction rows as [|d r IH]; [reflexivity|]. cbn [flat_map]. rewrite norm_sum_app, IH. reflexivity.
Qed.

(* ---- the returned triangles are those of the rows ------------------------------------------------------------------ *)
Lemma slice_tris_rows tol eps vs fs n o fi r : vs <> [] ->
  slice_faces_plane ROps tol eps vs fs n o fi = Ok r ->
  exists mask rows,
    mask_of (length fs) fi = Ok mask /\ length rows = length fs /\
    (forall i d, nth_error rows i = Some d ->
       nth_error fs i = Some (fd_f d) /\ nth_error mask i = Some (fd_m d) /\ lookup3 vs (fd_f d) = Some (fd_t d)) /\
    Permutation (mesh_tris (mo_v r) (mo_f r))
                (flat_map (fun d => map Some (slice_face ROps tol eps n o (fd_m d) (fd_t d))) rows).
Proof.
  intros Hvs Hr.
  destruct (slice_mesh_is_per_face tol eps vs fs n o fi r Hvs Hr) as (mask & rows & Hm & Hl & Hrows & Hp).
  exists mask, rows. split; [exact Hm|]. split; [exact Hl|]. split; [exact Hrows|].
  destruct (slice_faces_plane_mapping_len _ _ _ _ _ _ _ _ Hr) as [Hlen _].
  apply (Permutation_map snd) in Hp. rewrite map_snd_zip in Hp by (unfold mesh_tris; rewrite map_length; exact Hlen).
  assert (E : map snd (flat_map (fun x : nat * fdata =>
                 map (fun t' => (fst x, Some t')) (slice_face ROps tol eps n o (fd_m (snd x)) (fd_t (snd x)))) (indexed rows)) =
              flat_map (fun d => map Some (slice_face ROps tol eps n o (fd_m d) (fd_t d))) rows).
  { rewrite map_flat_map. unfold indexed.
    rewrite <- (flat_map_indexed_snd (fun d : fdata => map Some (slice_face ROps tol eps n o (fd_m d) (fd_t d))) rows 0).
    apply flat_map_ext. intros x. rewrite map_map. reflexivity. }
  rewrite E in Hp. exact Hp.
Qed.

(* the two calls work on rows with the same coordinates and mask bits *)
Lemma rows_same_tm (vs : list (vec3 R)) fs mask (rows1 rows2 : list (@fdata R)) :
  length rows1 = length fs -> length rows2 = length fs ->
  (forall i d, nth_error rows1 i = Some d ->
     nth_error fs i = Some (fd_f d) /\ nth_error mask i = Some (fd_m d) /\ lookup3 vs (fd_f d) = Some (fd_t d)) ->
  (forall i d, nth_error rows2 i = Some d ->
     nth_error fs i = Some (fd_f d) /\ nth_error mask i = Some (fd_m d) /\ lookup3 vs (fd_f d) = Some (fd_t d)) ->
  map (fun d => (fd_t d, fd_m d)) rows1 = map (fun d => (fd_t d, fd_m d)) rows2.
Proof.
  intros L1 L2 H1 H2. apply map_eq_by_nth; [lia|]. intros i d1 Hi.
  destruct (nth_error rows2 i) as [d2|] eqn:E2.
  2:{ apply nth_error_None in E2. assert (i < length rows1)%nat by (apply nth_error_Some; congruence). lia. }
  exists d2. split; [reflexivity|].
  destruct (H1 _ _ Hi) as (F1 & M1 & T1). destruct (H2 _ _ E2) as (F2 & M2 & T2).
  rewrite F1 in F2. injection F2 as F2. rewrite M1 in M2. injection M2 as M2. rewrite F2, T2 in T1. injection T1 as T1.
  rewrite T1, M2. reflexivity.
Qed.

(* ---- one face, both calls ------------------------------------------------------------------------------------------------ *)
Lemma on3b_spec tol n o t : on3b tol n o t = true <-> on3 tol n o t.
Proof.
  unfold on3b, on3. rewrite !andb_true_iff, !Rleb_true. split.
  - intros (((((A0 & B0) & A1) & B1) & A2) & B2) k Hk. destruct k as [|[|[|k]]]; try lia; lra.
  - intros H. pose proof (H 0%nat ltac:(lia)). pose proof (H 1%nat ltac:(lia)). pose proof (H 2%nat ltac:(lia)). repeat split; lra.
Qed.
Lemma vsum_single t : vsum_normals [t] = tri_normal t.
Proof. unfold vsum_normals. cbn [fold_right]. apply vadd_0_r. Qed.
Lemma cweight_range tol n o m t : cweight tol n o m t = 1 \/ cweight tol n o m t = 2.
Proof. unfold cweight. destruct (negb m || on3b tol n o t); auto. Qed.

(* vector areas: what the call with the plane and the call with the flipped plane keep of one face adds up to the face's
   vector area, twice if both keep it whole (not selected, or lying in the plane) *)
Lemma face_pair_area tol eps n o m t : 0 <= tol ->
  vadd ROps (vsum_normals (slice_face ROps tol eps n o m t)) (vsum_normals (slice_face ROps tol eps (vneg ROps n) o m t)) =
  vscale ROps (cweight tol n o m t) (tri_normal t).
Proof.
  intros Ht. unfold cweight. destruct m; cbn [negb orb].
  - destruct (slice_face_complement tol eps n o t Ht) as [H2 H1].
    destruct (on3b tol n o t) eqn:E.
    + apply H2. apply on3b_spec, E.
    + apply H1. intros H. apply on3b_spec in H. congruence.
  - rewrite !slice_face_unselected, !vsum_single. destruct (tri_normal t). vunf. apply V3_ext; ring.
Qed.

Lemma vnorm_scale a v : 0 <= a -> vnorm ROps (vscale ROps a v) = a * vnorm ROps v.
Proof.
  intros Ha. unfold vnorm; rops.
  replace (vnorm2 ROps (vscale ROps a v)) with ((a * a) * vnorm2 ROps v) by (destruct v; vunf; ring).
  rewrite sqrt_mult; [|nra|apply vnorm2_nonneg]. rewrite sqrt_square by exact Ha. reflexivity.
Qed.
(* parallel, equally oriented normals: the lengths add up to the length of the sum *)
Lemma orient_norms t l : orient_ok t l ->
  exists mu, 0 <= mu /\ vsum_normals l = vscale ROps mu (tri_normal t) /\ norm_sum (map Some l) = mu * vnorm ROps (tri_normal t).
Proof.
  induction 1 as [|t' l (lam & Hl & El) _ (mu & Hm & Em & En)].
  - exists 0. split; [lra|]. split; [|cbn; lra]. unfold vsum_normals. cbn [fold_right]. destruct (tri_normal t). vunf. apply V3_ext; ring.
  - exists (lam + mu). split; [lra|]. split.
    + unfold vsum_normals in *. cbn [fold_right]. rewrite Em, El. destruct (tri_normal t). vunf. apply V3_ext; ring.
    + cbn [map]. rewrite norm_sum_cons, En, El, vnorm_scale by exact Hl. ring.
Qed.
Lemma slice_face_orient_ok tol eps n o m t : 0 <= tol -> orient_ok t (slice_face ROps tol eps n o m t).
Proof. intros Ht. apply Forall_forall. intros t' Hin. exact (slice_face_orient tol eps n o m t t' Ht Hin). Qed.

(* scalar areas *)
Lemma face_pair_norm tol eps n o m t : 0 <= tol ->
  norm_sum (map Some (slice_face ROps tol eps n o m t)) + norm_sum (map Some (slice_face ROps tol eps (vneg ROps n) o m t)) =
  cweight tol n o m t * vnorm ROps (tri_normal t).
Proof.
  intros Ht.
  destruct (orient_norms t _ (slice_face_orient_ok tol eps n o m t Ht)) as (m1 & H1 & E1 & N1).
  destruct (orient_norms t _ (slice_face_orient_ok tol eps (vneg ROps n) o m t Ht)) as (m2 & H2 & E2 & N2).
  pose proof (face_pair_area tol eps n o m t Ht) as HA. rewrite E1, E2 in HA.
  assert (HV : vscale ROps (m1 + m2) (tri_normal t) = vscale ROps (cweight tol n o m t) (tri_normal t)).
  { rewrite <- HA. destruct (tri_normal t). vunf. apply V3_ext; ring. }
  apply (f_equal (vnorm ROps)) in HV. rewrite !vnorm_scale in HV; [|destruct (cweight_range tol n o m t); lra|lra].
  rewrite N1, N2. lra.
Qed.

(* ---- the whole mesh ---------------------------------------------------------------------------------------------------- *)
Lemma pair_sums tol eps n o (rows1 : list (@fdata R)) : 0 <= tol -> forall rows2 : list (@fdata R),
  map (fun d => (fd_t d, fd_m d)) rows1 = map (fun d => (fd_t d, fd_m d)) rows2 ->
  vadd ROps (sum_rows_v (fun d => slice_face ROps tol eps n o (fd_m d) (fd_t d)) rows1)
            (sum_rows_v (fun d => slice_face ROps tol eps (vneg ROps n) o (fd_m d) (fd_t d)) rows2) = rows_area tol n o rows1 /\
  sum_rows_s (fun d => slice_face ROps tol eps n o (fd_m d) (fd_t d)) rows1 +
  sum_rows_s (fun d => slice_face ROps tol eps (vneg ROps n) o (fd_m d) (fd_t d)) rows2 = rows_norm tol n o rows1.
Proof.
  intros Ht. induction rows1 as [|d1 r1 IH]; intros [|d2 r2] E; cbn [map] in E; try discriminate.
  - split; [apply vadd_0_l|cbn; lra].
  - injection E as Et Em E. destruct (IH r2 E) as [IHv IHs].
    unfold sum_rows_v, sum_rows_s, rows_area, rows_norm in *. cbn [fold_right]. rewrite <- Et, <- Em. split.
    + rewrite <- IHv, <- (face_pair_area tol eps n o (fd_m d1) (fd_t d1) Ht).
      repeat match goal with |- context [vsum_normals ?l] => generalize (vsum_normals l); intros [? ? ?] end.
      repeat match goal with |- context [fold_right ?f ?a ?l] => generalize (fold_right f a l); intros [? ? ?] end.
      vunf. apply V3_ext; ring.
    + rewrite <- IHs, <- (face_pair_norm tol eps n o (fd_m d1) (fd_t d1) Ht). ring.
Qed.

(* complement for whole meshes and all masks: the vector areas (and the scalar areas) of the result for the plane and of the
   result for the flipped plane add up to the input's, a face counted twice when both calls keep it whole (not selected, or all
   three corners within tol of the plane) *)
Theorem slice_mesh_complement tol eps vs fs n o fi r1 r2 : 0 <= tol -> vs <> [] ->
  slice_faces_plane ROps tol eps vs fs n o fi = Ok r1 ->
  slice_faces_plane ROps tol eps vs fs (vneg ROps n) o fi = Ok r2 ->
  exists mask rows,
    mask_of (length fs) fi = Ok mask /\ length rows = length fs /\
    (forall i d, nth_error rows i = Some d ->
       nth_error fs i = Some (fd_f d) /\ nth_error mask i = Some (fd_m d) /\ lookup3 vs (fd_f d) = Some (fd_t d)) /\
    vadd ROps (area_sum (mesh_tris (mo_v r1) (mo_f r1))) (area_sum (mesh_tris (mo_v r2) (mo_f r2))) = rows_area tol n o rows /\
    norm_sum (mesh_tris (mo_v r1) (mo_f r1)) + norm_sum (mesh_tris (mo_v r2) (mo_f r2)) = rows_norm tol n o rows.
Proof.
  intros Ht Hvs H1 H2.
  destruct (slice_tris_rows _ _ _ _ _ _ _ _ Hvs H1) as (mask & rows1 & Hm1 & L1 & R1 & P1).
  destruct (slice_tris_rows _ _ _ _ _ _ _ _ Hvs H2) as (mask2 & rows2 & Hm2 & L2 & R2 & P2).
  rewrite Hm1 in Hm2. injection Hm2 as <-.
  exists mask, rows1. split; [exact Hm1|]. split; [exact L1|]. split; [exact R1|].
  rewrite (area_sum_perm _ _ P1), (area_sum_perm _ _ P2), (norm_sum_perm _ _ P1), (norm_sum_perm _ _ P2).
  rewrite !area_sum_rows, !norm_sum_rows.
  apply (pair_sums tol eps n o rows1 Ht rows2). apply (rows_same_tm vs fs mask); assumption.
Qed.

(* at the public entry point, tol = 1e-8, any mask *)
Theorem public_mesh_complement vs fs ref n mask r1 r2 : vs <> [] ->
  slice_triangles_by_plane ROps vs fs ref n mask = Ok r1 ->
  slice_triangles_by_plane ROps vs fs ref (vneg ROps n) mask = Ok r2 ->
  exists mk rows,
    mask_of (length fs) (option_map flatnonzero mask) = Ok mk /\ length rows = length fs /\
    (forall i d, nth_error rows i = Some d ->
       nth_error fs i = Some (fd_f d) /\ nth_error mk i = Some (fd_m d) /\ lookup3 vs (fd_f d) = Some (fd_t d)) /\
    vadd ROps (area_sum (mesh_tris (mo_v r1) (mo_f r1))) (area_sum (mesh_tris (mo_v r2) (mo_f r2))) =
      rows_area (merge_tol ROps) n ref rows /\
    norm_sum (mesh_tris (mo_v r1) (mo_f r1)) + norm_sum (mesh_tris (mo_v r2) (mo_f r2)) = rows_norm (merge_tol ROps) n ref rows.
Proof. intros Hvs H1 H2. exact (slice_mesh_complement _ _ _ _ _ _ _ _ _ merge_tol_nonneg Hvs H1 H2). Qed.
