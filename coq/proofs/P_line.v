(* Real-number lemmas for M_line.v (C18). *)
From Coq Require Import ZArith Reals Lra Psatz List Bool Lia Nsatz.
From PW Require Import Num NumR Vec NpList Result.
From PW.model Require Import M_line M_line_spec.
From PW.proofs Require Import P_vec P_nplist.
Import ListNotations.
Local Open Scope R_scope.


Tactic Notation "dv" constr(a) ident(a1) ident(a2) ident(a3) := destruct a as [a1 a2 a3].

Lemma veqb_spec a b : reflect (a = b) (veqb ROps a b).
Proof.
  dv a a1 a2 a3; dv b b1 b2 b3. unfold veqb; rops. cbn [vx vy vz].
  destruct (Reqb_spec a1 b1); [|constructor; intros E; injection E; intros; contradiction].
  destruct (Reqb_spec a2 b2); [|constructor; intros E; injection E; intros; contradiction].
  destruct (Reqb_spec a3 b3); [|constructor; intros E; injection E; intros; contradiction].
  constructor; subst; reflexivity.
Qed.

Lemma vnorm_zero_iff a : vnorm ROps a = 0 <-> a = v0.
Proof.
  split.
  - intros H. destruct (veqb_spec a v0) as [E|N]; [exact E|]. pose proof (vnorm_pos a N). lra.
  - intros ->. unfold vnorm, v0. vunf. replace (0 * 0 + 0 * 0 + 0 * 0) with 0 by ring. apply sqrt_0.
Qed.
Lemma vnorm2_pos a : a <> v0 -> 0 < vnorm2 ROps a.
Proof.
  intros H. pose proof (vnorm2_nonneg a). destruct (Req_dec (vnorm2 ROps a) 0) as [E|]; [|lra].
  exfalso; apply H, vnorm2_zero, E.
Qed.

(* ---- projection ------------------------------------------------------------------------------------------ *)
Lemma vg_project_formula v a : a <> v0 ->
  vg_project ROps v a = vscale ROps (vdot ROps v a / vnorm2 ROps a) a.
Proof.
  intros H. pose proof (vnorm_pos a H) as Hp. pose proof (vnorm_sq a) as Hs.
  unfold vg_project, vnormalize. set (n := vnorm ROps a) in *. clearbody n.
  dv a a1 a2 a3; dv v v1 v2 v3. vunf_in Hs. vec_eq; rewrite <- Hs; field; lra.
Qed.

Lemma project_spec p ref a : a <> v0 ->
  exists x, project_point_to_line ROps p ref a = Some x /\
    (exists s, x = line_pt ref a s) /\
    vdot ROps (vsub ROps p x) a = 0 /\
    forall s, vnorm2 ROps (vsub ROps p x) <= vnorm2 ROps (vsub ROps p (line_pt ref a s)).
Proof.
  intros H. unfold project_point_to_line. unfold n0; rops.
  assert (Hn : vnorm ROps a <> 0) by (rewrite vnorm_zero_iff; exact H).
  apply Reqb_false in Hn. rewrite Hn. eexists; split; [reflexivity|]. rewrite vg_project_formula by exact H.
  pose proof (vnorm2_pos a H) as Hp.
  set (s0 := vdot ROps (vsub ROps p ref) a / vnorm2 ROps a).
  assert (Hs0 : s0 * vnorm2 ROps a = vdot ROps (vsub ROps p ref) a) by (unfold s0; field; lra).
  clearbody s0. split; [exists s0; reflexivity|].
  dv a a1 a2 a3; dv p p1 p2 p3; dv ref r1 r2 r3. unfold line_pt. vunf_in Hs0. vunf_in Hp. vunf. split.
  - nsatz.
  - intros s.
    assert (E : (p1 - (r1 + s * a1)) * (p1 - (r1 + s * a1)) + (p2 - (r2 + s * a2)) * (p2 - (r2 + s * a2)) +
                (p3 - (r3 + s * a3)) * (p3 - (r3 + s * a3)) =
                (p1 - (r1 + s0 * a1)) * (p1 - (r1 + s0 * a1)) + (p2 - (r2 + s0 * a2)) * (p2 - (r2 + s0 * a2)) +
                (p3 - (r3 + s0 * a3)) * (p3 - (r3 + s0 * a3)) + (s - s0) * (s - s0) * (a1 * a1 + a2 * a2 + a3 * a3)).
    { nsatz. }
    rewrite E. assert (0 <= (s - s0) * (s - s0) * (a1 * a1 + a2 * a2 + a3 * a3)); [|lra].
    apply Rmult_le_pos; [exact (Rle_0_sqr (s - s0))|lra].
Qed.
Lemma project_zero_direction p ref : project_point_to_line ROps p ref v0 = None.
Proof.
  unfold project_point_to_line. unfold n0; rops. rewrite (proj2 (vnorm_zero_iff v0) eq_refl).
  rewrite (proj2 (Reqb_true 0 0) eq_refl). reflexivity.
Qed.

Lemma nth_error_zip {A B} (l : list A) : forall (l' : list B) j,
  nth_error (zip l l') j = match nth_error l j, nth_error l' j with Some x, Some y => Some (x, y) | _, _ => None end.
Proof.
  induction l as [|x r IH]; intros [|y r'] [|j]; cbn; try reflexivity.
  - destruct (nth_error r j); reflexivity.
  - apply IH.
Qed.
(* many points against one line, and points and lines paired row by row, are the single form on every row *)
Lemma project_stacked_is_rowwise ps ref a refs alongs k :
  nth_error (project_points_to_line ROps ps ref a) k =
    option_map (fun p => project_point_to_line ROps p ref a) (nth_error ps k) /\
  nth_error (project_points_to_lines ROps ps refs alongs) k =
    match nth_error ps k, nth_error refs k, nth_error alongs k with
    | Some p, Some r, Some d => Some (project_point_to_line ROps p r d)
    | _, _, _ => None
    end.
Proof.
  unfold project_points_to_line, project_points_to_lines. rewrite !nth_error_map, !nth_error_zip. split; [reflexivity|].
  destruct (nth_error ps k), (nth_error refs k), (nth_error alongs k); reflexivity.
Qed.

(* ---- Line ------------------------------------------------------------------------------------------------ *)
Lemma almost_zero_v0 : almost_zero ROps v0 = true.
Proof.
  unfold almost_zero, atol, nfrac, v0; rops. cbn [vx vy vz]. rewrite Rabs_R0.
  rewrite (proj2 (Rleb_true 0 _)) by lra. reflexivity.
Qed.
Lemma line_rejects_zero_direction p :
  line_ctor ROps p v0 = Raise ValueError /\
  (forall a l, line_ctor ROps p a = Ok l -> a <> v0 /\ l = MkLine p a) /\
  (forall q, line_from_points ROps p q = line_ctor ROps p (vsub ROps q p)) /\
  (forall a, reference_points ROps (MkLine p a) = (p, vadd ROps p a)).
Proof.
  pose proof almost_zero_v0 as Hz.
  split; [unfold line_ctor; rewrite Hz; reflexivity|]. split; [|split; reflexivity].
  intros a l H. unfold line_ctor in H. destruct (almost_zero ROps a) eqn:E; [discriminate|]. injection H as <-.
  split; [|reflexivity]. intros ->. rewrite Hz in E. discriminate.
Qed.
(* which directions Line accepts: exactly those with a component above the (binary64) constant 1e-8 in absolute value *)
Lemma line_accepts_iff p a :
  (almost_zero ROps a = false -> line_ctor ROps p a = Ok (MkLine p a)) /\
  (almost_zero ROps a = true -> line_ctor ROps p a = Raise ValueError) /\
  (almost_zero ROps a = false <->
   atol ROps < Rabs (vx a) \/ atol ROps < Rabs (vy a) \/ atol ROps < Rabs (vz a)).
Proof.
  split; [intros H; unfold line_ctor; rewrite H; reflexivity|]. split; [intros H; unfold line_ctor; rewrite H; reflexivity|].
  unfold almost_zero; rops. destruct (Rleb_spec (Rabs (vx a)) (atol ROps)), (Rleb_spec (Rabs (vy a)) (atol ROps)),
    (Rleb_spec (Rabs (vz a)) (atol ROps)); cbn [andb]; split; intros H; try reflexivity; try discriminate;
    try (destruct H as [H|[H|H]]; lra); auto; try (left; lra); try (right; left; lra); try (right; right; lra).
Qed.
(* Line also refuses non-zero directions: every component at most 1e-8 in absolute value *)
Lemma line_rejects_tiny_nonzero : exists p a, a <> v0 /\ line_ctor ROps p a = Raise ValueError.
Proof.
  exists v0, (V3 (1 / 1000000000) 0 0). split.
  - intros E. unfold v0 in E. injection E as E. lra.
  - unfold line_ctor, almost_zero, atol, nfrac; rops. cbn [vx vy vz]. rewrite Rabs_R0.
    rewrite (Rabs_pos_eq (1 / 1000000000)) by lra.
    rewrite (proj2 (Rleb_true (1 / 1000000000) _)) by lra. rewrite (proj2 (Rleb_true 0 _)) by lra. reflexivity.
Qed.

(* ---- collinearity ---------------------------------------------------------------------------------------- *)
Lemma cross_zero_collinear d w : d <> v0 -> vcross ROps d w = v0 ->
  w = vscale ROps (vdot ROps w d / vnorm2 ROps d) d.
Proof.
  intros Hd Hc. pose proof (vnorm2_pos d Hd) as Hp. dv d d1 d2 d3; dv w w1 w2 w3.
  unfold v0 in Hc. vunf_in Hc. injection Hc as H1 H2 H3. vunf_in Hp. vunf.
  assert (E1 : (d1 * d1 + d2 * d2 + d3 * d3) * w1 = (w1 * d1 + w2 * d2 + w3 * d3) * d1) by (clear - H1 H2 H3; nsatz).
  assert (E2 : (d1 * d1 + d2 * d2 + d3 * d3) * w2 = (w1 * d1 + w2 * d2 + w3 * d3) * d2) by (clear - H1 H2 H3; nsatz).
  assert (E3 : (d1 * d1 + d2 * d2 + d3 * d3) * w3 = (w1 * d1 + w2 * d2 + w3 * d3) * d3) by (clear - H1 H2 H3; nsatz).
  set (D := d1 * d1 + d2 * d2 + d3 * d3) in *. clearbody D.
  apply V3_ext; (apply Rmult_eq_reg_l with D; [|lra]); [rewrite E1|rewrite E2|rewrite E3]; field; lra.
Qed.

Lemma on_line_of_cross p q x : p <> q -> vcross ROps (vsub ROps q p) (vsub ROps x p) = v0 -> on_line p q x.
Proof.
  intros Hpq Hc. assert (Hd : vsub ROps q p <> v0).
  { intros E. apply Hpq. dv p p1 p2 p3; dv q q1 q2 q3. unfold v0 in E. vunf_in E. injection E as E1 E2 E3.
    apply V3_ext; lra. }
  pose proof (cross_zero_collinear _ _ Hd Hc) as E.
  exists (vdot ROps (vsub ROps x p) (vsub ROps q p) / vnorm2 ROps (vsub ROps q p)).
  set (s := vdot ROps (vsub ROps x p) (vsub ROps q p) / vnorm2 ROps (vsub ROps q p)) in *. clearbody s.
  unfold line_pt. dv p p1 p2 p3; dv q q1 q2 q3; dv x x1 x2 x3. vunf_in E. injection E as E1 E2 E3. vunf.
  apply V3_ext; lra.
Qed.
Lemma on_line_cross p q x : on_line p q x -> vcross ROps (vsub ROps q p) (vsub ROps x p) = v0.
Proof. intros [s ->]. unfold line_pt, v0. dv p p1 p2 p3; dv q q1 q2 q3. vunf. apply V3_ext; ring. Qed.
Lemma on_line_p p q : on_line p q p.
Proof. exists 0. unfold line_pt. vec_eq; ring. Qed.
Lemma on_line_q p q : on_line p q q.
Proof. exists 1. unfold line_pt. vec_eq; ring. Qed.

(* two lines whose directions are not parallel share at most one point *)
Lemma common_point_unique p0 q0 p1 q1 X Y :
  vcross ROps (vsub ROps p1 q1) (vsub ROps p0 q0) <> v0 ->
  on_line p0 q0 X -> on_line p1 q1 X -> on_line p0 q0 Y -> on_line p1 q1 Y -> X = Y.
Proof.
  intros Hk [s EX0] [t EX1] [s' EY0] [t' EY1].
  destruct (Req_dec s s') as [->|Hne]; [rewrite EX0, EY0; reflexivity|].
  exfalso; apply Hk. subst X Y. unfold line_pt in *.
  dv p0 a1 a2 a3; dv q0 b1 b2 b3; dv p1 c1 c2 c3; dv q1 d1 d2 d3. unfold v0.
  vunf_in EX1. vunf_in EY1. injection EX1 as X1 X2 X3. injection EY1 as Y1 Y2 Y3. vunf.
  assert (Z1 : (s - s') * ((c2 - d2) * (a3 - b3) - (c3 - d3) * (a2 - b2)) = 0) by (clear - X1 X2 X3 Y1 Y2 Y3; nsatz).
  assert (Z2 : (s - s') * ((c3 - d3) * (a1 - b1) - (c1 - d1) * (a3 - b3)) = 0) by (clear - X1 X2 X3 Y1 Y2 Y3; nsatz).
  assert (Z3 : (s - s') * ((c1 - d1) * (a2 - b2) - (c2 - d2) * (a1 - b1)) = 0) by (clear - X1 X2 X3 Y1 Y2 Y3; nsatz).
  assert (Hs : s - s' <> 0) by lra.
  apply V3_ext; [apply Rmult_integral in Z1|apply Rmult_integral in Z2|apply Rmult_integral in Z3]; tauto.
Qed.

(* ---- the step along line 0 -------------------------------------------------------------------------------- *)
(* g . k = 0 (coplanar lines): h = f x g and k = f x e are parallel, |k|^2 h = (h.k) k *)
Lemma coplanar_parallel e f g : vdot ROps g (vcross ROps f e) = 0 ->
  vscale ROps (vnorm2 ROps (vcross ROps f e)) (vcross ROps f g) =
  vscale ROps (vdot ROps (vcross ROps f g) (vcross ROps f e)) (vcross ROps f e).
Proof.
  intros H. dv e e1 e2 e3; dv f f1 f2 f3; dv g g1 g2 g3. vunf_in H. vunf.
  set (gk := g1 * (f2 * e3 - f3 * e2) + g2 * (f3 * e1 - f1 * e3) + g3 * (f1 * e2 - f2 * e1)) in *.
  apply V3_ext.
  - transitivity (((f2 * e3 - f3 * e2) * (f2 * g3 - f3 * g2) + (f3 * e1 - f1 * e3) * (f3 * g1 - f1 * g3) +
                   (f1 * e2 - f2 * e1) * (f1 * g2 - f2 * g1)) * (f2 * e3 - f3 * e2)
                  - gk * ((f3 * e1 - f1 * e3) * f3 - (f1 * e2 - f2 * e1) * f2)); [unfold gk; ring|rewrite H; ring].
  - transitivity (((f2 * e3 - f3 * e2) * (f2 * g3 - f3 * g2) + (f3 * e1 - f1 * e3) * (f3 * g1 - f1 * g3) +
                   (f1 * e2 - f2 * e1) * (f1 * g2 - f2 * g1)) * (f3 * e1 - f1 * e3)
                  - gk * ((f1 * e2 - f2 * e1) * f1 - (f2 * e3 - f3 * e2) * f3)); [unfold gk; ring|rewrite H; ring].
  - transitivity (((f2 * e3 - f3 * e2) * (f2 * g3 - f3 * g2) + (f3 * e1 - f1 * e3) * (f3 * g1 - f1 * g3) +
                   (f1 * e2 - f2 * e1) * (f1 * g2 - f2 * g1)) * (f1 * e2 - f2 * e1)
                  - gk * ((f2 * e3 - f3 * e2) * f2 - (f3 * e1 - f1 * e3) * f1)); [unfold gk; ring|rewrite H; ring].
Qed.

(* for parallel h, k the step  sign * |h|/|k|  with sign = -1 iff h.k > 0  is  -(h.k)/(k.k) *)
Lemma step_cancels h k : k <> v0 ->
  vscale ROps (vnorm2 ROps k) h = vscale ROps (vdot ROps h k) k ->
  vadd ROps h (vscale ROps ((if Rltb 0 (vdot ROps h k) then -1 else 1) * (vnorm ROps h / vnorm ROps k)) k) = v0.
Proof.
  intros Hk HA. pose proof (vnorm_pos k Hk) as Hnk. pose proof (vnorm_sq k) as Sk. pose proof (vnorm_sq h) as Sh.
  pose proof (vnorm_nonneg h) as Hnh. pose proof (vnorm2_pos k Hk) as HK2.
  set (nk := vnorm ROps k) in *. set (nh := vnorm ROps h) in *. clearbody nk nh.
  dv h h1 h2 h3; dv k k1 k2 k3. vunf_in HA. injection HA as A1 A2 A3. vunf_in Sk. vunf_in Sh. vunf_in HK2. unfold v0. vunf.
  assert (B : (k1 * k1 + k2 * k2 + k3 * k3) * (h1 * h1 + h2 * h2 + h3 * h3) =
              (h1 * k1 + h2 * k2 + h3 * k3) * (h1 * k1 + h2 * k2 + h3 * k3)) by (clear - A1 A2 A3; nsatz).
  set (K2 := k1 * k1 + k2 * k2 + k3 * k3) in *. set (HK := h1 * k1 + h2 * k2 + h3 * k3) in *.
  set (HH := h1 * h1 + h2 * h2 + h3 * h3) in *. clearbody K2 HK HH.
  set (r := nh / nk). assert (Hr : r * nk = nh) by (unfold r; field; lra).
  assert (Hr0 : 0 <= r) by (unfold r; apply Rmult_le_pos; [lra|apply Rlt_le, Rinv_0_lt_compat; lra]).
  assert (Hr2 : r * r * K2 = HH) by (rewrite <- Sk, <- Sh, <- Hr; ring).
  assert (Hr3 : (r * K2) * (r * K2) = HK * HK) by (rewrite <- B, <- Hr2; ring).
  clearbody r.
  destruct (Rltb_spec 0 HK) as [Hpos|Hneg].
  - assert (E : r * K2 = HK) by (apply Rsqr_inj; unfold Rsqr; [nra|lra|exact Hr3]).
    apply V3_ext; (apply Rmult_eq_reg_l with K2; [|lra]); nra.
  - assert (E : r * K2 = - HK) by (apply Rsqr_inj; unfold Rsqr; [nra|lra|rewrite Hr3; ring]).
    apply V3_ext; (apply Rmult_eq_reg_l with K2; [|lra]); nra.
Qed.

(* ---- intersect_lines: a returned point lies on both lines ------------------------------------------------------ *)
Lemma vsub_neq a b : a <> b -> vsub ROps a b <> v0.
Proof.
  intros H E. apply H. dv a a1 a2 a3; dv b b1 b2 b3. unfold v0 in E. vunf_in E. injection E as E1 E2 E3.
  apply V3_ext; lra.
Qed.

Lemma general_step_on_both p0 q0 p1 q1 : p0 <> q0 -> p1 <> q1 ->
  let e := vsub ROps p0 q0 in let f := vsub ROps p1 q1 in let g := vsub ROps p0 p1 in
  let h := vcross ROps f g in let k := vcross ROps f e in
  k <> v0 -> vdot ROps g k = 0 ->
  let x := vadd ROps p0 (vscale ROps (if Rltb 0 (vdot ROps h k) then -1 else 1)
                            (vscale ROps (vnorm ROps h / vnorm ROps k) e)) in
  on_line p0 q0 x /\ on_line p1 q1 x.
Proof.
  intros H0 H1 e f g h k Hk Hgk x. pose proof (coplanar_parallel e f g Hgk) as HA. fold h k in HA.
  pose proof (step_cancels h k Hk HA) as HS.
  set (c := (if Rltb 0 (vdot ROps h k) then -1 else 1) * (vnorm ROps h / vnorm ROps k)) in *.
  assert (Hx : x = vadd ROps p0 (vscale ROps c e)).
  { unfold x, c. destruct (Rltb 0 (vdot ROps h k)); vec_eq; ring. }
  clearbody c. rewrite Hx. clear Hx x. split.
  - exists (- c). unfold line_pt, e. vec_eq; ring.
  - apply on_line_of_cross; [exact H1|].
    unfold h, k, f, g, e, v0 in *. dv p0 a1 a2 a3; dv q0 b1 b2 b3; dv p1 c1 c2 c3; dv q1 d1 d2 d3.
    vunf_in HS. injection HS as S1 S2 S3. vunf. apply V3_ext; nra.
Qed.

Lemma returned_point_on_both_lines p0 q0 p1 q1 x : p0 <> q0 -> p1 <> q1 ->
  intersect_lines ROps p0 q0 p1 q1 = Some x -> on_line p0 q0 x /\ on_line p1 q1 x.
Proof.
  intros H0 H1 H. unfold intersect_lines in H. unfold n0 in H; rops.
  destruct (veqb_spec p0 p1) as [E|N1].
  { cbn [orb] in H. injection H as <-. subst p1. split; apply on_line_p. }
  destruct (veqb_spec p0 q1) as [E|N2].
  { cbn [orb] in H. injection H as <-. subst q1. split; [apply on_line_p|apply on_line_q]. }
  cbn [orb] in H. destruct (veqb_spec q0 p1) as [E|N3].
  { cbn [orb] in H. injection H as <-. subst p1. split; [apply on_line_q|apply on_line_p]. }
  cbn [orb] in H.
  set (e := vsub ROps p0 q0) in *. set (f := vsub ROps p1 q1) in *. set (g := vsub ROps p0 p1) in *.
  set (h := vcross ROps f g) in *. set (k := vcross ROps f e) in *.
  destruct (Reqb_spec (vnorm ROps k) 0) as [Ek|Nk]; [discriminate|].
  assert (Hk : k <> v0) by (intros E; apply Nk, vnorm_zero_iff, E).
  destruct (Reqb_spec (vnorm ROps h) 0) as [Eh|Nh].
  { injection H as <-. split; [apply on_line_p|]. apply vnorm_zero_iff in Eh.
    apply on_line_of_cross; [exact H1|]. unfold h, f, g, v0 in *.
    dv p0 a1 a2 a3; dv p1 c1 c2 c3; dv q1 d1 d2 d3. vunf_in Eh. injection Eh as S1 S2 S3. vunf. apply V3_ext; lra. }
  destruct (Reqb_spec (vdot ROps g k) 0) as [Eg|Ng]; cbn [negb] in H; [|discriminate].
  injection H as <-. apply (general_step_on_both p0 q0 p1 q1 H0 H1 Hk Eg).
Qed.

(* ---- intersect_lines: completeness ------------------------------------------------------------------------------ *)
Lemma intersect_lines_complete p0 q0 p1 q1 : p0 <> q0 -> p1 <> q1 ->
  let e := vsub ROps p0 q0 in let f := vsub ROps p1 q1 in let g := vsub ROps p0 p1 in
  let k := vcross ROps f e in
  (* the lines meet in exactly one point: it is returned *)
  (k <> v0 -> forall M, on_line p0 q0 M -> on_line p1 q1 M -> intersect_lines ROps p0 q0 p1 q1 = Some M) /\
  (* parallel and distinct *)
  (k = v0 -> ~ on_line p1 q1 p0 -> intersect_lines ROps p0 q0 p1 q1 = None) /\
  (* skew *)
  (vdot ROps g k <> 0 -> intersect_lines ROps p0 q0 p1 q1 = None).
Proof.
  intros H0 H1 e f g k. split; [|split].
  - intros Hk M M0 M1.
    assert (U : forall x, on_line p0 q0 x -> on_line p1 q1 x -> Some x = Some M).
    { intros x X0 X1. f_equal. apply (common_point_unique p0 q0 p1 q1 x M Hk X0 X1 M0 M1). }
    unfold intersect_lines. unfold n0; rops.
    destruct (veqb_spec p0 p1) as [E|N1]; [cbn [orb]; subst p1; apply U; apply on_line_p|].
    destruct (veqb_spec p0 q1) as [E|N2]; [cbn [orb]; subst q1; apply U; [apply on_line_p|apply on_line_q]|].
    cbn [orb]. destruct (veqb_spec q0 p1) as [E|N3]; [cbn [orb]; subst p1; apply U; [apply on_line_q|apply on_line_p]|].
    cbn [orb]. fold e f g. fold k. set (h := vcross ROps f g).
    destruct (Reqb_spec (vnorm ROps k) 0) as [Ek|Nk]; [exfalso; apply Hk, vnorm_zero_iff, Ek|].
    destruct (Reqb_spec (vnorm ROps h) 0) as [Eh|Nh].
    { apply U; [apply on_line_p|]. apply vnorm_zero_iff in Eh. apply on_line_of_cross; [exact H1|].
      unfold h, f, g, v0 in *. dv p0 a1 a2 a3; dv p1 c1 c2 c3; dv q1 d1 d2 d3.
      vunf_in Eh. injection Eh as S1 S2 S3. vunf. apply V3_ext; lra. }
    assert (Eg : vdot ROps g k = 0).
    { destruct M0 as [s E0], M1 as [t E1]. rewrite E0 in E1. unfold g, k, f, e, line_pt in *.
      dv p0 a1 a2 a3; dv q0 b1 b2 b3; dv p1 c1 c2 c3; dv q1 d1 d2 d3. vunf_in E1. injection E1 as X1 X2 X3. vunf.
      nsatz. }
    rewrite (proj2 (Reqb_true _ _) Eg). cbn [negb].
    destruct (general_step_on_both p0 q0 p1 q1 H0 H1 Hk Eg) as [X0 X1]. apply (U _ X0 X1).
  - intros Hk Hoff. unfold intersect_lines. unfold n0; rops.
    destruct (veqb_spec p0 p1) as [E|N1]; [exfalso; apply Hoff; subst; apply on_line_p|].
    destruct (veqb_spec p0 q1) as [E|N2]; [exfalso; apply Hoff; subst; apply on_line_q|].
    cbn [orb]. destruct (veqb_spec q0 p1) as [E|N3].
    { exfalso; apply Hoff. apply on_line_of_cross; [exact H1|]. subst p1. unfold k, f, e, v0 in *.
      dv p0 a1 a2 a3; dv q0 b1 b2 b3; dv q1 d1 d2 d3. vunf_in Hk. injection Hk as S1 S2 S3. vunf. apply V3_ext; lra. }
    cbn [orb]. fold e f. fold k. rewrite (proj2 (vnorm_zero_iff k) Hk). rewrite (proj2 (Reqb_true 0 0) eq_refl). reflexivity.
  - intros Hg. unfold intersect_lines. unfold n0; rops.
    destruct (veqb_spec p0 p1) as [E|N1].
    { exfalso; apply Hg. subst p1. unfold g, k, f, e. dv p0 a1 a2 a3; dv q0 b1 b2 b3; dv q1 d1 d2 d3. vunf. ring. }
    destruct (veqb_spec p0 q1) as [E|N2].
    { exfalso; apply Hg. subst q1. unfold g, k, f, e. dv p0 a1 a2 a3; dv q0 b1 b2 b3; dv p1 c1 c2 c3. vunf. ring. }
    cbn [orb]. destruct (veqb_spec q0 p1) as [E|N3].
    { exfalso; apply Hg. subst p1. unfold g, k, f, e. dv p0 a1 a2 a3; dv q0 b1 b2 b3; dv q1 d1 d2 d3. vunf. ring. }
    cbn [orb]. fold e f g. fold k. set (h := vcross ROps f g).
    destruct (Reqb_spec (vnorm ROps k) 0) as [Ek|Nk].
    { exfalso; apply Hg. apply vnorm_zero_iff in Ek. rewrite Ek. unfold v0. vunf. ring. }
    destruct (Reqb_spec (vnorm ROps h) 0) as [Eh|Nh].
    { exfalso; apply Hg. apply vnorm_zero_iff in Eh. unfold h, k, f, g, e, v0 in *.
      dv p0 a1 a2 a3; dv q0 b1 b2 b3; dv p1 c1 c2 c3; dv q1 d1 d2 d3. vunf_in Eh. injection Eh as S1 S2 S3. vunf. nsatz. }
    rewrite (proj2 (Reqb_false _ _) Hg). reflexivity.
Qed.

(* ---- Line.intersect_line delegates ------------------------------------------------------------------------------ *)
Lemma line_methods_delegate l l' p :
  line_project ROps l p = project_point_to_line ROps p (lref l) (lalong l) /\
  line_intersect_line ROps l l' =
    intersect_lines ROps (lref l) (vadd ROps (lref l) (lalong l)) (lref l') (vadd ROps (lref l') (lalong l')).
Proof. split; reflexivity. Qed.
(* lines built by from_points: intersect_line is intersect_lines on the four defining points (p + (q - p) = q) *)
Lemma from_points_intersect p0 q0 p1 q1 l l' :
  line_from_points ROps p0 q0 = Ok l -> line_from_points ROps p1 q1 = Ok l' ->
  line_intersect_line ROps l l' = intersect_lines ROps p0 q0 p1 q1.
Proof.
  intros H H'. destruct (line_rejects_zero_direction p0) as (_ & A & B & _).
  destruct (line_rejects_zero_direction p1) as (_ & A' & B' & _).
  rewrite B in H. rewrite B' in H'. destruct (A _ _ H) as [_ ->]. destruct (A' _ _ H') as [_ ->].
  unfold line_intersect_line, reference_points. cbn [lref lalong fst snd].
  replace (vadd ROps p0 (vsub ROps q0 p0)) with q0 by (vec_eq; ring).
  replace (vadd ROps p1 (vsub ROps q1 p1)) with q1 by (vec_eq; ring). reflexivity.
Qed.

(* ---- intersect_2d_lines ---------------------------------------------------------------------------------------------- *)
Lemma intersect_2d_spec p0 q0 p1 q1 :
  (parallel2 p0 q0 p1 q1 -> intersect_2d_lines ROps p0 q0 p1 q1 = None) /\
  (~ parallel2 p0 q0 p1 q1 ->
     exists x, intersect_2d_lines ROps p0 q0 p1 q1 = Some x /\ on_line2 p0 q0 x /\ on_line2 p1 q1 x /\
               forall M, on_line2 p0 q0 M -> on_line2 p1 q1 M -> M = x).
Proof.
  destruct p0 as [a1 a2], q0 as [b1 b2], p1 as [c1 c2], q1 as [u1 u2].
  unfold parallel2, intersect_2d_lines, on_line2. unfold n0; rops. cbn [fst snd].
  set (dt := - (b2 - a2) * (u1 - c1) - (b1 - a1) * - (u2 - c2)).
  assert (Hdet : dt = (b1 - a1) * (u2 - c2) - (b2 - a2) * (u1 - c1)) by (unfold dt; lra).
  split.
  - intros Hp. rewrite (proj2 (Reqb_true dt 0)) by lra. reflexivity.
  - intros Hp. assert (Hd : dt <> 0) by lra. rewrite (proj2 (Reqb_false dt 0) Hd).
    eexists; split; [reflexivity|]. cbn [fst snd]. split; [|split].
    + exists (((c1 - a1) * (u2 - c2) - (c2 - a2) * (u1 - c1)) / ((b1 - a1) * (u2 - c2) - (b2 - a2) * (u1 - c1))).
      unfold dt. split; field; lra.
    + exists (((c1 - a1) * (b2 - a2) - (c2 - a2) * (b1 - a1)) / ((b1 - a1) * (u2 - c2) - (b2 - a2) * (u1 - c1))).
      unfold dt. split; field; lra.
    + intros [m1 m2] [s [S1 S2]] [t [T1 T2]]. cbn [fst snd] in *.
      assert (X1 : m1 * dt = (a2 * (b1 - a1) - (b2 - a2) * a1) * (u1 - c1) - (b1 - a1) * (c2 * (u1 - c1) - (u2 - c2) * c1)).
      { unfold dt. subst m1. nsatz. }
      assert (X2 : m2 * dt = - (b2 - a2) * (c2 * (u1 - c1) - (u2 - c2) * c1) - - (u2 - c2) * (a2 * (b1 - a1) - (b2 - a2) * a1)).
      { unfold dt. subst m2. nsatz. }
      f_equal; (apply Rmult_eq_reg_r with dt; [|exact Hd]); [rewrite X1|rewrite X2]; field; exact Hd.
Qed.

(* power-of-two rescaling of a direction before it is normalised (fixes/C18-projection-extreme-lengths.diff) does not
   change the unit vector: used by the traced-kernel ties *)
Lemma sqrt_scale3 x y z c : 0 < c ->
  sqrt (x * c * (x * c) + y * c * (y * c) + z * c * (z * c)) = c * sqrt (x * x + y * y + z * z).
Proof.
  intros Hc. replace (x * c * (x * c) + y * c * (y * c) + z * c * (z * c)) with ((c * c) * (x * x + y * y + z * z)) by ring.
  rewrite sqrt_mult; [|nra|nra]. rewrite sqrt_square by lra. reflexivity.
Qed.

(* /repo commit 36e7d06 rescales the direction by a power of two before normalising it. The model does not mirror that
   step because it is the identity over the reals: the projection does not depend on the length of the direction. *)
Lemma vnorm_scale c a : 0 < c -> vnorm ROps (vscale ROps c a) = c * vnorm ROps a.
Proof.
  intros Hc. destruct a as [x y z]. unfold vnorm. vunf.
  replace (c * x * (c * x) + c * y * (c * y) + c * z * (c * z)) with (x * c * (x * c) + y * c * (y * c) + z * c * (z * c)) by ring.
  apply sqrt_scale3, Hc.
Qed.
Lemma project_scale_invariant p ref a c : 0 < c ->
  project_point_to_line ROps p ref (vscale ROps c a) = project_point_to_line ROps p ref a.
Proof.
  intros Hc. unfold project_point_to_line. unfold n0; rops. rewrite vnorm_scale by exact Hc.
  destruct (Reqb_spec (vnorm ROps a) 0) as [E|N].
  - rewrite (proj2 (Reqb_true _ _)) by (rewrite E; ring). reflexivity.
  - rewrite (proj2 (Reqb_false _ _)) by (intros E; apply N; apply Rmult_integral in E; destruct E; [lra|assumption]).
    f_equal. f_equal. assert (Ha : a <> v0) by (intros ->; apply N, vnorm_zero_iff; reflexivity).
    assert (Hca : vscale ROps c a <> v0).
    { intros E. apply N. apply vnorm_zero_iff in E. rewrite vnorm_scale in E by exact Hc.
      apply Rmult_integral in E. destruct E; [lra|assumption]. }
    rewrite !vg_project_formula by assumption. pose proof (vnorm2_pos a Ha) as Hp.
    destruct a as [x y z], (vsub ROps p ref) as [v1 v2 v3]. vunf_in Hp.
    assert (Hq : 0 < c * x * (c * x) + c * y * (c * y) + c * z * (c * z)).
    { replace (c * x * (c * x) + c * y * (c * y) + c * z * (c * z)) with (c * c * (x * x + y * y + z * z)) by ring.
      apply Rmult_lt_0_compat; [nra|lra]. }
    vec_eq; field; repeat split; lra.
Qed.

(* ---- equality of real expressions modulo square-root facts (traced-kernel ties) ---------------------------------------
   Every `sqrt x` of the goal becomes a variable n with n^2 = x (x a sum of squares), 0 < x when n <> 0 is known; then the
   equation is cleared of denominators and the even powers of n are replaced by x. This proves `model = traced` when one
   side goes through unit vectors (two divisions by a norm) and the other divides once by the squared length. *)
Ltac abstract_sqrts :=
  repeat match goal with
  | |- context [sqrt ?x] =>
      let n := fresh "sq" in let Hq := fresh "Hsq" in
      assert (Hq : sqrt x * sqrt x = x) by (apply sqrt_sqrt; nra);
      set (n := sqrt x) in *; clearbody n;
      try (match goal with Hz : n <> 0 |- _ =>
             let Hp := fresh "Hpos" in pose proof (Rsqr_pos_lt n Hz) as Hp; unfold Rsqr in Hp; rewrite Hq in Hp end);
      let E2 := fresh "Esq" in let E3 := fresh "Esq" in let E4 := fresh "Esq" in
      assert (E2 : n ^ 2 = x) by (rewrite <- Hq; ring);
      assert (E3 : n ^ 3 = n * x) by (rewrite <- Hq; ring);
      assert (E4 : n ^ 4 = x * x) by (rewrite <- Hq; ring)
  end.
Ltac nonzero_side := repeat split; first [ assumption | lra | nra ].
Ltac subst_sqrt_powers :=
  repeat match goal with E : ?n ^ 4 = _ |- _ => rewrite ?E; clear E end;
  repeat match goal with E : ?n ^ 3 = _ |- _ => rewrite ?E; clear E end;
  repeat match goal with E : ?n ^ 2 = _ |- _ => rewrite ?E; clear E end.
Ltac sqrt_field :=
  abstract_sqrts;
  first [ ring | field; nonzero_side | field_simplify_eq; [ subst_sqrt_powers; ring | nonzero_side ] ].

(* ---- intersect_lines without square roots is the same function ----------------------------------------------------- *)
Lemma vnorm_eq0_iff_dot a : vnorm ROps a = 0 <-> vdot ROps a a = 0.
Proof.
  rewrite vnorm_zero_iff. split.
  - intros ->. unfold v0. vunf. ring.
  - intros H. apply vnorm2_zero. exact H.
Qed.
Lemma intersect_lines_rational_eq p0 q0 p1 q1 :
  intersect_lines ROps p0 q0 p1 q1 = intersect_lines_rational ROps p0 q0 p1 q1.
Proof.
  unfold intersect_lines, intersect_lines_rational. unfold n0; rops.
  destruct (veqb ROps p0 p1 || veqb ROps p0 q1); [reflexivity|].
  destruct (veqb ROps q0 p1 || veqb ROps p0 q1); [reflexivity|].
  set (e := vsub ROps p0 q0). set (f := vsub ROps p1 q1). set (g := vsub ROps p0 p1).
  set (h := vcross ROps f g). set (k := vcross ROps f e).
  destruct (Reqb_spec (vnorm ROps k) 0) as [Ek|Nk].
  - rewrite (proj2 (Reqb_true (vdot ROps k k) 0) (proj1 (vnorm_eq0_iff_dot k) Ek)). reflexivity.
  - rewrite (proj2 (Reqb_false (vdot ROps k k) 0)) by (intros E; apply Nk, vnorm_eq0_iff_dot, E).
    destruct (Reqb_spec (vnorm ROps h) 0) as [Eh|Nh].
    + rewrite (proj2 (Reqb_true (vdot ROps h h) 0) (proj1 (vnorm_eq0_iff_dot h) Eh)). reflexivity.
    + rewrite (proj2 (Reqb_false (vdot ROps h h) 0)) by (intros E; apply Nh, vnorm_eq0_iff_dot, E).
      destruct (Reqb_spec (vdot ROps g k) 0) as [Eg|Ng]; cbn [negb]; [|reflexivity].
      f_equal. assert (Hk : k <> v0) by (intros E; apply Nk, vnorm_zero_iff, E).
      pose proof (coplanar_parallel e f g Eg) as HA. fold h k in HA.
      pose proof (step_cancels h k Hk HA) as HS. pose proof (vnorm2_pos k Hk) as Hp.
      set (c := (if Rltb 0 (vdot ROps h k) then -1 else 1) * (vnorm ROps h / vnorm ROps k)) in *.
      assert (Hc : c * vdot ROps k k = - vdot ROps h k).
      { destruct h as [h1 h2 h3], k as [k1 k2 k3]. unfold v0 in HS. vunf_in HS. injection HS as S1 S2 S3. vunf.
        clear - S1 S2 S3. nsatz. }
      replace (vadd ROps p0 (vscale ROps (if Rltb 0 (vdot ROps h k) then -1 else 1)
                                (vscale ROps (vnorm ROps h / vnorm ROps k) e)))
        with (vadd ROps p0 (vscale ROps c e)) by (unfold c; destruct (Rltb 0 (vdot ROps h k)); vec_eq; ring).
      unfold vnorm2 in Hp. set (kk := vdot ROps k k) in *. set (hk := vdot ROps h k) in *. clearbody c kk hk.
      assert (E : c = - hk / kk) by (apply Rmult_eq_reg_r with kk; [rewrite Hc; field; lra|lra]).
      rewrite E. destruct p0 as [x y z], e as [e1 e2 e3]. vec_eq; field; lra.
Qed.
