(* Real-number lemmas for M_inflection.v and M_array.v (C20, extra callables). Kept small on purpose. *)
From Coq Require Import ZArith Reals Lra List Bool Arith Lia Sorted.
From PW Require Import Num NumR Vec NpList Result.
From PW.model Require Import M_inflection M_array.
From PW.proofs Require Import P_nplist.
Import ListNotations.
Local Open Scope R_scope.

Notation at' := (at_ ROps).

(* ---- lists built by map over seq ----------------------------------------------------------------------- *)
Lemma nth_error_map_seq {A} (g : nat -> A) n k :
  (k < n)%nat -> nth_error (map g (seq 0 n)) k = Some (g k).
Proof.
  intros H. rewrite nth_error_map. rewrite (nth_error_nth' (seq 0 n) 0%nat) by (rewrite seq_length; exact H).
  rewrite seq_nth by exact H. reflexivity.
Qed.

Lemma nth_error_map_seq_some {A} (g : nat -> A) n k v :
  nth_error (map g (seq 0 n)) k = Some v -> (k < n)%nat /\ v = g k.
Proof.
  intros H. assert (Hk : (k < n)%nat).
  { assert (H0 : nth_error (map g (seq 0 n)) k <> None) by congruence.
    apply nth_error_Some in H0. rewrite map_length, seq_length in H0. exact H0. }
  split; [exact Hk|]. rewrite nth_error_map_seq in H by exact Hk. congruence.
Qed.

Lemma gradient_length xs fs : length (gradient ROps xs fs) = length fs.
Proof. unfold gradient. rewrite map_length, seq_length. reflexivity. Qed.

Lemma gradient_nth xs fs i : (i < length fs)%nat ->
  nth_error (gradient ROps xs fs) i = Some (grad_at ROps xs fs (length fs) i).
Proof. intros H. unfold gradient. apply nth_error_map_seq. exact H. Qed.

Lemma at_gradient xs fs i : (i < length fs)%nat ->
  at' (gradient ROps xs fs) i = grad_at ROps xs fs (length fs) i.
Proof.
  intros H. unfold at_. apply nth_error_nth. apply gradient_nth. exact H.
Qed.

(* ---- exactness on affine data ------------------------------------------------------------------------------ *)
Lemma grad_interior_affine a b xm x0 xp : xm < x0 -> x0 < xp ->
  grad_interior ROps xm x0 xp (a * xm + b) (a * x0 + b) (a * xp + b) = a.
Proof. intros H1 H2. unfold grad_interior; rops. field. repeat split; lra. Qed.

Lemma grad_edge_affine a b xa xb : xa < xb ->
  grad_edge ROps xa xb (a * xa + b) (a * xb + b) = a.
Proof. intros H. unfold grad_edge; rops. field. lra. Qed.

Notation increasing := (increasing ROps).
Lemma increasing_lt xs n i : increasing xs n -> (S i < n)%nat -> at' xs i < at' xs (S i).
Proof. intros H Hi. specialize (H i Hi). rops. apply Rltb_true in H. exact H. Qed.

Lemma grad_at_affine a b xs fs n i :
  (forall j, (j < n)%nat -> at' fs j = a * at' xs j + b) -> increasing xs n -> (2 <= n)%nat -> (i < n)%nat ->
  grad_at ROps xs fs n i = a.
Proof.
  intros Hf Hx Hn Hi. unfold grad_at.
  destruct (Nat.eqb i 0) eqn:E0.
  - rewrite !Hf by lia. apply grad_edge_affine. apply (increasing_lt _ _ 0%nat Hx). lia.
  - apply Nat.eqb_neq in E0. destruct (Nat.eqb (S i) n) eqn:E1.
    + apply Nat.eqb_eq in E1. rewrite !Hf by lia. apply grad_edge_affine.
      replace i with (S (i - 1)) at 2 by lia. apply (increasing_lt _ _ _ Hx). lia.
    + apply Nat.eqb_neq in E1. rewrite !Hf by lia. apply grad_interior_affine.
      * replace i with (S (i - 1)) at 2 by lia. apply (increasing_lt _ _ _ Hx). lia.
      * apply (increasing_lt _ _ _ Hx). lia.
Qed.

Lemma at_map (g : R -> R) xs j : (j < length xs)%nat -> at' (map g xs) j = g (at' xs j).
Proof.
  intros H. unfold at_. rewrite (nth_indep _ (n0 ROps) (g (n0 ROps))) by (rewrite map_length; exact H).
  apply map_nth.
Qed.

(* np.gradient of an affine function of the coordinate is its slope, at every sample *)
Lemma gradient_affine a b xs i :
  increasing xs (length xs) -> (2 <= length xs)%nat -> (i < length xs)%nat ->
  nth_error (gradient ROps xs (map (fun x => a * x + b) xs)) i = Some a.
Proof.
  intros Hx Hn Hi. rewrite gradient_nth by (rewrite map_length; exact Hi). f_equal.
  rewrite map_length. apply grad_at_affine with (b := b); auto.
  intros j Hj. apply (at_map (fun x => a * x + b)). exact Hj.
Qed.

(* ... hence the second difference of affine data vanishes everywhere (every product fd2[i]*fd2[i+1] is 0 <= 0:
   this is why the docstring warns that a straight line "goes haywire") *)
Lemma second_difference_affine a b xs i :
  increasing xs (length xs) -> (2 <= length xs)%nat -> (i < length xs)%nat ->
  nth_error (gradient ROps xs (gradient ROps xs (map (fun x => a * x + b) xs))) i = Some 0.
Proof.
  intros Hx Hn Hi. set (fs := map (fun x => a * x + b) xs).
  assert (Lf : length fs = length xs) by apply map_length.
  rewrite gradient_nth by (rewrite gradient_length, Lf; exact Hi). f_equal.
  rewrite gradient_length, Lf. apply grad_at_affine with (b := a); auto.
  intros j Hj. rewrite at_gradient by (rewrite Lf; exact Hj).
  assert (G : nth_error (gradient ROps xs fs) j = Some a) by (apply gradient_affine; auto).
  rewrite gradient_nth in G by (rewrite Lf; exact Hj). inversion G as [G1]. rewrite G1. ring.
Qed.

(* ---- inflection_points ------------------------------------------------------------------------------------------ *)
Lemma fd2_length pts rise run : length (fd2 ROps pts rise run) = length pts.
Proof. unfold fd2, fd1, coords. rewrite !gradient_length, map_length. reflexivity. Qed.

Lemma inflection_points_sound pts rise run idx :
  inflection_points ROps pts rise run = Ok (Some idx) ->
  StronglySorted lt idx /\
  forall i, In i idx ->
    (S i < length pts)%nat /\ (exists row, nth_error pts i = Some row) /\
    at' (fd2 ROps pts rise run) i * at' (fd2 ROps pts rise run) (S i) <= 0.
Proof.
  unfold inflection_points. destruct (Nat.ltb (length pts) 2); [discriminate|].
  destruct (monotone_b ROps (coords ROps pts run)); [|discriminate].
  intros H; inversion H; subst; clear H. split; [apply flatnonzero_sorted|].
  intros i Hi. unfold inflection_indices in Hi. apply flatnonzero_spec in Hi.
  unfold inflection_mask in Hi. apply nth_error_map_seq_some in Hi. destruct Hi as [Hlt Hv].
  rewrite fd2_length in *. destruct (Nat.ltb (S i) (length pts)) eqn:E; [|discriminate].
  apply Nat.ltb_lt in E. split; [exact E|]. split.
  - destruct (nth_error pts i) eqn:En; [eauto|]. apply nth_error_None in En. lia.
  - symmetry in Hv. rops. unfold n0 in Hv; rops. apply Rleb_true in Hv. simpl in Hv. lra.
Qed.

(* ---- point_of_max_acceleration ------------------------------------------------------------------------------------ *)
Lemma argmax_from_spec d2 cands : forall best,
  let r := argmax_from ROps d2 best cands in
  In r (best :: cands) /\ forall j, In j (best :: cands) -> at' d2 j <= at' d2 r.
Proof.
  induction cands as [|c cs IH]; intros best; cbn [argmax_from].
  - split; [left; reflexivity|]. intros j [->|[]]. lra.
  - rops. destruct (Rltb_spec (at' d2 best) (at' d2 c)) as [Hlt|Hge].
    + destruct (IH c) as [Hin Hmax]. split.
      * destruct Hin as [<-|Hin]; [right; left; reflexivity|right; right; exact Hin].
      * intros j [->|[->|Hj]].
        -- pose proof (Hmax c (or_introl eq_refl)). lra.
        -- apply Hmax. left; reflexivity.
        -- apply Hmax. right; exact Hj.
    + destruct (IH best) as [Hin Hmax]. split.
      * destruct Hin as [<-|Hin]; [left; reflexivity|right; right; exact Hin].
      * intros j [->|[->|Hj]].
        -- apply Hmax. left; reflexivity.
        -- pose proof (Hmax best (or_introl eq_refl)). lra.
        -- apply Hmax. right; exact Hj.
Qed.

Notation is_valid := (is_valid ROps).

Lemma valid_inside pts rise run i : is_valid pts rise run i ->
  (0 < i)%nat /\ (S i < length pts)%nat /\
  0 < at' (fd1 ROps pts rise run) (i - 1) /\ 0 < at' (fd1 ROps pts rise run) (S i).
Proof.
  unfold is_valid, valid_mask. intros H. apply nth_error_map_seq_some in H. destruct H as [Hlt Hv].
  assert (L : length (fd1 ROps pts rise run) = length pts)
    by (unfold fd1, coords; rewrite gradient_length, map_length; reflexivity).
  rewrite L in *. destruct (Nat.eqb i 0) eqn:E0; [discriminate|]. apply Nat.eqb_neq in E0.
  destruct (Nat.eqb (S i) (length pts)) eqn:E1; [discriminate|]. apply Nat.eqb_neq in E1.
  symmetry in Hv. apply andb_true_iff in Hv. destruct Hv as [H1 H2]. unfold n0 in *; rops.
  apply Rltb_true in H1. apply Rltb_true in H2. simpl in H1, H2. repeat split; try lia; lra.
Qed.

Lemma point_of_max_acceleration_sound pts rise run i :
  point_of_max_acceleration ROps pts rise run = Ok (Some (Some i)) ->
  is_valid pts rise run i /\ (exists row, nth_error pts i = Some row) /\
  forall j, is_valid pts rise run j -> at' (fd2 ROps pts rise run) j <= at' (fd2 ROps pts rise run) i.
Proof.
  unfold point_of_max_acceleration. destruct (Nat.ltb (length pts) 2); [discriminate|].
  destruct (monotone_b ROps (coords ROps pts run)); [|discriminate].
  intros H; inversion H as [H1]; clear H. unfold max_acceleration_index, argmax_valid in H1.
  destruct (flatnonzero (valid_mask ROps (fd1 ROps pts rise run))) as [|c cs] eqn:Ec; [discriminate|].
  inversion H1 as [H2]; clear H1.
  destruct (argmax_from_spec (fd2 ROps pts rise run) cs c) as [Hin Hmax]. rewrite H2 in *.
  assert (Hv : is_valid pts rise run i) by (unfold is_valid; apply flatnonzero_spec; rewrite Ec; exact Hin).
  split; [exact Hv|]. split.
  - destruct (valid_inside _ _ _ _ Hv) as [_ [Hl _]].
    destruct (nth_error pts i) eqn:En; [eauto|]. apply nth_error_None in En. lia.
  - intros j Hj. apply Hmax. unfold is_valid in Hj. apply flatnonzero_spec in Hj. rewrite Ec in Hj. exact Hj.
Qed.

Lemma point_of_max_acceleration_none pts rise run :
  point_of_max_acceleration ROps pts rise run = Ok (Some None) -> forall j, ~ is_valid pts rise run j.
Proof.
  unfold point_of_max_acceleration. destruct (Nat.ltb (length pts) 2); [discriminate|].
  destruct (monotone_b ROps (coords ROps pts run)); [|discriminate].
  intros H; inversion H as [H1]; clear H. unfold max_acceleration_index, argmax_valid in H1.
  destruct (flatnonzero (valid_mask ROps (fd1 ROps pts rise run))) as [|c cs] eqn:Ec; [|discriminate].
  intros j Hj. unfold is_valid in Hj. apply flatnonzero_spec in Hj. rewrite Ec in Hj. exact Hj.
Qed.

Lemma too_few_points_raise pts rise run : (length pts < 2)%nat ->
  inflection_points ROps pts rise run = Raise IndexError /\ point_of_max_acceleration ROps pts rise run = Raise ValueError.
Proof.
  intros H. apply Nat.ltb_lt in H. unfold inflection_points, point_of_max_acceleration. rewrite H. split; reflexivity.
Qed.

(* ---- find_repeats / find_changes ---------------------------------------------------------------------------------- *)
Lemma zip_with_negb (l m : list R) : zip_with (nef ROps) l m = map negb (zip_with (eqf ROps) l m).
Proof. revert m; induction l as [|a l IH]; intros [|b m]; cbn; auto. rewrite IH. reflexivity. Qed.

Lemma adjacent_negb (l : list R) : adjacent (nef ROps) l = map negb (adjacent (eqf ROps) l).
Proof.
  induction l as [|a l IH]; [reflexivity|]. destruct l as [|b r]; [reflexivity|].
  cbn [adjacent map] in *. rewrite IH. reflexivity.
Qed.

(* find_changes is the pointwise negation of find_repeats: everywhere when wrapping, after the first entry
   (False in both) when not *)
Lemma find_changes_is_negation (arr : list R) :
  find_changes ROps arr true = map negb (find_repeats ROps arr true) /\
  tl (find_changes ROps arr false) = map negb (tl (find_repeats ROps arr false)) /\
  hd_error (find_changes ROps arr false) = Some false /\ hd_error (find_repeats ROps arr false) = Some false.
Proof.
  unfold find_changes, find_repeats. cbn [tl hd_error]. repeat split.
  - apply zip_with_negb.
  - apply adjacent_negb.
Qed.

Lemma zip_with_length (f : R -> R -> bool) l : forall m, length l = length m -> length (zip_with f l m) = length m.
Proof. induction l as [|a l IH]; intros [|b m] H; cbn in *; try discriminate; auto. Qed.

Lemma roll1_length (l : list R) : length (roll1 l) = length l.
Proof.
  unfold roll1. rewrite <- (rev_length l). destruct (rev l) as [|x r]; [reflexivity|].
  cbn. rewrite rev_length. reflexivity.
Qed.

Lemma adjacent_length (f : R -> R -> bool) l : length (adjacent f l) = pred (length l).
Proof.
  induction l as [|a l IH]; [reflexivity|]. destruct l as [|b r]; [reflexivity|].
  cbn [adjacent length] in *. rewrite IH. reflexivity.
Qed.

(* the output has the length of the input -- except for the empty array without wrap, where it is [False] *)
Lemma find_length (arr : list R) wrap : (wrap = true \/ arr <> []) ->
  length (find_repeats ROps arr wrap) = length arr /\ length (find_changes ROps arr wrap) = length arr.
Proof.
  intros H. unfold find_repeats, find_changes. destruct wrap.
  - split; apply zip_with_length; apply roll1_length.
  - destruct H as [H|H]; [discriminate|]. cbn [length]. rewrite !adjacent_length.
    destruct arr; [contradiction|]. split; reflexivity.
Qed.

Lemma find_empty_nowrap_is_longer :
  find_repeats ROps [] false = [false] /\ find_changes ROps [] false = [false].
Proof. split; reflexivity. Qed.

Lemma point_of_max_acceleration_none_iff pts rise run :
  (2 <= length pts)%nat -> monotone_b ROps (coords ROps pts run) = true ->
  (point_of_max_acceleration ROps pts rise run = Ok (Some None) <-> forall j, ~ is_valid pts rise run j).
Proof.
  intros Hn Hinc. split; [apply point_of_max_acceleration_none|].
  intros H. unfold point_of_max_acceleration. replace (Nat.ltb (length pts) 2) with false by (symmetry; apply Nat.ltb_ge; lia).
  rewrite Hinc. unfold max_acceleration_index, argmax_valid.
  destruct (flatnonzero (valid_mask ROps (fd1 ROps pts rise run))) as [|c cs] eqn:Ec; [reflexivity|].
  exfalso. apply (H c). unfold M_inflection.is_valid. apply flatnonzero_spec. rewrite Ec. left; reflexivity.
Qed.

Lemma find_length_not_preserved_for_empty : exists arr : list R, length (find_repeats ROps arr false) <> length arr.
Proof. exists []. rewrite (proj1 find_empty_nowrap_is_longer). discriminate. Qed.

(* soundness AND completeness of inflection_points on its domain, stated explicitly *)
Lemma inflection_points_spec pts rise run :
  (2 <= length pts)%nat -> monotone_b ROps (coords ROps pts run) = true ->
  exists idx, inflection_points ROps pts rise run = Ok (Some idx) /\ StronglySorted lt idx /\
    forall i, In i idx <->
      ((S i < length pts)%nat /\ at' (fd2 ROps pts rise run) i * at' (fd2 ROps pts rise run) (S i) <= 0).
Proof.
  intros Hn Hm. exists (inflection_indices ROps pts rise run).
  assert (E : inflection_points ROps pts rise run = Ok (Some (inflection_indices ROps pts rise run))).
  { unfold inflection_points. replace (Nat.ltb (length pts) 2) with false by (symmetry; apply Nat.ltb_ge; lia).
    rewrite Hm. reflexivity. }
  split; [exact E|]. destruct (inflection_points_sound _ _ _ _ E) as [Hs Hall]. split; [exact Hs|].
  intros i. split; [intros Hi; destruct (Hall i Hi) as [H1 [_ H2]]; auto|].
  intros [Hlt Hle]. unfold inflection_indices. apply flatnonzero_spec. unfold inflection_mask.
  rewrite nth_error_map_seq by (rewrite fd2_length; lia). f_equal. rewrite fd2_length.
  replace (Nat.ltb (S i) (length pts)) with true by (symmetry; apply Nat.ltb_lt; exact Hlt).
  rops. unfold n0; rops. apply Rleb_true. simpl. lra.
Qed.

(* a zig-zag with a non-empty answer (non-vacuity of the inflection theorems) *)
Lemma zig_monotone :
  monotone_b ROps (coords ROps [V3 0 0 0; V3 1 1 0; V3 2 0 0; V3 3 1 0] (V3 1 0 0)) = true.
Proof.
  unfold monotone_b. replace (increasing_b ROps (coords ROps [V3 0 0 0; V3 1 1 0; V3 2 0 0; V3 3 1 0] (V3 1 0 0))) with true;
    [reflexivity|].
  cbv [increasing_b coords map vdot vx vy vz]; rops.
  repeat (rewrite (proj2 (Rltb_true _ _)) by lra). reflexivity.
Qed.
Lemma zig_example : exists idx,
  inflection_points ROps [V3 0 0 0; V3 1 1 0; V3 2 0 0; V3 3 1 0] (V3 0 1 0) (V3 1 0 0) = Ok (Some idx) /\ In 1%nat idx.
Proof.
  destruct (inflection_points_spec [V3 0 0 0; V3 1 1 0; V3 2 0 0; V3 3 1 0] (V3 0 1 0) (V3 1 0 0)) as [idx [E [_ H]]];
    [cbn; lia|exact zig_monotone|].
  exists idx. split; [exact E|]. apply H. split; [cbn; lia|].
  cbv -[Rplus Rminus Rmult Rdiv Ropp Rinv Rle IZR]; rops. lra.
Qed.
