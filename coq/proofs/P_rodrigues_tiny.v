(* Real-number lemmas for M_rodrigues.v (C10): the `theta < eps` shortcut returns I; distance to the exact rotation. *)
From Coq Require Import ZArith Reals Lra Psatz List Bool Lia Nsatz.
From PW Require Import Num NumR Vec Mat Result.
From PW.model Require Import M_rodrigues M_rodrigues_spec.
From PW.proofs Require Import P_vec P_mat P_rodrigues P_rodrigues_inv.
Import ListNotations.
Local Open Scope R_scope.

(* 1 - cos t <= t^2 / 2 for 0 <= t <= 2 PI (from cos t = 1 - 2 sin^2 (t/2) and 0 <= sin h <= h) *)
Lemma one_minus_cos_le t : 0 <= t <= 1 -> 1 - cos t <= t * t / 2.
Proof.
  intros [H0 H1]. replace t with (2 * (t / 2)) at 1 by field. rewrite cos_2a_sin.
  set (h := t / 2). assert (Hh : 0 <= h <= 1) by (subst h; lra).
  assert (Hs0 : 0 <= sin h) by (apply sin_ge_0; pose proof PI2_1; lra).
  assert (Hs1 : sin h <= h).
  { destruct (Req_dec h 0) as [E|E]; [rewrite E, sin_0; lra|]. left. apply sin_lt_x. lra. }
  replace (t * t / 2) with (2 * (h * h)) by (subst h; field). nra.
Qed.

(* |R v - v|^2 = 2 (1 - c) (|v|^2 - (k.v)^2) for the Rodrigues matrix with unit axis k *)
Lemma rod_matrix_move2 c s k v : c * c + s * s = 1 -> vnorm2 ROps k = 1 ->
  vnorm2 ROps (vsub ROps (m3apply ROps (rod_matrix ROps c s k) v) v) =
  2 * (1 - c) * (vnorm2 ROps v - vdot ROps k v * vdot ROps k v).
Proof.
  destruct k as [x y z], v as [a b d]. intros Hcs Hk. vunf_in Hk. runf. nsatz.
Qed.

(* for 0 < |r| < eps the code returns I; the exact rotation by |r| about r/|r| moves no vector by more than |r| |v| *)
Lemma fwd_tiny_error_bound r v : 0 < vnorm ROps r < rod_eps ROps ->
  vnorm ROps (vsub ROps
     (m3apply ROps (rod_matrix ROps (cos (vnorm ROps r)) (sin (vnorm ROps r)) (rod_axis ROps r)) v)
     (m3apply ROps (rodrigues_fwd ROps r) v)) <= vnorm ROps r * vnorm ROps v.
Proof.
  intros [H0 He]. rewrite fwd_small by exact He. rewrite m3apply_I3.
  assert (Heps : rod_eps ROps < 1) by (unfold rod_eps, nfrac; rops; lra).
  pose proof (rod_axis_unit r H0) as Hk.
  set (t := vnorm ROps r) in *. set (k := rod_axis ROps r) in *. clearbody k.
  pose proof (one_minus_cos_le t ltac:(lra)) as Hc.
  pose proof (vnorm_nonneg v) as Hv. pose proof (vnorm_sq v) as Hv2.
  unfold vnorm at 1; rops. rewrite rod_matrix_move2 by (try exact Hk; apply sincos1).
  replace (t * vnorm ROps v) with (sqrt ((t * vnorm ROps v) * (t * vnorm ROps v)))
    by (apply sqrt_square; apply Rmult_le_pos; lra).
  apply sqrt_le_1_alt.
  assert (Hkv : 0 <= vdot ROps k v * vdot ROps k v) by nra.
  assert (Hperp : vnorm2 ROps v - vdot ROps k v * vdot ROps k v <= vnorm2 ROps v) by lra.
  assert (Hperp0 : 0 <= vnorm2 ROps v - vdot ROps k v * vdot ROps k v).
  { (* Cauchy-Schwarz with |k| = 1, via Lagrange: |k x v|^2 = |k|^2 |v|^2 - (k.v)^2 *)
    pose proof (vcross_norm2 k v) as L. rewrite Hk in L. pose proof (vnorm2_nonneg (vcross ROps k v)). lra. }
  assert (H1c : 0 <= 1 - cos t) by (pose proof (COS_bound t); lra).
  rewrite <- Hv2 in *. set (n := vnorm ROps v) in *. clearbody n t.
  set (p := n * n - vdot ROps k v * vdot ROps k v) in *. clearbody p.
  assert (2 * (1 - cos t) * p <= t * t * p) by (apply Rmult_le_compat_r; lra).
  assert (t * t * p <= t * t * (n * n)) by (apply Rmult_le_compat_l; nra).
  nra.
Qed.
