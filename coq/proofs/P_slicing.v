(* Real-number lemmas for M_slicing.v (C01, C02): signs and case split, crossing points, the per-face kernel. *)
From Coq Require Import ZArith Reals Lra Psatz List Bool Lia Arith.
From PW Require Import Num NumR Vec NpList Result.
From PW.model Require Import M_slicing M_slicing_spec.
From PW.proofs Require Import P_vec P_nplist.
Import ListNotations.
Local Open Scope R_scope.

(* ---- vertex classification ------------------------------------------------------------------------------- *)
Lemma vsign_range tol d : vsign ROps tol d = (-1)%Z \/ vsign ROps tol d = 0%Z \/ vsign ROps tol d = 1%Z.
Proof. unfold vsign; rops. destruct (Rltb tol d); auto. destruct (Rltb d (- tol)); auto. Qed.
Lemma vsign_front tol d : vsign ROps tol d = (-1)%Z <-> tol < d.
Proof.
  unfold vsign; rops. destruct (Rltb_spec tol d); [split; auto|].
  destruct (Rltb_spec d (- tol)); split; intros; try discriminate; lra.
Qed.
Lemma vsign_behind tol d : 0 <= tol -> (vsign ROps tol d = 1%Z <-> d < - tol).
Proof.
  intros Ht. unfold vsign; rops. destruct (Rltb_spec tol d); [split; intros; [discriminate|lra]|].
  destruct (Rltb_spec d (- tol)); split; intros; try discriminate; auto; lra.
Qed.
Lemma vsign_on tol d : 0 <= tol -> (vsign ROps tol d = 0%Z <-> - tol <= d <= tol).
Proof.
  intros Ht. unfold vsign; rops. destruct (Rltb_spec tol d); [split; intros; [discriminate|lra]|].
  destruct (Rltb_spec d (- tol)); split; intros; try discriminate; auto; lra.
Qed.

(* ---- snapping: a vertex closer to the plane than the tolerance counts as lying on it ------------------------- *)
Lemma snap_cases tol d : 0 <= tol ->
  (snap ROps tol d = 0 /\ - tol <= d <= tol) \/ (snap ROps tol d = d /\ (tol < d \/ d < - tol)).
Proof.
  intros Ht. unfold snap, n0; rops. destruct (Rleb_spec (Rabs d) tol) as [H|H].
  - left. split; [reflexivity|]. unfold Rabs in H. destruct (Rcase_abs d); lra.
  - right. split; [reflexivity|]. unfold Rabs in H. destruct (Rcase_abs d); lra.
Qed.
Lemma snap_range tol d : 0 <= tol -> snap ROps tol d = 0 \/ tol < snap ROps tol d \/ snap ROps tol d < - tol.
Proof. intros Ht. destruct (snap_cases tol d Ht) as [[-> _]|[-> [H|H]]]; auto. Qed.
Lemma snap_close tol d : 0 <= tol -> d - tol <= snap ROps tol d <= d + tol.
Proof. intros Ht. destruct (snap_cases tol d Ht) as [[-> H]|[-> _]]; lra. Qed.
Lemma snap_neg tol d : snap ROps tol (- d) = - snap ROps tol d.
Proof. unfold snap, n0; rops. rewrite Rabs_Ropp. destruct (Rleb (Rabs d) tol); lra. Qed.

(* ---- the 27 corner patterns ---------------------------------------------------------------------------------- *)

(* what the case split must be, pattern by pattern (code convention: -1 = in front, 0 = on, 1 = behind) *)

Lemma sign_cases : forallb (fun s => forallb (case_ok s) [true; false]) all_patterns = true.
Proof. vm_compute. reflexivity. Qed.

Lemma in_all_patterns a b c : In a sgn_vals -> In b sgn_vals -> In c sgn_vals -> In (a, b, c) all_patterns.
Proof.
  unfold sgn_vals. cbn [In]. intros [ <- | [ <- | [ <- | [] ] ] ] [ <- | [ <- | [ <- | [] ] ] ] [ <- | [ <- | [ <- | [] ] ] ]; vm_compute; tauto.
Qed.
Lemma vsign_in_vals tol d : In (vsign ROps tol d) sgn_vals.
Proof. destruct (vsign_range tol d) as [ -> | [ -> | -> ] ]; cbn; auto. Qed.
Lemma signs3_pattern tol ds : In (signs3 ROps tol ds) all_patterns.
Proof. unfold signs3. apply in_all_patterns; apply vsign_in_vals. Qed.
Lemma tri_signs_pattern tol n o t : In (tri_signs ROps tol n o t) all_patterns.
Proof. apply signs3_pattern. Qed.
Lemma case_ok_signs tol ds m : case_ok (signs3 ROps tol ds) m = true.
Proof.
  pose proof sign_cases as H. rewrite forallb_forall in H. specialize (H _ (signs3_pattern tol ds)).
  rewrite forallb_forall in H. apply H. destruct m; cbn; auto.
Qed.
Lemma sget_signs3 tol ds k : (k < 3)%nat -> sget (signs3 ROps tol ds) k = vsign ROps tol (dget ds k).
Proof. intros Hk. destruct k as [|[|[|k]]]; try lia; reflexivity. Qed.
Lemma dget_tri_dists tol n o t k : (k < 3)%nat ->
  dget (tri_dists ROps tol n o t) k = snap ROps tol (plane_dot ROps n o (tget t k)).
Proof. intros Hk. destruct k as [|[|[|k]]]; try lia; reflexivity. Qed.

(* ---- points on edges, barycentric combinations ------------------------------------------------------------ *)

Ltac dvec := repeat match goal with v : vec3 R |- _ => destruct v as [? ? ?] end.
Ltac tunf := unfold lerp, bary, tri_normal, plane_dot; cbn [tget fst snd]; vunf.

Lemma plane_dot_bary n o t w0 w1 w2 : w0 + w1 + w2 = 1 ->
  plane_dot ROps n o (bary t w0 w1 w2) =
  w0 * plane_dot ROps n o (tget t 0) + w1 * plane_dot ROps n o (tget t 1) + w2 * plane_dot ROps n o (tget t 2).
Proof.
  intros Hs. destruct t as [[a b] c]. dvec. tunf.
  replace w2 with (1 - w0 - w1) by lra. ring.
Qed.
Lemma plane_dot_lerp n o p q t :
  plane_dot ROps n o (lerp p q t) = plane_dot ROps n o p + t * (plane_dot ROps n o q - plane_dot ROps n o p).
Proof. dvec. tunf. ring. Qed.

(* the crossing point the code computes from the (snapped) distances a, b of the edge's ends (denominator not patched):
   the point of the edge's line with parameter a / (a - b), where the interpolated distance vanishes *)
Lemma int_point_lerp eps a b p q : a <> b -> int_point ROps eps a b p q = lerp p q (a / (a - b)).
Proof.
  intros Hne. dvec. unfold int_point. tunf.
  match goal with |- context [Reqb ?x ?y] => destruct (Reqb_spec x y) as [E|E] end.
  - exfalso. apply Hne. lra.
  - apply V3_ext; field; repeat split; intros E'; first [apply Hne; lra | apply E; lra].
Qed.
Lemma crossing_param_zero a b : a <> b -> a + a / (a - b) * (b - a) = 0.
Proof. intros H. field. intros E. apply H. lra. Qed.
(* when neither end was snapped the new vertex lies exactly on the plane *)
Lemma lerp_on_plane n o p q : plane_dot ROps n o p <> plane_dot ROps n o q ->
  plane_dot ROps n o (lerp p q (plane_dot ROps n o p / (plane_dot ROps n o p - plane_dot ROps n o q))) = 0.
Proof. intros H. rewrite plane_dot_lerp. field. lra. Qed.
