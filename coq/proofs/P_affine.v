(* Real-number lemmas for M_affine.v (C11, reused by C03/C04). *)
From Coq Require Import ZArith Reals Lra Psatz List Bool Lia Nsatz.
From PW Require Import Num NumR Vec Mat NpList Result.
From PW.model Require Import M_rodrigues M_affine M_rotation.
From PW.model Require Export M_affine_spec.
From PW.proofs Require Import P_vec P_mat P_nplist.
Import ListNotations.
Local Open Scope R_scope.

Lemma vnorm_zero : vnorm ROps (V3 0 0 0) = 0.
Proof. unfold vnorm, vnorm2; vunf. replace (0 * 0 + 0 * 0 + 0 * 0) with 0 by ring. apply sqrt_0. Qed.
Lemma vnorm_zero_iff a : vnorm ROps a = 0 <-> a = V3 0 0 0.
Proof.
  split; [|intros ->; apply vnorm_zero]. intros H. apply vnorm2_zero. rewrite <- vnorm_sq, H. ring.
Qed.


Lemma last_row_affine m : last_row_0001 m <-> affine ROps m.
Proof. unfold last_row_0001, affine, n0, n1; rops. tauto. Qed.

Ltac aunf := cbv [tm_rotation tm_translation convert_33_to_44 rotation3 apply_point apply_single apply_stack
  out_row hom_w fst snd last_row_0001 inverse_pair].

(* ---------------- _convert_33_to_44 ---------------- *)
Lemma convert_last_row r : last_row_0001 (convert_33_to_44 ROps r).
Proof. dm3 r. aunf. munf. repeat split; reflexivity. Qed.
Lemma convert_block r : mupper3 (convert_33_to_44 ROps r) = r.
Proof. dm3 r. reflexivity. Qed.
Lemma convert_acts r p : mapply_pt ROps (convert_33_to_44 ROps r) p = m3apply ROps r p.
Proof. dm3 r; dv p. aunf. apply V3_inj; munf; ring. Qed.
Lemma convert_acts_vec r p : mapply_vec ROps (convert_33_to_44 ROps r) p = m3apply ROps r p.
Proof. dm3 r; dv p. aunf. apply V3_inj; munf; ring. Qed.
Lemma convert_last_column r :
  m03 (convert_33_to_44 ROps r) = 0 /\ m13 (convert_33_to_44 ROps r) = 0 /\ m23 (convert_33_to_44 ROps r) = 0.
Proof. dm3 r. aunf. munf. repeat split; reflexivity. Qed.

(* ---------------- rotation ---------------- *)
Lemma tm_rotation_last_row a :
  last_row_0001 (fst (tm_rotation ROps a)) /\ last_row_0001 (snd (tm_rotation ROps a)).
Proof.
  unfold tm_rotation. cbn [fst snd]. generalize (rotation3 ROps a); intros r. dm3 r.
  aunf; munf. repeat split; reflexivity.
Qed.
Lemma tm_rotation_acts a p :
  mapply_pt ROps (fst (tm_rotation ROps a)) p = m3apply ROps (rotation3 ROps a) p.
Proof. unfold tm_rotation; cbn [fst]. apply convert_acts. Qed.
Lemma tm_rotation_inverse_acts a p :
  mapply_pt ROps (snd (tm_rotation ROps a)) p = m3apply ROps (m3transpose (rotation3 ROps a)) p.
Proof.
  unfold tm_rotation; cbn [snd]. generalize (rotation3 ROps a); intros r. dm3 r; dv p.
  aunf. apply V3_inj; munf; ring.
Qed.
Lemma rot44_inverse r : orthogonal3 r ->
  inverse_pair (convert_33_to_44 ROps r) (mtranspose (convert_33_to_44 ROps r)).
Proof.
  intros H. pose proof (m3_left_inv_right_inv r H) as H'. unfold orthogonal3 in H.
  destruct r as [a b c d e f g h i].
  munf_in H. injection H as H1 H2 H3 H4 H5 H6 H7 H8 H9.
  munf_in H'. injection H' as G1 G2 G3 G4 G5 G6 G7 G8 G9.
  split; aunf; mat_eq; first [ring | lra].
Qed.
Lemma tm_rotation_inverse a : orthogonal3 (rotation3 ROps a) ->
  inverse_pair (fst (tm_rotation ROps a)) (snd (tm_rotation ROps a)).
Proof. intros H. unfold tm_rotation; cbn [fst snd]. apply rot44_inverse, H. Qed.
(* a rotation matrix given explicitly is used as it is *)
Lemma tm_rotation_matrix_block m : mupper3 (fst (tm_rotation ROps (RotMat m))) = m.
Proof. dm3 m. reflexivity. Qed.

(* ---------------- translation ---------------- *)
Lemma tm_translation_last_row t :
  last_row_0001 (fst (tm_translation ROps t)) /\ last_row_0001 (snd (tm_translation ROps t)).
Proof. dv t. aunf; munf. repeat split; reflexivity. Qed.
Lemma tm_translation_acts t p : mapply_pt ROps (fst (tm_translation ROps t)) p = vadd ROps p t.
Proof. dv t; dv p. aunf. apply V3_inj; munf; ring. Qed.
Lemma tm_translation_inverse_acts t p : mapply_pt ROps (snd (tm_translation ROps t)) p = vsub ROps p t.
Proof. dv t; dv p. aunf. apply V3_inj; munf; ring. Qed.
Lemma tm_translation_vec t v :
  mapply_vec ROps (fst (tm_translation ROps t)) v = v /\ mapply_vec ROps (snd (tm_translation ROps t)) v = v.
Proof. dv t; dv v. aunf. split; apply V3_inj; munf; ring. Qed.
Lemma tm_translation_inverse t : inverse_pair (fst (tm_translation ROps t)) (snd (tm_translation ROps t)).
Proof. dv t. aunf. split; mat_eq; ring. Qed.


Lemma tm_nus_accepts x y z allow : scale_accepted x y z allow ->
  tm_non_uniform_scale ROps x y z allow = Ok (scale_fwd x y z, scale_fwd (1 / x) (1 / y) (1 / z)).
Proof.
  intros (Hx & Hy & Hz & H). unfold tm_non_uniform_scale, n0, n1; rops.
  rewrite (proj2 (Reqb_false x 0) Hx), (proj2 (Reqb_false y 0) Hy), (proj2 (Reqb_false z 0) Hz).
  cbn [orb]. destruct H as [-> | (Px & Py & Pz)]; cbn [negb andb].
  - reflexivity.
  - rewrite (proj2 (Rltb_false x 0)), (proj2 (Rltb_false y 0)), (proj2 (Rltb_false z 0)) by lra.
    rewrite andb_false_r. reflexivity.
Qed.
Lemma tm_nus_rejects_zero x y z allow : x = 0 \/ y = 0 \/ z = 0 ->
  tm_non_uniform_scale ROps x y z allow = Raise ValueError.
Proof.
  intros H. unfold tm_non_uniform_scale, n0; rops.
  destruct (Reqb_spec x 0); [reflexivity|]. destruct (Reqb_spec y 0); [reflexivity|].
  destruct (Reqb_spec z 0); [reflexivity|]. exfalso; tauto.
Qed.
Lemma tm_nus_rejects_negative x y z : x < 0 \/ y < 0 \/ z < 0 ->
  tm_non_uniform_scale ROps x y z false = Raise ValueError.
Proof.
  intros H. unfold tm_non_uniform_scale, n0; rops.
  destruct (Reqb x 0 || Reqb y 0 || Reqb z 0); [reflexivity|]. cbn [negb andb].
  destruct (Rltb_spec x 0); [reflexivity|]. destruct (Rltb_spec y 0); [reflexivity|].
  destruct (Rltb_spec z 0); [reflexivity|]. exfalso; lra.
Qed.
(* complete characterisation of the outcome *)
Lemma tm_nus_outcome x y z allow :
  (scale_accepted x y z allow /\
   tm_non_uniform_scale ROps x y z allow = Ok (scale_fwd x y z, scale_fwd (1 / x) (1 / y) (1 / z))) \/
  (~ scale_accepted x y z allow /\ tm_non_uniform_scale ROps x y z allow = Raise ValueError).
Proof.
  destruct (Req_dec x 0) as [Hx|Hx]; [right; split; [unfold scale_accepted; tauto | apply tm_nus_rejects_zero; tauto]|].
  destruct (Req_dec y 0) as [Hy|Hy]; [right; split; [unfold scale_accepted; tauto | apply tm_nus_rejects_zero; tauto]|].
  destruct (Req_dec z 0) as [Hz|Hz]; [right; split; [unfold scale_accepted; tauto | apply tm_nus_rejects_zero; tauto]|].
  destruct allow.
  - left. assert (A : scale_accepted x y z true) by (unfold scale_accepted; tauto). split; [exact A | apply tm_nus_accepts, A].
  - destruct (Rlt_dec x 0); [right; split; [unfold scale_accepted; intros (_ & _ & _ & [E|E]); [discriminate | lra] | apply tm_nus_rejects_negative; tauto]|].
    destruct (Rlt_dec y 0); [right; split; [unfold scale_accepted; intros (_ & _ & _ & [E|E]); [discriminate | lra] | apply tm_nus_rejects_negative; tauto]|].
    destruct (Rlt_dec z 0); [right; split; [unfold scale_accepted; intros (_ & _ & _ & [E|E]); [discriminate | lra] | apply tm_nus_rejects_negative; tauto]|].
    left. assert (A : scale_accepted x y z false) by (unfold scale_accepted; repeat split; try assumption; right; lra).
    split; [exact A | apply tm_nus_accepts, A].
Qed.

Lemma scale_fwd_last_row x y z : last_row_0001 (scale_fwd x y z).
Proof. apply convert_last_row. Qed.
Lemma scale_fwd_acts x y z p : mapply_pt ROps (scale_fwd x y z) p = vmul ROps (V3 x y z) p.
Proof. dv p. unfold scale_fwd. aunf. apply V3_inj; munf; ring. Qed.
Lemma scale_fwd_acts_vec x y z p : mapply_vec ROps (scale_fwd x y z) p = vmul ROps (V3 x y z) p.
Proof. dv p. unfold scale_fwd. aunf. apply V3_inj; munf; ring. Qed.
Lemma scale_inverse x y z : x <> 0 -> y <> 0 -> z <> 0 ->
  inverse_pair (scale_fwd x y z) (scale_fwd (1 / x) (1 / y) (1 / z)).
Proof. intros Hx Hy Hz. unfold scale_fwd. aunf. split; mat_eq; field; assumption. Qed.

Lemma tm_us_unfold s allow : tm_uniform_scale ROps s allow = tm_non_uniform_scale ROps s s s allow.
Proof.
  unfold tm_uniform_scale, n0; rops. destruct (Reqb_spec s 0) as [E|E].
  - symmetry. apply tm_nus_rejects_zero; tauto.
  - destruct allow; cbn [negb andb]; [reflexivity|]. destruct (Rltb_spec s 0); [|reflexivity].
    symmetry. apply tm_nus_rejects_negative; tauto.
Qed.

(* ---------------- apply_transform ---------------- *)
Lemma apply_point_formula m w x y z :
  apply_point ROps m w (V3 x y z) =
  let h := if w then 0 else 1 in
  V3 (m00 m * x + m01 m * y + m02 m * z + m03 m * h)
     (m10 m * x + m11 m * y + m12 m * z + m13 m * h)
     (m20 m * x + m21 m * y + m22 m * z + m23 m * h).
Proof. destruct w; reflexivity. Qed.
Lemma apply_point_pt m p : apply_point ROps m false p = mapply_pt ROps m p.
Proof. reflexivity. Qed.
Lemma apply_point_vec m p : apply_point ROps m true p = mapply_vec ROps m p.
Proof. reflexivity. Qed.
(* with w = 0 the translation column is not used: only the upper-left block acts *)
Lemma apply_vector_is_block m p : apply_point ROps m true p = m3apply ROps (mupper3 m) p.
Proof. dm m; dv p. aunf. apply V3_inj; munf; ring. Qed.
Lemma apply_stack_nth m d w ps k :
  nth_error (apply_stack ROps m d w ps) k = option_map (apply_single ROps m d w) (nth_error ps k).
Proof. unfold apply_stack. apply nth_error_map. Qed.
Lemma apply_stack_length m d w ps : length (apply_stack ROps m d w ps) = length ps.
Proof. unfold apply_stack. apply map_length. Qed.
Lemma apply_discard_z m w p :
  apply_single ROps m true w p = firstn 2 (apply_single ROps m false w p) /\
  apply_single ROps m false w p = vlist (apply_point ROps m w p).
Proof. split; reflexivity. Qed.

(* ---------------- compose_transforms ---------------- *)
(* t_n . ... . t_2 . t_1 *)
Fixpoint cprod (ms : list (mat4 R)) : mat4 R :=
  match ms with [] => I4 ROps | m :: r => mmul ROps (cprod r) m end.
Fixpoint rprod (ms : list (mat4 R)) : mat4 R :=
  match ms with [] => I4 ROps | m :: r => mmul ROps m (rprod r) end.

Lemma fold_mmul l : forall a, fold_left (mmul ROps) l a = mmul ROps a (rprod l).
Proof.
  induction l as [|x l IH]; intros a; cbn [fold_left rprod].
  - symmetry; apply mmul_I4_r.
  - rewrite IH. apply mmul_assoc.
Qed.
Lemma rprod_snoc l m : rprod (l ++ [m]) = mmul ROps (rprod l) m.
Proof.
  induction l as [|x l IH]; cbn [app rprod].
  - rewrite mmul_I4_r, mmul_I4_l. reflexivity.
  - rewrite IH. symmetry. apply mmul_assoc.
Qed.
Lemma rprod_rev ms : rprod (rev ms) = cprod ms.
Proof.
  induction ms as [|m ms IH]; cbn [rev cprod]; [reflexivity|]. rewrite rprod_snoc, IH. reflexivity.
Qed.
Lemma compose_cprod ms : compose_transforms ROps ms = cprod ms.
Proof.
  unfold compose_transforms. rewrite <- rprod_rev. destruct (rev ms) as [|m r]; [reflexivity|].
  rewrite fold_mmul. reflexivity.
Qed.
Lemma cprod_app a b : cprod (a ++ b) = mmul ROps (cprod b) (cprod a).
Proof.
  induction a as [|m a IH]; cbn [app cprod].
  - symmetry; apply mmul_I4_r.
  - rewrite IH. apply mmul_assoc.
Qed.
Lemma compose_nil : compose_transforms ROps [] = I4 ROps.
Proof. reflexivity. Qed.
Lemma compose_one m : compose_transforms ROps [m] = m.
Proof. reflexivity. Qed.
Lemma compose_two a b : compose_transforms ROps [a; b] = mmul ROps b a.
Proof. reflexivity. Qed.
Lemma compose_app a b :
  compose_transforms ROps (a ++ b) = mmul ROps (compose_transforms ROps b) (compose_transforms ROps a).
Proof. rewrite !compose_cprod. apply cprod_app. Qed.

Lemma cprod_affine ms : Forall (affine ROps) ms -> affine ROps (cprod ms).
Proof.
  induction 1 as [|m ms Hm _ IH]; cbn [cprod]; [apply affine_I4 | apply affine_mmul; assumption].
Qed.
Lemma compose_affine ms : Forall (affine ROps) ms -> affine ROps (compose_transforms ROps ms).
Proof. rewrite compose_cprod. apply cprod_affine. Qed.

(* applying compose(t1 .. tn) = applying t1, then t2, ... then tn *)
Lemma cprod_left_to_right ms : Forall (affine ROps) ms -> forall p,
  mapply_pt ROps (cprod ms) p = fold_left (fun q m => mapply_pt ROps m q) ms p.
Proof.
  induction 1 as [|m ms Hm _ IH]; intros p; cbn [cprod fold_left].
  - apply mapply_pt_I4.
  - rewrite mapply_pt_mmul by exact Hm. apply IH.
Qed.
Lemma compose_left_to_right ms p : Forall (affine ROps) ms ->
  mapply_pt ROps (compose_transforms ROps ms) p = fold_left (fun q m => mapply_pt ROps m q) ms p.
Proof. intros H. rewrite compose_cprod. apply cprod_left_to_right, H. Qed.
Lemma mapply_vec_I4 p : mapply_vec ROps (I4 ROps) p = p.
Proof. dv p. apply V3_inj; munf; ring. Qed.
Lemma cprod_left_to_right_vec ms : Forall (affine ROps) ms -> forall p,
  mapply_vec ROps (cprod ms) p = fold_left (fun q m => mapply_vec ROps m q) ms p.
Proof.
  induction 1 as [|m ms Hm _ IH]; intros p; cbn [cprod fold_left].
  - apply mapply_vec_I4.
  - destruct Hm as (H0 & H1 & H2 & _). rewrite mapply_vec_mmul by assumption. apply IH.
Qed.
Lemma compose_left_to_right_vec ms p : Forall (affine ROps) ms ->
  mapply_vec ROps (compose_transforms ROps ms) p = fold_left (fun q m => mapply_vec ROps m q) ms p.
Proof. intros H. rewrite compose_cprod. apply cprod_left_to_right_vec, H. Qed.

(* ---------------- Rodrigues vectors give orthogonal matrices (own proof; C10 has the full theory) ------------- *)
Lemma rod_matrix_orthogonal c s k : c * c + s * s = 1 -> vnorm2 ROps k = 1 ->
  orthogonal3 (rod_matrix ROps c s k).
Proof.
  dv k. intros Hcs Hk. vunf_in Hk. unfold orthogonal3, rod_matrix, m3add, m3scale, m3outer, m3skew.
  mat3_eq; nsatz.
Qed.
Lemma rodrigues_fwd_orthogonal r : orthogonal3 (rodrigues_fwd ROps r).
Proof.
  unfold rodrigues_fwd, rod_theta, rod_eps, nfrac; rops.
  destruct (Rltb_spec (vnorm ROps r) (1 / 4503599627370496)) as [Hlt|Hge].
  - unfold orthogonal3. mat3_eq; ring.
  - assert (Hr : r <> V3 0 0 0).
    { intros ->. rewrite vnorm_zero in Hge. lra. }
    apply rod_matrix_orthogonal.
    + pose proof (sin2_cos2 (vnorm ROps r)) as H. unfold Rsqr in H. lra.
    + unfold rod_axis, rod_theta, n1; rops. pose proof (vnorm_pos r Hr) as Hp. pose proof (vnorm_sq r) as Hs.
      set (n := vnorm ROps r) in *. clearbody n. dv r. vunf_in Hs. vunf.
      replace (1 / n * x * (1 / n * x) + 1 / n * x0 * (1 / n * x0) + 1 / n * x1 * (1 / n * x1))
        with ((x * x + x0 * x0 + x1 * x1) / (n * n)) by (field; lra).
      rewrite <- Hs. field; lra.
Qed.

(* ---------------- compose: what is really needed, and what fails without it ---------------- *)
(* only the matrices that are followed by another one have to be affine: the last one may be anything *)
Lemma compose_left_to_right_butlast ms p : Forall (affine ROps) (removelast ms) ->
  mapply_pt ROps (compose_transforms ROps ms) p = fold_left (fun q m => mapply_pt ROps m q) ms p.
Proof.
  rewrite compose_cprod. induction ms as [|x l _] using rev_ind; [intros _; apply mapply_pt_I4|].
  rewrite removelast_last. intros H. rewrite cprod_app, fold_left_app. cbn [fold_left cprod].
  rewrite mmul_I4_l, mapply_pt_mmul by (apply cprod_affine, H). f_equal. apply cprod_left_to_right, H.
Qed.
Lemma compose_projective_counterexample :
  mapply_pt ROps (compose_transforms ROps [proj_witness_a; proj_witness_b]) (V3 1 0 0) = V3 3 0 0 /\
  mapply_pt ROps proj_witness_b (mapply_pt ROps proj_witness_a (V3 1 0 0)) = V3 2 0 0.
Proof. split; apply V3_inj; cbv [compose_transforms rev app fold_left proj_witness_a proj_witness_b]; munf; ring. Qed.
Lemma compose_projective_refuted : exists a b p,
  mapply_pt ROps (compose_transforms ROps [a; b]) p <> mapply_pt ROps b (mapply_pt ROps a p).
Proof.
  exists proj_witness_a, proj_witness_b, (V3 1 0 0). destruct compose_projective_counterexample as [-> ->].
  intros H. injection H as H. lra.
Qed.
(* the same for vectors (w = 0) *)
Lemma compose_left_to_right_vec_butlast ms p : Forall (affine ROps) (removelast ms) ->
  mapply_vec ROps (compose_transforms ROps ms) p = fold_left (fun q m => mapply_vec ROps m q) ms p.
Proof.
  rewrite compose_cprod. induction ms as [|x l _] using rev_ind; [intros _; apply mapply_vec_I4|].
  rewrite removelast_last. intros H. rewrite cprod_app, fold_left_app. cbn [fold_left cprod].
  pose proof (cprod_affine l H) as (A0 & A1 & A2 & _).
  rewrite mmul_I4_l, mapply_vec_mmul by assumption. f_equal. apply cprod_left_to_right_vec, H.
Qed.
