(* Real-number lemmas for M_rodrigues.v (C10): exact half-turns (the octant logic of the s < 1e-5, c <= 0 branch). *)
From Coq Require Import ZArith Reals Lra Psatz List Bool Lia Nsatz.
From PW Require Import Num NumR Vec Mat NpList Result.
From PW.model Require Import M_rodrigues M_rodrigues_spec.
From PW.proofs Require Import P_vec P_mat P_rodrigues P_rodrigues_inv P_rodrigues_jac P_rodrigues_rt.
Import ListNotations.
Local Open Scope R_scope.

Lemma diag_root_half x : x * x <= 1 -> rod_diag_root ROps (2 * (x * x) + -1 * 1) = Rabs x.
Proof.
  intros _. unfold rod_diag_root, rod_half, nfrac, nmax, n0, n1; rops.
  replace ((2 * (x * x) + -1 * 1 + 1) * (1 / 2)) with (x * x) by field.
  destruct (Rleb_spec (x * x) 0).
  - assert (x = 0) by nra. subst. rewrite Rabs_R0. apply sqrt_0.
  - replace (x * x) with (Rsqr x) by reflexivity. apply sqrt_Rsqr_abs.
Qed.

(* the sign logic: the recovered axis q agrees with k up to a global sign: q q^T = k k^T *)
Lemma half_axis_outer x y z : x * x + y * y + z * z = 1 ->
  let q := rod_half_axis ROps (half_turn (V3 x y z)) in
  m3outer ROps q = m3outer ROps (V3 x y z).
Proof.
  intros Hk q. subst q. unfold rod_half_axis, half_turn.
  cbv [m3add m3scale m3outer I3 a00 a01 a02 a10 a11 a12 a20 a21 a22 vx vy vz n0 n1]; rops.
  rewrite !Rmult_0_r, !Rplus_0_r.
  rewrite (diag_root_half x), (diag_root_half y), (diag_root_half z) by nra.
  destruct (Rltb_spec (2 * (y * x) + 2 * (x * y)) 0); destruct (Rltb_spec (2 * (z * x) + 2 * (x * z)) 0);
  destruct (Rltb_spec 0 (2 * (z * y) + 2 * (y * z)));
  destruct (Rtotal_order x 0) as [Hx|[Hx|Hx]]; destruct (Rtotal_order y 0) as [Hy|[Hy|Hy]];
  destruct (Rtotal_order z 0) as [Hz|[Hz|Hz]]; subst; try (exfalso; nra);
  repeat (first [ progress (repeat match goal with
            | |- context [Rabs ?a] => first [rewrite (Rabs_pos_eq a) by lra | rewrite (Rabs_left a) by lra | rewrite Rabs_R0]
            end)
          | match goal with |- context [Rltb ?a ?b] => destruct (Rltb_spec a b); try (exfalso; nra) end ]);
  cbn [andb negb Bool.eqb]; try (apply M3_inj; cbn [a00 a01 a02 a10 a11 a12 a20 a21 a22 vx vy vz]; ring).
  all: try (exfalso; nra).
Qed.

Lemma half_turn_proper x y z : x * x + y * y + z * z = 1 -> proper (half_turn (V3 x y z)).
Proof.
  intros Hk. unfold half_turn. repeat split.
  - apply M3_inj; runf; nsatz.
  - apply M3_inj; runf; nsatz.
  - runf; nsatz.
Qed.

Lemma outer_trace (q : vec3 R) : a00 (m3outer ROps q) + a11 (m3outer ROps q) + a22 (m3outer ROps q) = vnorm2 ROps q.
Proof. destruct q; runf. ring. Qed.

Lemma acos_m1 : acos (-1) = PI.
Proof. replace (-1) with (- (1)) by lra. rewrite acos_opp, acos_1. ring. Qed.

Lemma half_turn_roundtrip proj x y z : proj_ok proj -> x * x + y * y + z * z = 1 ->
  exists v, rodrigues_inv ROps proj (half_turn (V3 x y z)) = Some v /\
            vnorm ROps v = PI /\ rodrigues_fwd ROps v = half_turn (V3 x y z).
Proof.
  intros Hp Hk. pose proof rod_small_pos as Hsm. pose proof PI_RGT_0 as Hpi. pose proof PI_4 as Hpi4.
  pose proof (half_axis_outer x y z Hk) as Hq. cbv zeta in Hq.
  set (m := half_turn (V3 x y z)) in *. set (q := rod_half_axis ROps m) in *.
  assert (Hq1 : vnorm2 ROps q = 1).
  { rewrite <- outer_trace, Hq. runf. lra. }
  assert (Hn : vnorm ROps q = 1) by (apply vnorm_unit, Hq1).
  exists (vscale ROps PI q).
  assert (Hnv : vnorm ROps (vscale ROps PI q) = PI) by (rewrite vnorm_vscale, Hn, Rabs_pos_eq by lra; ring).
  split; [|split; [exact Hnv|]].
  - unfold rodrigues_inv. destruct (half_turn_proper x y z Hk) as (Ho & _). rewrite (Hp m Ho).
    unfold rodrigues_inv_of_proj, rod_inv_theta.
    assert (Hs : rod_inv_s ROps m = 0) by (apply rod_inv_s_sym; subst m; unfold half_turn; runf; ring).
    assert (Hc : rod_inv_c ROps m = -1).
    { apply rod_inv_c_eq; [|lra]. subst m; unfold half_turn; runf. lra. }
    rewrite Hs, Hc. change (nltb ROps) with Rltb. change (neqb ROps) with Reqb. fold q.
    rewrite (proj2 (Rltb_true _ _)) by lra.
    rewrite (proj2 (Rltb_false _ _)) by (unfold n0; rops; lra).
    rewrite (proj2 (Reqb_false _ _)) by (rewrite Hn; unfold n0; rops; lra).
    rewrite Hn. change (nacos ROps (-1)) with (acos (-1)). rewrite acos_m1.
    replace (ndiv ROps PI 1) with PI by (change (ndiv ROps PI 1) with (PI / 1); field). reflexivity.
  - pose proof rod_eps_lt_small. assert (rod_small ROps < 1) by apply rod_small_lt_1. pose proof PI2_1.
    rewrite fwd_generic by (rewrite Hnv; lra). rewrite Hnv, cos_PI, sin_PI.
    assert (Hax : rod_axis ROps (vscale ROps PI q) = q).
    { unfold rod_axis, rod_theta. rewrite Hnv. destruct q as [a b c]. apply V3_inj; vunf; field; lra. }
    rewrite Hax. subst m. unfold half_turn. rewrite <- Hq.
    clearbody q. destruct q as [qa qb qc]. apply M3_inj; runf; ring.
Qed.

Lemma half_turn_roundtrip_vec proj (k : vec3 R) : proj_ok proj -> vnorm2 ROps k = 1 ->
  let Rm := m3add ROps (m3scale ROps 2 (m3outer ROps k)) (m3scale ROps (-1) (I3 ROps)) in
  exists v, rodrigues_inv ROps proj Rm = Some v /\ vnorm ROps v = PI /\ rodrigues_fwd ROps v = Rm.
Proof.
  intros Hp Hk. destruct k as [x y z]. vunf_in Hk. exact (half_turn_roundtrip proj x y z Hp Hk).
Qed.
