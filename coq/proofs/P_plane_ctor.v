(* Real-number lemmas for M_plane_ctor.v (C13). *)
From Coq Require Import ZArith Reals Lra Psatz List Bool Lia Nsatz.
From PW Require Import Num NumR Vec Mat NpList Result.
From PW.model Require Import M_plane M_plane_ctor.
From PW.proofs Require Import P_vec P_plane.
Import ListNotations.
Local Open Scope R_scope.

(* ---- the constructor --------------------------------------------------------------------------- *)
Definition atol_of_decimals (d : nat) : R := (1 / 10) ^ d.

Lemma ctor_accepts_iff atol ref n :
  (Rabs (vnorm ROps n - 1) <= atol -> plane_ctor ROps atol ref n = Ok (MkPlane ref n)) /\
  (atol < Rabs (vnorm ROps n - 1) -> plane_ctor ROps atol ref n = Raise ValueError).
Proof.
  unfold plane_ctor, almost_unit_length, n1. rops. split; intros H.
  - destruct (Rleb_spec (Rabs (vnorm ROps n - 1)) atol); [reflexivity|lra].
  - destruct (Rleb_spec (Rabs (vnorm ROps n - 1)) atol); [lra|reflexivity].
Qed.

(* the tolerance of the default six decimals is binary64's 0.1 ** 6, within 1e-21 of 10^-6 *)
Lemma default_atol_value : Rabs (default_atol ROps - atol_of_decimals 6) <= 1 / 10 ^ 21 /\ 0 < default_atol ROps.
Proof.
  unfold default_atol, nfrac, atol_of_decimals. rops.
  replace (2 ^ 72)%Z with 4722366482869645213696%Z by reflexivity.
  split; [apply Rabs_le; split; lra|lra].
Qed.

Lemma vnorm_of_unit v : vnorm2 ROps v = 1 -> vnorm ROps v = 1.
Proof. intros H. unfold vnorm. rops. rewrite H. apply sqrt_1. Qed.

Lemma ctor_unit atol ref n : 0 <= atol -> vnorm2 ROps n = 1 -> plane_ctor ROps atol ref n = Ok (MkPlane ref n).
Proof.
  intros Ha Hn. apply ctor_accepts_iff. rewrite (vnorm_of_unit _ Hn).
  replace (1 - 1) with 0 by ring. rewrite Rabs_R0. exact Ha.
Qed.

Lemma normalize_opt_some v : v <> V3 0 0 0 -> normalize_opt ROps v = Some (vnormalize ROps v).
Proof.
  intros H. unfold normalize_opt, n0. rops. pose proof (vnorm_pos v H).
  destruct (Reqb_spec (vnorm ROps v) 0); [lra|reflexivity].
Qed.
Lemma normalize_opt_zero : normalize_opt ROps (V3 0 0 0) = None.
Proof.
  unfold normalize_opt, n0, vnorm, vnorm2, vdot. rops. cbn [vx vy vz].
  replace (0 * 0 + 0 * 0 + 0 * 0) with 0 by ring. rewrite sqrt_0.
  destruct (Reqb_spec 0 0); [reflexivity|congruence].
Qed.

Lemma normalised_is_unit atol ref n : 0 <= atol -> n <> V3 0 0 0 ->
  from_point_and_normal ROps atol ref n = Ok (MkPlane ref (vnormalize ROps n)) /\
  unit_normal (MkPlane ref (vnormalize ROps n)) /\
  vscale ROps (vnorm ROps n) (vnormalize ROps n) = n /\ 0 < vnorm ROps n.
Proof.
  intros Ha Hn. unfold from_point_and_normal. rewrite normalize_opt_some by assumption. cbn [ctor_opt].
  pose proof (vnormalize_unit n Hn) as Hu. repeat split.
  - apply ctor_unit; assumption.
  - exact Hu.
  - apply vnormalize_scale; assumption.
  - apply vnorm_pos; assumption.
Qed.
Lemma zero_normal_refused atol ref : from_point_and_normal ROps atol ref (V3 0 0 0) = Raise ValueError.
Proof. unfold from_point_and_normal. rewrite normalize_opt_zero. reflexivity. Qed.

(* signed distance to a plane whose normal is a normalised vector *)
Lemma sd_normalized ref v p : v <> V3 0 0 0 ->
  plane_sd ROps (MkPlane ref (vnormalize ROps v)) p = vdot ROps (vsub ROps p ref) v / vnorm ROps v.
Proof.
  intros H. pose proof (vnorm_pos v H) as Hp. rewrite sd_is_dot. cbn [pref pnormal].
  unfold vnormalize. set (k := vnorm ROps v) in *. clearbody k.
  destruct v as [a b c], p as [x y z], ref as [rx ry rz]. vunf. field. lra.
Qed.

(* ---- from_points ---------------------------------------------------------------------------------- *)
Lemma from_points_contains_and_ccw p1 p2 p3 : tri_cross ROps p1 p2 p3 <> V3 0 0 0 ->
  exists pl, from_points ROps p1 p2 p3 = Ok pl /\ pref pl = p1 /\ unit_normal pl /\
    plane_sd ROps pl p1 = 0 /\ plane_sd ROps pl p2 = 0 /\ plane_sd ROps pl p3 = 0 /\
    0 < vdot ROps (pnormal pl) (tri_cross ROps p1 p2 p3).
Proof.
  intros H. set (cr := tri_cross ROps p1 p2 p3) in *.
  exists (MkPlane p1 (vnormalize ROps cr)). pose proof (vnorm_pos cr H) as Hp.
  split; [|split; [reflexivity|split; [apply vnormalize_unit; exact H|]]].
  - unfold from_points, plane_normal_from_points. fold cr. rewrite normalize_opt_some by exact H. cbn [ctor_opt].
    apply ctor_unit; [apply Rlt_le, default_atol_value|apply vnormalize_unit; exact H].
  - rewrite !sd_normalized by exact H. repeat split.
    + replace (vdot ROps (vsub ROps p1 p1) cr) with 0; [field; lra|]. destruct p1, cr. vunf. ring.
    + replace (vdot ROps (vsub ROps p2 p1) cr) with 0; [field; lra|]. unfold cr, tri_cross. destruct p1, p2, p3. vunf. ring.
    + replace (vdot ROps (vsub ROps p3 p1) cr) with 0; [field; lra|]. unfold cr, tri_cross. destruct p1, p2, p3. vunf. ring.
    + cbn [pnormal]. replace (vdot ROps (vnormalize ROps cr) cr) with (vnorm ROps cr); [exact Hp|].
      pose proof (vnorm_sq cr) as Hs. unfold vnormalize. set (k := vnorm ROps cr) in *. clearbody k.
      destruct cr as [a b c]. vunf_in Hs. vunf.
      replace (a / k * a + b / k * b + c / k * c) with ((a * a + b * b + c * c) / k) by (field; lra).
      rewrite <- Hs. field. lra.
Qed.
Lemma from_points_collinear_refused p1 p2 p3 : tri_cross ROps p1 p2 p3 = V3 0 0 0 ->
  from_points ROps p1 p2 p3 = Raise ValueError.
Proof. intros H. unfold from_points, plane_normal_from_points. rewrite H, normalize_opt_zero. reflexivity. Qed.

(* ---- from_points_and_vector ----------------------------------------------------------------------- *)
Lemma from_points_and_vector_contains_parallel atol p1 p2 v : 0 <= atol ->
  vcross ROps (vsub ROps p2 p1) v <> V3 0 0 0 ->
  exists pl, from_points_and_vector ROps atol p1 p2 v = Ok pl /\ pref pl = p1 /\ unit_normal pl /\
    plane_sd ROps pl p1 = 0 /\ plane_sd ROps pl p2 = 0 /\ vdot ROps (pnormal pl) v = 0.
Proof.
  intros Ha H. set (cr := vcross ROps (vsub ROps p2 p1) v) in *.
  exists (MkPlane p1 (vnormalize ROps cr)). pose proof (vnorm_pos cr H) as Hp.
  split; [|split; [reflexivity|split; [apply vnormalize_unit; exact H|]]].
  - unfold from_points_and_vector. fold cr. apply normalised_is_unit; assumption.
  - rewrite !sd_normalized by exact H. repeat split.
    + replace (vdot ROps (vsub ROps p1 p1) cr) with 0; [field; lra|]. destruct p1, cr. vunf. ring.
    + replace (vdot ROps (vsub ROps p2 p1) cr) with 0; [field; lra|]. unfold cr. destruct p1, p2, v. vunf. ring.
    + cbn [pnormal]. unfold vnormalize. set (k := vnorm ROps cr) in *.
      assert (E : vdot ROps cr v = 0) by (unfold cr; destruct p1, p2, v; vunf; ring).
      clearbody k. destruct cr as [a b c], v as [x y z]. vunf_in E. vunf.
      replace (a / k * x + b / k * y + c / k * z) with ((a * x + b * y + c * z) / k) by (field; lra).
      rewrite E. field. lra.
Qed.
Lemma from_points_and_vector_parallel_refused atol p1 p2 v :
  vcross ROps (vsub ROps p2 p1) v = V3 0 0 0 -> from_points_and_vector ROps atol p1 p2 v = Raise ValueError.
Proof. intros H. unfold from_points_and_vector. rewrite H. apply zero_normal_refused. Qed.

Lemma vec3_eq_dec_R (a b : vec3 R) : {a = b} + {a <> b}.
Proof.
  destruct a as [x y z], b as [x' y' z'].
  destruct (Req_EM_T x x') as [->|Hx]; [|right; congruence].
  destruct (Req_EM_T y y') as [->|Hy]; [|right; congruence].
  destruct (Req_EM_T z z') as [->|Hz]; [left; reflexivity|right; congruence].
Qed.

(* ---- equation functions --------------------------------------------------------------------------- *)
Lemma equation_functions_agree p1 p2 p3 pl : from_points ROps p1 p2 p3 = Ok pl ->
  plane_normal_from_points ROps true p1 p2 p3 = Some (pnormal pl) /\
  plane_equation_from_points ROps p1 p2 p3 = Some (plane_equation ROps pl) /\
  normal_and_offset (plane_equation ROps pl) = (pnormal pl, - vdot ROps p1 (pnormal pl)).
Proof.
  unfold from_points, plane_equation_from_points. destruct (plane_normal_from_points ROps true p1 p2 p3) as [n|]; [|discriminate].
  cbn [ctor_opt]. unfold plane_ctor. destruct (almost_unit_length _ _ _); [|discriminate].
  intros H. injection H as <-. cbn [pnormal pref]. repeat split.
  unfold normal_and_offset, plane_equation, eq_normal. cbn [ea eb ec ed pref pnormal]. destruct n; reflexivity.
Qed.
Lemma equation_functions_nan_iff p1 p2 p3 :
  (plane_equation_from_points ROps p1 p2 p3 = None <-> tri_cross ROps p1 p2 p3 = V3 0 0 0) /\
  (plane_normal_from_points ROps true p1 p2 p3 = None <-> tri_cross ROps p1 p2 p3 = V3 0 0 0).
Proof.
  assert (E : plane_normal_from_points ROps true p1 p2 p3 = None <-> tri_cross ROps p1 p2 p3 = V3 0 0 0).
  { unfold plane_normal_from_points. split.
    - intros H. destruct (vec3_eq_dec_R (tri_cross ROps p1 p2 p3) (V3 0 0 0)) as [E|E]; [exact E|].
      rewrite normalize_opt_some in H by exact E. discriminate.
    - intros ->. apply normalize_opt_zero. }
  split; [|exact E]. unfold plane_equation_from_points.
  destruct (plane_normal_from_points ROps true p1 p2 p3) eqn:En.
  - split; [discriminate|]. intros H. apply E in H. discriminate.
  - split; [intros _; apply E; reflexivity|reflexivity].
Qed.
Lemma stacked_is_map_single normalize ts k :
  nth_error (plane_normal_from_points_stack ROps normalize ts) k =
    option_map (fun t => match t with (p1, p2, p3) => plane_normal_from_points ROps normalize p1 p2 p3 end) (nth_error ts k) /\
  nth_error (plane_equation_from_points_stack ROps ts) k =
    option_map (fun t => match t with (p1, p2, p3) => plane_equation_from_points ROps p1 p2 p3 end) (nth_error ts k).
Proof. unfold plane_normal_from_points_stack, plane_equation_from_points_stack. rewrite !nth_error_map. auto. Qed.
Lemma normal_and_offset_stack_spec (es : list (peq R)) k :
  nth_error (fst (normal_and_offset_stack es)) k = option_map (fun e => fst (normal_and_offset e)) (nth_error es k) /\
  nth_error (snd (normal_and_offset_stack es)) k = option_map (fun e => snd (normal_and_offset e)) (nth_error es k).
Proof. unfold normal_and_offset_stack. cbn [fst snd]. rewrite !nth_error_map. auto. Qed.

(* ---- coordinate planes ---------------------------------------------------------------------------- *)
Lemma coordinate_planes p :
  plane_sd ROps (plane_xy ROps) p = vz p /\ plane_sd ROps (plane_xz ROps) p = vy p /\
  plane_sd ROps (plane_yz ROps) p = vx p /\
  unit_normal (plane_xy ROps) /\ unit_normal (plane_xz ROps) /\ unit_normal (plane_yz ROps) /\
  pref (plane_xy ROps) = V3 0 0 0 /\ pref (plane_xz ROps) = V3 0 0 0 /\ pref (plane_yz ROps) = V3 0 0 0.
Proof.
  destruct p as [x y z]. unfold plane_xy, plane_xz, plane_yz, unit_normal. cbn [pnormal pref].
  repeat split; punf; try ring; reflexivity.
Qed.
Lemma coordinate_planes_constructible :
  plane_ctor ROps (default_atol ROps) (vzero ROps) (V3 0 0 1) = Ok (plane_xy ROps) /\
  plane_ctor ROps (default_atol ROps) (vzero ROps) (V3 0 1 0) = Ok (plane_xz ROps) /\
  plane_ctor ROps (default_atol ROps) (vzero ROps) (V3 1 0 0) = Ok (plane_yz ROps).
Proof.
  repeat split; apply ctor_unit; try (apply Rlt_le, default_atol_value); vunf; ring.
Qed.

(* ---- fit_from_points: reference point ------------------------------------------------------------- *)
Lemma fit_through_centroid eigh ps pl : fit_from_points ROps eigh ps = Ok pl ->
  pref pl = centroid ROps ps /\ plane_sd ROps pl (centroid ROps ps) = 0 /\
  Rabs (vnorm ROps (pnormal pl) - 1) <= default_atol ROps.
Proof.
  unfold fit_from_points. destruct (length ps <=? 1)%nat; [discriminate|]. intros H.
  destruct (Rle_dec (Rabs (vnorm ROps (fit_normal ROps (eigh (cov ROps ps))) - 1)) (default_atol ROps)) as [Hle|Hgt].
  - rewrite (proj1 (ctor_accepts_iff _ _ _) Hle) in H. injection H as <-. cbn [pref pnormal].
    split; [reflexivity|split; [|exact Hle]]. rewrite sd_is_dot. cbn [pref pnormal].
    destruct (centroid ROps ps), (fit_normal ROps (eigh (cov ROps ps))). vunf. ring.
  - rewrite (proj2 (ctor_accepts_iff _ _ _)) in H by lra. discriminate.
Qed.
