(* C09: with_insertions — the sort-based code shape (stable argsort modelled as insertion sort, searchsorted
   side="right", scatter of positions, np.insert's fill of the new array) equals the declarative stable
   insertion and its two counting index maps, for all sizes and all index vectors. *)
From Coq Require Import ZArith List Bool Arith Lia Sorted.
From PW Require Import Num Vec NpList Result.
From PW.model Require Import M_polyline_base M_polyline_spec M_polyline_ops.
Import ListNotations.

(* ---- generic list facts --------------------------------------------------------------------------- *)
Lemma nth_error_seq' : forall n s k, (k < n)%nat -> nth_error (seq s n) k = Some (s + k)%nat.
Proof.
  induction n as [|n IH]; intros s k H; [lia|]. destruct k as [|k]; cbn [seq nth_error].
  - f_equal; lia.
  - rewrite IH by lia. f_equal; lia.
Qed.
Lemma nth_error_ext' {A} : forall (l l' : list A), (forall i, nth_error l i = nth_error l' i) -> l = l'.
Proof.
  induction l as [|x r IH]; intros [|y r'] H; try reflexivity.
  - specialize (H 0%nat); discriminate.
  - specialize (H 0%nat); discriminate.
  - f_equal; [specialize (H 0%nat); cbn in H; congruence|]. apply IH. intros i. exact (H (S i)).
Qed.
Lemma filter_none {A} (f : A -> bool) l : (forall z, In z l -> f z = false) -> filter f l = [].
Proof.
  induction l as [|x r IH]; intros H; [reflexivity|]. cbn [filter]. rewrite (H x (or_introl eq_refl)).
  apply IH. intros z Hz. apply H. right; exact Hz.
Qed.

(* ---- the stable sort: pairs (key, original position), lexicographic strict order -------------------- *)
Definition lt2b (x y : nat * nat) : bool := (fst x <? fst y) || ((fst x =? fst y) && (snd x <? snd y)).
Definition lt2 (x y : nat * nat) : Prop := lt2b x y = true.
Lemma lt2_spec x y : lt2 x y <-> fst x < fst y \/ (fst x = fst y /\ snd x < snd y).
Proof. unfold lt2, lt2b. rewrite orb_true_iff, andb_true_iff, !Nat.ltb_lt, Nat.eqb_eq. tauto. Qed.
Lemma lt2b_false x y : lt2 x y -> lt2b y x = false.
Proof.
  intros H. apply lt2_spec in H. destruct (lt2b y x) eqn:E; [|reflexivity].
  apply lt2_spec in E. lia.
Qed.
Lemma lt2b_irrefl x : lt2b x x = false.
Proof. destruct (lt2b x x) eqn:E; [|reflexivity]. apply lt2_spec in E. lia. Qed.

Lemma in_sins x y s : In y (sins x s) <-> y = x \/ In y s.
Proof.
  induction s as [|z r IH]; cbn [sins].
  - cbn [In]. intuition.
  - destruct (fst x <=? fst z)%nat.
    + cbn [In]. intuition.
    + cbn [In]. rewrite IH. intuition.
Qed.
Lemma in_ssort y l : In y (ssort l) <-> In y l.
Proof. induction l as [|x r IH]; cbn [ssort]; [tauto|]. rewrite in_sins, IH. cbn [In]. intuition. Qed.

Lemma count_sins (f : nat * nat -> bool) x s :
  length (filter f (sins x s)) = ((if f x then 1 else 0) + length (filter f s))%nat.
Proof.
  induction s as [|y r IH]; cbn [sins].
  - cbn. destruct (f x); reflexivity.
  - destruct (fst x <=? fst y)%nat.
    + cbn [filter]. destruct (f x), (f y); reflexivity.
    + cbn [filter]. destruct (f y); cbn [length]; rewrite IH; destruct (f x); lia.
Qed.
Lemma count_ssort f l : length (filter f (ssort l)) = length (filter f l).
Proof. induction l as [|x r IH]; [reflexivity|]. cbn [ssort filter]. rewrite count_sins, IH. destruct (f x); reflexivity. Qed.

Lemma sins_sorted x s : StronglySorted lt2 s -> Forall (fun y => snd x < snd y) s -> StronglySorted lt2 (sins x s).
Proof.
  induction s as [|y r IH]; intros Hs Hf; cbn [sins].
  - constructor; constructor.
  - inversion Hs as [|? ? Hr Hy]; subst. inversion Hf as [|? ? Hxy Hfr]; subst.
    destruct (fst x <=? fst y)%nat eqn:E.
    + apply Nat.leb_le in E. constructor; [exact Hs|]. constructor.
      * apply lt2_spec. lia.
      * rewrite Forall_forall in *. intros z Hz. specialize (Hy z Hz). specialize (Hfr z Hz).
        apply lt2_spec in Hy. apply lt2_spec. lia.
    + apply Nat.leb_gt in E. constructor; [apply IH; assumption|].
      rewrite Forall_forall in *. intros z Hz. apply (proj1 (in_sins _ _ _)) in Hz. destruct Hz as [->|Hz].
      * apply lt2_spec. lia.
      * apply Hy. exact Hz.
Qed.

Lemma in_zip_seq (idx : list nat) : forall s b j,
  In (b, j) (zip idx (seq s (length idx))) -> s <= j /\ nth_error idx (j - s) = Some b.
Proof.
  induction idx as [|a r IH]; intros s b j H; cbn [zip seq length In] in H; [destruct H|].
  destruct H as [H|H].
  - injection H as <- <-. split; [lia|]. rewrite Nat.sub_diag. reflexivity.
  - apply IH in H. destruct H as [H1 H2]. split; [lia|]. replace (j - s) with (S (j - S s)) by lia. exact H2.
Qed.
Lemma zip_seq_in (idx : list nat) : forall s i a,
  nth_error idx i = Some a -> In (a, s + i) (zip idx (seq s (length idx))).
Proof.
  induction idx as [|c r IH]; intros s i a H; [destruct i; discriminate|]. cbn [zip seq length In].
  destruct i as [|i]; cbn [nth_error] in H.
  - injection H as ->. left. f_equal. lia.
  - right. replace (s + S i) with (S s + i) by lia. apply IH. exact H.
Qed.

Lemma ssort_zip_sorted (idx : list nat) : forall s, StronglySorted lt2 (ssort (zip idx (seq s (length idx)))).
Proof.
  induction idx as [|a r IH]; intros s; cbn [length seq zip ssort]; [constructor|].
  apply sins_sorted; [apply IH|]. apply Forall_forall. intros [b j] H. apply (proj1 (in_ssort _ _)) in H.
  apply in_zip_seq in H. cbn [snd]. lia.
Qed.
Lemma sorted_pairs_sorted idx : StronglySorted lt2 (sorted_pairs idx).
Proof. apply ssort_zip_sorted. Qed.

(* ---- map of the original vertices: searchsorted(side="right") on the sorted keys = #{idx_j <= i} --------- *)
Lemma ssr_sorted (S : list (nat * nat)) i : StronglySorted lt2 S ->
  searchsorted_right (map fst S) i = length (filter (fun y => fst y <=? i)%nat S).
Proof.
  induction S as [|y r IH]; intros H; [reflexivity|]. inversion H as [|? ? Hr Hy]; subst.
  cbn [map searchsorted_right filter]. destruct (fst y <=? i)%nat eqn:E.
  - cbn [length]. rewrite IH by assumption. reflexivity.
  - apply Nat.leb_gt in E. rewrite filter_none; [reflexivity|].
    intros z Hz. rewrite Forall_forall in Hy. specialize (Hy z Hz). apply lt2_spec in Hy.
    apply Nat.leb_gt. lia.
Qed.
Lemma count_fst_zip (f : nat -> bool) (idx : list nat) : forall s,
  length (filter (fun y => f (fst y)) (zip idx (seq s (length idx)))) = count_nat f idx.
Proof.
  unfold count_nat. induction idx as [|a r IH]; intros s; [reflexivity|]. cbn [zip seq length filter fst].
  destruct (f a); cbn [length]; rewrite IH; reflexivity.
Qed.
Lemma orig_map_refines n (w : list nat) :
  map (fun i => (i + searchsorted_right (map fst (sorted_pairs w)) i)%nat) (seq 0 n) = spec_orig_map n w.
Proof.
  unfold spec_orig_map. apply map_ext. intros i. f_equal.
  rewrite ssr_sorted by apply sorted_pairs_sorted. unfold sorted_pairs.
  rewrite count_ssort. apply (count_fst_zip (fun x => x <=? i)%nat).
Qed.

(* ---- map of the inserted points: position in the stable sort = #{idx_k < idx_j} + #{k < j : idx_k = idx_j} -- *)
Lemma sorted_split_count (S1 S2 : list (nat * nat)) x : StronglySorted lt2 (S1 ++ x :: S2) ->
  length (filter (fun y => lt2b y x) (S1 ++ x :: S2)) = length S1.
Proof.
  induction S1 as [|y r IH]; intros H; cbn [app] in *.
  - inversion H as [|? ? Hr Hx]; subst. cbn [filter]. rewrite lt2b_irrefl. rewrite filter_none; [reflexivity|].
    intros z Hz. rewrite Forall_forall in Hx. apply lt2b_false. apply Hx. exact Hz.
  - inversion H as [|? ? Hr Hy]; subst. cbn [filter].
    assert (Hyx : lt2b y x = true). { rewrite Forall_forall in Hy. apply Hy. apply in_elt. }
    rewrite Hyx. cbn [length]. rewrite IH by assumption. reflexivity.
Qed.
Lemma lookup_first j : forall S p0, (exists b, In (b, j) S) ->
  exists S1 b S2, S = S1 ++ (b, j) :: S2 /\ lookup j (pos_pairs_from p0 S) = (b + p0 + length S1)%nat.
Proof.
  induction S as [|[a i] r IH]; intros p0 [b H]; [destruct H|]. cbn [pos_pairs_from lookup].
  destruct (i =? j)%nat eqn:E.
  - apply Nat.eqb_eq in E. subst i. exists [], a, r. split; [reflexivity|]. cbn [length]. lia.
  - destruct H as [H|H]; [injection H as -> ->; rewrite Nat.eqb_refl in E; discriminate|].
    destruct (IH (S p0) (ex_intro _ b H)) as [S1 [b' [S2 [-> Hl]]]].
    exists ((a, i) :: S1), b', S2. split; [reflexivity|]. rewrite Hl. cbn [length]. lia.
Qed.
Lemma count_lt2_zip (idx : list nat) a j : forall s,
  length (filter (fun y => lt2b y (a, j)) (zip idx (seq s (length idx)))) =
  (count_nat (fun x => x <? a)%nat idx + count_nat (fun x => x =? a)%nat (firstn (j - s) idx))%nat.
Proof.
  unfold count_nat. induction idx as [|c r IH]; intros s; [destruct (j - s)%nat; reflexivity|].
  cbn [zip seq length filter].
  replace (lt2b (c, s) (a, j)) with ((c <? a) || ((c =? a) && (s <? j)))%nat by reflexivity.
  destruct (Nat.ltb_spec s j) as [Hs|Hs].
  - replace (j - s)%nat with (S (j - S s)) by lia. cbn [firstn filter]. rewrite andb_true_r.
    destruct (Nat.ltb_spec c a), (Nat.eqb_spec c a); cbn [orb length]; rewrite IH; lia.
  - replace (j - s)%nat with 0%nat by lia. cbn [firstn filter length].
    rewrite andb_false_r, orb_false_r. destruct (c <? a)%nat; cbn [length]; rewrite IH;
      replace (j - S s)%nat with 0%nat by lia; cbn [firstn filter length]; lia.
Qed.
Lemma nth_spec_ins_map_from idx : forall rest s j,
  nth_error (spec_ins_map_from idx s rest) j = option_map (spec_ins_pos idx (s + j)) (nth_error rest j).
Proof.
  induction rest as [|a r IH]; intros s j; [destruct j; reflexivity|]. cbn [spec_ins_map_from].
  destruct j as [|j]; cbn [nth_error option_map].
  - rewrite Nat.add_0_r. reflexivity.
  - rewrite IH. replace (S s + j)%nat with (s + S j)%nat by lia. reflexivity.
Qed.

Lemma inserted_position_spec (w : list nat) j a : nth_error w j = Some a ->
  lookup j (pos_pairs_from 0 (sorted_pairs w)) = spec_ins_pos w j a.
Proof.
  intros Hj. pose proof (zip_seq_in w 0 j a Hj) as Hin. cbn [Nat.add] in Hin.
  assert (HinS : In (a, j) (sorted_pairs w)) by (apply (proj2 (in_ssort _ _)); exact Hin).
  destruct (lookup_first j (sorted_pairs w) 0 (ex_intro _ a HinS)) as [S1 [b [S2 [HS Hl]]]].
  assert (b = a).
  { assert (Hb : In (b, j) (sorted_pairs w)) by (rewrite HS; apply in_elt).
    apply (proj1 (in_ssort _ _)) in Hb. apply in_zip_seq in Hb. destruct Hb as [_ Hb]. rewrite Nat.sub_0_r in Hb. congruence. }
  subst b. rewrite Hl. unfold spec_ins_pos.
  pose proof (sorted_pairs_sorted w) as Hs. rewrite HS in Hs. apply sorted_split_count in Hs.
  rewrite <- HS in Hs. unfold sorted_pairs in Hs. rewrite count_ssort, count_lt2_zip, Nat.sub_0_r in Hs. lia.
Qed.

Lemma ins_map_refines (w : list nat) : inserted_positions w = spec_ins_map w.
Proof.
  apply nth_error_ext'. intros j. unfold inserted_positions, spec_ins_map.
  rewrite nth_error_map, nth_spec_ins_map_from. cbn [Nat.add].
  destruct (nth_error w j) as [a|] eqn:E.
  - assert (j < length w)%nat by (apply nth_error_Some; congruence).
    rewrite nth_error_seq' by assumption. cbn [Nat.add option_map]. f_equal. apply inserted_position_spec. exact E.
  - apply nth_error_None in E. cbn [option_map].
    replace (nth_error (seq 0 (length w)) j) with (@None nat); [reflexivity|].
    symmetry. apply nth_error_None. rewrite seq_length. exact E.
Qed.

(* ---- the vertices: np.insert's fill of the new array = stable emission ---------------------------------- *)
Lemma count_app f (l l' : list nat) : count_nat f (l ++ l') = (count_nat f l + count_nat f l')%nat.
Proof. unfold count_nat. rewrite filter_app, app_length. reflexivity. Qed.
Lemma count_lt_S (w : list nat) p :
  count_nat (fun x => x <? S p)%nat w = (count_nat (fun x => x <? p)%nat w + count_nat (fun x => x =? p)%nat w)%nat.
Proof.
  unfold count_nat. induction w as [|a r IH]; [reflexivity|]. cbn [filter].
  destruct (Nat.ltb_spec a (S p)), (Nat.ltb_spec a p), (Nat.eqb_spec a p); cbn [length]; lia.
Qed.
Lemma count_lt_mono (w : list nat) a b : a <= b ->
  (count_nat (fun x => x <? a)%nat w <= count_nat (fun x => x <? b)%nat w)%nat.
Proof.
  intros H. unfold count_nat. induction w as [|c r IH]; [reflexivity|]. cbn [filter].
  destruct (Nat.ltb_spec c a), (Nat.ltb_spec c b); cbn [length]; lia.
Qed.
Lemma count_ge_split (w : list nat) p :
  count_nat (fun x => p <=? x)%nat w = (count_nat (fun x => x =? p)%nat w + count_nat (fun x => S p <=? x)%nat w)%nat.
Proof.
  unfold count_nat. induction w as [|a r IH]; [reflexivity|]. cbn [filter].
  destruct (Nat.leb_spec p a), (Nat.eqb_spec a p), (Nat.leb_spec (S p) a); cbn [length]; lia.
Qed.
Lemma count_lt_0 (w : list nat) : count_nat (fun x => x <? 0)%nat w = 0%nat.
Proof. unfold count_nat. rewrite filter_none; [reflexivity|]. intros z _. reflexivity. Qed.
Lemma emitted_length' {A} p : forall idx (pts : list A), length idx = length pts ->
  length (emitted p idx pts) = count_nat (fun j => j =? p)%nat idx.
Proof.
  unfold emitted, count_nat. intros idx pts. rewrite map_length. revert pts.
  induction idx as [|a r IH]; intros [|x xs] H; try discriminate; [reflexivity|].
  cbn [zip filter fst]. destruct (a =? p)%nat; cbn [length]; rewrite IH by (cbn in H; lia); reflexivity.
Qed.
Lemma skipn_nth {A} (l : list A) : forall t x, nth_error l t = Some x -> skipn t l = x :: skipn (S t) l.
Proof.
  induction l as [|y r IH]; intros t x H; [destruct t; discriminate|]. destruct t as [|t]; cbn [nth_error] in H.
  - injection H as ->. reflexivity.
  - cbn [skipn]. apply IH. exact H.
Qed.

Section Fill.
  Context {A : Type} (w : list nat).
  Definition Bp (p : nat) : nat := (p + count_nat (fun x => x <? p)%nat w)%nat.
  Definition cnt (p : nat) : nat := count_nat (fun x => x =? p)%nat w.
  Lemma Bp_S p : Bp (S p) = S (Bp p + cnt p).
  Proof. unfold Bp, cnt. rewrite count_lt_S. lia. Qed.
  Lemma Bp_gap p p' : p < p' -> (Bp p + cnt p + 1 <= Bp p')%nat.
  Proof.
    intros H. pose proof (count_lt_mono w (S p) p' H) as Hm. rewrite count_lt_S in Hm. unfold Bp, cnt. lia.
  Qed.

  (* which inserted point lands on new position Bp p + t: the t-th one given for position p *)
  Lemma slot_spec : forall rest (prest : list A) pre, w = pre ++ rest -> length rest = length prest ->
    forall p t, (count_nat (fun x => x =? p)%nat pre <= t)%nat -> (t <= cnt p)%nat ->
    slot_of (Bp p + t) (spec_ins_map_from w (length pre) rest) prest =
    nth_error (emitted p rest prest) (t - count_nat (fun x => x =? p)%nat pre).
  Proof.
    induction rest as [|a r IH]; intros prest pre Hw Hl p t Ht1 Ht2.
    - cbn. destruct (t - _)%nat; reflexivity.
    - destruct prest as [|x xr]; [discriminate|]. cbn [spec_ins_map_from slot_of].
      assert (Hhp : spec_ins_pos w (length pre) a = (Bp a + count_nat (fun x => x =? a)%nat pre)%nat).
      { unfold spec_ins_pos, Bp. replace (firstn (length pre) w) with pre; [reflexivity|].
        rewrite Hw, firstn_app, Nat.sub_diag, firstn_all. cbn [firstn]. rewrite app_nil_r. reflexivity. }
      rewrite Hhp.
      assert (Hw' : w = (pre ++ [a]) ++ r) by (rewrite <- app_assoc; exact Hw).
      assert (Hlen0 : length (pre ++ [a]) = S (length pre)) by (rewrite app_length; cbn; lia).
      assert (Hca : (count_nat (fun x => x =? a)%nat pre + 1 <= cnt a)%nat).
      { unfold cnt. rewrite Hw, count_app. unfold count_nat at 3. cbn [filter]. rewrite Nat.eqb_refl. cbn [length]. lia. }
      assert (Hc1 : count_nat (fun x => x =? p)%nat [a] = if (a =? p)%nat then 1%nat else 0%nat).
      { unfold count_nat. cbn [filter]. destruct (a =? p)%nat; reflexivity. }
      specialize (IH xr (pre ++ [a]) Hw' (f_equal pred Hl) p). rewrite Hlen0 in IH.
      rewrite count_app, Hc1 in IH.
      unfold emitted. cbn [zip filter fst].
      destruct (Nat.eqb_spec a p) as [->|Hne].
      + cbn [length map snd].
        destruct (Nat.eqb_spec (Bp p + count_nat (fun x => x =? p)%nat pre) (Bp p + t)) as [He|He].
        * replace (t - count_nat (fun x => x =? p)%nat pre)%nat with 0%nat by lia. reflexivity.
        * unfold emitted in IH. rewrite IH by lia.
          replace (t - count_nat (fun x => x =? p)%nat pre)%nat with (S (t - (count_nat (fun x => x =? p)%nat pre + 1))) by lia.
          reflexivity.
      + rewrite Nat.add_0_r in IH.
        destruct (Nat.eqb_spec (Bp a + count_nat (fun x => x =? a)%nat pre) (Bp p + t)) as [He|He].
        * exfalso. destruct (Nat.lt_gt_cases a p) as [Hc _]. specialize (Hc Hne). destruct Hc as [Hc|Hc].
          -- pose proof (Bp_gap a p Hc). lia.
          -- pose proof (Bp_gap p a Hc). lia.
        * unfold emitted in IH. apply IH; assumption.
  Qed.

  Context (pts : list A) (Hlen : length w = length pts).
  Let pos := spec_ins_map w.
  Let E p := emitted p w pts.

  Lemma slot_top p t : (t <= cnt p)%nat -> slot_of (Bp p + t) pos pts = nth_error (E p) t.
  Proof.
    intros Ht. unfold pos, spec_ins_map.
    pose proof (slot_spec w pts [] eq_refl Hlen p t) as H. cbn [length] in H.
    unfold count_nat at 1 2 in H. cbn [filter length] in H. rewrite Nat.sub_0_r in H. apply H; [lia|exact Ht].
  Qed.

  Lemma fill_emit p v' fuel : forall d t, (t + d = cnt p)%nat ->
    fill (fuel + d) (Bp p + t) pos pts v' = skipn t (E p) ++ fill fuel (Bp p + cnt p) pos pts v'.
  Proof.
    assert (HE : length (E p) = cnt p) by (apply emitted_length'; exact Hlen).
    induction d as [|d IH]; intros t Ht.
    - rewrite Nat.add_0_r in *. subst t. rewrite skipn_all2 by lia. reflexivity.
    - rewrite Nat.add_succ_r. cbn [fill]. rewrite slot_top by lia.
      destruct (nth_error (E p) t) as [x|] eqn:Ex; [|apply nth_error_None in Ex; lia].
      rewrite (skipn_nth _ _ _ Ex). cbn [app]. f_equal.
      replace (S (Bp p + t)) with (Bp p + S t)%nat by lia. apply IH. lia.
  Qed.

  Lemma fill_walk : forall (v' : list A) p fuel,
    (length v' + count_nat (fun x => p <=? x)%nat w <= fuel)%nat ->
    fill fuel (Bp p) pos pts v' = ins_from p v' w pts.
  Proof.
    assert (HE : forall p, length (E p) = cnt p) by (intros; apply emitted_length'; exact Hlen).
    induction v' as [|x r IH]; intros p fuel Hf; rewrite count_ge_split in Hf; fold (cnt p) in Hf; cbn [length] in Hf.
    - replace fuel with ((fuel - cnt p) + cnt p)%nat by lia.
      replace (Bp p) with (Bp p + 0)%nat at 1 by lia. rewrite (fill_emit p [] (fuel - cnt p) (cnt p) 0) by lia.
      cbn [skipn ins_from]. fold (E p).
      destruct (fuel - cnt p)%nat as [|f]; cbn [fill]; [apply app_nil_r|].
      rewrite slot_top by lia. replace (nth_error (E p) (cnt p)) with (@None A); [apply app_nil_r|].
      symmetry. apply nth_error_None. rewrite HE. lia.
    - replace fuel with ((fuel - cnt p) + cnt p)%nat by lia.
      replace (Bp p) with (Bp p + 0)%nat at 1 by lia. rewrite (fill_emit p (x :: r) (fuel - cnt p) (cnt p) 0) by lia.
      cbn [skipn ins_from]. fold (E p). f_equal.
      destruct (fuel - cnt p)%nat as [|f] eqn:Ef; [lia|]. cbn [fill].
      rewrite slot_top by lia. replace (nth_error (E p) (cnt p)) with (@None A)
        by (symmetry; apply nth_error_None; rewrite HE; lia).
      f_equal. rewrite <- Bp_S. apply IH. lia.
  Qed.
End Fill.

Lemma filter_len_le {B} (f : B -> bool) l : (length (filter f l) <= length l)%nat.
Proof. induction l as [|x r IH]; [reflexivity|]. cbn [filter]. destruct (f x); cbn [length]; lia. Qed.

Theorem np_insert_refines {A} (v : list A) (w : list nat) (pts : list A) : length w = length pts ->
  np_insert v w pts = spec_insert v w pts.
Proof.
  intros Hl. unfold np_insert, spec_insert. rewrite ins_map_refines.
  replace 0%nat with (Bp w 0) at 1 by (unfold Bp; rewrite count_lt_0; reflexivity).
  apply fill_walk; [exact Hl|].
  assert (count_nat (fun x => 0 <=? x)%nat w <= length w)%nat by (unfold count_nat; apply filter_len_le). lia.
Qed.

Lemma wrap_all_length n : forall idx w, wrap_all n idx = Some w -> length w = length idx.
Proof.
  induction idx as [|i r IH]; intros w H; cbn [wrap_all] in H.
  - injection H as <-. reflexivity.
  - destruct (wrap_ins n i); [|discriminate]. destruct (wrap_all n r) as [t|]; [|discriminate].
    injection H as <-. cbn [length]. rewrite (IH t eq_refl). reflexivity.
Qed.

(* with_insertions(points, indices, ret_new_indices=True): new vertices and BOTH index maps of the sort-based
   code shape equal the specification, for every polyline, every number of points and every index vector
   (repeated, end and negative positions included; out-of-range and shape errors by class) *)
Theorem insert_refines {F} (p : polyline F) (pts : list (vec3 F)) (idx : list Z) :
  c_insert p pts idx = s_insert p pts idx.
Proof.
  unfold c_insert, s_insert. destruct (length pts =? length idx)%nat eqn:E; cbn [negb]; [|reflexivity].
  apply Nat.eqb_eq in E. unfold wrap_indices. destruct (below_range (length (pv p)) idx); [reflexivity|].
  destruct (wrap_all (length (pv p)) idx) as [w|] eqn:Ew; [|reflexivity].
  apply wrap_all_length in Ew.
  rewrite np_insert_refines by congruence. rewrite orig_map_refines, ins_map_refines. reflexivity.
Qed.

(* ---- the declarative maps point at the right elements: inserted point j is found at its mapped position ---- *)
Lemma emitted_nth {A} a : forall (w : list nat) (pts : list A) j x,
  nth_error w j = Some a -> nth_error pts j = Some x ->
  nth_error (emitted a w pts) (count_nat (fun i => i =? a)%nat (firstn j w)) = Some x.
Proof.
  unfold emitted, count_nat. induction w as [|c r IH]; intros pts j x Hw Hp; [destruct j; discriminate|].
  destruct pts as [|y ys]; [destruct j; discriminate|]. destruct j as [|j]; cbn [nth_error] in Hw, Hp.
  - injection Hw as ->. injection Hp as ->. cbn [firstn filter length zip fst]. rewrite Nat.eqb_refl. reflexivity.
  - cbn [firstn filter zip fst]. destruct (c =? a)%nat; cbn [length map snd nth_error]; apply IH; assumption.
Qed.
Lemma count_range_split (w : list nat) p a : p < a ->
  count_nat (fun i => (p <=? i) && (i <? a))%nat w =
  (count_nat (fun i => i =? p)%nat w + count_nat (fun i => (S p <=? i) && (i <? a))%nat w)%nat.
Proof.
  intros H. unfold count_nat. induction w as [|c r IH]; [reflexivity|]. cbn [filter].
  destruct (Nat.leb_spec p c), (Nat.ltb_spec c a), (Nat.eqb_spec c p), (Nat.leb_spec (S p) c); cbn [andb length]; lia.
Qed.
Lemma count_range_empty (w : list nat) p : count_nat (fun i => (p <=? i) && (i <? p))%nat w = 0%nat.
Proof.
  unfold count_nat. rewrite filter_none; [reflexivity|]. intros z _.
  destruct (Nat.leb_spec p z), (Nat.ltb_spec z p); cbn [andb]; try reflexivity; lia.
Qed.
Lemma ins_from_inserted {A} (w : list nat) (pts : list A) a t x : length w = length pts ->
  nth_error (emitted a w pts) t = Some x ->
  forall v' p, p <= a -> a <= p + length v' ->
  nth_error (ins_from p v' w pts) ((a - p) + count_nat (fun i => (p <=? i) && (i <? a))%nat w + t) = Some x.
Proof.
  intros Hl Ht. induction v' as [|y r IH]; intros p Hpa Hap; cbn [length] in Hap; cbn [ins_from].
  - assert (a = p) by lia. subst a. rewrite Nat.sub_diag, count_range_empty. exact Ht.
  - destruct (Nat.eq_dec a p) as [->|Hne].
    + rewrite Nat.sub_diag, count_range_empty. cbn [Nat.add].
      rewrite nth_error_app1; [exact Ht|]. apply nth_error_Some. congruence.
    + rewrite count_range_split by lia. rewrite <- (emitted_length' p w pts Hl).
      rewrite nth_error_app2 by lia.
      replace (a - p + (length (emitted p w pts) + count_nat (fun i => (S p <=? i) && (i <? a))%nat w) + t - length (emitted p w pts))%nat
        with (S ((a - S p) + count_nat (fun i => (S p <=? i) && (i <? a))%nat w + t)) by lia.
      cbn [nth_error]. apply IH; lia.
Qed.
Theorem spec_ins_map_points {A} (v : list A) (w : list nat) (pts : list A) j a x :
  length w = length pts -> nth_error w j = Some a -> nth_error pts j = Some x -> a <= length v ->
  nth_error (spec_ins_map w) j = Some (spec_ins_pos w j a) /\
  nth_error (spec_insert v w pts) (spec_ins_pos w j a) = Some x.
Proof.
  intros Hl Hw Hp Ha. split.
  - unfold spec_ins_map. rewrite nth_spec_ins_map_from, Hw. reflexivity.
  - unfold spec_insert, spec_ins_pos.
    pose proof (ins_from_inserted w pts a _ x Hl (emitted_nth a w pts j x Hw Hp) v 0 (Nat.le_0_l a) Ha) as H.
    rewrite Nat.sub_0_r in H. exact H.
Qed.
