(* Real-number lemmas for M_rodrigues.v (C10): the inverse map and the round trips. *)
From Coq Require Import ZArith Reals Lra Psatz List Bool Lia Nsatz.
From PW Require Import Num NumR Vec Mat Result.
From PW.model Require Import M_rodrigues M_rodrigues_spec.
From PW.proofs Require Import P_vec P_mat P_rodrigues.
Import ListNotations.
Local Open Scope R_scope.

Lemma rod_small_pos : 0 < rod_small ROps.
Proof. unfold rod_small, nfrac; rops. lra. Qed.
Lemma rod_small_lt_1 : rod_small ROps < 1.
Proof. unfold rod_small, nfrac; rops. lra. Qed.
Lemma rod_eps_lt_small : rod_eps ROps < rod_small ROps.
Proof. unfold rod_eps, rod_small, nfrac; rops. lra. Qed.

Lemma nclip_id x : -1 <= x <= 1 -> nclip ROps x (rod_m1 ROps) (n1 ROps) = x.
Proof.
  intros [H1 H2]. unfold nclip, nmin, nmax, rod_m1, n1; rops.
  destruct (Rleb_spec x (- (1))); rcase; lra.
Qed.
Lemma nclip_range x : -1 <= nclip ROps x (rod_m1 ROps) (n1 ROps) <= 1.
Proof.
  unfold nclip, nmin, nmax, rod_m1, n1; rops.
  destruct (Rleb_spec x (- (1))); rcase; lra.
Qed.

Lemma vnorm_vscale a v : vnorm ROps (vscale ROps a v) = Rabs a * vnorm ROps v.
Proof.
  unfold vnorm. replace (vnorm2 ROps (vscale ROps a v)) with (Rsqr a * vnorm2 ROps v)
    by (destruct v; vunf; unfold Rsqr; ring).
  rops. rewrite sqrt_mult; [| apply Rle_0_sqr | apply vnorm2_nonneg]. rewrite sqrt_Rsqr_abs. reflexivity.
Qed.
Lemma vnorm_unit k : vnorm2 ROps k = 1 -> vnorm ROps k = 1.
Proof. intros H. unfold vnorm; rops. rewrite H. apply sqrt_1. Qed.

(* ---- the Rodrigues matrix seen from the inverse ------------------------------------------------ *)
Lemma rod_antisym_matrix c s k : rod_antisym ROps (rod_matrix ROps c s k) = vscale ROps (2 * s) k.
Proof. destruct k as [x y z]. apply V3_inj; runf; ring. Qed.

Lemma rod_trace_matrix c s k : vnorm2 ROps k = 1 ->
  let M := rod_matrix ROps c s k in a00 M + a11 M + a22 M = 2 * c + 1.
Proof. destruct k as [x y z]. intros H. vunf_in H. runf. nsatz. Qed.

Lemma rod_inv_s_matrix c s k : vnorm2 ROps k = 1 -> 0 <= s -> rod_inv_s ROps (rod_matrix ROps c s k) = s.
Proof.
  intros Hk Hs. unfold rod_inv_s. rewrite rod_antisym_matrix, vnorm_vscale, (vnorm_unit k Hk).
  unfold rod_half, nfrac; rops. rewrite Rabs_pos_eq by lra. field.
Qed.
Lemma rod_inv_c_matrix c s k : vnorm2 ROps k = 1 -> -1 <= c <= 1 -> rod_inv_c ROps (rod_matrix ROps c s k) = c.
Proof.
  intros Hk Hc. unfold rod_inv_c. rops. pose proof (rod_trace_matrix c s k Hk) as Ht. cbv zeta in Ht.
  unfold n1 at 1; rops.
  replace ((a00 (rod_matrix ROps c s k) + a11 (rod_matrix ROps c s k) + a22 (rod_matrix ROps c s k) - 1) * rod_half ROps)
    with c by (rewrite Ht; unfold rod_half, nfrac; rops; field).
  apply nclip_id, Hc.
Qed.

(* vector -> matrix -> vector, generic branch *)
Lemma inv_of_fwd proj r : proj_ok proj ->
  0 < vnorm ROps r < PI -> rod_small ROps <= sin (vnorm ROps r) ->
  rodrigues_inv ROps proj (rodrigues_fwd ROps r) = Some r.
Proof.
  intros Hp [H0 Hpi] Hs. pose proof rod_small_pos as Hsm. pose proof rod_eps_lt_small as Hes.
  assert (Hge : rod_eps ROps <= vnorm ROps r).
  { pose proof (sin_lt_x _ H0). lra. }
  assert (Hr : r <> V3 0 0 0) by (apply theta_pos_nonzero, H0).
  unfold rodrigues_inv. rewrite Hp by apply fwd_proper.
  rewrite fwd_generic by exact Hge.
  pose proof (rod_axis_unit r H0) as Hk.
  assert (Hscale : vscale ROps (vnorm ROps r) (rod_axis ROps r) = r)
    by (rewrite rod_axis_normalize; apply vnormalize_scale, Hr).
  set (t := vnorm ROps r) in *. set (k := rod_axis ROps r) in *. clearbody k.
  assert (Hc : -1 <= cos t <= 1) by apply COS_bound.
  unfold rodrigues_inv_of_proj, rod_inv_theta.
  rewrite rod_inv_s_matrix by (try exact Hk; lra). rewrite rod_inv_c_matrix by (try exact Hk; exact Hc).
  rops. rewrite (proj2 (Rltb_false _ _)) by exact Hs.
  rewrite acos_cos by lra. rewrite rod_antisym_matrix. f_equal.
  rewrite <- Hscale. clearbody t. destruct k as [x y z]. apply V3_inj; vunf; field; lra.
Qed.

(* ---- length of the result ---------------------------------------------------------------------- *)
Lemma acos_range x : 0 <= acos x <= PI.
Proof. apply acos_bound. Qed.

Lemma norm_scaled th q : 0 <= th -> vnorm ROps q <> 0 ->
  vnorm ROps (vscale ROps (ndiv ROps th (vnorm ROps q)) q) = th.
Proof.
  intros Ht Hq. rewrite vnorm_vscale. pose proof (vnorm_nonneg q) as Hn.
  set (nn := vnorm ROps q) in *. clearbody nn. rops.
  rewrite Rabs_pos_eq; [field; exact Hq|].
  apply Rmult_le_pos; [exact Ht | left; apply Rinv_0_lt_compat; lra].
Qed.

Lemma inv_norm_le_pi p v : rodrigues_inv_of_proj ROps p = Some v -> vnorm ROps v <= PI.
Proof.
  unfold rodrigues_inv_of_proj, rod_inv_theta.
  pose proof (acos_range (rod_inv_c ROps p)) as [Ha0 Hapi]. pose proof PI_RGT_0 as Hpi0.
  change (nacos ROps) with acos. change (nltb ROps) with Rltb. change (neqb ROps) with Reqb.
  set (th := acos (rod_inv_c ROps p)) in *. clearbody th.
  destruct (Rltb_spec (rod_inv_s ROps p) (rod_small ROps)) as [Hs|Hs].
  - destruct (Rltb_spec (n0 ROps) (rod_inv_c ROps p)).
    + intros E; injection E as <-. unfold vnorm, vnorm2, vzero; vunf.
      replace (0 * 0 + 0 * 0 + 0 * 0) with 0 by ring. rewrite sqrt_0. lra.
    + destruct (Reqb_spec (vnorm ROps (rod_half_axis ROps p)) (n0 ROps)) as [E0|E0]; [discriminate|].
      intros E.
      assert (Ev : v = vscale ROps (ndiv ROps th (vnorm ROps (rod_half_axis ROps p))) (rod_half_axis ROps p))
        by (injection E as E; symmetry; exact E).
      rewrite Ev, norm_scaled; [exact Hapi | exact Ha0 | exact E0].
  - intros E.
    assert (Ev : v = vscale ROps (1 / (2 * rod_inv_s ROps p) * th) (rod_antisym ROps p))
      by (injection E as E; symmetry; exact E).
    rewrite Ev, vnorm_vscale.
    pose proof rod_small_pos as Hsm.
    assert (Hw : vnorm ROps (rod_antisym ROps p) = 2 * rod_inv_s ROps p)
      by (unfold rod_inv_s, rod_half, nfrac; rops; field).
    rewrite Hw. set (s := rod_inv_s ROps p) in *. clearbody s.
    rewrite Rabs_pos_eq.
    + replace (1 / (2 * s) * th * (2 * s)) with th by (field; lra). exact Hapi.
    + apply Rmult_le_pos; [| exact Ha0]. unfold Rdiv. rewrite Rmult_1_l. left. apply Rinv_0_lt_compat. lra.
Qed.

(* ---- every proper rotation away from the snapping region is a Rodrigues matrix -------------------- *)
Lemma so3_repr (a b c d e f g h i : R) :
  let m := M3 a b c d e f g h i in
  m3mul ROps (m3transpose m) m = I3 ROps -> m3det ROps m = 1 ->
  let wx := h - f in let wy := c - g in let wz := d - b in
  let nn := wx * wx + wy * wy + wz * wz in
  let cc := (a + e + i - 1) * / 2 in
  cc * cc + nn * / 4 = 1 /\
  nn * a = nn * cc + (1 - cc) * (wx * wx) /\
  nn * b = (1 - cc) * (wy * wx) - nn * wz * / 2 /\
  nn * c = (1 - cc) * (wz * wx) + nn * wy * / 2 /\
  nn * d = (1 - cc) * (wx * wy) + nn * wz * / 2 /\
  nn * e = nn * cc + (1 - cc) * (wy * wy) /\
  nn * f = (1 - cc) * (wz * wy) - nn * wx * / 2 /\
  nn * g = (1 - cc) * (wx * wz) - nn * wy * / 2 /\
  nn * h = (1 - cc) * (wy * wz) + nn * wx * / 2 /\
  nn * i = nn * cc + (1 - cc) * (wz * wz).
Proof.
  intros m Ho Hd wx wy wz nn cc. subst m. munf_in Ho. munf_in Hd.
  injection Ho as H1 H2 H3 H4 H5 H6 H7 H8 H9.
  assert (Hh : 2 * / 2 = 1) by field. assert (Hq : 4 * / 4 = 1) by field.
  subst wx wy wz nn cc. set (h2 := / 2) in *. set (h4 := / 4) in *. clearbody h2 h4.
  repeat split.
  all: nsatz.
Qed.

Lemma proper_is_rod_matrix m : proper m -> 0 < rod_inv_s ROps m ->
  let s := rod_inv_s ROps m in
  let c := (a00 m + a11 m + a22 m - 1) * / 2 in
  let k := vscale ROps (1 / (2 * s)) (rod_antisym ROps m) in
  c * c + s * s = 1 /\ vnorm2 ROps k = 1 /\ m = rod_matrix ROps c s k.
Proof.
  intros (Ho & _ & Hd) Hs0 s c k. destruct m as [a b c0 d e f g h i].
  pose proof (so3_repr a b c0 d e f g h i Ho Hd) as H. cbv zeta in H.
  assert (Hnn : (h - f) * (h - f) + (c0 - g) * (c0 - g) + (d - b) * (d - b) = 4 * (s * s)).
  { subst s. unfold rod_inv_s, rod_half, nfrac, vnorm. rops.
    pose proof (vnorm2_nonneg (rod_antisym ROps (M3 a b c0 d e f g h i))) as Hn.
    set (q := vnorm2 ROps (rod_antisym ROps (M3 a b c0 d e f g h i))) in *.
    replace (sqrt q * (1 / 2) * (sqrt q * (1 / 2))) with (sqrt q * sqrt q / 4) by field.
    rewrite sqrt_sqrt by exact Hn. subst q. unfold rod_antisym; vunf; cbn [a00 a01 a02 a10 a11 a12 a20 a21 a22]. field. }
  subst c k. cbn [a00 a11 a22] in *. fold s in Hs0. clearbody s.
  destruct H as (Hc & Ha & Hb & Hc' & Hd' & He & Hf & Hg & Hh & Hi).
  assert (His : s * / s = 1) by (field; lra). assert (Hh2 : 2 * / 2 = 1) by field. assert (Hh4 : 4 * / 4 = 1) by field.
  unfold Rdiv. rewrite Rmult_1_l, Rinv_mult.
  set (is := / s) in *. set (h2 := / 2) in *. set (h4 := / 4) in *. clearbody is h2 h4.
  split; [nsatz|]. split.
  - unfold rod_antisym; vunf; cbn [a00 a01 a02 a10 a11 a12 a20 a21 a22]. nsatz.
  - apply M3_inj; runf; nsatz.
Qed.

(* what the inverse returns in the generic branch, in terms of the representation *)
Lemma inv_generic_repr proj m : proj_ok proj -> proper m -> rod_small ROps <= rod_inv_s ROps m ->
  let s := rod_inv_s ROps m in
  let c := (a00 m + a11 m + a22 m - 1) * / 2 in
  let k := vscale ROps (1 / (2 * s)) (rod_antisym ROps m) in
  let th := acos c in
  c * c + s * s = 1 /\ vnorm2 ROps k = 1 /\ m = rod_matrix ROps c s k /\
  rod_inv_c ROps m = c /\ cos th = c /\ sin th = s /\ s < th <= PI /\
  rodrigues_inv ROps proj m = Some (vscale ROps th k).
Proof.
  intros Hp Hm Hs s c k th. pose proof rod_small_pos as Hsm.
  assert (Hs0 : 0 < rod_inv_s ROps m) by lra.
  destruct (proper_is_rod_matrix m Hm Hs0) as (Hcs & Hk & Hrep). fold s c k in Hcs, Hk, Hrep.
  assert (Hc : -1 <= c <= 1) by (split; nra).
  assert (Hic : rod_inv_c ROps m = c).
  { unfold rod_inv_c. rops. unfold n1 at 1; rops.
    replace ((a00 m + a11 m + a22 m - 1) * rod_half ROps) with c by (subst c; unfold rod_half, nfrac; rops; field).
    apply nclip_id, Hc. }
  assert (Hcos : cos th = c) by (apply cos_acos, Hc).
  assert (Hsin : sin th = s).
  { subst th. rewrite sin_acos by exact Hc. replace (1 - c²) with (s²) by (unfold Rsqr; lra).
    apply sqrt_Rsqr. subst s; lra. }
  pose proof (acos_bound c) as [Hth0 Hthpi]. fold th in Hth0, Hthpi.
  assert (Hthpos : 0 < th).
  { destruct (Rle_lt_or_eq_dec _ _ Hth0) as [H|H]; [exact H|]. exfalso. rewrite <- H, sin_0 in Hsin. subst s; lra. }
  pose proof (sin_lt_x th Hthpos) as Hlt. rewrite Hsin in Hlt.
  repeat split; try assumption.
  unfold rodrigues_inv. destruct Hm as (Ho & _). rewrite (Hp m Ho).
  unfold rodrigues_inv_of_proj, rod_inv_theta. rewrite Hic.
  change (nltb ROps) with Rltb. rewrite (proj2 (Rltb_false _ _)) by exact Hs.
  f_equal. fold s. change (nacos ROps c) with th.
  subst k. destruct (rod_antisym ROps m) as [wx wy wz]. apply V3_inj; vunf; field; subst s; lra.
Qed.


(* fixed code: sqrt(clip(x, 0, inf)) is sqrt x on x >= 0 *)
Lemma diag_root_nonneg d : 0 <= (d + 1) * (1 / 2) -> rod_diag_root ROps d = sqrt ((d + 1) * (1 / 2)).
Proof.
  intros H. unfold rod_diag_root, rod_half, nfrac, nmax, n0, n1; rops.
  destruct (Rleb_spec ((d + 1) * (1 / 2)) 0); [|reflexivity]. f_equal. lra.
Qed.
