(* Lemmas about the shape-check model M_shape.v (C20, clause "strict about shapes").
   Everything here is for ALL shapes, patterns, bindings and contracts (induction over the lists). *)
From Coq Require Import List Bool Arith String Lia.
From PW Require Import Result.
From PW.model Require Import M_shape.
Import ListNotations.

(* ---- what it means for one dimension / a whole shape to be "as written in the pattern" ----------------- *)
Lemma match_dim_spec b d n : match_dim b d n = true <-> dim_ok b d n.
Proof.
  destruct d as [m| |x|x]; simpl.
  - apply Nat.eqb_eq.
  - tauto.
  - destruct (lookup b x) as [m|]; [rewrite Nat.eqb_eq|]; split; intros H; congruence.
  - destruct (lookup b x) as [m|].
    + rewrite Nat.eqb_eq. split; intros H; [left; congruence|destruct H as [H|H]; congruence].
    + split; intros H; auto.
Qed.

Lemma match_pattern_length b p : forall s, match_pattern b p s = true -> List.length p = List.length s.
Proof.
  induction p as [|d p IH]; intros [|n s]; simpl; intros H; try discriminate; auto.
  apply andb_true_iff in H. f_equal. apply IH. tauto.
Qed.

(* a shape matches a pattern iff same number of axes and every axis is as written *)
Lemma match_pattern_spec b p : forall s,
  match_pattern b p s = true <->
  (List.length p = List.length s /\
   forall i d n, nth_error p i = Some d -> nth_error s i = Some n -> dim_ok b d n).
Proof.
  induction p as [|d p IH]; intros [|n s]; simpl.
  - split; auto. intros _. split; auto. intros [|i]; simpl; discriminate.
  - split; [discriminate|]. intros [H _]; discriminate.
  - split; [discriminate|]. intros [H _]; discriminate.
  - rewrite andb_true_iff, match_dim_spec, IH. split.
    + intros [Hd [Hl Hi]]. split; [f_equal; exact Hl|].
      intros [|i] d' n'; simpl; intros A B.
      * inversion A; inversion B; subst; exact Hd.
      * eapply Hi; eauto.
    + intros [Hl Hi]. split; [apply (Hi 0%nat); reflexivity|].
      split; [inversion Hl; reflexivity|]. intros i d' n' A B. apply (Hi (S i)); assumption.
Qed.

(* the three rejection classes the property text names *)
Lemma extra_axis_rejected b p s n :
  match_pattern b p s = true -> match_pattern b p (s ++ [n]) = false /\ match_pattern b p (n :: s) = false.
Proof.
  intros H. apply match_pattern_length in H.
  split; apply not_true_is_false; intros H2; apply match_pattern_length in H2;
    [rewrite app_length in H2|]; simpl in H2; lia.
Qed.

Lemma wrong_literal_dim_rejected b p s i m n :
  nth_error p i = Some (DInt m) -> nth_error s i = Some n -> n <> m -> match_pattern b p s = false.
Proof.
  intros A B C. apply not_true_is_false. intros H. apply match_pattern_spec in H.
  destruct H as [_ H]. specialize (H i _ _ A B). simpl in H. contradiction.
Qed.

Lemma mismatched_length_rejected b p s i x k n :
  nth_error p i = Some (DVar x) -> lookup b x = Some k -> nth_error s i = Some n -> n <> k ->
  match_pattern b p s = false.
Proof.
  intros A L B C. apply not_true_is_false. intros H. apply match_pattern_spec in H.
  destruct H as [_ H]. specialize (H i _ _ A B). simpl in H. congruence.
Qed.

Lemma shape_eqb_eq s : forall t, shape_eqb s t = true <-> s = t.
Proof.
  induction s as [|n s IH]; intros [|m t]; simpl; split; intros H; try discriminate; auto.
  - apply andb_true_iff in H. destruct H as [A B]. apply Nat.eqb_eq in A. apply IH in B. congruence.
  - inversion H; subst. rewrite Nat.eqb_refl. simpl. apply IH. reflexivity.
Qed.

Lemma match_literal_pattern b s : forall t, match_pattern b (map DInt s) t = shape_eqb t s.
Proof.
  induction s as [|n s IH]; intros [|m t]; simpl; auto. rewrite IH. reflexivity.
Qed.

(* ---- check_shape_any takes the FIRST pattern that matches ------------------------------------------------- *)
Lemma check_any_first_match b ps : forall s p,
  first_match b ps s = Some p <->
  exists i, nth_error ps i = Some p /\ match_pattern b p s = true /\
            forall j q, (j < i)%nat -> nth_error ps j = Some q -> match_pattern b q s = false.
Proof.
  induction ps as [|p0 ps IH]; intros s p; simpl.
  - split; [discriminate|]. intros [[|i] [H _]]; discriminate.
  - destruct (match_pattern b p0 s) eqn:E.
    + split.
      * intros H; inversion H; subst. exists 0%nat. repeat split; auto. intros j q Hj; lia.
      * intros [[|i] [A [B C]]].
        -- simpl in A. congruence.
        -- specialize (C 0%nat p0 (Nat.lt_0_succ _) eq_refl). congruence.
    + rewrite IH. split.
      * intros [i [A [B C]]]. exists (S i). repeat split; auto.
        intros [|j] q Hj Hq; simpl in Hq; [inversion Hq; subst; exact E|]. apply (C j); auto; lia.
      * intros [[|i] [A [B C]]].
        -- simpl in A. inversion A; subst. congruence.
        -- exists i. repeat split; auto. intros j q Hj Hq. apply (C (S j)); auto; lia.
Qed.

Lemma first_match_none b ps s :
  first_match b ps s = None <-> forall p, In p ps -> match_pattern b p s = false.
Proof.
  induction ps as [|p0 ps IH]; simpl.
  - split; auto. intros _ p [].
  - destruct (match_pattern b p0 s) eqn:E.
    + split; [discriminate|]. intros H. specialize (H p0 (or_introl eq_refl)). congruence.
    + rewrite IH. split.
      * intros H p [->|Hin]; auto.
      * intros H p Hin. apply H. right; exact Hin.
Qed.

Lemma first_match_some_in b ps s p : first_match b ps s = Some p -> In p ps /\ match_pattern b p s = true.
Proof.
  intros H. apply check_any_first_match in H. destruct H as [i [A [B _]]].
  split; [eapply nth_error_In; eauto|exact B].
Qed.

(* ---- declarative meaning of one check ---------------------------------------------------------------------- *)
Lemma run_check_ok_iff c : forall args b b',
  run_check c args b = Ok b' <-> (check_holds c args b /\ b' = bindings_after c args b).
Proof.
  induction c as [a p bd|a ps bd|a p|a p|a other|a p|a|a c IH]; intros args b b';
    cbn [run_check check_holds bindings_after].
  - (* Check *)
    unfold matches_one_of, vraise. destruct (args a) as [| |s|ss]; try (split; [discriminate|intros [[s' [H _]] _]; discriminate]).
    destruct (match_pattern b p s) eqn:E.
    + split.
      * intros H; inversion H; subst. split; auto. exists s; split; auto. exists p; simpl; auto.
      * intros [_ ->]. reflexivity.
    + split; [discriminate|]. intros [[s' [H [p' [[<-|[]] Hm]]]] _]. inversion H; subst. congruence.
  - (* CheckAny *)
    unfold matches_one_of, vraise. destruct ps as [|p0 ps0].
    + split; [discriminate|]. intros [[s [_ [p [[] _]]]] _].
    + assert (NF : forall e b'', any_fail (p0 :: ps0) e <> Ok b'') by (intros; unfold any_fail; destruct ps0; discriminate).
      remember (p0 :: ps0) as ps. clear Heqps.
      destruct (args a) as [| |s|ss];
        try (split; [intros H; exfalso; exact (NF _ _ H)|intros [[s' [H _]] _]; discriminate]).
      destruct (first_match b ps s) as [p|] eqn:E.
      * split.
        -- intros H; inversion H; subst. split; auto. exists s; split; auto.
           apply first_match_some_in in E. exists p; exact E.
        -- intros [_ ->]. reflexivity.
      * split; [intros H; exfalso; exact (NF _ _ H)|]. intros [[s' [H [p' [Hin Hm]]]] _]. inversion H; subst.
        rewrite first_match_none in E. rewrite (E _ Hin) in Hm. discriminate.
  - (* Columnize *)
    unfold vraise.
    assert (G : forall s, (if match_pattern b (columnize_pattern p s) s then Ok b else Raise ValueError) = Ok b'
                     <-> (match_pattern b (columnize_pattern p s) s = true /\ b' = b)).
    { intros s. destruct (match_pattern b (columnize_pattern p s) s); split; intros H; try discriminate.
      - inversion H; auto. - destruct H as [_ ->]; auto. - destruct H; discriminate. }
    destruct p as [|d [|d2 p]].
    + destruct (args a) as [| |s|ss]; try (split; [discriminate|intros [[s' [H _]] _]; discriminate]).
      rewrite G. split.
      * intros [A B]. split; auto. exists s; auto.
      * intros [[s' [H A]] B]. inversion H; subst. auto.
    + unfold matches_one_of. destruct (args a) as [| |s|ss].
      * split; [discriminate|]. intros [[H|[s' [H _]]] _]; discriminate.
      * split; [intros H; inversion H; auto|intros [_ ->]; reflexivity].
      * destruct (match_pattern b [d] s) eqn:E.
        -- split; [|intros [_ ->]; reflexivity]. intros H; inversion H; subst. split; auto.
           right; exists s; split; auto. exists [d]. split; [left; reflexivity|exact E].
        -- split; [discriminate|]. intros [[H|[s' [H [p' [[<-|[]] Hm]]]]] _]; [discriminate|].
           inversion H; subst. congruence.
      * split; [discriminate|]. intros [[H|[s' [H _]]] _]; discriminate.
    + destruct (args a) as [| |s|ss]; try (split; [discriminate|intros [[s' [H _]] _]; discriminate]).
      rewrite G. split.
      * intros [A B]. split; auto. exists s; auto.
      * intros [[s' [H A]] B]. inversion H; subst. auto.
  - (* CheckFlat *)
    unfold vraise. destruct (args a) as [| |s|ss].
    + split; [discriminate|]. intros [[[s' [H _]]|[H _]] _]; discriminate.
    + destruct (match_pattern b p [1%nat]) eqn:E.
      * split; [intros H; inversion H; split; [right; split; reflexivity|reflexivity]|intros [_ ->]; reflexivity].
      * split; [discriminate|]. intros [[[s' [H _]]|[_ H]] _]; [discriminate|congruence].
    + destruct (match_pattern b p [size_of s]) eqn:E.
      * split; [intros H; inversion H; subst; split; auto; left; exists s; auto|intros [_ ->]; reflexivity].
      * split; [discriminate|]. intros [[[s' [H Hm]]|[H _]] _]; [inversion H; subst; congruence|discriminate].
    + split; [discriminate|]. intros [[[s' [H _]]|[H _]] _]; discriminate.
  - (* CheckSame *)
    unfold vraise. destruct (args other) as [| |so|ss]; try (split; [discriminate|intros [[s' [H _]] _]; discriminate]).
    destruct (args a) as [| |s|ss]; try (split; [discriminate|intros [[s' [_ H]] _]; discriminate]).
    destruct (shape_eqb s so) eqn:E.
    + apply shape_eqb_eq in E. subst. split; [intros H; inversion H; split; auto; exists so; auto|intros [_ ->]; reflexivity].
    + split; [discriminate|]. intros [[s' [A B]] _]. inversion A; inversion B; subst.
      assert (shape_eqb s' s' = true) by (apply shape_eqb_eq; reflexivity). congruence.
  - (* CheckEach *)
    unfold vraise. destruct (args a) as [| |s|ss].
    + split; [discriminate|]. intros [[[ss [H _]]|[n [s [H _]]]] _]; discriminate.
    + split; [discriminate|]. intros [[[ss [H _]]|[n [s [H _]]]] _]; discriminate.
    + destruct s as [|n s].
      * split; [discriminate|]. intros [[[ss [H _]]|[n [s [H _]]]] _]; discriminate.
      * destruct (Nat.eqb n 0 || match_pattern b p s) eqn:E.
        -- split; [|intros [_ ->]; reflexivity]. intros H; inversion H; subst. split; auto. right.
           exists n, s. split; auto. apply orb_true_iff in E. rewrite Nat.eqb_eq in E. exact E.
        -- split; [discriminate|]. intros [[[ss [H _]]|[n' [s' [H Hc]]]] _]; [discriminate|].
           inversion H; subst. apply orb_false_iff in E. destruct E as [E1 E2].
           destruct Hc as [->|Hc]; [discriminate|congruence].
    + destruct (forallb (match_pattern b p) ss) eqn:E.
      * split; [|intros [_ ->]; reflexivity]. intros H; inversion H; subst. split; auto. left.
        exists ss. split; auto. apply forallb_forall. exact E.
      * split; [discriminate|]. intros [[[ss' [H Hc]]|[n [s [H _]]]] _]; [|discriminate].
        inversion H; subst. rewrite <- forallb_forall in Hc. congruence.
  - (* NeedsShape *)
    destruct (args a) as [| |s|ss]; try (split; [discriminate|intros [[s' H] _]; discriminate]).
    split; [intros H; inversion H; split; auto; exists s; auto|intros [_ ->]; reflexivity].
  - (* IfPresent *)
    destruct (args a) as [| |s|ss] eqn:Ea.
    + split; [intros H; inversion H; auto|intros [_ ->]; reflexivity].
    + rewrite IH. split; [intros [A B]; auto|intros [[A|A] B]; [discriminate|auto]].
    + rewrite IH. split; [intros [A B]; auto|intros [[A|A] B]; [discriminate|auto]].
    + rewrite IH. split; [intros [A B]; auto|intros [[A|A] B]; [discriminate|auto]].
Qed.

(* ---- a whole contract ------------------------------------------------------------------------------------------ *)
(* the contract succeeds iff EVERY check's argument matches one of its patterns under the bindings
   accumulated so far: nothing is broadcast, skipped or silently accepted *)
Lemma run_contract_ok_iff cs : forall args b b',
  run_contract_from cs args b = Ok b' <-> (contract_holds cs args b /\ b' = final_bindings cs args b).
Proof.
  induction cs as [|c r IH]; intros args b b'; simpl.
  - split; [intros H; inversion H; auto|intros [_ ->]; reflexivity].
  - destruct (run_check c args b) as [b1|e] eqn:E; simpl.
    + apply run_check_ok_iff in E. destruct E as [Hc ->]. rewrite IH. tauto.
    + split; [discriminate|]. intros [[Hc _] _].
      assert (run_check c args b = Ok (bindings_after c args b)) by (apply run_check_ok_iff; auto). congruence.
Qed.

Lemma accepts_iff cs args b : accepts cs args b = true <-> contract_holds cs args b.
Proof.
  unfold accepts. destruct (run_contract_from cs args b) as [b'|e] eqn:E.
  - apply run_contract_ok_iff in E. tauto.
  - split; [discriminate|]. intros H.
    assert (run_contract_from cs args b = Ok (final_bindings cs args b)) by (apply run_contract_ok_iff; auto). congruence.
Qed.

Lemma run_contract_app cs1 cs2 args b :
  run_contract_from (cs1 ++ cs2) args b = rbind (run_contract_from cs1 args b) (fun b' => run_contract_from cs2 args b').
Proof.
  revert b. induction cs1 as [|c r IH]; intros b; simpl; auto.
  destruct (run_check c args b); simpl; auto.
Qed.

(* the first failing check decides: its exception is the contract's *)
Lemma run_contract_first_failure cs1 c cs2 args b b1 e :
  run_contract_from cs1 args b = Ok b1 -> run_check c args b1 = Raise e ->
  run_contract_from (cs1 ++ c :: cs2) args b = Raise e.
Proof.
  intros H1 H2. rewrite run_contract_app, H1. simpl. rewrite H2. reflexivity.
Qed.

(* ---- the exception class -------------------------------------------------------------------------------------- *)
(* the arguments have the Python kinds the checks are written for (arrays; a tuple for *transforms; None only
   for optional arguments).  Under that assumption a rejected call raises ValueError and nothing else. *)
Lemma failing_check_raises_ValueError c : forall args b e,
  kind_ok args c = true -> run_check c args b = Raise e -> e = ValueError.
Proof.
  induction c as [a p bd|a ps bd|a p|a p|a other|a p|a|a c IH]; intros args b e; cbn [run_check kind_ok]; unfold vraise.
  - intros _. destruct (args a); try (intros H; inversion H; reflexivity).
    destruct (match_pattern b p s); intros H; inversion H; reflexivity.
  - destruct ps as [|p0 [|p1 ps1]]; [intros _ H; inversion H; reflexivity|discriminate|].
    destruct (args a); try discriminate; intros _.
    + intros H; inversion H; reflexivity.
    + destruct (first_match b (p0 :: p1 :: ps1) s); intros H; inversion H; reflexivity.
  - destruct p as [|d [|d2 p]].
    + destruct (args a); try discriminate. intros _.
      destruct (match_pattern b _ s); intros H; inversion H; reflexivity.
    + intros _. destruct (args a); try (intros H; inversion H; reflexivity).
      destruct (match_pattern b [d] s); intros H; inversion H; reflexivity.
    + destruct (args a); try discriminate. intros _.
      destruct (match_pattern b _ s); intros H; inversion H; reflexivity.
  - intros _. destruct (args a); try (intros H; inversion H; reflexivity).
    + destruct (match_pattern b p [1%nat]); intros H; inversion H; reflexivity.
    + destruct (match_pattern b p [size_of s]); intros H; inversion H; reflexivity.
  - destruct (args other); try discriminate. intros _.
    destruct (args a); try (intros H; inversion H; reflexivity).
    destruct (shape_eqb s0 s); intros H; inversion H; reflexivity.
  - destruct (args a) as [| |[|n s]|ss]; try discriminate; intros _.
    + destruct (Nat.eqb n 0 || match_pattern b p s); intros H; inversion H; reflexivity.
    + destruct (forallb (match_pattern b p) ss); intros H; inversion H; reflexivity.
  - destruct (args a); try discriminate.
  - destruct (args a); try discriminate; apply IH.
Qed.

Lemma failing_contract_raises_ValueError cs : forall args b e,
  forallb (kind_ok args) cs = true -> run_contract_from cs args b = Raise e -> e = ValueError.
Proof.
  induction cs as [|c r IH]; intros args b e; simpl; [discriminate|].
  rewrite andb_true_iff. intros [K1 K2].
  destruct (run_check c args b) as [b1|e1] eqn:E; simpl.
  - apply IH; assumption.
  - intros H; inversion H; subst. eapply failing_check_raises_ValueError; eauto.
Qed.

(* hence: off-contract => exactly ValueError *)
Lemma off_contract_is_ValueError cs args b :
  forallb (kind_ok args) cs = true -> ~ contract_holds cs args b ->
  run_contract_from cs args b = Raise ValueError.
Proof.
  intros K H. destruct (run_contract_from cs args b) as [b'|e] eqn:E.
  - apply run_contract_ok_iff in E. tauto.
  - f_equal. eapply failing_contract_raises_ValueError; eauto.
Qed.

(* ---- columnize ------------------------------------------------------------------------------------------------- *)
(* for a pattern with at least two entries: an array is accepted iff it has the full rank and matches the
   whole pattern (the stacked form) or it matches the pattern without its first entry (the single form) *)
Lemma columnize_spec a d1 d2 p args b s :
  args a = AArr s ->
  (run_check (Columnize a (d1 :: d2 :: p)) args b = Ok b <->
   (match_pattern b (d1 :: d2 :: p) s = true \/
    (List.length s <> List.length (d1 :: d2 :: p) /\ match_pattern b (d2 :: p) s = true))) /\
  (run_check (Columnize a (d1 :: d2 :: p)) args b = Ok b \/
   run_check (Columnize a (d1 :: d2 :: p)) args b = Raise ValueError).
Proof.
  intros Ha. cbn [run_check]. rewrite Ha. unfold columnize_pattern, vraise.
  destruct (Nat.eqb (List.length s) (List.length (d1 :: d2 :: p))) eqn:El.
  - apply Nat.eqb_eq in El. cbn [tl].
    destruct (match_pattern b (d1 :: d2 :: p) s) eqn:E; split; auto.
    + split; auto.
    + split; [discriminate|]. intros [H|[H _]]; [discriminate|]. contradiction.
  - apply Nat.eqb_neq in El. cbn [tl].
    destruct (match_pattern b (d2 :: p) s) eqn:E; split; auto.
    + split; auto.
    + split; [discriminate|]. intros [H|[_ H]]; [|discriminate].
      apply match_pattern_length in H. congruence.
Qed.

(* the single form never has the rank of the stacked form, so the two alternatives are exclusive *)
Lemma columnize_forms_exclusive b d1 d2 p s :
  match_pattern b (d1 :: d2 :: p) s = true -> match_pattern b (d2 :: p) s = false.
Proof.
  intros H. apply not_true_is_false. intros H2.
  apply match_pattern_length in H. apply match_pattern_length in H2. simpl in *. lia.
Qed.

(* ---- coverage of documented arguments (used for the finite table in props/C20.v) ------------------------------ *)
Lemma mem_In x l : mem x l = true <-> In x l.
Proof.
  unfold mem. rewrite existsb_exists. split.
  - intros [y [H E]]. apply String.eqb_eq in E. subst; auto.
  - intros H. exists x. split; auto. apply String.eqb_refl.
Qed.

(* ---- finite tables about the golden contracts live in proofs/P_shape_tables.v ------------------------------- *)

(* ---- decidable equality of contracts (used by the golden-contract tie so that a failure prints `false = true`
        and the list of differing names instead of two 300-line terms) --------------------------------------- *)
Definition dim_eq_dec (x y : dim) : {x = y} + {x <> y}.
Proof. decide equality; try apply Nat.eq_dec; apply string_dec. Defined.
Definition ostring_eq_dec (x y : option string) : {x = y} + {x <> y}.
Proof. decide equality; apply string_dec. Defined.
Definition pattern_eq_dec : forall x y : pattern, {x = y} + {x <> y} := list_eq_dec dim_eq_dec.
Definition check_eq_dec (x y : check) : {x = y} + {x <> y}.
Proof.
  decide equality; try apply string_dec; try apply ostring_eq_dec; try apply pattern_eq_dec.
  apply (list_eq_dec pattern_eq_dec).
Defined.
Definition contracts_eq_dec : forall x y : contracts, {x = y} + {x <> y}.
Proof.
  apply list_eq_dec. intros [n c] [n' c'].
  destruct (string_dec n n') as [->|Hn]; [|right; congruence].
  destruct (list_eq_dec check_eq_dec c c') as [->|Hc]; [left; reflexivity|right; congruence].
Defined.
Definition decb {P : Prop} (d : {P} + {~ P}) : bool := if d then true else false.
Lemma dec_true {P : Prop} (d : {P} + {~ P}) : decb d = true -> P.
Proof. destruct d; [auto|discriminate]. Qed.
