(* Real-number lemmas for M_viewing.v (C12). *)
From Coq Require Import ZArith Reals Lra Psatz List Bool Lia Nsatz.
From PW Require Import Num NumR Vec Mat Result.
From PW.model Require Import M_viewing M_viewing_spec.
From PW.proofs Require Import P_vec P_mat.
Import ListNotations.
Local Open Scope R_scope.

(* ---------------------------------------------------------------------------------------------- *)
(* small 4x4 / 3x3 algebra used to avoid expanding 4x4 products of the camera matrix               *)
Lemma m33to44_mul a b : mmul ROps (m33to44 ROps a) (m33to44 ROps b) = m33to44 ROps (m3mul ROps a b).
Proof. dm3 a; dm3 b; mat_eq; ring. Qed.
Lemma mtranspose_m33to44 a : mtranspose (m33to44 ROps a) = m33to44 ROps (m3transpose a).
Proof. dm3 a; mat_eq; reflexivity. Qed.
Lemma m33to44_I3 : m33to44 ROps (I3 ROps) = I4 ROps.
Proof. mat_eq; reflexivity. Qed.
Lemma mtranslation_mul a b :
  mmul ROps (mtranslation ROps a) (mtranslation ROps b) = mtranslation ROps (vadd ROps a b).
Proof. dv a; dv b; mat_eq; ring. Qed.
Lemma mtranslation_neg_r a : mmul ROps (mtranslation ROps a) (mtranslation ROps (vneg ROps a)) = I4 ROps.
Proof. dv a; mat_eq; ring. Qed.
Lemma mtranslation_neg_l a : mmul ROps (mtranslation ROps (vneg ROps a)) (mtranslation ROps a) = I4 ROps.
Proof. dv a; mat_eq; ring. Qed.
Lemma mapply_pt_rot_trans r t p :
  mapply_pt ROps (mmul ROps (m33to44 ROps r) (mtranslation ROps (vneg ROps t))) p = m3apply ROps r (vsub ROps p t).
Proof. dm3 r; dv t; dv p. apply V3_inj; munf; ring. Qed.
Lemma mapply_vec_rot_trans r t p :
  mapply_vec ROps (mmul ROps (m33to44 ROps r) (mtranslation ROps (vneg ROps t))) p = m3apply ROps r p.
Proof. dm3 r; dv t; dv p. apply V3_inj; munf; ring. Qed.
Lemma m3apply_rows r0 r1 r2 v :
  m3apply ROps (m3rows r0 r1 r2) v = V3 (vdot ROps r0 v) (vdot ROps r1 v) (vdot ROps r2 v).
Proof. dv r0; dv r1; dv r2; dv v. apply V3_inj; munf; ring. Qed.
Lemma m3apply_sub r a b : m3apply ROps r (vsub ROps a b) = vsub ROps (m3apply ROps r a) (m3apply ROps r b).
Proof. dm3 r; dv a; dv b. apply V3_inj; munf; ring. Qed.
(* a matrix with orthonormal columns preserves the squared norm *)
Lemma m3_orth_preserves_norm2 r v :
  m3mul ROps (m3transpose r) r = I3 ROps -> vnorm2 ROps (m3apply ROps r v) = vnorm2 ROps v.
Proof.
  destruct r as [a b c d e f g h i]; dv v. intros H. munf_in H. injection H as H1 H2 H3 H4 H5 H6 H7 H8 H9.
  munf. nsatz.
Qed.

(* ---------------------------------------------------------------------------------------------- *)
(* the camera frame                                                                                *)
Definition orthoframe (left look : vec3 R) : Prop :=
  vnorm2 ROps left = 1 /\ vnorm2 ROps look = 1 /\ vdot ROps left look = 0.

Lemma frame_rows_orthonormal left look : orthoframe left look ->
  let r := m3rows left (vcross ROps left look) look in m3mul ROps r (m3transpose r) = I3 ROps.
Proof.
  destruct left as [a b c], look as [d e f]. intros (H1 & H2 & H3). vunf_in H1. vunf_in H2. vunf_in H3.
  cbv zeta. mat3_eq; nsatz.
Qed.

Lemma vsub_nonzero a b : a <> b -> vsub ROps a b <> V3 0 0 0.
Proof.
  destruct a as [x y z], b as [x' y' z']. intros H E. apply H. vunf_in E. injection E as E1 E2 E3.
  apply V3_ext; lra.
Qed.
Lemma vscale_nonzero s a : s <> 0 -> a <> V3 0 0 0 -> vscale ROps s a <> V3 0 0 0.
Proof.
  destruct a as [x y z]. intros Hs H E. apply H. vunf_in E. injection E as E1 E2 E3.
  apply V3_ext; [apply (Rmult_eq_reg_l s) | apply (Rmult_eq_reg_l s) | apply (Rmult_eq_reg_l s)]; try assumption; lra.
Qed.
Lemma vnormalize_as_scale a : vnormalize ROps a = vscale ROps (/ vnorm ROps a) a.
Proof. unfold vnormalize. generalize (vnorm ROps a); intros n. destruct a as [x y z]. vec_eq; unfold Rdiv; ring. Qed.
Lemma vcross_scale_l s a b : vcross ROps (vscale ROps s a) b = vscale ROps s (vcross ROps a b).
Proof. dv a; dv b. vec_eq; ring. Qed.
Lemma vdot_scale_l' s a b : vdot ROps (vscale ROps s a) b = s * vdot ROps a b.
Proof. dv a; dv b. vunf; ring. Qed.

Section Frame.
  Context (position target up : vec3 R).
  Let d := vsub ROps target position.
  Let look := w2v_look ROps position target.
  Let left := w2v_left ROps position target up.
  Let up' := w2v_up ROps position target up.
  Context (Hd : target <> position) (Hc : vcross ROps d up <> V3 0 0 0).

  Lemma w2v_d_nonzero : d <> V3 0 0 0.
  Proof. apply vsub_nonzero, Hd. Qed.
  Lemma w2v_dist_pos : 0 < vnorm ROps d.
  Proof. apply vnorm_pos, w2v_d_nonzero. Qed.
  Lemma w2v_look_scale : look = vscale ROps (/ vnorm ROps d) d.
  Proof. apply vnormalize_as_scale. Qed.
  Lemma w2v_d_is_scaled_look : d = vscale ROps (vnorm ROps d) look.
  Proof. symmetry. apply vnormalize_scale, w2v_d_nonzero. Qed.
  Lemma w2v_cross_nonzero : vcross ROps look up <> V3 0 0 0.
  Proof.
    rewrite w2v_look_scale, vcross_scale_l. apply vscale_nonzero; [|exact Hc].
    apply Rinv_neq_0_compat. pose proof w2v_dist_pos. lra.
  Qed.
  Lemma w2v_left_scale : left = vscale ROps (/ vnorm ROps (vcross ROps look up)) (vcross ROps look up).
  Proof. apply vnormalize_as_scale. Qed.
  Lemma w2v_orthoframe : orthoframe left look.
  Proof.
    repeat split.
    - apply vnormalize_unit, w2v_cross_nonzero.
    - apply vnormalize_unit, w2v_d_nonzero.
    - rewrite w2v_left_scale, vdot_scale_l', vdot_comm, vcross_orth_l. ring.
  Qed.
  Lemma w2v_rot_orth_rows :
    let r := w2v_rot3 ROps position target up in m3mul ROps r (m3transpose r) = I3 ROps.
  Proof. apply (frame_rows_orthonormal left look), w2v_orthoframe. Qed.
  Lemma w2v_rot_orth_cols :
    let r := w2v_rot3 ROps position target up in m3mul ROps (m3transpose r) r = I3 ROps.
  Proof. apply m3_left_inv_right_inv, w2v_rot_orth_rows. Qed.

  (* forward matrix acts as  p |-> R (p - position) *)
  Lemma w2v_fwd_apply p :
    mapply_pt ROps (w2v_mat ROps position target up false) p
    = m3apply ROps (w2v_rot3 ROps position target up) (vsub ROps p position).
  Proof. unfold w2v_mat, compose2. apply mapply_pt_rot_trans. Qed.
  Lemma w2v_fwd_apply_vec v :
    mapply_vec ROps (w2v_mat ROps position target up false) v = m3apply ROps (w2v_rot3 ROps position target up) v.
  Proof. unfold w2v_mat, compose2. apply mapply_vec_rot_trans. Qed.

  Lemma w2v_isometry a b :
    vdist ROps (mapply_pt ROps (w2v_mat ROps position target up false) a)
               (mapply_pt ROps (w2v_mat ROps position target up false) b) = vdist ROps a b.
  Proof.
    rewrite !w2v_fwd_apply. unfold vdist, vnorm. rewrite <- m3apply_sub.
    rewrite (m3_orth_preserves_norm2 _ _ w2v_rot_orth_cols).
    f_equal. destruct a, b, position. vunf. ring.
  Qed.
  Lemma w2v_vec_norm v :
    vnorm ROps (mapply_vec ROps (w2v_mat ROps position target up false) v) = vnorm ROps v.
  Proof. rewrite w2v_fwd_apply_vec. unfold vnorm. rewrite (m3_orth_preserves_norm2 _ _ w2v_rot_orth_cols). reflexivity. Qed.

  Lemma w2v_position_to_origin :
    mapply_pt ROps (w2v_mat ROps position target up false) position = V3 0 0 0.
  Proof.
    rewrite w2v_fwd_apply. generalize (w2v_rot3 ROps position target up); intros r.
    dm3 r; destruct position. apply V3_inj; munf; ring.
  Qed.

  Lemma w2v_target_on_pos_z :
    mapply_pt ROps (w2v_mat ROps position target up false) target = V3 0 0 (vdist ROps target position)
    /\ 0 < vdist ROps target position.
  Proof.
    split; [|exact w2v_dist_pos].
    rewrite w2v_fwd_apply. unfold w2v_rot3. rewrite m3apply_rows. fold d left look up'.
    destruct w2v_orthoframe as (H1 & H2 & H3).
    rewrite w2v_d_is_scaled_look at 1 2 3. rewrite !vdot_scale_r. fold look.
    unfold vdist. fold d.
    apply V3_ext.
    - rewrite H3; ring.
    - unfold up', w2v_up. fold left look. rewrite (vdot_comm _ look), vcross_orth_r. ring.
    - change (vdot ROps look look) with (vnorm2 ROps look). rewrite H2. ring.
  Qed.

  Lemma w2v_up_in_yz_pos_y :
    let u := mapply_vec ROps (w2v_mat ROps position target up false) up in vx u = 0 /\ 0 < vy u.
  Proof.
    cbv zeta. rewrite w2v_fwd_apply_vec. unfold w2v_rot3. rewrite m3apply_rows. cbn [vx vy].
    unfold w2v_up. fold left look. pose proof w2v_cross_nonzero as Hn. apply vnorm_pos in Hn.
    pose proof (vnorm_sq (vcross ROps look up)) as Hs.
    rewrite w2v_left_scale.
    set (c := vcross ROps look up) in *. set (n := vnorm ROps c) in *.
    split.
    - rewrite vdot_scale_l'. unfold c. rewrite (vdot_comm _ up), vcross_orth_r. ring.
    - (* (left x look) . up = left . (look x up) = |c| *)
      assert (E : vdot ROps (vcross ROps (vscale ROps (/ n) c) look) up = n).
      { rewrite vcross_scale_l, vdot_scale_l'.
        assert (T : vdot ROps (vcross ROps c look) up = vnorm2 ROps c).
        { unfold c. destruct look as [a b e], up as [x y z]. vunf. ring. }
        rewrite T, <- Hs. field. lra. }
      rewrite E. exact Hn.
  Qed.

  (* inverse=True really inverts, both orders *)
  Lemma w2v_inverse_left :
    mmul ROps (w2v_mat ROps position target up true) (w2v_mat ROps position target up false) = I4 ROps.
  Proof.
    unfold w2v_mat, compose2. rewrite mtranspose_m33to44.
    rewrite mmul_assoc, <- (mmul_assoc (m33to44 ROps _) (m33to44 ROps _)), m33to44_mul.
    rewrite w2v_rot_orth_cols, m33to44_I3, mmul_I4_l. apply mtranslation_neg_r.
  Qed.
  Lemma w2v_inverse_right :
    mmul ROps (w2v_mat ROps position target up false) (w2v_mat ROps position target up true) = I4 ROps.
  Proof.
    unfold w2v_mat, compose2. rewrite mtranspose_m33to44.
    rewrite mmul_assoc, <- (mmul_assoc (mtranslation ROps _) (mtranslation ROps _)), mtranslation_neg_l, mmul_I4_l.
    rewrite m33to44_mul, w2v_rot_orth_rows. apply m33to44_I3.
  Qed.

  Lemma w2v_defined inv :
    world_to_view ROps position target up inv = Some (w2v_mat ROps position target up inv).
  Proof.
    unfold world_to_view, w2v_degenerate, is0. fold d. unfold n0; rops.
    destruct (Reqb_spec (vnorm2 ROps d) 0) as [E|_].
    - exfalso. apply w2v_d_nonzero, vnorm2_zero, E.
    - destruct (Reqb_spec (vnorm2 ROps (vcross ROps d up)) 0) as [E|_]; [|reflexivity].
      exfalso. apply Hc, vnorm2_zero, E.
  Qed.
End Frame.

(* ---------------------------------------------------------------------------------------------- *)
(* orthographic projection                                                                         *)
Ltac viewunf := cbv [ortho_mat ortho_mat_c ortho_zscale ortho_ztrans viewport_mat compose2 compose3 half nfrac canvas_compose].

Lemma ortho_apply w h n f x y z : 0 < w -> 0 < h -> n < f ->
  mapply_pt ROps (ortho_mat ROps w h n f false) (V3 x y z)
  = V3 (2 * x / w) (2 * y / h) ((- 2 * z - (f + n)) / (f - n)).
Proof. intros. viewunf. apply V3_inj; munf; field; lra. Qed.


Lemma scaled_interval c x lo hi : 0 < c -> (lo <= x <= hi <-> lo * c <= x * c <= hi * c).
Proof. intros Hc. split; intros [A B]; split; nra. Qed.

Lemma ortho_box_iff_cube w h n f p : 0 < w -> 0 < h -> n < f ->
  (in_view_box w h n f p <-> in_cube (mapply_pt ROps (ortho_mat ROps w h n f false) p)).
Proof.
  intros Hw Hh Hnf. destruct p as [x y z]. rewrite ortho_apply by assumption.
  unfold in_view_box, in_cube; cbn [vx vy vz].
  rewrite (scaled_interval w (2 * x / w) (-1) 1 Hw), (scaled_interval h (2 * y / h) (-1) 1 Hh).
  rewrite (scaled_interval (f - n) ((-2 * z - (f + n)) / (f - n)) (-1) 1) by lra.
  replace (2 * x / w * w) with (2 * x) by (field; lra).
  replace (2 * y / h * h) with (2 * y) by (field; lra).
  replace ((-2 * z - (f + n)) / (f - n) * (f - n)) with (-2 * z - (f + n)) by (field; lra).
  lra.
Qed.

Lemma ortho_corners w h n f sx sy : 0 < w -> 0 < h -> n < f ->
  mapply_pt ROps (ortho_mat ROps w h n f false) (V3 (sx * (w / 2)) (sy * (h / 2)) (- n)) = V3 sx sy (-1) /\
  mapply_pt ROps (ortho_mat ROps w h n f false) (V3 (sx * (w / 2)) (sy * (h / 2)) (- f)) = V3 sx sy 1.
Proof. intros. rewrite !ortho_apply by assumption. split; apply V3_ext; field; lra. Qed.

Lemma ortho_inverse w h n f : 0 < w -> 0 < h -> n < f ->
  mmul ROps (ortho_mat ROps w h n f true) (ortho_mat ROps w h n f false) = I4 ROps /\
  mmul ROps (ortho_mat ROps w h n f false) (ortho_mat ROps w h n f true) = I4 ROps.
Proof. intros. viewunf. split; mat_eq; field; lra. Qed.

Lemma ortho_defined w h n f inv : 0 < w -> 0 < h -> n < f ->
  view_to_orthographic_projection ROps w h n f inv = Ok (ortho_mat ROps w h n f inv).
Proof.
  intros. unfold view_to_orthographic_projection, is0, n0; rops.
  destruct (Reqb_spec (f - n) 0); [lra|]. destruct (Reqb_spec w 0); [lra|]. destruct (Reqb_spec h 0); [lra|].
  destruct inv; reflexivity.
Qed.

(* ---------------------------------------------------------------------------------------------- *)
(* viewport                                                                                        *)
Lemma viewport_apply xr yb xl yt x y z :
  mapply_pt ROps (viewport_mat ROps xr yb xl yt false) (V3 x y z)
  = V3 (xl + (x + 1) / 2 * (xr - xl)) (yb + (y + 1) / 2 * (yt - yb)) ((z + 1) / 2).
Proof. viewunf. apply V3_inj; munf; field. Qed.

Lemma viewport_corners xr yb xl yt z :
  mapply_pt ROps (viewport_mat ROps xr yb xl yt false) (V3 (-1) (-1) z) = V3 xl yb ((z + 1) / 2) /\
  mapply_pt ROps (viewport_mat ROps xr yb xl yt false) (V3 1 (-1) z) = V3 xr yb ((z + 1) / 2) /\
  mapply_pt ROps (viewport_mat ROps xr yb xl yt false) (V3 (-1) 1 z) = V3 xl yt ((z + 1) / 2) /\
  mapply_pt ROps (viewport_mat ROps xr yb xl yt false) (V3 1 1 z) = V3 xr yt ((z + 1) / 2).
Proof. rewrite !viewport_apply. repeat split; apply V3_ext; field. Qed.

Lemma viewport_z_to_unit xr yb xl yt x y z :
  let q := mapply_pt ROps (viewport_mat ROps xr yb xl yt false) (V3 x y z) in
  (z = -1 -> vz q = 0) /\ (z = 1 -> vz q = 1) /\ (-1 <= z <= 1 <-> 0 <= vz q <= 1).
Proof. cbv zeta. rewrite viewport_apply. cbn [vz]. repeat split; intros; lra. Qed.

Lemma viewport_inverse xr yb xl yt : xr <> xl -> yt <> yb ->
  mmul ROps (viewport_mat ROps xr yb xl yt true) (viewport_mat ROps xr yb xl yt false) = I4 ROps /\
  mmul ROps (viewport_mat ROps xr yb xl yt false) (viewport_mat ROps xr yb xl yt true) = I4 ROps.
Proof. intros. viewunf. split; mat_eq; field; lra. Qed.

Lemma viewport_defined xr yb xl yt inv : xr <> xl -> yt <> yb ->
  viewport_transform ROps xr yb xl yt inv = Ok (viewport_mat ROps xr yb xl yt inv).
Proof.
  intros. unfold viewport_transform, is0, n0; rops.
  destruct (Reqb_spec (xr - xl) 0); [lra|]. destruct (Reqb_spec (yt - yb) 0); [lra|].
  destruct inv; reflexivity.
Qed.

(* ---------------------------------------------------------------------------------------------- *)
(* canvas = the three stages                                                                       *)
Lemma affine_m33to44 r : affine ROps (m33to44 ROps r).
Proof. dm3 r. munf. repeat split; reflexivity. Qed.
Lemma affine_mtranslation t : affine ROps (mtranslation ROps t).
Proof. dv t. munf. repeat split; reflexivity. Qed.
Lemma affine_w2v p t u : affine ROps (w2v_mat ROps p t u false).
Proof. unfold w2v_mat, compose2. apply affine_mmul; [apply affine_m33to44 | apply affine_mtranslation]. Qed.
Lemma affine_ortho w h n f : affine ROps (ortho_mat ROps w h n f false).
Proof. viewunf. munf. repeat split; ring. Qed.
Lemma affine_viewport xr yb xl yt : affine ROps (viewport_mat ROps xr yb xl yt false).
Proof. viewunf. munf. repeat split; ring. Qed.

Lemma canvas_is_three_stages w h p t zoom :
  canvas_mat ROps w h p t zoom false =
    mmul ROps (mmul ROps (viewport_mat ROps w h 0 0 false) (ortho_mat ROps (w / zoom) (h / zoom) (1 / 10) 2000 false))
              (w2v_mat ROps p t (V3 0 1 0) false) /\
  canvas_mat ROps w h p t zoom true =
    mmul ROps (mmul ROps (w2v_mat ROps p t (V3 0 1 0) true) (ortho_mat ROps (w / zoom) (h / zoom) (1 / 10) 2000 true))
              (viewport_mat ROps w h 0 0 true).
Proof. split; reflexivity. Qed.

Lemma canvas_apply_stages w h p t zoom x :
  mapply_pt ROps (canvas_mat ROps w h p t zoom false) x =
  mapply_pt ROps (viewport_mat ROps w h 0 0 false)
    (mapply_pt ROps (ortho_mat ROps (w / zoom) (h / zoom) (1 / 10) 2000 false)
       (mapply_pt ROps (w2v_mat ROps p t (V3 0 1 0) false) x)).
Proof.
  destruct (canvas_is_three_stages w h p t zoom) as [E _]. rewrite E.
  rewrite mapply_pt_mmul by apply affine_w2v. rewrite mapply_pt_mmul by apply affine_ortho. reflexivity.
Qed.

Lemma three_stage_inverse a b c a' b' c' :
  mmul ROps a' a = I4 ROps -> mmul ROps b' b = I4 ROps -> mmul ROps c' c = I4 ROps ->
  mmul ROps (mmul ROps (mmul ROps a' b') c') (mmul ROps (mmul ROps c b) a) = I4 ROps.
Proof.
  intros Ha Hb Hc. rewrite !mmul_assoc. rewrite <- (mmul_assoc c' c), Hc, mmul_I4_l.
  rewrite <- (mmul_assoc b' b), Hb, mmul_I4_l. exact Ha.
Qed.

Lemma three_stage_inverse_r a b c a' b' c' :
  mmul ROps a a' = I4 ROps -> mmul ROps b b' = I4 ROps -> mmul ROps c c' = I4 ROps ->
  mmul ROps (mmul ROps (mmul ROps c b) a) (mmul ROps (mmul ROps a' b') c') = I4 ROps.
Proof.
  intros Ha Hb Hc. rewrite !mmul_assoc. rewrite <- (mmul_assoc a a'), Ha, mmul_I4_l.
  rewrite <- (mmul_assoc b b'), Hb, mmul_I4_l. exact Hc.
Qed.

Lemma canvas_inverse w h p t zoom : 0 < w -> 0 < h -> 0 < zoom -> t <> p ->
  vcross ROps (vsub ROps t p) (V3 0 1 0) <> V3 0 0 0 ->
  mmul ROps (canvas_mat ROps w h p t zoom true) (canvas_mat ROps w h p t zoom false) = I4 ROps /\
  mmul ROps (canvas_mat ROps w h p t zoom false) (canvas_mat ROps w h p t zoom true) = I4 ROps.
Proof.
  intros Hw Hh Hz Ht Hu. destruct (canvas_is_three_stages w h p t zoom) as [Ef Ei]. rewrite Ef, Ei.
  assert (Hwz : 0 < w / zoom) by (apply Rdiv_lt_0_compat; assumption).
  assert (Hhz : 0 < h / zoom) by (apply Rdiv_lt_0_compat; assumption).
  destruct (ortho_inverse (w / zoom) (h / zoom) (1 / 10) 2000 Hwz Hhz ltac:(lra)) as [O1 O2].
  destruct (viewport_inverse w h 0 0 ltac:(lra) ltac:(lra)) as [V1 V2].
  split.
  - apply three_stage_inverse; [apply w2v_inverse_left; assumption | exact O1 | exact V1].
  - apply three_stage_inverse_r; [apply w2v_inverse_right; assumption | exact O2 | exact V2].
Qed.

Lemma canvas_defined w h p t zoom inv : 0 < w -> 0 < h -> 0 < zoom -> t <> p ->
  vcross ROps (vsub ROps t p) (V3 0 1 0) <> V3 0 0 0 ->
  world_to_canvas ROps w h p t zoom inv = Ok (Some (canvas_mat ROps w h p t zoom inv)).
Proof.
  intros Hw Hh Hz Ht Hu. unfold world_to_canvas.
  pose proof (w2v_defined p t (V3 0 1 0) Ht Hu inv) as Hd. unfold world_to_view in Hd.
  unfold is0 at 1 2 3. unfold n0; rops.
  destruct (Reqb_spec zoom 0); [lra|]. destruct (Reqb_spec w 0); [lra|]. destruct (Reqb_spec h 0); [lra|].
  cbn [orb]. change (basis_y ROps) with (V3 0 1 0).
  destruct (w2v_degenerate ROps p t (V3 0 1 0)); [discriminate|reflexivity].
Qed.


(* ---------------------------------------------------------------------------------------------- *)
(* canvas through the FUNCTION-level definitions (with their error / NaN outcomes): whenever the canvas function returns a
   matrix, the three public stage functions called with (position, target, default up), (w/zoom, h/zoom, 0.1, 2000) and
   (x_right = w, y_bottom = h, 0, 0) return matrices too, and the canvas matrix is their product in order *)
Lemma canvas_is_product_of_function_results w h p t zoom inv m :
  world_to_canvas ROps w h p t zoom inv = Ok (Some m) ->
  exists a b c,
    world_to_view ROps p t (V3 0 1 0) inv = Some a /\
    view_to_orthographic_projection ROps (w / zoom) (h / zoom) (1 / 10) 2000 inv = Ok b /\
    viewport_transform ROps w h 0 0 inv = Ok c /\
    m = if inv then mmul ROps (mmul ROps a b) c else mmul ROps (mmul ROps c b) a.
Proof.
  unfold world_to_canvas, world_to_view. change (basis_y ROps) with (V3 0 1 0).
  unfold is0 at 1 2 3. unfold n0; rops.
  destruct (Reqb_spec zoom 0) as [|Hz]; [discriminate|].
  destruct (Reqb_spec w 0) as [|Hw]; [discriminate|].
  destruct (Reqb_spec h 0) as [|Hh]; [discriminate|]. cbn [orb].
  destruct (w2v_degenerate ROps p t (V3 0 1 0)); [discriminate|].
  intros E. injection E as <-.
  assert (Hwz : w / zoom <> 0) by (unfold Rdiv; apply Rmult_integral_contrapositive_currified; [exact Hw | apply Rinv_neq_0_compat, Hz]).
  assert (Hhz : h / zoom <> 0) by (unfold Rdiv; apply Rmult_integral_contrapositive_currified; [exact Hh | apply Rinv_neq_0_compat, Hz]).
  exists (w2v_mat ROps p t (V3 0 1 0) inv), (ortho_mat ROps (w / zoom) (h / zoom) (1 / 10) 2000 inv),
         (viewport_mat ROps w h 0 0 inv).
  split; [reflexivity|]. split.
  - unfold view_to_orthographic_projection, is0, n0; rops.
    destruct (Reqb_spec (2000 - 1 / 10) 0); [lra|].
    destruct (Reqb_spec (w / zoom) 0); [contradiction|]. destruct (Reqb_spec (h / zoom) 0); [contradiction|].
    destruct inv; reflexivity.
  - split.
    + unfold viewport_transform, is0, n0; rops.
      destruct (Reqb_spec (w - 0) 0); [lra|]. destruct (Reqb_spec (0 - h) 0); [lra|]. destruct inv; reflexivity.
    + destruct inv; reflexivity.
Qed.

(* the other outcomes of the canvas function, in terms of the stage functions *)
Lemma div_zero_iff a z : z <> 0 -> (a / z = 0 <-> a = 0).
Proof.
  intros Hz. split; intros H.
  - apply (Rmult_eq_reg_r (/ z)); [|apply Rinv_neq_0_compat, Hz]. unfold Rdiv in H. rewrite H. ring.
  - subst. unfold Rdiv. ring.
Qed.

Lemma canvas_raises_iff w h p t zoom inv e :
  world_to_canvas ROps w h p t zoom inv = Raise e <->
  e = ZeroDivisionError /\
  (zoom = 0 \/ view_to_orthographic_projection ROps (w / zoom) (h / zoom) (1 / 10) 2000 inv = Raise ZeroDivisionError
            \/ viewport_transform ROps w h 0 0 inv = Raise ZeroDivisionError).
Proof.
  unfold world_to_canvas, view_to_orthographic_projection, viewport_transform, is0, n0; rops.
  destruct (Reqb_spec (2000 - 1 / 10) 0) as [|_]; [lra|].
  destruct (Reqb_spec zoom 0) as [Hz|Hz].
  - cbn [orb]. split; [intros E; injection E as <-; auto | intros [-> _]; reflexivity].
  - pose proof (div_zero_iff w zoom Hz) as Dw. pose proof (div_zero_iff h zoom Hz) as Dh.
    destruct (Reqb_spec w 0) as [Hw|Hw]; destruct (Reqb_spec h 0) as [Hh|Hh];
    destruct (Reqb_spec (w / zoom) 0) as [Hwz|Hwz]; destruct (Reqb_spec (h / zoom) 0) as [Hhz|Hhz];
    try (exfalso; tauto);
    destruct (Reqb_spec (w - 0) 0) as [Hw0|Hw0]; try (exfalso; lra);
    destruct (Reqb_spec (0 - h) 0) as [Hh0|Hh0]; try (exfalso; lra);
    cbn [orb andb negb]; destruct inv; cbn [orb andb negb];
    try (split; [intros E; injection E as <-; auto | intros [-> _]; reflexivity]);
    destruct (w2v_degenerate ROps p t (basis_y ROps));
    (split; [discriminate | intros [_ [A|[A|A]]]; [contradiction | discriminate | discriminate]]).
Qed.

Lemma canvas_nan_iff w h p t zoom inv :
  world_to_canvas ROps w h p t zoom inv = Ok None <->
  zoom <> 0 /\ (exists b, view_to_orthographic_projection ROps (w / zoom) (h / zoom) (1 / 10) 2000 inv = Ok b) /\
  (exists c, viewport_transform ROps w h 0 0 inv = Ok c) /\ world_to_view ROps p t (V3 0 1 0) inv = None.
Proof.
  split.
  - intros E. destruct (world_to_view ROps p t (V3 0 1 0) inv) as [a|] eqn:Ea.
    + exfalso. unfold world_to_canvas, world_to_view in *. change (basis_y ROps) with (V3 0 1 0) in E.
      destruct (w2v_degenerate ROps p t (V3 0 1 0)); [discriminate|].
      destruct (is0 ROps zoom || is0 ROps w || is0 ROps h); discriminate.
    + assert (N : forall e, world_to_canvas ROps w h p t zoom inv <> Raise e) by (intros e; rewrite E; discriminate).
      assert (Hz : zoom <> 0).
      { intros Z. apply (N ZeroDivisionError). apply canvas_raises_iff. auto. }
      split; [exact Hz|]. split; [|split; [|reflexivity]].
      * destruct (view_to_orthographic_projection ROps (w / zoom) (h / zoom) (1 / 10) 2000 inv) as [b|e] eqn:Eb; [eauto|].
        exfalso. apply (N ZeroDivisionError). apply canvas_raises_iff. split; [reflexivity|]. right; left.
        revert Eb. unfold view_to_orthographic_projection.
        destruct (is0 ROps (nsub ROps 2000 (1 / 10))); [intros Eb; injection Eb as <-; reflexivity|].
        destruct (negb inv && (is0 ROps (w / zoom) || is0 ROps (h / zoom))); [intros Eb; injection Eb as <-; reflexivity | discriminate].
      * destruct (viewport_transform ROps w h 0 0 inv) as [c|e] eqn:Ec; [eauto|].
        exfalso. apply (N ZeroDivisionError). apply canvas_raises_iff. split; [reflexivity|]. right; right.
        revert Ec. unfold viewport_transform.
        destruct (inv && (is0 ROps (nsub ROps w 0) || is0 ROps (nsub ROps 0 h))); [intros Ec; injection Ec as <-; reflexivity | discriminate].
  - intros (Hz & [b Eb] & [c Ec] & En).
    destruct (world_to_canvas ROps w h p t zoom inv) as [[m|]|e] eqn:E; [| reflexivity |].
    + destruct (canvas_is_product_of_function_results _ _ _ _ _ _ _ E) as (a & _ & _ & Ea & _). congruence.
    + apply canvas_raises_iff in E. destruct E as [_ [A|[A|A]]]; [contradiction | congruence | congruence].
Qed.

(* the projection stage written with the two z entries of the composed matrix *)
Lemma ortho_mat_c_as_z w h zs zt inv :
  ortho_mat_c ROps w h zs zt inv = ortho_mat_z ROps w h zs (if inv then zs * zt else zt) inv.
Proof. destruct inv; cbv [ortho_mat_c ortho_mat_z compose2]; mat_eq; ring. Qed.
Lemma canvas_mat_as_z w h p t zoom inv :
  canvas_mat ROps w h p t zoom inv =
  canvas_mat_z ROps (ortho_zscale ROps (1 / 10) 2000 inv) (ortho_z23 ROps (1 / 10) 2000 inv) w h p t zoom inv.
Proof.
  unfold canvas_mat, canvas_mat_c, canvas_mat_z. rewrite ortho_mat_c_as_z.
  destruct inv; reflexivity.
Qed.
