(* Real-number lemmas for M_rodrigues.v (C10): the forward map. *)
From Coq Require Import ZArith Reals Lra Psatz List Bool Lia Nsatz.
From PW Require Import Num NumR Vec Mat Result.
From PW.model Require Import M_rodrigues M_rodrigues_spec.
From PW.proofs Require Import P_vec P_mat.
Import ListNotations.
Local Open Scope R_scope.

(* lazy, not cbv: cbv with a delta list took over a minute on terms with rod_jac_row (call-by-value duplicates work) *)
Ltac runf :=
  lazy [rod_matrix rod_jac_row rod_drrt rod_dskew m3add m3scale m3outer m3skew rod_m1 vget
       rod_antisym rod_half nfrac
       mmul mtranspose mscale m33to44 mupper3 mtranslation mdiag mapply_pt mapply_vec
       mapply_w I4 I3 m3mul m3apply m3transpose m3rows m3row0 m3row1 m3row2 m3det mlist m3list
       vdist vnormalize vnorm vadd vsub vneg vscale vdivs vdot vcross vnorm2 vzero vmul vlist
       n0 n1 n2 nofZ nadd nsub nmul ndiv nneg nabs nsqrt nltb nleb neqb ROps
       a00 a01 a02 a10 a11 a12 a20 a21 a22 vx vy vz].
Ltac runf_in H :=
  lazy [rod_matrix rod_jac_row rod_drrt rod_dskew m3add m3scale m3outer m3skew rod_m1 vget
       rod_antisym rod_half nfrac
       mmul mtranspose mscale m33to44 mupper3 mtranslation mdiag mapply_pt mapply_vec
       mapply_w I4 I3 m3mul m3apply m3transpose m3rows m3row0 m3row1 m3row2 m3det mlist m3list
       vdist vnormalize vnorm vadd vsub vneg vscale vdivs vdot vcross vnorm2 vzero vmul vlist
       n0 n1 n2 nofZ nadd nsub nmul ndiv nneg nabs nsqrt nltb nleb neqb ROps
       a00 a01 a02 a10 a11 a12 a20 a21 a22 vx vy vz] in H.


Lemma proper_I3 : proper (I3 ROps).
Proof. repeat split; try (mat3_eq; ring). munf; ring. Qed.

(* ---- the Rodrigues matrix for abstract c, s, unit k ------------------------------------------ *)
Lemma rod_matrix_proper c s k : c * c + s * s = 1 -> vnorm2 ROps k = 1 -> proper (rod_matrix ROps c s k).
Proof.
  destruct k as [x y z]. intros Hcs Hk. vunf_in Hk.
  repeat split.
  - apply M3_inj; runf; nsatz.
  - apply M3_inj; runf; nsatz.
  - runf; nsatz.
Qed.

Lemma rod_matrix_axis c s k : vnorm2 ROps k = 1 -> m3apply ROps (rod_matrix ROps c s k) k = k.
Proof. destruct k as [x y z]. intros Hk. vunf_in Hk. apply V3_inj; runf; nsatz. Qed.

Lemma rod_matrix_perp c s k v : vnorm2 ROps k = 1 -> vdot ROps v k = 0 ->
  m3apply ROps (rod_matrix ROps c s k) v = vadd ROps (vscale ROps c v) (vscale ROps s (vcross ROps k v)).
Proof.
  destruct k as [x y z], v as [a b d]. intros Hk Hv. vunf_in Hk. vunf_in Hv.
  apply V3_inj; runf; nsatz.
Qed.

(* every vector: v = (v.k) k + perpendicular part; the map is linear *)
Lemma rod_matrix_apply c s k v : vnorm2 ROps k = 1 ->
  m3apply ROps (rod_matrix ROps c s k) v =
  vadd ROps (vadd ROps (vscale ROps c v) (vscale ROps ((1 - c) * vdot ROps k v) k)) (vscale ROps s (vcross ROps k v)).
Proof. destruct k as [x y z], v as [a b d]. intros _. apply V3_inj; runf; ring. Qed.

(* ---- theta, axis ------------------------------------------------------------------------------ *)
Lemma rod_eps_pos : 0 < rod_eps ROps.
Proof. unfold rod_eps, nfrac; rops. lra. Qed.

Lemma rod_theta_norm r : rod_theta ROps r = vnorm ROps r.
Proof. reflexivity. Qed.

Lemma rod_axis_normalize r : rod_axis ROps r = vnormalize ROps r.
Proof.
  unfold rod_axis, vnormalize, rod_theta. set (n := vnorm ROps r). clearbody n.
  destruct r as [x y z]. apply V3_inj; vunf; unfold Rdiv; ring.
Qed.

Lemma theta_pos_nonzero r : 0 < vnorm ROps r -> r <> V3 0 0 0.
Proof.
  intros H E. subst r. revert H. unfold vnorm, vnorm2; vunf.
  replace (0 * 0 + 0 * 0 + 0 * 0) with 0 by ring. rewrite sqrt_0. lra.
Qed.

Lemma rod_axis_unit r : 0 < vnorm ROps r -> vnorm2 ROps (rod_axis ROps r) = 1.
Proof. intros H. rewrite rod_axis_normalize. apply vnormalize_unit, theta_pos_nonzero, H. Qed.

Lemma sincos1 t : cos t * cos t + sin t * sin t = 1.
Proof. pose proof (sin2_cos2 t) as H. unfold Rsqr in H. lra. Qed.

(* the two branches *)
Lemma fwd_small r : vnorm ROps r < rod_eps ROps -> rodrigues_fwd ROps r = I3 ROps.
Proof.
  intros H. unfold rodrigues_fwd, rod_theta; rops.
  destruct (Rltb_spec (vnorm ROps r) (rod_eps ROps)); [reflexivity | contradiction].
Qed.
Lemma fwd_generic r : rod_eps ROps <= vnorm ROps r ->
  rodrigues_fwd ROps r = rod_matrix ROps (cos (vnorm ROps r)) (sin (vnorm ROps r)) (rod_axis ROps r).
Proof.
  intros H. unfold rodrigues_fwd, rod_theta; rops.
  destruct (Rltb_spec (vnorm ROps r) (rod_eps ROps)); [lra | reflexivity].
Qed.

(* ---- the theorems of the forward map ---------------------------------------------------------- *)
Lemma fwd_proper r : proper (rodrigues_fwd ROps r).
Proof.
  destruct (Rlt_le_dec (vnorm ROps r) (rod_eps ROps)) as [H|H].
  - rewrite fwd_small by exact H. apply proper_I3.
  - rewrite fwd_generic by exact H. pose proof rod_eps_pos.
    apply rod_matrix_proper; [apply sincos1 | apply rod_axis_unit; lra].
Qed.

Lemma m3apply_I3 v : m3apply ROps (I3 ROps) v = v.
Proof. destruct v; apply V3_inj; munf; ring. Qed.

Lemma fwd_fixes_axis r : r <> V3 0 0 0 ->
  m3apply ROps (rodrigues_fwd ROps r) (vnormalize ROps r) = vnormalize ROps r.
Proof.
  intros Hr. destruct (Rlt_le_dec (vnorm ROps r) (rod_eps ROps)) as [H|H].
  - rewrite fwd_small by exact H. apply m3apply_I3.
  - rewrite fwd_generic by exact H. rewrite <- rod_axis_normalize.
    apply rod_matrix_axis, rod_axis_unit, vnorm_pos, Hr.
Qed.
(* hence the rotation vector itself is fixed (also for r = 0) *)
Lemma fwd_fixes_vector r : m3apply ROps (rodrigues_fwd ROps r) r = r.
Proof.
  destruct (Rlt_le_dec (vnorm ROps r) (rod_eps ROps)) as [H|H].
  - rewrite fwd_small by exact H. apply m3apply_I3.
  - pose proof rod_eps_pos. assert (Hr : r <> V3 0 0 0) by (apply theta_pos_nonzero; lra).
    rewrite fwd_generic by exact H. rewrite rod_matrix_apply by (apply rod_axis_unit; lra).
    rewrite rod_axis_normalize.
    pose proof (vnormalize_unit r Hr) as Hu. pose proof (vnormalize_scale r Hr) as Hs.
    set (k := vnormalize ROps r) in *. set (n := vnorm ROps r) in *. clearbody k n.
    rewrite <- Hs. generalize (cos n) (sin n). intros c s. clear - Hu.
    destruct k as [x y z]. vunf_in Hu. apply V3_inj; vunf; nsatz.
Qed.

Lemma fwd_turns_perp r v : rod_eps ROps <= vnorm ROps r -> vdot ROps v r = 0 ->
  m3apply ROps (rodrigues_fwd ROps r) v =
  vadd ROps (vscale ROps (cos (vnorm ROps r)) v)
            (vscale ROps (sin (vnorm ROps r)) (vcross ROps (vnormalize ROps r) v)).
Proof.
  intros H Hv. pose proof rod_eps_pos. rewrite fwd_generic by exact H. rewrite <- rod_axis_normalize.
  apply rod_matrix_perp; [apply rod_axis_unit; lra|].
  unfold rod_axis. rewrite vdot_scale_r, Hv. ring.
Qed.

Lemma fwd_zero_is_identity : rodrigues_fwd ROps (V3 0 0 0) = I3 ROps.
Proof.
  apply fwd_small. unfold vnorm, vnorm2; vunf. replace (0 * 0 + 0 * 0 + 0 * 0) with 0 by ring.
  rewrite sqrt_0. apply rod_eps_pos.
Qed.

(* below eps the code returns the identity; the true rotation by |r| differs from it by at most |r| |v| *)
Lemma fwd_tiny_is_identity r : vnorm ROps r < rod_eps ROps -> rodrigues_fwd ROps r = I3 ROps.
Proof. exact (fwd_small r). Qed.

(* ---- entry points / dispatch ------------------------------------------------------------------- *)
Lemma shape_eqb_true s t : shape_eqb s t = true <-> s = t.
Proof. unfold shape_eqb. destruct (list_eq_dec Nat.eq_dec s t); split; intros; try assumption; try reflexivity; try discriminate; contradiction. Qed.

Lemma cv2_dispatch_vector proj a jac : nd_size a = 3%nat ->
  cv2_rodrigues ROps proj a jac = r2m_entry ROps a jac.
Proof. intros H. unfold cv2_rodrigues. rewrite H. reflexivity. Qed.

Lemma cv2_dispatch_matrix proj a jac : nd_shape a = [3%nat; 3%nat] ->
  cv2_rodrigues ROps proj a jac = m2r_entry ROps proj a jac.
Proof.
  intros H. unfold cv2_rodrigues, nd_size. rewrite H. cbn [fold_right Nat.mul Nat.eqb Nat.add].
  destruct (shape_eqb [3%nat; 3%nat] [3%nat; 3%nat]) eqn:E; [reflexivity|].
  exfalso. assert (shape_eqb [3%nat; 3%nat] [3%nat; 3%nat] = true) by (apply shape_eqb_true; reflexivity). congruence.
Qed.

Lemma cv2_rejects_other_shapes proj a jac : nd_size a <> 3%nat -> nd_shape a <> [3%nat; 3%nat] ->
  cv2_rodrigues ROps proj a jac = Raise ValueError.
Proof.
  intros H1 H2. unfold cv2_rodrigues. destruct (Nat.eqb_spec (nd_size a) 3); [contradiction|].
  destruct (shape_eqb (nd_shape a) [3%nat; 3%nat]) eqn:E; [|reflexivity].
  apply shape_eqb_true in E. contradiction.
Qed.

(* a well-formed array: as many data as the shape says *)
Definition nd_wf {F} (a : @ndarr F) : Prop := length (nd_data a) = nd_size a.

Lemma r2m_entry_accepts a jac : nd_wf a -> nd_size a = 3%nat ->
  exists x y z, nd_data a = [x; y; z] /\
    r2m_entry ROps a jac =
      Ok (OutMat (rodrigues_fwd ROps (V3 x y z)) (if jac then Some (rodrigues_fwd_jac ROps (V3 x y z)) else None)).
Proof.
  unfold nd_wf. intros Hw Hs. rewrite Hs in Hw. unfold r2m_entry.
  destruct (nd_data a) as [|x [|y [|z [|w l]]]]; try discriminate.
  exists x, y, z. split; reflexivity.
Qed.
Lemma m2r_entry_accepts proj a jac : nd_wf a -> nd_shape a = [3%nat; 3%nat] ->
  exists m, nd_data a = m3list m /\
    m2r_entry ROps proj a jac =
      Ok (OutVec (rodrigues_inv ROps proj m) (if jac then Some (rodrigues_inv_jac ROps proj m) else None)).
Proof.
  unfold nd_wf, nd_size. intros Hw Hs. rewrite Hs in Hw. cbn in Hw. unfold m2r_entry. rewrite Hs.
  destruct (shape_eqb [3%nat; 3%nat] [3%nat; 3%nat]) eqn:E.
  2:{ exfalso. assert (shape_eqb [3%nat; 3%nat] [3%nat; 3%nat] = true) by (apply shape_eqb_true; reflexivity). congruence. }
  destruct (nd_data a) as [|x0 [|x1 [|x2 [|x3 [|x4 [|x5 [|x6 [|x7 [|x8 [|x9 l]]]]]]]]]]; try discriminate.
  exists (M3 x0 x1 x2 x3 x4 x5 x6 x7 x8). split; reflexivity.
Qed.
Lemma r2m_entry_rejects a jac : nd_wf a -> nd_size a <> 3%nat -> r2m_entry ROps a jac = Raise ValueError.
Proof.
  unfold nd_wf. intros Hw Hs. unfold r2m_entry.
  destruct (nd_data a) as [|x [|y [|z [|w l]]]]; try reflexivity. exfalso. apply Hs. rewrite <- Hw. reflexivity.
Qed.
Lemma m2r_entry_rejects proj a jac : nd_shape a <> [3%nat; 3%nat] -> m2r_entry ROps proj a jac = Raise ValueError.
Proof.
  intros Hs. unfold m2r_entry. destruct (shape_eqb (nd_shape a) [3%nat; 3%nat]) eqn:E; [|reflexivity].
  apply shape_eqb_true in E. contradiction.
Qed.
