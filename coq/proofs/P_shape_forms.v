(* All-shapes strictness: for a contract in the normal form (M_shape.nf_ok) the interpreter accepts exactly the shapes
   described by the canonical forms computed symbolically from the contract (forms_of_contract), for ALL argument
   values (any rank, any sizes).  Proved once, by induction over the check list. *)
From Coq Require Import List Bool Arith String Lia.
From PW Require Import Result.
From PW.model Require Import M_shape.
From PW.proofs Require Import P_shape.
Import ListNotations.

Section Forms.
  Context (b0 : benv) (args : aenv).

  (* the symbolic bindings describe the concrete ones *)
  Definition senv_rel (sg : senv) (b : benv) : Prop :=
    forall x, match slookup sg x with
              | Some d => exists n, cdim_val b0 args d = Some n /\ lookup b x = Some n
              | None => lookup b x = None
              end.

  Definition suffix (s s' : shape) (i : nat) : Prop := forall j, nth_error s' j = nth_error s (i + j).

  Lemma suffix_tl s n s' i : suffix s (n :: s') i -> suffix s s' (S i) /\ nth_error s i = Some n.
  Proof.
    intros H. split.
    - intros j. specialize (H (S j)). cbn in H. rewrite H. f_equal. lia.
    - specialize (H 0%nat). cbn in H. rewrite Nat.add_0_r in H. auto.
  Qed.

  Lemma sym_dim_match sg b a s i d n : senv_rel sg b -> args a = AArr s -> nth_error s i = Some n ->
    match_dim b d n = match sym_dim sg a i d with Some c => cdim_ok b0 args c n | None => false end.
  Proof.
    intros HR Ha Hn. destruct d as [m| |x|x]; cbn [match_dim sym_dim].
    - unfold cdim_ok; cbn. reflexivity.
    - unfold cdim_ok, cdim_val, dim_of. rewrite Ha, Hn. symmetry; apply Nat.eqb_refl.
    - specialize (HR x). destruct (slookup sg x) as [c|].
      + destruct HR as [m [Hv Hl]]. rewrite Hl. unfold cdim_ok. rewrite Hv. reflexivity.
      + rewrite HR. reflexivity.
    - specialize (HR x). destruct (slookup sg x) as [c|].
      + destruct HR as [m [Hv Hl]]. rewrite Hl. unfold cdim_ok. rewrite Hv. reflexivity.
      + rewrite HR. unfold cdim_ok, cdim_val, dim_of. rewrite Ha, Hn. symmetry; apply Nat.eqb_refl.
  Qed.

  Lemma sym_pat_match sg b a s : senv_rel sg b -> args a = AArr s -> forall p i s', suffix s s' i ->
    match_pattern b p s' = match sym_pat sg a i p with Some ds => all2b (cdim_ok b0 args) ds s' | None => false end.
  Proof.
    intros HR Ha. induction p as [|d p IH]; intros i s' Hs; cbn [match_pattern sym_pat].
    - destruct s'; reflexivity.
    - destruct s' as [|n s''].
      + destruct (sym_dim sg a i d); [|reflexivity]. destruct (sym_pat sg a (S i) p); reflexivity.
      + apply suffix_tl in Hs. destruct Hs as [Hs Hn].
        rewrite (sym_dim_match sg b a s i d n HR Ha Hn), (IH (S i) s'' Hs).
        destruct (sym_dim sg a i d) as [c|]; [|reflexivity].
        destruct (sym_pat sg a (S i) p) as [r|]; [reflexivity|apply andb_false_r].
  Qed.

  Lemma wild_same sg b d : senv_rel sg b -> is_wild b d = swild sg d.
  Proof.
    intros HR. destruct d as [m| |x|x]; cbn; auto. specialize (HR x).
    destruct (slookup sg x); [destruct HR as [m [_ Hl]]; rewrite Hl|rewrite HR]; reflexivity.
  Qed.

  Lemma wild_dims_pos sg b s : senv_rel sg b -> forall p i s', suffix s s' i -> List.length p = List.length s' ->
    Forall2 (fun n j => nth_error s j = Some n) (wild_dims b p s') (wild_pos sg i p).
  Proof.
    intros HR. induction p as [|d p IH]; intros i s' Hs Hl; destruct s' as [|n s'']; try discriminate; cbn [wild_dims wild_pos].
    - constructor.
    - apply suffix_tl in Hs. destruct Hs as [Hs Hn]. rewrite (wild_same sg b d HR).
      destruct (swild sg d); [constructor; [exact Hn|]|]; apply IH; auto.
  Qed.

  Lemma suffix_0 s : suffix s s 0.
  Proof. intros j. reflexivity. Qed.

  Lemma senv_rel_bind sg b a s p bd : senv_rel sg b -> args a = AArr s -> match_pattern b p s = true ->
    senv_rel (sbind sg bd (swild_value sg a p)) (bind b bd (wild_value b p s)).
  Proof.
    intros HR Ha Hm. destruct bd as [x|]; [|exact HR].
    pose proof (wild_dims_pos sg b s HR p 0 s (suffix_0 s) (match_pattern_length _ _ _ Hm)) as HF.
    unfold wild_value, swild_value, sbind, bind.
    assert (G : match wild_dims b p s, wild_pos sg 0 p with
                | [n], [j] => nth_error s j = Some n
                | [n], _ => False | _, [j] => False | _, _ => True end).
    { destruct HF as [|n j l l' H1 HF']; [exact I|]. destruct HF' as [|n2 j2 l2 l2' H2 HF'']; [exact H1|exact I]. }
    intros y. cbn [slookup lookup].
    destruct (wild_dims b p s) as [|n [|n2 l]]; destruct (wild_pos sg 0 p) as [|j [|j2 l']]; try contradiction;
      (destruct (String.eqb y x); [|exact (HR y)]); try reflexivity.
    exists n. split; [|reflexivity]. unfold cdim_val, dim_of. rewrite Ha. exact G.
  Qed.

  Lemma alt_sound sg b a s p bd : senv_rel sg b -> args a = AArr s -> match_pattern b p s = true ->
    exists alt, In alt (sym_alt sg a p bd) /\ cshape_ok b0 args (fst alt) (AArr s) = true /\
                senv_rel (snd alt) (bind b bd (wild_value b p s)).
  Proof.
    intros HR Ha Hm. pose proof (sym_pat_match sg b a s HR Ha p 0 s (suffix_0 s)) as H. rewrite Hm in H.
    unfold sym_alt. destruct (sym_pat sg a 0 p) as [ds|]; [|discriminate].
    eexists. split; [left; reflexivity|]. split; [cbn; auto|cbn; apply senv_rel_bind; auto].
  Qed.

  Lemma alt_complete sg b a p bd alt : senv_rel sg b -> In alt (sym_alt sg a p bd) ->
    cshape_ok b0 args (fst alt) (args a) = true ->
    exists s, args a = AArr s /\ match_pattern b p s = true /\ senv_rel (snd alt) (bind b bd (wild_value b p s)).
  Proof.
    intros HR Hin Hok. unfold sym_alt in Hin. destruct (sym_pat sg a 0 p) as [ds|] eqn:E; [|destruct Hin].
    destruct Hin as [<-|[]]. cbn [fst snd] in *. destruct (args a) as [| |s|ss] eqn:Ha; try discriminate.
    exists s. split; [reflexivity|].
    pose proof (sym_pat_match sg b a s HR Ha p 0 s (suffix_0 s)) as H. rewrite E in H. cbn in Hok. rewrite Hok in H.
    split; [exact H|apply senv_rel_bind; auto].
  Qed.

  (* with patterns of pairwise different rank, the matching pattern is the first match *)
  Lemma first_match_unique b s : forall ps p, distinct_nats (map (@List.length dim) ps) = true ->
    In p ps -> match_pattern b p s = true -> first_match b ps s = Some p.
  Proof.
    induction ps as [|p0 ps IH]; intros p Hd Hin Hm; [destruct Hin|].
    cbn in Hd. apply andb_true_iff in Hd. destruct Hd as [Hn Hd]. cbn [first_match].
    destruct Hin as [->|Hin]; [rewrite Hm; reflexivity|].
    destruct (match_pattern b p0 s) eqn:E0; [|apply IH; auto].
    exfalso. apply match_pattern_length in E0. apply match_pattern_length in Hm.
    apply negb_true_iff in Hn. assert (existsb (Nat.eqb (List.length p0)) (map (@List.length dim) ps) = true).
    { apply existsb_exists. exists (List.length p). split; [apply in_map; exact Hin|apply Nat.eqb_eq; congruence]. }
    congruence.
  Qed.

  Lemma step_sound c sg b b' : nf_ok c = true -> senv_rel sg b -> run_check c args b = Ok b' ->
    exists alt, In alt (sym_check c sg) /\ cshape_ok b0 args (fst alt) (args (check_arg c)) = true /\ senv_rel (snd alt) b'.
  Proof.
    intros Hnf HR Hrun. destruct c as [a p bd|a ps bd|a p|a p|a o|a p|a|a c]; try discriminate; cbn [check_arg sym_check].
    - cbn [run_check] in Hrun. destruct (args a) as [| |s|ss] eqn:Ha; try discriminate.
      destruct (match_pattern b p s) eqn:Em; [|discriminate]. inversion Hrun; subst b'.
      apply alt_sound; auto.
    - cbn [run_check] in Hrun. destruct ps as [|p0 ps0]; [discriminate|]. remember (p0 :: ps0) as ps.
      destruct (args a) as [| |s|ss] eqn:Ha; try (unfold any_fail in Hrun; destruct ps as [|? [|? ?]]; discriminate).
      destruct (first_match b ps s) as [p|] eqn:Ef; [|unfold any_fail in Hrun; destruct ps as [|? [|? ?]]; discriminate].
      inversion Hrun; subst b'. apply first_match_some_in in Ef. destruct Ef as [Hin Hm].
      destruct (alt_sound sg b a s p bd HR Ha Hm) as [alt [H1 [H2 H3]]].
      exists alt. split; [apply in_flat_map; exists p; auto|auto].
    - cbn [run_check] in Hrun. destruct p as [|d [|d2 p]]; [discriminate| |].
      + destruct (args a) as [| |s|ss] eqn:Ha; try discriminate.
        * inversion Hrun; subst b'. exists (CNumber, sg). split; [left; reflexivity|]. split; [reflexivity|exact HR].
        * destruct (match_pattern b [d] s) eqn:Em; [|discriminate]. inversion Hrun; subst b'.
          destruct (alt_sound sg b a s [d] None HR Ha Em) as [alt [H1 [H2 H3]]].
          exists alt. split; [right; exact H1|auto].
      + destruct (args a) as [| |s|ss] eqn:Ha; try discriminate.
        destruct (match_pattern b (columnize_pattern (d :: d2 :: p) s) s) eqn:Em; [|discriminate]. inversion Hrun; subst b'.
        destruct (alt_sound sg b a s _ None HR Ha Em) as [alt [H1 [H2 H3]]].
        exists alt. split; [|auto]. apply in_or_app. unfold columnize_pattern in H1.
        destruct (Nat.eqb (List.length s) (List.length (d :: d2 :: p))); [left|right]; exact H1.
    - destruct c as [a' p bd| | | | | | |]; try discriminate. cbn in Hnf. apply String.eqb_eq in Hnf. subst a'.
      cbn [run_check check_arg] in *. destruct (args a) as [| |s|ss] eqn:Ha.
      + inversion Hrun; subst b'. exists (CNone, sg). split; [left; reflexivity|]. split; [reflexivity|exact HR].
      + discriminate.
      + destruct (match_pattern b p s) eqn:Em; [|discriminate]. inversion Hrun; subst b'.
        destruct (alt_sound sg b a s p bd HR Ha Em) as [alt [H1 [H2 H3]]]. exists alt. split; [right; exact H1|auto].
      + discriminate.
  Qed.

  Lemma step_complete c sg b alt : nf_ok c = true -> senv_rel sg b -> In alt (sym_check c sg) ->
    cshape_ok b0 args (fst alt) (args (check_arg c)) = true ->
    exists b', run_check c args b = Ok b' /\ senv_rel (snd alt) b'.
  Proof.
    intros Hnf HR Hin Hok. destruct c as [a p bd|a ps bd|a p|a p|a o|a p|a|a c]; try discriminate; cbn [check_arg sym_check] in *.
    - destruct (alt_complete sg b a p bd alt HR Hin Hok) as [s [Ha [Hm H3]]].
      eexists. split; [cbn [run_check]; rewrite Ha, Hm; reflexivity|exact H3].
    - apply in_flat_map in Hin. destruct Hin as [p [Hp Hin]].
      destruct (alt_complete sg b a p bd alt HR Hin Hok) as [s [Ha [Hm H3]]].
      cbn in Hnf. destruct ps as [|p0 ps0]; [discriminate|]. remember (p0 :: ps0) as ps.
      eexists. split; [|exact H3]. cbn [run_check]. rewrite Heqps at 1. rewrite Ha.
      rewrite (first_match_unique b s ps p Hnf Hp Hm). reflexivity.
    - destruct p as [|d [|d2 p]]; [discriminate| |].
      + destruct Hin as [<-|Hin].
        * cbn in Hok. destruct (args a) eqn:Ha; try discriminate. exists b. split; [cbn [run_check]; rewrite Ha; reflexivity|exact HR].
        * destruct (alt_complete sg b a [d] None alt HR Hin Hok) as [s [Ha [Hm H3]]].
          exists b. split; [cbn [run_check]; rewrite Ha, Hm; reflexivity|exact H3].
      + apply in_app_or in Hin. destruct Hin as [Hin|Hin].
        * destruct (alt_complete sg b a _ None alt HR Hin Hok) as [s [Ha [Hm H3]]].
          exists b. split; [|exact H3]. cbn [run_check]. rewrite Ha. unfold columnize_pattern.
          pose proof (match_pattern_length _ _ _ Hm) as Hl. rewrite <- Hl, Nat.eqb_refl, Hm. reflexivity.
        * destruct (alt_complete sg b a _ None alt HR Hin Hok) as [s [Ha [Hm H3]]].
          exists b. split; [|exact H3]. cbn [run_check]. rewrite Ha. unfold columnize_pattern.
          pose proof (match_pattern_length _ _ _ Hm) as Hl. cbn [tl] in *.
          replace (Nat.eqb (List.length s) (List.length (d :: d2 :: p))) with false
            by (symmetry; apply Nat.eqb_neq; cbn [List.length] in *; lia).
          rewrite Hm. reflexivity.
    - destruct c as [a' p bd| | | | | | |]; try discriminate. cbn in Hnf. apply String.eqb_eq in Hnf. subst a'.
      cbn [check_arg] in *. destruct Hin as [<-|Hin].
      + cbn in Hok. destruct (args a) eqn:Ha; try discriminate. exists b. split; [cbn [run_check]; rewrite Ha; reflexivity|exact HR].
      + destruct (alt_complete sg b a p bd alt HR Hin Hok) as [s [Ha [Hm H3]]].
        eexists. split; [cbn [run_check]; rewrite Ha, Hm; reflexivity|exact H3].
  Qed.

  Lemma in_cforms_cons c r sg :
    in_cforms b0 (forms_of_contract (c :: r) sg) args = true <->
    exists alt, In alt (sym_check c sg) /\ cshape_ok b0 args (fst alt) (args (check_arg c)) = true /\
                in_cforms b0 (forms_of_contract r (snd alt)) args = true.
  Proof.
    unfold in_cforms. cbn [forms_of_contract]. rewrite existsb_exists. split.
    - intros [f [Hin Hok]]. apply in_flat_map in Hin. destruct Hin as [alt [Ha Hf]].
      apply in_map_iff in Hf. destruct Hf as [f' [<- Hf']]. cbn [cform_ok forallb fst snd] in Hok.
      apply andb_true_iff in Hok. destruct Hok as [H1 H2]. exists alt. repeat split; auto.
      apply existsb_exists. exists f'. auto.
    - intros [alt [Ha [H1 H2]]]. apply existsb_exists in H2. destruct H2 as [f' [Hf' Hok]].
      exists ((check_arg c, fst alt) :: f'). split.
      + apply in_flat_map. exists alt. split; [exact Ha|]. apply in_map. exact Hf'.
      + cbn [cform_ok forallb fst snd]. rewrite H1. exact Hok.
  Qed.

  (* THE theorem: a contract in normal form accepts exactly the shapes of its symbolically computed canonical forms *)
  Theorem accepts_iff_forms : forall cs sg b, forallb nf_ok cs = true -> senv_rel sg b ->
    accepts cs args b = in_cforms b0 (forms_of_contract cs sg) args.
  Proof.
    induction cs as [|c r IH]; intros sg b Hnf HR; [reflexivity|].
    cbn [forallb] in Hnf. apply andb_true_iff in Hnf. destruct Hnf as [Hc Hr].
    apply eq_true_iff_eq. rewrite in_cforms_cons. unfold accepts. cbn [run_contract_from].
    split.
    - destruct (run_check c args b) as [b'|e] eqn:E; [|discriminate]. cbn [rbind]. intros Hacc.
      destruct (step_sound c sg b b' Hc HR E) as [alt [H1 [H2 H3]]].
      exists alt. repeat split; auto. rewrite <- (IH (snd alt) b' Hr H3). unfold accepts. exact Hacc.
    - intros [alt [H1 [H2 H3]]]. destruct (step_complete c sg b alt Hc HR H1 H2) as [b' [E HR']].
      rewrite E. cbn [rbind]. rewrite <- (IH (snd alt) b' Hr HR') in H3. exact H3.
  Qed.
End Forms.

(* the initial symbolic bindings of the receiver's lengths describe b0 itself *)
Lemma senv_rel_init b0 args : forallb (fun xv : string * option nat => match snd xv with Some _ => true | None => false end) b0 = true ->
  senv_rel b0 args (senv_of b0) b0.
Proof.
  intros H x. unfold senv_of.
  assert (G : forall l, forallb (fun xv : string * option nat => match snd xv with Some _ => true | None => false end) l = true ->
              match slookup (map (fun xv : string * option nat => (fst xv, Some (CExt (fst xv)))) l) x with
              | Some d => exists y n, d = CExt y /\ lookup l y = Some n /\ lookup l x = Some n /\ y = x
              | None => lookup l x = None end).
  { induction l as [|[y v] l IH]; intros Hl; cbn; [reflexivity|].
    cbn in Hl. apply andb_true_iff in Hl. destruct Hl as [Hv Hl]. destruct v as [n|]; [|discriminate].
    destruct (String.eqb x y) eqn:E.
    - apply String.eqb_eq in E. subst y. exists x, n. rewrite String.eqb_refl. auto.
    - specialize (IH Hl). destruct (slookup _ x) as [d|]; [|exact IH].
      destruct IH as [y' [n' [-> [H1 [H2 ->]]]]]. exists x, n'. rewrite E. auto. }
  specialize (G b0 H). destruct (slookup _ x) as [d|]; [|exact G].
  destruct G as [y [n [-> [H1 [H2 ->]]]]]. exists n. split; [exact H1|exact H2].
Qed.

(* membership-wise equal lists of forms describe the same shapes *)
Lemma in_cforms_incl b0 args fs gs : (forall f, In f fs -> In f gs) -> in_cforms b0 fs args = true -> in_cforms b0 gs args = true.
Proof.
  unfold in_cforms. intros H. rewrite !existsb_exists. intros [f [Hin Hok]]. exists f. auto.
Qed.

(* the statement without the invariant: start from the receiver lengths b0 (all known) *)
Theorem accepts_iff_forms_init b0 args cs :
  forallb (fun xv : string * option nat => match snd xv with Some _ => true | None => false end) b0 = true ->
  forallb nf_ok cs = true ->
  accepts cs args b0 = in_cforms b0 (forms_of_contract cs (senv_of b0)) args.
Proof. intros Hb Hnf. apply accepts_iff_forms; [exact Hnf|apply senv_rel_init; exact Hb]. Qed.
