(* Real-number lemmas about M_segment.v: the clamped projection is the closest point of the segment. *)
From Coq Require Import ZArith Reals Lra Psatz List Bool Lia.
From PW Require Import Num NumR Vec NpList Result.
From PW.model Require Import M_polyline_base M_segment.
From PW.proofs Require Import P_vec P_nplist.
Import ListNotations.
Local Open Scope R_scope.

Ltac segunf := unfold closest_point, closest_t, clip01, nmin, nmax, n0, n1, sqdist in *; rops.

(* the point of the segment at parameter s *)
Definition seg_at (a v : vec3 R) (s : R) : vec3 R := vadd ROps a (vscale ROps s v).

Lemma clip01_range t : 0 <= clip01 ROps t <= 1.
Proof. segunf. repeat rcase; lra. Qed.

Lemma closest_t_range p a v : 0 <= closest_t ROps p a v <= 1.
Proof.
  unfold closest_t. rops. unfold n0, n1. rops.
  destruct (Reqb_spec (vdot ROps v v) 0).
  - destruct (Rltb_spec 0 (vdot ROps (vsub ROps p a) v)); lra.
  - apply clip01_range.
Qed.

Lemma closest_point_is_seg_at p a v : closest_point ROps p a v = seg_at a v (closest_t ROps p a v).
Proof. reflexivity. Qed.

(* squared distance from p to the point at parameter s, as a quadratic in s *)
Lemma sqdist_seg_at p a v s :
  sqdist ROps (seg_at a v s) p =
  vnorm2 ROps (vsub ROps p a) - 2 * s * vdot ROps (vsub ROps p a) v + s * s * vdot ROps v v.
Proof. unfold sqdist, seg_at. destruct p, a, v. vunf. ring. Qed.

Lemma vdot_self_zero v : vdot ROps v v = 0 -> v = V3 0 0 0.
Proof. intros H. apply vnorm2_zero. exact H. Qed.

(* the optimality statement: no point of the segment is closer than the returned one (v = 0 included) *)
Lemma closest_point_optimal p a v s : 0 <= s <= 1 ->
  sqdist ROps (closest_point ROps p a v) p <= sqdist ROps (seg_at a v s) p.
Proof.
  intros Hs. rewrite closest_point_is_seg_at, !sqdist_seg_at.
  unfold closest_t. rops. unfold n0, n1. rops.
  set (d := vdot ROps v v). set (n := vdot ROps (vsub ROps p a) v).
  assert (Hd : 0 <= d) by (unfold d; apply (vnorm2_nonneg v)).
  destruct (Reqb_spec d 0) as [Hz|Hnz].
  - assert (Hv : v = V3 0 0 0) by (apply vdot_self_zero; exact Hz).
    assert (Hn : n = 0) by (unfold n; rewrite Hv; vunf; ring).
    rewrite Hz, Hn. destruct (Rltb_spec 0 0); lra.
  - assert (Hdp : 0 < d) by lra.
    set (t0 := n / d). assert (Ht0 : n = t0 * d) by (unfold t0; field; lra).
    clearbody t0. rewrite Ht0.
    unfold clip01, nmin, nmax, n0, n1. rops.
    destruct (Rleb_spec t0 0); [destruct (Rleb_spec 0 1); [|lra] | destruct (Rleb_spec t0 1)].
    + (* clamped to 0 *)
      assert (0 <= s * ((- t0) * d)) by (repeat apply Rmult_le_pos; lra).
      assert (0 <= s * s * d) by (repeat apply Rmult_le_pos; lra). nra.
    + (* interior *)
      pose proof (Rle_0_sqr (s - t0)) as Hsq. unfold Rsqr in Hsq.
      assert (0 <= d * ((s - t0) * (s - t0))) by (apply Rmult_le_pos; lra). lra.
    + (* clamped to 1 *)
      assert (0 <= (1 - s) * ((t0 - 1) * d)) by (apply Rmult_le_pos; nra).
      assert (0 <= (1 - s) * ((1 - s) * d)) by (repeat apply Rmult_le_pos; lra). nra.
Qed.

(* distances (square roots) are ordered like squared distances *)
Lemma vnorm_le_of_sq a b : vnorm2 ROps a <= vnorm2 ROps b -> vnorm ROps a <= vnorm ROps b.
Proof. intros H. unfold vnorm. rops. apply sqrt_le_1; try apply vnorm2_nonneg. exact H. Qed.
Lemma sq_le_of_vnorm a b : vnorm ROps a <= vnorm ROps b -> vnorm2 ROps a <= vnorm2 ROps b.
Proof.
  intros H. rewrite <- (vnorm_sq a), <- (vnorm_sq b).
  pose proof (vnorm_nonneg a). pose proof (vnorm_nonneg b). nra.
Qed.

Lemma closest_point_optimal_dist p a v s : 0 <= s <= 1 ->
  vnorm ROps (vsub ROps (closest_point ROps p a v) p) <= vnorm ROps (vsub ROps (seg_at a v s) p).
Proof. intros Hs. apply vnorm_le_of_sq. apply (closest_point_optimal p a v s Hs). Qed.

(* is_point_on_line_segment: true exactly when some point of the segment is within eps (eps >= 0 not needed) *)
Lemma on_segment_iff p a v eps :
  on_segment ROps p a v eps = true <-> exists s, 0 <= s <= 1 /\ sqdist ROps (seg_at a v s) p <= eps * eps.
Proof.
  unfold on_segment. rops. rewrite Rleb_true. split.
  - intros H. exists (closest_t ROps p a v). split; [apply closest_t_range|]. exact H.
  - intros [s [Hs H]]. pose proof (closest_point_optimal p a v s Hs). lra.
Qed.

Lemma on_segment_is_closest_within p a v eps :
  on_segment ROps p a v eps = true <-> sqdist ROps (closest_point ROps p a v) p <= eps * eps.
Proof. unfold on_segment. rops. apply Rleb_true. Qed.

(* pairwise (stacked) forms are the single form row by row *)
Lemma nth_error_zip {A B} (l : list A) (l' : list B) k :
  nth_error (zip l l') k =
  match nth_error l k, nth_error l' k with Some a, Some b => Some (a, b) | _, _ => None end.
Proof.
  revert l' k. induction l as [|a r IH]; intros [|b r'] [|k]; cbn; try reflexivity.
  - destruct (nth_error r k); reflexivity.
  - apply IH.
Qed.

Lemma pairs_are_rowwise ps sa sv eps k p a v :
  nth_error ps k = Some p -> nth_error sa k = Some a -> nth_error sv k = Some v ->
  nth_error (closest_points_pairs ROps ps sa sv) k = Some (closest_point ROps p a v) /\
  nth_error (closest_ts_pairs ROps ps sa sv) k = Some (closest_t ROps p a v) /\
  nth_error (on_segment_pairs ROps ps sa sv eps) k = Some (on_segment ROps p a v eps).
Proof.
  intros Hp Ha Hv. unfold closest_points_pairs, closest_ts_pairs, on_segment_pairs.
  rewrite !nth_error_map, !nth_error_zip, Hp, Ha, Hv. cbn. repeat split; reflexivity.
Qed.

Lemma pairs_length ps sa sv :
  length ps = length sa -> length sa = length sv ->
  length (closest_points_pairs ROps ps sa sv) = length ps.
Proof.
  intros H1 H2. unfold closest_points_pairs. rewrite map_length.
  assert (Hz : forall {A B} (l : list A) (l' : list B), length l = length l' -> length (zip l l') = length l).
  { intros A B l. induction l as [|x r IH]; intros [|y r'] H; cbn in *; try reflexivity; try discriminate.
    f_equal. apply IH. lia. }
  rewrite Hz; [apply Hz; exact H1|]. rewrite Hz by exact H1. lia.
Qed.

(* ---- segments of a polyline ---- *)
Lemma zip_length {A B} (l : list A) (l' : list B) : length (zip l l') = Nat.min (length l) (length l').
Proof. revert l'. induction l as [|x r IH]; intros [|y r']; cbn; try reflexivity. f_equal. apply IH. Qed.

Lemma pl_segments_length (pl : polyline R) :
  length (pl_segments pl) =
  match pv pl with [] => 0%nat | _ :: t => if pclosed pl then S (length t) else length t end.
Proof.
  unfold pl_segments. destruct (pv pl) as [|h t]; [reflexivity|].
  destruct (pclosed pl); [rewrite app_length|]; rewrite zip_length; cbn [length]; rewrite Nat.min_r by lia; cbn; lia.
Qed.

(* edge k of an open chain joins vertex k and vertex k+1 *)
Lemma open_segments_nth (vs : list (vec3 R)) k :
  nth_error (open_segments vs) k =
  match nth_error vs k, nth_error vs (S k) with Some a, Some b => Some (a, b) | _, _ => None end.
Proof.
  unfold open_segments. destruct vs as [|h t]; [destruct k; reflexivity|].
  rewrite nth_error_zip. reflexivity.
Qed.
