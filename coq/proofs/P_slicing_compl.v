(* C02: complement of the per-face kernel — area kept in front plus area kept behind the flipped plane is the face's area
   (twice for a face lying in the plane). *)
From Coq Require Import ZArith Reals Lra Psatz List Bool Lia Arith.
From PW Require Import Num NumR Vec NpList Result.
From PW.model Require Import M_slicing M_slicing_spec.
From PW.proofs Require Import P_vec P_nplist P_slicing P_slicing_face P_slicing_cover.
Import ListNotations.
Local Open Scope R_scope.


Lemma snapped3_neg tol ds : snapped3 tol ds -> snapped3 tol (negd ds).
Proof.
  intros H k Hk. destruct ds as [[a b] c]. unfold negd. cbn [dget fst snd].
  destruct k as [|[|[|k]]]; try lia; [destruct (H 0%nat Hk) as [E|[E|E]]|destruct (H 1%nat Hk) as [E|[E|E]]|
    destruct (H 2%nat Hk) as [E|[E|E]]]; cbn [dget fst snd] in E; cbn [dget fst snd]; lra.
Qed.
Lemma vsign_zero tol : 0 <= tol -> vsign ROps tol 0 = 0%Z.
Proof. intros Ht. apply (vsign_on tol 0 Ht). lra. Qed.

(* one corner distance: 0, in front, or behind — and the sign of it and of its negation *)
Ltac corner_case tol Ht x H :=
  destruct H as [H|[H|H]];
  [ subst x; rewrite ?Ropp_0
  | let E := fresh "E" in let E' := fresh "E" in
    pose proof (proj2 (vsign_front tol x) H) as E;
    assert (E' : vsign ROps tol (- x) = 1%Z) by (apply (vsign_behind tol (- x) Ht); lra)
  | let E := fresh "E" in let E' := fresh "E" in
    pose proof (proj2 (vsign_behind tol x Ht) H) as E;
    assert (E' : vsign ROps tol (- x) = (-1)%Z) by (apply vsign_front; lra) ].

Ltac eval_cases :=
  repeat match goal with |- context [face_case ?s true] =>
    let c := eval vm_compute in (face_case s true) in change (face_case s true) with c end.

Theorem frac_complement tol ds : 0 <= tol -> snapped3 tol ds ->
  (all_zero ds -> kept_frac tol ds + kept_frac tol (negd ds) = 2) /\
  (~ all_zero ds -> kept_frac tol ds + kept_frac tol (negd ds) = 1).
Proof.
  intros Ht HS. destruct ds as [[a b] c].
  pose proof (HS 0%nat ltac:(lia)) as Ha. pose proof (HS 1%nat ltac:(lia)) as Hb. pose proof (HS 2%nat ltac:(lia)) as Hc.
  cbn [dget fst snd] in Ha, Hb, Hc. clear HS.
  unfold kept_frac, all_zero, negd, signs3. cbn [dget fst snd].
  pose proof (vsign_zero tol Ht) as Z0.
  corner_case tol Ht a Ha; corner_case tol Ht b Hb; corner_case tol Ht c Hc;
    rewrite ?Ropp_0; repeat match goal with E : vsign ROps tol _ = _ |- _ => rewrite E; clear E end;
    eval_cases; cbn [frac_case dget fst snd Nat.add Nat.modulo Nat.divmod Nat.sub]; unfold frac_tri0, frac_quad0;
    (split; intros Hz;
     [ first [ lra | exfalso; destruct Hz as (? & ? & ?); lra ]
     | first [ exfalso; apply Hz; repeat split; reflexivity | field; repeat split; lra ] ]).
Qed.

Lemma vscale_add f g (v : vec3 R) : vadd ROps (vscale ROps f v) (vscale ROps g v) = vscale ROps (f + g) v.
Proof. destruct v. vunf. apply V3_ext; ring. Qed.

(* on the distances the kernel uses *)
Theorem slice_face_signs_complement tol eps ds t : 0 <= tol -> snapped3 tol ds ->
  vadd ROps (vsum_normals (slice_face_signs ROps eps ds (signs3 ROps tol ds) true t))
            (vsum_normals (slice_face_signs ROps eps (negd ds) (signs3 ROps tol (negd ds)) true t)) =
  vscale ROps (kept_frac tol ds + kept_frac tol (negd ds)) (tri_normal t).
Proof.
  intros Ht HS.
  destruct (slice_face_signs_area tol eps ds true t Ht HS) as [_ E1].
  destruct (slice_face_signs_area tol eps (negd ds) true t Ht (snapped3_neg tol ds HS)) as [_ E2].
  rewrite E1, E2. apply vscale_add.
Qed.

(* the flipped plane negates every snapped distance *)
Lemma plane_dot_vneg n o v : plane_dot ROps (vneg ROps n) o v = - plane_dot ROps n o v.
Proof. dvec. tunf. ring. Qed.
Lemma tri_dists_vneg tol n o t : tri_dists ROps tol (vneg ROps n) o t = negd (tri_dists ROps tol n o t).
Proof.
  unfold tri_dists, negd, snapped_dot. cbn [dget fst snd]. rewrite !plane_dot_vneg, !snap_neg. reflexivity.
Qed.

(* a face whose three corners all count as lying on the plane *)
Lemma all_zero_on3 tol n o t : 0 <= tol -> (all_zero (tri_dists ROps tol n o t) <-> on3 tol n o t).
Proof.
  intros Ht. unfold all_zero, on3, pd. rewrite !dget_tri_dists by lia. split.
  - intros (H0 & H1 & H2) k Hk.
    destruct k as [|[|[|k]]]; try lia;
      match goal with |- _ <= plane_dot ROps n o ?v <= _ => pose proof (snap_cases tol (plane_dot ROps n o v) Ht) end; lra.
  - intros H. repeat split;
      match goal with |- snap ROps tol ?d = 0 => pose proof (snap_cases tol d Ht) as C end;
      [specialize (H 0%nat ltac:(lia))|specialize (H 1%nat ltac:(lia))|specialize (H 2%nat ltac:(lia))]; lra.
Qed.

(* complement, face by face: the vector area kept in front of the plane plus the vector area kept behind it (sliced with the
   flipped plane) is the face's vector area — twice for a face lying in the plane, which both calls keep *)
Theorem slice_face_complement tol eps n o t : 0 <= tol ->
  (on3 tol n o t ->
     vadd ROps (vsum_normals (slice_face ROps tol eps n o true t))
               (vsum_normals (slice_face ROps tol eps (vneg ROps n) o true t)) = vscale ROps 2 (tri_normal t)) /\
  (~ on3 tol n o t ->
     vadd ROps (vsum_normals (slice_face ROps tol eps n o true t))
               (vsum_normals (slice_face ROps tol eps (vneg ROps n) o true t)) = vscale ROps 1 (tri_normal t)).
Proof.
  intros Ht. unfold slice_face, tri_signs. rewrite tri_dists_vneg.
  pose proof (tri_dists_snapped tol n o t Ht) as HS.
  rewrite (slice_face_signs_complement tol eps _ t Ht HS).
  destruct (frac_complement tol _ Ht HS) as [F2 F1]. split; intros H.
  - rewrite F2; [reflexivity|]. apply all_zero_on3; assumption.
  - rewrite F1; [reflexivity|]. intros Hz. apply H. apply (all_zero_on3 tol n o t Ht). exact Hz.
Qed.
