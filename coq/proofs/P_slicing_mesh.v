(* C02: unique_bincount renumbering and the mesh pipeline of M_slicing.v (any NumOps instance; stated on ROps). *)
From Coq Require Import ZArith Reals Lra List Bool Lia Arith Sorted.
From PW Require Import Num NumR Vec NpList Result.
From PW.model Require Import M_slicing M_slicing_spec.
From PW.proofs Require Import P_nplist P_slicing.
Import ListNotations.

(* ---- unique_bincount ---------------------------------------------------------------------------------------------- *)
Lemma occ_In vals v : occ vals v = true <-> In v vals.
Proof.
  unfold occ. rewrite existsb_exists. split.
  - intros (x & Hx & E). apply Nat.eqb_eq in E. subst. exact Hx.
  - intros H. exists v. split; [exact H|apply Nat.eqb_refl].
Qed.
Lemma list_max_ge vals v : In v vals -> v <= list_max vals.
Proof.
  intros H. pose proof (proj1 (list_max_le vals (list_max vals)) (le_n _)) as HF.
  rewrite Forall_forall in HF. apply HF, H.
Qed.
Lemma seq_sorted a n : StronglySorted lt (seq a n).
Proof.
  revert a. induction n as [|n IH]; intros a; cbn [seq]; constructor; [apply IH|].
  apply Forall_forall. intros x Hx. apply in_seq in Hx. lia.
Qed.
Lemma filter_sorted (f : nat -> bool) l : StronglySorted lt l -> StronglySorted lt (filter f l).
Proof.
  induction 1 as [|a l Hs IH Ha]; cbn [filter]; [constructor|].
  destruct (f a); [|exact IH]. constructor; [exact IH|].
  rewrite Forall_forall in *. intros x Hx. apply filter_In in Hx. apply Ha, Hx.
Qed.
Lemma filter_seq_nth (f : nat -> bool) v m : v <= m -> f v = true ->
  nth_error (filter f (seq 0 (S m))) (length (filter f (seq 0 v))) = Some v.
Proof.
  intros Hle Hf. replace (S m) with (v + S (m - v)) by lia. rewrite seq_app, filter_app.
  rewrite nth_error_app2 by lia. rewrite Nat.sub_diag. cbn [seq filter Nat.add]. rewrite Hf. reflexivity.
Qed.
Lemma ub_rank_eq vals v : In v vals -> ub_rank vals v = length (filter (occ vals) (seq 0 v)).
Proof.
  intros H. unfold ub_rank. rewrite seq_S, filter_app, app_length. cbn [filter Nat.add].
  rewrite (proj2 (occ_In vals v) H). cbn [length]. lia.
Qed.

Lemma ub_unique_In vals b : In b (ub_unique vals) <-> In b vals.
Proof.
  unfold ub_unique. rewrite filter_In, in_seq, occ_In. split; [intros [_ H]; exact H|].
  intros H. split; [|exact H]. pose proof (list_max_ge vals b H). lia.
Qed.
Lemma ub_unique_sorted vals : StronglySorted lt (ub_unique vals).
Proof. apply filter_sorted, seq_sorted. Qed.
Lemma ub_rank_nth vals v : In v vals -> nth_error (ub_unique vals) (ub_rank vals v) = Some v.
Proof.
  intros H. rewrite ub_rank_eq by exact H. unfold ub_unique.
  apply filter_seq_nth; [apply list_max_ge, H|apply occ_In, H].
Qed.

(* unique is the strictly increasing list of the values that occur; unique[inverse] == values *)
Lemma unique_bincount_spec vals :
  StronglySorted lt (fst (unique_bincount vals)) /\
  (forall b, In b (fst (unique_bincount vals)) <-> In b vals) /\
  length (snd (unique_bincount vals)) = length vals /\
  (forall j v, nth_error vals j = Some v ->
     exists r, nth_error (snd (unique_bincount vals)) j = Some r /\ nth_error (fst (unique_bincount vals)) r = Some v).
Proof.
  cbn [unique_bincount fst snd]. repeat split.
  - apply ub_unique_sorted.
  - apply ub_unique_In.
  - apply ub_unique_In.
  - apply map_length.
  - intros j v Hj. exists (ub_rank vals v). split; [rewrite nth_error_map, Hj; reflexivity|].
    apply ub_rank_nth. eapply nth_error_In, Hj.
Qed.

Lemma sorted_lt_NoDup l : StronglySorted lt l -> NoDup l.
Proof.
  induction 1 as [|a l Hs IH Ha]; constructor; [|exact IH].
  intros Hin. rewrite Forall_forall in Ha. specialize (Ha _ Hin). lia.
Qed.
Lemma ub_rank_lt vals v : In v vals -> ub_rank vals v < length (ub_unique vals).
Proof. intros H. apply nth_error_Some. rewrite ub_rank_nth by exact H. discriminate. Qed.
(* every position of unique is the rank of the value stored there: no returned vertex is an orphan *)
Lemma ub_rank_of_nth vals i u : nth_error (ub_unique vals) i = Some u -> In u vals /\ ub_rank vals u = i.
Proof.
  intros H. assert (Hin : In u vals) by (apply ub_unique_In; eapply nth_error_In, H). split; [exact Hin|].
  pose proof (ub_rank_nth vals u Hin) as Hr.
  apply (proj1 (NoDup_nth_error (ub_unique vals)) (sorted_lt_NoDup _ (ub_unique_sorted vals))).
  - apply nth_error_Some. rewrite Hr. discriminate.
  - rewrite Hr, H. reflexivity.
Qed.

(* ---- list plumbing --------------------------------------------------------------------------------------------------- *)
Lemma take_length {A} (l : list A) idx : Forall (fun i => i < length l) idx -> length (take l idx) = length idx.
Proof.
  induction idx as [|i r IH]; intros H; cbn [take length]; [reflexivity|].
  inversion H as [|? ? Hi Hr]; subst. destruct (nth_error l i) eqn:E; [|apply nth_error_None in E; lia].
  cbn [length]. rewrite IH by assumption. reflexivity.
Qed.
Lemma take_In {A} (l : list A) idx x : In x (take l idx) -> In x l.
Proof.
  induction idx as [|i r IH]; cbn [take]; [intros []|].
  destruct (nth_error l i) eqn:E; [|exact IH]. intros [<-|H]; [eapply nth_error_In, E|apply IH, H].
Qed.
Lemma nth_error_take {A} (l : list A) idx : Forall (fun i => i < length l) idx ->
  forall r i, nth_error idx r = Some i -> nth_error (take l idx) r = nth_error l i.
Proof.
  induction idx as [|j rest IH]; intros H r i Hr; [destruct r; discriminate|].
  inversion H as [|? ? Hj Hrest]; subst. cbn [take].
  destruct (nth_error l j) eqn:E; [|apply nth_error_None in E; lia].
  destruct r as [|r]; cbn [nth_error] in *; [injection Hr as <-; symmetry; exact E|apply IH; assumption].
Qed.
Lemma flatnonzero_Forall_lt m : Forall (fun i => i < length m) (flatnonzero m).
Proof. apply Forall_forall. intros k Hk. apply flatnonzero_lt, Hk. Qed.
Lemma nonzero_from_all_false m : Forall (fun b => b = false) m -> forall i, nonzero_from i m = [].
Proof. induction 1 as [|b r Hb Hr IH]; intros i; cbn [nonzero_from]; [reflexivity|]. subst b. apply IH. Qed.
Lemma repeat2_length l : length (repeat2 l) = 2 * length l.
Proof. induction l as [|a r IH]; cbn [repeat2 flat_map app length] in *; [reflexivity|]. unfold repeat2 in IH. rewrite IH. lia. Qed.
Lemma repeat2_In l x : In x (repeat2 l) -> In x l.
Proof. unfold repeat2. rewrite in_flat_map. intros (y & Hy & [<-|[<-|[]]]); exact Hy. Qed.
Lemma all_some_length {A} (l : list (option A)) r : all_some l = Some r -> length r = length l.
Proof.
  revert r. induction l as [|x l IH]; intros r; cbn [all_some]; [intros [= <-]; reflexivity|].
  destruct x as [a|]; [|discriminate]. destruct (all_some l) as [r'|]; [|discriminate].
  intros [= <-]. cbn [length]. rewrite (IH r' eq_refl). reflexivity.
Qed.
Lemma all_some_In {A} (l : list (option A)) r x : all_some l = Some r -> In x r -> In (Some x) l.
Proof.
  revert r. induction l as [|y l IH]; intros r; cbn [all_some]; [intros [= <-] []|].
  destruct y as [a|]; [|discriminate]. destruct (all_some l) as [r'|]; [|discriminate].
  intros [= <-] [<-|H]; [left; reflexivity|right; apply (IH r' eq_refl H)].
Qed.
Lemma zip_length {A B} (l : list A) (l' : list B) : length l = length l' -> length (zip l l') = length l.
Proof.
  revert l'. induction l as [|a l IH]; intros [|b l'] H; cbn [zip length] in *; try reflexivity; try discriminate.
  rewrite IH by lia. reflexivity.
Qed.

Section Mesh.
  Context (eps : R) (n o : vec3 R).
  Local Notation fdata := (@fdata R).

  Lemma quad_faces_length base (qs : list fdata) : length (quad_faces base qs) = 2 * length qs.
  Proof. revert base. induction qs as [|d r IH]; intros base; cbn [quad_faces quad_faces1 app length]; [reflexivity|]. rewrite IH. lia. Qed.
  Lemma tri_faces_length base (ts : list fdata) : length (tri_faces base ts) = length ts.
  Proof. revert base. induction ts as [|d r IH]; intros base; cbn [tri_faces tri_faces1 app length]; [reflexivity|]. rewrite IH. lia. Qed.
  Lemma quad_verts_length (qs : list fdata) : length (quad_verts ROps eps qs) = 2 * length qs.
  Proof.
    unfold quad_verts. induction qs as [|d r IH]; cbn [flat_map quad_new app length] in *; [reflexivity|]. rewrite IH. lia.
  Qed.
  Lemma tri_verts_length (ts : list fdata) : length (tri_verts ROps eps ts) = 2 * length ts.
  Proof.
    unfold tri_verts. induction ts as [|d r IH]; cbn [flat_map tri_new app length] in *; [reflexivity|]. rewrite IH. lia.
  Qed.

  (* ---- one source index per output face, naming an input face ------------------------------------------------- *)
  Lemma slice_fds_mapping_len vs (fds : list fdata) :
    length (mo_map (slice_fds ROps eps vs fds)) = length (mo_f (slice_fds ROps eps vs fds)) /\
    Forall (fun i => i < length fds) (mo_map (slice_fds ROps eps vs fds)).
  Proof.
    unfold slice_fds.
    pose proof (flatnonzero_Forall_lt (inside_mask fds)) as Hk.
    pose proof (flatnonzero_Forall_lt (quad_mask fds)) as Hq.
    pose proof (flatnonzero_Forall_lt (tri_mask fds)) as Ht.
    unfold inside_mask in Hk. unfold quad_mask in Hq. unfold tri_mask in Ht. rewrite map_length in Hk, Hq, Ht.
    set (kidx := flatnonzero (inside_mask fds)) in *. set (qidx := flatnonzero (quad_mask fds)) in *.
    set (tidx := flatnonzero (tri_mask fds)) in *.
    assert (Lk : length (map (@fd_f R) (take fds kidx)) = length kidx) by (rewrite map_length; apply take_length, Hk).
    assert (Lq : length (take fds qidx) = length qidx) by apply take_length, Hq.
    assert (Lt : length (take fds tidx) = length tidx) by apply take_length, Ht.
    destruct (length (take fds qidx) + length (take fds tidx) =? 0) eqn:E0.
    - destruct (length (map (@fd_f R) (take fds kidx)) =? 0) eqn:E1; cbn [mo_map mo_f].
      + apply Nat.eqb_eq in E1. split; [cbn [length]; lia|exact Hk].
      + unfold renumber. cbn [snd]. rewrite map_length. split; [lia|exact Hk].
    - cbn [mo_map mo_f]. unfold renumber. cbn [snd]. rewrite map_length, !app_length, repeat2_length, quad_faces_length, tri_faces_length.
      split; [lia|].
      apply Forall_app. split; [exact Hk|]. apply Forall_app. split; [|exact Ht].
      apply Forall_forall. intros x Hx. apply repeat2_In in Hx. rewrite Forall_forall in Hq. apply Hq, Hx.
  Qed.

  (* nothing kept and nothing cut: three empty arrays *)
  Lemma slice_fds_all_dropped vs (fds : list fdata) :
    (forall d, In d fds -> face_case (fd_s d) (fd_m d) = Drop) ->
    slice_fds ROps eps vs fds = MkOut [] [] [].
  Proof.
    intros H. unfold slice_fds.
    assert (Hi : flatnonzero (inside_mask fds) = []).
    { apply nonzero_from_all_false. unfold inside_mask. apply Forall_forall. intros b Hb. apply in_map_iff in Hb.
      destruct Hb as (d & <- & Hd). specialize (H d Hd). unfold face_case in H.
      destruct (inside (fd_s d) (fd_m d)); [discriminate|reflexivity]. }
    assert (Hq : flatnonzero (quad_mask fds) = []).
    { apply nonzero_from_all_false. unfold quad_mask. apply Forall_forall. intros b Hb. apply in_map_iff in Hb.
      destruct Hb as (d & <- & Hd). specialize (H d Hd). unfold face_case in H.
      destruct (inside (fd_s d) (fd_m d)); [discriminate|]. destruct (is_quad (fd_s d) (fd_m d)); [discriminate|reflexivity]. }
    assert (Ht : flatnonzero (tri_mask fds) = []).
    { apply nonzero_from_all_false. unfold tri_mask. apply Forall_forall. intros b Hb. apply in_map_iff in Hb.
      destruct Hb as (d & <- & Hd). specialize (H d Hd). unfold face_case in H.
      destruct (inside (fd_s d) (fd_m d)); [discriminate|]. destruct (is_quad (fd_s d) (fd_m d)); [discriminate|].
      destruct (is_tri (fd_s d) (fd_m d)); [discriminate|reflexivity]. }
    rewrite Hi, Hq, Ht. reflexivity.
  Qed.
End Mesh.

(* ---- through slice_faces_plane and the public wrapper -------------------------------------------------------- *)
Lemma mask_of_length nf fi mask : mask_of nf fi = Ok mask -> length mask = nf.
Proof.
  unfold mask_of. destruct fi as [idx|].
  - destruct (forallb _ idx); [|discriminate]. intros [= <-]. rewrite map_length, seq_length. reflexivity.
  - intros [= <-]. apply repeat_length.
Qed.
Lemma resolve_length (vs : list (vec3 R)) dots sg fs mask fds :
  length mask = length fs -> resolve vs dots sg fs mask = Some fds -> length fds = length fs.
Proof.
  intros Hl H. unfold resolve in H. apply all_some_length in H. rewrite map_length, zip_length in H by lia. exact H.
Qed.

Lemma slice_faces_plane_mapping_len tol eps vs fs n o fi r :
  slice_faces_plane ROps tol eps vs fs n o fi = Ok r ->
  length (mo_map r) = length (mo_f r) /\ Forall (fun i => i < length fs) (mo_map r).
Proof.
  unfold slice_faces_plane. destruct (length vs =? 0).
  - intros [= <-]. cbn [mo_map mo_f]. rewrite seq_length. split; [reflexivity|].
    apply Forall_forall. intros i Hi. apply in_seq in Hi. lia.
  - destruct (mask_of (length fs) fi) as [mask|e] eqn:Em; cbn [rbind]; [|discriminate].
    destruct (resolve vs _ _ fs mask) as [fds|] eqn:Er; [|discriminate]. intros [= <-].
    pose proof (resolve_length _ _ _ _ _ _ (mask_of_length _ _ _ Em) Er) as Hl.
    rewrite <- Hl. apply slice_fds_mapping_len.
Qed.
Theorem slice_mapping_len vs fs ref n mask r :
  slice_triangles_by_plane ROps vs fs ref n mask = Ok r ->
  length (mo_map r) = length (mo_f r) /\ Forall (fun i => i < length fs) (mo_map r).
Proof. apply slice_faces_plane_mapping_len. Qed.

(* empty inputs *)
Lemma slice_no_vertices ref n mask : slice_triangles_by_plane ROps [] [] ref n mask = Ok (MkOut [] [] []).
Proof. reflexivity. Qed.
Lemma slice_no_faces vs ref n mask : mask = None \/ mask = Some [] ->
  slice_triangles_by_plane ROps vs [] ref n mask = Ok (MkOut [] [] []).
Proof. intros [->| ->]; destruct vs as [|v vs]; reflexivity. Qed.

Lemma all_some_exists {A} (l : list (option A)) : (forall x, In x l -> exists a, x = Some a) -> exists r, all_some l = Some r.
Proof.
  induction l as [|x l IH]; intros H; [exists []; reflexivity|].
  destruct (H x (or_introl eq_refl)) as [a ->]. destruct IH as [r Hr]; [intros y Hy; apply H; right; exact Hy|].
  exists (a :: r). cbn [all_some]. rewrite Hr. reflexivity.
Qed.
Lemma zip_In {A B} (l : list A) (l' : list B) a b : In (a, b) (zip l l') -> In a l /\ In b l'.
Proof.
  revert l'. induction l as [|x l IH]; intros [|y l']; cbn [zip In]; try tauto.
  intros [[= <- <-]|H]; [auto|]. destruct (IH _ H). auto.
Qed.
Lemma lookup3_some {A} (l : list A) f : face_valid (length l) f -> exists t, lookup3 l f = Some t.
Proof.
  intros (H0 & H1 & H2). unfold lookup3.
  destruct (nth_error l (fget f 0)) eqn:E0; [|apply nth_error_None in E0; lia].
  destruct (nth_error l (fget f 1)) eqn:E1; [|apply nth_error_None in E1; lia].
  destruct (nth_error l (fget f 2)) eqn:E2; [|apply nth_error_None in E2; lia]. eexists; reflexivity.
Qed.
Lemma lookup3_In {A} (l : list A) f a b c : lookup3 l f = Some (a, b, c) -> In a l /\ In b l /\ In c l.
Proof.
  unfold lookup3. destruct (nth_error l (fget f 0)) eqn:E0; [|discriminate].
  destruct (nth_error l (fget f 1)) eqn:E1; [|discriminate]. destruct (nth_error l (fget f 2)) eqn:E2; [|discriminate].
  intros [= <- <- <-]. repeat split; eapply nth_error_In; eassumption.
Qed.

(* a mesh wholly behind the plane (every vertex further than the tolerance), all faces selected: three empty arrays *)
Theorem slice_all_behind tol eps vs fs n o : (0 <= tol)%R -> vs <> [] ->
  (forall v, In v vs -> (plane_dot ROps n o v < - tol)%R) -> (forall f, In f fs -> face_valid (length vs) f) ->
  slice_faces_plane ROps tol eps vs fs n o None = Ok (MkOut [] [] []).
Proof.
  intros Ht Hvs Hb Hf. unfold slice_faces_plane.
  destruct vs as [|v0 vs0]; [congruence|]. cbn [length Nat.eqb mask_of rbind]. set (vs := v0 :: vs0) in *.
  set (dots := map (snapped_dot ROps tol n o) vs). set (sg := map (vsign ROps tol) dots).
  assert (Hsg : forall s, In s sg -> s = 1%Z).
  { intros s Hs. apply in_map_iff in Hs. destruct Hs as (d & <- & Hd). apply in_map_iff in Hd. destruct Hd as (v & <- & Hv).
    specialize (Hb v Hv). apply (vsign_behind tol _ Ht). unfold snapped_dot.
    pose proof (snap_cases tol (plane_dot ROps n o v) Ht). lra. }
  destruct (all_some_exists (map (resolve1 vs dots sg) (zip fs (repeat true (length fs))))) as [fds Hfds].
  { intros x Hx. apply in_map_iff in Hx. destruct Hx as ((f & m) & <- & Hfm). apply zip_In in Hfm. destruct Hfm as [Hfin _].
    unfold resolve1. cbn [fst snd]. destruct (lookup3_some vs f (Hf f Hfin)) as [t ->].
    destruct (lookup3_some dots f) as [d ->]; [unfold dots; rewrite map_length; apply Hf, Hfin|].
    destruct (lookup3_some sg f) as [s ->]; [unfold sg, dots; rewrite !map_length; apply Hf, Hfin|]. eexists; reflexivity. }
  unfold resolve. fold dots. fold sg. rewrite Hfds. f_equal. apply slice_fds_all_dropped.
  intros d Hd. apply (all_some_In _ _ _ Hfds) in Hd. apply in_map_iff in Hd. destruct Hd as ((f & m) & Hr & Hfm).
  apply zip_In in Hfm. destruct Hfm as [_ Hm]. apply repeat_spec in Hm. subst m.
  unfold resolve1 in Hr. cbn [fst snd] in Hr. destruct (lookup3 vs f); [|discriminate]. destruct (lookup3 dots f); [|discriminate].
  destruct (lookup3 sg f) as [[[a b] c]|] eqn:El; [|discriminate]. injection Hr as <-. cbn [fd_s fd_m].
  apply lookup3_In in El. destruct El as (Ha & Hb' & Hc). rewrite (Hsg a Ha), (Hsg b Hb'), (Hsg c Hc). reflexivity.
Qed.

(* ---- renumbering: valid indices, no orphans, same coordinates ---------------------------------------------- *)
Lemma fget_valid nv f j : face_valid nv f -> fget f j < nv.
Proof. intros (H0 & H1 & H2). destruct j as [|[|j]]; cbn [fget]; assumption. Qed.
Lemma flat_faces_In fs f k : In f fs -> In (fget f k) (flat_faces fs).
Proof.
  intros H. unfold flat_faces. apply in_flat_map. exists f. split; [exact H|].
  destruct k as [|[|k]]; cbn [fget In]; auto.
Qed.
Lemma flat_faces_inv fs v : In v (flat_faces fs) -> exists f k, In f fs /\ v = fget f k.
Proof.
  unfold flat_faces. rewrite in_flat_map. intros (f & Hf & [<-|[<-|[<-|[]]]]); [exists f, 0|exists f, 1|exists f, 2]; auto.
Qed.
Lemma flat_faces_lt nv fs v : Forall (face_valid nv) fs -> In v (flat_faces fs) -> v < nv.
Proof.
  intros H Hv. apply flat_faces_inv in Hv. destruct Hv as (f & k & Hf & ->).
  rewrite Forall_forall in H. apply fget_valid, H, Hf.
Qed.

Lemma renumber_spec (nvs : list (vec3 R)) fs : Forall (face_valid (length nvs)) fs ->
  Forall (face_valid (length (fst (renumber nvs fs)))) (snd (renumber nvs fs)) /\
  (forall i, i < length (fst (renumber nvs fs)) -> In i (flat_faces (snd (renumber nvs fs)))) /\
  mesh_tris (fst (renumber nvs fs)) (snd (renumber nvs fs)) = mesh_tris nvs fs.
Proof.
  intros Hv. unfold renumber. cbn [fst snd]. set (vals := flat_faces fs).
  assert (Hu : Forall (fun i => i < length nvs) (ub_unique vals)).
  { apply Forall_forall. intros u Hu. apply (proj1 (ub_unique_In _ _)) in Hu. apply (flat_faces_lt _ fs); [exact Hv|exact Hu]. }
  assert (Hlen : length (take nvs (ub_unique vals)) = length (ub_unique vals)) by apply take_length, Hu.
  assert (Hnth : forall v, In v vals -> nth_error (take nvs (ub_unique vals)) (ub_rank vals v) = nth_error nvs v).
  { intros v Hin. apply nth_error_take; [exact Hu|apply ub_rank_nth, Hin]. }
  repeat split.
  - apply Forall_forall. intros f' Hf'. apply in_map_iff in Hf'. destruct Hf' as (f & <- & Hf).
    unfold face_valid, map_face, mkface. cbn [fget fst snd]. rewrite Hlen.
    repeat split; apply ub_rank_lt; [apply (flat_faces_In fs f 0 Hf)|apply (flat_faces_In fs f 1 Hf)|apply (flat_faces_In fs f 2 Hf)].
  - intros i Hi. rewrite Hlen in Hi. destruct (nth_error (ub_unique vals) i) as [u|] eqn:E; [|apply nth_error_None in E; lia].
    destruct (ub_rank_of_nth vals i u E) as [Hin Hr]. apply flat_faces_inv in Hin. destruct Hin as (f & k & Hf & ->).
    rewrite <- Hr. replace (ub_rank vals (fget f k)) with (fget (map_face (ub_rank vals) f) k)
      by (destruct k as [|[|k]]; reflexivity).
    apply flat_faces_In. apply in_map, Hf.
  - unfold mesh_tris. rewrite map_map. apply map_ext_in. intros f Hf.
    unfold lookup3, map_face, mkface. cbn [fget fst snd].
    rewrite !Hnth; [reflexivity|apply (flat_faces_In fs f 2 Hf)|apply (flat_faces_In fs f 1 Hf)|apply (flat_faces_In fs f 0 Hf)].
Qed.

Section Mesh2.
  Context (eps : R) (n o : vec3 R).
  Local Notation fdata := (@fdata R).

  Lemma face_valid_mono a b f : a <= b -> face_valid a f -> face_valid b f.
  Proof. unfold face_valid. intros; lia. Qed.
  Lemma quad_faces_valid nv L (qs : list fdata) : forall base,
    (forall d, In d qs -> face_valid nv (fd_f d)) -> nv <= base -> base + 2 * length qs <= L ->
    Forall (face_valid L) (quad_faces base qs).
  Proof.
    induction qs as [|d r IH]; intros base Hd Hb HL; cbn [quad_faces]; [constructor|].
    cbn [length] in HL. apply Forall_app. split.
    - pose proof (Hd d (or_introl eq_refl)) as Hv. unfold quad_faces1, mkface.
      pose proof (fget_valid nv (fd_f d) ((col_of 1 (fd_s d) + 1) mod 3) Hv).
      pose proof (fget_valid nv (fd_f d) ((col_of 1 (fd_s d) + 2) mod 3) Hv).
      repeat constructor; cbn [fget fst snd]; lia.
    - apply IH; [intros d' Hd'; apply Hd; right; exact Hd'|lia|lia].
  Qed.
  Lemma tri_faces_valid nv L (ts : list fdata) : forall base,
    (forall d, In d ts -> face_valid nv (fd_f d)) -> nv <= base -> base + 2 * length ts <= L ->
    Forall (face_valid L) (tri_faces base ts).
  Proof.
    induction ts as [|d r IH]; intros base Hd Hb HL; cbn [tri_faces]; [constructor|].
    cbn [length] in HL. apply Forall_app. split.
    - pose proof (Hd d (or_introl eq_refl)) as Hv. unfold tri_faces1, mkface.
      pose proof (fget_valid nv (fd_f d) (col_of (-1) (fd_s d)) Hv).
      repeat constructor; cbn [fget fst snd]; lia.
    - apply IH; [intros d' Hd'; apply Hd; right; exact Hd'|lia|lia].
  Qed.

  (* the faces handed to the renumbering only index the concatenated vertex array *)
  Lemma slice_fds_wellformed vs (fds : list fdata) :
    (forall d, In d fds -> face_valid (length vs) (fd_f d)) ->
    Forall (face_valid (length (mo_v (slice_fds ROps eps vs fds)))) (mo_f (slice_fds ROps eps vs fds)) /\
    (forall i, i < length (mo_v (slice_fds ROps eps vs fds)) -> In i (flat_faces (mo_f (slice_fds ROps eps vs fds)))).
  Proof.
    intros Hd. unfold slice_fds.
    set (kept := map (@fd_f R) (take fds (flatnonzero (inside_mask fds)))).
    set (quads := take fds (flatnonzero (quad_mask fds))). set (tris := take fds (flatnonzero (tri_mask fds))).
    assert (Hk : Forall (face_valid (length vs)) kept).
    { apply Forall_forall. intros f Hf. apply in_map_iff in Hf. destruct Hf as (d & <- & Hin). apply Hd. eapply take_In, Hin. }
    assert (Hq : forall d, In d quads -> face_valid (length vs) (fd_f d)) by (intros d Hin; apply Hd; eapply take_In, Hin).
    assert (Ht : forall d, In d tris -> face_valid (length vs) (fd_f d)) by (intros d Hin; apply Hd; eapply take_In, Hin).
    destruct (length quads + length tris =? 0).
    - destruct (length kept =? 0); cbn [mo_v mo_f].
      + split; [constructor|]. intros i Hi. cbn [length] in Hi. lia.
      + destruct (renumber_spec vs kept Hk) as (H1 & H2 & _). split; assumption.
    - cbn [mo_v mo_f].
      set (NV := vs ++ quad_verts ROps eps quads ++ tri_verts ROps eps tris).
      assert (HL : length NV = length vs + 2 * length quads + 2 * length tris).
      { unfold NV. rewrite !app_length, quad_verts_length, tri_verts_length. lia. }
      assert (Hall : Forall (face_valid (length NV))
                (kept ++ quad_faces (length vs) quads ++ tri_faces (length vs + length (quad_verts ROps eps quads)) tris)).
      { apply Forall_app. split; [|apply Forall_app; split].
        - eapply Forall_impl; [|exact Hk]. intros f. apply face_valid_mono. lia.
        - apply (quad_faces_valid (length vs)); [exact Hq|lia|lia].
        - apply (tri_faces_valid (length vs)); [exact Ht|lia|rewrite quad_verts_length; lia]. }
      destruct (renumber_spec NV _ Hall) as (H1 & H2 & _). split; assumption.
  Qed.
End Mesh2.

Lemma resolve_valid (vs : list (vec3 R)) dots sg fs mask fds d :
  resolve vs dots sg fs mask = Some fds -> In d fds -> face_valid (length vs) (fd_f d).
Proof.
  intros Hr Hd. unfold resolve in Hr. apply (all_some_In _ _ _ Hr) in Hd. apply in_map_iff in Hd.
  destruct Hd as ((f & m) & Hres & _). unfold resolve1 in Hres. cbn [fst snd] in Hres.
  destruct (lookup3 vs f) as [t|] eqn:El; [|discriminate]. destruct (lookup3 dots f); [|discriminate].
  destruct (lookup3 sg f); [|discriminate].
  injection Hres as <-. cbn [fd_f]. unfold lookup3 in El.
  destruct (nth_error vs (fget f 0)) eqn:E0; [|discriminate]. destruct (nth_error vs (fget f 1)) eqn:E1; [|discriminate].
  destruct (nth_error vs (fget f 2)) eqn:E2; [|discriminate].
  repeat split; apply nth_error_Some; congruence.
Qed.

(* every returned face entry indexes a returned vertex, and every returned vertex is used by a face *)
Theorem slice_indices_valid_no_orphans vs fs ref n mask r :
  (forall f, In f fs -> face_valid (length vs) f) ->
  slice_triangles_by_plane ROps vs fs ref n mask = Ok r ->
  Forall (face_valid (length (mo_v r))) (mo_f r) /\
  (forall i, i < length (mo_v r) -> In i (flat_faces (mo_f r))).
Proof.
  intros Hf. unfold slice_triangles_by_plane, slice_faces_plane. destruct (length vs =? 0) eqn:E0.
  - intros [= <-]. cbn [mo_v mo_f]. apply Nat.eqb_eq in E0. split.
    + apply Forall_forall. intros f Hin. apply Hf, Hin.
    + intros i Hi. lia.
  - destruct (mask_of (length fs) _) as [m|e]; cbn [rbind]; [|discriminate].
    destruct (resolve vs _ _ fs m) as [fds|] eqn:Er; [|discriminate]. intros [= <-].
    apply slice_fds_wellformed. intros d Hd. eapply resolve_valid; eassumption.
Qed.

(* ---- the mask: faces_to_slice.nonzero()[0] and back ------------------------------------------------------------- *)
Lemma existsb_nonzero_from_lt i s m : (i < s)%nat -> existsb (Nat.eqb i) (nonzero_from s m) = false.
Proof.
  intros H. apply not_true_is_false. intros E. apply existsb_exists in E. destruct E as (x & Hx & Ex).
  apply Nat.eqb_eq in Ex. subst x. apply nonzero_from_lb in Hx. lia.
Qed.
Lemma mask_roundtrip_from (m : list bool) : forall s,
  map (fun i => existsb (Nat.eqb i) (nonzero_from s m)) (seq s (length m)) = m.
Proof.
  induction m as [|b r IH]; intros s; [reflexivity|]. cbn [length seq map nonzero_from]. f_equal.
  - destruct b; cbn [existsb]; [rewrite Nat.eqb_refl; reflexivity|]. apply existsb_nonzero_from_lt. lia.
  - rewrite <- (IH (S s)) at 2. apply map_ext_in. intros i Hi. apply in_seq in Hi.
    destruct b; [|reflexivity]. cbn [existsb]. replace (i =? s)%nat with false by (symmetry; apply Nat.eqb_neq; lia). reflexivity.
Qed.
(* a boolean mask of the right length survives the wrapper's mask -> indices -> mask translation *)
Lemma mask_roundtrip (m : list bool) : mask_of (length m) (Some (flatnonzero m)) = Ok m.
Proof.
  unfold mask_of.
  assert (H : forallb (fun i => (i <? length m)%nat) (flatnonzero m) = true).
  { apply forallb_forall. intros i Hi. apply Nat.ltb_lt, flatnonzero_lt, Hi. }
  rewrite H. f_equal. apply (mask_roundtrip_from m 0).
Qed.
