(* C01/C02: statements about the PUBLIC entry point slice_triangles_by_plane with the real constants (tol = 1e-8): totality
   on the domain, and the per-face / mesh theorems instantiated. *)
From Coq Require Import ZArith Reals Lra List Bool Lia Arith Sorted Permutation.
From PW Require Import Num NumR Vec NpList Result.
From PW.model Require Import M_slicing M_slicing_spec.
From PW.proofs Require Import P_nplist P_slicing P_slicing_face P_slicing_cover P_slicing_mesh P_slicing_perface P_slicing_idem P_slicing_z.
Import ListNotations.

Lemma merge_tol_nonneg : (0 <= merge_tol ROps)%R.
Proof. unfold merge_tol, nfrac; rops. lra. Qed.

Lemma mask_of_public nf mask : mask_ok nf mask -> mask_of nf (option_map flatnonzero mask) = Ok (mask_list nf mask).
Proof. destruct mask as [m|]; cbn [mask_ok option_map mask_list]; [intros <-; apply mask_roundtrip|reflexivity]. Qed.

(* ---- totality on the domain ------------------------------------------------------------------------------------------ *)
Lemma resolve_total (vs : list (vec3 R)) dots sg fs mask :
  length dots = length vs -> length sg = length vs -> (forall f, In f fs -> face_valid (length vs) f) ->
  exists fds, resolve vs dots sg fs mask = Some fds.
Proof.
  intros Hd Hs Hf. unfold resolve. apply all_some_exists. intros x Hx. apply in_map_iff in Hx.
  destruct Hx as ((f & m) & <- & Hfm). apply zip_In in Hfm. destruct Hfm as [Hfin _].
  unfold resolve1. cbn [fst snd]. destruct (lookup3_some vs f (Hf f Hfin)) as [t ->].
  destruct (lookup3_some dots f) as [d ->]; [rewrite Hd; apply Hf, Hfin|].
  destruct (lookup3_some sg f) as [s ->]; [rewrite Hs; apply Hf, Hfin|]. eexists; reflexivity.
Qed.

(* whatever the vertices, the plane and the mask: if the faces index the vertices and the mask (if any) has one entry per
   face, the call returns *)
Theorem slice_total vs fs ref n mask :
  (forall f, In f fs -> face_valid (length vs) f) -> mask_ok (length fs) mask ->
  exists r, slice_triangles_by_plane ROps vs fs ref n mask = Ok r.
Proof.
  intros Hf Hm. unfold slice_triangles_by_plane, slice_faces_plane. destruct (length vs =? 0)%nat; [eexists; reflexivity|].
  rewrite (mask_of_public _ _ Hm). cbn [rbind].
  destruct (resolve_total vs (map (snapped_dot ROps (merge_tol ROps) n ref) vs)
              (map (vsign ROps (merge_tol ROps)) (map (snapped_dot ROps (merge_tol ROps) n ref) vs)) fs
              (mask_list (length fs) mask)) as [fds ->]; [rewrite map_length; reflexivity|rewrite !map_length; reflexivity|exact Hf|].
  eexists; reflexivity.
Qed.

(* ---- the per-face theorems at the public entry point, tol = 1e-8 ------------------------------------------------- *)
(* every returned triangle j comes from the input face mapping[j] through the per-face kernel; it lies in that face, and if
   the face was selected no point of it is further than 1e-8 behind the plane *)
Theorem public_slice_sound vs fs ref n mask r : vs <> [] -> mask_ok (length fs) mask ->
  slice_triangles_by_plane ROps vs fs ref n mask = Ok r ->
  forall i x, In (i, x) (zip (mo_map r) (mesh_tris (mo_v r) (mo_f r))) ->
  exists f t t' m, nth_error fs i = Some f /\ lookup3 vs f = Some t /\ x = Some t' /\
    nth_error (mask_list (length fs) mask) i = Some m /\
    In t' (slice_face ROps (merge_tol ROps) (patch_eps ROps) n ref m t) /\
    forall p, in_tri t' p -> in_tri t p /\ (m = true -> (- merge_tol ROps <= pd n ref p)%R).
Proof.
  intros Hvs Hmk Hr i x Hin.
  destruct (slice_mesh_is_per_face _ _ _ _ _ _ _ _ Hvs Hr) as (mk & rows & Hm & _ & Hrows & Hp).
  rewrite (mask_of_public _ _ Hmk) in Hm. injection Hm as <-.
  apply (Permutation_in _ Hp) in Hin. apply in_flat_map in Hin. destruct Hin as ((j & d) & Hjd & Hy).
  cbn [fst snd] in Hy. apply in_map_iff in Hy. destruct Hy as (t' & [= <- <-] & Ht').
  apply indexed_In in Hjd. destruct (Hrows _ _ Hjd) as (Hf & Hmi & Hlk).
  exists (fd_f d), (fd_t d), t', (fd_m d). repeat split; try assumption.
  - exact (proj1 (slice_face_sound _ _ _ _ _ _ _ _ merge_tol_nonneg Ht' H)).
  - exact (proj2 (slice_face_sound _ _ _ _ _ _ _ _ merge_tol_nonneg Ht' H)).
Qed.

(* a mesh wholly further than 1e-8 behind the plane, all faces selected: three empty arrays *)
Theorem public_all_behind vs fs ref n : vs <> [] ->
  (forall v, In v vs -> (plane_dot ROps n ref v < - merge_tol ROps)%R) -> (forall f, In f fs -> face_valid (length vs) f) ->
  slice_triangles_by_plane ROps vs fs ref n None = Ok (MkOut [] [] []).
Proof. intros Hvs Hb Hf. exact (slice_all_behind _ _ _ _ _ _ merge_tol_nonneg Hvs Hb Hf). Qed.

(* slicing the public result again with the same plane returns the same triangles *)
Theorem public_idempotent vs fs ref n r r2 : vs <> [] ->
  slice_triangles_by_plane ROps vs fs ref n None = Ok r ->
  slice_triangles_by_plane ROps (mo_v r) (mo_f r) ref n None = Ok r2 ->
  Permutation (mesh_tris (mo_v r2) (mo_f r2)) (mesh_tris (mo_v r) (mo_f r)).
Proof. intros Hvs H1 H2. exact (slice_idempotent _ _ _ _ _ _ _ _ merge_tol_nonneg Hvs H1 H2). Qed.

(* ---- independence of the face order and of the vertex numbering, at the public entry point ----------------------- *)
Lemma all_some_eq {A} (l : list (option A)) r : all_some l = Some r <-> l = map Some r.
Proof.
  revert r. induction l as [|x l IH]; intros r; cbn [all_some].
  - split; [intros [= <-]; reflexivity|]. destruct r; [reflexivity|discriminate].
  - destruct x as [a|].
    + destruct (all_some l) as [r'|] eqn:E.
      * split; [intros [= <-]; cbn [map]; f_equal; apply IH; reflexivity|].
        destruct r as [|b r]; [discriminate|]. cbn [map]. intros [= -> H]. apply IH in H. congruence.
      * split; [discriminate|]. destruct r as [|b r]; [discriminate|]. cbn [map]. intros [= -> H]. apply IH in H. discriminate.
    + split; [discriminate|]. destruct r; discriminate.
Qed.
Lemma all_some_perm {A} (l l' : list (option A)) r : Permutation l l' -> all_some l = Some r ->
  exists r', all_some l' = Some r' /\ Permutation r r'.
Proof.
  intros Hp Hr. apply all_some_eq in Hr. subst l. apply Permutation_sym in Hp.
  destruct (Permutation_map_inv _ _ Hp) as (r' & -> & Hp'). exists r'. split; [apply all_some_eq; reflexivity|exact Hp'].
Qed.
Lemma resolve_wf (vs : list (vec3 R)) dots sg fs mask fds d :
  resolve vs dots sg fs mask = Some fds -> In d fds -> fd_wf vs d.
Proof.
  intros Hr Hd. unfold resolve in Hr. apply (all_some_In _ _ _ Hr) in Hd. apply in_map_iff in Hd.
  destruct Hd as ((f & m) & Hres & _). unfold resolve1 in Hres. cbn [fst snd] in Hres.
  destruct (lookup3 vs f) as [t|] eqn:El; [|discriminate]. destruct (lookup3 dots f); [|discriminate].
  destruct (lookup3 sg f); [|discriminate]. injection Hres as <-. exact El.
Qed.

(* the rows the public call works on *)
Lemma public_rows vs fs ref n mask r : vs <> [] -> mask_ok (length fs) mask ->
  slice_triangles_by_plane ROps vs fs ref n mask = Ok r ->
  exists fds,
    resolve vs (map (snapped_dot ROps (merge_tol ROps) n ref) vs)
            (map (vsign ROps (merge_tol ROps)) (map (snapped_dot ROps (merge_tol ROps) n ref) vs)) fs
            (mask_list (length fs) mask) = Some fds /\
    r = slice_fds ROps (patch_eps ROps) vs fds.
Proof.
  intros Hvs Hm. unfold slice_triangles_by_plane, slice_faces_plane.
  destruct vs as [|v0 vs0]; [congruence|]. cbn [length Nat.eqb]. set (vs := v0 :: vs0) in *.
  rewrite (mask_of_public _ _ Hm). cbn [rbind].
  destruct (resolve vs _ _ fs _) as [fds|]; [|discriminate]. intros [= <-]. exists fds. split; reflexivity.
Qed.

(* permuting the faces (and the mask entries with them) permutes the returned coordinate triangles *)
Theorem public_face_order_invariant vs fs fs' ref n mask mask' r r' : vs <> [] ->
  mask_ok (length fs) mask -> mask_ok (length fs') mask' ->
  Permutation (zip fs (mask_list (length fs) mask)) (zip fs' (mask_list (length fs') mask')) ->
  slice_triangles_by_plane ROps vs fs ref n mask = Ok r ->
  slice_triangles_by_plane ROps vs fs' ref n mask' = Ok r' ->
  Permutation (mesh_tris (mo_v r) (mo_f r)) (mesh_tris (mo_v r') (mo_f r')).
Proof.
  intros Hvs Hm Hm' Hp H1 H2.
  destruct (public_rows _ _ _ _ _ _ Hvs Hm H1) as (fds & R1 & ->).
  destruct (public_rows _ _ _ _ _ _ Hvs Hm' H2) as (fds' & R2 & ->).
  apply slice_perm_relabel_invariant.
  - intros d Hd. exact (resolve_wf _ _ _ _ _ _ _ R1 Hd).
  - intros d Hd. exact (resolve_wf _ _ _ _ _ _ _ R2 Hd).
  - unfold resolve in R1, R2.
    destruct (all_some_perm _ _ _ (Permutation_map _ Hp) R1) as (fds2 & R2' & Hp2).
    rewrite R2 in R2'. injection R2' as <-. apply Permutation_map, Hp2.
Qed.
Lemma zip_repeat_true {A} (l : list A) : zip l (repeat true (length l)) = map (fun x => (x, true)) l.
Proof. induction l as [|a r IH]; [reflexivity|]. cbn [length repeat zip map]. rewrite IH. reflexivity. Qed.
Corollary public_face_order_invariant_nomask vs fs fs' ref n r r' : vs <> [] -> Permutation fs fs' ->
  slice_triangles_by_plane ROps vs fs ref n None = Ok r ->
  slice_triangles_by_plane ROps vs fs' ref n None = Ok r' ->
  Permutation (mesh_tris (mo_v r) (mo_f r)) (mesh_tris (mo_v r') (mo_f r')).
Proof.
  intros Hvs Hp. apply (public_face_order_invariant vs fs fs' ref n None None r r' Hvs I I).
  cbn [mask_list]. rewrite !zip_repeat_true. apply Permutation_map, Hp.
Qed.

(* renumbering the vertices: vs' holds every vertex i of vs at position g i (unreferenced extra vertices allowed), the faces
   are rewritten through g — the returned coordinate triangles are the same up to order *)
Lemma zip_map_l {A B C} (k : A -> C) (l : list A) (l' : list B) :
  zip (map k l) l' = map (fun p => (k (fst p), snd p)) (zip l l').
Proof.
  revert l'. induction l as [|a r IH]; intros [|b r']; cbn [map zip]; try reflexivity. rewrite IH. reflexivity.
Qed.
Lemma all_some_rel {A B} (row : B -> _) (g1 g2 : A -> option B) (l : list A) : forall r,
  all_some (map g1 l) = Some r ->
  (forall x d, In x l -> g1 x = Some d -> exists d', g2 x = Some d' /\ row d' = row d :> (tri R * (R * R * R) * sgn3 * bool)) ->
  exists r', all_some (map g2 l) = Some r' /\ map row r' = map row r.
Proof.
  induction l as [|x l IH]; intros r Hr H; cbn [map all_some] in *.
  - injection Hr as <-. exists []. split; reflexivity.
  - destruct (g1 x) as [d|] eqn:E1; [|discriminate]. destruct (all_some (map g1 l)) as [r0|] eqn:E0; [|discriminate].
    injection Hr as <-. destruct (H x d (or_introl eq_refl) E1) as (d' & E2 & Hrow).
    destruct (IH r0 eq_refl) as (r0' & E0' & Hr0); [intros y dy Hy; apply H; right; exact Hy|].
    exists (d' :: r0'). rewrite E2, E0'. split; [reflexivity|]. cbn [map]. rewrite Hrow, Hr0. reflexivity.
Qed.
Lemma lookup3_relabel {A} (l l' : list A) (g : nat -> nat) f t :
  (forall i v, nth_error l i = Some v -> nth_error l' (g i) = Some v) ->
  lookup3 l f = Some t -> lookup3 l' (map_face g f) = Some t.
Proof.
  intros Hg H. destruct (lookup3_nth l f t H) as (H0 & H1 & H2). unfold lookup3, map_face, mkface. cbn [fget] in *. cbn [fst snd].
  rewrite (Hg _ _ H0), (Hg _ _ H1), (Hg _ _ H2). destruct t as [[a b] c]. reflexivity.
Qed.
Theorem public_vertex_numbering_invariant vs vs' (g : nat -> nat) fs ref n mask r r' : vs <> [] -> vs' <> [] ->
  mask_ok (length fs) mask ->
  (forall i v, nth_error vs i = Some v -> nth_error vs' (g i) = Some v) ->
  slice_triangles_by_plane ROps vs fs ref n mask = Ok r ->
  slice_triangles_by_plane ROps vs' (map (map_face g) fs) ref n mask = Ok r' ->
  Permutation (mesh_tris (mo_v r) (mo_f r)) (mesh_tris (mo_v r') (mo_f r')).
Proof.
  intros Hvs Hvs' Hm Hg H1 H2.
  assert (Hm' : mask_ok (length (map (map_face g) fs)) mask) by (rewrite map_length; exact Hm).
  destruct (public_rows _ _ _ _ _ _ Hvs Hm H1) as (fds & R1 & ->).
  destruct (public_rows _ _ _ _ _ _ Hvs' Hm' H2) as (fds' & R2 & ->).
  apply slice_perm_relabel_invariant.
  - intros d Hd. exact (resolve_wf _ _ _ _ _ _ _ R1 Hd).
  - intros d Hd. exact (resolve_wf _ _ _ _ _ _ _ R2 Hd).
  - apply Permutation_refl'. unfold resolve in R1, R2. rewrite map_length, zip_map_l, map_map in R2.
    set (h := snapped_dot ROps (merge_tol ROps) n ref) in *. set (sgn := vsign ROps (merge_tol ROps)) in *.
    destruct (all_some_rel fd_row _ (fun p => resolve1 vs' (map h vs') (map sgn (map h vs')) (map_face g (fst p), snd p))
                _ _ R1) as (fds2 & R2' & Hrows).
    { intros (f & m) d _ Hd. unfold resolve1 in *. cbn [fst snd] in *.
      destruct (lookup3 vs f) as [t|] eqn:El; [|discriminate].
      rewrite map_map, !lookup3_map, El in Hd. cbn [option_map] in Hd. injection Hd as <-.
      rewrite map_map, !lookup3_map, (lookup3_relabel vs vs' g f t Hg El). cbn [option_map].
      eexists. split; [reflexivity|]. reflexivity. }
    rewrite R2 in R2'. injection R2' as <-. symmetry. exact Hrows.
Qed.

(* ... with provenance: pairing every returned triangle with the INPUT FACE its mapping entry names (the index triple), the two
   results are permutations of each other — the mapping follows the permutation of the faces *)
Lemma resolve_nth (vs : list (vec3 R)) dots sg fs mask fds i d :
  resolve vs dots sg fs mask = Some fds -> nth_error fds i = Some d -> nth_error fs i = Some (fd_f d).
Proof.
  intros Hr Hi. unfold resolve in Hr. pose proof (all_some_nth _ _ _ _ Hr Hi) as Hn.
  rewrite nth_error_map in Hn. destruct (nth_error (zip fs mask) i) as [[f m]|] eqn:Ez; [|discriminate].
  cbn [option_map] in Hn. injection Hn as Hn. apply nth_error_zip in Ez. destruct Ez as [Ef _].
  unfold resolve1 in Hn. cbn [fst snd] in Hn. destruct (lookup3 vs f); [|discriminate].
  destruct (lookup3 dots f); [|discriminate]. destruct (lookup3 sg f); [|discriminate]. injection Hn as <-. exact Ef.
Qed.
Lemma sources_of_rows eps (vs : list (vec3 R)) dots sg fs mask fds :
  resolve vs dots sg fs mask = Some fds ->
  map (with_source fs) (flat_map (per_face eps) (indexed fds)) =
  flat_map (fun d => map (fun t' => (Some (fd_f d), Some t'))
                         (slice_face_signs ROps eps (fd_d d) (fd_s d) (fd_m d) (fd_t d))) fds.
Proof.
  intros Hr. rewrite map_flat_map. unfold indexed.
  rewrite <- (flat_map_indexed_snd (fun d : fdata => map (fun t' => (Some (fd_f d), Some t'))
                (slice_face_signs ROps eps (fd_d d) (fd_s d) (fd_m d) (fd_t d))) fds 0).
  apply flat_map_ext_in'. intros (i & d) Hx. apply indexed_In in Hx. unfold per_face. rewrite map_map. cbn [fst snd].
  apply map_ext. intros t'. unfold with_source. cbn [fst snd]. rewrite (resolve_nth _ _ _ _ _ _ _ _ Hr Hx). reflexivity.
Qed.
Theorem public_face_order_invariant_provenance vs fs fs' ref n mask mask' r r' : vs <> [] ->
  mask_ok (length fs) mask -> mask_ok (length fs') mask' ->
  Permutation (zip fs (mask_list (length fs) mask)) (zip fs' (mask_list (length fs') mask')) ->
  slice_triangles_by_plane ROps vs fs ref n mask = Ok r ->
  slice_triangles_by_plane ROps vs fs' ref n mask' = Ok r' ->
  Permutation (map (with_source fs) (zip (mo_map r) (mesh_tris (mo_v r) (mo_f r))))
              (map (with_source fs') (zip (mo_map r') (mesh_tris (mo_v r') (mo_f r')))).
Proof.
  intros Hvs Hm Hm' Hp H1 H2.
  destruct (public_rows _ _ _ _ _ _ Hvs Hm H1) as (fds & R1 & ->).
  destruct (public_rows _ _ _ _ _ _ Hvs Hm' H2) as (fds' & R2 & ->).
  pose proof (slice_fds_per_face (patch_eps ROps) vs fds (fun d Hd => resolve_wf _ _ _ _ _ _ _ R1 Hd)) as P1.
  pose proof (slice_fds_per_face (patch_eps ROps) vs fds' (fun d Hd => resolve_wf _ _ _ _ _ _ _ R2 Hd)) as P2.
  apply (Permutation_map (with_source fs)) in P1. apply (Permutation_map (with_source fs')) in P2.
  rewrite (sources_of_rows _ _ _ _ _ _ _ R1) in P1. rewrite (sources_of_rows _ _ _ _ _ _ _ R2) in P2.
  eapply Permutation_trans; [exact P1|]. eapply Permutation_trans; [|apply Permutation_sym; exact P2].
  apply Permutation_flat_map.
  unfold resolve in R1, R2. destruct (all_some_perm _ _ _ (Permutation_map _ Hp) R1) as (fds2 & R2' & Hp2).
  rewrite R2 in R2'. injection R2' as <-. exact Hp2.
Qed.

(* idempotence for all masks at the public entry point: the second call selects output face j iff the first call selected its
   source face mapping[j] *)
Theorem public_idempotent_masked vs fs ref n mask mask2 r r2 : vs <> [] -> mask_ok (length fs) mask ->
  slice_triangles_by_plane ROps vs fs ref n mask = Ok r ->
  length mask2 = length (mo_map r) ->
  (forall j i, nth_error (mo_map r) j = Some i -> nth_error mask2 j = nth_error (mask_list (length fs) mask) i) ->
  slice_triangles_by_plane ROps (mo_v r) (mo_f r) ref n (Some mask2) = Ok r2 ->
  Permutation (mesh_tris (mo_v r2) (mo_f r2)) (mesh_tris (mo_v r) (mo_f r)).
Proof.
  intros Hvs Hm H1 Hl Hm2 H2.
  exact (slice_idempotent_masked _ _ _ _ _ _ _ _ _ _ _ merge_tol_nonneg Hvs H1 (mask_of_public _ _ Hm) Hl Hm2 H2).
Qed.

(* ---- wrapping face entries at the public entry point (tol = 1e-8) -------------------------------------------------- *)
(* REFUTED for wrapping entries (known finding negative_index_survives): one vertex in front of the plane z = 0 and the
   face (-1, -1, -1), whose entries all index that vertex in NumPy's sense; the face is kept and carries its negative entries
   into np.bincount *)
Theorem public_negative_index_survives :
  (forall f, In f [mkzface (-1) (-1) (-1)] -> forall k, (- Z.of_nat (length [V3 0 0 1]%R) <= zget f k < Z.of_nat (length [V3 0 0 1]%R))%Z) /\
  slice_triangles_by_plane_z ROps [V3 0 0 1]%R [mkzface (-1) (-1) (-1)] (V3 0 0 0)%R (V3 0 0 1)%R None = Raise ValueError.
Proof.
  split.
  - intros f [<-|[]] k. destruct k as [|[|k]]; cbn; lia.
  - assert (P : plane_dot ROps (V3 0 0 1)%R (V3 0 0 0)%R (V3 0 0 1)%R = 1%R) by (unfold plane_dot; P_vec.vunf; ring).
    assert (D : snapped_dot ROps (merge_tol ROps) (V3 0 0 1)%R (V3 0 0 0)%R (V3 0 0 1)%R = 1%R).
    { unfold snapped_dot. rewrite P. destruct (snap_cases (merge_tol ROps) 1 merge_tol_nonneg) as [[_ H]|[E _]]; [|exact E].
      exfalso. revert H. unfold merge_tol, nfrac; rops. lra. }
    assert (S1 : vsign ROps (merge_tol ROps) 1%R = (-1)%Z) by (apply vsign_front; unfold merge_tol, nfrac; rops; lra).
    unfold slice_triangles_by_plane_z, slice_faces_plane_z. cbn [length Nat.eqb map option_map]. rewrite D. cbn [map]. rewrite S1.
    reflexivity.
Qed.
