(* Real-number lemmas for M_pointcloud.v (C17: extent, percentile). *)
From Coq Require Import ZArith Reals Lra Psatz List Bool Lia Nsatz Sorted Permutation.
From PW Require Import Num NumR Vec NpList Result.
From PW.model Require Import M_pointcloud.
From PW.proofs Require Import P_vec P_nplist.
Import ListNotations.
Local Open Scope R_scope.

(* ---- argmax --------------------------------------------------------------------------------------------- *)
Lemma argmax_from_spec l : forall best bi i,
  let r := argmax_from ROps best bi i l in
  best <= snd r /\ Forall (fun x => x <= snd r) l /\
  ((fst r = bi /\ snd r = best) \/ exists k, fst r = (i + k)%nat /\ nth_error l k = Some (snd r)).
Proof.
  induction l as [|x l IH]; intros best bi i; cbn [argmax_from]; cbv zeta.
  - cbn [fst snd]. split; [lra|]. split; [constructor|left; auto].
  - rops. destruct (Rltb_spec best x) as [Hlt|Hge].
    + specialize (IH x i (S i)). cbv zeta in IH. destruct IH as (A & B & C).
      split; [lra|]. split; [constructor; [exact A|exact B]|]. right. destruct C as [[C1 C2]|(k & C1 & C2)].
      * exists 0%nat. rewrite C1, C2. split; [lia|reflexivity].
      * exists (S k). split; [lia|exact C2].
    + specialize (IH best bi (S i)). cbv zeta in IH. destruct IH as (A & B & C).
      split; [exact A|]. split; [constructor; [lra|exact B]|]. destruct C as [C|(k & C1 & C2)]; [left; exact C|].
      right. exists (S k). split; [lia|exact C2].
Qed.
Lemma argmax_spec x l : let r := argmax ROps (x :: l) in
  Forall (fun y => y <= snd r) (x :: l) /\ nth_error (x :: l) (fst r) = Some (snd r).
Proof.
  cbv zeta. unfold argmax. destruct (argmax_from_spec l x 0%nat 1%nat) as (A & B & C). cbv zeta in *.
  split; [constructor; assumption|]. destruct C as [[C1 C2]|(k & C1 & C2)].
  - rewrite C1, C2. reflexivity.
  - rewrite C1. exact C2.
Qed.

(* ---- extent --------------------------------------------------------------------------------------------- *)
Definition ext_inv (ps done : list (vec3 R)) (st : ext_state) : Prop :=
  let '(fd, fi, fj) := st in
  (forall a b, In a done -> In b ps -> vdist ROps a b <= fd) /\
  ((done = [] /\ fd = -1) \/
   exists i j pi pj, fi = Z.of_nat i /\ fj = Z.of_nat j /\ nth_error ps i = Some pi /\ nth_error ps j = Some pj /\
                     fd = vdist ROps pi pj).

Lemma vdist_nonneg a b : 0 <= vdist ROps a b.
Proof. unfold vdist. apply vnorm_nonneg. Qed.

Lemma ext_step_inv ps done probe st : ps <> [] -> nth_error ps (length done) = Some probe ->
  ext_inv ps done st -> ext_inv ps (done ++ [probe]) (ext_step ROps ps st (length done) probe).
Proof.
  intros Hne Hprobe Hinv. unfold ext_step. destruct ps as [|p0 pr]; [contradiction|].
  pose proof (argmax_spec (vdist ROps probe p0) (map (fun p => vdist ROps probe p) pr)) as H. cbv zeta in H.
  change (vdist ROps probe p0 :: map (fun p => vdist ROps probe p) pr) with (distances ROps (p0 :: pr) probe) in H.
  destruct (argmax ROps (distances ROps (p0 :: pr) probe)) as [j d]. cbn [fst snd] in H. destruct H as [Hall Hj].
  destruct st as [[fd fi] fj]. unfold ext_inv in Hinv. destruct Hinv as [Hb Hat].
  assert (Hd : forall b, In b (p0 :: pr) -> vdist ROps probe b <= d).
  { intros b Hb'. apply (proj1 (Forall_forall _ _) Hall). unfold distances. apply in_map_iff. exists b; auto. }
  unfold distances in Hj. rewrite nth_error_map in Hj.
  destruct (nth_error (p0 :: pr) j) as [pj|] eqn:Ej; [|discriminate]. cbn [option_map] in Hj. injection Hj as Hj.
  change (vdist ROps probe pj = d) in Hj.
  cbn [nltb ROps]. destruct (Rltb_spec fd d) as [Hlt|Hge]; unfold ext_inv.
  - split.
    + intros a b Ha Hb'. apply in_app_or in Ha. destruct Ha as [Ha|[<-|[]]]; [specialize (Hb a b Ha Hb'); lra|apply Hd, Hb'].
    + right. exists (length done), j, probe, pj. auto.
  - split.
    + intros a b Ha Hb'. apply in_app_or in Ha. destruct Ha as [Ha|[<-|[]]]; [apply Hb; assumption|].
      specialize (Hd b Hb'). lra.
    + destruct Hat as [[_ E]|Hat]; [|right; exact Hat]. exfalso. pose proof (vdist_nonneg probe pj). lra.
Qed.

Lemma ext_loop_inv ps : ps <> [] -> forall probes done st, ps = done ++ probes -> ext_inv ps done st ->
  ext_inv ps ps (ext_loop ROps ps st (length done) probes).
Proof.
  intros Hne. induction probes as [|p r IH]; intros done st E Hinv; cbn [ext_loop].
  - rewrite app_nil_r in E. subst done. exact Hinv.
  - assert (Hp : nth_error ps (length done) = Some p).
    { rewrite E, nth_error_app2 by lia. rewrite Nat.sub_diag. reflexivity. }
    pose proof (ext_step_inv ps done p st Hne Hp Hinv) as Hs.
    specialize (IH (done ++ [p]) (ext_step ROps ps st (length done) p)).
    rewrite app_length in IH. cbn [length] in IH. replace (length done + 1)%nat with (S (length done)) in IH by lia.
    apply IH; [rewrite <- app_assoc; exact E|exact Hs].
Qed.

Lemma extent_is_max_pair ps : (2 <= length ps)%nat ->
  exists d i j pi pj, extent ROps ps = Ok (d, Z.of_nat i, Z.of_nat j) /\
    nth_error ps i = Some pi /\ nth_error ps j = Some pj /\ d = vdist ROps pi pj /\
    forall a b, In a ps -> In b ps -> vdist ROps a b <= d.
Proof.
  intros Hlen. destruct ps as [|p0 [|p1 pr]]; cbn [length] in Hlen; try lia.
  set (ps := p0 :: p1 :: pr) in *. unfold extent. fold ps.
  assert (Hne : ps <> []) by discriminate.
  pose proof (ext_loop_inv ps Hne ps [] (-1, (-1)%Z, (-1)%Z) eq_refl) as H. cbn [length] in H.
  assert (H0 : ext_inv ps [] (-1, (-1)%Z, (-1)%Z)).
  { unfold ext_inv. split; [intros a b []|left; auto]. }
  specialize (H H0). rops. destruct (ext_loop ROps ps (-1, (-1)%Z, (-1)%Z) 0 ps) as [[d fi] fj].
  unfold ext_inv in H. destruct H as [Hb [[E _]|(i & j & pi & pj & -> & -> & Hi & Hj & Hd)]]; [discriminate|].
  exists d, i, j, pi, pj. repeat split; assumption.
Qed.
Lemma extent_too_few ps : (length ps < 2)%nat -> extent ROps ps = Raise ValueError.
Proof. destruct ps as [|p0 [|p1 pr]]; cbn [length]; intros; try reflexivity; lia. Qed.

(* ---- the sort inside percentile ---------------------------------------------------------------------------- *)
Lemma insert_sorted_perm x l : Permutation (insert_sorted ROps x l) (x :: l).
Proof.
  induction l as [|y r IH]; cbn [insert_sorted]; [reflexivity|]. rops.
  destruct (Rleb x y); [reflexivity|]. rewrite IH. apply perm_swap.
Qed.
Lemma isort_perm l : Permutation (isort ROps l) l.
Proof. induction l as [|x r IH]; cbn [isort]; [reflexivity|]. rewrite insert_sorted_perm, IH. reflexivity. Qed.
Lemma insert_sorted_sorted x l : StronglySorted Rle l -> StronglySorted Rle (insert_sorted ROps x l).
Proof.
  induction 1 as [|y r Hs IH Hall]; cbn [insert_sorted]; [repeat constructor|]. rops.
  destruct (Rleb_spec x y) as [Hle|Hgt].
  - constructor; [constructor; assumption|]. constructor; [exact Hle|].
    apply Forall_forall. intros z Hz. pose proof (proj1 (Forall_forall _ _) Hall z Hz). lra.
  - constructor; [exact IH|]. apply Forall_forall. intros z Hz.
    apply (Permutation_in _ (insert_sorted_perm x r)) in Hz. destruct Hz as [<-|Hz]; [lra|].
    exact (proj1 (Forall_forall _ _) Hall z Hz).
Qed.
Lemma isort_sorted l : StronglySorted Rle (isort ROps l).
Proof. induction l as [|x r IH]; cbn [isort]; [constructor|apply insert_sorted_sorted, IH]. Qed.
Lemma isort_length l : length (isort ROps l) = length l.
Proof. apply Permutation_length, isort_perm. Qed.

(* ---- percentile -------------------------------------------------------------------------------------------- *)
Lemma almost_zero_false_nonzero a : almost_zero ROps a = false -> a <> V3 0 0 0.
Proof.
  intros H ->. unfold almost_zero, atol8, nfrac in H; rops; cbn [vx vy vz] in H. rewrite Rabs_R0 in H.
  destruct (Rleb_spec 0 (3022314549036573 / 302231454903657293676544)); [discriminate|lra].
Qed.
Lemma unit_normalize_id u : vnorm2 ROps u = 1 -> vnormalize ROps u = u.
Proof.
  intros H. unfold vnormalize, vnorm. rops. rewrite H, sqrt_1. destruct u. vunf. apply V3_ext; field.
Qed.

(* the returned point lies on the line through the centroid along the unit axis u, and its coordinate along u is
   the percentile of the points' coordinates along u *)
Lemma percentile_q_in_range q : 0 <= q <= 100 -> Rltb q 0 || Rltb 100 q = false.
Proof. intros H. destruct (Rltb_spec q 0); [lra|]. destruct (Rltb_spec 100 q); [lra|]. reflexivity. Qed.

Lemma percentile_point_spec ps axis q : ps <> [] -> almost_zero ROps axis = false -> 0 <= q <= 100 ->
  let u := vnormalize ROps axis in let c := centroid ROps ps in
  let sel := percentile_value ROps (map (fun p => vdot ROps p u) ps) q in
  exists r, percentile ROps ps axis q = Ok r /\ vnorm2 ROps u = 1 /\
            r = vadd ROps c (vscale ROps (sel - vdot ROps c u) u) /\ vdot ROps r u = sel.
Proof.
  intros Hne Hz Hq. cbv zeta. pose proof (vnormalize_unit axis (almost_zero_false_nonzero axis Hz)) as Hu.
  unfold percentile. destruct ps as [|p0 pr]; [contradiction|]. rewrite Hz. unfold n0; rops.
  rewrite (percentile_q_in_range q Hq).
  eexists. split; [reflexivity|]. split; [exact Hu|]. unfold vreject. rewrite (unit_normalize_id _ Hu).
  generalize (percentile_value ROps (map (fun p => vdot ROps p (vnormalize ROps axis)) (p0 :: pr)) q). intros sel.
  generalize dependent (vnormalize ROps axis). intros u Hu. generalize (centroid ROps (p0 :: pr)). intros c.
  destruct u as [ux uy uz], c as [cx cy cz]. vunf_in Hu. vunf. split; [apply V3_ext; ring|nsatz].
Qed.
Lemma percentile_errors ps axis q :
  (ps = [] -> percentile ROps ps axis q = Raise ValueError) /\
  (almost_zero ROps axis = true -> percentile ROps ps axis q = Raise ValueError) /\
  (q < 0 \/ 100 < q -> percentile ROps ps axis q = Raise ValueError).
Proof.
  split; [intros ->; reflexivity|]. split.
  - intros H. unfold percentile. destruct ps; [reflexivity|]. rewrite H. reflexivity.
  - intros H. unfold percentile. destruct ps; [reflexivity|]. destruct (almost_zero ROps axis); [reflexivity|].
    unfold n0; rops. destruct (Rltb_spec q 0); [reflexivity|]. destruct (Rltb_spec 100 q); [reflexivity|]. lra.
Qed.

Lemma Int_part_IZR z : Int_part (IZR z) = z.
Proof.
  unfold Int_part. assert (E : (z + 1)%Z = up (IZR z)).
  { apply tech_up; rewrite plus_IZR; simpl; lra. }
  rewrite <- E. lia.
Qed.

(* when the virtual index (n-1) q/100 is an integer k the result is the k-th smallest coordinate; in particular
   percentile 0 is the minimum and percentile 100 the maximum *)
Lemma percentile_value_at_index l q k : (k < length l)%nat ->
  IZR (Z.of_nat (length l) - 1) * (q / 100) = IZR (Z.of_nat k) ->
  percentile_value ROps l q = List.nth k (isort ROps l) 0.
Proof.
  intros Hk Hv. unfold percentile_value, n0; rops. rewrite isort_length, Hv. unfold Rfloor. rewrite Int_part_IZR, Nat2Z.id.
  ring.
Qed.
Lemma percentile_value_0 l : l <> [] -> percentile_value ROps l 0 = List.nth 0 (isort ROps l) 0.
Proof. intros H. apply percentile_value_at_index; [destruct l; [contradiction|cbn; lia]|]. cbn [Z.of_nat]. unfold Rdiv. ring. Qed.
Lemma percentile_value_100 l : l <> [] -> percentile_value ROps l 100 = List.nth (length l - 1) (isort ROps l) 0.
Proof.
  intros H. apply percentile_value_at_index; [destruct l; [contradiction|cbn; lia]|].
  destruct l; [contradiction|]. cbn [length]. rewrite Nat.sub_succ, Nat.sub_0_r. rewrite Nat2Z.inj_succ.
  replace (Z.succ (Z.of_nat (length l)) - 1)%Z with (Z.of_nat (length l)) by lia. field.
Qed.
(* a sorted permutation: position 0 holds a minimum, the last position a maximum *)
Lemma sorted_nth_le s : StronglySorted Rle s -> forall i j, (i <= j < length s)%nat -> List.nth i s 0 <= List.nth j s 0.
Proof.
  induction 1 as [|x r Hs IH Hall]; intros i j Hij; cbn [length] in Hij; [lia|].
  destruct i, j; cbn [List.nth]; try lia; try lra.
  - apply (proj1 (Forall_forall _ _) Hall). apply nth_In. lia.
  - apply IH. lia.
Qed.
Lemma isort_extremes l x : In x l ->
  List.nth 0 (isort ROps l) 0 <= x <= List.nth (length l - 1) (isort ROps l) 0.
Proof.
  intros Hx. apply (Permutation_in _ (Permutation_sym (isort_perm l))) in Hx.
  apply (In_nth _ _ 0) in Hx. destruct Hx as (k & Hk & <-). rewrite isort_length in Hk.
  split; apply sorted_nth_le; try apply isort_sorted; rewrite isort_length; lia.
Qed.

(* ---- the percentile value for every q in [0,100] ----------------------------------------------------------- *)
Lemma Int_part_bounds x n : 0 <= x <= IZR n -> (0 <= Int_part x <= n)%Z /\ 0 <= x - IZR (Int_part x) < 1.
Proof.
  intros [H0 H1]. destruct (base_Int_part x) as [A B]. split; [|lra]. split.
  - assert (H : (-1 < Int_part x)%Z) by (apply lt_IZR; simpl; lra). lia.
  - apply le_IZR. lra.
Qed.

(* NumPy's linear-interpolation percentile: with virtual index v = (n-1) q/100, lo = floor v and g = v - lo in [0,1),
   the value is s[lo] + g (s[lo+1] - s[lo]) on the sorted data s (s[lo] itself at the last position), and it lies
   between these two neighbours *)
Lemma percentile_value_spec l q : l <> [] -> 0 <= q <= 100 ->
  let s := isort ROps l in let n := length l in
  let v := IZR (Z.of_nat n - 1) * (q / 100) in
  exists lo g, (lo <= n - 1)%nat /\ 0 <= g < 1 /\ v = INR lo + g /\
    let hi := Nat.min (S lo) (n - 1) in
    percentile_value ROps l q = List.nth lo s 0 + g * (List.nth hi s 0 - List.nth lo s 0) /\
    List.nth lo s 0 <= percentile_value ROps l q <= List.nth hi s 0.
Proof.
  intros Hne Hq. cbv zeta.
  assert (Hn : (1 <= length l)%nat) by (destruct l; [contradiction|cbn; lia]).
  set (n := length l) in *. set (v := IZR (Z.of_nat n - 1) * (q / 100)).
  assert (Hv : 0 <= v <= IZR (Z.of_nat n - 1)).
  { assert (0 <= IZR (Z.of_nat n - 1)) by (apply IZR_le; lia). unfold v. split; [apply Rmult_le_pos; lra|].
    rewrite <- (Rmult_1_r (IZR (Z.of_nat n - 1))) at 2. apply Rmult_le_compat_l; lra. }
  destruct (Int_part_bounds v _ Hv) as [Hz Hg].
  set (lo := Z.to_nat (Int_part v)).
  assert (Elo : IZR (Int_part v) = INR lo).
  { unfold lo. rewrite INR_IZR_INZ, Z2Nat.id by lia. reflexivity. }
  exists lo, (v - IZR (Int_part v)). split; [unfold lo; lia|]. split; [exact Hg|]. split; [rewrite <- Elo; ring|].
  assert (Ev : percentile_value ROps l q =
               List.nth lo (isort ROps l) 0 + (v - IZR (Int_part v)) * (List.nth (Nat.min (S lo) (n - 1)) (isort ROps l) 0 - List.nth lo (isort ROps l) 0)).
  { unfold percentile_value, n0; rops. rewrite isort_length. fold n. fold v. unfold Rfloor. fold lo.
    rewrite <- INR_IZR_INZ, <- Elo. ring. }
  split; [exact Ev|]. rewrite Ev.
  assert (Hs : List.nth lo (isort ROps l) 0 <= List.nth (Nat.min (S lo) (n - 1)) (isort ROps l) 0).
  { apply sorted_nth_le; [apply isort_sorted|]. rewrite isort_length. fold n. unfold lo. lia. }
  set (a := List.nth lo (isort ROps l) 0) in *. set (b := List.nth (Nat.min (S lo) (n - 1)) (isort ROps l) 0) in *.
  set (g := v - IZR (Int_part v)) in *. nra.
Qed.

(* ---- glue lemmas for props/C17.v ------------------------------------------------------------------------------ *)
Lemma isort_sorted_permutation l : Permutation (isort ROps l) l /\ StronglySorted Rle (isort ROps l).
Proof. exact (conj (isort_perm l) (isort_sorted l)). Qed.
Lemma percentile_value_at_rank l :
  (forall q k, (k < length l)%nat -> IZR (Z.of_nat (length l) - 1) * (q / 100) = IZR (Z.of_nat k) ->
     percentile_value ROps l q = List.nth k (isort ROps l) 0) /\
  (l <> [] -> percentile_value ROps l 0 = List.nth 0 (isort ROps l) 0 /\
              percentile_value ROps l 100 = List.nth (length l - 1) (isort ROps l) 0) /\
  (forall x, In x l -> List.nth 0 (isort ROps l) 0 <= x <= List.nth (length l - 1) (isort ROps l) 0).
Proof.
  split; [intros q k; apply percentile_value_at_index|]. split; [|apply isort_extremes].
  intros H. exact (conj (percentile_value_0 l H) (percentile_value_100 l H)).
Qed.

Lemma Rfloor_unique z x : IZR z <= x < IZR z + 1 -> Rfloor x = z.
Proof.
  intros [A B]. unfold Rfloor, Int_part. assert (E : (z + 1)%Z = up x).
  { apply tech_up; rewrite plus_IZR; simpl; lra. }
  rewrite <- E. lia.
Qed.

(* the absolute threshold of vg.almost_zero rejects genuine (non-zero) axes: witness axis (1e-9, 0, 0) *)
Lemma percentile_tiny_axis_rejected :
  exists ps axis q, ps <> [] /\ axis <> V3 0 0 0 /\ 0 <= q <= 100 /\ percentile ROps ps axis q = Raise ValueError.
Proof.
  exists [V3 0 0 0; V3 1 2 3], (V3 (1 / 1000000000) 0 0), 50. split; [discriminate|]. split.
  - intros H. injection H as H. lra.
  - split; [lra|]. apply (proj1 (proj2 (percentile_errors _ _ _))). unfold almost_zero, atol8, nfrac; rops; cbn [vx vy vz]. rewrite Rabs_R0.
    rewrite Rabs_pos_eq by lra.
    destruct (Rleb_spec (1 / 1000000000) (3022314549036573 / 302231454903657293676544)) as [_|H]; [|exfalso; lra].
    destruct (Rleb_spec 0 (3022314549036573 / 302231454903657293676544)) as [_|H]; [reflexivity|exfalso; lra].
Qed.
Lemma almost_zero_example : almost_zero ROps (V3 1 0 0) = false.
Proof.
  unfold almost_zero, atol8, nfrac; rops; cbn [vx vy vz]. rewrite Rabs_R1.
  destruct (Rleb_spec 1 (3022314549036573 / 302231454903657293676544)) as [H|_]; [exfalso; lra|reflexivity].
Qed.

(* ---- tactic for tie lemmas that compare distances ----------------------------------------------------------------
   Name every square root in goal and hypotheses, replace the roots of 0 (distance of a point to itself) by 0, merge
   roots whose arguments are ring-equal (d_ij and d_ji, or the same squared length written in another order), record
   0 <= d for the rest and forget their bodies: what remains is linear arithmetic over a few atoms. *)
Ltac abstract_sqrts :=
  repeat match goal with
    | |- context [sqrt ?e] => let d := fresh "d" in set (d := sqrt e) in *
    | H : context [sqrt ?e] |- _ => let d := fresh "d" in set (d := sqrt e) in *
    end;
  repeat match goal with d := sqrt ?e |- _ =>
    let E := fresh "E" in
    assert (E : d = 0) by (unfold d; replace e with 0 by ring; apply sqrt_0); clearbody d; subst d end;
  repeat match goal with d1 := sqrt ?e1, d2 := sqrt ?e2 |- _ =>
    let E := fresh "E" in
    assert (E : d2 = d1) by (unfold d1, d2; f_equal; ring); clearbody d2; subst d2 end;
  repeat match goal with d := sqrt ?e |- _ =>
    let E := fresh "Hpos" in assert (E : 0 <= d) by (unfold d; apply sqrt_pos); clearbody d end.
