(* C07, sub-path clauses stated about the ORIGINAL polyline: making a point of a segment a vertex does not change
   the point set, hence not the nearest point of a query whose nearest point is unique. *)
From Coq Require Import ZArith Reals Lra Psatz List Bool Lia Arith.
From PW Require Import Num NumR Vec NpList Result.
From PW.model Require Import M_polyline_base M_segment M_polyline_nearest M_polyline_nearest_spec.
From PW.proofs Require Import P_vec P_nplist P_segment P_polyline_nearest P_polyline_nearest2 P_polyline_nearest3.
Import ListNotations.
Local Open Scope R_scope.

(* ---- a sub-segment is no closer to a query than the segment it is part of ---- *)
Lemma seg_at_0 a v : seg_at a v 0 = a.
Proof. unfold seg_at. destruct a, v. vec_eq; ring. Qed.
Lemma seg_at_1 a b : seg_at a (vsub ROps b a) 1 = b.
Proof. unfold seg_at. destruct a, b. vec_eq; ring. Qed.

Lemma subsegment_not_closer q a b p1 p2 s1 s2 :
  p1 = seg_at a (vsub ROps b a) s1 -> p2 = seg_at a (vsub ROps b a) s2 -> 0 <= s1 <= 1 -> 0 <= s2 <= 1 ->
  h_d (seg_hit_of ROps q (a, b)) <= h_d (seg_hit_of ROps q (p1, p2)).
Proof.
  intros E1 E2 H1 H2. unfold seg_hit_of, seg_vector. cbn [fst snd h_d].
  set (t' := closest_t ROps q p1 (vsub ROps p2 p1)).
  pose proof (closest_t_range q p1 (vsub ROps p2 p1)) as Ht. fold t' in Ht.
  replace (closest_point ROps q p1 (vsub ROps p2 p1)) with (seg_at a (vsub ROps b a) (s1 + t' * (s2 - s1))).
  - apply closest_point_optimal_dist. nra.
  - rewrite closest_point_is_seg_at. fold t'. subst p1 p2. unfold seg_at.
    destruct a, (vsub ROps b (V3 vx vy vz)). vec_eq; ring.
Qed.

(* ---- first-index argmin: a strict minimum is found wherever it is ---- *)
Lemma amin_by_unique {A} (key : A -> R) (l : list A) j h : nth_error l j = Some h ->
  (forall k y, k <> j -> nth_error l k = Some y -> key h < key y) ->
  amin_by ROps key l = Some (j, h).
Proof.
  intros Hj Hu. assert (Hl : l <> []) by (intros ->; destruct j; discriminate).
  destruct (amin_by_some key l Hl) as [j' [m E]].
  destruct (amin_by_spec key l j' m E) as [Hn [Hmin _]].
  destruct (Nat.eq_dec j' j) as [->|Hne]; [rewrite Hj in Hn; injection Hn as <-; exact E|].
  exfalso. specialize (Hu j' m Hne Hn). specialize (Hmin j h Hj). lra.
Qed.

(* ---- the segment list after a point has been made a vertex inside a non-closing segment ---- *)
Lemma open_segments_cons (h x : vec3 R) t : open_segments (h :: x :: t) = (h, x) :: open_segments (x :: t).
Proof. reflexivity. Qed.
Lemma open_segments_insert (x : vec3 R) : forall k vs a b,
  nth_error vs k = Some a -> nth_error vs (S k) = Some b ->
  open_segments (insert_at vs (S k) x) =
  firstn k (open_segments vs) ++ (a, x) :: (x, b) :: skipn (S k) (open_segments vs).
Proof.
  unfold insert_at. induction k as [|k IH]; intros vs a b Ha Hb.
  - destruct vs as [|v0 [|v1 r]]; try discriminate. cbn in Ha, Hb. injection Ha as <-. injection Hb as <-.
    cbn [firstn skipn app]. rewrite !open_segments_cons. reflexivity.
  - destruct vs as [|v0 [|v1 r]]; try discriminate.
    cbn [nth_error] in Ha, Hb. specialize (IH (v1 :: r) a b Ha Hb).
    change (firstn (S (S k)) (v0 :: v1 :: r)) with (v0 :: v1 :: firstn k r).
    change (skipn (S (S k)) (v0 :: v1 :: r)) with (skipn k r).
    change (firstn (S k) (v1 :: r)) with (v1 :: firstn k r) in IH.
    change (skipn (S k) (v1 :: r)) with (skipn k r) in IH.
    cbn [app] in *. rewrite open_segments_cons. rewrite IH. rewrite open_segments_cons. reflexivity.
Qed.

Lemma last_app_nonempty {A} (l1 l2 : list A) d d' : l2 <> [] -> last (l1 ++ l2) d = last l2 d'.
Proof.
  intros H. induction l1 as [|x r IH]; cbn [app].
  - destruct l2 as [|y l2]; [congruence|]. clear H. revert y. induction l2 as [|z l2 IH2]; intros y; [reflexivity|].
    change (last (y :: z :: l2) d) with (last (z :: l2) d). change (last (y :: z :: l2) d') with (last (z :: l2) d'). apply IH2.
  - destruct (r ++ l2) as [|y l] eqn:E; [apply app_eq_nil in E; destruct E; congruence|].
    change (last (x :: y :: l) d) with (last (y :: l) d). exact IH.
Qed.

Lemma pl_segments_insert (pl : polyline R) k a b x :
  nth_error (pv pl) k = Some a -> nth_error (pv pl) (S k) = Some b ->
  pl_segments (MkPolyline (insert_at (pv pl) (S k) x) (pclosed pl)) =
  firstn k (pl_segments pl) ++ (a, x) :: (x, b) :: skipn (S k) (pl_segments pl).
Proof.
  intros Ha Hb. destruct (pv pl) as [|h t] eqn:E; [destruct k; discriminate|].
  pose proof (open_segments_insert x k (h :: t) a b Ha Hb) as HO.
  assert (Hk : (S k <= length t)%nat) by (cbn [nth_error] in Hb; apply nth_error_Some; congruence).
  unfold pl_segments. cbn [pv pclosed]. rewrite E.
  unfold insert_at in *. change (firstn (S k) (h :: t)) with (h :: firstn k t) in *.
  change (skipn (S k) (h :: t)) with (skipn k t) in *. cbn [app] in *.
  change (zip (h :: firstn k t ++ x :: skipn k t) (firstn k t ++ x :: skipn k t))
    with (open_segments (h :: firstn k t ++ x :: skipn k t)).
  change (zip (h :: t) t) with (open_segments (h :: t)). rewrite HO.
  assert (Hl : length (open_segments (h :: t)) = length t) by (unfold open_segments; rewrite zip_length; cbn [length]; lia).
  destruct (pclosed pl); [|reflexivity].
  rewrite firstn_app, skipn_app, Hl. replace (k - length t)%nat with 0%nat by lia.
  replace (S k - length t)%nat with 0%nat by lia. cbn [firstn skipn]. rewrite app_nil_r.
  assert (Hs : skipn k t <> []).
  { intros Hn. apply (f_equal (@length _)) in Hn. rewrite skipn_length in Hn. cbn [length] in Hn. lia. }
  replace (last (firstn k t ++ x :: skipn k t) h) with (last t h).
  - rewrite <- !app_assoc. reflexivity.
  - rewrite <- (firstn_skipn k t) at 1. rewrite (last_app_nonempty (firstn k t) (skipn k t) h x Hs).
    change (x :: skipn k t) with ([x] ++ skipn k t). rewrite app_assoc.
    symmetry. apply last_app_nonempty. exact Hs.
Qed.

Lemma nth_error_firstn_lt {A} (l : list A) : forall k m, (m < k)%nat -> nth_error (firstn k l) m = nth_error l m.
Proof.
  induction l as [|x r IH]; intros k m H; [destruct k; reflexivity|].
  destruct k; [lia|]. destruct m; [reflexivity|]. cbn [firstn nth_error]. apply IH. lia.
Qed.
Lemma nth_error_skipn_add {A} (l : list A) : forall k m, nth_error (skipn k l) m = nth_error l (k + m).
Proof.
  induction l as [|x r IH]; intros k m; [destruct k, m; reflexivity|].
  destruct k; [reflexivity|]. cbn [skipn Nat.add nth_error]. apply IH.
Qed.
Lemma nth_error_split_insert {A} (H : list A) k u1 u2 m : (k < length H)%nat ->
  nth_error (firstn k H ++ u1 :: u2 :: skipn (S k) H) m =
  if Nat.ltb m k then nth_error H m
  else if Nat.eqb m k then Some u1
  else if Nat.eqb m (S k) then Some u2
  else nth_error H (m - 1).
Proof.
  intros Hk. assert (Hf : length (firstn k H) = k) by (rewrite firstn_length; lia).
  destruct (Nat.ltb_spec m k) as [Hlt|Hge].
  - rewrite nth_error_app1 by lia. apply nth_error_firstn_lt. exact Hlt.
  - rewrite nth_error_app2 by lia. rewrite Hf.
    destruct (Nat.eqb_spec m k) as [->|Hne]; [rewrite Nat.sub_diag; reflexivity|].
    destruct (Nat.eqb_spec m (S k)) as [->|Hne2]; [replace (S k - k)%nat with 1%nat by lia; reflexivity|].
    replace (m - k)%nat with (S (S (m - k - 2))) by lia. cbn [nth_error].
    rewrite nth_error_skipn_add. f_equal. lia.
Qed.

(* segment k (not the closing edge) joins vertex k and vertex k+1 *)
Lemma segment_of_vertices (pl : polyline R) k a b :
  nth_error (pv pl) k = Some a -> nth_error (pv pl) (S k) = Some b -> nth_error (pl_segments pl) k = Some (a, b).
Proof.
  intros Ha Hb. unfold pl_segments. destruct (pv pl) as [|h t]; [destruct k; discriminate|].
  assert (Hz : nth_error (zip (h :: t) t) k = Some (a, b)).
  { rewrite nth_error_zip, Ha. cbn [nth_error] in Hb. rewrite Hb. reflexivity. }
  destruct (pclosed pl); [|exact Hz]. rewrite nth_error_app1; [exact Hz|]. apply nth_error_Some. congruence.
Qed.

Section Transfer.
  Context (pl : polyline R) (k : nat) (a b x : vec3 R) (tx : R).
  Context (Ha : nth_error (pv pl) k = Some a) (Hb : nth_error (pv pl) (S k) = Some b).
  Context (Hx : x = seg_at a (vsub ROps b a) tx) (Htx : 0 <= tx <= 1).
  Let w1 := MkPolyline (insert_at (pv pl) (S k) x) (pclosed pl).

  Lemma hits_after_insert q :
    hits ROps w1 q = firstn k (hits ROps pl q) ++ seg_hit_of ROps q (a, x) :: seg_hit_of ROps q (x, b)
                       :: skipn (S k) (hits ROps pl q).
  Proof.
    unfold hits, w1. rewrite (pl_segments_insert pl k a b x Ha Hb).
    rewrite map_app, firstn_map. cbn [map]. rewrite skipn_map. reflexivity.
  Qed.

  (* a query whose nearest point is unique and lies on another segment keeps it, on the renumbered segment *)
  Lemma nearest_transfer q r : nearest_one ROps pl q = Ok r -> n_idx r <> k ->
    (forall j s, j <> n_idx r -> nth_error (pl_segments pl) j = Some s -> n_d r < h_d (seg_hit_of ROps q s)) ->
    nearest_one ROps w1 q = Ok (Near (n_pt r) (if Nat.ltb (n_idx r) k then n_idx r else S (n_idx r)) (n_d r) (n_t r)).
  Proof.
    intros Hr Hne Hu. destruct (nearest_one_inv _ _ _ Hr) as [h [Ham [Hp [Hd Ht]]]].
    destruct (amin_by_spec h_d _ _ _ Ham) as [Hn _].
    pose proof (segment_of_vertices pl k a b Ha Hb) as Hsk.
    assert (Hk : (k < length (hits ROps pl q))%nat).
    { unfold hits. rewrite map_length. apply nth_error_Some. congruence. }
    set (j' := if Nat.ltb (n_idx r) k then n_idx r else S (n_idx r)).
    assert (Hfull : forall y, (y = seg_hit_of ROps q (a, x) \/ y = seg_hit_of ROps q (x, b)) -> n_d r < h_d y).
    { intros y Hy. eapply Rlt_le_trans; [apply (Hu k (a, b)); [congruence|exact Hsk]|].
      destruct Hy as [->| ->].
      - apply (subsegment_not_closer q a b a x 0 tx); [symmetry; apply seg_at_0|exact Hx|lra|exact Htx].
      - apply (subsegment_not_closer q a b x b tx 1); [exact Hx|symmetry; apply seg_at_1|exact Htx|lra]. }
    assert (Hat : nth_error (hits ROps w1 q) j' = Some h).
    { rewrite hits_after_insert, (nth_error_split_insert _ k _ _ j' Hk). unfold j'.
      destruct (Nat.ltb_spec (n_idx r) k) as [Hlt|Hge].
      - destruct (Nat.ltb_spec (n_idx r) k); [exact Hn|lia].
      - destruct (Nat.ltb_spec (S (n_idx r)) k); [lia|].
        destruct (Nat.eqb_spec (S (n_idx r)) k); [lia|]. destruct (Nat.eqb_spec (S (n_idx r)) (S k)); [lia|].
        replace (S (n_idx r) - 1)%nat with (n_idx r) by lia. exact Hn. }
    assert (Hothers : forall m y, m <> j' -> nth_error (hits ROps w1 q) m = Some y -> h_d h < h_d y).
    { intros m y Hm Hy. rewrite <- Hd. rewrite hits_after_insert, (nth_error_split_insert _ k _ _ m Hk) in Hy.
      assert (Hold : forall i, i <> n_idx r -> nth_error (hits ROps pl q) i = Some y -> n_d r < h_d y).
      { intros i Hi Hiy. rewrite hits_nth in Hiy. destruct (nth_error (pl_segments pl) i) as [s|] eqn:Es; [|discriminate].
        injection Hiy as <-. apply (Hu i s Hi Es). }
      unfold j' in Hm. destruct (Nat.ltb_spec m k) as [Hlt|Hge].
      - apply (Hold m); [|exact Hy]. destruct (Nat.ltb_spec (n_idx r) k); lia.
      - destruct (Nat.eqb_spec m k) as [->|Hne1]; [injection Hy as <-; apply Hfull; left; reflexivity|].
        destruct (Nat.eqb_spec m (S k)) as [->|Hne2]; [injection Hy as <-; apply Hfull; right; reflexivity|].
        apply (Hold (m - 1)%nat); [|exact Hy]. destruct (Nat.ltb_spec (n_idx r) k); lia. }
    unfold nearest_one. rewrite (amin_by_unique h_d _ j' h Hat Hothers). rewrite Hp, Hd, Ht. reflexivity.
  Qed.
End Transfer.

(* ---- index_of_vertex ---- *)
Lemma nonzero_from_nil m : forall i, nonzero_from i m = [] <-> Forall (fun b => b = false) m.
Proof.
  induction m as [|b r IH]; intros i; cbn [nonzero_from]; [split; [constructor|reflexivity]|].
  destruct b; [split; [discriminate|intros H; inversion H as [|? ? Hf]; discriminate Hf]|].
  rewrite IH. split; [intros H; constructor; [reflexivity|exact H]|intros H; inversion H; assumption].
Qed.
Lemma index_of_vertex_none vs p :
  index_of_vertex ROps vs p = None <-> Forall (fun v => near_vertex ROps p v = false) vs.
Proof.
  unfold index_of_vertex, flatnonzero. rewrite Forall_forall.
  destruct (nonzero_from 0 (map (near_vertex ROps p) vs)) as [|i r] eqn:E.
  - apply nonzero_from_nil in E. rewrite Forall_forall in E. split; [|reflexivity].
    intros _ v Hv. apply E. apply in_map. exact Hv.
  - split; [discriminate|]. intros H. exfalso.
    assert (Hn : nonzero_from 0 (map (near_vertex ROps p) vs) = []).
    { apply nonzero_from_nil. apply Forall_forall. intros b Hb. apply in_map_iff in Hb. destruct Hb as [v [<- Hv]]. apply H. exact Hv. }
    rewrite Hn in E. discriminate.
Qed.
Lemma index_of_vertex_insert vs i x p : index_of_vertex ROps vs p = None -> near_vertex ROps p x = false ->
  index_of_vertex ROps (insert_at vs i x) p = None.
Proof.
  rewrite !index_of_vertex_none. intros H Hx. unfold insert_at. rewrite <- (firstn_skipn i vs) in H.
  apply Forall_app in H. destruct H as [H1 H2]. apply Forall_app. split; [exact H1|]. constructor; assumption.
Qed.

(* a non-closing segment and its end vertices *)
Lemma segment_vertices (pl : polyline R) k A B : (S k < length (pv pl))%nat ->
  nth_error (pl_segments pl) k = Some (A, B) -> nth_error (pv pl) k = Some A /\ nth_error (pv pl) (S k) = Some B.
Proof.
  intros Hk Hs. unfold pl_segments in Hs. destruct (pv pl) as [|h t]; [cbn [length] in Hk; lia|]. cbn [length] in Hk.
  assert (Hz : nth_error (zip (h :: t) t) k = Some (A, B)).
  { destruct (pclosed pl); [|exact Hs]. rewrite nth_error_app1 in Hs; [exact Hs|]. rewrite zip_length. cbn [length]. lia. }
  rewrite nth_error_zip in Hz. destruct (nth_error (h :: t) k) as [a0|]; [|discriminate].
  cbn [nth_error]. destruct (nth_error t k) as [b0|]; [|discriminate]. injection Hz as <- <-. split; reflexivity.
Qed.
Lemma open_segment_bound (pl : polyline R) k s : pclosed pl = false -> nth_error (pl_segments pl) k = Some s ->
  (S k < length (pv pl))%nat.
Proof. intros Hc Hs. eapply open_segments_count; eauto. Qed.

(* ---- sliced_at_points, hypotheses about the ORIGINAL polyline only ---- *)
Section SlicedOriginal.
  Context (pl : polyline R) (a b : vec3 R) (ra rb : near R).
  Context (Ha : nearest_one ROps pl a = Ok ra) (Hb : nearest_one ROps pl b = Ok rb).
  (* neither nearest point is (within the code's 1e-8 of) a vertex, and they are not (within 1e-8 of) each other *)
  Context (Hva : index_of_vertex ROps (pv pl) (n_pt ra) = None) (Hvb : index_of_vertex ROps (pv pl) (n_pt rb) = None).
  Context (Hfar : near_vertex ROps (n_pt rb) (n_pt ra) = false).
  (* the polyline does not touch itself near b: every other segment is strictly farther from b *)
  Context (Hub : forall j s, j <> n_idx rb -> nth_error (pl_segments pl) j = Some s -> n_d rb < h_d (seg_hit_of ROps b s)).
  (* the two nearest points lie on different segments, a's not on the closing edge *)
  Context (Hdiff : n_idx rb <> n_idx ra) (Hka : (S (n_idx ra) < length (pv pl))%nat).

  Let w1 := MkPolyline (insert_at (pv pl) (S (n_idx ra)) (n_pt ra)) (pclosed pl).
  Let rb' := Near (n_pt rb) (if Nat.ltb (n_idx rb) (n_idx ra) then n_idx rb else S (n_idx rb)) (n_d rb) (n_t rb).

  Lemma working_nearest : nearest_one ROps w1 b = Ok rb' /\ index_of_vertex ROps (pv w1) (n_pt rb') = None.
  Proof.
    destruct (nearest_outputs_consistent _ _ _ Ha) as [A [B [Hs [Hp [Ht _]]]]].
    destruct (segment_vertices pl (n_idx ra) A B Hka Hs) as [HA HB]. split.
    - apply (nearest_transfer pl (n_idx ra) A B (n_pt ra) (n_t ra) HA HB Hp Ht b rb Hb Hdiff Hub).
    - cbn [pv w1 rb' n_pt]. apply index_of_vertex_insert; assumption.
  Qed.
End SlicedOriginal.

Section SlicedOriginalTheorems.
  Context (pl : polyline R) (a b : vec3 R) (ra rb : near R).
  Context (Ha : nearest_one ROps pl a = Ok ra) (Hb : nearest_one ROps pl b = Ok rb).
  Context (Hva : index_of_vertex ROps (pv pl) (n_pt ra) = None) (Hvb : index_of_vertex ROps (pv pl) (n_pt rb) = None).
  Context (Hfar : near_vertex ROps (n_pt rb) (n_pt ra) = false).
  Context (Hub : forall j s, j <> n_idx rb -> nth_error (pl_segments pl) j = Some s -> n_d rb < h_d (seg_hit_of ROps b s)).

  (* open: b's nearest point on a later segment *)
  Lemma sliced_open_original_forward : pclosed pl = false -> (n_idx ra < n_idx rb)%nat ->
    sliced_at_points ROps pl a b =
    Ok (MkPolyline (n_pt ra :: firstn (n_idx rb - n_idx ra) (skipn (S (n_idx ra)) (pv pl)) ++ [n_pt rb]) false).
  Proof.
    intros Hopen Hlt. destruct (nearest_outputs_consistent _ _ _ Ha) as [A [B [Hs _]]].
    pose proof (open_segment_bound pl _ _ Hopen Hs) as Hka.
    destruct (working_nearest pl a b ra rb Ha Hb Hvb Hfar Hub ltac:(lia) Hka) as [H1 H2].
    rewrite Hopen in H1. cbn [pv] in H2.
    pose proof (sliced_at_points_open_forward pl a b ra _ Hopen Ha Hva H1 H2) as HS.
    cbn [n_idx n_pt] in HS. destruct (Nat.ltb_spec (n_idx rb) (n_idx ra)); [lia|].
    rewrite HS by lia. replace (S (n_idx rb) - S (n_idx ra))%nat with (n_idx rb - n_idx ra)%nat by lia. reflexivity.
  Qed.
  (* open: b's nearest point on an earlier segment: refused *)
  Lemma sliced_open_original_backward : pclosed pl = false -> (n_idx rb < n_idx ra)%nat ->
    sliced_at_points ROps pl a b = Raise ValueError.
  Proof.
    intros Hopen Hlt. destruct (nearest_outputs_consistent _ _ _ Ha) as [A [B [Hs _]]].
    pose proof (open_segment_bound pl _ _ Hopen Hs) as Hka.
    destruct (working_nearest pl a b ra rb Ha Hb Hvb Hfar Hub ltac:(lia) Hka) as [H1 H2].
    rewrite Hopen in H1. cbn [pv] in H2.
    pose proof (sliced_at_points_open_backward pl a b ra _ Hopen Ha Hva H1 H2) as HS.
    cbn [n_idx] in HS. destruct (Nat.ltb_spec (n_idx rb) (n_idx ra)); [|lia]. apply HS. lia.
  Qed.

  (* closed, a's nearest point not on the closing edge *)
  Context (Hclosed : pclosed pl = true) (Hka : (S (n_idx ra) < length (pv pl))%nat).
  Lemma edge_end_a : edge_end pl (n_idx ra) = S (n_idx ra).
  Proof. unfold edge_end. rewrite Hclosed. cbn [andb]. destruct (Nat.eqb_spec (S (n_idx ra)) (length (pv pl))); [lia|reflexivity]. Qed.

  Lemma sliced_closed_original (Hdiff : n_idx rb <> n_idx ra) :
    let ia := S (n_idx ra) in
    let kb' := if Nat.ltb (n_idx rb) (n_idx ra) then n_idx rb else S (n_idx rb) in
    let eb := if Nat.eqb (S kb') (S (length (pv pl))) then 0%nat else S kb' in
    ((ia < eb)%nat -> sliced_at_points ROps pl a b =
        Ok (MkPolyline (n_pt ra :: firstn (eb - S ia) (skipn ia (pv pl)) ++ [n_pt rb]) false)) /\
    ((eb <= ia)%nat -> sliced_at_points ROps pl a b =
        Ok (MkPolyline (n_pt ra :: skipn ia (pv pl) ++ firstn eb (pv pl) ++ [n_pt rb]) false)).
  Proof.
    intros ia kb' eb.
    destruct (working_nearest pl a b ra rb Ha Hb Hvb Hfar Hub Hdiff Hka) as [H1 H2].
    rewrite Hclosed in H1. cbn [pv] in H2. fold kb' in H1, H2.
    pose proof edge_end_a as Hee.
    pose proof (sliced_at_points_closed pl a b ra (Near (n_pt rb) kb' (n_d rb) (n_t rb)) Hclosed Ha Hva) as HS.
    rewrite Hee in HS. specialize (HS H1 H2). cbn [n_idx n_pt] in HS.
    assert (Heb : edge_end (MkPolyline (insert_at (pv pl) (S (n_idx ra)) (n_pt ra)) true) kb' = eb).
    { unfold edge_end. cbn [pclosed pv andb]. rewrite insert_at_length by lia. reflexivity. }
    rewrite Heb in HS. exact HS.
  Qed.
End SlicedOriginalTheorems.

(* ---- the closest point of a non-degenerate segment is its only closest point ---- *)
Lemma closest_point_strict p a v s : vdot ROps v v <> 0 -> 0 <= s <= 1 -> s <> closest_t ROps p a v ->
  sqdist ROps (closest_point ROps p a v) p < sqdist ROps (seg_at a v s) p.
Proof.
  intros Hnz Hs Hne. rewrite closest_point_is_seg_at, !sqdist_seg_at.
  unfold closest_t in *. rops. unfold n0, n1 in *. rops.
  set (d := vdot ROps v v) in *. set (n := vdot ROps (vsub ROps p a) v) in *.
  assert (Hd : 0 <= d) by (unfold d; apply (vnorm2_nonneg v)).
  destruct (Reqb_spec d 0) as [Hz|_]; [contradiction|].
  assert (Hdp : 0 < d) by lra.
  set (t0 := n / d) in *. assert (Ht0 : n = t0 * d) by (unfold t0; field; lra).
  clearbody t0. rewrite Ht0.
  unfold clip01, nmin, nmax, n0, n1 in *. rops.
  destruct (Rleb_spec t0 0); [destruct (Rleb_spec 0 1); [|lra] | destruct (Rleb_spec t0 1)].
  - (* clamped to 0, s > 0 *)
    assert (0 < s) by lra. assert (0 <= s * ((- t0) * d)) by (repeat apply Rmult_le_pos; lra).
    assert (0 < s * s * d) by (repeat apply Rmult_lt_0_compat; lra). nra.
  - (* interior *)
    assert (0 < (s - t0) * (s - t0)) by (destruct (Rtotal_order s t0) as [H|[H|H]]; [nra|lra|nra]).
    assert (0 < d * ((s - t0) * (s - t0))) by (apply Rmult_lt_0_compat; lra). lra.
  - (* clamped to 1, s < 1 *)
    assert (0 < 1 - s) by lra.
    assert (0 < (1 - s) * ((t0 - 1) * d)) by (repeat apply Rmult_lt_0_compat; lra).
    assert (0 <= (1 - s) * ((1 - s) * d)) by (repeat apply Rmult_le_pos; lra). nra.
Qed.
Lemma vnorm_lt_of_sq u w : vnorm2 ROps u < vnorm2 ROps w -> vnorm ROps u < vnorm ROps w.
Proof. intros H. unfold vnorm. rops. apply sqrt_lt_1; try apply vnorm2_nonneg. exact H. Qed.

Section SubSegment.
  Context (q A B P1 P2 : vec3 R) (s1 s2 : R).
  Let v := vsub ROps B A.
  Context (E1 : P1 = seg_at A v s1) (E2 : P2 = seg_at A v s2) (H1 : 0 <= s1) (H12 : s1 <= s2) (H2 : s2 <= 1).
  Context (Hnz : vdot ROps v v <> 0).
  Let tb := closest_t ROps q A v.

  Lemma sub_closest_param : exists s', s1 <= s' <= s2 /\ closest_point ROps q P1 (vsub ROps P2 P1) = seg_at A v s'.
  Proof.
    set (t' := closest_t ROps q P1 (vsub ROps P2 P1)).
    pose proof (closest_t_range q P1 (vsub ROps P2 P1)) as Ht. fold t' in Ht.
    exists (s1 + t' * (s2 - s1)). split; [nra|].
    rewrite closest_point_is_seg_at. fold t'. rewrite E1, E2. unfold seg_at. destruct A, v. vec_eq; ring.
  Qed.

  Lemma sub_excludes : (tb < s1 \/ s2 < tb) ->
    h_d (seg_hit_of ROps q (A, B)) < h_d (seg_hit_of ROps q (P1, P2)).
  Proof.
    intros Hout. destruct sub_closest_param as [s' [Hs' Ec]].
    unfold seg_hit_of, seg_vector. cbn [fst snd h_d]. fold v. rewrite Ec.
    apply vnorm_lt_of_sq. apply (closest_point_strict q A v s' Hnz); [lra|]. fold tb. lra.
  Qed.

  Lemma sub_contains : s1 < s2 -> s1 <= tb <= s2 ->
    h_pt (seg_hit_of ROps q (P1, P2)) = h_pt (seg_hit_of ROps q (A, B)) /\
    h_d (seg_hit_of ROps q (P1, P2)) = h_d (seg_hit_of ROps q (A, B)).
  Proof.
    intros Hlt Hin. destruct sub_closest_param as [s' [Hs' Ec]].
    assert (Heq : s' = tb).
    { destruct (Req_dec s' tb) as [E|Hne]; [exact E|exfalso].
      pose proof (closest_point_strict q A v s' Hnz ltac:(lra) Hne) as Hstrict.
      pose proof (closest_point_optimal q P1 (vsub ROps P2 P1) ((tb - s1) / (s2 - s1))) as Hopt.
      assert (Hu : 0 <= (tb - s1) / (s2 - s1) <= 1).
      { split; [apply Rmult_le_pos; [lra|left; apply Rinv_0_lt_compat; lra]|].
        apply (Rmult_le_reg_r (s2 - s1)); [lra|]. unfold Rdiv. rewrite Rmult_assoc, Rinv_l by lra. lra. }
      specialize (Hopt Hu). rewrite Ec in Hopt.
      replace (seg_at P1 (vsub ROps P2 P1) ((tb - s1) / (s2 - s1))) with (seg_at A v tb) in Hopt.
      - unfold tb in Hopt. rewrite <- closest_point_is_seg_at in Hopt. lra.
      - rewrite E1, E2. unfold seg_at. destruct A, v. vec_eq; field; lra. }
    unfold seg_hit_of, seg_vector. cbn [fst snd h_pt h_d]. fold v. rewrite Ec, Heq.
    unfold tb. rewrite <- closest_point_is_seg_at. split; reflexivity.
  Qed.
End SubSegment.

Section TransferSame.
  Context (pl : polyline R) (k : nat) (A B x : vec3 R) (tx : R).
  Context (HA : nth_error (pv pl) k = Some A) (HB : nth_error (pv pl) (S k) = Some B).
  Context (Hx : x = seg_at A (vsub ROps B A) tx) (Htx : 0 <= tx <= 1).
  Context (Hnz : vdot ROps (vsub ROps B A) (vsub ROps B A) <> 0).
  Let w1 := MkPolyline (insert_at (pv pl) (S k) x) (pclosed pl).

  (* a query whose unique nearest point lies on the SAME segment, at another parameter, keeps it: it is found on
     the half of the segment that contains it *)
  Lemma nearest_transfer_same q r : nearest_one ROps pl q = Ok r -> n_idx r = k -> n_t r <> tx ->
    (forall j s, j <> n_idx r -> nth_error (pl_segments pl) j = Some s -> n_d r < h_d (seg_hit_of ROps q s)) ->
    exists t', nearest_one ROps w1 q = Ok (Near (n_pt r) (if Rltb tx (n_t r) then S k else k) (n_d r) t').
  Proof.
    intros Hr Hk Hne Hu. destruct (nearest_one_inv _ _ _ Hr) as [h [Ham [Hp [Hd Ht]]]].
    destruct (amin_by_spec h_d _ _ _ Ham) as [Hn _].
    pose proof (segment_of_vertices pl k A B HA HB) as Hsk.
    rewrite Hk in *. rewrite hits_nth, Hsk in Hn. cbn [option_map] in Hn. injection Hn as Hh.
    assert (Htb : n_t r = closest_t ROps q A (vsub ROps B A)) by (rewrite Ht, <- Hh; reflexivity).
    pose proof (closest_t_range q A (vsub ROps B A)) as Hrange. rewrite <- Htb in Hrange.
    assert (HkH : (k < length (hits ROps pl q))%nat).
    { unfold hits. rewrite map_length. apply nth_error_Some. congruence. }
    assert (Hold : forall i y, i <> k -> nth_error (hits ROps pl q) i = Some y -> n_d r < h_d y).
    { intros i y Hi Hiy. rewrite hits_nth in Hiy. destruct (nth_error (pl_segments pl) i) as [s|] eqn:Es; [|discriminate].
      injection Hiy as <-. apply (Hu i s Hi Es). }
    assert (HA0 : A = seg_at A (vsub ROps B A) 0) by (symmetry; apply seg_at_0).
    assert (HB1 : B = seg_at A (vsub ROps B A) 1) by (symmetry; apply seg_at_1).
    assert (Hfull : h_d (seg_hit_of ROps q (A, B)) = n_d r) by (rewrite Hd, <- Hh; reflexivity).
    assert (Hfullp : h_pt (seg_hit_of ROps q (A, B)) = n_pt r) by (rewrite Hp, <- Hh; reflexivity).
    destruct (Rltb_spec tx (n_t r)) as [Hlt|Hge].
    - (* the point lies on the second half *)
      destruct (sub_contains q A B x B tx 1 Hx HB1 ltac:(lra) ltac:(lra) ltac:(lra) Hnz ltac:(lra) ltac:(rewrite <- Htb; lra)) as [Ep Ed].
      pose proof (sub_excludes q A B A x 0 tx HA0 Hx ltac:(lra) ltac:(lra) ltac:(lra) Hnz ltac:(right; rewrite <- Htb; exact Hlt)) as Hex.
      exists (h_t (seg_hit_of ROps q (x, B))). unfold nearest_one.
      rewrite (amin_by_unique h_d _ (S k) (seg_hit_of ROps q (x, B))).
      + rewrite Ep, Ed, Hfull, Hfullp. reflexivity.
      + rewrite (hits_after_insert pl k A B x HA HB), (nth_error_split_insert _ k _ _ (S k) HkH).
        destruct (Nat.ltb_spec (S k) k); [lia|]. destruct (Nat.eqb_spec (S k) k); [lia|]. rewrite Nat.eqb_refl. reflexivity.
      + intros m y Hm Hy. rewrite Ed, Hfull.
        rewrite (hits_after_insert pl k A B x HA HB), (nth_error_split_insert _ k _ _ m HkH) in Hy.
        destruct (Nat.ltb_spec m k); [apply (Hold m y); [lia|exact Hy]|].
        destruct (Nat.eqb_spec m k) as [->|]; [injection Hy as <-; rewrite <- Hfull; exact Hex|].
        destruct (Nat.eqb_spec m (S k)); [lia|]. apply (Hold (m - 1)%nat y); [lia|exact Hy].
    - (* the point lies on the first half *)
      assert (Hlt : n_t r < tx) by lra.
      destruct (sub_contains q A B A x 0 tx HA0 Hx ltac:(lra) ltac:(lra) ltac:(lra) Hnz ltac:(lra) ltac:(rewrite <- Htb; lra)) as [Ep Ed].
      pose proof (sub_excludes q A B x B tx 1 Hx HB1 ltac:(lra) ltac:(lra) ltac:(lra) Hnz ltac:(left; rewrite <- Htb; exact Hlt)) as Hex.
      exists (h_t (seg_hit_of ROps q (A, x))). unfold nearest_one.
      rewrite (amin_by_unique h_d _ k (seg_hit_of ROps q (A, x))).
      + rewrite Ep, Ed, Hfull, Hfullp. reflexivity.
      + rewrite (hits_after_insert pl k A B x HA HB), (nth_error_split_insert _ k _ _ k HkH).
        destruct (Nat.ltb_spec k k); [lia|]. rewrite Nat.eqb_refl. reflexivity.
      + intros m y Hm Hy. rewrite Ed, Hfull.
        rewrite (hits_after_insert pl k A B x HA HB), (nth_error_split_insert _ k _ _ m HkH) in Hy.
        destruct (Nat.ltb_spec m k); [apply (Hold m y); [lia|exact Hy]|].
        destruct (Nat.eqb_spec m k); [lia|].
        destruct (Nat.eqb_spec m (S k)) as [->|]; [injection Hy as <-; rewrite <- Hfull; exact Hex|].
        apply (Hold (m - 1)%nat y); [lia|exact Hy].
  Qed.
End TransferSame.

(* a segment whose closest point is not (within 1e-8 of) a vertex has positive length *)
Lemma segment_nondegenerate (pl : polyline R) q r A B :
  nearest_one ROps pl q = Ok r -> index_of_vertex ROps (pv pl) (n_pt r) = None ->
  nth_error (pv pl) (n_idx r) = Some A -> nth_error (pl_segments pl) (n_idx r) = Some (A, B) ->
  vdot ROps (vsub ROps B A) (vsub ROps B A) <> 0.
Proof.
  intros Hr Hv HA Hs Hz. destruct (nearest_outputs_consistent _ _ _ Hr) as [A' [B' [Hs' [Hp _]]]].
  rewrite Hs in Hs'. injection Hs' as <- <-.
  apply vdot_self_zero in Hz. rewrite Hz in Hp.
  assert (Hna : n_pt r = A) by (rewrite Hp; destruct A; vec_eq; ring).
  apply index_of_vertex_none in Hv. rewrite Forall_forall in Hv.
  specialize (Hv A (nth_error_In _ _ HA)). rewrite Hna in Hv.
  unfold near_vertex, atol8, nfrac in Hv. rops. rewrite !Rminus_diag_eq, Rabs_R0 in Hv by reflexivity.
  destruct (Rleb_spec 0 (1 / 100000000)); [discriminate|lra].
Qed.

(* closed polyline: the result in terms of the nearest record found on the working polyline *)
Lemma closed_from_working (pl : polyline R) a b ra rbw : pclosed pl = true -> (S (n_idx ra) < length (pv pl))%nat ->
  nearest_one ROps pl a = Ok ra -> index_of_vertex ROps (pv pl) (n_pt ra) = None ->
  nearest_one ROps (MkPolyline (insert_at (pv pl) (S (n_idx ra)) (n_pt ra)) true) b = Ok rbw ->
  index_of_vertex ROps (insert_at (pv pl) (S (n_idx ra)) (n_pt ra)) (n_pt rbw) = None ->
  let ia := S (n_idx ra) in
  let eb := if Nat.eqb (S (n_idx rbw)) (S (length (pv pl))) then 0%nat else S (n_idx rbw) in
  ((ia < eb)%nat -> sliced_at_points ROps pl a b =
      Ok (MkPolyline (n_pt ra :: firstn (eb - S ia) (skipn ia (pv pl)) ++ [n_pt rbw]) false)) /\
  ((eb <= ia)%nat -> sliced_at_points ROps pl a b =
      Ok (MkPolyline (n_pt ra :: skipn ia (pv pl) ++ firstn eb (pv pl) ++ [n_pt rbw]) false)).
Proof.
  intros Hclosed Hka Ha Hva H1 H2 ia eb.
  pose proof (edge_end_a pl ra Hclosed Hka) as Hee.
  pose proof (sliced_at_points_closed pl a b ra rbw Hclosed Ha Hva) as HS.
  rewrite Hee in HS. specialize (HS H1 H2).
  assert (Heb : edge_end (MkPolyline (insert_at (pv pl) (S (n_idx ra)) (n_pt ra)) true) (n_idx rbw) = eb).
  { unfold edge_end. cbn [pclosed pv andb]. rewrite insert_at_length by lia. reflexivity. }
  rewrite Heb in HS. exact HS.
Qed.

Section SlicedSameSegment.
  Context (pl : polyline R) (a b : vec3 R) (ra rb : near R).
  Context (Ha : nearest_one ROps pl a = Ok ra) (Hb : nearest_one ROps pl b = Ok rb).
  Context (Hva : index_of_vertex ROps (pv pl) (n_pt ra) = None) (Hvb : index_of_vertex ROps (pv pl) (n_pt rb) = None).
  Context (Hfar : near_vertex ROps (n_pt rb) (n_pt ra) = false).
  Context (Hub : forall j s, j <> n_idx rb -> nth_error (pl_segments pl) j = Some s -> n_d rb < h_d (seg_hit_of ROps b s)).
  Context (Hsame : n_idx rb = n_idx ra) (Hne : n_t rb <> n_t ra) (Hka : (S (n_idx ra) < length (pv pl))%nat).

  Lemma working_nearest_same : exists t',
    let rbw := Near (n_pt rb) (if Rltb (n_t ra) (n_t rb) then S (n_idx ra) else n_idx ra) (n_d rb) t' in
    nearest_one ROps (MkPolyline (insert_at (pv pl) (S (n_idx ra)) (n_pt ra)) (pclosed pl)) b = Ok rbw /\
    index_of_vertex ROps (insert_at (pv pl) (S (n_idx ra)) (n_pt ra)) (n_pt rbw) = None.
  Proof.
    destruct (nearest_outputs_consistent _ _ _ Ha) as [A [B [Hs [Hp [Ht _]]]]].
    destruct (segment_vertices pl (n_idx ra) A B Hka Hs) as [HA HB].
    pose proof (segment_nondegenerate pl a ra A B Ha Hva HA Hs) as Hnz.
    destruct (nearest_transfer_same pl (n_idx ra) A B (n_pt ra) (n_t ra) HA HB Hp Ht Hnz b rb Hb Hsame Hne Hub) as [t' Hw].
    exists t'. cbn zeta. split; [exact Hw|]. cbn [n_pt]. apply index_of_vertex_insert; assumption.
  Qed.

  (* open, b's point farther along the same segment: the sub-path is just the two points *)
  Lemma sliced_open_same_forward : pclosed pl = false -> n_t ra < n_t rb ->
    sliced_at_points ROps pl a b = Ok (MkPolyline [n_pt ra; n_pt rb] false).
  Proof.
    intros Hopen Hlt. destruct working_nearest_same as [t' [H1 H2]]. rewrite Hopen in H1.
    destruct (Rltb_spec (n_t ra) (n_t rb)); [|lra].
    pose proof (sliced_at_points_open_forward pl a b ra _ Hopen Ha Hva H1 H2) as HS. cbn [n_idx n_pt] in HS.
    rewrite HS by lia. rewrite Nat.sub_diag. reflexivity.
  Qed.
  Lemma sliced_open_same_backward : pclosed pl = false -> n_t rb < n_t ra ->
    sliced_at_points ROps pl a b = Raise ValueError.
  Proof.
    intros Hopen Hlt. destruct working_nearest_same as [t' [H1 H2]]. rewrite Hopen in H1.
    destruct (Rltb_spec (n_t ra) (n_t rb)); [lra|].
    apply (sliced_at_points_open_backward pl a b ra _ Hopen Ha Hva H1 H2). cbn [n_idx]. lia.
  Qed.
  (* closed: forward the two points; backward the whole way round *)
  Lemma sliced_closed_same : pclosed pl = true ->
    (n_t ra < n_t rb -> sliced_at_points ROps pl a b = Ok (MkPolyline [n_pt ra; n_pt rb] false)) /\
    (n_t rb < n_t ra -> sliced_at_points ROps pl a b =
       Ok (MkPolyline (n_pt ra :: skipn (S (n_idx ra)) (pv pl) ++ firstn (S (n_idx ra)) (pv pl) ++ [n_pt rb]) false)).
  Proof.
    intros Hclosed. destruct working_nearest_same as [t' [H1 H2]]. rewrite Hclosed in H1.
    destruct (closed_from_working pl a b ra _ Hclosed Hka Ha Hva H1 H2) as [HF HW]. cbn [n_idx n_pt] in HF, HW.
    split; intros Hlt.
    - destruct (Rltb_spec (n_t ra) (n_t rb)); [|lra].
      destruct (Nat.eqb_spec (S (S (n_idx ra))) (S (length (pv pl)))); [lia|].
      rewrite HF by lia. replace (S (S (n_idx ra)) - S (S (n_idx ra)))%nat with 0%nat by lia. reflexivity.
    - destruct (Rltb_spec (n_t ra) (n_t rb)); [lra|].
      destruct (Nat.eqb_spec (S (n_idx ra)) (S (length (pv pl)))); [lia|].
      rewrite HW by lia. reflexivity.
  Qed.
End SlicedSameSegment.

(* ---- the statements used by props/C07.v ---- *)
Lemma sliced_at_points_open_spec pl a b ra rb : pclosed pl = false ->
  nearest_one ROps pl a = Ok ra -> nearest_one ROps pl b = Ok rb ->
  index_of_vertex ROps (pv pl) (n_pt ra) = None -> index_of_vertex ROps (pv pl) (n_pt rb) = None ->
  near_vertex ROps (n_pt rb) (n_pt ra) = false ->
  (forall j s, j <> n_idx rb -> nth_error (pl_segments pl) j = Some s -> n_d rb < h_d (seg_hit_of ROps b s)) ->
  (before_on ra rb -> sliced_at_points ROps pl a b =
     Ok (MkPolyline (n_pt ra :: firstn (n_idx rb - n_idx ra) (skipn (S (n_idx ra)) (pv pl)) ++ [n_pt rb]) false)) /\
  (before_on rb ra -> sliced_at_points ROps pl a b = Raise ValueError).
Proof.
  intros Hopen Ha Hb Hva Hvb Hfar Hub.
  destruct (nearest_outputs_consistent _ _ _ Ha) as [A [B [Hs _]]].
  pose proof (open_segment_bound pl _ _ Hopen Hs) as Hka. split.
  - intros [Hlt|[He Hlt]].
    + apply (sliced_open_original_forward pl a b ra rb Ha Hb Hva Hvb Hfar Hub Hopen Hlt).
    + rewrite (sliced_open_same_forward pl a b ra rb Ha Hb Hva Hvb Hfar Hub (eq_sym He) ltac:(lra) Hka Hopen Hlt).
      rewrite He, Nat.sub_diag. reflexivity.
  - intros [Hlt|[He Hlt]].
    + apply (sliced_open_original_backward pl a b ra rb Ha Hb Hva Hvb Hfar Hub Hopen Hlt).
    + apply (sliced_open_same_backward pl a b ra rb Ha Hb Hva Hvb Hfar Hub He ltac:(lra) Hka Hopen Hlt).
Qed.

Lemma sliced_at_points_closed_spec pl a b ra rb : pclosed pl = true ->
  nearest_one ROps pl a = Ok ra -> nearest_one ROps pl b = Ok rb ->
  index_of_vertex ROps (pv pl) (n_pt ra) = None -> index_of_vertex ROps (pv pl) (n_pt rb) = None ->
  near_vertex ROps (n_pt rb) (n_pt ra) = false ->
  (forall j s, j <> n_idx rb -> nth_error (pl_segments pl) j = Some s -> n_d rb < h_d (seg_hit_of ROps b s)) ->
  (S (n_idx ra) < length (pv pl))%nat ->
  (before_on ra rb -> (S (n_idx rb) < length (pv pl))%nat -> sliced_at_points ROps pl a b =
     Ok (MkPolyline (n_pt ra :: firstn (n_idx rb - n_idx ra) (skipn (S (n_idx ra)) (pv pl)) ++ [n_pt rb]) false)) /\
  (before_on ra rb -> S (n_idx rb) = length (pv pl) -> sliced_at_points ROps pl a b =
     Ok (MkPolyline (n_pt ra :: skipn (S (n_idx ra)) (pv pl) ++ [n_pt rb]) false)) /\
  (before_on rb ra -> sliced_at_points ROps pl a b =
     Ok (MkPolyline (n_pt ra :: skipn (S (n_idx ra)) (pv pl) ++ firstn (S (n_idx rb)) (pv pl) ++ [n_pt rb]) false)).
Proof.
  intros Hclosed Ha Hb Hva Hvb Hfar Hub Hka.
  assert (Hdiffcase : forall Hd : n_idx rb <> n_idx ra, _) by (intros Hd; exact (sliced_closed_original pl a b ra rb Ha Hb Hva Hvb Hfar Hub Hclosed Hka Hd)).
  cbn zeta in Hdiffcase.
  split; [|split].
  - intros [Hlt|[He Hlt]] Hkb.
    + destruct (Hdiffcase ltac:(lia)) as [HF _]. destruct (Nat.ltb_spec (n_idx rb) (n_idx ra)); [lia|].
      destruct (Nat.eqb_spec (S (S (n_idx rb))) (S (length (pv pl)))); [lia|].
      rewrite HF by lia. replace (S (S (n_idx rb)) - S (S (n_idx ra)))%nat with (n_idx rb - n_idx ra)%nat by lia. reflexivity.
    + destruct (sliced_closed_same pl a b ra rb Ha Hb Hva Hvb Hfar Hub (eq_sym He) ltac:(lra) Hka Hclosed) as [HF _].
      rewrite (HF Hlt), He, Nat.sub_diag. reflexivity.
  - intros [Hlt|[He Hlt]] Hkb; [|lia].
    destruct (Hdiffcase ltac:(lia)) as [_ HW]. destruct (Nat.ltb_spec (n_idx rb) (n_idx ra)); [lia|].
    destruct (Nat.eqb_spec (S (S (n_idx rb))) (S (length (pv pl)))); [|lia]. rewrite HW by lia. reflexivity.
  - intros [Hlt|[He Hlt]].
    + destruct (Hdiffcase ltac:(lia)) as [_ HW]. destruct (Nat.ltb_spec (n_idx rb) (n_idx ra)); [|lia].
      destruct (Nat.eqb_spec (S (n_idx rb)) (S (length (pv pl)))); [lia|]. rewrite HW by lia. reflexivity.
    + destruct (sliced_closed_same pl a b ra rb Ha Hb Hva Hvb Hfar Hub He ltac:(lra) Hka Hclosed) as [_ HW].
      rewrite (HW Hlt), He. reflexivity.
Qed.

(* ---- non-vacuity of the hypotheses about the original polyline ---- *)
Ltac one_lt_sqrt := rewrite <- sqrt_1 at 1; apply sqrt_lt_1_alt; lra.
Example sliced_open_spec_inhabited : exists pl a b ra rb,
  pclosed pl = false /\ nearest_one ROps pl a = Ok ra /\ nearest_one ROps pl b = Ok rb /\
  index_of_vertex ROps (pv pl) (n_pt ra) = None /\ index_of_vertex ROps (pv pl) (n_pt rb) = None /\
  near_vertex ROps (n_pt rb) (n_pt ra) = false /\
  (forall j s, j <> n_idx rb -> nth_error (pl_segments pl) j = Some s -> n_d rb < h_d (seg_hit_of ROps b s)) /\
  before_on ra rb.
Proof.
  exists ex_pl, (V3 1 1 0), (V3 3 1 0), (Near (V3 1 0 0) 0 1 (1 / 4)), (Near (V3 3 0 0) 0 1 (3 / 4)).
  split; [reflexivity|]. split; [unfold ex_pl; eval_near|]. split; [unfold ex_pl; eval_near|].
  split; [unfold ex_pl; eval_model; reflexivity|]. split; [unfold ex_pl; eval_model; reflexivity|].
  split; [eval_model; reflexivity|].
  split; [intros [|[|j]] s Hj Hs; cbn in *; try congruence; destruct j; discriminate|].
  right. cbn. split; [reflexivity|lra].
Qed.
Example sliced_closed_spec_inhabited : exists pl a b ra rb,
  pclosed pl = true /\ nearest_one ROps pl a = Ok ra /\ nearest_one ROps pl b = Ok rb /\
  index_of_vertex ROps (pv pl) (n_pt ra) = None /\ index_of_vertex ROps (pv pl) (n_pt rb) = None /\
  near_vertex ROps (n_pt rb) (n_pt ra) = false /\
  (forall j s, j <> n_idx rb -> nth_error (pl_segments pl) j = Some s -> n_d rb < h_d (seg_hit_of ROps b s)) /\
  (S (n_idx ra) < length (pv pl))%nat /\ before_on ra rb /\ (S (n_idx rb) < length (pv pl))%nat.
Proof.
  exists ex_tri, (V3 1 (-1) 0), (V3 3 (-1) 0), (Near (V3 1 0 0) 0 1 (1 / 4)), (Near (V3 3 0 0) 0 1 (3 / 4)).
  split; [reflexivity|]. split; [unfold ex_tri; eval_near|]. split; [unfold ex_tri; eval_near|].
  split; [unfold ex_tri; eval_model; reflexivity|]. split; [unfold ex_tri; eval_model; reflexivity|].
  split; [eval_model; reflexivity|].
  split.
  - intros j s Hj Hs. cbn [n_idx n_d] in *. unfold ex_tri, pl_segments in Hs. cbn [pv pclosed zip app last] in Hs.
    destruct j as [|[|[|j]]]; cbn [nth_error] in Hs; try congruence; try (destruct j; discriminate);
      injection Hs as <-;
      cbv [seg_hit_of h_d closest_point closest_t clip01 nmin nmax seg_vector fst snd vnorm vnorm2 vadd vsub vscale vdot
           vx vy vz n0 n1]; rops; decide_cmps; one_lt_sqrt.
  - unfold ex_tri, before_on. cbn [n_idx n_t pv length]. split; [lia|]. split; [right; split; [reflexivity|lra]|lia].
Qed.
