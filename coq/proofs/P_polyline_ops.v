(* C09: refinement of the code-shaped Polyline model (M_polyline_ops.v) to the list-of-points
   specification (M_polyline_spec.v), and the declarative facts about the specification. *)
From Coq Require Import ZArith Reals Lra Psatz List Bool Lia Arith.
From PW Require Import Num NumR Vec NpList Result.
From PW.model Require Import M_polyline_base M_polyline_spec M_polyline_ops.
From PW.proofs Require Import P_vec P_nplist P_polyline_insert.
Import ListNotations.

(* ---- edges --------------------------------------------------------------------------------------- *)
Lemma edges_refines n closed : edges_for n closed = spec_edges n closed.
Proof.
  unfold edges_for, spec_edges. destruct closed.
  - destruct n as [|m].
    + reflexivity.
    + replace (Z.of_nat (S m) =? 0)%Z with false by (symmetry; apply Z.eqb_neq; lia).
      rewrite Nat2Z.id. replace (S m - 1)%nat with m by lia.
      rewrite seq_S, map_app. cbn [map Nat.add].
      unfold set_last_snd.
      destruct (map (fun i => (i, S i)) (seq 0 m) ++ [(m, S m)]) eqn:E.
      { destruct (map (fun i : nat => (i, S i)) (seq 0 m)); discriminate. }
      rewrite <- E. rewrite removelast_last, last_last. reflexivity.
  - destruct (Z.of_nat n - 1 =? 0)%Z eqn:E.
    + apply Z.eqb_eq in E. replace (n - 1)%nat with 0%nat by lia. reflexivity.
    + replace (Z.to_nat (Z.of_nat n - 1)) with (n - 1)%nat by lia. rewrite app_nil_r. reflexivity.
Qed.

(* every edge joins consecutive vertices; the closing edge exists exactly when closed and non-empty *)
Lemma spec_edges_nth n closed k :
  nth_error (spec_edges n closed) k =
  if (S k <? n)%nat then Some (k, S k)
  else if closed && (S k =? n)%nat then Some (k, 0%nat) else None.
Proof.
  unfold spec_edges.
  destruct (S k <? n)%nat eqn:E.
  - apply Nat.ltb_lt in E. rewrite nth_error_app1 by (rewrite map_length, seq_length; lia).
    rewrite nth_error_map, nth_error_seq' by lia. reflexivity.
  - apply Nat.ltb_ge in E. rewrite nth_error_app2 by (rewrite map_length, seq_length; lia).
    rewrite map_length, seq_length. destruct closed; cbn [andb].
    + destruct n as [|m]; [destruct (k - (0 - 1))%nat; reflexivity|].
      destruct (S k =? S m)%nat eqn:E2.
      * apply Nat.eqb_eq in E2. replace (k - (S m - 1))%nat with 0%nat by lia. cbn. f_equal. f_equal. lia.
      * apply Nat.eqb_neq in E2. replace (k - (S m - 1))%nat with (S (k - S m)) by lia. cbn.
        destruct (k - S m)%nat; reflexivity.
    + destruct (k - (n - 1))%nat; reflexivity.
Qed.

(* ---- generic list facts --------------------------------------------------------------------------- *)
Lemma nth_error_skipn' {A} : forall s (l : list A) i, nth_error (skipn s l) i = nth_error l (s + i).
Proof.
  induction s as [|s IH]; intros l i; [reflexivity|]. destruct l as [|x r]; cbn [skipn Nat.add nth_error].
  - destruct i; reflexivity.
  - apply IH.
Qed.
Lemma nth_error_firstn' {A} : forall s (l : list A) i, (i < s)%nat -> nth_error (firstn s l) i = nth_error l i.
Proof.
  induction s as [|s IH]; intros l i H; [lia|]. destruct l as [|x r]; [reflexivity|].
  destruct i as [|i]; cbn [firstn nth_error]; [reflexivity|]. apply IH; lia.
Qed.

(* ---- constructor, flipped, join, lengths ------------------------------------------------------------ *)
Section Refine.
  Local Open Scope R_scope.
  Lemma new_refines v c : c_new (F:=R) v c = s_new v c.
  Proof. reflexivity. Qed.
  Lemma flipped_refines (p : polyline R) : c_flipped p = s_flipped p.
  Proof. reflexivity. Qed.
  Lemma join_refines (ps : list (polyline R)) c : c_join ps c = s_join ps c.
  Proof. destruct ps; reflexivity. Qed.

  Lemma spec_edges_length n c : length (spec_edges n c) = if c then n else (n - 1)%nat.
  Proof.
    unfold spec_edges. rewrite app_length, map_length, seq_length. destruct c; [|cbn; lia].
    destruct n; cbn; lia.
  Qed.
  Lemma len_refines (p : polyline R) : c_len p = s_len p.
  Proof. unfold c_len, s_len. rewrite edges_refines. unfold spec_edges.
    rewrite app_length, map_length, seq_length. destruct (pclosed p); [|cbn [length]; f_equal; lia].
    destruct (length (pv p)); cbn [length]; f_equal; lia.
  Qed.

  (* ---- index_of_vertex ------------------------------------------------------------------------------ *)
  Lemma find_refines_from (l : list (vec3 R)) pt : forall i,
    match nonzero_from i (map (fun x => vclose ROps (atol8 ROps) x pt) l) with j :: _ => Some j | [] => None end
    = spec_find_from ROps i l pt.
  Proof.
    induction l as [|x r IH]; intros i; cbn [map nonzero_from spec_find_from]; [reflexivity|].
    unfold vclose8. destruct (vclose ROps (atol8 ROps) x pt); [reflexivity|apply IH].
  Qed.
  Lemma index_of_refines (p : polyline R) pt : c_index_of ROps p pt = s_index_of ROps p pt.
  Proof.
    unfold c_index_of, c_index_of_at, s_index_of, flatnonzero. rewrite <- find_refines_from.
    destruct (nonzero_from 0 _); reflexivity.
  Qed.
  (* the specification returns the lowest matching index *)
  Lemma spec_find_lowest (l : list (vec3 R)) pt : forall i j,
    spec_find_from ROps i l pt = Some j ->
    (i <= j)%nat /\ (exists x, nth_error l (j - i) = Some x /\ vclose8 ROps x pt = true) /\
    (forall k y, (k < j - i)%nat -> nth_error l k = Some y -> vclose8 ROps y pt = false).
  Proof.
    induction l as [|x r IH]; intros i j H; cbn [spec_find_from] in H; [discriminate|].
    destruct (vclose8 ROps x pt) eqn:E.
    - injection H as <-. split; [lia|]. rewrite Nat.sub_diag. split; [exists x; split; [reflexivity|exact E]|].
      intros k y Hk; lia.
    - apply IH in H. destruct H as [Hle [[y [Hy Hc]] Hlow]]. split; [lia|]. split.
      + exists y. split; [|exact Hc]. replace (j - i)%nat with (S (j - S i)) by lia. exact Hy.
      + intros k z Hk Hz. destruct k as [|k]; cbn in Hz; [congruence|]. apply (Hlow k z); [lia|exact Hz].
  Qed.
  Lemma spec_find_none (l : list (vec3 R)) pt : forall i,
    spec_find_from ROps i l pt = None -> forall x, In x l -> vclose8 ROps x pt = false.
  Proof.
    induction l as [|y r IH]; intros i H x Hin; [destruct Hin|]. cbn [spec_find_from] in H.
    destruct (vclose8 ROps y pt) eqn:E; [discriminate|]. destruct Hin as [<-|Hin]; [exact E|].
    exact (IH _ H x Hin).
  Qed.

  (* ---- sectioned --------------------------------------------------------------------------------------- *)
  Lemma sections_refine (v : list (vec3 R)) : forall bps s,
    (let starts := s :: bps in
     let ends := map (fun b => (b + 1)%Z) bps ++ [Z.of_nat (length v)] in
     if existsb (fun x => (x <? 1)%Z) (map2 (fun e s => (e - s - 1)%Z) ends starts) then Raise ValueError
     else Ok (map2 (fun s e => MkPolyline (zslice s e v) false) starts ends))
    = rmap (map (fun v => MkPolyline v false)) (spec_sections v s bps).
  Proof.
    induction bps as [|b r IH]; intros s; cbn zeta.
    - cbn [map app map2 zip fst snd existsb spec_sections]. rewrite orb_false_r.
      destruct (Z.of_nat (length v) - s - 1 <? 1)%Z; reflexivity.
    - specialize (IH b). cbn zeta in IH. cbn [map app spec_sections].
      unfold map2 in *. cbn [zip map fst snd existsb].
      replace (b + 1 - s - 1)%Z with (b - s)%Z by ring.
      destruct (b - s <? 1)%Z; cbn [orb]; [reflexivity|].
      cbn [map app zip] in IH.
      destruct (existsb _ _).
      + destruct (spec_sections v b r); cbn in *; [discriminate|]. congruence.
      + destruct (spec_sections v b r); cbn in *; [|discriminate]. injection IH as IH. rewrite IH. reflexivity.
  Qed.
  Lemma sectioned_refines (p : polyline R) bps : c_sectioned p bps = s_sectioned p bps.
  Proof. unfold c_sectioned, s_sectioned. destruct (pclosed p); [reflexivity|]. apply sections_refine. Qed.
End Refine.

(* ---- rolled ----------------------------------------------------------------------------------------- *)
Lemma roll_neg_spec {A} (l : list A) k : roll l (- k) = spec_rot k l.
Proof.
  destruct l as [|x r]; [reflexivity|]. unfold roll, spec_rot. cbv zeta.
  set (n := Z.of_nat (length (x :: r))). assert (Hn : (0 < n)%Z) by (unfold n; cbn [length]; lia).
  replace ((n - (- k) mod n) mod n)%Z with (k mod n)%Z; [reflexivity|].
  rewrite Zminus_mod_idemp_r. replace (n - - k)%Z with (k + 1 * n)%Z by ring.
  rewrite Z_mod_plus_full. reflexivity.
Qed.

Lemma spec_rot_length {A} (l : list A) k : length (spec_rot k l) = length l.
Proof.
  destruct l as [|x r]; [reflexivity|]. unfold spec_rot. cbv zeta.
  rewrite app_length, skipn_length, firstn_length.
  set (n := length (x :: r)).
  assert (Z.to_nat (k mod Z.of_nat n) < n)%nat.
  { pose proof (Z.mod_pos_bound k (Z.of_nat n)). unfold n in *. cbn [length] in *. lia. }
  lia.
Qed.

(* vertex i of the rolled list is vertex (i + k) mod n of the original: any integer k *)
Lemma spec_rot_nth {A} (l : list A) k i : (i < length l)%nat ->
  nth_error (spec_rot k l) i = nth_error l (Z.to_nat ((Z.of_nat i + k) mod Z.of_nat (length l))).
Proof.
  intros Hi. destruct l as [|x r]; [cbn in Hi; lia|]. unfold spec_rot. cbv zeta.
  set (l := x :: r) in *. set (n := Z.of_nat (length l)).
  assert (Hn : (0 < n)%Z) by (unfold n; lia).
  pose proof (Z.mod_pos_bound k n Hn) as Hs. set (s := (k mod n)%Z) in *.
  assert (Hmod : ((Z.of_nat i + k) mod n = (Z.of_nat i + s) mod n)%Z) by (unfold s; rewrite Zplus_mod_idemp_r; reflexivity).
  rewrite Hmod.
  destruct (Nat.lt_ge_cases i (length l - Z.to_nat s)) as [Hlt|Hge].
  - rewrite nth_error_app1 by (rewrite skipn_length; lia).
    rewrite nth_error_skipn'. f_equal. rewrite Z.mod_small by (unfold n; lia). lia.
  - rewrite nth_error_app2 by (rewrite skipn_length; lia). rewrite skipn_length.
    rewrite nth_error_firstn' by lia. f_equal.
    replace (Z.of_nat i + s)%Z with ((Z.of_nat i + s - n) + 1 * n)%Z by ring.
    rewrite Z_mod_plus_full, Z.mod_small by (unfold n; lia). unfold n; lia.
Qed.

Lemma spec_rot_seq k n : spec_rot k (seq 0 n) = spec_rot_map k n.
Proof.
  apply nth_error_ext'. intros i. unfold spec_rot_map.
  destruct (Nat.lt_ge_cases i n) as [Hlt|Hge].
  - rewrite spec_rot_nth by (rewrite seq_length; exact Hlt). rewrite seq_length.
    assert (Hn : (0 < Z.of_nat n)%Z) by lia.
    pose proof (Z.mod_pos_bound (Z.of_nat i + k) (Z.of_nat n) Hn).
    rewrite nth_error_seq' by lia. rewrite nth_error_map, nth_error_seq' by lia. reflexivity.
  - transitivity (@None nat).
    + apply nth_error_None. rewrite spec_rot_length, seq_length. exact Hge.
    + symmetry. apply nth_error_None. rewrite map_length, seq_length. exact Hge.
Qed.

Lemma rolled_refines (p : polyline R) k : c_rolled p k = s_rolled p k.
Proof.
  unfold c_rolled, s_rolled. destruct (pclosed p); cbn [negb]; [|reflexivity].
  rewrite !roll_neg_spec, spec_rot_seq. reflexivity.
Qed.

(* ---- sliced_at_indices ------------------------------------------------------------------------------ *)
Lemma rot_prefix {A} (l : list A) s t : (s <= length l)%nat -> (t <= s)%nat ->
  firstn ((length l - s) + t) (spec_rot (Z.of_nat s) l) = skipn s l ++ firstn t l.
Proof.
  intros Hs Ht. destruct l as [|x r].
  - cbn in Hs. assert (s = 0%nat) by lia. subst s. assert (t = 0%nat) by lia. subst t. reflexivity.
  - unfold spec_rot. cbv zeta. set (l := x :: r) in *. set (n := length l) in *.
    assert (Hn : (0 < n)%nat) by (unfold n, l; cbn; lia).
    destruct (Nat.eq_dec s n) as [->|Hne].
    + rewrite Z_mod_same_full. cbn [Z.to_nat skipn firstn app]. rewrite Nat.sub_diag. cbn [Nat.add].
      rewrite skipn_all2 by (fold n; lia). cbn [app]. rewrite app_nil_r. reflexivity.
    + rewrite Z.mod_small by lia. rewrite Nat2Z.id.
      rewrite firstn_app, skipn_length. fold n.
      rewrite firstn_all2 by (rewrite skipn_length; fold n; lia).
      replace (n - s + t - (n - s))%nat with t by lia.
      f_equal. rewrite firstn_firstn. f_equal. lia.
Qed.

Lemma sliced_refines (p : polyline R) s t : (s <= length (pv p))%nat -> (t <= length (pv p))%nat ->
  c_sliced p s t = s_sliced p s t.
Proof.
  intros Hs Ht. unfold c_sliced, s_sliced, spec_sliced, spec_slice.
  destruct (t <=? s)%nat eqn:E.
  - apply Nat.leb_le in E. replace (s <? t)%nat with false by (symmetry; apply Nat.ltb_ge; exact E).
    destruct (pclosed p); [|reflexivity]. cbn [rmap]. do 2 f_equal.
    rewrite roll_neg_spec. unfold py_prefix.
    replace (0 <=? Z.of_nat (length (pv p)) - Z.of_nat s + Z.of_nat t)%Z with true by (symmetry; apply Z.leb_le; lia).
    replace (Z.to_nat (Z.of_nat (length (pv p)) - Z.of_nat s + Z.of_nat t)) with ((length (pv p) - s) + t)%nat by lia.
    apply rot_prefix; assumption.
  - apply Nat.leb_gt in E. replace (s <? t)%nat with true by (symmetry; apply Nat.ltb_lt; exact E). reflexivity.
Qed.

(* ---- apex -------------------------------------------------------------------------------------------- *)
Section Apex.
  Local Open Scope R_scope.
  Context (f : vec3 R -> R).
  (* first index of the largest value, by recursion from the right *)
  Fixpoint spec_arg (ps : list (vec3 R)) : option (nat * R) :=
    match ps with
    | [] => None
    | x :: r => match spec_arg r with
                | None => Some (0%nat, f x)
                | Some (j, m) => if Rltb (f x) m then Some (S j, m) else Some (0%nat, f x)
                end
    end.
  Ltac tri := repeat (match goal with |- (_, _) = (_, _) => apply f_equal2 end); try lia; try reflexivity.
  Lemma argmax_fold ps : forall i best bv,
    fold_left (argmax_step ROps) (map f ps) (i, best, bv) =
    match spec_arg ps with
    | None => ((i + length ps)%nat, best, bv)
    | Some (j, m) =>
        match bv with
        | None => ((i + length ps)%nat, (i + j)%nat, Some m)
        | Some b => if Rltb b m then ((i + length ps)%nat, (i + j)%nat, Some m) else ((i + length ps)%nat, best, Some b)
        end
    end.
  Proof.
    induction ps as [|x r IH]; intros i best bv; cbn [map fold_left spec_arg length].
    - rewrite Nat.add_0_r. reflexivity.
    - unfold argmax_step at 2. destruct bv as [b|].
      + rops. destruct (Rltb_spec b (f x)) as [Hb|Hb]; rewrite IH; destruct (spec_arg r) as [[j m]|].
        * destruct (Rltb_spec (f x) m) as [H1|H1].
          { destruct (Rltb_spec b m); [|lra]. tri. }
          { destruct (Rltb_spec b (f x)); [|lra]. tri. }
        * destruct (Rltb_spec b (f x)); [|lra]. tri.
        * destruct (Rltb_spec (f x) m) as [H1|H1].
          { destruct (Rltb_spec b m); tri. }
          { destruct (Rltb_spec b m); [lra|]. destruct (Rltb_spec b (f x)); [lra|]. tri. }
        * destruct (Rltb_spec b (f x)); [lra|]. tri.
      + rewrite IH. destruct (spec_arg r) as [[j m]|].
        * rops. destruct (Rltb_spec (f x) m); tri.
        * tri.
  Qed.
End Apex.

Lemma spec_arg_apex ax (ps : list (vec3 R)) :
  match spec_arg (fun x => vdot ROps x ax) ps with
  | None => spec_apex ROps ps ax = None
  | Some (j, m) => exists y, nth_error ps j = Some y /\ spec_apex ROps ps ax = Some (y, m)
  end.
Proof.
  induction ps as [|x r IH]; cbn [spec_arg spec_apex]; [reflexivity|].
  destruct (spec_arg _ r) as [[j m]|].
  - destruct IH as [y [Hy Hs]]. rewrite Hs. unfold pick_max. rops.
    destruct (Rltb (vdot ROps x ax) m).
    + exists y. split; [exact Hy|reflexivity].
    + exists x. split; reflexivity.
  - rewrite IH. exists x. split; reflexivity.
Qed.

Lemma apex_refines (p : polyline R) ax : c_apex ROps p ax = s_apex ROps p ax.
Proof.
  unfold c_apex, s_apex, argmax. rewrite argmax_fold.
  pose proof (spec_arg_apex ax (pv p)) as H.
  destruct (spec_arg _ (pv p)) as [[j m]|].
  - destruct H as [y [Hy Hs]]. rewrite Hs. cbn [Nat.add]. rewrite Hy. reflexivity.
  - rewrite H. reflexivity.
Qed.

(* the specification's apex is a vertex of the polyline with the largest coordinate along the axis,
   and the first such vertex *)
Lemma spec_apex_max ax (ps : list (vec3 R)) x m : spec_apex ROps ps ax = Some (x, m) ->
  m = vdot ROps x ax /\ In x ps /\ (forall y, In y ps -> (vdot ROps y ax <= m)%R).
Proof.
  revert x m. induction ps as [|z r IH]; intros x m H; cbn [spec_apex] in H; [discriminate|].
  destruct (spec_apex ROps r ax) as [[y cy]|] eqn:E; unfold pick_max in H; cbn [nltb ROps] in H.
  - specialize (IH y cy eq_refl). destruct IH as [Hm [Hin Hmax]].
    destruct (Rltb_spec (vdot ROps z ax) cy); injection H as <- <-.
    + split; [exact Hm|]. split; [right; exact Hin|]. intros w [<-|Hw]; [lra|apply Hmax; exact Hw].
    + split; [reflexivity|]. split; [left; reflexivity|]. intros w [<-|Hw]; [unfold vdot; rops; lra|]. specialize (Hmax w Hw). unfold vdot in *; rops; lra.
  - injection H as <- <-. split; [reflexivity|]. split; [left; reflexivity|].
    intros w [<-|Hw]; [unfold vdot; rops; lra|]. destruct r as [|z' r']; [destruct Hw|]. cbn [spec_apex] in E. unfold pick_max in E.
    destruct (spec_apex ROps r' ax) as [[? ?]|]; [destruct (nltb _ _ _)|]; discriminate.
Qed.

(* ---- bounding box ---------------------------------------------------------------------------------- *)
Section BBox.
  Local Open Scope R_scope.
  Lemma nmin_assoc a b c : nmin ROps a (nmin ROps b c) = nmin ROps (nmin ROps a b) c.
  Proof. unfold nmin; rops. destruct (Rleb_spec b c), (Rleb_spec a b); repeat (match goal with |- context [Rleb ?u ?v] => destruct (Rleb_spec u v); cbv iota end); lra. Qed.
  Lemma nmax_assoc a b c : nmax ROps a (nmax ROps b c) = nmax ROps (nmax ROps a b) c.
  Proof. unfold nmax; rops. destruct (Rleb_spec b c), (Rleb_spec a b); repeat (match goal with |- context [Rleb ?u ?v] => destruct (Rleb_spec u v); cbv iota end); lra. Qed.
  Lemma vmin_assoc a b c : vmin ROps a (vmin ROps b c) = vmin ROps (vmin ROps a b) c.
  Proof. unfold vmin; cbn [vx vy vz]. rewrite !nmin_assoc. reflexivity. Qed.
  Lemma vmax_assoc a b c : vmax ROps a (vmax ROps b c) = vmax ROps (vmax ROps a b) c.
  Proof. unfold vmax; cbn [vx vy vz]. rewrite !nmax_assoc. reflexivity. Qed.
  Lemma spec_min_push r : forall x y, spec_min ROps (vmin ROps x y) r = vmin ROps x (spec_min ROps y r).
  Proof. induction r as [|z r IH]; intros x y; cbn [spec_min]; [reflexivity|]. rewrite vmin_assoc. reflexivity. Qed.
  Lemma spec_max_push r : forall x y, spec_max ROps (vmax ROps x y) r = vmax ROps x (spec_max ROps y r).
  Proof. induction r as [|z r IH]; intros x y; cbn [spec_max]; [reflexivity|]. rewrite vmax_assoc. reflexivity. Qed.
  Lemma fold_min r : forall x, fold_left (vmin ROps) r x = spec_min ROps x r.
  Proof. induction r as [|y r IH]; intros x; cbn [fold_left spec_min]; [reflexivity|]. rewrite IH. apply spec_min_push. Qed.
  Lemma fold_max r : forall x, fold_left (vmax ROps) r x = spec_max ROps x r.
  Proof. induction r as [|y r IH]; intros x; cbn [fold_left spec_max]; [reflexivity|]. rewrite IH. apply spec_max_push. Qed.
  Lemma bbox_refines (p : polyline R) : c_bbox ROps p = s_bbox ROps p.
  Proof. unfold c_bbox, s_bbox. destruct (pv p) as [|x r]; [reflexivity|]. rewrite fold_min, fold_max. reflexivity. Qed.

  (* the box encloses every vertex: origin <= v <= origin + size, per coordinate *)
  Lemma nmin_le_l a b : nmin ROps a b <= a.
  Proof. unfold nmin; rops. destruct (Rleb_spec a b); lra. Qed.
  Lemma nmin_le_r a b : nmin ROps a b <= b.
  Proof. unfold nmin; rops. destruct (Rleb_spec a b); lra. Qed.
  Lemma nmax_ge_l a b : a <= nmax ROps a b.
  Proof. unfold nmax; rops. destruct (Rleb_spec a b); lra. Qed.
  Lemma nmax_ge_r a b : b <= nmax ROps a b.
  Proof. unfold nmax; rops. destruct (Rleb_spec a b); lra. Qed.
  Lemma spec_min_lower r : forall x y, In y (x :: r) -> vle (spec_min ROps x r) y.
  Proof.
    induction r as [|z r IH]; intros x y Hin; cbn [spec_min].
    - destruct Hin as [<-|[]]. unfold vle; lra.
    - unfold vle, vmin; cbn [vx vy vz]. destruct Hin as [<-|Hin].
      + pose proof (nmin_le_l (vx x) (vx (spec_min ROps z r))). pose proof (nmin_le_l (vy x) (vy (spec_min ROps z r))).
        pose proof (nmin_le_l (vz x) (vz (spec_min ROps z r))). lra.
      + destruct (IH z y Hin) as [H1 [H2 H3]].
        pose proof (nmin_le_r (vx x) (vx (spec_min ROps z r))). pose proof (nmin_le_r (vy x) (vy (spec_min ROps z r))).
        pose proof (nmin_le_r (vz x) (vz (spec_min ROps z r))). lra.
  Qed.
  Lemma spec_max_upper r : forall x y, In y (x :: r) -> vle y (spec_max ROps x r).
  Proof.
    induction r as [|z r IH]; intros x y Hin; cbn [spec_max].
    - destruct Hin as [<-|[]]. unfold vle; lra.
    - unfold vle, vmax; cbn [vx vy vz]. destruct Hin as [<-|Hin].
      + pose proof (nmax_ge_l (vx x) (vx (spec_max ROps z r))). pose proof (nmax_ge_l (vy x) (vy (spec_max ROps z r))).
        pose proof (nmax_ge_l (vz x) (vz (spec_max ROps z r))). lra.
      + destruct (IH z y Hin) as [H1 [H2 H3]].
        pose proof (nmax_ge_r (vx x) (vx (spec_max ROps z r))). pose proof (nmax_ge_r (vy x) (vy (spec_max ROps z r))).
        pose proof (nmax_ge_r (vz x) (vz (spec_max ROps z r))). lra.
  Qed.
  Lemma bbox_encloses (p : polyline R) o sz y : s_bbox ROps p = Some (o, sz) -> In y (pv p) ->
    vle o y /\ vle y (vadd ROps o sz).
  Proof.
    unfold s_bbox. destruct (pv p) as [|x r]; [discriminate|]. intros H Hin. injection H as <- <-.
    split; [apply spec_min_lower; exact Hin|].
    pose proof (spec_max_upper r x y Hin) as [H1 [H2 H3]].
    unfold vle, vadd, vsub; rops; cbn [vx vy vz]. lra.
  Qed.
End BBox.

(* ---- with_insertions ------------------------------------------------------------------------------- *)
(* the declarative maps really point at the vertices: original vertex i is found at i + #{j : idx_j <= i} *)
Lemma emitted_length {A} p : forall idx (pts : list A), length idx = length pts ->
  length (emitted p idx pts) = count_nat (fun j => j =? p)%nat idx.
Proof.
  unfold emitted, count_nat. intros idx pts. rewrite map_length. revert pts.
  induction idx as [|a r IH]; intros [|x xs] H; try discriminate; [reflexivity|].
  cbn [zip filter fst]. destruct (a =? p)%nat; cbn [length]; rewrite IH by (cbn in H; lia); reflexivity.
Qed.
Lemma count_split p i l :
  count_nat (fun j => (p <=? j) && (j <=? p + S i))%nat l =
  (count_nat (fun j => j =? p)%nat l + count_nat (fun j => (S p <=? j) && (j <=? S p + i))%nat l)%nat.
Proof.
  unfold count_nat. induction l as [|a r IH]; [reflexivity|]. cbn [filter].
  destruct (Nat.leb_spec p a), (Nat.leb_spec a (p + S i)), (Nat.eqb_spec a p), (Nat.leb_spec (S p) a), (Nat.leb_spec a (S p + i));
    cbn [andb length]; try lia.
Qed.
Lemma ins_from_orig {A} (idx : list nat) (pts : list A) : length idx = length pts ->
  forall v p i x, nth_error v i = Some x ->
  nth_error (ins_from p v idx pts) (i + count_nat (fun j => (p <=? j) && (j <=? p + i))%nat idx) = Some x.
Proof.
  intros Hl. induction v as [|y r IH]; intros p i x H; [destruct i; discriminate|].
  cbn [ins_from]. destruct i as [|i].
  - cbn in H. injection H as <-. cbn [Nat.add]. rewrite Nat.add_0_r.
    replace (count_nat (fun j => (p <=? j) && (j <=? p))%nat idx) with (length (emitted p idx pts)).
    + rewrite nth_error_app2 by lia. rewrite Nat.sub_diag. reflexivity.
    + rewrite emitted_length by exact Hl. unfold count_nat. f_equal. apply filter_ext. intros a.
      destruct (Nat.leb_spec p a), (Nat.leb_spec a p), (Nat.eqb_spec a p); cbn; try reflexivity; lia.
  - cbn [nth_error] in H. rewrite count_split, <- (emitted_length p idx pts Hl).
    rewrite nth_error_app2 by lia.
    replace (S i + (length (emitted p idx pts) + count_nat (fun j => (S p <=? j) && (j <=? S p + i))%nat idx) - length (emitted p idx pts))%nat
      with (S (i + count_nat (fun j => (S p <=? j) && (j <=? S p + i))%nat idx)) by lia.
    cbn [nth_error]. apply IH. exact H.
Qed.
Lemma spec_orig_map_points {A} (v : list A) idx pts i x : length idx = length pts -> nth_error v i = Some x ->
  nth_error (spec_orig_map (length v) idx) i = Some (i + count_nat (fun j => j <=? i)%nat idx)%nat /\
  nth_error (spec_insert v idx pts) (i + count_nat (fun j => j <=? i)%nat idx) = Some x.
Proof.
  intros Hl H. assert (Hi : (i < length v)%nat) by (apply nth_error_Some; congruence). split.
  - unfold spec_orig_map. rewrite nth_error_map, nth_error_seq' by exact Hi. reflexivity.
  - unfold spec_insert.
    replace (count_nat (fun j => j <=? i)%nat idx) with (count_nat (fun j => (0 <=? j) && (j <=? 0 + i))%nat idx);
      [apply ins_from_orig; assumption|].
    reflexivity.
Qed.

(* ---- rolled: original.segments[edge_mapping] = rolled.segments, every integer roll amount ------------- *)
Definition succ_mod (n m : nat) : nat := if (S m <? n)%nat then S m else 0%nat.
Lemma succ_mod_Z n i : (i < n)%nat -> Z.of_nat (succ_mod n i) = ((Z.of_nat i + 1) mod Z.of_nat n)%Z.
Proof.
  intros H. unfold succ_mod. destruct (Nat.ltb_spec (S i) n).
  - rewrite Z.mod_small by lia. lia.
  - assert (n = S i) by lia. subst n. replace (Z.of_nat i + 1)%Z with (Z.of_nat (S i)) by lia.
    rewrite Z_mod_same_full. reflexivity.
Qed.
Lemma segments_nth {A} (v : list A) m : (m < length v)%nat ->
  nth_error (segments v true) m = Some (nth_error v m, nth_error v (succ_mod (length v) m)).
Proof.
  intros H. unfold segments. rewrite nth_error_map, spec_edges_nth. unfold succ_mod.
  destruct (Nat.ltb_spec (S m) (length v)); [reflexivity|].
  cbn [andb]. replace (S m =? length v)%nat with true by (symmetry; apply Nat.eqb_eq; lia). reflexivity.
Qed.
Lemma segments_length {A} (v : list A) : length (segments v true) = length v.
Proof.
  unfold segments, spec_edges. rewrite map_length, app_length, map_length, seq_length.
  destruct (length v); cbn [length]; lia.
Qed.
Lemma rolled_segments {A} (v : list A) (k : Z) :
  map (nth_error (segments v true)) (spec_rot_map k (length v)) = map Some (segments (spec_rot k v) true).
Proof.
  apply nth_error_ext'. intros i. rewrite !nth_error_map. unfold spec_rot_map. rewrite nth_error_map.
  destruct (Nat.lt_ge_cases i (length v)) as [Hi|Hi].
  - set (n := length v) in *. assert (Hn : (0 < Z.of_nat n)%Z) by lia.
    pose proof (Z.mod_pos_bound (Z.of_nat i + k) (Z.of_nat n) Hn) as Hm.
    set (m := Z.to_nat ((Z.of_nat i + k) mod Z.of_nat n)).
    assert (Hmn : (m < n)%nat) by (unfold m; lia).
    assert (HmZ : Z.of_nat m = ((Z.of_nat i + k) mod Z.of_nat n)%Z) by (unfold m; lia).
    rewrite nth_error_seq' by exact Hi. cbn [option_map Nat.add]. fold m.
    rewrite (segments_nth (spec_rot k v) i) by (rewrite spec_rot_length; exact Hi). rewrite spec_rot_length. fold n.
    rewrite (segments_nth v m) by exact Hmn. fold n. cbn [option_map].
    assert (Hsi : (succ_mod n i < n)%nat) by (unfold succ_mod; destruct (Nat.ltb_spec (S i) n); lia).
    rewrite (spec_rot_nth v k i Hi), (spec_rot_nth v k (succ_mod n i) Hsi). fold n. fold m.
    replace (Z.to_nat ((Z.of_nat (succ_mod n i) + k) mod Z.of_nat n)) with (succ_mod n m); [reflexivity|].
    apply Nat2Z.inj. rewrite succ_mod_Z by exact Hmn. rewrite Z2Nat.id by (apply Z.mod_pos_bound; lia).
    rewrite succ_mod_Z by exact Hi. rewrite HmZ, !Zplus_mod_idemp_l. f_equal. ring.
  - replace (nth_error (seq 0 (length v)) i) with (@None nat) by (symmetry; apply nth_error_None; rewrite seq_length; exact Hi).
    replace (nth_error (segments (spec_rot k v) true) i) with (@None (option A * option A)); [reflexivity|].
    symmetry. apply nth_error_None. rewrite segments_length, spec_rot_length. exact Hi.
Qed.

(* ---- aligned_with: vg.project / vg.scale_factor decide by the sign of extent . vector ------------------ *)
Section Aligned.
  Local Open Scope R_scope.
  Lemma aligned_decision (e v : vec3 R) {T} (X Y : T) :
    (if neqb ROps (vnorm ROps v) (n0 ROps) then X else
     let u := vdivs ROps v (vnorm ROps v) in
     let pr := vscale ROps (vdot ROps e u) u in
     let d11 := vdot ROps pr pr in
     if neqb ROps d11 (n0 ROps) then X
     else if nltb ROps (ndiv ROps (vdot ROps pr v) d11) (n0 ROps) then Y else X)
    = if nltb ROps (vdot ROps e v) (n0 ROps) then Y else X.
  Proof.
    destruct e as [p q w], v as [x y z]. cbv zeta. unfold vnorm, vnorm2, vdivs, vscale, vdot, n0; rops; cbn [vx vy vz].
    set (n := sqrt (x * x + y * y + z * z)).
    assert (Hn : n * n = x * x + y * y + z * z) by (apply sqrt_sqrt; nra).
    assert (Hn0 : 0 <= n) by apply sqrt_pos. clearbody n.
    destruct (Reqb_spec n 0) as [->|Hne].
    - assert (x = 0 /\ y = 0 /\ z = 0) as [-> [-> ->]] by (repeat split; nra).
      destruct (Rltb_spec (p * 0 + q * 0 + w * 0) 0); [lra|reflexivity].
    - assert (Hpos : 0 < n) by lra.
      set (s := p * (x / n) + q * (y / n) + w * (z / n)).
      assert (Hd : s * (x / n) * (s * (x / n)) + s * (y / n) * (s * (y / n)) + s * (z / n) * (s * (z / n)) = s * s).
      { transitivity (s * s * ((x * x + y * y + z * z) / (n * n))); [field; lra|]. rewrite <- Hn. field. lra. }
      assert (Hp : s * (x / n) * x + s * (y / n) * y + s * (z / n) * z = s * n).
      { transitivity (s * ((x * x + y * y + z * z) / n)); [field; lra|]. rewrite <- Hn. field. lra. }
      assert (HD : p * x + q * y + w * z = s * n) by (unfold s; field; lra).
      rewrite Hd, Hp, HD. clearbody s.
      destruct (Reqb_spec (s * s) 0) as [H0|H0].
      + assert (s = 0) by nra. subst s. destruct (Rltb_spec (0 * n) 0); [lra|reflexivity].
      + assert (Hs0 : s <> 0) by (intros ->; apply H0; ring).
        replace (s * n / (s * s)) with (n / s) by (field; assumption).
        assert (Hiff : n / s < 0 <-> s * n < 0).
        { unfold Rdiv. destruct (Rtotal_order s 0) as [Hs|[Hs|Hs]]; [|contradiction|].
          - assert (/ s < 0) by (apply Rinv_lt_0_compat; exact Hs). split; intros _; nra.
          - assert (0 < / s) by (apply Rinv_0_lt_compat; exact Hs). split; intros; nra. }
        destruct (Rltb_spec (n / s) 0), (Rltb_spec (s * n) 0); try reflexivity; exfalso; tauto.
  Qed.

  Lemma aligned_refines (p : polyline R) v : c_aligned ROps p v = s_aligned ROps p v.
  Proof.
    unfold c_aligned, s_aligned. destruct (pclosed p); [reflexivity|].
    destruct (pv p) as [|a [|b r]]; [reflexivity|reflexivity|].
    cbn [length Nat.ltb Nat.leb].
    exact (aligned_decision (vsub ROps (last (a :: b :: r) a) a) v (Ok p) (Ok (s_flipped p))).
  Qed.
End Aligned.

(* ---- histories ------------------------------------------------------------------------------------ *)
Lemma step_refines (pl : list (polyline R)) o : op_in_range pl o = true ->
  step (code_impl ROps) pl o = step (spec_impl ROps) pl o.
Proof.
  intros Hr. destruct o;
    unfold step, on, ob_poly, with_edges;
    cbn [i_edges i_new i_flipped i_rolled i_sliced i_sectioned i_join i_insert i_index_of i_aligned i_apex i_bbox i_len
         code_impl spec_impl].
  - rewrite edges_refines. reflexivity.
  - destruct (nth_error pl a); [|reflexivity]. rewrite edges_refines. reflexivity.
  - destruct (nth_error pl a); [|reflexivity]. rewrite edges_refines. reflexivity.
  - destruct (nth_error pl a); [|reflexivity]. rewrite rolled_refines.
    destruct (s_rolled p k) as [[q m]|]; [rewrite edges_refines|]; reflexivity.
  - cbn [op_in_range] in Hr. destruct (nth_error pl a); [|reflexivity].
    apply andb_true_iff in Hr. destruct Hr as [H1 H2]. apply Nat.leb_le in H1, H2.
    rewrite sliced_refines by assumption. destruct (s_sliced p start stop); [rewrite edges_refines|]; reflexivity.
  - destruct (nth_error pl a); [|reflexivity]. rewrite sectioned_refines.
    destruct (s_sectioned p bps); [|reflexivity]. do 2 f_equal. apply map_ext. intros q. rewrite edges_refines. reflexivity.
  - destruct (fetch pl parts); [|reflexivity]. rewrite join_refines.
    destruct (s_join l closed); [rewrite edges_refines|]; reflexivity.
  - destruct (nth_error pl a); [|reflexivity]. rewrite insert_refines.
    destruct (s_insert p pts idx) as [[[q om] im]|]; [rewrite edges_refines|]; reflexivity.
  - destruct (nth_error pl a); [|reflexivity]. rewrite index_of_refines. reflexivity.
  - destruct (nth_error pl a); [|reflexivity]. rewrite aligned_refines.
    destruct (s_aligned ROps p v); [rewrite edges_refines|]; reflexivity.
  - destruct (nth_error pl a); [|reflexivity]. rewrite apex_refines. reflexivity.
  - destruct (nth_error pl a); [|reflexivity]. rewrite bbox_refines. reflexivity.
  - destruct (nth_error pl a); [|reflexivity]. rewrite len_refines. reflexivity.
Qed.

(* for every finite history of the listed operations (all of them) with slice bounds in range, each applied to
   results of earlier operations, the code-shaped model and the list specification give the same values and errors *)
Lemma history_refines : forall ops (pl : list (polyline R)),
  history_in_range (spec_impl ROps) pl ops ->
  run (code_impl ROps) pl ops = run (spec_impl ROps) pl ops.
Proof.
  induction ops as [|o r IH]; intros pl Hr; [reflexivity|].
  cbn [history_in_range] in Hr. destruct Hr as [Hr1 Hr2].
  cbn [run]. rewrite (step_refines pl o Hr1). f_equal. apply IH; assumption.
Qed.

(* an operation that raises appends nothing to the pool: everything existing is unchanged (all operations) *)
Lemma errors_leave_unchanged (I : impl R) (pl : list (polyline R)) o e :
  snd (step I pl o) = ObRaise e -> fst (step I pl o) = pl.
Proof.
  destruct o; unfold step, on, ob_poly; try (destruct (nth_error pl a)); cbn; try discriminate; try reflexivity.
  - destruct (i_rolled I p k) as [[q m]|]; cbn; [discriminate|reflexivity].
  - destruct (i_sliced I p start stop); cbn; [discriminate|reflexivity].
  - destruct (i_sectioned I p bps); cbn; [discriminate|reflexivity].
  - destruct (fetch pl parts); [|reflexivity]. destruct (i_join I l closed); cbn; [discriminate|reflexivity].
  - destruct (i_insert I p pts idx) as [[[q om] im]|]; cbn; [discriminate|reflexivity].
  - destruct (i_aligned I p v); cbn; [discriminate|reflexivity].
Qed.
(* and no operation ever changes or removes an existing polyline: the pool only grows *)
Lemma pool_only_grows (I : impl R) (pl : list (polyline R)) o : exists news, fst (step I pl o) = pl ++ news.
Proof.
  destruct o; unfold step, on, ob_poly; try (destruct (nth_error pl a)); cbn;
    try (eexists; reflexivity); try (exists []; rewrite app_nil_r; reflexivity).
  - destruct (i_rolled I p k) as [[q m]|]; cbn; [eexists; reflexivity|exists []; rewrite app_nil_r; reflexivity].
  - destruct (i_sliced I p start stop); cbn; [eexists; reflexivity|exists []; rewrite app_nil_r; reflexivity].
  - destruct (i_sectioned I p bps); cbn; [eexists; reflexivity|exists []; rewrite app_nil_r; reflexivity].
  - destruct (fetch pl parts); [|exists []; rewrite app_nil_r; reflexivity].
    destruct (i_join I l closed); cbn; [eexists; reflexivity|exists []; rewrite app_nil_r; reflexivity].
  - destruct (i_insert I p pts idx) as [[[q om] im]|]; cbn; [eexists; reflexivity|exists []; rewrite app_nil_r; reflexivity].
  - destruct (i_aligned I p v); cbn; [eexists; reflexivity|exists []; rewrite app_nil_r; reflexivity].
Qed.


(* ---- statement-shaped corollaries used by props/C09.v ------------------------------------------------- *)
Lemma edges_nth n closed k :
  nth_error (edges_for n closed) k =
  if (S k <? n)%nat then Some (k, S k)
  else if closed && (S k =? n)%nat then Some (k, 0%nat) else None.
Proof. rewrite edges_refines. apply spec_edges_nth. Qed.

Lemma rolled_vertex_and_map (v : list (vec3 R)) (k : Z) i : (i < length v)%nat ->
  nth_error (spec_rot_map k (length v)) i = Some (Z.to_nat ((Z.of_nat i + k) mod Z.of_nat (length v))) /\
  nth_error (spec_rot k v) i = nth_error v (Z.to_nat ((Z.of_nat i + k) mod Z.of_nat (length v))).
Proof.
  intros H. split; [|apply spec_rot_nth; exact H].
  unfold spec_rot_map. rewrite nth_error_map, nth_error_seq' by exact H. reflexivity.
Qed.

Lemma index_of_lowest (p : polyline R) pt j : s_index_of ROps p pt = Ok j ->
  (exists x, nth_error (pv p) j = Some x /\ vclose8 ROps x pt = true) /\
  (forall k y, (k < j)%nat -> nth_error (pv p) k = Some y -> vclose8 ROps y pt = false).
Proof.
  intros H. unfold s_index_of in H. destruct (spec_find_from ROps 0 (pv p) pt) eqn:E; [|discriminate].
  injection H as ->. apply spec_find_lowest in E. rewrite Nat.sub_0_r in E. exact (proj2 E).
Qed.
Lemma index_of_none (p : polyline R) pt : s_index_of ROps p pt = Raise ValueError <->
  forall x, In x (pv p) -> vclose8 ROps x pt = false.
Proof.
  unfold s_index_of. destruct (spec_find_from ROps 0 (pv p) pt) as [j|] eqn:E; split; intros H.
  - discriminate.
  - exfalso. apply spec_find_lowest in E. destruct E as [_ [[x [Hx Hc]] _]].
    rewrite (H x (nth_error_In _ _ Hx)) in Hc. discriminate.
  - apply (spec_find_none _ _ _ E).
  - reflexivity.
Qed.

Lemma apex_is_max (p : polyline R) ax x : s_apex ROps p ax = Ok x ->
  In x (pv p) /\ forall y, In y (pv p) -> (vdot ROps y ax <= vdot ROps x ax)%R.
Proof.
  intros H. unfold s_apex in H. destruct (spec_apex ROps (pv p) ax) as [[y m]|] eqn:E; [|discriminate].
  injection H as ->. destruct (spec_apex_max ax _ _ _ E) as [-> [Hin Hmax]]. split; assumption.
Qed.

Lemma undefined_operations_raise (p : polyline R) k bps s t v :
  (pclosed p = false -> c_rolled p k = Raise ValueError) /\
  (pclosed p = true -> c_sectioned p bps = Raise NotImplementedError /\ c_aligned ROps p v = Raise ValueError) /\
  (pclosed p = false -> (t <= s)%nat -> c_sliced p s t = Raise ValueError) /\
  (forall (ps : list (polyline R)) c, ps = [] \/ existsb pclosed ps = true -> c_join ps c = Raise ValueError).
Proof.
  unfold c_rolled, c_sectioned, c_aligned, c_sliced, c_join. repeat split.
  - intros ->. reflexivity.
  - rewrite H. reflexivity.
  - rewrite H. reflexivity.
  - intros -> H. apply Nat.leb_le in H. rewrite H. reflexivity.
  - intros ps c [->|H]; [reflexivity|]. rewrite H. destruct (length ps =? 0)%nat; reflexivity.
Qed.

Lemma code_errors_leave_unchanged (pl : list (polyline R)) o e :
  snd (step (code_impl ROps) pl o) = ObRaise e -> fst (step (code_impl ROps) pl o) = pl.
Proof. apply errors_leave_unchanged. Qed.
Lemma code_pool_only_grows (pl : list (polyline R)) o : exists news, fst (step (code_impl ROps) pl o) = pl ++ news.
Proof. apply pool_only_grows. Qed.
