(* C09: refinement of the code-shaped Polyline model (M_polyline_ops.v) to the list-of-points
   specification (M_polyline_spec.v), and the declarative facts about the specification. *)
From Coq Require Import ZArith Reals Lra Psatz List Bool Lia Arith.
From PW Require Import Num NumR Vec NpList Result.
From PW.model Require Import M_polyline_base M_polyline_spec M_polyline_ops.
From PW.proofs Require Import P_vec P_nplist.
Import ListNotations.

Lemma nth_error_seq' : forall n s k, (k < n)%nat -> nth_error (seq s n) k = Some (s + k)%nat.
Proof.
  induction n as [|n IH]; intros s k H; [lia|]. destruct k as [|k]; cbn [seq nth_error].
  - f_equal; lia.
  - rewrite IH by lia. f_equal; lia.
Qed.

(* ---- edges --------------------------------------------------------------------------------------- *)
Lemma edges_refines n closed : edges_for n closed = spec_edges n closed.
Proof.
  unfold edges_for, spec_edges. destruct closed.
  - destruct n as [|m].
    + reflexivity.
    + replace (Z.of_nat (S m) =? 0)%Z with false by (symmetry; apply Z.eqb_neq; lia).
      rewrite Nat2Z.id. replace (S m - 1)%nat with m by lia.
      rewrite seq_S, map_app. cbn [map Nat.add].
      unfold set_last_snd.
      destruct (map (fun i => (i, S i)) (seq 0 m) ++ [(m, S m)]) eqn:E.
      { destruct (map (fun i : nat => (i, S i)) (seq 0 m)); discriminate. }
      rewrite <- E. rewrite removelast_last, last_last. reflexivity.
  - destruct (Z.of_nat n - 1 =? 0)%Z eqn:E.
    + apply Z.eqb_eq in E. replace (n - 1)%nat with 0%nat by lia. reflexivity.
    + replace (Z.to_nat (Z.of_nat n - 1)) with (n - 1)%nat by lia. rewrite app_nil_r. reflexivity.
Qed.

(* every edge joins consecutive vertices; the closing edge exists exactly when closed and non-empty *)
Lemma spec_edges_nth n closed k :
  nth_error (spec_edges n closed) k =
  if (S k <? n)%nat then Some (k, S k)
  else if closed && (S k =? n)%nat then Some (k, 0%nat) else None.
Proof.
  unfold spec_edges.
  destruct (S k <? n)%nat eqn:E.
  - apply Nat.ltb_lt in E. rewrite nth_error_app1 by (rewrite map_length, seq_length; lia).
    rewrite nth_error_map, nth_error_seq' by lia. reflexivity.
  - apply Nat.ltb_ge in E. rewrite nth_error_app2 by (rewrite map_length, seq_length; lia).
    rewrite map_length, seq_length. destruct closed; cbn [andb].
    + destruct n as [|m]; [destruct (k - (0 - 1))%nat; reflexivity|].
      destruct (S k =? S m)%nat eqn:E2.
      * apply Nat.eqb_eq in E2. replace (k - (S m - 1))%nat with 0%nat by lia. cbn. f_equal. f_equal. lia.
      * apply Nat.eqb_neq in E2. replace (k - (S m - 1))%nat with (S (k - S m)) by lia. cbn.
        destruct (k - S m)%nat; reflexivity.
    + destruct (k - (n - 1))%nat; reflexivity.
Qed.

(* ---- generic list facts --------------------------------------------------------------------------- *)
Lemma nth_error_ext' {A} : forall (l l' : list A), (forall i, nth_error l i = nth_error l' i) -> l = l'.
Proof.
  induction l as [|x r IH]; intros [|y r'] H; try reflexivity.
  - specialize (H 0%nat); discriminate.
  - specialize (H 0%nat); discriminate.
  - f_equal; [specialize (H 0%nat); cbn in H; congruence|]. apply IH. intros i. exact (H (S i)).
Qed.
Lemma nth_error_skipn' {A} : forall s (l : list A) i, nth_error (skipn s l) i = nth_error l (s + i).
Proof.
  induction s as [|s IH]; intros l i; [reflexivity|]. destruct l as [|x r]; cbn [skipn Nat.add nth_error].
  - destruct i; reflexivity.
  - apply IH.
Qed.
Lemma nth_error_firstn' {A} : forall s (l : list A) i, (i < s)%nat -> nth_error (firstn s l) i = nth_error l i.
Proof.
  induction s as [|s IH]; intros l i H; [lia|]. destruct l as [|x r]; [reflexivity|].
  destruct i as [|i]; cbn [firstn nth_error]; [reflexivity|]. apply IH; lia.
Qed.

(* ---- constructor, flipped, join, lengths ------------------------------------------------------------ *)
Section Refine.
  Local Open Scope R_scope.
  Lemma new_refines v c : c_new (F:=R) v c = s_new v c.
  Proof. reflexivity. Qed.
  Lemma flipped_refines (p : polyline R) : c_flipped p = s_flipped p.
  Proof. reflexivity. Qed.
  Lemma join_refines (ps : list (polyline R)) c : c_join ps c = s_join ps c.
  Proof. destruct ps; reflexivity. Qed.

  Lemma spec_edges_length n c : length (spec_edges n c) = if c then n else (n - 1)%nat.
  Proof.
    unfold spec_edges. rewrite app_length, map_length, seq_length. destruct c; [|cbn; lia].
    destruct n; cbn; lia.
  Qed.
  Lemma len_refines (p : polyline R) : c_len p = s_len p.
  Proof. unfold c_len, s_len. rewrite edges_refines. unfold spec_edges.
    rewrite app_length, map_length, seq_length. destruct (pclosed p); [|cbn [length]; f_equal; lia].
    destruct (length (pv p)); cbn [length]; f_equal; lia.
  Qed.

  (* ---- index_of_vertex ------------------------------------------------------------------------------ *)
  Lemma find_refines_from (l : list (vec3 R)) pt : forall i,
    match nonzero_from i (map (fun x => vclose8 ROps x pt) l) with j :: _ => Some j | [] => None end
    = spec_find_from ROps i l pt.
  Proof.
    induction l as [|x r IH]; intros i; cbn [map nonzero_from spec_find_from]; [reflexivity|].
    destruct (vclose8 ROps x pt); [reflexivity|apply IH].
  Qed.
  Lemma index_of_refines (p : polyline R) pt : c_index_of ROps p pt = s_index_of ROps p pt.
  Proof.
    unfold c_index_of, s_index_of, flatnonzero. rewrite <- find_refines_from.
    destruct (nonzero_from 0 _); reflexivity.
  Qed.
  (* the specification returns the lowest matching index *)
  Lemma spec_find_lowest (l : list (vec3 R)) pt : forall i j,
    spec_find_from ROps i l pt = Some j ->
    (i <= j)%nat /\ (exists x, nth_error l (j - i) = Some x /\ vclose8 ROps x pt = true) /\
    (forall k y, (k < j - i)%nat -> nth_error l k = Some y -> vclose8 ROps y pt = false).
  Proof.
    induction l as [|x r IH]; intros i j H; cbn [spec_find_from] in H; [discriminate|].
    destruct (vclose8 ROps x pt) eqn:E.
    - injection H as <-. split; [lia|]. rewrite Nat.sub_diag. split; [exists x; split; [reflexivity|exact E]|].
      intros k y Hk; lia.
    - apply IH in H. destruct H as [Hle [[y [Hy Hc]] Hlow]]. split; [lia|]. split.
      + exists y. split; [|exact Hc]. replace (j - i)%nat with (S (j - S i)) by lia. exact Hy.
      + intros k z Hk Hz. destruct k as [|k]; cbn in Hz; [congruence|]. apply (Hlow k z); [lia|exact Hz].
  Qed.
  Lemma spec_find_none (l : list (vec3 R)) pt : forall i,
    spec_find_from ROps i l pt = None -> forall x, In x l -> vclose8 ROps x pt = false.
  Proof.
    induction l as [|y r IH]; intros i H x Hin; [destruct Hin|]. cbn [spec_find_from] in H.
    destruct (vclose8 ROps y pt) eqn:E; [discriminate|]. destruct Hin as [<-|Hin]; [exact E|].
    exact (IH _ H x Hin).
  Qed.

  (* ---- sectioned --------------------------------------------------------------------------------------- *)
  Lemma sections_refine (v : list (vec3 R)) : forall bps s,
    (let starts := s :: bps in
     let ends := map (fun b => (b + 1)%Z) bps ++ [Z.of_nat (length v)] in
     if existsb (fun x => (x <? 1)%Z) (map2 (fun e s => (e - s - 1)%Z) ends starts) then Raise ValueError
     else Ok (map2 (fun s e => MkPolyline (zslice s e v) false) starts ends))
    = rmap (map (fun v => MkPolyline v false)) (spec_sections v s bps).
  Proof.
    induction bps as [|b r IH]; intros s; cbn zeta.
    - cbn [map app map2 zip fst snd existsb spec_sections]. rewrite orb_false_r.
      destruct (Z.of_nat (length v) - s - 1 <? 1)%Z; reflexivity.
    - specialize (IH b). cbn zeta in IH. cbn [map app spec_sections].
      unfold map2 in *. cbn [zip map fst snd existsb].
      replace (b + 1 - s - 1)%Z with (b - s)%Z by ring.
      destruct (b - s <? 1)%Z; cbn [orb]; [reflexivity|].
      cbn [map app zip] in IH.
      destruct (existsb _ _).
      + destruct (spec_sections v b r); cbn in *; [discriminate|]. congruence.
      + destruct (spec_sections v b r); cbn in *; [|discriminate]. injection IH as IH. rewrite IH. reflexivity.
  Qed.
  Lemma sectioned_refines (p : polyline R) bps : c_sectioned p bps = s_sectioned p bps.
  Proof. unfold c_sectioned, s_sectioned. destruct (pclosed p); [reflexivity|]. apply sections_refine. Qed.
End Refine.

(* ---- rolled ----------------------------------------------------------------------------------------- *)
Lemma roll_neg_spec {A} (l : list A) k : roll l (- k) = spec_rot k l.
Proof.
  destruct l as [|x r]; [reflexivity|]. unfold roll, spec_rot. cbv zeta.
  set (n := Z.of_nat (length (x :: r))). assert (Hn : (0 < n)%Z) by (unfold n; cbn [length]; lia).
  replace ((n - (- k) mod n) mod n)%Z with (k mod n)%Z; [reflexivity|].
  rewrite Zminus_mod_idemp_r. replace (n - - k)%Z with (k + 1 * n)%Z by ring.
  rewrite Z_mod_plus_full. reflexivity.
Qed.

Lemma spec_rot_length {A} (l : list A) k : length (spec_rot k l) = length l.
Proof.
  destruct l as [|x r]; [reflexivity|]. unfold spec_rot. cbv zeta.
  rewrite app_length, skipn_length, firstn_length.
  set (n := length (x :: r)).
  assert (Z.to_nat (k mod Z.of_nat n) < n)%nat.
  { pose proof (Z.mod_pos_bound k (Z.of_nat n)). unfold n in *. cbn [length] in *. lia. }
  lia.
Qed.

(* vertex i of the rolled list is vertex (i + k) mod n of the original: any integer k *)
Lemma spec_rot_nth {A} (l : list A) k i : (i < length l)%nat ->
  nth_error (spec_rot k l) i = nth_error l (Z.to_nat ((Z.of_nat i + k) mod Z.of_nat (length l))).
Proof.
  intros Hi. destruct l as [|x r]; [cbn in Hi; lia|]. unfold spec_rot. cbv zeta.
  set (l := x :: r) in *. set (n := Z.of_nat (length l)).
  assert (Hn : (0 < n)%Z) by (unfold n; lia).
  pose proof (Z.mod_pos_bound k n Hn) as Hs. set (s := (k mod n)%Z) in *.
  assert (Hmod : ((Z.of_nat i + k) mod n = (Z.of_nat i + s) mod n)%Z) by (unfold s; rewrite Zplus_mod_idemp_r; reflexivity).
  rewrite Hmod.
  destruct (Nat.lt_ge_cases i (length l - Z.to_nat s)) as [Hlt|Hge].
  - rewrite nth_error_app1 by (rewrite skipn_length; lia).
    rewrite nth_error_skipn'. f_equal. rewrite Z.mod_small by (unfold n; lia). lia.
  - rewrite nth_error_app2 by (rewrite skipn_length; lia). rewrite skipn_length.
    rewrite nth_error_firstn' by lia. f_equal.
    replace (Z.of_nat i + s)%Z with ((Z.of_nat i + s - n) + 1 * n)%Z by ring.
    rewrite Z_mod_plus_full, Z.mod_small by (unfold n; lia). unfold n; lia.
Qed.

Lemma spec_rot_seq k n : spec_rot k (seq 0 n) = spec_rot_map k n.
Proof.
  apply nth_error_ext'. intros i. unfold spec_rot_map.
  destruct (Nat.lt_ge_cases i n) as [Hlt|Hge].
  - rewrite spec_rot_nth by (rewrite seq_length; exact Hlt). rewrite seq_length.
    assert (Hn : (0 < Z.of_nat n)%Z) by lia.
    pose proof (Z.mod_pos_bound (Z.of_nat i + k) (Z.of_nat n) Hn).
    rewrite nth_error_seq' by lia. rewrite nth_error_map, nth_error_seq' by lia. reflexivity.
  - transitivity (@None nat).
    + apply nth_error_None. rewrite spec_rot_length, seq_length. exact Hge.
    + symmetry. apply nth_error_None. rewrite map_length, seq_length. exact Hge.
Qed.

Lemma rolled_refines (p : polyline R) k : c_rolled p k = s_rolled p k.
Proof.
  unfold c_rolled, s_rolled. destruct (pclosed p); cbn [negb]; [|reflexivity].
  rewrite !roll_neg_spec, spec_rot_seq. reflexivity.
Qed.

(* ---- sliced_at_indices ------------------------------------------------------------------------------ *)
Lemma rot_prefix {A} (l : list A) s t : (s <= length l)%nat -> (t <= s)%nat ->
  firstn ((length l - s) + t) (spec_rot (Z.of_nat s) l) = skipn s l ++ firstn t l.
Proof.
  intros Hs Ht. destruct l as [|x r].
  - cbn in Hs. assert (s = 0%nat) by lia. subst s. assert (t = 0%nat) by lia. subst t. reflexivity.
  - unfold spec_rot. cbv zeta. set (l := x :: r) in *. set (n := length l) in *.
    assert (Hn : (0 < n)%nat) by (unfold n, l; cbn; lia).
    destruct (Nat.eq_dec s n) as [->|Hne].
    + rewrite Z_mod_same_full. cbn [Z.to_nat skipn firstn app]. rewrite Nat.sub_diag. cbn [Nat.add].
      rewrite skipn_all2 by (fold n; lia). cbn [app]. rewrite app_nil_r. reflexivity.
    + rewrite Z.mod_small by lia. rewrite Nat2Z.id.
      rewrite firstn_app, skipn_length. fold n.
      rewrite firstn_all2 by (rewrite skipn_length; fold n; lia).
      replace (n - s + t - (n - s))%nat with t by lia.
      f_equal. rewrite firstn_firstn. f_equal. lia.
Qed.

Lemma sliced_refines (p : polyline R) s t : (s <= length (pv p))%nat -> (t <= length (pv p))%nat ->
  c_sliced p s t = s_sliced p s t.
Proof.
  intros Hs Ht. unfold c_sliced, s_sliced, spec_sliced, spec_slice.
  destruct (t <=? s)%nat eqn:E.
  - apply Nat.leb_le in E. replace (s <? t)%nat with false by (symmetry; apply Nat.ltb_ge; exact E).
    destruct (pclosed p); [|reflexivity]. cbn [rmap]. do 2 f_equal.
    rewrite roll_neg_spec. unfold py_prefix.
    replace (0 <=? Z.of_nat (length (pv p)) - Z.of_nat s + Z.of_nat t)%Z with true by (symmetry; apply Z.leb_le; lia).
    replace (Z.to_nat (Z.of_nat (length (pv p)) - Z.of_nat s + Z.of_nat t)) with ((length (pv p) - s) + t)%nat by lia.
    apply rot_prefix; assumption.
  - apply Nat.leb_gt in E. replace (s <? t)%nat with true by (symmetry; apply Nat.ltb_lt; exact E). reflexivity.
Qed.
