(* Specifications of the NumPy-on-lists primitives. *)
From Coq Require Import ZArith List Bool Arith Lia Sorted.
From PW Require Import NpList.
Import ListNotations.

Lemma nonzero_from_spec (m : list bool) : forall i k,
  In k (nonzero_from i m) <-> i <= k /\ nth_error m (k - i) = Some true.
Proof.
  induction m as [|b r IH]; intros i k; cbn [nonzero_from].
  - split; [intros []|]. intros [_ H]. destruct (k - i); discriminate.
  - destruct b.
    + cbn [In]. rewrite IH. split.
      * intros [<-|[Hle Hn]]; [split; [lia|]; rewrite Nat.sub_diag; reflexivity|].
        split; [lia|]. replace (k - i) with (S (k - S i)) by lia. exact Hn.
      * intros [Hle Hn]. destruct (Nat.eq_dec i k) as [->|Hne]; [left; reflexivity|right].
        split; [lia|]. replace (k - i) with (S (k - S i)) in Hn by lia. exact Hn.
    + rewrite IH. split.
      * intros [Hle Hn]. split; [lia|]. replace (k - i) with (S (k - S i)) by lia. exact Hn.
      * intros [Hle Hn]. destruct (Nat.eq_dec i k) as [->|Hne].
        { rewrite Nat.sub_diag in Hn. discriminate. }
        split; [lia|]. replace (k - i) with (S (k - S i)) in Hn by lia. exact Hn.
Qed.

Lemma flatnonzero_spec m k : In k (flatnonzero m) <-> nth_error m k = Some true.
Proof.
  unfold flatnonzero. rewrite nonzero_from_spec, Nat.sub_0_r. split; [intros [_ H]; exact H|].
  intros H; split; [lia|exact H].
Qed.

Lemma nonzero_from_lb m : forall i k, In k (nonzero_from i m) -> i <= k.
Proof. intros i k H. apply nonzero_from_spec in H. lia. Qed.

Lemma nonzero_from_sorted m : forall i, StronglySorted lt (nonzero_from i m).
Proof.
  induction m as [|b r IH]; intros i; cbn [nonzero_from]; [constructor|].
  destruct b; [|apply IH]. constructor; [apply IH|].
  apply Forall_forall. intros k Hk. apply nonzero_from_lb in Hk. lia.
Qed.
Lemma flatnonzero_sorted m : StronglySorted lt (flatnonzero m).
Proof. apply nonzero_from_sorted. Qed.

Lemma flatnonzero_lt m k : In k (flatnonzero m) -> k < length m.
Proof. intros H. apply flatnonzero_spec in H. apply nth_error_Some. congruence. Qed.

(* two masks that are pointwise complementary partition the index range *)
Lemma flatnonzero_partition (m m' : list bool) :
  length m = length m' ->
  (forall k b, nth_error m k = Some b -> nth_error m' k = Some (negb b)) ->
  forall k, k < length m -> (In k (flatnonzero m) <-> ~ In k (flatnonzero m')).
Proof.
  intros Hl Hc k Hk. rewrite !flatnonzero_spec.
  destruct (nth_error m k) as [b|] eqn:E; [|apply nth_error_None in E; lia].
  rewrite (Hc _ _ E). destruct b; cbn [negb]; split; intros H.
  - intros H'; discriminate.
  - reflexivity.
  - discriminate.
  - exfalso; apply H; reflexivity.
Qed.

(* take with in-range indices is map nth_error *)
Lemma take_spec {A} (l : list A) idx :
  Forall (fun i => i < length l) idx -> map Some (take l idx) = map (nth_error l) idx.
Proof.
  induction idx as [|i r IH]; intros H; cbn [take map]; [reflexivity|].
  inversion H as [|? ? Hi Hr]; subst.
  destruct (nth_error l i) eqn:E; [|apply nth_error_None in E; lia].
  cbn [map]. rewrite IH by assumption. reflexivity.
Qed.

Lemma nth_error_map2 {A B C} (f : A -> B -> C) l l' k :
  nth_error (map2 f l l') k =
  match nth_error l k, nth_error l' k with Some a, Some b => Some (f a b) | _, _ => None end.
Proof.
  unfold map2. revert l' k. induction l as [|a r IH]; intros [|b r'] [|k]; cbn; try reflexivity.
  - destruct (nth_error r k); reflexivity.
  - apply IH.
Qed.
