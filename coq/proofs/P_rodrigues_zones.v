(* Real-number lemmas for M_rodrigues.v (C10): totality of the inverse on SO(3) and what is returned in the two
   snapping zones (s < 1e-5): the zero branch (c > 0) and the half-turn branch (c <= 0). *)
From Coq Require Import ZArith Reals Lra Psatz List Bool Lia Nsatz.
From PW Require Import Num NumR Vec Mat NpList Result.
From PW.model Require Import M_rodrigues M_rodrigues_spec M_rodrigues_exact.
From PW.proofs Require Import P_vec P_mat P_rodrigues P_rodrigues_inv P_rodrigues_jac P_rodrigues_rt.
Import ListNotations.
Local Open Scope R_scope.

(* ---- facts about every proper rotation ------------------------------------------------------------- *)
Definition trace3 (m : mat3 R) : R := a00 m + a11 m + a22 m.

Lemma proper_facts m : proper m ->
  let s := rod_inv_s ROps m in let c := (trace3 m - 1) * / 2 in
  0 <= s /\ c * c + s * s = 1 /\ -1 <= c <= 1 /\ rod_inv_c ROps m = c.
Proof.
  intros (Ho & _ & Hd) s c. destruct m as [a b c0 d e f g h i].
  pose proof (so3_repr a b c0 d e f g h i Ho Hd) as H. cbv zeta in H. destruct H as (Hc & _).
  assert (Hs0 : 0 <= s).
  { subst s. unfold rod_inv_s, rod_half, nfrac; rops. pose proof (vnorm_nonneg (rod_antisym ROps (M3 a b c0 d e f g h i))). lra. }
  assert (Hnn : (h - f) * (h - f) + (c0 - g) * (c0 - g) + (d - b) * (d - b) = 4 * (s * s)).
  { subst s. unfold rod_inv_s, rod_half, nfrac, vnorm. rops.
    pose proof (vnorm2_nonneg (rod_antisym ROps (M3 a b c0 d e f g h i))) as Hn.
    set (q := vnorm2 ROps (rod_antisym ROps (M3 a b c0 d e f g h i))) in *.
    replace (sqrt q * (1 / 2) * (sqrt q * (1 / 2))) with (sqrt q * sqrt q / 4) by field.
    rewrite sqrt_sqrt by exact Hn. subst q. unfold rod_antisym; vunf; cbn [a00 a01 a02 a10 a11 a12 a20 a21 a22]. field. }
  assert (Hcs : c * c + s * s = 1).
  { subst c. unfold trace3; cbn [a00 a11 a22]. rewrite Hnn in Hc. lra. }
  assert (Hcb : -1 <= c <= 1) by (split; nra).
  repeat split; try assumption; try lra.
  apply rod_inv_c_eq; [reflexivity | exact Hcb].
Qed.

(* ---- the half axis is never zero on SO(3): |q|^2 >= (tr + 3)/2 >= 1 ----------------------------------- *)
Lemma diag_root_sq d : (d + 1) * / 2 <= rod_diag_root ROps d * rod_diag_root ROps d.
Proof.
  unfold rod_diag_root, rod_half, nfrac, nmax, n0, n1; rops.
  destruct (Rleb_spec ((d + 1) * (1 / 2)) 0).
  - rewrite sqrt_sqrt by lra. lra.
  - rewrite sqrt_sqrt by lra. lra.
Qed.

Lemma half_axis_norm2_ge p : (trace3 p + 3) * / 2 <= vnorm2 ROps (rod_half_axis ROps p).
Proof.
  pose proof (diag_root_sq (a00 p)) as H0. pose proof (diag_root_sq (a11 p)) as H1. pose proof (diag_root_sq (a22 p)) as H2.
  unfold rod_half_axis, trace3. cbv zeta.
  set (rx := rod_diag_root ROps (a00 p)) in *. set (ry0 := rod_diag_root ROps (a11 p)) in *.
  set (rz0 := rod_diag_root ROps (a22 p)) in *. clearbody rx ry0 rz0.
  repeat match goal with |- context [if ?b then _ else _] => destruct b end; vunf; nra.
Qed.

Lemma inv_defined m : proper m -> exists v, rodrigues_inv_of_proj ROps m = Some v.
Proof.
  intros Hm. destruct (proper_facts m Hm) as (Hs0 & Hcs & Hcb & Hic).
  unfold rodrigues_inv_of_proj.
  destruct (nltb ROps (rod_inv_s ROps m) (rod_small ROps)); [|eexists; reflexivity].
  destruct (nltb ROps (n0 ROps) (rod_inv_c ROps m)); [eexists; reflexivity|].
  change (neqb ROps) with Reqb.
  destruct (Reqb_spec (vnorm ROps (rod_half_axis ROps m)) (n0 ROps)) as [E|E]; [|eexists; reflexivity].
  exfalso. pose proof (half_axis_norm2_ge m) as Hq. rewrite <- vnorm_sq, E in Hq. unfold n0 in Hq; rops.
  destruct Hcb as [Hcb1 Hcb2]. replace (0 * 0) with 0 in Hq by ring. lra.
Qed.

(* ---- zero branch: s < 1e-5, c > 0 ------------------------------------------------------------------- *)
Lemma sq_le_abs x y : 0 <= y -> x * x <= y * y -> - y <= x <= y.
Proof. intros Hy H. split; nra. Qed.

(* Frobenius distance to the identity: sum (m_ab - delta_ab)^2 = 6 - 2 tr = 4 (1 - c) <= 4 s^2 *)
Lemma inv_zero_zone proj m : proj_ok proj -> proper m ->
  rod_inv_s ROps m < rod_small ROps -> 0 < rod_inv_c ROps m ->
  rodrigues_inv ROps proj m = Some (vzero ROps) /\
  forall a b, (a < 3)%nat -> (b < 3)%nat ->
    Rabs (m3get (rodrigues_fwd ROps (vzero ROps)) a b - m3get m a b) <= 2 * rod_inv_s ROps m.
Proof.
  intros Hp Hm Hs Hc. destruct (proper_facts m Hm) as (Hs0 & Hcs & Hcb & Hic).
  split.
  - unfold rodrigues_inv. destruct Hm as (Ho & _). rewrite (Hp m Ho). unfold rodrigues_inv_of_proj.
    change (nltb ROps) with Rltb. rewrite (proj2 (Rltb_true _ _)) by exact Hs.
    rewrite (proj2 (Rltb_true _ _)) by exact Hc. reflexivity.
  - rewrite Hic in Hc. clear Hic. set (s := rod_inv_s ROps m) in *. clearbody s.
    change (vzero ROps) with (V3 0 0 0). rewrite fwd_zero_is_identity.
    assert (H1c : 1 - (trace3 m - 1) * / 2 <= s * s) by nra.
    destruct Hm as (Ho & _). destruct m as [a0 b0 c0 d e f g h i]. unfold trace3 in *. cbn [a00 a11 a22] in *.
    munf_in Ho. injection Ho as E1 _ _ _ E5 _ _ _ E9.
    assert (Hsum : (1 - a0) * (1 - a0) + b0 * b0 + c0 * c0 + d * d + (1 - e) * (1 - e) + f * f + g * g + h * h +
                   (1 - i) * (1 - i) <= (2 * s) * (2 * s)) by lra.
    pose proof (Rle_0_sqr (1 - a0)) as Q1. pose proof (Rle_0_sqr b0) as Q2. pose proof (Rle_0_sqr c0) as Q3.
    pose proof (Rle_0_sqr d) as Q4. pose proof (Rle_0_sqr (1 - e)) as Q5. pose proof (Rle_0_sqr f) as Q6.
    pose proof (Rle_0_sqr g) as Q7. pose proof (Rle_0_sqr h) as Q8. pose proof (Rle_0_sqr (1 - i)) as Q9.
    unfold Rsqr in *.
    intros a b Ha Hb. apply Rabs_le.
    destruct a as [|[|[|a]]]; try lia; destruct b as [|[|[|b]]]; try lia;
    cbv [m3get I3 n0 n1 a00 a01 a02 a10 a11 a12 a20 a21 a22]; rops; apply sq_le_abs; try lra.
Qed.

(* forward Jacobian at the returned vector (0) times the literal table of this branch *)
Lemma jacobians_compose_zero_zone proj m : proj_ok proj -> proper m ->
  rod_inv_s ROps m < rod_small ROps -> 0 < rod_inv_c ROps m ->
  jac_compose (rodrigues_fwd_jac ROps (vzero ROps)) (rodrigues_inv_jac ROps proj m) = I33.
Proof.
  intros Hp Hm Hs Hc.
  change (vzero ROps) with (V3 0 0 0). rewrite fwd_jac_small.
  2:{ unfold vnorm, vnorm2; vunf. replace (0 * 0 + 0 * 0 + 0 * 0) with 0 by ring. rewrite sqrt_0. apply rod_eps_pos. }
  unfold rodrigues_inv_jac. destruct Hm as (Ho & _). rewrite (Hp m Ho). unfold rodrigues_inv_jac_of_proj.
  change (nltb ROps) with Rltb. rewrite (proj2 (Rltb_true _ _)) by exact Hs.
  rewrite (proj2 (Rltb_true _ _)) by exact Hc.
  junf. unfold I33. repeat (apply cons_eq'; [repeat (apply cons_eq'; [ | ]); try reflexivity | ]); try reflexivity.
  all: field.
Qed.

(* ---- half-turn branch: s < 1e-5, c <= 0 --------------------------------------------------------------- *)
Lemma acos_nonpos_ge c : -1 <= c <= 0 -> PI / 2 <= acos c <= PI.
Proof.
  intros Hc. pose proof (acos_bound c) as [H0 H1]. split; [|exact H1].
  destruct (Rle_lt_dec (PI / 2) (acos c)) as [H|H]; [exact H|]. exfalso.
  assert (0 < cos (acos c)) by (apply cos_gt_0; pose proof PI_RGT_0; lra).
  rewrite cos_acos in H2 by lra. lra.
Qed.

Lemma inv_halfturn_zone proj m : proj_ok proj -> proper m ->
  rod_inv_s ROps m < rod_small ROps -> rod_inv_c ROps m <= 0 ->
  exists v, rodrigues_inv ROps proj m = Some v /\
    vnorm ROps v = acos ((trace3 m - 1) * / 2) /\ PI / 2 <= vnorm ROps v <= PI /\
    cos (vnorm ROps v) = (trace3 m - 1) * / 2.
Proof.
  intros Hp Hm Hs Hc. destruct (proper_facts m Hm) as (Hs0 & Hcs & Hcb & Hic).
  rewrite Hic in Hc. set (c := (trace3 m - 1) * / 2) in *.
  pose proof (acos_nonpos_ge c ltac:(lra)) as Hth.
  assert (Hn : vnorm ROps (rod_half_axis ROps m) <> 0).
  { intros E. pose proof (half_axis_norm2_ge m) as Hq. rewrite <- vnorm_sq, E in Hq. fold c in Hcb. unfold c in Hcb. lra. }
  exists (vscale ROps (ndiv ROps (acos c) (vnorm ROps (rod_half_axis ROps m))) (rod_half_axis ROps m)).
  split; [|split; [|split]].
  - unfold rodrigues_inv. destruct Hm as (Ho & _). rewrite (Hp m Ho). unfold rodrigues_inv_of_proj, rod_inv_theta.
    rewrite Hic. change (nltb ROps) with Rltb. change (neqb ROps) with Reqb.
    rewrite (proj2 (Rltb_true _ _)) by exact Hs.
    rewrite (proj2 (Rltb_false _ _)) by (unfold n0; rops; lra).
    rewrite (proj2 (Reqb_false _ _)) by exact Hn. reflexivity.
  - apply norm_scaled; [lra | exact Hn].
  - rewrite norm_scaled by (try exact Hn; lra). exact Hth.
  - rewrite norm_scaled by (try exact Hn; lra). apply cos_acos. lra.
Qed.

(* ---- vector -> matrix -> vector inside the snapping zones ------------------------------------------------ *)
Lemma fwd_inv_s_c r : rod_eps ROps <= vnorm ROps r <= PI ->
  rod_inv_s ROps (rodrigues_fwd ROps r) = sin (vnorm ROps r) /\ rod_inv_c ROps (rodrigues_fwd ROps r) = cos (vnorm ROps r).
Proof.
  intros [He Hpi]. pose proof rod_eps_pos. rewrite fwd_generic by exact He.
  assert (Hk : vnorm2 ROps (rod_axis ROps r) = 1) by (apply rod_axis_unit; lra).
  split; [apply rod_inv_s_matrix; [exact Hk | apply sin_ge_0; lra] | apply rod_inv_c_matrix; [exact Hk | apply COS_bound]].
Qed.

Lemma inv_of_fwd_zero_zone proj r : proj_ok proj -> rod_eps ROps <= vnorm ROps r <= PI ->
  sin (vnorm ROps r) < rod_small ROps -> 0 < cos (vnorm ROps r) ->
  rodrigues_inv ROps proj (rodrigues_fwd ROps r) = Some (vzero ROps).
Proof.
  intros Hp Hr Hs Hc. destruct (fwd_inv_s_c r Hr) as [Es Ec].
  apply (inv_zero_zone proj _ Hp (fwd_proper r)); [rewrite Es; exact Hs | rewrite Ec; exact Hc].
Qed.

Lemma inv_of_fwd_halfturn_zone proj r : proj_ok proj -> rod_eps ROps <= vnorm ROps r <= PI ->
  sin (vnorm ROps r) < rod_small ROps -> cos (vnorm ROps r) <= 0 ->
  exists v, rodrigues_inv ROps proj (rodrigues_fwd ROps r) = Some v /\ vnorm ROps v = vnorm ROps r.
Proof.
  intros Hp Hr Hs Hc. destruct (fwd_inv_s_c r Hr) as [Es Ec]. pose proof rod_eps_pos.
  destruct (inv_halfturn_zone proj _ Hp (fwd_proper r)) as (v & Hv & Hn & _ & _); [rewrite Es; exact Hs | rewrite Ec; exact Hc |].
  exists v. split; [exact Hv|]. rewrite Hn.
  destruct (proper_facts _ (fwd_proper r)) as (_ & _ & _ & Hic). rewrite <- Hic, Ec. apply acos_cos. lra.
Qed.

(* ---- totality + length on SO(3) ------------------------------------------------------------------------------ *)
Lemma inv_defined_and_short proj m : proj_ok proj -> proper m ->
  exists v, rodrigues_inv ROps proj m = Some v /\ vnorm ROps v <= PI.
Proof.
  intros Hp Hm. destruct (inv_defined m Hm) as (v & Hv). exists v.
  unfold rodrigues_inv. destruct Hm as (Ho & _). rewrite (Hp m Ho). split; [exact Hv | exact (inv_norm_le_pi m v Hv)].
Qed.

(* ---- witnesses: rotations about x by an angle with rational cosine and sine ----------------------------------- *)
Lemma rot_x_facts c s : c * c + s * s = 1 -> 0 <= s ->
  proper (rot_x c s) /\ rod_inv_s ROps (rot_x c s) = s /\ rod_inv_c ROps (rot_x c s) = c.
Proof.
  intros Hcs Hs. assert (Hp : proper (rot_x c s)).
  { unfold rot_x. repeat split; try (apply M3_inj; munf; first [ring | lra]). munf; lra. }
  split; [exact Hp|]. split.
  - unfold rod_inv_s, rod_antisym, rot_x, rod_half, nfrac, vnorm, vnorm2, vdot; rops; cbn [vx vy vz a00 a01 a02 a10 a11 a12 a20 a21 a22].
    replace ((s - - s) * (s - - s) + (0 - 0) * (0 - 0) + (0 - 0) * (0 - 0)) with ((2 * s) * (2 * s)) by ring.
    rewrite sqrt_square by lra. field.
  - destruct (proper_facts _ Hp) as (_ & _ & _ & Hic). rewrite Hic. unfold trace3, rot_x; cbn [a00 a11 a22]. field.
Qed.

(* ---- the numeric step of the zero zone: sin t < 1e-5 forces t < 1.00002e-5 ------------------------------------- *)
Lemma sin_ge_cubic a : 0 <= a <= PI -> a - a * a * a / 6 <= sin a.
Proof.
  intros [H0 H1]. pose proof (sin_bound a 0 H0 H1) as [Hl _].
  unfold sin_approx, sin_term in Hl. cbn [sum_f_R0 Nat.mul Nat.add pow fact INR] in Hl.
  simpl in Hl. lra.
Qed.

(* sin t < 1e-5 and 0 < t < PI/2 force t < 1.1e-5 *)
Lemma small_sine_small_angle t e : 0 < t < PI / 2 -> 0 < e <= 1 / 10000 -> sin t < e -> t <= e * (1 + e).
Proof.
  intros [Ht0 Ht1] [He0 He1] Hs. pose proof PI_4 as Hpi.
  pose proof (sin_ge_cubic t ltac:(lra)) as Hc.
  assert (Ht2 : t < 2) by lra.
  (* first a crude bound: t^3/6 <= t * 4/6 *)
  assert (H3 : t <= 3 * e) by nra.
  (* then the sharp one *)
  assert (t * t <= 9 * e * e) by nra.
  nra.
Qed.

Lemma inv_of_fwd_zero_zone_full proj r : proj_ok proj -> 0 < vnorm ROps r < PI / 2 ->
  sin (vnorm ROps r) < rod_small ROps ->
  rodrigues_inv ROps proj (rodrigues_fwd ROps r) = Some (vzero ROps) /\
  vnorm ROps (vsub ROps (vzero ROps) r) <= rod_small ROps * (1 + rod_small ROps) /\
  rod_small ROps * (1 + rod_small ROps) < 25 / 1000000.
Proof.
  intros Hp [H0 H1] Hs. pose proof PI_RGT_0 as Hpi.
  assert (Hsm : 0 < rod_small ROps <= 1 / 10000) by (unfold rod_small, nfrac; rops; lra).
  split; [|split].
  - destruct (Rlt_le_dec (vnorm ROps r) (rod_eps ROps)) as [He|He].
    + rewrite fwd_small by exact He.
      apply (inv_zero_zone proj _ Hp proper_I3).
      * rewrite rod_inv_s_sym by reflexivity. lra.
      * destruct (proper_facts _ proper_I3) as (_ & _ & _ & Hic). rewrite Hic. unfold trace3; munf. lra.
    + apply inv_of_fwd_zero_zone; [exact Hp | lra | exact Hs | apply cos_gt_0; lra].
  - replace (vnorm ROps (vsub ROps (vzero ROps) r)) with (vnorm ROps r).
    + apply small_sine_small_angle; [lra | exact Hsm | exact Hs].
    + unfold vnorm. f_equal. destruct r; vunf. ring.
  - unfold rod_small, nfrac; rops. lra.
Qed.

(* ---- the literal round trip fails next to pi: the first component of the returned vector is never negative ---------- *)
Lemma inv_halfturn_zone_first_nonneg proj m : proj_ok proj -> proper m ->
  rod_inv_s ROps m < rod_small ROps -> rod_inv_c ROps m <= 0 ->
  exists v, rodrigues_inv ROps proj m = Some v /\ 0 <= vx v.
Proof.
  intros Hp Hm Hs Hc. destruct (proper_facts m Hm) as (Hs0 & Hcs & Hcb & Hic).
  rewrite Hic in Hc. set (c := (trace3 m - 1) * / 2) in *.
  pose proof (acos_nonpos_ge c ltac:(lra)) as Hth. pose proof PI_RGT_0 as Hpi.
  assert (Hn : vnorm ROps (rod_half_axis ROps m) <> 0).
  { intros E. pose proof (half_axis_norm2_ge m) as Hq. rewrite <- vnorm_sq, E in Hq. fold c in Hcb. unfold c in Hcb. lra. }
  pose proof (vnorm_nonneg (rod_half_axis ROps m)) as Hn0.
  exists (vscale ROps (ndiv ROps (acos c) (vnorm ROps (rod_half_axis ROps m))) (rod_half_axis ROps m)).
  split.
  - unfold rodrigues_inv. destruct Hm as (Ho & _). rewrite (Hp m Ho). unfold rodrigues_inv_of_proj, rod_inv_theta.
    rewrite Hic. change (nltb ROps) with Rltb. change (neqb ROps) with Reqb.
    rewrite (proj2 (Rltb_true _ _)) by exact Hs.
    rewrite (proj2 (Rltb_false _ _)) by (unfold n0; rops; lra).
    rewrite (proj2 (Reqb_false _ _)) by exact Hn. reflexivity.
  - set (n := vnorm ROps (rod_half_axis ROps m)) in *. clearbody n.
    unfold vscale. cbn [vx]. change (ndiv ROps (acos c) n) with (acos c / n). change (nmul ROps) with Rmult.
    apply Rmult_le_pos.
    + apply Rmult_le_pos; [lra | left; apply Rinv_0_lt_compat; lra].
    + unfold rod_half_axis. cbn [vx]. unfold rod_diag_root. change (nsqrt ROps) with sqrt. apply sqrt_pos.
Qed.

Lemma vnorm_neg_x t : 0 <= t -> vnorm ROps (V3 (- t) 0 0) = t.
Proof.
  intros Ht. unfold vnorm, vnorm2, vdot; rops; cbn [vx vy vz].
  replace (- t * - t + 0 * 0 + 0 * 0) with (t * t) by ring. apply sqrt_square, Ht.
Qed.

(* witness: r = (-(pi - 1e-5/2), 0, 0) *)
Lemma inv_of_fwd_halfturn_zone_refuted :
  exists r : vec3 R, 0 < vnorm ROps r < PI /\ PI - rod_small ROps < vnorm ROps r /\
    forall proj, proj_ok proj -> exists v, rodrigues_inv ROps proj (rodrigues_fwd ROps r) = Some v /\ v <> r.
Proof.
  pose proof rod_small_pos as Hsm. pose proof rod_small_lt_1 as Hs1. pose proof PI2_1 as Hpi. pose proof rod_eps_lt_small as He.
  pose proof rod_eps_pos as He0.
  set (d := rod_small ROps / 2). set (t := PI - d).
  assert (Ht : 0 < t < PI) by (subst t d; lra).
  exists (V3 (- t) 0 0). rewrite vnorm_neg_x by lra. split; [exact Ht|]. split; [subst t d; lra|].
  intros proj Hp.
  assert (Hr : rod_eps ROps <= vnorm ROps (V3 (- t) 0 0) <= PI) by (rewrite vnorm_neg_x by lra; subst t d; lra).
  destruct (fwd_inv_s_c _ Hr) as [Es Ec]. rewrite vnorm_neg_x in Es, Ec by lra.
  assert (Hsin : sin t < rod_small ROps).
  { subst t. rewrite sin_PI_x. pose proof (sin_lt_x d ltac:(subst d; lra)). subst d. lra. }
  assert (Hcos : cos t <= 0).
  { subst t. rewrite cos_minus, cos_PI, sin_PI. assert (0 < cos d) by (apply cos_gt_0; subst d; lra). lra. }
  destruct (inv_halfturn_zone_first_nonneg proj _ Hp (fwd_proper (V3 (- t) 0 0))) as (v & Hv & Hvx);
    [rewrite Es; exact Hsin | rewrite Ec; exact Hcos |].
  exists v. split; [exact Hv|]. intros E. rewrite E in Hvx. cbn [vx] in Hvx. lra.
Qed.
