(* Real-number lemmas for M_rodrigues.v (C10): the two Jacobians. *)
From Coq Require Import ZArith Reals Lra Psatz List Bool Lia Nsatz.
From PW Require Import Num NumR Vec Mat NpList Result.
From PW.model Require Import M_rodrigues M_rodrigues_spec.
From PW.proofs Require Import P_vec P_mat P_rodrigues P_rodrigues_inv.
Import ListNotations.
Local Open Scope R_scope.

Ltac junf :=
  lazy [jac_compose jcol ldot lmatmul_cols lcols3 lcols4 lcols5 row_T33 rod_inv_jac_generic rod_inv_jac_identity zeros93
       repeat map map2 zip fst snd nsum fold_left List.nth m3list
       rod_jac_row rod_drrt rod_dskew m3add m3scale m3outer m3skew rod_m1 rod_half nfrac vget vscale I3
       n0 n1 n2 a00 a01 a02 a10 a11 a12 a20 a21 a22 vx vy vz];
  rops.

Lemma cons_eq' {A} (a b : A) (l l' : list A) : a = b -> l = l' -> a :: l = b :: l'.
Proof. intros; subst; reflexivity. Qed.

(* the algebraic heart: for abstract theta, c, s, unit k *)
Lemma jac_compose_abstract th c s x y z :
  c * c + s * s = 1 -> x * x + y * y + z * z = 1 -> th <> 0 -> s <> 0 ->
  jac_compose [rod_jac_row ROps c s (1 / th) (V3 x y z) 0; rod_jac_row ROps c s (1 / th) (V3 x y z) 1;
               rod_jac_row ROps c s (1 / th) (V3 x y z) 2]
              (rod_inv_jac_generic ROps s c th (vscale ROps (2 * s) (V3 x y z))) = I33.
Proof.
  intros Hcs Hk Ht Hs.
  assert (Hit : th * / th = 1) by (field; exact Ht).
  assert (His : s * / s = 1) by (field; exact Hs).
  assert (Hh : 2 * / 2 = 1) by field.
  junf. unfold I33, Rdiv. rewrite !Rinv_mult.
  set (it := / th) in *. set (is := / s) in *. set (h := / 2) in *. clearbody it is h.
  repeat (apply cons_eq'; [repeat (apply cons_eq'; [ | ]); try reflexivity | ]); try reflexivity.
  all: nsatz.
Qed.
