(* C02: dtypes of the arrays the public wrapper returns. *)
From Coq Require Import ZArith Reals List Bool Arith.
From PW Require Import Num NumR Vec NpList Result.
From PW.model Require Import M_slicing M_slicing_spec.
From PW.proofs Require Import P_slicing_mesh P_slicing_public.
Import ListNotations.

(* with the conversion line every return path passes the assertions with float64 / int64 / int64 *)
Lemma wrapper_dtypes_ok vdt fdt p : wrapper_dtypes true true vdt fdt p = Ok (MkDt VF64 I64 I64).
Proof. destruct p; reflexivity. Qed.

(* the path model follows the value model: it returns whenever the call does *)
Lemma path_of_ok tol eps vs fs n o fi r : slice_faces_plane ROps tol eps vs fs n o fi = Ok r ->
  exists p, slice_faces_plane_path ROps tol vs fs n o fi = Ok p.
Proof.
  unfold slice_faces_plane, slice_faces_plane_path. destruct (length vs =? 0)%nat; [intros _; eexists; reflexivity|].
  destruct (mask_of (length fs) fi) as [mask|e]; cbn [rbind]; [|discriminate].
  destruct (resolve vs _ _ fs mask) as [fds|]; [|discriminate]. intros _. eexists; reflexivity.
Qed.

(* whatever dtype the vertex array has (float64, float32, float16, integer): if the call returns, it returns float64 vertices,
   int64 faces and an int64 face mapping *)
Theorem public_dtypes vdt fdt vs fs ref n mask r :
  slice_triangles_by_plane ROps vs fs ref n mask = Ok r ->
  slice_triangles_by_plane_dtypes ROps vdt fdt vs fs ref n mask = Ok (MkDt VF64 I64 I64).
Proof.
  intros H. unfold slice_triangles_by_plane_dtypes. destruct (path_of_ok _ _ _ _ _ _ _ _ H) as [p ->]. cbn [rbind].
  apply wrapper_dtypes_ok.
Qed.
(* ... and on the domain it does return *)
Theorem public_dtypes_total vdt fdt vs fs ref n mask :
  (forall f, In f fs -> face_valid (length vs) f) -> mask_ok (length fs) mask ->
  slice_triangles_by_plane_dtypes ROps vdt fdt vs fs ref n mask = Ok (MkDt VF64 I64 I64).
Proof. intros Hf Hm. destruct (slice_total vs fs ref n mask Hf Hm) as [r Hr]. exact (public_dtypes vdt fdt _ _ _ _ _ _ Hr). Qed.

(* what the conversion line is for: without it a float32 array comes back as float32 from the zero-vertex and the nothing-cut
   returns, and the wrapper's own assertion fails; the cut and nothing-kept returns are float64 anyway *)
Lemma dtypes_without_conversion :
  wrapper_dtypes false true VF32 I64 PKeptOnly = Raise AssertionError /\
  wrapper_dtypes false true VF32 I64 PZeroVerts = Raise AssertionError /\
  wrapper_dtypes false true VF32 I64 PCut = Ok (MkDt VF64 I64 I64) /\ wrapper_dtypes false true VF32 I64 PEmpty = Ok (MkDt VF64 I64 I64) /\
  (* unsigned faces without the faces conversion: rejected by the bin counting on the nothing-cut return, uint64 also when cut *)
  wrapper_dtypes true false VF64 U32 PKeptOnly = Raise ValueError /\ wrapper_dtypes true false VF64 U32 PCut = Ok (MkDt VF64 I64 I64) /\
  wrapper_dtypes true false VF64 U64 PCut = Raise ValueError /\ wrapper_dtypes true false VF64 U64 PEmpty = Ok (MkDt VF64 I64 I64) /\
  wrapper_dtypes true false VF64 I32 PKeptOnly = Ok (MkDt VF64 I64 I64).
Proof. repeat split. Qed.
