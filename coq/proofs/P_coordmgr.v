(* Real-number lemmas for M_coordmgr.v (C04): conversions between tagged frames, over all histories. *)
From Coq Require Import ZArith Reals Lra Psatz List Bool Lia String.
From PW Require Import Num NumR Vec Mat NpList Result.
From PW.model Require Import M_rodrigues M_affine M_rotation M_composite M_coordmgr.
From PW.model Require Export M_affine_spec M_composite_spec M_coordmgr_spec.
From PW.proofs Require Import P_vec P_mat P_nplist P_affine P_rotation P_composite.
Import ListNotations.
Local Open Scope R_scope.

Section WithAttrs.
  Context (attrs : list string) (pa : string).



(* ---------------- invariant over all histories ---------------- *)
Lemma cm_step_tr st o : exists added, cm_tr (fst (cm_step ROps attrs pa st o)) = cm_tr st ++ added.
Proof.
  destruct o as [t|n|n p|n|p a b]; cbn [cm_step].
  - destruct (step ROps (cm_tr st) t) as [[tr' i]|e] eqn:E; cbn [fst cm_tr].
    + destruct (step_spec _ _ _ _ E) as (_ & fr & _ & ->). exists [fr]. reflexivity.
    + exists []. symmetry; apply app_nil_r.
  - exists []. symmetry; apply app_nil_r.
  - destruct (tag_lookup n (cm_tags st)); exists []; symmetry; apply app_nil_r.
  - destruct (attr_shadowed attrs n); [exists []; symmetry; apply app_nil_r|]. destruct (cm_points st) as [[tg p]|]; exists []; symmetry; apply app_nil_r.
  - exists []. symmetry; apply app_nil_r.
Qed.
Lemma Forall_le_app (tags : list (string * nat)) (l added : cstate (F:=R)) :
  Forall (fun ni => (snd ni <= List.length l)%nat) tags ->
  Forall (fun ni => (snd ni <= List.length (l ++ added))%nat) tags.
Proof. intros H. eapply Forall_impl; [|exact H]. cbn. intros a Ha. rewrite app_length. lia. Qed.
Lemma cm_step_Inv st o : cm_op_ok o -> cm_Inv st -> cm_Inv (fst (cm_step ROps attrs pa st o)).
Proof.
  intros Ho [Hi Ht]. destruct o as [t|n|n p|n|p a b]; cbn [cm_step cm_op_ok] in *.
  - destruct (step ROps (cm_tr st) t) as [[tr' i]|e] eqn:E; cbn [fst]; [|split; assumption].
    pose proof (step_ok_state _ _ _ _ E) as Es. split; cbn [cm_tr cm_tags].
    + rewrite <- Es. apply step_state_Inv; assumption.
    + destruct (step_spec _ _ _ _ E) as (_ & fr & _ & ->). apply Forall_le_app, Ht.
  - split; cbn [cm_tr cm_tags fst]; [exact Hi|]. constructor; [cbn; lia | exact Ht].
  - destruct (tag_lookup n (cm_tags st)); cbn [fst]; split; assumption.
  - destruct (attr_shadowed attrs n); [split; assumption|]. destruct (cm_points st) as [[tg q]|]; cbn [fst]; split; assumption.
  - split; assumption.
Qed.
Lemma cm_final_Inv ops : forall st, Forall cm_op_ok ops -> cm_Inv st -> cm_Inv (cm_final ROps attrs pa ops st).
Proof.
  induction ops as [|o ops IH]; intros st Ho Hs; cbn [cm_final fold_left]; [exact Hs|].
  inversion Ho; subst. apply IH; [assumption | apply cm_step_Inv; assumption].
Qed.
Lemma cm_Inv_reachable ops : Forall cm_op_ok ops -> cm_Inv (cm_final ROps attrs pa ops (cm_init (F:=R))).
Proof. intros H. apply cm_final_Inv; [exact H|]. split; constructor. Qed.
Lemma tag_lookup_bound st n i : cm_Inv st -> tag_lookup n (cm_tags st) = Some i -> (i <= List.length (cm_tr st))%nat.
Proof.
  intros [_ Ht]. induction Ht as [|[m k] l Hk _ IH]; cbn [tag_lookup]; [discriminate|].
  destruct (String.eqb m n); [intros H; injection H as <-; exact Hk | exact IH].
Qed.


Lemma convert_spec tr i j pts : Inv tr -> (i <= List.length tr)%nat -> (j <= List.length tr)%nat ->
  convert ROps tr i j pts =
  if Nat.eqb i j then pts
  else if Nat.ltb i j
       then map (fun p => fold_left (fun q fr => mapply_pt ROps (fst fr) q) (slice tr i j) p) pts
       else map (fun p => fold_left (fun q fr => mapply_pt ROps (snd fr) q) (rev (slice tr j i)) p) pts.
Proof.
  intros Hi Hli Hlj. unfold convert. destruct (Nat.eqb_spec i j); [reflexivity|].
  destruct (Nat.ltb_spec i j); apply map_ext; intros p.
  - rewrite call_is_sequential by exact Hi. cbn [selected]. rewrite pyslice_in_range by lia. reflexivity.
  - rewrite call_reverse_is_sequential by exact Hi. cbn [selected]. rewrite pyslice_in_range by lia. reflexivity.
Qed.

(* prefix products: every conversion is  P(j) . Q(i)  *)
Definition prefP (tr : cstate (F:=R)) (i : nat) : mat4 R := cprod (map fst (firstn i tr)).
Definition prefQ (tr : cstate (F:=R)) (i : nat) : mat4 R := cprod (map snd (rev (firstn i tr))).

Lemma firstn_split {A} (l : list A) : forall i j, (i <= j)%nat ->
  firstn j l = firstn i l ++ firstn (j - i) (skipn i l).
Proof.
  induction l as [|x l IH]; intros i j H.
  - rewrite !firstn_nil, skipn_nil, firstn_nil. reflexivity.
  - destruct i; [cbn [firstn skipn app]; rewrite Nat.sub_0_r; reflexivity|].
    destruct j; [lia|]. cbn [firstn skipn app Nat.sub]. f_equal. apply IH. lia.
Qed.
Lemma prefPQ tr i : Inv tr -> inverse_pair (prefP tr i) (prefQ tr i).
Proof. intros H. apply sel_inverse, Forall_firstn, H. Qed.
Lemma prefP_affine tr i : Inv tr -> affine ROps (prefP tr i).
Proof. intros H. apply cprod_affine, Inv_affine_fst, Forall_firstn, H. Qed.
Lemma prefQ_affine tr i : Inv tr -> affine ROps (prefQ tr i).
Proof. intros H. apply cprod_affine, Inv_affine_snd_rev, Forall_firstn, H. Qed.
Lemma prefP_split tr i j : (i <= j)%nat -> prefP tr j = mmul ROps (cprod (map fst (slice tr i j))) (prefP tr i).
Proof. intros H. unfold prefP, slice. rewrite (firstn_split tr i j H), map_app, cprod_app. reflexivity. Qed.
Lemma prefQ_split tr i j : (i <= j)%nat -> prefQ tr j = mmul ROps (prefQ tr i) (cprod (map snd (rev (slice tr i j)))).
Proof. intros H. unfold prefQ, slice. rewrite (firstn_split tr i j H), rev_app_distr, map_app, cprod_app. reflexivity. Qed.

Lemma convert_matrix tr i j pts : Inv tr -> (i <= List.length tr)%nat -> (j <= List.length tr)%nat ->
  convert ROps tr i j pts = map (mapply_pt ROps (mmul ROps (prefP tr j) (prefQ tr i))) pts.
Proof.
  intros Hi Hli Hlj. destruct (prefPQ tr i Hi) as [Hqp Hpq]. unfold convert.
  destruct (Nat.eqb_spec i j) as [<-|Hne].
  - rewrite Hpq. symmetry. erewrite map_ext; [apply map_id|]. intros p. apply mapply_pt_I4.
  - destruct (Nat.ltb_spec i j); apply map_ext; intros p; unfold call_point; rewrite apply_point_pt; f_equal.
    + rewrite tmf_forward. cbn [selected]. rewrite pyslice_in_range by lia. fold (slice tr i j).
      rewrite (prefP_split tr i j) by lia. rewrite mmul_assoc, Hpq, mmul_I4_r. reflexivity.
    + rewrite tmf_reverse. cbn [selected]. rewrite pyslice_in_range by lia. fold (slice tr j i).
      rewrite (prefQ_split tr j i) by lia. destruct (prefPQ tr j Hi) as [_ Hpq'].
      rewrite <- mmul_assoc, Hpq', mmul_I4_l. reflexivity.
Qed.

(* A -> B -> C equals A -> C, for every order of the three positions; round trips return the original points *)
Lemma path_independent tr i j k pts : Inv tr ->
  (i <= List.length tr)%nat -> (j <= List.length tr)%nat -> (k <= List.length tr)%nat ->
  convert ROps tr j k (convert ROps tr i j pts) = convert ROps tr i k pts.
Proof.
  intros Hi Hli Hlj Hlk. rewrite !convert_matrix by assumption. rewrite map_map. apply map_ext. intros p.
  rewrite <- mapply_pt_mmul by (apply affine_mmul; [apply prefP_affine | apply prefQ_affine]; exact Hi).
  f_equal. destruct (prefPQ tr j Hi) as [Hqp _].
  rewrite mmul_assoc, <- (mmul_assoc (prefQ tr j)), Hqp, mmul_I4_l. reflexivity.
Qed.
Lemma convert_same tr i pts : convert ROps tr i i pts = pts.
Proof. unfold convert. rewrite Nat.eqb_refl. reflexivity. Qed.
Lemma round_trip tr i j pts : Inv tr -> (i <= List.length tr)%nat -> (j <= List.length tr)%nat ->
  convert ROps tr j i (convert ROps tr i j pts) = pts.
Proof. intros Hi Hli Hlj. rewrite path_independent by assumption. apply convert_same. Qed.

(* ---------------- later appends and new tag names do not change existing conversions ---------------- *)
Lemma selected_app_in_range (tr added : cstate (F:=R)) a b : (a <= b <= List.length tr)%nat ->
  selected (tr ++ added) (Some (Z.of_nat a, Z.of_nat b)) = selected tr (Some (Z.of_nat a, Z.of_nat b)).
Proof.
  intros H. cbn [selected]. rewrite !pyslice_in_range by (rewrite ?app_length; lia).
  rewrite skipn_app, firstn_app. replace (b - a - List.length (skipn a tr))%nat with 0%nat by (rewrite skipn_length; lia).
  cbn [firstn]. apply app_nil_r.
Qed.
Lemma call_point_app_in_range tr added a b rv w p : (a <= b <= List.length tr)%nat ->
  call_point ROps (tr ++ added) (Some (Z.of_nat a, Z.of_nat b)) rv w p =
  call_point ROps tr (Some (Z.of_nat a, Z.of_nat b)) rv w p.
Proof.
  intros H. unfold call_point, transform_matrix_for, selected_matrices. rewrite selected_app_in_range by exact H. reflexivity.
Qed.
Lemma convert_app tr added i j pts : (i <= List.length tr)%nat -> (j <= List.length tr)%nat ->
  convert ROps (tr ++ added) i j pts = convert ROps tr i j pts.
Proof.
  intros Hli Hlj. unfold convert. destruct (Nat.eqb_spec i j); [reflexivity|].
  destruct (Nat.ltb_spec i j); apply map_ext; intros p; apply call_point_app_in_range; lia.
Qed.
Lemma tag_lookup_other n m i tags : n <> m -> tag_lookup m ((n, i) :: tags) = tag_lookup m tags.
Proof. intros H. cbn [tag_lookup]. destruct (String.eqb_spec n m); [contradiction | reflexivity]. Qed.
Lemma tag_lookup_same n i tags : tag_lookup n ((n, i) :: tags) = Some i.
Proof. cbn [tag_lookup]. rewrite String.eqb_refl. reflexivity. Qed.

Lemma cm_step_lookup st o a : not_retag a o ->
  tag_lookup a (cm_tags (fst (cm_step ROps attrs pa st o))) = tag_lookup a (cm_tags st).
Proof.
  destruct o as [t|n|n p|n|p x y]; cbn [cm_step not_retag]; intros H.
  - destruct (step ROps (cm_tr st) t) as [[tr' i]|e]; reflexivity.
  - cbn [fst cm_tags]. apply tag_lookup_other, H.
  - destruct (tag_lookup n (cm_tags st)); reflexivity.
  - destruct (attr_shadowed attrs n); [reflexivity|]. destruct (cm_points st) as [[tg q]|]; reflexivity.
  - reflexivity.
Qed.
Lemma do_transform_preserved_step st o pts a b : cm_Inv st -> not_retag a o -> not_retag b o ->
  (exists r, do_transform ROps st pts a b = Ok r) ->
  do_transform ROps (fst (cm_step ROps attrs pa st o)) pts a b = do_transform ROps st pts a b.
Proof.
  intros Hinv Ha Hb (r & Hr). unfold do_transform in *. rewrite !cm_step_lookup by assumption.
  destruct (tag_lookup a (cm_tags st)) as [i|] eqn:Ei; [|discriminate].
  destruct (tag_lookup b (cm_tags st)) as [j|] eqn:Ej; [|discriminate].
  destruct (cm_step_tr st o) as (added & ->). f_equal.
  apply convert_app; eapply tag_lookup_bound; eassumption.
Qed.
Lemma do_transform_preserved ops : forall st pts a b, Forall cm_op_ok ops -> cm_Inv st ->
  Forall (not_retag a) ops -> Forall (not_retag b) ops ->
  (exists r, do_transform ROps st pts a b = Ok r) ->
  do_transform ROps (cm_final ROps attrs pa ops st) pts a b = do_transform ROps st pts a b.
Proof.
  induction ops as [|o ops IH]; intros st pts a b Hok Hinv Ha Hb Hr; cbn [cm_final fold_left]; [reflexivity|].
  inversion Hok; subst. inversion Ha; subst. inversion Hb; subst.
  pose proof (do_transform_preserved_step st o pts a b Hinv H3 H5 Hr) as E.
  fold (cm_final ROps attrs pa ops (fst (cm_step ROps attrs pa st o))). rewrite IH; try assumption.
  - apply cm_step_Inv; assumption.
  - rewrite E. exact Hr.
Qed.

(* ---------------- the three refusals ---------------- *)
Lemma set_unknown_tag st n pts : tag_lookup n (cm_tags st) = None ->
  cm_step ROps attrs pa st (CSetAttr n pts) = (st, Raise AttributeError).
Proof. intros H. cbn [cm_step]. rewrite H. reflexivity. Qed.
Lemma do_transform_unknown_tag st pts a b :
  tag_lookup a (cm_tags st) = None \/ tag_lookup b (cm_tags st) = None ->
  cm_step ROps attrs pa st (CDoTransform pts a b) = (st, Raise KeyError).
Proof.
  intros H. cbn [cm_step]. unfold do_transform. destruct (tag_lookup a (cm_tags st)); [|reflexivity].
  destruct (tag_lookup b (cm_tags st)); [|reflexivity]. destruct H; discriminate.
Qed.
Lemma get_before_set st n : attr_shadowed attrs n = false -> cm_points st = None ->
  cm_step ROps attrs pa st (CGetAttr n) = (st, Raise ValueError).
Proof. intros Hs H. cbn [cm_step]. rewrite Hs, H. reflexivity. Qed.
(* reading through an attribute = do_transform from the tag the points were assigned at *)
Lemma get_is_do_transform st tag pts n : attr_shadowed attrs n = false -> cm_points st = Some (tag, pts) ->
  cm_step ROps attrs pa st (CGetAttr n) = cm_step ROps attrs pa st (CDoTransform pts tag n).
Proof. intros Hs H. cbn [cm_step]. rewrite Hs, H. reflexivity. Qed.
(* a tag named like an attribute of the class: the attribute read does not convert *)
Lemma get_shadowed_refuted : attr_shadowed attrs "flip"%string = true -> pa <> "flip"%string ->
  exists (st : cm_state (F:=R)) tag pts,
  cm_points st = Some (tag, pts) /\ tag_lookup "flip"%string (cm_tags st) <> None /\
  snd (cm_step ROps attrs pa st (CGetAttr "flip"%string)) <> snd (cm_step ROps attrs pa st (CDoTransform pts tag "flip"%string)).
Proof.
  intros Hs Hpa.
  exists (MkCM [("flip"%string, 1%nat); ("a"%string, 0%nat)] (Some ("a"%string, [V3 1 2 3])) [tm_translation ROps (V3 1 0 0)]),
    "a"%string, [V3 1 2 3].
  split; [reflexivity|]. split; [cbn; discriminate|]. cbn [cm_step snd]. rewrite Hs.
  destruct (String.eqb_spec "flip"%string pa) as [E|E]; [exfalso; apply Hpa; symmetry; exact E|].
  cbn. discriminate.
Qed.
Lemma set_known_tag st n i pts : tag_lookup n (cm_tags st) = Some i ->
  cm_step ROps attrs pa st (CSetAttr n pts) = (MkCM (cm_tags st) (Some (n, pts)) (cm_tr st), Ok OutNone).
Proof. intros H. cbn [cm_step]. rewrite H. reflexivity. Qed.
Lemma do_transform_known st pts a b i j : tag_lookup a (cm_tags st) = Some i -> tag_lookup b (cm_tags st) = Some j ->
  do_transform ROps st pts a b = Ok (convert ROps (cm_tr st) i j pts).
Proof. intros Ha Hb. unfold do_transform. rewrite Ha, Hb. reflexivity. Qed.
Lemma tag_as_records_length st n :
  tag_lookup n (cm_tags (fst (cm_step ROps attrs pa st (CTagAs n)))) = Some (List.length (cm_tr st)) /\
  cm_tr (fst (cm_step ROps attrs pa st (CTagAs n))) = cm_tr st.
Proof. cbn [cm_step fst cm_tags cm_tr]. split; [apply tag_lookup_same | reflexivity]. Qed.

(* ---------------- the same at the level of tag names ---------------- *)
Lemma do_transform_path_independent st pts a b c q : cm_Inv st ->
  do_transform ROps st pts a b = Ok q -> do_transform ROps st q b c = do_transform ROps st pts a c.
Proof.
  intros Hinv. unfold do_transform.
  destruct (tag_lookup a (cm_tags st)) as [i|] eqn:Ea; [|discriminate].
  destruct (tag_lookup b (cm_tags st)) as [j|] eqn:Eb; [|discriminate].
  intros H. injection H as <-. destruct (tag_lookup c (cm_tags st)) as [k|] eqn:Ec; [|reflexivity].
  f_equal. apply path_independent; [apply Hinv | eapply tag_lookup_bound; eassumption ..].
Qed.
Lemma do_transform_round_trip st pts a b q : cm_Inv st ->
  do_transform ROps st pts a b = Ok q -> do_transform ROps st q b a = Ok pts.
Proof.
  intros Hinv H. rewrite (do_transform_path_independent st pts a b a q Hinv H).
  unfold do_transform in *. destruct (tag_lookup a (cm_tags st)) as [i|]; [|discriminate].
  rewrite convert_same. reflexivity.
Qed.

End WithAttrs.
