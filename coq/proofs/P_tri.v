(* Real-number lemmas for M_tri.v (C15). *)
From Coq Require Import ZArith Reals Lra Psatz List Bool Lia Nsatz.
From PW Require Import Num NumR Vec NpList Result.
From PW.model Require Import M_tri M_tri_spec.
From PW.proofs Require Import P_vec P_nplist.
Import ListNotations.
Local Open Scope R_scope.

Ltac tunf :=
  unfold surface_normal_raw, surface_area, tri_cross, same_side_value, bary, bary_combine, spacing1, nfrac;
  cbn [ta tb tc]; vunf.


(* ---- normals and areas --------------------------------------------------------------------- *)
Lemma normal_raw_is_cross t :
  surface_normal_raw ROps t = vcross ROps (vsub ROps (tb t) (ta t)) (vsub ROps (tc t) (ta t)).
Proof. reflexivity. Qed.

Lemma vnorm_zero_iff n : vnorm ROps n = 0 <-> n = V3 0 0 0.
Proof.
  split; intros H.
  - apply vnorm2_zero. rewrite <- vnorm_sq, H. ring.
  - subst n. unfold vnorm, vnorm2, vdot; cbn [vx vy vz]; rops.
    replace (0 * 0 + 0 * 0 + 0 * 0) with 0 by ring. apply sqrt_0.
Qed.

Lemma normal_unit_is_normalized_cross t : nondegenerate t ->
  surface_normal_unit ROps t = Some (vnormalize ROps (tri_cross ROps t)) /\
  vnorm2 ROps (vnormalize ROps (tri_cross ROps t)) = 1 /\
  vscale ROps (vnorm ROps (tri_cross ROps t)) (vnormalize ROps (tri_cross ROps t)) = tri_cross ROps t.
Proof.
  intros H. unfold nondegenerate in H. split; [|split; [apply vnormalize_unit, H | apply vnormalize_scale, H]].
  unfold surface_normal_unit, n0; rops. destruct (Reqb_spec (vnorm ROps (tri_cross ROps t)) 0) as [E|E].
  - apply vnorm_zero_iff in E. contradiction.
  - reflexivity.
Qed.
Lemma normal_unit_degenerate t : ~ nondegenerate t -> surface_normal_unit ROps t = None.
Proof.
  intros H. unfold surface_normal_unit, n0; rops.
  destruct (Reqb_spec (vnorm ROps (tri_cross ROps t)) 0) as [E|E]; [reflexivity|].
  exfalso; apply H. intros Hz. apply E, vnorm_zero_iff, Hz.
Qed.

Lemma area_is_half_norm t : surface_area ROps t = / 2 * vnorm ROps (tri_cross ROps t).
Proof. unfold surface_area, nfrac, vnorm; rops. field. Qed.
Lemma area_nonneg t : 0 <= surface_area ROps t.
Proof. rewrite area_is_half_norm. pose proof (vnorm_nonneg (tri_cross ROps t)). lra. Qed.
Lemma area_zero_iff_degenerate t : surface_area ROps t = 0 <-> ~ nondegenerate t.
Proof.
  rewrite area_is_half_norm. unfold nondegenerate. split.
  - intros H Hn. apply Hn, vnorm_zero_iff. lra.
  - intros H. destruct (Req_dec (vnorm ROps (tri_cross ROps t)) 0) as [E|E]; [rewrite E; ring|].
    exfalso; apply H. intros Hz. apply E, vnorm_zero_iff, Hz.
Qed.

(* the three invariances on the cross product; normals and areas are functions of it *)
Lemma cross_cyclic a b c : tri_cross ROps (Tri b c a) = tri_cross ROps (Tri a b c).
Proof. destruct a, b, c. tunf. apply V3_ext; ring. Qed.
Lemma cross_translate d t : tri_cross ROps (tri_translate d t) = tri_cross ROps t.
Proof. destruct t as [[] [] []], d. unfold tri_translate. tunf. apply V3_ext; ring. Qed.
Lemma cross_swap_bc a b c : tri_cross ROps (Tri a c b) = vneg ROps (tri_cross ROps (Tri a b c)).
Proof. destruct a, b, c. tunf. apply V3_ext; ring. Qed.
Lemma cross_swap_ab a b c : tri_cross ROps (Tri b a c) = vneg ROps (tri_cross ROps (Tri a b c)).
Proof. destruct a, b, c. tunf. apply V3_ext; ring. Qed.
Lemma cross_swap_ac a b c : tri_cross ROps (Tri c b a) = vneg ROps (tri_cross ROps (Tri a b c)).
Proof. destruct a, b, c. tunf. apply V3_ext; ring. Qed.

Lemma normal_unit_of_cross t t' : tri_cross ROps t' = tri_cross ROps t ->
  surface_normal_unit ROps t' = surface_normal_unit ROps t /\ surface_area ROps t' = surface_area ROps t /\
  surface_normal_raw ROps t' = surface_normal_raw ROps t.
Proof. intros H. unfold surface_normal_unit, surface_area, surface_normal_raw. rewrite H. auto. Qed.

Lemma vnorm_neg n : vnorm ROps (vneg ROps n) = vnorm ROps n.
Proof. destruct n. unfold vnorm. f_equal. vunf. ring. Qed.
Lemma normal_unit_of_neg_cross t t' : tri_cross ROps t' = vneg ROps (tri_cross ROps t) ->
  surface_normal_unit ROps t' = oneg (surface_normal_unit ROps t) /\ surface_area ROps t' = surface_area ROps t /\
  surface_normal_raw ROps t' = vneg ROps (surface_normal_raw ROps t).
Proof.
  intros H. unfold surface_normal_unit, surface_area, surface_normal_raw. rewrite H, vnorm_neg.
  split; [|split; [|reflexivity]].
  - unfold n0; rops. destruct (Reqb (vnorm ROps (tri_cross ROps t)) 0); [reflexivity|]. cbn [oneg option_map]. f_equal.
    destruct (tri_cross ROps t). generalize (vnorm ROps (V3 vx vy vz)). intros n. vunf. apply V3_ext; unfold Rdiv; ring.
  - f_equal. f_equal. destruct (tri_cross ROps t). vunf. ring.
Qed.

Lemma cyclic_invariant a b c :
  surface_normal_unit ROps (Tri b c a) = surface_normal_unit ROps (Tri a b c) /\
  surface_area ROps (Tri b c a) = surface_area ROps (Tri a b c) /\
  surface_normal_raw ROps (Tri b c a) = surface_normal_raw ROps (Tri a b c).
Proof. apply normal_unit_of_cross, cross_cyclic. Qed.
Lemma translation_invariant d t :
  surface_normal_unit ROps (tri_translate d t) = surface_normal_unit ROps t /\
  surface_area ROps (tri_translate d t) = surface_area ROps t /\
  surface_normal_raw ROps (tri_translate d t) = surface_normal_raw ROps t.
Proof. apply normal_unit_of_cross, cross_translate. Qed.
Lemma swap_negates a b c :
  (surface_normal_unit ROps (Tri a c b) = oneg (surface_normal_unit ROps (Tri a b c)) /\
   surface_area ROps (Tri a c b) = surface_area ROps (Tri a b c) /\
   surface_normal_raw ROps (Tri a c b) = vneg ROps (surface_normal_raw ROps (Tri a b c))) /\
  (surface_normal_unit ROps (Tri b a c) = oneg (surface_normal_unit ROps (Tri a b c)) /\
   surface_area ROps (Tri b a c) = surface_area ROps (Tri a b c) /\
   surface_normal_raw ROps (Tri b a c) = vneg ROps (surface_normal_raw ROps (Tri a b c))) /\
  (surface_normal_unit ROps (Tri c b a) = oneg (surface_normal_unit ROps (Tri a b c)) /\
   surface_area ROps (Tri c b a) = surface_area ROps (Tri a b c) /\
   surface_normal_raw ROps (Tri c b a) = vneg ROps (surface_normal_raw ROps (Tri a b c))).
Proof.
  split; [|split]; apply normal_unit_of_neg_cross; [apply cross_swap_bc|apply cross_swap_ab|apply cross_swap_ac].
Qed.

(* ---- barycentric weights ------------------------------------------------------------------------ *)
Lemma bary_sum_one t p : vsum3 (bary ROps t p) = 1.
Proof. unfold vsum3, bary. cbn [vx vy vz]. unfold n1; rops. ring. Qed.

(* squared length of the un-normalised normal *)
Lemma cross2_pos t : nondegenerate t -> 0 < cross2 t.
Proof.
  intros H. unfold cross2. pose proof (vnorm2_nonneg (tri_cross ROps t)) as Hn.
  destruct (Req_dec (vnorm2 ROps (tri_cross ROps t)) 0) as [E|E]; [|lra].
  exfalso; apply H, vnorm2_zero, E.
Qed.

(* orthogonal projection of p onto the plane of t (through ta t with normal tri_cross t) *)

(* the weights with the guard resolved: explicit quotients by s = |n|^2 *)
Lemma bary_nondegenerate t p : nondegenerate t ->
  let u := vsub ROps (tb t) (ta t) in let v := vsub ROps (tc t) (ta t) in
  let n := tri_cross ROps t in let w := vsub ROps p (ta t) in
  let b2 := vdot ROps (vcross ROps u w) n * (1 / cross2 t) in
  let b1 := vdot ROps (vcross ROps w v) n * (1 / cross2 t) in
  bary ROps t p = V3 (1 - b1 - b2) b1 b2.
Proof.
  intros H. pose proof (cross2_pos t H) as Hp. unfold cross2, vnorm2 in *.
  unfold bary, tri_cross in *. unfold n0, n1; rops.
  set (s := vdot ROps _ _) in *.
  destruct (Reqb_spec s 0) as [E|E]; [lra|]. reflexivity.
Qed.

Lemma bary_reconstructs_projection t p : nondegenerate t ->
  bary_combine ROps t (bary ROps t p) = plane_projection t p.
Proof.
  intros H. rewrite (bary_nondegenerate t p H). pose proof (cross2_pos t H) as Hp.
  unfold plane_projection. assert (Hs : cross2 t = vnorm2 ROps (tri_cross ROps t)) by reflexivity.
  assert (Hi : cross2 t * / cross2 t = 1) by (field; lra).
  unfold Rdiv. rewrite !Rmult_1_l. generalize dependent (/ cross2 t). intros i Hi.
  generalize dependent (cross2 t). intros s Hp Hs Hi. clear H Hp.
  destruct t as [[ax ay az] [bx b_y bz] [cx cy cz]], p as [px py pz].
  unfold bary_combine, tri_cross in *; cbn [ta tb tc vx vy vz] in *. vunf_in Hs. vunf.
  apply V3_ext; nsatz.
Qed.

Lemma plane_projection_coplanar t p : nondegenerate t -> coplanar t (plane_projection t p).
Proof.
  intros H. pose proof (cross2_pos t H) as Hp. unfold coplanar, plane_projection.
  assert (Hs : cross2 t = vnorm2 ROps (tri_cross ROps t)) by reflexivity.
  generalize dependent (cross2 t). intros s Hp Hs. clear H.
  destruct (tri_cross ROps t) as [nx ny nz], p as [px py pz], (ta t) as [ax ay az]. vunf_in Hs. vunf.
  subst s. field. lra.
Qed.
Lemma plane_projection_of_coplanar t p : coplanar t p -> plane_projection t p = p.
Proof.
  unfold coplanar, plane_projection. intros H. cbv zeta. rewrite H.
  destruct (tri_cross ROps t), p. vunf. unfold Rdiv. apply V3_ext; ring.
Qed.
Lemma bary_reconstructs_coplanar t p : nondegenerate t -> coplanar t p ->
  bary_combine ROps t (bary ROps t p) = p.
Proof. intros H Hc. rewrite bary_reconstructs_projection by assumption. apply plane_projection_of_coplanar, Hc. Qed.

(* ---- containment: every same-side value is a weight times |n|^2 ------------------------------------ *)
Lemma same_side_values_are_weights t p : nondegenerate t ->
  same_side_value ROps (tb t) (tc t) p (ta t) = vx (bary ROps t p) * cross2 t /\
  same_side_value ROps (ta t) (tc t) p (tb t) = vy (bary ROps t p) * cross2 t /\
  same_side_value ROps (ta t) (tb t) p (tc t) = vz (bary ROps t p) * cross2 t.
Proof.
  intros H. rewrite (bary_nondegenerate t p H). pose proof (cross2_pos t H) as Hp.
  assert (Hs : cross2 t = vnorm2 ROps (tri_cross ROps t)) by reflexivity.
  assert (Hi : cross2 t * / cross2 t = 1) by (field; lra).
  unfold Rdiv. rewrite !Rmult_1_l. generalize dependent (/ cross2 t). intros i Hi.
  generalize dependent (cross2 t). intros s Hp Hs Hi. clear H Hp.
  destruct t as [[ax ay az] [bx b_y bz] [cx cy cz]], p as [px py pz].
  unfold same_side_value, tri_cross in *; cbn [ta tb tc vx vy vz] in *. vunf_in Hs. vunf.
  repeat split; nsatz.
Qed.

Lemma contains_is_three_same_side a b c p :
  tri_contains ROps a b c p =
  (same_side ROps b c p a && same_side ROps a c p b) && same_side ROps a b p c.
Proof. reflexivity. Qed.
Lemma same_side_spec a b p1 p2 :
  same_side ROps a b p1 p2 = true <->
  0 <= vdot ROps (vcross ROps (vsub ROps b a) (vsub ROps p1 a)) (vcross ROps (vsub ROps b a) (vsub ROps p2 a)).
Proof. unfold same_side, same_side_value, n0; rops. apply Rleb_true. Qed.
Lemma same_side_sym a b p1 p2 : same_side ROps a b p1 p2 = same_side ROps a b p2 p1.
Proof. unfold same_side, same_side_value. rewrite vdot_comm. reflexivity. Qed.

Lemma contains_iff_weights_nonneg t p : nondegenerate t ->
  (tri_contains ROps (ta t) (tb t) (tc t) p = true <->
   0 <= vx (bary ROps t p) /\ 0 <= vy (bary ROps t p) /\ 0 <= vz (bary ROps t p)).
Proof.
  intros H. pose proof (cross2_pos t H) as Hp. destruct (same_side_values_are_weights t p H) as (Ea & Eb & Ec).
  unfold tri_contains, same_side, n0; rops. rewrite Ea, Eb, Ec. rewrite !andb_true_iff, !Rleb_true.
  split.
  - intros [[Ha Hb] Hc]. repeat split; nra.
  - intros (Ha & Hb & Hc). repeat split; nra.
Qed.

(* ---- sampling ---------------------------------------------------------------------------------------- *)

Lemma reflect_coeffs_spec ab : unit_draw ab ->
  let c := reflect_coeffs ROps ab in 0 <= fst c /\ 0 <= snd c /\ fst c + snd c <= 1.
Proof.
  destruct ab as [a b]. unfold unit_draw, reflect_coeffs, n1; cbn [fst snd]; rops. intros [Ha Hb].
  destruct (Rltb_spec 1 (a + b)); cbn [fst snd]; lra.
Qed.
Lemma sample_point_in_tri t ab : unit_draw ab -> in_tri t (sample_point ROps t ab).
Proof.
  intros H. pose proof (reflect_coeffs_spec ab H) as (H0 & H1 & H2). unfold sample_point.
  destruct (reflect_coeffs ROps ab) as [c0 c1]. cbn [fst snd] in *.
  exists (V3 (1 - c0 - c1) c0 c1). cbn [vx vy vz]. unfold vsum3; cbn [vx vy vz]. repeat split; try lra.
  destruct t as [[ax ay az] [bx b_y bz] [cx cy cz]]. unfold bary_combine; cbn [ta tb tc vx vy vz]. vunf. apply V3_ext; ring.
Qed.

(* partial sums of the weights *)

Lemma last_cumsum_from r : forall acc w d, last (cumsum_from ROps acc (w :: r)) d = acc + w + Rsum r.
Proof.
  induction r as [|w' r' IH]; intros acc w d.
  - cbn; rops. ring.
  - cbn [cumsum_from]. cbn [cumsum_from] in IH. rops.
    change (last ((acc + w) :: (acc + w + w') :: cumsum_from ROps (acc + w + w') r') d)
      with (last ((acc + w + w') :: cumsum_from ROps (acc + w + w') r') d).
    rewrite IH. cbn [Rsum]. ring.
Qed.
Lemma total_weight_sum ws : total_weight ROps ws = Rsum ws.
Proof.
  unfold total_weight, cumsum, n0; rops. destruct ws as [|w r]; [reflexivity|].
  rewrite last_cumsum_from. cbn [Rsum]. ring.
Qed.

Lemma Rsum_nonneg ws : nonneg_weights ws -> 0 <= Rsum ws.
Proof. induction 1; cbn [Rsum]; lra. Qed.
Lemma nonneg_firstn ws : nonneg_weights ws -> forall j, nonneg_weights (firstn j ws).
Proof.
  induction 1 as [|w r Hw Hr IH]; intros [|j]; cbn [firstn]; try constructor; try assumption. apply IH.
Qed.
Lemma psum_mono ws : nonneg_weights ws -> forall i j, (i <= j)%nat -> psum ws i <= psum ws j.
Proof.
  unfold psum. induction 1 as [|w r Hw Hr IH]; intros i j Hij.
  - rewrite !firstn_nil. lra.
  - destruct i, j; cbn [firstn Rsum]; try lia; try lra.
    + pose proof (Rsum_nonneg (firstn j r) (nonneg_firstn r Hr j)). lra.
    + specialize (IH i j ltac:(lia)). lra.
Qed.
Lemma psum_all ws i : (length ws <= i)%nat -> psum ws i = Rsum ws.
Proof. intros H. unfold psum. rewrite firstn_all2 by exact H. reflexivity. Qed.
Lemma psum_cons x r i : psum (x :: r) (S i) = x + psum r i.
Proof. reflexivity. Qed.
Lemma psum_0 ws : psum ws 0 = 0.
Proof. reflexivity. Qed.
Lemma psum_S ws : forall i w, nth_error ws i = Some w -> psum ws (S i) = psum ws i + w.
Proof.
  induction ws as [|x r IH]; intros [|i] w H; cbn [nth_error] in H; try discriminate.
  - injection H as ->. rewrite psum_cons, !psum_0. ring.
  - rewrite !psum_cons, (IH i w H). ring.
Qed.

(* what the scan returns, for a start value acc: the first partial sum strictly above x *)
Lemma searchsorted_right_cumsum ws x : forall acc,
  let i := searchsorted_right ROps (cumsum_from ROps acc ws) x in
  (i <= length ws)%nat /\
  (forall j, (j < i)%nat -> acc + psum ws (S j) <= x) /\
  ((i < length ws)%nat -> x < acc + psum ws (S i)).
Proof.
  induction ws as [|w r IH]; intros acc; cbn [cumsum_from searchsorted_right length].
  - cbn. repeat split; intros; lia.
  - rops. destruct (Rltb_spec x (acc + w)) as [Hlt|Hge].
    + cbv zeta. repeat split; [lia|intros; lia|]. intros _. unfold psum. cbn. destruct r; cbn; lra.
    + cbv zeta. specialize (IH (acc + w)). cbv zeta in IH. destruct IH as (I1 & I2 & I3).
      set (i := searchsorted_right ROps (cumsum_from ROps (acc + w) r) x) in *. repeat split.
      * lia.
      * intros [|j] Hj.
        { unfold psum. cbn. destruct r; cbn; lra. }
        specialize (I2 j ltac:(lia)). unfold psum in *. cbn [firstn Rsum] in *. lra.
      * intros Hi. specialize (I3 ltac:(lia)). unfold psum in *. cbn [firstn Rsum] in *. lra.
Qed.

Lemma face_choice_spec ws u : nonneg_weights ws -> 0 < Rsum ws -> 0 <= u < 1 ->
  let i := face_choice ROps ws u in
  (i < length ws)%nat /\ psum ws i <= u * Rsum ws < psum ws (S i).
Proof.
  intros Hw HT Hu. unfold face_choice, cumsum, n0. rewrite total_weight_sum; rops.
  pose proof (searchsorted_right_cumsum ws (u * Rsum ws) 0) as H. cbv zeta in H. rops.
  set (i := searchsorted_right ROps (cumsum_from ROps 0 ws) (u * Rsum ws)) in *.
  destruct H as (H1 & H2 & H3). cbv zeta.
  assert (Hx : 0 <= u * Rsum ws < Rsum ws) by nra.
  assert (Hi : (i < length ws)%nat).
  { destruct (Nat.eq_dec i (length ws)) as [E|E]; [|lia]. exfalso.
    destruct (length ws) as [|n] eqn:El.
    - destruct ws; [cbn in HT; lra|discriminate].
    - specialize (H2 n ltac:(lia)). rewrite psum_all in H2 by lia. lra. }
  split; [exact Hi|]. split; [|specialize (H3 Hi); lra].
  destruct i as [|j]; [unfold psum; cbn; lra|]. specialize (H2 j ltac:(lia)). lra.
Qed.

(* face i is chosen exactly on the half-open interval [psum i, psum (i+1)) of u * total *)
Lemma sample_face_interval ws u i : nonneg_weights ws -> 0 < Rsum ws -> 0 <= u < 1 ->
  (face_choice ROps ws u = i <-> (i < length ws)%nat /\ psum ws i <= u * Rsum ws < psum ws (S i)).
Proof.
  intros Hw HT Hu. pose proof (face_choice_spec ws u Hw HT Hu) as H. cbv zeta in H.
  split; [intros <-; exact H|]. intros (Hi & Hlo & Hhi). destruct H as (Hk & Klo & Khi).
  set (k := face_choice ROps ws u) in *.
  destruct (Nat.lt_trichotomy k i) as [L|[E|L]]; [|exact E|]; exfalso.
  - pose proof (psum_mono ws Hw (S k) i ltac:(lia)). lra.
  - pose proof (psum_mono ws Hw (S i) k ltac:(lia)). lra.
Qed.

Lemma sample_never_zero_weight ws u : nonneg_weights ws -> 0 < Rsum ws -> 0 <= u < 1 ->
  exists w, nth_error ws (face_choice ROps ws u) = Some w /\ 0 < w.
Proof.
  intros Hw HT Hu. destruct (face_choice_spec ws u Hw HT Hu) as (Hi & Hlo & Hhi).
  destruct (nth_error ws (face_choice ROps ws u)) as [w|] eqn:E; [|apply nth_error_None in E; lia].
  exists w; split; [reflexivity|]. rewrite (psum_S _ _ _ E) in Hhi. lra.
Qed.

(* the rule of the unrepaired code (side="left") does pick a zero-weight face: weights [0,1], draw 0 *)
Lemma left_rule_picks_zero_weight_face :
  face_choice_left ROps [0; 1] 0 = 0%nat /\ nth_error [0; 1] 0 = Some 0.
Proof.
  split; [|reflexivity]. unfold face_choice_left, total_weight, cumsum, n0. cbn [cumsum_from last searchsorted_left]; rops.
  destruct (Rleb_spec (0 * (0 + 0 + 1)) (0 + 0)); [reflexivity|lra].
Qed.
Lemma right_rule_on_that_input : face_choice ROps [0; 1] 0 = 1%nat.
Proof.
  unfold face_choice, total_weight, cumsum, n0. cbn [cumsum_from last searchsorted_right]; rops.
  destruct (Rltb_spec (0 * (0 + 0 + 1)) (0 + 0)); [lra|].
  destruct (Rltb_spec (0 * (0 + 0 + 1)) (0 + 0 + 1)); [reflexivity|lra].
Qed.

(* whole call *)
Lemma sample_all_spec ts ws : forall us abs l, length us = length abs ->
  sample_all ROps ts ws us abs = Ok l ->
  length l = length us /\
  forall k, (k < length us)%nat -> exists u ab t,
    nth_error us k = Some u /\ nth_error abs k = Some ab /\ nth_error ts (face_choice ROps ws u) = Some t /\
    nth_error l k = Some (sample_point ROps t ab, face_choice ROps ws u).
Proof.
  induction us as [|u ur IH]; intros [|ab abr] l Hlen H; cbn [sample_all] in H; try discriminate.
  - injection H as <-. split; [reflexivity|]. cbn; intros; lia.
  - unfold sample_one in H. destruct (nth_error ts (face_choice ROps ws u)) as [t|] eqn:Et; [|discriminate].
    destruct (sample_all ROps ts ws ur abr) as [l'|e] eqn:El; cbn [cons_res] in H; [|discriminate].
    injection H as <-. destruct (IH abr l' ltac:(cbn in Hlen; lia) El) as [L1 L2].
    split; [cbn; lia|]. intros [|k] Hk.
    + exists u, ab, t. cbn. auto.
    + destruct (L2 k ltac:(cbn in Hk; lia)) as (u' & ab' & t' & A & B & C & D). exists u', ab', t'. cbn. auto.
Qed.

(* ---- quads_to_tris, edges_of_faces: any number of faces ------------------------------------------------ *)
Lemma quads_to_tris_length qs : length (quads_to_tris qs) = (2 * length qs)%nat.
Proof. unfold quads_to_tris. induction qs as [|q r IH]; [reflexivity|]. cbn [flat_map quad_tris app length] in *. lia. Qed.
Lemma quads_to_tris_rows qs : forall i q, nth_error qs i = Some q ->
  nth_error (quads_to_tris qs) (2 * i) = Some (Face (q0 q) (q1 q) (q2 q)) /\
  nth_error (quads_to_tris qs) (2 * i + 1) = Some (Face (q0 q) (q2 q) (q3 q)).
Proof.
  induction qs as [|x r IH]; intros [|i] q H; cbn [nth_error] in H; try discriminate.
  - injection H as ->. split; reflexivity.
  - destruct (IH i q H) as [A B]. replace (2 * S i)%nat with (S (S (2 * i))) by lia.
    replace (S (S (2 * i)) + 1)%nat with (S (S (2 * i + 1))) by lia. split; [exact A|exact B].
Qed.
Lemma quads_mapping_rows qs i : (i < length qs)%nat ->
  nth_error (quads_mapping qs) i = Some (2 * Z.of_nat i, 2 * Z.of_nat i + 1)%Z.
Proof.
  intros H. unfold quads_mapping. rewrite nth_error_map, nth_error_nth' with (d := 0%nat) by (rewrite seq_length; exact H).
  rewrite seq_nth by exact H. reflexivity.
Qed.
Lemma quads_mapping_length qs : length (quads_mapping qs) = length qs.
Proof. unfold quads_mapping. rewrite map_length, seq_length. reflexivity. Qed.

(* the two triangles of a quad carry the quad's area vector: cross(q2 - q0, q3 - q1) *)
Lemma quad_split_area_vector (p0 p1 p2 p3 : vec3 R) :
  vadd ROps (tri_cross ROps (Tri p0 p1 p2)) (tri_cross ROps (Tri p0 p2 p3)) =
  vcross ROps (vsub ROps p2 p0) (vsub ROps p3 p1).
Proof.
  destruct p0 as [x0 y0 z0], p1 as [x1 y1 z1], p2 as [x2 y2 z2], p3 as [x3 y3 z3].
  unfold tri_cross; cbn [ta tb tc]. vunf. apply V3_ext; ring.
Qed.

Lemma flat_edges_length fs : length (flat_map face_edges fs) = (3 * length fs)%nat.
Proof. induction fs as [|f r IH]; [reflexivity|]. cbn [flat_map face_edges app length] in *. lia. Qed.
Lemma flat_edges_rows fs : forall i f, nth_error fs i = Some f ->
  nth_error (flat_map face_edges fs) (3 * i) = Some (f0 f, f1 f) /\
  nth_error (flat_map face_edges fs) (3 * i + 1) = Some (f1 f, f2 f) /\
  nth_error (flat_map face_edges fs) (3 * i + 2) = Some (f2 f, f0 f).
Proof.
  induction fs as [|x r IH]; intros [|i] f H; cbn [nth_error] in H; try discriminate.
  - injection H as ->. repeat split; reflexivity.
  - destruct (IH i f H) as (A & B & C). replace (3 * S i)%nat with (S (S (S (3 * i)))) by lia.
    replace (S (S (S (3 * i))) + 1)%nat with (S (S (S (3 * i + 1)))) by lia.
    replace (S (S (S (3 * i))) + 2)%nat with (S (S (S (3 * i + 2)))) by lia. repeat split; assumption.
Qed.
Lemma edges_of_faces_length nz fs : length (edges_of_faces nz fs) = (3 * length fs)%nat.
Proof. unfold edges_of_faces. destruct nz; [rewrite map_length|]; apply flat_edges_length. Qed.
(* every face contributes its three edges (a,b), (b,c), (c,a), in winding order, at rows 3i, 3i+1, 3i+2;
   with normalize each row is the same edge with its end points in ascending order *)
Lemma edges_each_once (nz : bool) fs i f : nth_error fs i = Some f ->
  let g := if nz then sort2 else (fun e : Z * Z => e) in
  nth_error (edges_of_faces nz fs) (3 * i) = Some (g (f0 f, f1 f)) /\
  nth_error (edges_of_faces nz fs) (3 * i + 1) = Some (g (f1 f, f2 f)) /\
  nth_error (edges_of_faces nz fs) (3 * i + 2) = Some (g (f2 f, f0 f)).
Proof.
  intros H. destruct (flat_edges_rows fs i f H) as (A & B & C). unfold edges_of_faces. destruct nz; cbv zeta.
  - rewrite !nth_error_map, A, B, C. repeat split; reflexivity.
  - auto.
Qed.
Lemma sort2_spec e : (fst (sort2 e) <= snd (sort2 e))%Z /\ (sort2 e = e \/ sort2 e = (snd e, fst e)).
Proof. unfold sort2. destruct (Z.leb_spec (fst e) (snd e)); cbn [fst snd]; split; auto; lia. Qed.

(* ---- glue lemmas for props/C15.v ------------------------------------------------------------------------ *)
Lemma stacked_is_map_single ts k :
  nth_error (surface_normals_raw ROps ts) k = option_map (surface_normal_raw ROps) (nth_error ts k) /\
  nth_error (surface_normals_unit ROps ts) k = option_map (surface_normal_unit ROps) (nth_error ts k) /\
  nth_error (surface_areas ROps ts) k = option_map (surface_area ROps) (nth_error ts k).
Proof. unfold surface_normals_raw, surface_normals_unit, surface_areas. rewrite !nth_error_map. auto. Qed.
Lemma bary_pairs_is_map_single ts ps k t p :
  nth_error ts k = Some t -> nth_error ps k = Some p ->
  nth_error (bary_pairs ROps ts ps) k = Some (bary ROps t p).
Proof. intros A B. unfold bary_pairs. rewrite nth_error_map2, A, B. reflexivity. Qed.
Lemma projection_is_orthogonal_projection t p : nondegenerate t ->
  coplanar t (plane_projection t p) /\
  (exists k, plane_projection t p = vsub ROps p (vscale ROps k (tri_cross ROps t))) /\
  (coplanar t p -> plane_projection t p = p).
Proof.
  intros H. split; [apply plane_projection_coplanar, H|]. split; [|apply plane_projection_of_coplanar].
  eexists. reflexivity.
Qed.
Lemma sample_count_and_rows ts weights us abs l : ts <> [] -> length us = length abs ->
  sample ROps ts weights us abs = Ok l ->
  let ws := match weights with Some w => w | None => surface_areas ROps ts end in
  length l = length us /\
  forall k, (k < length us)%nat -> exists u ab t,
    nth_error us k = Some u /\ nth_error abs k = Some ab /\ nth_error ts (face_choice ROps ws u) = Some t /\
    nth_error l k = Some (sample_point ROps t ab, face_choice ROps ws u).
Proof.
  intros Hts Hlen H. unfold sample in H. destruct ts as [|t0 tr]; [contradiction|].
  cbv zeta. apply (sample_all_spec _ _ us abs l Hlen H).
Qed.
Lemma sample_inside_named_face ts weights us abs l p i :
  length us = length abs -> Forall unit_draw abs ->
  sample ROps ts weights us abs = Ok l -> In (p, i) l ->
  exists t, nth_error ts i = Some t /\ in_tri t p.
Proof.
  intros Hlen Hd H Hin. destruct ts as [|t0 tr].
  - cbn in H. injection H as <-. destruct Hin.
  - destruct (sample_count_and_rows (t0 :: tr) weights us abs l ltac:(discriminate) Hlen H) as [L R].
    apply In_nth_error in Hin. destruct Hin as [k Hk].
    assert (Hkl : (k < length us)%nat) by (rewrite <- L; apply nth_error_Some; congruence).
    destruct (R k Hkl) as (u & ab & t & A & B & C & D). rewrite D in Hk. injection Hk as <- <-.
    exists t; split; [exact C|]. apply sample_point_in_tri.
    apply (proj1 (Forall_forall _ _) Hd). eapply nth_error_In, B.
Qed.
Lemma sample_deterministic ts weights us abs us' abs' :
  us = us' -> abs = abs' -> sample ROps ts weights us abs = sample ROps ts weights us' abs'.
Proof. intros -> ->. reflexivity. Qed.
Lemma area_weights_admissible ts :
  nonneg_weights (surface_areas ROps ts) /\ (Exists nondegenerate ts -> 0 < Rsum (surface_areas ROps ts)).
Proof.
  split.
  - unfold nonneg_weights, surface_areas. apply Forall_forall. intros w Hw. apply in_map_iff in Hw.
    destruct Hw as (t & <- & _). apply area_nonneg.
  - induction 1 as [t r Ht|t r _ IH]; unfold surface_areas; cbn [map Rsum].
    + assert (Hr : 0 <= Rsum (map (surface_area ROps) r)).
      { apply Rsum_nonneg, Forall_forall. intros w Hw. apply in_map_iff in Hw. destruct Hw as (t' & <- & _). apply area_nonneg. }
      pose proof (area_nonneg t). destruct (Req_dec (surface_area ROps t) 0) as [E|E]; [|lra].
      apply area_zero_iff_degenerate in E. contradiction.
    + pose proof (area_nonneg t). unfold surface_areas in IH. lra.
Qed.
Lemma quads_to_tris_winding qs :
  length (quads_to_tris qs) = (2 * length qs)%nat /\ length (quads_mapping qs) = length qs /\
  forall i q, nth_error qs i = Some q ->
    nth_error (quads_to_tris qs) (2 * i) = Some (Face (q0 q) (q1 q) (q2 q)) /\
    nth_error (quads_to_tris qs) (2 * i + 1) = Some (Face (q0 q) (q2 q) (q3 q)) /\
    nth_error (quads_mapping qs) i = Some (2 * Z.of_nat i, 2 * Z.of_nat i + 1)%Z.
Proof.
  split; [apply quads_to_tris_length|]. split; [apply quads_mapping_length|]. intros i q H.
  destruct (quads_to_tris_rows qs i q H) as [A B]. repeat split; try assumption.
  apply quads_mapping_rows. apply nth_error_Some. congruence.
Qed.
Lemma nondegenerate_example : nondegenerate (Tri (V3 0 0 0) (V3 1 0 0) (V3 0 1 0)).
Proof. unfold nondegenerate, tri_cross; cbn [ta tb tc]. vunf. intros H. injection H as _ _ H. lra. Qed.
Lemma weights_example : nonneg_weights [0; 1; 0; 2] /\ 0 < Rsum [0; 1; 0; 2].
Proof. split; [repeat constructor; lra|cbn; lra]. Qed.

(* ---- frequency clause: the preimage of face i under the face draw is an interval of length w_i / T ------------ *)
Lemma psum_nonneg ws i : nonneg_weights ws -> 0 <= psum ws i.
Proof. intros H. unfold psum. apply Rsum_nonneg, nonneg_firstn, H. Qed.
Lemma psum_le_total ws i : nonneg_weights ws -> psum ws i <= Rsum ws.
Proof.
  intros H. destruct (Nat.le_gt_cases i (length ws)) as [L|L].
  - rewrite <- (psum_all ws (length ws)) by lia. apply psum_mono; assumption.
  - rewrite psum_all by lia. lra.
Qed.
Lemma sample_face_preimage ws i w : nonneg_weights ws -> 0 < Rsum ws -> nth_error ws i = Some w ->
  let T := Rsum ws in let a := psum ws i / T in let b := psum ws (S i) / T in
  0 <= a /\ b <= 1 /\ b - a = w / T /\
  (forall u, 0 <= u < 1 -> (face_choice ROps ws u = i <-> a <= u < b)) /\
  (forall u1 u2, 0 <= u1 < 1 -> 0 <= u2 < 1 -> face_choice ROps ws u1 = i -> face_choice ROps ws u2 = i ->
     Rabs (u1 - u2) < w / T).
Proof.
  intros Hw HT Hi. cbv zeta. set (T := Rsum ws) in *.
  pose proof (psum_nonneg ws i Hw) as H0. pose proof (psum_le_total ws (S i) Hw) as H1. fold T in H1.
  pose proof (psum_S ws i w Hi) as HS.
  assert (Hlen : (i < length ws)%nat) by (apply nth_error_Some; congruence).
  assert (Ea : psum ws i = psum ws i / T * T) by (field; lra).
  assert (Eb : psum ws (S i) = psum ws (S i) / T * T) by (field; lra).
  set (a := psum ws i / T) in *. set (b := psum ws (S i) / T) in *.
  assert (A0 : 0 <= a) by (apply Rmult_le_reg_r with T; lra).
  assert (B1 : b <= 1) by (apply Rmult_le_reg_r with T; lra).
  assert (Eq : forall u, 0 <= u < 1 -> (face_choice ROps ws u = i <-> a <= u < b)).
  { intros u Hu. rewrite (sample_face_interval ws u i Hw HT Hu). fold T. rewrite Ea, Eb. split.
    - intros (_ & L & U). split; [apply Rmult_le_reg_r with T; lra|apply Rmult_lt_reg_r with T; lra].
    - intros (L & U). split; [exact Hlen|]. split; [apply Rmult_le_compat_r; lra|apply Rmult_lt_compat_r; lra]. }
  split; [exact A0|]. split; [exact B1|]. split; [unfold a, b; rewrite HS; field; lra|]. split; [exact Eq|].
  intros u1 u2 Hu1 Hu2 F1 F2. apply Eq in F1; [|exact Hu1]. apply Eq in F2; [|exact Hu2].
  replace (w / T) with (b - a) by (unfold a, b; rewrite HS; field; lra).
  unfold Rabs. destruct (Rcase_abs (u1 - u2)); lra.
Qed.

(* ---- more glue for props/C15.v (every theorem there is closed by a bare `exact`) -------------------------------- *)
Lemma contains_iff_weights_nonneg_coplanar t p : nondegenerate t -> coplanar t p ->
  (tri_contains ROps (ta t) (tb t) (tc t) p = true <->
   0 <= vx (bary ROps t p) /\ 0 <= vy (bary ROps t p) /\ 0 <= vz (bary ROps t p)).
Proof. intros H _. exact (contains_iff_weights_nonneg t p H). Qed.
Lemma sample_empty (weights : option (list R)) us abs : sample ROps [] weights us abs = Ok [].
Proof. reflexivity. Qed.
Lemma left_and_right_rule :
  (face_choice_left ROps [0; 1] 0 = 0%nat /\ nth_error [0; 1] 0%nat = Some 0) /\ face_choice ROps [0; 1] 0 = 1%nat.
Proof. exact (conj left_rule_picks_zero_weight_face right_rule_on_that_input). Qed.
Lemma edges_each_once_all (nz : bool) fs :
  length (edges_of_faces nz fs) = (3 * length fs)%nat /\
  forall i f, nth_error fs i = Some f ->
    let g := if nz then sort2 else (fun e : Z * Z => e) in
    nth_error (edges_of_faces nz fs) (3 * i) = Some (g (f0 f, f1 f)) /\
    nth_error (edges_of_faces nz fs) (3 * i + 1) = Some (g (f1 f, f2 f)) /\
    nth_error (edges_of_faces nz fs) (3 * i + 2) = Some (g (f2 f, f0 f)).
Proof. split; [apply edges_of_faces_length|]. intros i f H. exact (edges_each_once nz fs i f H). Qed.

(* ---- sample succeeds on the property's domain -------------------------------------------------------------------- *)
Lemma sample_all_succeeds ts ws : length ws = length ts -> nonneg_weights ws -> 0 < Rsum ws ->
  forall us abs, face_draws us -> length us = length abs ->
  exists l, sample_all ROps ts ws us abs = Ok l /\ length l = length us.
Proof.
  intros Hl Hw HT. induction us as [|u ur IH]; intros [|ab abr] Hu Hlen; cbn [length] in Hlen; try discriminate.
  - exists []. split; reflexivity.
  - inversion Hu as [|? ? Hu0 Hur]; subst. destruct (IH abr Hur ltac:(lia)) as (l & El & Ll).
    destruct (face_choice_spec ws u Hw HT Hu0) as (Hi & _). cbv zeta in Hi.
    cbn [sample_all]. unfold sample_one.
    destruct (nth_error ts (face_choice ROps ws u)) as [t|] eqn:E; [|apply nth_error_None in E; lia].
    rewrite El. cbn [cons_res]. eexists. split; [reflexivity|]. cbn [length]. lia.
Qed.
(* with supplied weights, and with the default area weights (at least one triangle of non-zero area) *)
Lemma sample_succeeds ts us abs : ts <> [] -> face_draws us -> length us = length abs ->
  (forall ws, length ws = length ts -> nonneg_weights ws -> 0 < Rsum ws ->
     exists l, sample ROps ts (Some ws) us abs = Ok l /\ length l = length us) /\
  (Exists nondegenerate ts -> exists l, sample ROps ts None us abs = Ok l /\ length l = length us).
Proof.
  intros Hne Hu Hlen. destruct ts as [|t0 tr]; [contradiction|]. split.
  - intros ws Hl Hw HT. unfold sample. apply sample_all_succeeds; assumption.
  - intros He. unfold sample. destruct (area_weights_admissible (t0 :: tr)) as [Hw HT].
    apply sample_all_succeeds; try assumption; [unfold surface_areas; apply map_length|apply HT, He].
Qed.

(* ---- barycentric weights on integer arrays ------------------------------------------------------------------------- *)
Lemma bary_intarray_spec t p :
  (nondegenerate t -> bary_intarray ROps t p = Some (bary ROps t p)) /\
  (~ nondegenerate t -> bary_intarray ROps t p = None).
Proof.
  unfold bary_intarray, n0; rops. split; intros H.
  - pose proof (cross2_pos t H) as Hp. unfold cross2, vnorm2 in Hp.
    destruct (Reqb_spec (vdot ROps (tri_cross ROps t) (tri_cross ROps t)) 0); [lra|reflexivity].
  - destruct (Reqb_spec (vdot ROps (tri_cross ROps t) (tri_cross ROps t)) 0) as [E|E]; [reflexivity|].
    exfalso. apply H. intros Hz. apply E. rewrite Hz. vunf. ring.
Qed.
